#!/bin/bash
cd /verif
export GOFLAGS=-mod=mod GOPROXY=off GOSUMDB=off GOTOOLCHAIN=local
L=/var/tmp/multiseed.log; rm -f $L
run() { s=$1; p=$2; out=$(VERIF_SEED=$s timeout 3000 bin/check $p --tier quick 2>&1 | grep -E "^(OK|VIOLATION)" | cut -c1-160 | tr '\n' ' '); echo "seed=$s $p $out" >> $L; }
for s in 2 3; do
for p in C01 C02 C03 C07 C11 C12 C13 C14 C15 C17 C18 C19 C04 C05 C06 C08 C09 C10 C16; do
  while [ $(jobs -r | wc -l) -ge 4 ]; do sleep 2; done
  run $s $p &
done
done
wait
echo DONE >> $L
