#!/bin/bash
cd /verif
export GOFLAGS=-mod=mod GOPROXY=off GOSUMDB=off GOTOOLCHAIN=local
L=/var/tmp/refac_rerun.log; rm -f $L
run() { n=$1; shift; W=/var/tmp/refw_$n; git -C /repo worktree add -q --detach $W HEAD; git -C $W apply /verif/seeded/refactorings/refac_$n.diff || echo "refac_$n APPLYFAIL" >> $L
  for c in "$@"; do out=$(VERIF_REPO=$W timeout 3000 bin/check $c 2>&1 | grep -E "^(OK|VIOLATION)" | cut -c1-160 | tr '\n' ' '); echo "refac_$n $c $out" >> $L; done
  git -C /repo worktree remove --force $W; }
run 1 C16 C05 C10 C09
run 2 C04 C10 C09
run 3 C01 C14 C02
run 4 C02 C18
run 5 C01 C14 C18
run 6 C02 C11 C18
run 7 C03 C07
run 8 C12
for d in C09 r2_C09 r3_C09; do echo "== $d" >> $L; IN_WORKTREE=1 bin/try_mutant seeded/$d C09 2>&1 | cut -c1-100 >> $L; done
echo DONE >> $L
