#!/bin/bash
cd /verif
rm -f /var/tmp/all_quick.log
run() { p=$1; out=$(timeout 3000 bin/check $p --tier quick 2>&1 | grep -E "^(OK|VIOLATION)" | cut -c1-160 | tr '\n' ' '); echo "$p $out" >> /var/tmp/all_quick.log; }
for p in C01 C02 C03 C04 C05 C06 C07 C08 C09 C10 C11 C12 C13 C14 C15 C16 C17 C18 C19; do
  while [ $(jobs -r | wc -l) -ge 4 ]; do sleep 2; done
  run $p &
done
wait
echo DONE >> /var/tmp/all_quick.log
