import json,glob,os,subprocess,sys
from concurrent.futures import ThreadPoolExecutor
os.chdir('/verif')
env=dict(os.environ,GOFLAGS='-mod=mod',GOPROXY='off',GOSUMDB='off',GOTOOLCHAIN='local',IN_WORKTREE='1')
jobs=[]
for d in sorted(glob.glob('seeded/*/meta.json')):
    dd=os.path.dirname(d)
    if not os.path.exists(dd+'/patch.diff'): continue
    m=json.load(open(d)); cb=m.get('caught_by')
    if isinstance(cb,str):
        try: cb=eval(cb)
        except Exception: cb={}
    if not isinstance(cb,dict) or not cb:
        cb={m.get('property','C01'):''}
    chk=sorted(cb.keys())[0] if m.get('property') not in cb else m.get('property')
    jobs.append((dd,chk))
def run(j):
    dd,chk=j
    if os.path.exists(dd+'/demo.sh') or 'C15' in dd:
        W='/var/tmp/seedw_'+os.path.basename(dd)
        subprocess.run(['git','-C','/repo','worktree','add','-q','--detach',W,'HEAD'])
        a=subprocess.run(['git','-C',W,'apply',os.path.abspath(dd+'/patch.diff')],capture_output=True)
        out='APPLYFAIL' if a.returncode else ''
        if not out:
            e=dict(env,VERIF_REPO=W)
            p=subprocess.run(['bin/check',chk],capture_output=True,env=e,timeout=4000)
            out=' '.join(l[:150] for l in p.stdout.decode().split('\n') if l.startswith(('OK','VIOLATION')))
        subprocess.run(['git','-C','/repo','worktree','remove','--force',W])
        res="%s [%s] (C sources) %s"%(dd,chk,out)
    else:
        p=subprocess.run(['bin/try_mutant',dd,chk],capture_output=True,env=env,timeout=6000)
        res="%s [%s] %s"%(dd,chk,' | '.join(l[:170] for l in p.stdout.decode().split('\n') if l.strip()))
    open('/var/tmp/seed_all.log','a').write(res+'\n')
open('/var/tmp/seed_all.log','w').close()
with ThreadPoolExecutor(3) as ex: list(ex.map(run,jobs))
open('/var/tmp/seed_all.log','a').write('DONE\n')
