#!/usr/bin/env python3
"""Regenerates MANIFEST.json from the table below (keeps it valid at all times)."""
import json, os
ROOT = os.path.dirname(os.path.dirname(os.path.abspath(__file__)))
ALL = ["C%02d" % i for i in range(1, 20)]

CHECKS = {
 "C17": dict(
   text="Coq theorems over the faithful model of log2/sizesToSegments/suggestCompactionSegment for ALL size vectors (valid range, none-iff, progress, every merged table moves up a size class) and for all N (depth <= log2 N + 1 under measured size hypotheses; additive cost <= N log2 N); model tied to the code on every run by exhaustive short vectors + random vectors + real single-writer workloads (chooser input -> range actually compacted), depth/cost monitored through the public Add",
   design="5/C17", technique="Coq proof (induction over the size vector / over N) + extracted-model differential tie",
   note="depth/cost clauses are proved under hypotheses on the merged table's byte size that the check measures rather than derives; uint64 wrap of size sums not modelled; tie = differential testing"),
}

NA_REASON = "not built yet in this round (see DESIGN.md section 7 for the order of work); no check is registered, nothing is claimed"

def main():
    checks = []
    for p in ALL:
        if p not in CHECKS:
            continue
        c = CHECKS[p]
        checks.append({
            "property_id": p,
            "quick_cmd": "bin/check %s --tier quick" % p,
            "thorough_cmd": "bin/check %s --tier thorough" % p,
            "evidence_file": "/verif/evidence/%s.json" % p,
            "replay_cmd_template": "bin/check %s --replay {path}" % p,
            "engine": "coq+tie",
            "level_claimed": {"category": c.get("category", "proof"), "text": c["text"], "design_ref": "DESIGN.md section " + c["design"]},
            "level_note": c["note"],
            "technique": c["technique"],
        })
    m = {
        "version": 1,
        "setup_cmd": "bin/setup",
        "hooks": {
            "guard": "verif",
            "enable": "checks copy /repo's working tree to a scratch directory, add //go:build verif exporter files (harness/export/) to the copy and build the harness with -tags verif; nothing is committed to /repo",
            "baseline_off_cmd": "cd /repo && GOFLAGS=-mod=mod GOPROXY=off go test -count=1 ./...",
            "source_commits": [],
            "add_only": True,
        },
        "engines": [{"name": "coq+tie", "path": "bin/check", "serves_properties": sorted(CHECKS),
                     "kind_free_text": "Coq 8.16.1 theorems about a hand-written Gallina model + correspondence check (extracted OCaml model vs Go implementation built from /repo's working tree)"}],
        "checks": checks,
        "not_applicable": [{"property_id": p, "reason": NA_REASON} for p in ALL if p not in CHECKS],
        "notes": "See DESIGN.md. known_findings.json lists genuine defects (finding / fixed).",
    }
    with open(os.path.join(ROOT, "MANIFEST.json"), "w") as f:
        json.dump(m, f, indent=1)

main()
