#!/usr/bin/env python3
"""Regenerates MANIFEST.json from the table below (keeps it valid at all times)."""
import json, os
ROOT = os.path.dirname(os.path.dirname(os.path.abspath(__file__)))
ALL = ["C%02d" % i for i in range(1, 20)]

CHECKS = {
 "C17": dict(
   text="Coq theorems over the faithful model of log2/sizesToSegments/suggestCompactionSegment for ALL size vectors (valid range, none-iff, progress, every merged table moves up a size class) and for all N (depth <= log2 N + 1 under measured size hypotheses; additive cost <= N log2 N); model tied to the code on every run by exhaustive short vectors + random vectors + real single-writer workloads (chooser input -> range actually compacted), depth/cost monitored through the public Add",
   design="5/C17", technique="Coq proof (induction over the size vector / over N) + extracted-model differential tie",
   note="depth/cost clauses are proved under hypotheses on the merged table's byte size that the check measures rather than derives; uint64 wrap of size sums not modelled; tie = differential testing"),
 "C03": dict(
   text="Coq theorems: the array heap + merged iterator exactly as coded (sift-up/sift-down over a slice, pqLess tie-break, same-key dropping, deletion suppression) equals the newest-table-wins overlay for ALL stacks of sorted tables and ALL seek keys, generic in the record type (refs and logs); tied on every run to NewMerged/Merged over real tables (scans, seeks, RefsFor, raw and suppressing view)",
   design="5/C03", technique="Coq proof (heap invariant + merge invariant by induction on remaining records) + extracted-model differential tie",
   note="per-table seek is the model reader's (C02); Go runtime, slices and interfaces modelled as lists; tie = differential testing with generated stacks"),
 "C07": dict(
   text="Coq theorems at two levels. Decoded tables: compacting ANY contiguous range (and any sequence of such compactions) leaves the stack's ref view and reflog view identical; tombstones survive unless the range starts at the bottom; result ranges stay increasing. Byte level (C07_bytes_history, over Model/StackSeq.v = merge, WRITE the table bytes, READ them back, composed from the C01 round-trip theorem): for ANY history of Adds (with/without auto-compaction), multi-table Additions, compactions of arbitrary ranges, CompactAll and expiry, in any write configuration, the view after every step equals a specification that never mentions tables (only successful Adds and expiry change it); a failed or refused operation has no effect; Add succeeds iff its transaction is applied. Tied on every run: real Stack histories (Add, auto-compaction, compactRange of arbitrary ranges, CompactAll) vs the composed model (byte-exact model writer + model reader + compact_range + suggest); view-level oracle on the implementation's own observations",
   design="5/C07", technique="Coq proof (overlay algebra via lookup extensionality) + extracted-model differential tie on stack histories",
   note="byte-level theorems assume transaction records in the writer's documented domain and every written file < 2^64 bytes (hist_ok, shown satisfiable by a vm_compute example with the stored codec); zlib by the three C01 hypotheses; single handle (interleavings are C04)"),
 "C12": dict(
   text="Coq theorems: the validator as coded (sort.SearchStrings, prefix scan skipping deleted names, parent walk) accepts a transaction IFF the resulting set of live names is conflict-free, for all views and transactions; invariant over all histories; delete-a-and-create-a/b accepted; multi-table Additions (C12_addition: every table validated against the view including the Addition's earlier tables); tied on every run through Stack.Add and through NewAddition/Add.../Commit with 2..3 tables over a conflict-rich 14-name alphabet, with the extracted conflict_free_b as oracle",
   design="5/C12", technique="Coq proof (sound+complete validator, invariant by induction over histories) + extracted-model differential tie",
   note="a multi-table Addition is judged table by table (what the code does after fix S5; C12_addition_pinned_refuted is the regression statement for the pinned behaviour); linear scan in place of binary search on ascending input"),
 "C13": dict(
   text="Coq theorems: CompactAll with an expiry configuration yields exactly filter keep_log of the previous reflog view with refs untouched, for all stacks and all configurations; keep_log is proved equivalent to the documented rule (time strictly older / index outside window; 0 = unset). C13_bytes_exact: the same for the byte-level composition (merge, filter, write the bytes, read them back). Tied on every run: real CompactAll(expiry) on histories vs the composed model, oracle computed from the implementation's own before/after views",
   design="5/C13", technique="Coq proof (corollary of the compaction algebra) + extracted-model differential tie",
   note="as C07"),
 "C01": dict(
   text="Coq theorem C01_roundtrip over the faithful writer and reader models: for ANY sorted refs and logs in the documented domain, ANY configuration (block size, restart interval, padded / unaligned, object index or not, both hash sizes, exact or normalised messages) and limits, if the writer accepts them then opening the bytes and scanning returns exactly those refs and exactly those (normalised) logs -- through all sections, padding, index levels, the object index, header/footer/CRC and the log-block window retry. Plus the layers below it (varint, key, four record codecs, whole blocks). Tied on every run: Go writer bytes = model bytes byte-for-byte, every scan/seek/RefsFor result equal; unit tie of the block writer at the restart cap",
   design="5/C01", technique="Coq proof (bottom-up round trips, block invariant, table layout invariant) + byte-exact extracted-model tie",
   note="zlib is an oracle with three stated hypotheses (round trip with exact length; truncated stream reports truncation; no blow-up beyond 2^30), proved satisfiable by a Gallina stored codec; table size < 2^64; block size 0 or 64..2^24"),
 "C02": dict(
   text="Coq theorems C02_seek_ref / C02_seek_log over the same models: for every table the writer produces (no index, one or several levels, multi-block top level, any block size / padding / restart interval) and EVERY key, SeekRef / SeekLog followed by iteration yields exactly the scan suffix from the first record >= key and never fails; block-level seek theorem; log key order and injectivity. The proof found that SeekLog of the zero-record key rewound the section (fixed). Tied on every run over all key equivalence classes",
   design="5/C02", technique="Coq proof (block seek + index descent by induction over levels) + extracted-model tie over key equivalence classes",
   note="as C01"),
 "C11": dict(
   text="Coq theorems: C11_table -- for every written table (object index present / absent / position lists dropped / multi-block with its own index) and EVERY object id, RefsFor = filter (points_to oid) of the refs, in name order with absolute update indices; C11_merged -- Merged.RefsFor with its double check = the live refs of the stack's view pointing at oid, never a ref deleted or re-pointed in a newer table. Tied on every run: tables per object id (occurring, prefix-sharing, absent) and stacks of 1..6 real tables",
   design="5/C11", technique="Coq proof (object-index invariant of the writer + abbreviation injectivity + seek theorem; overlay algebra for stacks) + extracted-model tie",
   note="as C01; table size < 2^59 (the footer has 59 bits for the object-section position); the stack-level theorem is over decoded tables"),
 "C14": dict(
   text="Coq theorem C14_wellformed: for EVERY accepted configuration and record set (any block size, padding, restart interval, hash, object index on/off, any number of blocks and index levels) the bytes the writer model emits are accepted by the independent spec decoder (written from the format description: header copy, CRC-32, positions, zero padding, restart tables, key order within and across blocks, every index level vs its children, object index vs ref blocks, update-index range) and decode to exactly the records written; C14_padded: with padding on, every block in front of the log section starts on a block boundary (a separate judgement, spec_aligned, because the file does not record whether it is padded). Tied on every run: Go writer bytes = model writer bytes; additionally every file the implementation emits (C01 tables, tables written by Add and by compaction in C07/C13 histories) is judged by the extracted spec decoder and its decoded records are compared with the source records",
   design="5/C14", technique="Coq proof (writer model refines the format spec: spec_decode accepts and inverts write_table) + byte-exact tie + run-time translation validation by the extracted judge",
   note="tables < 2^59 bytes when an object index is written (the footer field holds offset*32+idlen in 64 bits), < 2^64 otherwise; zlib enters by its round-trip hypothesis; the judge shares the field-level decoders (varint, key, record value) with the reader model, nothing of the block / table readers"),
 "C18": dict(
   text="Coq theorems for ALL byte strings (< 2^31) and ANY inflate function: NewReader, SeekRef, SeekLog, RefsFor and full scans never reach a panic site and never exhaust their loop bounds (termination measures: file offset strictly increases across blocks, child offset strictly below its index block, window doubling). The termination proof found a hang (index cycle) that the first repair had missed; fixed. Tied on every run: outcome class and records of Go (recover + timeout) vs model on mutations of valid tables, crafted extreme length fields and a corpus",
   design="5/C18", technique="Coq proof (safety + termination of the reader model) + differential fuzz tie",
   note="allocation is bounded by input size and by what zlib returns (zlib's expansion is outside the model); Go runtime faults other than slice/nil/explicit panics are observed by the harness only"),
 "C04": dict(
   text="Coq theorem c04_all_traces: for EVERY initial directory, scripts, schedule at fs-operation granularity (crashes included), table sizes and retry bound, the trace of the protocol model satisfies c04_ok: after every fs operation the listed tables hold exactly the committed transactions in commit order, Add succeeds iff its transaction committed, only lock failures / rejections as errors. The model (free-monad programs in the code's order over an abstract fs) is tied on every run to the Go stack code under a deterministic scheduler: the Go trace (ops, results, snapshots) must equal the model's trace on the same schedule; the extracted c04_ok also judges every Go trace directly",
   design="6", technique="Coq proof (Hoare-style judgement per API program + global invariant over all interleavings) + trace-equality tie under a scheduler",
   note="POSIX atomicity of O_EXCL create / rename / unlink-with-open-fd, fresh table names and the absence of I/O faults are assumptions; the model covers every API program the scheduler harness drives (open, Add, empty / failing Add, multi-table Addition incl. the refused one, CompactAll, partial-range compaction, expiry, Clean, Close, read); tables are abstracted to (range, transactions): what compaction does to records is C07"),
 "C05": dict(
   text="Coq theorem c05_all_traces (all schedules, crashes included): after every fs operation every table named in tables.list exists, ranges strictly increasing, and no successful remove hits a listed table; tie and direct judging of Go traces as C04",
   design="6", technique="Coq proof (global invariant; dropped ids are never re-listed) + trace-equality tie under a scheduler",
   note="as C04; 'complete, valid table of the stack's hash type' at the byte level is checked on the Go side by decoding every listed table in every snapshot"),
 "C06": dict(
   text="Coq theorem C06_crash_atomic = c06_all_traces: for EVERY schedule in which any handle is killed before any of its fs operations (Crash transitions of the model; other handles continue), c04_ok && c05_ok && c10_ok hold of the trace: after every operation the list names complete tables in increasing ranges holding exactly the committed transactions in commit order, nothing listed is removed, Add's success means committed, survivors' reads work. Tied: Go traces with a crash before each step of each operation kind must equal the model's trace; extracted predicate judges every Go trace",
   design="6", technique="Coq proof (crash transitions in the all-schedules theorems) + trace-equality tie with crash-point enumeration",
   note="process crashes only (no power loss: the property excludes it); as C04"),
 "C08": dict(
   text="Coq theorem c08_all_traces with NO hypotheses: in every trace of the model every successful remove / rename of a *.lock path is by the handle whose exclusive create made it, and no lock path has two owners; proved from wp_call_prog: every API program respects lock ownership whatever the file system answers. Tie and direct judging as C04",
   design="6", technique="Coq proof (ownership Hoare logic over the free-monad programs + world invariant) + trace-equality tie",
   note="as C04"),
 "C09": dict(
   text="Coq theorems (all schedules): C09_stale_gc -- an undisturbed Add through a stale handle returns ErrLockFailure, leaves tables.list / listed tables / locks / temps untouched (only unlisted table files may be unlinked by its reload) and refreshes the handle; through an up-to-date handle with the lock free it commits; C09_stale_strict -- literally unchanged directory under a precondition that holds at every quiescent instant. The unconditional literal statement is refuted by a machine-checked schedule (compactor paused between commit and removes): known finding C09-gc. Tied trace-for-trace to the Go code (stale-handle scenarios incl. single-table stacks)",
   design="6", technique="Coq proof (symbolic execution of Add against the abstract fs inside the all-schedules invariant) + refutation witness + trace-equality tie",
   note="as C04; the literal 'directory unchanged' clause is a recorded finding (benign garbage collection by the failed Add's reload)"),
 "C10": dict(
   text="Coq theorem C10_snapshot = c10_all_traces (all schedules, crashes included): every read shows exactly a prefix of the commit order (one committed version), monotone per handle, with the matching 'shared' value; no read fails; after every call all held readers are open and the held names are one version tables.list really had; a first load that loses every race fails instead of yielding an empty stack (defect found by this proof and fixed). Tied trace-for-trace incl. the reload give-up clock and hand-placed reload-vs-compaction windows",
   design="6", technique="Coq proof (version/prefix invariant over all interleavings) + trace-equality tie",
   note="as C04; when the time-bounded reload loop gives up on a handle that already has a snapshot, the handle keeps it and reload reports success (the property's 'or reports failure' alternative is used for the first load only)"),
 "C16": dict(
   text="Coq theorems (all schedules): C16_quiescent_clean = c16_all_traces -- nothing panics, Close succeeds on any stack, and whenever no handle is inside a call and nobody crashed the directory is exactly tables.list plus the tables it names; C16_idle_owns_nothing -- also after crashes of others an idle handle owns no lock and no temp file. Tied trace-for-trace; Clean is judged on Go traces by the extracted predicate only. Additionally the real directory is listed at every idle point of the sequential histories of real transactions (deletions, compactions whose result is empty, expiry, refused transactions, a second handle): any file besides tables.list and the tables it names is a violation with the history as the replay",
   design="6", technique="Coq proof (ownership logic + residue judgement over all interleavings) + trace-equality tie",
   note="as C04"),
 "C15": dict(
   category="translation_validation",
   text="the C implementation of /repo/c is built from the working tree on every run; for generated tables (NUL-free) Go writes / C reads and C writes / Go reads, every scan, seek and RefsFor compared with the records written; every C-written file is judged by the extracted Coq spec decoder and read by the model reader (= what the Go reader must return). Stack directories in both directions: the C stack opens and scans directories the Go stack wrote (histories with Additions and compactions), the Go stack opens and scans directories the C stack wrote (adds with C's own auto-compaction, compact_all); the views must equal each other and the view the Coq stack model computes. Found and fixed 16 defects of the C twin",
   design="6/C15", technique="differential + translation validation with the extracted Coq spec decoder as judge",
   note="the C code is not modelled in Coq (no C semantics available in this sandbox): its behaviour is compared, not proved; for stack directories the view is compared, not the table layout"),
 "C19": dict(
   text="Coq theorem C19_interleaving: goroutines that never write the shared state compute, under ANY interleaving, exactly what they compute alone (shared state constant). Coq theorem C19_shared_safe by reflection over gen/EffectsData.v, which the SSA translator (harness/ssa, go/ssa + CHA call graph) regenerates from the working tree on every run: none of the memory-writing instructions reachable from the read API writes to a location owned by a shared type (Reader, Merged, blockReader, block sources), all API roots found. Validated on every run by mixed concurrent workloads on one shared memory-backed Reader, file-backed Reader and Merged under the race detector, results compared with sequential ones",
   design="6/C19", technique="translator (SSA effect summary) + Coq reflection theorem + Coq interleaving theorem; race detector as validation",
   note="partial by nature: the ownership classification (type-based, no proved alias analysis), the CHA call graph, the Go memory model and os.File.ReadAt are trusted; the data race itself can only be observed by the race detector"),
}

NA_REASON = "not built yet in this round (see DESIGN.md section 7 for the order of work); no check is registered, nothing is claimed"

def main():
    checks = []
    for p in ALL:
        if p not in CHECKS:
            continue
        c = CHECKS[p]
        checks.append({
            "property_id": p,
            "quick_cmd": "bin/check %s --tier quick" % p,
            "thorough_cmd": "bin/check %s --tier thorough" % p,
            "evidence_file": "/verif/evidence/%s.json" % p,
            "replay_cmd_template": "bin/check %s --replay {path}" % p,
            "engine": "coq+tie",
            "level_claimed": {"category": c.get("category", "proof"), "text": c["text"], "design_ref": "DESIGN.md section " + c["design"]},
            "level_note": c["note"],
            "technique": c["technique"],
        })
    m = {
        "version": 1,
        "setup_cmd": "bin/setup",
        "hooks": {
            "guard": "verif",
            "enable": "checks copy /repo's working tree to a scratch directory, add //go:build verif exporter files (harness/export/) to the copy and build the harness with -tags verif; nothing is committed to /repo",
            "baseline_off_cmd": "cd /repo && GOFLAGS=-mod=mod GOPROXY=off go test -count=1 ./...",
            "source_commits": [],
            "add_only": True,
        },
        "engines": [{"name": "coq+tie", "path": "bin/check", "serves_properties": sorted(CHECKS),
                     "kind_free_text": "Coq 8.16.1 theorems about a hand-written Gallina model + correspondence check (extracted OCaml model vs Go implementation built from /repo's working tree)"}],
        "checks": checks,
        "not_applicable": [{"property_id": p, "reason": NA_REASON} for p in ALL if p not in CHECKS],
        "notes": "See DESIGN.md. known_findings.json lists genuine defects (finding / fixed).",
    }
    with open(os.path.join(ROOT, "MANIFEST.json"), "w") as f:
        json.dump(m, f, indent=1)

main()
