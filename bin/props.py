"""Per-property check procedures (DESIGN.md sections 5 and 6)."""
import json
import os

from verifylib import ROOT


def generic(c, hprop, prop_files, lemma_files, what_tie, rule, nontrivial, assumptions, extra_trusted=(), extra_args="", level="proof"):
    coq_ok = c.coq_stage(prop_files, lemma_files)
    c.trusted += list(extra_trusted)
    res = {"evaluations": 0, "tie_mismatch": [], "oracle_bad": [], "distinct_nontrivial": 0, "by_cmd": {}}
    stats = {}
    if c.replay:
        extra_args += " -replay " + os.path.abspath(c.replay)
    built = c.build_impl()
    if built and hprop == "c15":
        c.cdrv = c.build_cdrv()
        built = c.cdrv is not None
    if not built:
        path = c.write_replay("build", {"kind": "correspondence-broken", "correspondence": "harness build against the working tree",
                                        "notes": c.notes})
        c.violations.append((path, " no-failing-input-found"))
    else:
        cases, stats = c.run_harness(hprop, extra_args)
        if cases is None:
            path = c.write_replay("run", {"kind": "correspondence-broken", "correspondence": "harness run (implementation panicked, hung or failed outside a modelled call)",
                                          "notes": c.notes})
            c.violations.append((path, ""))
        else:
            model = c.run_driver(cases)
            if model is None:
                path = c.write_replay("driver", {"kind": "driver-failure", "notes": c.notes})
                c.violations.append((path, " no-failing-input-found"))
            else:
                res = c.compare(cases, model, nontrivial)
                c.search_deeper(hprop, extra_args, res, nontrivial)
                c.classify(res, coq_ok, what_tie)
    if not coq_ok and not c.violations:
        path = c.write_replay("proof", {"kind": "proof-obligation-broken", "notes": c.notes})
        c.violations.append((path, " no-failing-input-found"))
    extra = {"evaluations": res["evaluations"], "distinct_nontrivial": res["distinct_nontrivial"],
             "traces_validated_against_impl": res["evaluations"] - len(res["tie_mismatch"]),
             "tie_mismatches": len(res["tie_mismatch"]), "oracle_failures": len(res["oracle_bad"]),
             "cases_by_kind": res["by_cmd"], "input_distribution": {k: v for k, v in stats.items() if k != "samples"}}
    if level == "translation_validation":
        extra["programs"] = res["evaluations"]
        extra["disagreements_checked"] = len(res["tie_mismatch"]) + len(res["oracle_bad"])
    c.finish(level=level, rule=rule, samples=stats.get("samples") or ["(no cases)"], assumptions=assumptions, extra=extra)


def check_c17(c):
    def nontrivial(cmd, args, impl):
        if cmd == "suggest":
            return args.count(",") >= 2           # >= 3 tables
        if cmd == "autocompact":
            return args.count(",") >= 1
        return True
    generic(
        c, "c17", ["Properties/C17.v"], ["Proofs/SegmentsProofs.v"],
        what_tie="suggestCompactionSegment/log2/AutoCompact vs Model/Segments.v (suggest, log2_go, auto_compact)",
        rule=("suggest: all size vectors up to the stated length over 12 representative sizes (4 classes x 3 in-class positions), plus seeded random vectors of 1..24 tables "
              "(4 shapes, incl. values near 2^63); log2 at every power-of-two boundary; autocompact: every transaction of 5 single-writer workloads on a real stack "
              "(sizes seen by the chooser -> range actually compacted); depthcost: depth <= 2*log2 N and EntriesWritten <= N*log2 N*entries/tx after every Add (N >= 2) "
              "through the public Add only. distinct = distinct (cmd,args); non-trivial = >= 3 tables for suggest, >= 2 for autocompact"),
        nontrivial=nontrivial,
        assumptions=[
            "C17_depth / C17_cost_additive are proved for merged sizes f with max(inputs) <= f <= sum(inputs) (resp. f = sum); the real writer's sizes are MEASURED against this per compaction (input_distribution.workloads: f_below_max_input / f_above_sum_inputs) and depth/cost are also monitored directly",
            "sizes are summed without the uint64 wrap (sum of file sizes < 2^64)",
            "the literal bound 2*log2(N) is void at N = 1 (one table); it is checked for N >= 2",
        ])


TABLE_RULE = ("generated tables: 0..120 (sometimes 400) refs over names rich in shared prefixes (1..60 bytes, some 400+, arbitrary bytes incl. NUL), all four value kinds and deletions, "
              "0..40 log records (several per ref, deletions, absent hashes, random 64-bit times / indices, messages with and without newline / blanks), both hash sizes, "
              "padded and unaligned, with and without object index, exact and normalised messages, block sizes concentrated at 64..300 above the largest record (5..60 blocks, 1..3 index levels) plus 4096 / default, "
              "restart interval 0..20, min update index 0 / small / 2^40; a few block sizes too small (the writer must refuse). Per table: write (byte-exact), open, full scans, "
              "seeks at keys and their neighbours, RefsFor for occurring / prefix-sharing / absent object ids; the written file is also judged by the spec decoder. ")


def _table_check(c, hprop, prop_files, lemma_files, focus):
    generic(
        c, hprop, prop_files, lemma_files,
        what_tie="Writer / Reader (AddRef, AddLog, Close, NewReader, SeekRef, SeekLog, RefsFor, iteration) vs Model/Writer.v + Model/Reader.v: table bytes byte-for-byte, every query result",
        rule=TABLE_RULE + focus + " non-trivial = written successfully and larger than 200 bytes; distinct by (config, records, queries)",
        nontrivial=lambda cmd, args, impl: impl.startswith("ok:") and len(impl) > 400,
        assumptions=["zlib is an oracle: the model calls Go's compress/zlib through a pipe (hypothesis of the theorems: inflate (deflate x ++ rest) = x, consuming exactly the stream)",
                     "theorems proved so far stop at the block level (and the unit codecs); the table level (sections, padding, index, footer) is covered by the byte-exact tie and stated in DESIGN.md as the open part"])


def check_c01(c):
    _table_check(c, "c01", ["Properties/C01.v"], ["Proofs/CodecProofs.v", "Proofs/BlockProofs.v", "Proofs/BlockInitEq.v", "Proofs/WriterGuard.v", "Proofs/TableProofs.v"],
                 "Focus C01: scans of every table.")


def check_c02(c):
    _table_check(c, "c02", ["Properties/C02.v"], ["Proofs/CodecProofs.v", "Proofs/BlockProofs.v"],
                 "Focus C02: small blocks (multi-level index, multi-block top level), up to 6 (thorough 16) keys per table x {key, key+NUL, key minus last byte, last byte -1/+1}, empty key, beyond-last; SeekLog at index 0 / each / +-1 / 2^64-1.")


def check_c11(c):
    _table_check(c, "c11", ["Properties/C11.v"], ["Proofs/CompactProofs.v", "Proofs/MergeProofs.v"],
                 "Focus C11: few objects shared by many refs (object index present / absent / truncated position lists / multi-block), prefix-sharing object ids, min update index > 0; then stacks of 1..6 real tables through NewMerged (raw and deletion-suppressing): RefsFor for every object id, refs deleted / re-pointed in newer tables.")


def check_c14(c):
    generic(
        c, "c14", ["Properties/C14.v"], ["Proofs/SpecProofs.v", "Proofs/SpecWriterProofs.v", "Proofs/SpecPaddedProofs.v"],
        what_tie="every file the Go writer emits is judged by the extracted spec decoder (Model/SpecDecoder.v) against its source records; tie: model writer output byte-identical",
        rule=TABLE_RULE + "Each emitted file = one program; C07/C13 histories add every table written by Add and by compaction.",
        nontrivial=lambda cmd, args, impl: impl.startswith("ok:") and len(impl) > 400,
        assumptions=["the judge shares the byte / varint / key / record-field decoders with the reader model (codec layer), nothing of the block or table readers",
                     "log update indices are not range-checked by the writer; the judge checks the range for refs",
                     "C14_wellformed: tables below 2^59 bytes when an object index is written (2^64 without); zlib round-trip hypothesis (satisfiable: stored-stream codec)"])

def check_c03(c):
    generic(
        c, "c03", ["Properties/C03.v"], ["Proofs/MergeProofs.v", "Proofs/BytesProofs.v"],
        what_tie="NewMerged/Merged.SeekRef/SeekLog/RefsFor over real tables vs Model/Heap.v + Model/Merge.v + Model/Compact.v (on tables decoded by the model reader)",
        rule=("stacks of 1..6 tables written by the real writer over a shared pool of 2..15 names (updates, deletions, re-creations, log entries and log deletions), "
              "raw and deletion-suppressing view; queries: full scans, seeks at names and their neighbours, SeekLog at random indices, RefsFor for every object id and an absent one. "
              "non-trivial = >= 2 tables"),
        nontrivial=lambda cmd, args, impl: args.count("#") >= 1,
        assumptions=["per-table seek/scan are those of the model reader (tied separately by C01/C02/C11); the merge is generic in the record type",
                     "NewMerged's range / hash-id precondition is modelled as its error"])


HIST_RULE = ("sequential histories of 3..12 operations on a real stack directory (one handle): Add of 0..3 refs (create/update/delete/symref/peeled) and 0..3 log records "
             "(appends, several per ref, deletions of older entries), with or without auto-compaction; compactRange of arbitrary contiguous ranges; CompactAll; CompactAll with expiry; "
             "all write configurations. After every operation: tables.list ranges, full ref scan, full log scan through Merged(). non-trivial = history contains a compaction or expiry, or a rejected transaction")


def _hist_nontrivial(cmd, args, impl):
    return "!C" in args or "!CA" in args or "!CE" in args or "rejected" in impl


def check_c07(c):
    generic(
        c, "c07", ["Properties/C07.v"], ["Proofs/CompactProofs.v", "Proofs/MergeProofs.v", "Proofs/StackSeqProofs.v"],
        what_tie="Stack.Add / compactRange / CompactAll / AutoCompact vs Model/StackSeq.v (model writer + model reader + Compact.compact_range + Segments.suggest)",
        rule=HIST_RULE, nontrivial=_hist_nontrivial,
        assumptions=["C07_view/seq/tombstones are at the level of decoded tables; C07_bytes_compact / C07_bytes_history / C07_bytes_add are about Model/StackSeq.v itself (merge, write the bytes, read them back), the functions this tie runs against the real Stack",
                     "hist_ok: transaction records in the writer's documented domain (sorted, non-empty names, hash lengths, update index = the stack's next index for refs) and every written file below 2^64 bytes; zlib by the three hypotheses of C01",
                     "single handle, no interference (interleavings: C04)"])


def check_c13(c):
    generic(
        c, "c13", ["Properties/C13.v"], ["Proofs/CompactProofs.v", "Proofs/ExpiryProofs.v", "Proofs/ExpiryCorollaries.v", "Proofs/StackSeqProofs.v"],
        what_tie="CompactAll(expiry) vs Model/StackSeq.stack_compact_all / Compact.keep_log",
        rule=HIST_RULE + "; every history ends with an expiry; limits unset / below / inside / above the data",
        nontrivial=lambda cmd, args, impl: "CE:" in args,
        assumptions=["as C07"])


def check_c12(c):
    generic(
        c, "c12", ["Properties/C12.v"], ["Proofs/RefnameProofs.v"],
        what_tie="Stack.Add and multi-table Additions (NewAddition/Add.../Commit) with name checking vs Model/StackSeq.stack_add, stack_addition / Refname.validate_addition",
        rule=("histories of 3..12 transactions over a 14-name alphabet rich in prefix relations and illegal names "
              "(a, a/b, a/b/c, a/c, ab, a., a/., b, b/a, a/.., a//b, c/, /c, d): single-table Adds of 1..3 refs and (about 30%) multi-table Additions of 2..3 tables with 1..2 refs each; "
              "creations, updates, deletions, delete-and-create in one transaction or across the tables of one Addition; "
              "after each: accepted <=> the result is conflict-free (extracted conflict_free_b; for an Addition: table by table, as C12_addition states), rejected => no effect, live names conflict-free. non-trivial = at least one rejection"),
        nontrivial=lambda cmd, args, impl: "rejected" in impl,
        assumptions=["a multi-table Addition is judged table by table (each table is a transaction on the view left by the Addition's earlier tables), which is what the code does and what C12_addition states; an Addition whose tables conflict only transiently is refused"])


def check_c18(c):
    generic(
        c, "c18", ["Properties/C18.v"], ["Proofs/ReaderSafety.v"],
        what_tie="NewReader / SeekRef / SeekLog / RefsFor + iteration on arbitrary bytes vs Model/Reader.v (outcome class and records)",
        rule=("mutations of valid generated tables of every layout: bit flips (with and without repaired footer CRC), truncations (also keeping the footer), footer offset edits, "
              "block length edits, splices, varint continuation bits, header edits with footer copy, restart-count edits; plus a corpus of past findings (index cycle). "
              "Each byte string: open + up to 8 queries, under recover() and a 3 s timeout. non-trivial = the bytes open (a query was actually run)"),
        nontrivial=lambda cmd, args, impl: impl.startswith("ok|"),
        assumptions=["theorems: no Panic / no Fuel for ALL byte strings shorter than 2^31 and ANY inflate function; allocation is bounded by the input and by what inflate returns (zlib's output size is outside the model)",
                     "Go run-time faults other than the modelled ones (stack overflow, OOM inside zlib) are outside the model; the harness still reports them (panic / hang / process death)"])


STACK_RULE = ("executions of the real stack code under the deterministic scheduler (every package-level fs call of stack.go / reftable.go is a scheduling point; real temp directory): "
              "25 scenarios of 2..3 handles (pairs from the menu add / add+auto-compaction / CompactAll / expiry / multi-table Addition / empty Add / failing Add / read / reload / Close / Clean, "
              "on a 3-table, 5-table or empty initial stack, SHA-1 and SHA-256, with the reload give-up clock); per scenario: every non-pre-emptive order, every single pre-emption point "
              "(thorough: pairs of pre-emption points), a crash of a handle before each of its steps with the others continuing, seeded random burst schedules. "
              "After every fs operation the directory is snapshotted (tables.list, every listed table decoded, all files). non-trivial = the schedule pre-empts or crashes a handle; distinct by (scenario, schedule)")


def _stack_check(c, hprop, prop_files, lemma_files, what):
    generic(
        c, hprop, prop_files, lemma_files,
        what_tie="trace of fs operations / results / snapshots of the Go stack code under the scheduler = trace of the protocol model (Model/StackProto.v: every scripted operation incl. multi-table Addition, partial-range compaction and Clean) on the observed schedule, event for event; and judged by the extracted trace predicate of the property (Model/StackTrace.v)",
        rule=STACK_RULE + ". " + what,
        nontrivial=lambda cmd, args, impl: ("sw=" in args and "sw= " not in args) or ("crash=" in args and "crash= " not in args) or ("explicit=" in args and not args.endswith("explicit=")),
        assumptions=["POSIX semantics of O_EXCL create, rename, unlink-with-open-descriptor are the kernel's (real directory); power loss / fsync are outside the property",
                     "table names are assumed fresh (32 random bits in the code)",
                     "the scheduler sees the fs calls that the gofmt -r rewriting redirected (os.OpenFile/Open/Rename/Remove, ioutil.ReadFile/TempFile/ReadDir, time.Now in stack.go and reftable.go)"])


def check_c04(c): _stack_check(c, "c04", ["Properties/C04.v"], [], "Oracle c04_ok: after every fs operation the transactions in the listed tables, in order, are exactly the committed ones in commit order; Add returns success iff its transaction committed during the call; only lock failures and content rejections as errors.")
def check_c05(c): _stack_check(c, "c05", ["Properties/C05.v"], [], "Oracle c05_ok: after every fs operation every listed table exists, decodes, has the stack's hash id, ranges strictly increasing; no successful remove of a listed table.")
def check_c06(c): _stack_check(c, "c06", ["Properties/C06.v"], [], "Oracle c06_ok on the crash schedules: c04_ok, c05_ok and c10_ok with a handle crashed before each of its steps; surviving handles' calls succeed.")
def check_c08(c): _stack_check(c, "c08", ["Properties/C08.v"], [], "Oracle c08_ok: every successful remove / rename of a *.lock path is by the handle whose O_EXCL create made it; never two owners.")
def check_c09(c): _stack_check(c, "c09", ["Properties/C09.v"], [], "Oracle c09_ok: an undisturbed Add through a stale handle returns ErrLockFailure, leaves the directory unchanged and the handle refreshed; through an up-to-date handle it commits.")
def check_c10(c): _stack_check(c, "c10", ["Properties/C10.v"], [], "Oracle c10_ok: every read returns exactly a prefix of the commit order (one committed version), monotone per handle, with the matching 'shared' value; after every call all held readers are open and the held names are one version of tables.list.")
def check_c16(c): _stack_check(c, "c16", ["Properties/C16.v"], [], "Oracle c16_ok: whenever no handle is inside a call and none crashed, the directory holds exactly tables.list and the tables it names.")


def check_c15(c):
    generic(
        c, "c15", ["Properties/C15.v"], ["Proofs/SpecProofs.v"],
        what_tie="Go writes / C reads and C writes / Go reads (the C implementation of /repo/c built from the working tree), both judged against the source records; C-written files judged by the spec decoder; model reader = Go reader on C-written bytes",
        rule=TABLE_RULE + "Restricted to NUL-free names and strings (C strings). Stack directories: (a) 200 (thorough 4000) histories of the Go stack (Adds, multi-table Additions, "
             "compactions of arbitrary ranges, CompactAll, all write configurations) after which the C stack opens the directory and scans all refs and logs through its merged table: must equal what Go reads and what the model computes; "
             "(b) 120 (thorough 2500) directories written by the C stack (3..14 operations: adds with the C code's own auto-compaction, multi-table additions, compact_all with and without reflog expiry; name checking on, conflicting and illegal names included; a shadow Go stack tells which transactions are refused) which the Go stack opens and scans: the C stack must accept / refuse exactly the transactions the model does and the view must equal the one the model computes. "
             "non-trivial = both writers accepted the records and the table has > 200 bytes (tables); every stack directory",
        nontrivial=lambda cmd, args, impl: (impl.count("#ok#") == 1 and len(impl) > 600) if cmd == "ctable" else True,
        assumptions=["the C code is not modelled: its behaviour is compared, file by file and query by query, with the records written (differential / translation validation); the Coq side contributes the spec decoder (judge of the C-written files) and the model reader (what the Go reader must return on them)",
                     "stack directories: the view (all refs, all logs) is compared, not the table layout (each implementation's compaction schedule is its own); C-written stacks keep one anchor ref so that the stack never becomes empty"],
        level="translation_validation")


def check_c19(c):
    """C19: regenerate the effect summary from the working tree, re-check the reflection theorem, validate with the race detector."""
    import re, shutil, subprocess
    from verifylib import sh, GOENV, COQ, REPO
    notes = []
    ok_build = c.build_impl()
    gen = os.path.join(COQ, "gen", "EffectsData.v")
    shared_writes = []
    if ok_build:
        # the translator
        ssadir = os.path.join(c.scratch, "ssa")
        shutil.copytree(os.path.join(ROOT, "harness", "ssa"), ssadir)
        rc, out = sh("go build -o ssax .", cwd=ssadir, env=GOENV, timeout=900)
        if rc != 0:
            c.notes.append("translator build failed: " + out[-2000:])
            ok_build = False
        else:
            # run it on the plain working tree (no rewriting): copy again without the shim
            plain = os.path.join(c.scratch, "plain")
            os.makedirs(plain)
            for f in os.listdir(REPO):
                if (f.endswith(".go") and not f.endswith("_test.go")) or f in ("go.mod", "go.sum"):
                    shutil.copy(os.path.join(REPO, f), os.path.join(plain, f))
            rc, out = sh([os.path.join(ssadir, "ssax"), "-dir", plain, "-out", gen], cwd=plain, env=GOENV, timeout=900)
            c.coverage["translator_output"] = out[-1500:]
            if rc != 0:
                c.notes.append("translator failed: " + out[-2000:])
                ok_build = False
            shared_writes = [l for l in out.split("\n") if l.startswith("SHARED-WRITE")]
    # the generated data and the reflection theorem are compiled here only (they are not part of
    # the shared build, so a tree that breaks C19 cannot break the other properties' builds)
    sh("coq_makefile -f _CoqProject -o Makefile && timeout 3000 make -j16", cwd=COQ, timeout=3100)
    coq_ok = c.coq_stage(["Properties/C19.v"], ["Proofs/EffectsProofs.v"], pre_files=["gen/EffectsData.v"])
    # validation: mixed concurrent reads under the race detector
    races = ""
    res = {"evaluations": 0, "tie_mismatch": [], "oracle_bad": [], "distinct_nontrivial": 0, "by_cmd": {}}
    stats = {}
    if ok_build:
        rc, out = sh("go build -race -tags verif -o hrace .", cwd=os.path.join(c.scratch, "harness"), env=GOENV, timeout=1200)
        if rc != 0:
            c.notes.append("race build failed: " + out[-2000:])
        else:
            outd = os.path.join(c.scratch, "out")
            os.makedirs(outd, exist_ok=True)
            env = dict(GOENV, GORACE="halt_on_error=0 exitcode=0")
            rc, txt = sh("./hrace -prop c19 -seed %d -tier %s -out %s" % (c.seed, c.tier, outd),
                         cwd=os.path.join(c.scratch, "harness"), env=env, timeout=3000)
            if "DATA RACE" in txt:
                races = txt[txt.index("WARNING: DATA RACE"):][:6000]
            cases = os.path.join(outd, "c19.cases")
            try:
                stats = json.load(open(os.path.join(outd, "c19.stats.json")))
            except (OSError, ValueError):
                pass
            if rc != 0 or not os.path.exists(cases):
                c.notes.append("race harness failed: " + txt[-2000:])
            else:
                model = c.run_driver(cases)
                if model is not None:
                    res = c.compare(cases, model, lambda cmd, a, i: True)
    if races:
        path = c.write_replay("race", {"kind": "data-race", "report": races, "shared_writes": shared_writes})
        c.violations.append((path, ""))
    elif res["oracle_bad"]:
        path = c.write_replay("oracle", {"kind": "concurrent-results-differ", "case": res["oracle_bad"][0]})
        c.violations.append((path, ""))
    elif not coq_ok or shared_writes:
        path = c.write_replay("proof", {"kind": "proof-obligation-broken", "theorem": "C19_shared_safe (reflection over gen/EffectsData.v)",
                                        "shared_writes": shared_writes, "notes": c.notes,
                                        "note": "the effect summary of the working tree contains a write to shared state (or the theorem no longer checks); the race detector found no race on the explored workloads"})
        c.violations.append((path, " no-failing-input-found"))
    elif not ok_build:
        path = c.write_replay("build", {"kind": "correspondence-broken", "notes": c.notes})
        c.violations.append((path, " no-failing-input-found"))
    extra = {"evaluations": res["evaluations"], "distinct_nontrivial": res["distinct_nontrivial"],
             "traces_validated_against_impl": res["evaluations"], "race_reports": 1 if races else 0,
             "shared_writes_in_summary": shared_writes, "input_distribution": {k: v for k, v in stats.items() if k != "samples"}}
    c.finish(level="proof",
             rule=("effect summary: every store / map update / copy destination in the functions reachable (class-hierarchy call graph) from the read API of the current working tree, "
                   "with the owner of the written location; validation: rounds of 8 goroutines x 120 (thorough 400) mixed queries on one shared memory-backed Reader, file-backed Reader and Merged, built with -race, "
                   "results compared with the sequential results. non-trivial = every concurrent round"),
             samples=stats.get("samples") or ["(no cases)"],
             assumptions=["the ownership classification of written locations (type-based; no sound alias analysis is proved) and the call graph (CHA) are trusted: claimed as partial",
                          "the Go memory model, os.File.ReadAt (positional read) and the race detector's coverage of the explored interleavings"],
             extra=extra)
