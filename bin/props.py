"""Per-property check procedures (DESIGN.md sections 5 and 6)."""
import json
import os

from verifylib import ROOT


def generic(c, hprop, prop_files, lemma_files, what_tie, rule, nontrivial, assumptions, extra_trusted=(), extra_args=""):
    coq_ok = c.coq_stage(prop_files, lemma_files)
    c.trusted += list(extra_trusted)
    res = {"evaluations": 0, "tie_mismatch": [], "oracle_bad": [], "distinct_nontrivial": 0, "by_cmd": {}}
    stats = {}
    if c.replay:
        extra_args += " -replay " + os.path.abspath(c.replay)
    if not c.build_impl():
        path = c.write_replay("build", {"kind": "correspondence-broken", "correspondence": "harness build against the working tree",
                                        "notes": c.notes})
        c.violations.append((path, " no-failing-input-found"))
    else:
        cases, stats = c.run_harness(hprop, extra_args)
        if cases is None:
            path = c.write_replay("run", {"kind": "correspondence-broken", "correspondence": "harness run (implementation panicked, hung or failed outside a modelled call)",
                                          "notes": c.notes})
            c.violations.append((path, ""))
        else:
            model = c.run_driver(cases)
            if model is None:
                path = c.write_replay("driver", {"kind": "driver-failure", "notes": c.notes})
                c.violations.append((path, " no-failing-input-found"))
            else:
                res = c.compare(cases, model, nontrivial)
                c.classify(res, coq_ok, what_tie)
    if not coq_ok and not c.violations:
        path = c.write_replay("proof", {"kind": "proof-obligation-broken", "notes": c.notes})
        c.violations.append((path, " no-failing-input-found"))
    extra = {"evaluations": res["evaluations"], "distinct_nontrivial": res["distinct_nontrivial"],
             "traces_validated_against_impl": res["evaluations"] - len(res["tie_mismatch"]),
             "tie_mismatches": len(res["tie_mismatch"]), "oracle_failures": len(res["oracle_bad"]),
             "cases_by_kind": res["by_cmd"], "input_distribution": {k: v for k, v in stats.items() if k != "samples"}}
    c.finish(level="proof", rule=rule, samples=stats.get("samples") or ["(no cases)"], assumptions=assumptions, extra=extra)


def check_c17(c):
    def nontrivial(cmd, args, impl):
        if cmd == "suggest":
            return args.count(",") >= 2           # >= 3 tables
        if cmd == "autocompact":
            return args.count(",") >= 1
        return True
    generic(
        c, "c17", ["Properties/C17.v"], ["Proofs/SegmentsProofs.v"],
        what_tie="suggestCompactionSegment/log2/AutoCompact vs Model/Segments.v (suggest, log2_go, auto_compact)",
        rule=("suggest: all size vectors up to the stated length over 12 representative sizes (4 classes x 3 in-class positions), plus seeded random vectors of 1..24 tables "
              "(4 shapes, incl. values near 2^63); log2 at every power-of-two boundary; autocompact: every transaction of 5 single-writer workloads on a real stack "
              "(sizes seen by the chooser -> range actually compacted); depthcost: depth <= 2*log2 N and EntriesWritten <= N*log2 N*entries/tx after every Add (N >= 2) "
              "through the public Add only. distinct = distinct (cmd,args); non-trivial = >= 3 tables for suggest, >= 2 for autocompact"),
        nontrivial=nontrivial,
        assumptions=[
            "C17_depth / C17_cost_additive are proved for merged sizes f with max(inputs) <= f <= sum(inputs) (resp. f = sum); the real writer's sizes are MEASURED against this per compaction (input_distribution.workloads: f_below_max_input / f_above_sum_inputs) and depth/cost are also monitored directly",
            "sizes are summed without the uint64 wrap (sum of file sizes < 2^64)",
            "the literal bound 2*log2(N) is void at N = 1 (one table); it is checked for N >= 2",
        ])


def check_c01(c):
    def nontrivial(cmd, args, impl):
        return impl.startswith("ok:") and len(impl) > 400
    generic(
        c, "c01", ["Properties/C17.v"], [],
        what_tie="Writer/Reader vs Model/Writer.v + Model/Reader.v (byte-exact tables, scans, seeks, RefsFor)",
        rule="generated tables (see input_distribution); non-trivial = written successfully and > 200 bytes",
        nontrivial=nontrivial, assumptions=[])


def check_c03(c):
    generic(
        c, "c03", ["Properties/C03.v"], ["Proofs/MergeProofs.v", "Proofs/BytesProofs.v"],
        what_tie="NewMerged/Merged.SeekRef/SeekLog/RefsFor over real tables vs Model/Heap.v + Model/Merge.v + Model/Compact.v (on tables decoded by the model reader)",
        rule=("stacks of 1..6 tables written by the real writer over a shared pool of 2..15 names (updates, deletions, re-creations, log entries and log deletions), "
              "raw and deletion-suppressing view; queries: full scans, seeks at names and their neighbours, SeekLog at random indices, RefsFor for every object id and an absent one. "
              "non-trivial = >= 2 tables"),
        nontrivial=lambda cmd, args, impl: args.count("#") >= 1,
        assumptions=["per-table seek/scan are those of the model reader (tied separately by C01/C02/C11); the merge is generic in the record type",
                     "NewMerged's range / hash-id precondition is modelled as its error"])


HIST_RULE = ("sequential histories of 3..12 operations on a real stack directory (one handle): Add of 0..3 refs (create/update/delete/symref/peeled) and 0..3 log records "
             "(appends, several per ref, deletions of older entries), with or without auto-compaction; compactRange of arbitrary contiguous ranges; CompactAll; CompactAll with expiry; "
             "all write configurations. After every operation: tables.list ranges, full ref scan, full log scan through Merged(). non-trivial = history contains a compaction or expiry, or a rejected transaction")


def _hist_nontrivial(cmd, args, impl):
    return "!C" in args or "!CA" in args or "!CE" in args or "rejected" in impl


def check_c07(c):
    generic(
        c, "c07", ["Properties/C07.v"], ["Proofs/CompactProofs.v", "Proofs/MergeProofs.v"],
        what_tie="Stack.Add / compactRange / CompactAll / AutoCompact vs Model/StackSeq.v (model writer + model reader + Compact.compact_range + Segments.suggest)",
        rule=HIST_RULE, nontrivial=_hist_nontrivial,
        assumptions=["theorems are at the level of decoded tables; writing the merged records and reading them back is the business of C01/C14 (tie: byte-exact model writer inside StackSeq)",
                     "single handle, no interference (interleavings: C04)"])


def check_c13(c):
    generic(
        c, "c13", ["Properties/C13.v"], ["Proofs/CompactProofs.v", "Proofs/ExpiryProofs.v"],
        what_tie="CompactAll(expiry) vs Model/StackSeq.stack_compact_all / Compact.keep_log",
        rule=HIST_RULE + "; every history ends with an expiry; limits unset / below / inside / above the data",
        nontrivial=lambda cmd, args, impl: "CE:" in args,
        assumptions=["as C07"])


def check_c12(c):
    generic(
        c, "c12", ["Properties/C12.v"], ["Proofs/RefnameProofs.v"],
        what_tie="Stack.Add with name checking vs Model/StackSeq.stack_add / Refname.validate_addition",
        rule=("histories of 3..12 single-table transactions of 1..3 refs over a 14-name alphabet rich in prefix relations and illegal names "
              "(a, a/b, a/b/c, a/c, ab, a., a/., b, b/a, a/.., a//b, c/, /c, d), creations, updates, deletions, delete-and-create in one transaction; "
              "after each: accepted <=> the result is conflict-free (extracted conflict_free_b), live names conflict-free. non-trivial = at least one rejection"),
        nontrivial=lambda cmd, args, impl: "rejected" in impl,
        assumptions=["multi-table Additions are validated table by table against the view committed before the Addition (see known finding S5 / C12_addition_pinned_refuted); the tie covers single-table transactions through Stack.Add"])
