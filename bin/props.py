"""Per-property check procedures (DESIGN.md sections 5 and 6)."""
import json
import os

from verifylib import ROOT


def generic(c, hprop, prop_files, lemma_files, what_tie, rule, nontrivial, assumptions, extra_trusted=(), extra_args=""):
    coq_ok = c.coq_stage(prop_files, lemma_files)
    c.trusted += list(extra_trusted)
    res = {"evaluations": 0, "tie_mismatch": [], "oracle_bad": [], "distinct_nontrivial": 0, "by_cmd": {}}
    stats = {}
    if c.replay:
        extra_args += " -replay " + os.path.abspath(c.replay)
    if not c.build_impl():
        path = c.write_replay("build", {"kind": "correspondence-broken", "correspondence": "harness build against the working tree",
                                        "notes": c.notes})
        c.violations.append((path, " no-failing-input-found"))
    else:
        cases, stats = c.run_harness(hprop, extra_args)
        if cases is None:
            path = c.write_replay("run", {"kind": "correspondence-broken", "correspondence": "harness run (implementation panicked, hung or failed outside a modelled call)",
                                          "notes": c.notes})
            c.violations.append((path, ""))
        else:
            model = c.run_driver(cases)
            if model is None:
                path = c.write_replay("driver", {"kind": "driver-failure", "notes": c.notes})
                c.violations.append((path, " no-failing-input-found"))
            else:
                res = c.compare(cases, model, nontrivial)
                c.classify(res, coq_ok, what_tie)
    if not coq_ok and not c.violations:
        path = c.write_replay("proof", {"kind": "proof-obligation-broken", "notes": c.notes})
        c.violations.append((path, " no-failing-input-found"))
    extra = {"evaluations": res["evaluations"], "distinct_nontrivial": res["distinct_nontrivial"],
             "traces_validated_against_impl": res["evaluations"] - len(res["tie_mismatch"]),
             "tie_mismatches": len(res["tie_mismatch"]), "oracle_failures": len(res["oracle_bad"]),
             "cases_by_kind": res["by_cmd"], "input_distribution": {k: v for k, v in stats.items() if k != "samples"}}
    c.finish(level="proof", rule=rule, samples=stats.get("samples") or ["(no cases)"], assumptions=assumptions, extra=extra)


def check_c17(c):
    def nontrivial(cmd, args, impl):
        if cmd == "suggest":
            return args.count(",") >= 2           # >= 3 tables
        if cmd == "autocompact":
            return args.count(",") >= 1
        return True
    generic(
        c, "c17", ["Properties/C17.v"], ["Proofs/SegmentsProofs.v"],
        what_tie="suggestCompactionSegment/log2/AutoCompact vs Model/Segments.v (suggest, log2_go, auto_compact)",
        rule=("suggest: all size vectors up to the stated length over 12 representative sizes (4 classes x 3 in-class positions), plus seeded random vectors of 1..24 tables "
              "(4 shapes, incl. values near 2^63); log2 at every power-of-two boundary; autocompact: every transaction of 5 single-writer workloads on a real stack "
              "(sizes seen by the chooser -> range actually compacted); depthcost: depth <= 2*log2 N and EntriesWritten <= N*log2 N*entries/tx after every Add (N >= 2) "
              "through the public Add only. distinct = distinct (cmd,args); non-trivial = >= 3 tables for suggest, >= 2 for autocompact"),
        nontrivial=nontrivial,
        assumptions=[
            "C17_depth / C17_cost_additive are proved for merged sizes f with max(inputs) <= f <= sum(inputs) (resp. f = sum); the real writer's sizes are MEASURED against this per compaction (input_distribution.workloads: f_below_max_input / f_above_sum_inputs) and depth/cost are also monitored directly",
            "sizes are summed without the uint64 wrap (sum of file sizes < 2^64)",
            "the literal bound 2*log2(N) is void at N = 1 (one table); it is checked for N >= 2",
        ])


def check_c01(c):
    def nontrivial(cmd, args, impl):
        return impl.startswith("ok:") and len(impl) > 400
    generic(
        c, "c01", ["Properties/C17.v"], [],
        what_tie="Writer/Reader vs Model/Writer.v + Model/Reader.v (byte-exact tables, scans, seeks, RefsFor)",
        rule="generated tables (see input_distribution); non-trivial = written successfully and > 200 bytes",
        nontrivial=nontrivial, assumptions=[])
