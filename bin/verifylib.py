"""Shared machinery of /verif/bin/check (see DESIGN.md section 4).

A check = (1) re-check the Coq theorems of the property, (2) build the Go
implementation from a scratch copy of /repo's working tree together with the
harness, (3) run implementation and extracted model on the same cases (tie) and
judge the implementation's results with the theorem's boolean predicates
(oracle), (4) classify, write evidence, print result lines.
"""
import hashlib
import json
import os
import re
import shutil
import subprocess
import sys
import time

ROOT = os.path.dirname(os.path.dirname(os.path.abspath(__file__)))
REPO = os.environ.get("VERIF_REPO", "/repo")
COQ = os.path.join(ROOT, "coq")
DRIVER = os.path.join(ROOT, "ocaml", "extracted", "driver")
FORBIDDEN = re.compile(
    r"\b(Admitted|admit|Axiom|Axioms|Parameter|Parameters|Conjecture|Conjectures|Abort All|"
    r"Unset Guard Checking|Unset Positivity Checking|Unset Universe Checking|bypass_check|"
    r"Admit Obligations|type-in-type|impredicative-set)\b")

GOENV = dict(os.environ, GOFLAGS="-mod=mod", GOPROXY="off", GOSUMDB="off",
             GOTOOLCHAIN="local", CGO_ENABLED=os.environ.get("CGO_ENABLED", "1"))


def sh(cmd, cwd=None, timeout=3600, env=None, stdin=None):
    p = subprocess.run(cmd, cwd=cwd, shell=isinstance(cmd, str), stdout=subprocess.PIPE,
                       stderr=subprocess.STDOUT, timeout=timeout, env=env, input=stdin)
    return p.returncode, p.stdout.decode("utf-8", "replace")


class Check:
    def __init__(self, prop, tier, seed):
        self.prop = prop
        self.tier = tier
        self.seed = seed
        self.t0 = time.time()
        self.scratch = os.environ.get("VERIF_SCRATCH") or "/var/tmp/verif.%s.%d" % (prop, os.getpid())
        self.violations = []      # (replay_path, suffix)
        self.known = []           # strings
        self.notes = []
        self.trusted = []
        self.assumptions_text = {}
        self.obligations = 0
        self.discharged = 0
        self.checker_cmd = ""
        self.coverage = {}
        self.findings = load_findings()
        os.makedirs(os.path.join(ROOT, "evidence"), exist_ok=True)
        os.makedirs(os.path.join(ROOT, "replays"), exist_ok=True)

    # ------------------------------------------------------------------ coq
    def coq_stage(self, prop_files, lemma_files=(), pre_files=()):
        """Build the development, re-check the property file(s), capture
        Print Assumptions.  Returns False when an obligation is broken."""
        ok = True
        cmds = []
        if os.environ.get("VERIF_DEBUG_SKIP_COQ") == "1":      # debugging aid only; never set by the registered commands
            self.notes.append("coq stage skipped (VERIF_DEBUG_SKIP_COQ)")
            return True
        if not os.path.exists(os.path.join(COQ, "Makefile")):
            sh("coq_makefile -f _CoqProject -o Makefile", cwd=COQ)
        rc, out = sh("timeout 3000 make -j16", cwd=COQ, timeout=3100)
        cmds.append("make -j16 (coq_makefile, full .vo build)")
        if rc != 0:
            ok = False
            self.notes.append("coq build failed: " + out[-2000:])
        work = COQ
        self.src_hash = None
        if self.tier == "thorough" and ok and os.environ.get("VERIF_NO_CLEAN") != "1":
            # a from-scratch build of the sources in a private copy (no stale .vo can hide anything,
            # and concurrent checks are not disturbed); coqchk runs on that copy.  The verdicts are
            # remembered per content hash of all .v sources (+ _CoqProject, coqc version), so the same
            # sources are not rebuilt / re-checked by every property's thorough run.
            self.src_hash = sources_hash()
            cache = os.path.join(COQ, ".thorough_cache")
            os.makedirs(cache, exist_ok=True)
            mods_key = hashlib.sha1(" ".join(sorted(prop_files)).encode()).hexdigest()[:12]
            self.cache_file = os.path.join(cache, "%s-%s.json" % (self.src_hash[:24], mods_key))
            if os.path.exists(self.cache_file) and os.environ.get("VERIF_NO_CACHE") != "1":
                self.cached = json.load(open(self.cache_file))
            else:
                self.cached = None
                # the clean build itself is shared by all properties' thorough runs on the same
                # sources: one directory per source hash (older ones are removed)
                work = os.path.join(cache, "build-" + self.src_hash[:24])
                marker = os.path.join(work, "BUILD_OK")
                lockdir = work + ".lock"
                waited = 0
                while True:
                    try:
                        os.mkdir(lockdir)
                        break
                    except FileExistsError:      # another thorough check is building it right now
                        time.sleep(5)
                        waited += 5
                        if waited > 7200:
                            shutil.rmtree(lockdir, ignore_errors=True)
                try:
                    if not os.path.exists(marker):
                        for old in os.listdir(cache):
                            if old.startswith("build-") and not old.endswith(".lock") and os.path.join(cache, old) != work:
                                shutil.rmtree(os.path.join(cache, old), ignore_errors=True)
                        shutil.rmtree(work, ignore_errors=True)
                        shutil.copytree(COQ, work, ignore=shutil.ignore_patterns("*.vo", "*.vok", "*.vos", "*.glob", "*.aux", ".*.aux", "Makefile", "Makefile.conf", ".Makefile.d", "*.d", ".thorough_cache"))
                        sh("coq_makefile -f _CoqProject -o Makefile", cwd=work)
                        rc, out = sh("timeout 6000 make -j16", cwd=work, timeout=6100)
                        cmds.append("clean rebuild in a scratch copy: coq_makefile && make -j16")
                        if rc != 0:
                            ok = False
                            self.notes.append("clean coq build failed: " + out[-2000:])
                            work = COQ
                        else:
                            open(marker, "w").write(time.strftime("%Y-%m-%dT%H:%M:%S"))
                    else:
                        cmds.append("clean rebuild in a scratch copy (shared, built %s for source hash %s)" % (open(marker).read(), self.src_hash[:16]))
                finally:
                    shutil.rmtree(lockdir, ignore_errors=True)
        self.coq_work = work
        for pre in pre_files:      # generated files outside _CoqProject (C19)
            rc, out = sh("timeout 900 coqc -R . RT %s" % pre, cwd=work, timeout=1000)
            if rc != 0:
                ok = False
                self.notes.append("%s does not compile: %s" % (pre, out[-1500:]))
        # forbidden vernacular anywhere in the development
        bad = []
        for dp, _, fs in os.walk(COQ):
            for f in fs:
                if f.endswith(".v"):
                    txt = open(os.path.join(dp, f)).read()
                    txt = re.sub(r"\(\*.*?\*\)", "", txt, flags=re.S)
                    for m in FORBIDDEN.finditer(txt):
                        bad.append("%s: %s" % (os.path.relpath(os.path.join(dp, f), COQ), m.group(0)))
        if bad:
            ok = False
            self.notes.append("forbidden vernacular: " + "; ".join(bad[:10]))
        theorems = []
        for pf in prop_files:
            path = os.path.join(COQ, pf)
            src = open(path).read()
            names = re.findall(r"^\s*(?:Theorem|Corollary|Lemma)\s+(\w+)", src, flags=re.M)
            examples = re.findall(r"^\s*Example\s+(\w+)", src, flags=re.M)
            rc, out = sh("timeout 900 coqc -R . RT %s" % pf, cwd=work, timeout=1000)
            cmds.append("coqc -R . RT %s" % pf)
            closed = out.count("Closed under the global context")
            axioms = re.findall(r"^Axioms:\n((?:.+\n)+)", out, flags=re.M)
            if rc != 0:
                ok = False
                self.notes.append("property file %s does not check: %s" % (pf, out[-1500:]))
            else:
                self.discharged += len(names) + len(examples)
            self.obligations += len(names) + len(examples)
            theorems += names
            self.assumptions_text[pf] = ("%d theorems, %d examples; Print Assumptions: %d x 'Closed under the global context'%s"
                                         % (len(names), len(examples), closed,
                                            ("; axioms: " + " | ".join(a.strip() for a in axioms)) if axioms else ""))
        # lemma counts in the closure (informational)
        nlem = 0
        for lf in lemma_files:
            try:
                nlem += len(re.findall(r"^(?:Lemma|Theorem|Corollary)\s+\w+", open(os.path.join(COQ, lf)).read(), flags=re.M))
            except OSError:
                pass
        self.coverage["lemmas_in_closure"] = nlem
        self.coverage["theorems"] = theorems
        if self.tier == "thorough" and ok and os.environ.get("VERIF_NO_COQCHK") != "1":
            mods = " ".join("RT." + pf[:-2].replace("/", ".") for pf in prop_files)
            if getattr(self, "cached", None):
                cmds.append("clean rebuild + coqchk -silent -o -R . RT %s (verdict cached for source hash %s, checked %s)" % (mods, self.src_hash[:16], self.cached.get("when")))
                self.coverage["coqchk"] = self.cached.get("coqchk", "")
            else:
                rc, out = sh("timeout 5400 coqchk -silent -o -R . RT %s" % mods, cwd=work, timeout=5500)
                cmds.append("coqchk -silent -o -R . RT %s" % mods)
                self.coverage["coqchk"] = out[-1500:]
                if rc != 0:
                    ok = False
                    self.notes.append("coqchk failed: " + out[-1500:])
                elif getattr(self, "cache_file", None) and not pre_files:
                    json.dump({"when": time.strftime("%Y-%m-%dT%H:%M:%S"), "coqchk": out[-1500:]}, open(self.cache_file, "w"))
        self.checker_cmd = " && ".join(cmds)
        self.coq_work = COQ
        return ok

    # -------------------------------------------------------------- scratch
    def build_impl(self, extra_tags=""):
        """Copy /repo's current working tree to scratch, add the verif-tagged
        exporter, build the harness against it."""
        sc = self.scratch
        shutil.rmtree(sc, ignore_errors=True)
        os.makedirs(os.path.join(sc, "reftable"))
        for f in os.listdir(REPO):
            if (f.endswith(".go") and not f.endswith("_test.go")) or f in ("go.mod", "go.sum"):
                shutil.copy(os.path.join(REPO, f), os.path.join(sc, "reftable", f))
        for f in os.listdir(os.path.join(ROOT, "harness", "export")):
            shutil.copy(os.path.join(ROOT, "harness", "export", f), os.path.join(sc, "reftable", f))
        # redirect the stack code's package-level fs calls to the shim (DESIGN.md 3.3)
        rules = [("os.OpenFile", "vfsOpenFile"), ("os.Open", "vfsOpen"), ("os.Rename", "vfsRename"),
                 ("os.Remove", "vfsRemove"), ("ioutil.ReadFile", "vfsReadFile"), ("ioutil.TempFile", "vfsTempFile"),
                 ("ioutil.ReadDir", "vfsReadDir"), ("time.Now", "vfsNow")]
        rw_ok = True
        for fn in ("stack.go", "reftable.go"):
            path = os.path.join(sc, "reftable", fn)
            if not os.path.exists(path):
                continue
            for a, b in rules:
                rc, out = sh(["gofmt", "-r", "%s -> %s" % (a, b), "-w", path], env=GOENV)
                rw_ok = rw_ok and rc == 0
            with open(path, "a") as f:
                f.write("\nvar _ = ioutil.ReadFile\nvar _ = os.Remove\nvar _ = time.Now\n" if fn == "stack.go" else "\nvar _ = os.Remove\n")
        self.rewrite_ok = rw_ok
        shutil.copytree(os.path.join(ROOT, "harness"), os.path.join(sc, "harness"),
                        ignore=shutil.ignore_patterns("export", "bin", "cdriver"))
        rc, out = sh("go build -tags 'verif %s' -o h ." % extra_tags, cwd=os.path.join(sc, "harness"),
                     env=GOENV, timeout=900)
        if rc != 0:
            self.notes.append("harness build failed: " + out[-3000:])
            return False
        return True

    def build_cdrv(self):
        """Build the C implementation of the working tree with the line-protocol driver (C15)."""
        cdir = os.path.join(REPO, "c")
        srcs = [os.path.join(cdir, f) for f in sorted(os.listdir(cdir))
                if f.endswith(".c") and not f.endswith("_test.c") and f not in ("test_framework.c", "dump.c")]
        out = os.path.join(self.scratch, "cdrv")
        rc, txt = sh(["gcc", "-O1", "-w", "-I" + cdir, "-I" + os.path.join(cdir, "include"), "-o", out,
                      os.path.join(ROOT, "harness", "cdriver", "cdrv.c")] + srcs + ["-lz"], timeout=600)
        if rc != 0:
            self.notes.append("C build failed: " + txt[-2000:])
            return None
        return out

    def run_harness(self, hprop, extra_args="", timeout=3000, tier=None, outname="out"):
        out = os.path.join(self.scratch, outname)
        os.makedirs(out, exist_ok=True)
        env = dict(GOENV)
        if getattr(self, "cdrv", None):
            env["VERIF_CDRV"] = self.cdrv
        try:
            rc, txt = sh("./h -prop %s -seed %d -tier %s -out %s %s" % (hprop, self.seed, tier or self.tier, out, extra_args),
                         cwd=os.path.join(self.scratch, "harness"), env=env, timeout=timeout)
        except subprocess.TimeoutExpired:
            rc, txt = 124, "timeout after %ds" % timeout
        cases = os.path.join(out, hprop + ".cases")
        stats = {}
        try:
            stats = json.load(open(os.path.join(out, hprop + ".stats.json")))
        except (OSError, ValueError):
            pass
        if rc != 0:
            self.notes.append("harness run failed (rc %d): %s" % (rc, txt[-3000:]))
            return None, stats
        return cases, stats

    def ensure_driver(self):
        srcs = [os.path.join(ROOT, "ocaml", f) for f in os.listdir(os.path.join(ROOT, "ocaml")) if f.endswith(".ml")]
        srcs.append(os.path.join(COQ, "Extract", "Extract.v"))
        for dp, _, fs in os.walk(os.path.join(COQ, "Model")):
            srcs += [os.path.join(dp, f) for f in fs if f.endswith(".v")]
        stamp = os.path.join(ROOT, "ocaml", "extracted", ".stamp")
        if (not os.path.exists(DRIVER) or not os.path.exists(stamp)
                or any(os.path.getmtime(s) > os.path.getmtime(stamp) for s in srcs)):
            rc, out = sh(os.path.join(ROOT, "bin", "build_driver"), timeout=1800)
            if rc != 0:
                self.notes.append("driver build failed: " + out[-2000:])
                return False
        return True

    def run_driver(self, cases_path, timeout=3000):
        if not self.ensure_driver():
            return None
        with open(cases_path, "rb") as f:
            env = dict(os.environ, VERIF_ZLIBD=os.path.join(self.scratch, "harness", "h") + " -zlibd", VERIF_PROP=self.prop)
            p = subprocess.run(["bash", "-c", "ulimit -s unlimited 2>/dev/null || ulimit -s 4000000 2>/dev/null; exec " + DRIVER], stdin=f, stdout=subprocess.PIPE, stderr=subprocess.PIPE, timeout=timeout, env=env)
        if p.returncode != 0:
            self.notes.append("driver failed: " + p.stderr.decode()[-2000:])
            return None
        return p.stdout.decode("utf-8", "replace").split("\n")

    # ------------------------------------------------------------- compare
    def compare(self, cases_path, model_lines, nontrivial=lambda cmd, args, impl: True):
        """Returns dict with counts; fills mismatches / oracle failures."""
        res = {"evaluations": 0, "tie_mismatch": [], "oracle_bad": [], "by_cmd": {}, "distinct_nontrivial": 0}
        seen = set()
        with open(cases_path, encoding="utf-8", errors="replace") as f:
            for i, line in enumerate(f):
                line = line.rstrip("\n")
                parts = line.split("\t")
                cmd = parts[0]
                args = parts[1] if len(parts) > 1 else ""
                impl = parts[2] if len(parts) > 2 else ""
                ml = model_lines[i] if i < len(model_lines) else "\t-"
                mp = ml.split("\t")
                model = mp[0]
                oracle = mp[1] if len(mp) > 1 else "-"
                res["evaluations"] += 1
                res["by_cmd"][cmd] = res["by_cmd"].get(cmd, 0) + 1
                h = hashlib.sha1((cmd + "\t" + args).encode()).digest()
                if h not in seen:
                    seen.add(h)
                    if nontrivial(cmd, args, impl):
                        res["distinct_nontrivial"] += 1
                if model != impl and model != "-nomodel-":
                    res["tie_mismatch"].append({"line": i, "cmd": cmd, "args": args, "impl": impl, "model": model, "oracle": oracle})
                if cmd == "history" and "+residue[" in impl:
                    # C16 on sequential histories: the harness listed the real directory at an idle point
                    oracle = "bad: residue at an idle point: " + impl[impl.index("+residue["):].split("^")[0]
                if oracle.startswith("bad"):
                    res["oracle_bad"].append({"line": i, "cmd": cmd, "args": args, "impl": impl, "model": model, "oracle": oracle})
        return res

    # ------------------------------------------------------------ search
    def search_deeper(self, hprop, extra_args, res, nontrivial, budget=1200):
        """The tie broke on the quick generator but no property oracle failed there: look for a
        concrete failing input with the thorough generator (same seed) before giving up."""
        if self.tier != "quick" or self.replay:
            return
        if not res["tie_mismatch"] or any(not self.match_finding(b) for b in res["oracle_bad"]):
            return
        if all(self.match_finding(m) for m in res["tie_mismatch"]):
            return
        self.notes.append("tie broken without an oracle failure on the quick generator: searching the thorough generator for a failing input (budget %ds)" % budget)
        cases, _ = self.run_harness(hprop, extra_args, timeout=budget, tier="thorough", outname="search")
        if cases is None or not os.path.exists(cases):
            # a timed-out harness may still have flushed part of its cases
            cases = os.path.join(self.scratch, "search", hprop + ".cases")
            if not os.path.exists(cases):
                return
            data = open(cases, "rb").read()
            cut = data.rfind(b"\n")
            open(cases, "wb").write(data[:cut + 1] if cut >= 0 else b"")
        try:
            model = self.run_driver(cases, timeout=budget)
        except subprocess.TimeoutExpired:
            model = None
        if model is None:
            return
        res2 = self.compare(cases, model, nontrivial)
        found = [b for b in res2["oracle_bad"] if not self.match_finding(b)]
        self.notes.append("deeper search: %d cases, %d oracle failures" % (res2["evaluations"], len(found)))
        res["oracle_bad"] += found
        res["search_evaluations"] = res2["evaluations"]

    # ------------------------------------------------------------ classify
    def write_replay(self, name, obj):
        path = os.path.join(ROOT, "replays", "%s-%s.json" % (self.prop, name))
        obj = dict(obj, property=self.prop, tier=self.tier, seed=self.seed)
        with open(path, "w") as f:
            json.dump(obj, f, indent=1)
        return path

    def classify(self, res, coq_ok, what_tie):
        """Standard classification of DESIGN.md 4.4."""
        bad = res["oracle_bad"]
        unexplained = []
        for b in bad:
            k = self.match_finding(b)
            if k:
                if k not in self.known:
                    self.known.append(k)
            else:
                unexplained.append(b)
        if unexplained:
            b = unexplained[0]
            path = self.write_replay("oracle", {"kind": "property-oracle-failure", "case": b,
                                               "more": unexplained[1:20], "count": len(unexplained)})
            self.violations.append((path, ""))
            return
        mism = [m for m in res["tie_mismatch"] if not self.match_finding(m)]
        if mism:
            # tie broken but no oracle failure among the cases explored
            path = self.write_replay("tie", {"kind": "correspondence-broken", "correspondence": what_tie,
                                            "case": mism[0], "more": mism[1:20], "count": len(mism),
                                            "note": "implementation and model disagree; no property-oracle failure found on the explored cases"})
            self.violations.append((path, " no-failing-input-found"))
            return
        if not coq_ok:
            path = self.write_replay("proof", {"kind": "proof-obligation-broken", "notes": self.notes})
            self.violations.append((path, " no-failing-input-found"))

    def match_finding(self, case):
        # a listed finding of ANOTHER property can show up in this property's workload (e.g. the
        # C12 verdict on a multi-table Addition inside a C07 history): it is reported under its
        # own property id and is not a violation of this one
        for f in sorted(self.findings, key=lambda f: f.get("property") != self.prop):
            if f.get("status") != "finding":
                continue
            m = f.get("match", {})
            if m.get("cmd") and m["cmd"] != case.get("cmd"):
                continue
            if m.get("oracle") and m["oracle"] != case.get("oracle"):
                continue
            if m.get("args_regex") and not re.search(m["args_regex"], case.get("args", "")):
                continue
            if m.get("impl_regex") and not re.search(m["impl_regex"], case.get("impl", "")):
                continue
            if f.get("property") != self.prop:
                return "\x00%s\x00%s" % (f.get("property"), f["what"])
            return f["what"]
        return None

    # ------------------------------------------------------------ finish
    def finish(self, level="proof", rule="", samples=None, assumptions=None, extra=None):
        cov = dict(self.coverage)
        if self.obligations >= 1:
            cov["obligations"] = self.obligations
            cov["discharged"] = self.discharged
        cov["checker_cmd"] = self.checker_cmd or "none"
        cov["trusted_base"] = self.trusted + ["%s: %s" % kv for kv in self.assumptions_text.items()]
        cov["rule"] = rule
        cov["samples"] = samples or ["(none)"]
        if extra:
            cov.update(extra)
        if self.notes:
            cov["notes"] = self.notes
        cov.setdefault("evaluations", 0)
        cov.setdefault("distinct_nontrivial", 0)
        ev = {"property_id": self.prop, "tier": self.tier, "seed": self.seed, "level": level,
              "coverage": cov, "assumptions": assumptions or [], "wall_s": round(time.time() - self.t0, 2),
              "violations": len(self.violations),
              "known_findings": [("(finding of property %s) %s" % tuple(k.split("\x00")[1:3])) if k.startswith("\x00") else k for k in self.known]}
        with open(os.path.join(ROOT, "evidence", self.prop + ".json"), "w") as f:
            json.dump(ev, f, indent=1)
        shutil.rmtree(self.scratch, ignore_errors=True)
        for k in self.known:
            if k.startswith("\x00"):
                _, fp, k = k.split("\x00", 2)
                print("KNOWN-FINDING: property=%s %s" % (fp, k))
                continue
            print("KNOWN-FINDING: property=%s %s" % (self.prop, k))
        for path, suffix in self.violations:
            print("VIOLATION property=%s replay=%s%s" % (self.prop, path, suffix))
        if self.violations:
            for n in self.notes[:5]:
                print("note: " + n[:2000])
            sys.exit(1)
        print("OK property=%s tier=%s obligations=%d/%d evaluations=%d wall=%.1fs" % (
            self.prop, self.tier, self.discharged, self.obligations, cov.get("evaluations", 0), time.time() - self.t0))
        sys.exit(0)


def sources_hash():
    h = hashlib.sha256()
    rc, ver = sh("coqc --version")
    h.update(ver.encode())
    files = []
    for dp, dn, fs in os.walk(COQ):
        dn[:] = [d for d in dn if d != ".thorough_cache"]
        for f in fs:
            if f.endswith(".v") or f == "_CoqProject":
                files.append(os.path.join(dp, f))
    for f in sorted(files):
        h.update(os.path.relpath(f, COQ).encode() + b"\0")
        h.update(open(f, "rb").read())
    return h.hexdigest()


def load_findings():
    p = os.path.join(ROOT, "known_findings.json")
    try:
        return json.load(open(p)).get("findings", [])
    except (OSError, ValueError):
        return []


COMMON_TRUSTED = [
    "Coq 8.16.1 kernel (coqc; coqchk in the thorough tier); vm_compute used for examples/witnesses, native_compute not used",
    "no Axiom/Parameter/Admitted declared (grep on every run); model and proofs use the Coq standard library only",
    "extraction: Separate Extraction with ExtrOcamlBasic only (Extract Inductive bool,option,list,prod,unit,sumbool -> OCaml natives; no Extract Constant); nat/positive/N/Z stay extracted datatypes; OCaml 4.13.1 + zarith for decimal I/O",
    "the correspondence check itself: Go harness generators, the verif-tagged exporter file added to a scratch copy of /repo, ocaml/driver.ml parsing/printing glue, bin/verifylib.py comparison",
    "modelled rather than verified: Go compiler/runtime and standard library (os, io/ioutil, compress/zlib, encoding/binary, sort, hash/crc32)",
]
