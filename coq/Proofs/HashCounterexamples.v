(* Hash types: what is FALSE for a handle configured with the wrong hash type, and
   runs of the model through the scenarios the proofs had to cover.

   C04 C05 C06 C08 C10 C16 hold for every configuration of the handles
   (Proofs/StackInvProofs.v, SnapshotProofs.v, ResidueProofs.v, LockProofs.v:
   no hypothesis on the hash types of the handles).  The one property that is
   false for a foreign handle is C09 ("a stale handle's failed Add refreshes
   the handle and the retry succeeds"): its reload refuses the tables of the
   stack, the handle keeps what it had, and the retry fails again.  That is the
   intended behaviour of the fix (the handle must not commit), so C09 keeps the
   hypothesis [native]; [c09_foreign_refuted] shows it cannot be dropped (the
   directory of the counterexample is empty at the start: with a non-empty
   directory a foreign handle cannot even open, and C09 holds without any
   hypothesis on the handles: StaleProofs.[c09_gc_all_traces_weak]). *)
From Coq Require Import List NArith Arith Bool Lia.
From RT Require Import Model.StackTrace Model.Segments Model.StackProto.
From RT Require Import Proofs.StackInvProofs Proofs.StaleProofs.
Import ListNotations.
Local Open Scope nat_scope.

Definition so (_ : nat) : N := 100%N.
Definition steps (h n : nat) : list sched_item := repeat (Step h None) n.

Lemma init_ok_nil : init_ok [].
Proof. split; [reflexivity|]. split; [reflexivity|]. exists false. intros x []. Qed.

(* ---------------- C09 without [native] ---------------- *)

(* S9: the directory is empty; handle 0 (SHA-256) opens it; handle 1 (SHA-1) opens, commits 21;
   handle 0 then runs an Add, undisturbed: its view [] is stale, the Add fails with
   ErrLockFailure and leaves the directory alone -- but the handle is NOT refreshed (it still
   holds [] and not [the table of 21]), and the second Add fails in the same way *)
Definition scripts_s9 : list (bool * list apiop) :=
  [(true, [AOpen; AAdd 11 false; AAdd 12 false]); (false, [AOpen; AAdd 21 false; ARead])].
Definition sched_s9 := steps 0 2 ++ steps 1 40 ++ steps 0 40.
Definition tr_s9 := trace_of so 50 [] scripts_s9 sched_s9.

Example s9_trace :
  c04_ok tr_s9 = true /\ c05_ok tr_s9 = true /\ c06_ok tr_s9 = true /\ c08_ok tr_s9 = true /\
  c10_ok tr_s9 = true /\ c16_ok tr_s9 = true /\
  c09_precond tr_s9 = true /\ c09_ok tr_s9 = false /\ c09_ok_gc tr_s9 = false /\
  existsb (fun e => match e with ERet 0 (AAdd 11 false) RLockFailure => true | _ => false end) tr_s9 = true /\
  existsb (fun e => match e with ERet 0 (AAdd 12 false) RLockFailure => true | _ => false end) tr_s9 = true.
Proof. vm_compute. repeat split. Qed.

(* the hypothesis [native] of C09_stale_gc / C09_stale_strict cannot be dropped *)
Theorem c09_foreign_refuted :
  ~ (forall size_oracle attempts tabs (scripts : list (bool * list apiop)) sched,
       init_ok tabs -> (1 <= attempts)%nat ->
       c09_ok_gc (trace_of size_oracle attempts tabs scripts sched) = true).
Proof.
  intro H. assert (E : c09_ok_gc tr_s9 = true) by (apply H; [apply init_ok_nil|repeat constructor]).
  destruct s9_trace as (_ & _ & _ & _ & _ & _ & _ & _ & X & _). rewrite X in E. discriminate E.
Qed.

Theorem c09_strict_foreign_refuted :
  ~ (forall size_oracle attempts tabs (scripts : list (bool * list apiop)) sched,
       init_ok tabs -> (1 <= attempts)%nat ->
       c09_precond (trace_of size_oracle attempts tabs scripts sched) = true ->
       c09_ok (trace_of size_oracle attempts tabs scripts sched) = true).
Proof.
  intro H. destruct s9_trace as (_ & _ & _ & _ & _ & _ & P & X & _).
  assert (E : c09_ok tr_s9 = true) by (apply H; [apply init_ok_nil|repeat constructor|exact P]).
  rewrite X in E. discriminate E.
Qed.

(* neither [native] nor the weaker [native_if_empty] holds of S9 *)
Example s9_not_native : ~ native_if_empty [] scripts_s9.
Proof.
  intros Hn. destruct (Hn eq_refl) as [dh H]. rewrite Forall_forall in H.
  pose proof (H _ (or_introl eq_refl)) as H1. pose proof (H _ (or_intror (or_introl eq_refl))) as H2.
  cbn in H1, H2. congruence.
Qed.

(* ---------------- the scenarios the invariants had to cover (all predicates hold) ---------------- *)

Definition all_ok (tr : list event) : bool :=
  c04_ok tr && c05_ok tr && c06_ok tr && c08_ok tr && c10_ok tr && c16_ok tr.

(* (a) the misconfigured handle commits first into the empty directory: it defines the hash
   type of the stack, and the regular handle is the one that cannot commit any more *)
Example foreign_commits_first :
  let tr := trace_of so 50 []
              [(true, [AOpen; AAdd 11 false; ARead]); (false, [AOpen; AAdd 21 false; ARead; AClean; AClose])]
              (steps 1 2 ++ steps 0 40 ++ steps 1 60) in
  all_ok tr = true /\
  existsb (fun e => match e with ERet 0 (AAdd 11 false) ROk => true | _ => false end) tr = true /\
  existsb (fun e => match e with ERet 1 (AAdd 21 false) RLockFailure => true | _ => false end) tr = true /\
  existsb (fun e => match e with ERet 1 ARead (RView [] None) => true | _ => false end) tr = true /\
  existsb (fun e => match e with ERet 1 AClean RLockFailure => true | _ => false end) tr = true /\
  existsb (fun e => match e with ERet 1 AClose ROk => true | _ => false end) tr = true.
Proof. vm_compute. repeat split. Qed.

(* (b) (c) a foreign handle holding the empty stack compacts, expires, cleans and closes while
   the stack is non-empty: nothing listed is unlinked, nothing of its hash type is listed *)
Example foreign_maintenance :
  let tr := trace_of so 50 []
              [(true, [AOpen; ACompactAll; AExpire; AAddMulti 5 false; AAddEmpty; AClean; ARead; AClose]);
               (false, [AOpen; AAdd 21 true; AAdd 22 true; ARead])]
              (steps 0 2 ++ steps 1 80 ++ steps 0 120) in
  all_ok tr = true /\
  existsb (fun e => match e with ERet 0 (AAddMulti 5 false) RLockFailure => true | _ => false end) tr = true /\
  existsb (fun e => match e with ERet 0 AClean RLockFailure => true | _ => false end) tr = true /\
  existsb (fun e => match e with ERet 0 ARead (RView [] None) => true | _ => false end) tr = true /\
  existsb (fun e => match e with ERet 1 ARead (RView txs _) => list_nat_eqb txs [21; 22] | _ => false end) tr = true.
Proof. vm_compute. repeat split. Qed.

(* a handle of the wrong hash type cannot open a non-empty directory at all *)
Example foreign_open_fails :
  let tabs := [(0, {| tf_min := 1; tf_max := 1; tf_txs := [100]; tf_size := 100; tf_hash := false |})] in
  let tr := trace_of so 50 tabs
              [(true, [AOpen; AAdd 11 false; ARead]); (false, [AOpen; AAdd 21 false; ARead])]
              (steps 0 40 ++ steps 1 40) in
  all_ok tr = true /\ c09_ok tr = true /\ c09_ok_gc tr = true /\
  existsb (fun e => match e with ERet 0 AOpen RErr => true | _ => false end) tr = true /\
  existsb (fun e => match e with ERet 0 (AAdd 11 false) RNoStack => true | _ => false end) tr = true /\
  existsb (fun e => match e with ERet 1 ARead (RView txs _) => list_nat_eqb txs [100; 21] | _ => false end) tr = true.
Proof. vm_compute. repeat split. Qed.

(* interleaved at the level of single operations: the foreign handle's Add holds the list lock
   while the regular one commits nothing; then the regular handle's compaction and the foreign
   handle's stale Add race *)
Example foreign_interleaved :
  let sched := steps 0 2 ++ steps 1 2 ++
               flat_map (fun _ => [Step 0 None; Step 1 None]) (seq 0 60) in
  let tr := trace_of so 50 []
              [(true, [AOpen; AAdd 11 true; AAdd 12 true; ARead]);
               (false, [AOpen; AAdd 21 true; AAdd 22 true; ACompactAll; ARead])] sched in
  all_ok tr = true.
Proof. vm_compute. reflexivity. Qed.
