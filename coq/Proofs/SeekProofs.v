(* C02: seeking in a written table lands on the first record at or after the
   requested key -- for every key, with or without (multi-level) index.
   Standard library only. *)
From Coq Require Import List NArith ZArith Arith Bool Lia ZifyN ZifyNat ZifyBool Sorted.
From RT Require Import Model.Bytes Model.Result Model.Varint Model.KeyCodec Model.Records
  Model.RecCodec Model.Block Model.Crc32 Model.Writer Model.Reader.
From RT Require Import Proofs.BytesProofs Proofs.CodecProofs Proofs.BlockInitEq Proofs.BlockProofs
  Proofs.WriterGuard Proofs.TableProofs.
Import ListNotations.
Local Open Scope N_scope.

#[local] Arguments N.div : simpl never.
#[local] Arguments N.modulo : simpl never.
#[local] Arguments N.mul : simpl never.
#[local] Arguments N.add : simpl never.
#[local] Arguments N.sub : simpl never.
#[local] Arguments N.pow : simpl never.
#[local] Arguments N.of_nat : simpl never.
#[local] Arguments N.to_nat : simpl never.
#[local] Arguments N.min : simpl never.
#[local] Arguments N.leb : simpl never.
#[local] Arguments N.ltb : simpl never.
#[local] Arguments N.eqb : simpl never.
#[local] Arguments Nat.div : simpl never.
#[local] Arguments Nat.modulo : simpl never.
#[local] Arguments Nat.ltb : simpl never.
#[local] Arguments Nat.leb : simpl never.

(* the specification: the records at or after the key *)
Fixpoint seek_refs (k : bytes) (l : list ref_record) : list ref_record :=
  match l with [] => [] | r :: t => if bytes_ltb (r_name r) k then seek_refs k t else l end.
Fixpoint seek_logs (k : bytes) (l : list log_record) : list log_record :=
  match l with [] => [] | r :: t => if bytes_ltb (log_key r) k then seek_logs k t else l end.

(* ------------------------------------------------------------------ *)
(* W: the writer also records where the index of the ref section starts *)

Section SeekW.
  Variable deflate : bytes -> bytes.
  Variable c : config.
  Variable mn mx : N.

  Definition rio (st : wstate) : N := ts_index_offset (w_ref st).

  Lemma flush_rio : forall st, rio (flush_block deflate st) = rio st.
  Proof.
    intros st. unfold flush_block. destruct (w_bw st) as [b|]; [|reflexivity].
    destruct (Nat.eqb (bw_entries b) 0); [reflexivity|].
    cbv zeta. unfold rio. cbn [set_obj upd set_stats w_ref].
    destruct (bw_typ b =? typ_ref) eqn:E; [|reflexivity].
    cbn [ts_index_offset]. unfold get_stats. rewrite E. reflexivity.
  Qed.

  Lemma index_level_rio : forall idx st st', index_level deflate st idx = Ok st' -> rio st' = rio st.
  Proof.
    induction idx as [|[k off] rest IH]; intros st st' H; cbn [index_level] in H.
    - apply Ok_inj in H. subst. reflexivity.
    - destruct (w_bw st) as [b|]; [|discriminate].
      destruct (bw_add b (RecIdx k off)) as [[b'|]| | |]; cbn [bind] in H; try discriminate.
      + apply IH in H. exact H.
      + destruct (bw_add (new_bw (flush_block deflate st) typ_idx) (RecIdx k off)) as [[b2|]| | |];
          cbn [bind] in H; try discriminate.
        apply IH in H. rewrite H. unfold rio at 1. cbn [set_bw upd w_ref]. apply flush_rio.
  Qed.

  Lemma index_levels_rio : forall fuel st thr is ml st' is' ml',
    index_levels deflate fuel st thr is ml = Ok (st', is', ml') -> rio st' = rio st.
  Proof.
    induction fuel as [|f IH]; intros st thr is ml st' is' ml' H; cbn [index_levels] in H; [discriminate|].
    destruct (Nat.ltb thr (length (w_index st))).
    - destruct (index_level deflate (set_index (set_bw st (Some (new_bw st typ_idx))) []) (w_index st))
        as [st1| | |] eqn:IL; cbn [bind] in H; try discriminate.
      apply index_level_rio in IL.
      destruct (Nat.leb (length (w_index st)) (length (w_index (flush_block deflate st1)))).
      + apply Ok_inj in H. injection H as <- _ _. rewrite flush_rio. exact IL.
      + apply IH in H. rewrite H, flush_rio. exact IL.
    - apply Ok_inj in H. injection H as <- _ _. reflexivity.
  Qed.

  Lemma finish_section_rio : forall st st' b, finish_section deflate st = Ok st' -> w_bw st = Some b ->
    bw_typ b <> typ_ref -> rio st' = rio st.
  Proof.
    intros st st' b H B NT. unfold finish_section in H. rewrite B in H.
    destruct (index_levels deflate (S (length (w_index (flush_block deflate st)))) (flush_block deflate st)
                (if c_unaligned (w_cfg st) then 1%nat else 3%nat) 0 0)
      as [[[st2 is2] ml2]| | |] eqn:IL; cbn [bind] in H; try discriminate.
    apply Ok_inj in H. subst st'. apply index_levels_rio in IL. rewrite flush_rio in IL.
    unfold rio in *. cbn [set_last_key upd set_stats set_index w_ref].
    destruct (N.eqb_spec (bw_typ b) typ_ref); [congruence|]. exact IL.
  Qed.

  Lemma dump_objs_rio : forall objs st idlen st', dump_objs deflate st idlen objs = Ok st' -> rio st' = rio st.
  Proof.
    induction objs as [|[k offs] rest IH]; intros st idlen st' H; cbn [dump_objs] in H.
    - apply Ok_inj in H. subst. reflexivity.
    - destruct (w_bw st) as [b|]; [|discriminate].
      destruct (bw_add b (RecObj (firstn idlen k) offs)) as [[b'|]| | |]; cbn [bind] in H; try discriminate.
      + apply IH in H. exact H.
      + destruct (bw_add (new_bw (flush_block deflate st) typ_obj) (RecObj (firstn idlen k) offs))
          as [[b2|]| | |]; cbn [bind] in H; try discriminate.
        * apply IH in H. rewrite H. unfold rio at 1. cbn [set_bw upd w_ref]. apply flush_rio.
        * destruct (bw_add (new_bw (flush_block deflate st) typ_obj) (RecObj (firstn idlen k) []))
            as [[b3|]| | |]; cbn [bind] in H; try discriminate.
          apply IH in H. rewrite H. unfold rio at 1. cbn [set_bw upd w_ref]. apply flush_rio.
  Qed.

  Lemma w_add_rio : forall st r st', w_add deflate st r = Ok st' -> rio st' = rio st.
  Proof.
    intros st r st' H. apply w_add_ok_core in H; unfold w_add_core in H.
    destruct (negb (bytes_ltb (w_last_key st) (rec_key r))); [discriminate|].
    set (st0 := set_last_key st (rec_key r)) in *.
    set (st1 := match w_bw st0 with None => set_bw st0 (Some (new_bw st0 (rec_typ r))) | Some _ => st0 end) in *.
    assert (R1 : rio st1 = rio st) by (unfold st1; destruct (w_bw st0); reflexivity).
    clearbody st1.
    destruct (w_bw st1) as [b|]; [|discriminate].
    destruct (negb (bw_typ b =? rec_typ r)); [discriminate|].
    destruct (bw_add b r) as [[b'|]| | |]; cbn [bind] in H; try discriminate.
    - apply Ok_inj in H. subst. exact R1.
    - destruct (bw_add (new_bw (flush_block deflate st1) (rec_typ r)) r) as [[b2|]| | |]; cbn [bind] in H;
        try discriminate.
      apply Ok_inj in H. subst. unfold rio at 1. cbn [set_bw upd w_ref].
      fold (rio (flush_block deflate st1)). rewrite flush_rio. exact R1.
  Qed.

  Lemma w_add_log_rio : forall st l st' b, w_add_log deflate st l = Ok st' -> w_bw st = Some b ->
    bw_typ b <> typ_ref -> rio st' = rio st.
  Proof.
    intros st l st' b H B NT. unfold w_add_log in H.
    destruct (Nat.eqb (length (l_name l)) 0); [discriminate|].
    destruct (norm_log (c_exact_log (w_cfg st)) l) as [l1|]; [|discriminate].
    rewrite B in H. destruct (N.eqb_spec (bw_typ b) typ_ref); [congruence|]. cbn [bind] in H.
    apply w_add_rio in H. exact H.
  Qed.

  Lemma add_logs_rio : forall logs st cs0 sec cur L st',
    PL deflate c mn mx st cs0 sec cur L -> add_logs deflate st logs = Ok st' -> rio st' = rio st.
  Proof.
    induction logs as [|l t IH]; intros st cs0 sec cur L st' P H; cbn [add_logs] in H.
    - apply Ok_inj in H. subst. reflexivity.
    - destruct (w_add_log deflate st l) as [st1| | |] eqn:A; cbn [bind] in H; try discriminate.
      destruct (w_add_log_next _ _ _ _ _ _ _ _ _ _ _ P A) as (l1 & sec1 & cur1 & _ & P1).
      rewrite (IH _ _ _ _ _ _ P1 H).
      destruct P as [HS Hb _ _ _]. destruct HS as [_ _ _ _ SB].
      destruct (w_bw st) as [b|] eqn:B; [|congruence].
      eapply w_add_log_rio; [exact A|exact B|]. rewrite SB. discriminate.
  Qed.

  (* finishSection for the ref section *)
  Lemma finish_section_ref : forall st cs0 sec cur L st',
    SI deflate c mn mx typ_ref st cs0 sec cur L -> w_bw st <> None ->
    finish_section deflate st = Ok st' ->
    exists sec1 lv,
      WI deflate c mn mx st' ((cs0 ++ sec1) ++ concat lv) [] /\
      Forall (fun k => ck_typ k = typ_ref) sec1 /\ concat (map ck_recs sec1) = L /\
      lchain (llen cs0) sec1 lv /\ w_index st' = [] /\ w_log st' = w_log st /\
      rio st' = (match lv with [] => 0 | _ => top_off (llen cs0) sec1 lv end).
  Proof.
    intros st cs0 sec cur L st' HS Hb H. unfold finish_section in H.
    destruct (w_bw st) as [b|] eqn:B; [|congruence].
    assert (TB : bw_typ b = typ_ref).
    { destruct HS as [_ _ _ _ SB]. rewrite B in SB. exact SB. }
    destruct (flush_SI deflate c mn mx typ_ref st cs0 sec cur L HS ltac:(left; congruence)) as (sec1 & S1 & _ & C).
    set (st1 := flush_block deflate st) in *.
    destruct (index_levels deflate (S (length (w_index st1))) st1 (if c_unaligned (w_cfg st) then 1%nat else 3%nat) 0 0)
      as [[[st2 is2] ml2]| | |] eqn:IL; cbn [bind] in H; try discriminate.
    destruct (index_levels_spec _ _ _ _ _ _ _ _ _ _ _ _ _ _ _ _ S1 IL) as (lv & W2 & LC & G2 & I2 & _).
    apply Ok_inj in H. subst st'.
    exists sec1, lv.
    split; [eapply WI_frame; [..|exact W2]; reflexivity|].
    split; [destruct S1 as [_ ST _ _ _]; exact ST|].
    split; [destruct S1 as [_ _ SR _ _]; rewrite app_nil_r in SR; exact SR|].
    split; [exact LC|]. split; [reflexivity|].
    rewrite TB.
    cbn [set_last_key upd set_stats set_index w_log w_ref].
    change (typ_ref =? typ_log) with false. change (typ_ref =? typ_ref) with true. cbv iota.
    split.
    - rewrite G2. destruct C as [(_ & _ & ->)|(k & _ & _ & _ & _ & _ & G)]; [reflexivity|].
      rewrite G. reflexivity.
    - unfold rio. cbn [set_last_key upd set_stats set_index w_ref ts_index_offset].
      change (typ_ref =? typ_ref) with true. cbv iota. cbn [ts_index_offset]. exact I2.
  Qed.

  Definition obj_head (more : list chunk) : Prop :=
    more = [] \/ exists k m, more = k :: m /\ ck_typ k = typ_obj.

  Lemma lchain_nil_sec : forall lv off, lchain off [] lv ->
    Forall (fun k => ck_recs k <> []) (concat lv) -> lv = [].
  Proof.
    intros lv off H NE. destruct lv as [|s1 rest]; [reflexivity|]. exfalso.
    destruct H as (R & _ & N1 & _). cbn [idx_of idx_recs map] in R.
    destruct s1 as [|k s1']; [congruence|]. cbn [concat] in NE. cbn [app] in NE.
    pose proof (Forall_inv NE) as NK. cbv beta in NK.
    cbn [map concat] in R. destruct (ck_recs k); [congruence|discriminate].
  Qed.

  Lemma dump_object_index_spec2 : forall st cs st',
    WI deflate c mn mx st cs [] -> w_index st = [] ->
    dump_object_index deflate st = Ok st' ->
    exists more, WI deflate c mn mx st' (cs ++ more) [] /\ Forall not_ref more /\ obj_head more /\
      w_log st' = w_log st /\ w_index st' = [] /\ rio st' = rio st.
  Proof.
    intros st cs st' W X H. unfold dump_object_index in H.
    destruct (Nat.leb 32 (S (max_common [] (map fst (w_obj st)) 0))).
    - apply Ok_inj in H. subst st'. exists []. rewrite app_nil_r.
      split; [exact W|]. split; [constructor|]. split; [left; reflexivity|]. auto.
    - set (mc := S (max_common [] (map fst (w_obj st)) 0)) in *.
      set (st1 := set_obj st (w_obj st) (w_blocks st) mc) in *.
      set (st2 := set_bw st1 (Some (new_bw st1 typ_obj))) in *.
      destruct (dump_objs deflate st2 mc (w_obj st2)) as [st3| | |] eqn:D; cbn [bind] in H; try discriminate.
      assert (W1 : WI deflate c mn mx st1 cs []) by (eapply WI_frame; [..|exact W]; reflexivity).
      assert (S2 : SI deflate c mn mx typ_obj st2 cs [] [] []).
      { constructor.
        - rewrite app_nil_r. apply WI_new_bw; [exact W1|reflexivity].
        - constructor.
        - reflexivity.
        - cbn [st2 st1 set_bw set_obj upd w_index idx_of]. exact X.
        - cbn [st2 set_bw upd w_bw]. rewrite (new_bw_fresh c) by apply W1. reflexivity. }
      destruct (dump_objs_SI _ _ _ _ _ _ _ _ _ _ _ _ S2 ltac:(discriminate) D) as (sec' & cur' & L' & S3 & B3 & G3).
      destruct (finish_section_spec deflate c mn mx typ_obj st3 cs sec' cur' L' st' S3 eq_refl B3 H)
        as (sec1 & lv & W4 & T4 & _ & LC & X4 & _ & _ & G4 & _).
      assert (R3 : rio st' = rio st).
      { destruct (w_bw st3) as [b3|] eqn:B3'; [|congruence].
        rewrite (finish_section_rio _ _ _ H B3').
        - rewrite (dump_objs_rio _ _ _ _ D). reflexivity.
        - destruct S3 as [_ _ _ _ SB]. rewrite B3' in SB. rewrite SB. discriminate. }
      exists (sec1 ++ concat lv). rewrite app_assoc. split; [exact W4|]. split.
      + apply Forall_app. split; [|eapply lchain_not_ref; exact LC].
        eapply Forall_impl; [|exact T4]. intros k E. right. exact E.
      + split.
        * destruct sec1 as [|k1 s1].
          -- left. cbn [app].
             assert (lv = []) as ->; [|reflexivity].
             eapply lchain_nil_sec; [exact LC|].
             pose proof (wi_chunks _ _ _ _ _ _ _ W4) as CH.
             apply (chunks_nonempty deflate c mn mx) in CH.
             apply Forall_app in CH. apply CH.
          -- right. exists k1, (s1 ++ concat lv). split; [reflexivity|]. apply (Forall_inv T4).
        * split; [|split; [exact X4|exact R3]]. rewrite G4 by discriminate. rewrite G3. reflexivity.
  Qed.

  Lemma fps_ref_spec2 : forall st sec cur L st',
    SI deflate c mn mx typ_ref st [] sec cur L -> w_bw st <> None ->
    finish_public_section deflate st = Ok st' ->
    exists sec1 rlv more, WI deflate c mn mx st' ((sec1 ++ concat rlv) ++ more) [] /\ w_bw st' = None /\
      Forall (fun k => ck_typ k = typ_ref) sec1 /\ concat (map ck_recs sec1) = L /\
      lchain 0 sec1 rlv /\
      Forall not_ref more /\ obj_head more /\ w_log st' = w_log st /\ w_index st' = [] /\
      rio st' = (match rlv with [] => 0 | _ => top_off 0 sec1 rlv end).
  Proof.
    intros st sec cur L st' HS Hb H. unfold finish_public_section in H.
    destruct (w_bw st) as [b|] eqn:B; [|congruence].
    destruct (finish_section deflate st) as [st1| | |] eqn:FS; cbn [bind] in H; try discriminate.
    destruct (finish_section_ref st [] sec cur L st1 HS ltac:(congruence) FS)
      as (sec1 & lv & W1 & T1 & R1 & LC & X1 & G1 & I1).
    cbn [app] in W1. change (llen []) with 0 in LC, I1.
    destruct ((bw_typ b =? typ_ref) && negb (c_skip_index_objects (w_cfg st1)) &&
              Nat.ltb 0 (ts_index_blocks (w_ref st1))).
    - destruct (dump_object_index deflate st1) as [st2| | |] eqn:D; cbn [bind] in H; try discriminate.
      apply Ok_inj in H. subst st'.
      destruct (dump_object_index_spec2 st1 _ st2 W1 X1 D) as (more & W2 & N2 & O2 & G2 & X2 & R2).
      exists sec1, lv, more.
      split; [eapply WI_set_bw_none; exact W2|]. split; [reflexivity|]. split; [exact T1|]. split; [exact R1|].
      split; [exact LC|]. split; [exact N2|]. split; [exact O2|].
      split; [cbn [set_bw upd w_log]; congruence|]. split; [exact X2|].
      unfold rio in *. cbn [set_bw upd w_ref]. rewrite R2. exact I1.
    - cbn [bind] in H. apply Ok_inj in H. subst st'.
      exists sec1, lv, []. rewrite app_nil_r.
      split; [eapply WI_set_bw_none; exact W1|]. split; [reflexivity|]. split; [exact T1|]. split; [exact R1|].
      split; [exact LC|]. split; [constructor|]. split; [left; reflexivity|].
      split; [exact G1|]. split; [exact X1|]. exact I1.
  Qed.

  (* the ref part of the file: the ref blocks, their index levels, the object section *)
  Record ref_part (cs : list chunk) (Lref : list record) (ri : N) : Prop := {
    rp_split : exists rsec rlv more,
      cs = (rsec ++ concat rlv) ++ more /\
      Forall (fun k => ck_typ k = typ_ref) rsec /\ concat (map ck_recs rsec) = Lref /\
      lchain 0 rsec rlv /\ Forall not_ref more /\ obj_head more /\
      ri = (match rlv with [] => 0 | _ => top_off 0 rsec rlv end) }.

  Lemma obj_head_unpad : forall more, obj_head more -> obj_head (unpad more).
  Proof.
    intros more [->|(k & m & -> & T)]; [left; reflexivity|]. right.
    destruct (snoc_cases _ m) as [->|(m' & x & ->)].
    - exists (unpad_k k), []. split; [reflexivity|exact T].
    - exists k, (m' ++ [unpad_k x]). split; [|exact T].
      rewrite app_comm_cons, unpad_snoc. reflexivity.
  Qed.

  Lemma ref_part_unpad : forall cs Lref ri, ref_part cs Lref ri -> ref_part (unpad cs) Lref ri.
  Proof.
    intros cs Lref ri [(rsec & rlv & more & E & T & R & LC & NM & OH & RI)].
    constructor. destruct more as [|m more'].
    - rewrite app_nil_r in E. destruct rlv as [|s1 rest].
      + cbn [concat] in E. rewrite app_nil_r in E. subst cs.
        exists (unpad rsec), [], []. cbn [concat]. rewrite !app_nil_r.
        split; [reflexivity|]. split; [apply unpad_Forall; auto|].
        split; [rewrite unpad_recs; exact R|]. split; [exact I|]. split; [constructor|].
        split; [left; reflexivity|exact RI].
      + destruct (lchain_unpad _ _ _ LC ltac:(discriminate)) as (lv' & CC & LC' & TO & NL).
        exists rsec, lv', []. rewrite app_nil_r. split.
        * rewrite E, CC. apply unpad_app_r.
          destruct LC as (_ & _ & N1 & _). cbn [concat]. intros Q. apply app_eq_nil in Q. destruct Q. congruence.
        * split; [exact T|]. split; [exact R|]. split; [exact LC'|]. split; [constructor|].
          split; [left; reflexivity|]. rewrite RI, <- TO. destruct lv'; [congruence|reflexivity].
    - exists rsec, rlv, (unpad (m :: more')). split.
      + rewrite E. apply unpad_app_r. discriminate.
      + split; [exact T|]. split; [exact R|]. split; [exact LC|].
        split; [apply unpad_Forall; auto|]. split; [apply obj_head_unpad; exact OH|exact RI].
  Qed.

  Lemma ref_part_not_ref : forall cs Lref ri, ref_part cs Lref ri ->
    exists rsec mid, cs = rsec ++ mid /\ Forall (fun k => ck_typ k = typ_ref) rsec /\
      concat (map ck_recs rsec) = Lref /\ Forall not_ref mid.
  Proof.
    intros cs Lref ri [(rsec & rlv & more & E & T & R & LC & NM & OH & RI)].
    exists rsec, (concat rlv ++ more). split; [rewrite E, app_assoc; reflexivity|].
    split; [exact T|]. split; [exact R|]. apply Forall_app. split; [|exact NM].
    eapply lchain_not_ref. exact LC.
  Qed.

  Lemma w_add_log_first2 : forall st sec cur L l st',
    SI deflate c mn mx typ_ref st [] sec cur L -> w_bw st <> None -> ts_blocks (w_log st) = 0%nat ->
    w_add_log deflate st l = Ok st' ->
    exists l1 cs0 sec' cur', norm_log (c_exact_log c) l = Some l1 /\
      PL deflate c mn mx st' cs0 sec' cur' [RecLog l1] /\ ref_part cs0 L (rio st').
  Proof.
    intros st sec cur L l st' HS Hb Z H. unfold w_add_log in H.
    destruct (Nat.eqb (length (l_name l)) 0); [discriminate|].
    assert (CF : w_cfg st = c) by (destruct HS as [W _ _ _ _]; apply W).
    rewrite CF in H.
    destruct (norm_log (c_exact_log c) l) as [l1|]; [|discriminate].
    destruct (w_bw st) as [b|] eqn:B; [|congruence].
    assert (TB : bw_typ b = typ_ref).
    { destruct HS as [_ _ _ _ SB]. rewrite B in SB. exact SB. }
    rewrite TB in H.
    change (typ_ref =? typ_ref) with true in H. cbv iota in H.
    destruct (finish_public_section deflate st) as [st1| | |] eqn:F; cbn [bind] in H; try discriminate.
    destruct (fps_ref_spec2 st sec cur L st1 HS ltac:(congruence) F)
      as (rsec & rlv & more & W1 & B1 & T1 & R1 & LC & N1 & O1 & G1 & X1 & I1).
    pose proof (take_back deflate c mn mx st1 _ W1 B1) as W2.
    set (st2 := upd st1 (w_out st1) 0 (w_next st1 - w_pad st1) (w_last_key st1) (w_bw st1) (w_index st1)) in *.
    set (cs0 := unpad ((rsec ++ concat rlv) ++ more)) in *.
    assert (S2 : SI deflate c mn mx typ_log st2 cs0 [] [] []).
    { constructor.
      - rewrite app_nil_r. exact W2.
      - constructor.
      - reflexivity.
      - cbn [st2 upd w_index idx_of]. exact X1.
      - cbn [st2 upd w_bw]. rewrite B1. exact I. }
    destruct (out_unpad deflate c mn mx _ _ _ W1) as (_ & _ & P0 & _).
    assert (H' : w_add deflate (upd st2 (w_out st2) 0 (w_next st2 - w_pad st2) (w_last_key st2) (w_bw st2) (w_index st2))
                   (RecLog l1) = Ok st').
    { cbn [st2 upd w_out w_pad w_next w_last_key w_bw w_index]. rewrite N.sub_0_r. exact H. }
    destruct (w_add_log_core deflate c mn mx st2 _ [] [] [] l1 st' S2 P0) as (sec' & cur' & P'); try exact H'.
    - intros _. cbn [st2 upd w_log]. rewrite G1. exact Z.
    - congruence.
    - exists l1, cs0, sec', cur'. cbn [app] in P'. split; [reflexivity|]. split; [exact P'|].
      apply w_add_rio in H. rewrite H. change (rio (upd st1 (w_out st1) 0 (w_next st1 - w_pad st1)
        (w_last_key st1) (w_bw st1) (w_index st1))) with (rio st1).
      apply ref_part_unpad. constructor. exists rsec, rlv, more. auto 10.
  Qed.

  (* ---- the final layout, with the ref index ---- *)

  Definition final_ok2 (fcs : list chunk) (Lref Llog : list record) (ri lo li : N) : Prop :=
    exists cs0 lsec lv,
      fcs = cs0 ++ lsec ++ concat lv /\ ref_part cs0 Lref ri /\
      Forall (fun k => ck_typ k = typ_log) lsec /\ concat (map ck_recs lsec) = Llog /\
      lchain (llen cs0) lsec lv /\ (lsec = [] -> lv = []) /\
      lo = (match lsec with [] => 0 | _ => llen cs0 end) /\
      li = (match lv with [] => 0 | _ => top_off (llen cs0) lsec lv end).

  Definition closed_ok2 (data : bytes) (Lref Llog : list record) : Prop :=
    exists fcs st1,
      data = layout fcs ++ footer_st c mn mx st1 ++ be32 (crc32 (footer_st c mn mx st1)) /\ fcs <> [] /\
      chunks_at deflate c mn mx 0 fcs /\ last_pad fcs = 0%nat /\
      final_ok2 fcs Lref Llog (rio st1) (ts_offset (w_log st1)) (ts_index_offset (w_log st1)).

  Lemma w_close_PR2 : forall st sec cur L data,
    SI deflate c mn mx typ_ref st [] sec cur L -> w_bw st <> None -> w_log st = tstats0 ->
    w_close deflate st = Ok (false, data) -> closed_ok2 data L [].
  Proof.
    intros st sec cur L data HS Hb G H.
    destruct (finish_public_section deflate st) as [st1| | |] eqn:F;
      try (unfold w_close in H; rewrite F in H; discriminate).
    destruct (fps_ref_spec2 st sec cur L st1 HS Hb F)
      as (rsec & rlv & more & W1 & B1 & T1 & R1 & LC & N1 & O1 & G1 & X1 & I1).
    destruct (w_close_out deflate c mn mx _ _ _ _ F W1 H) as (D & NE).
    destruct (out_unpad deflate c mn mx _ _ _ W1) as (_ & C & P & _).
    exists (unpad ((rsec ++ concat rlv) ++ more)), st1. split; [exact D|].
    split; [rewrite unpad_nil_iff; exact NE|].
    split; [exact C|]. split; [exact P|].
    exists (unpad ((rsec ++ concat rlv) ++ more)), [], []. cbn [concat app]. rewrite app_nil_r.
    split; [reflexivity|]. split.
    { apply ref_part_unpad. constructor. exists rsec, rlv, more. auto 10. }
    split; [constructor|]. split; [reflexivity|]. split; [exact I|]. split; [reflexivity|].
    rewrite G1, G. split; reflexivity.
  Qed.

  Lemma w_close_PL2 : forall st cs0 sec cur Lref L ri data,
    PL deflate c mn mx st cs0 sec cur L -> L <> [] -> ref_part cs0 Lref ri -> rio st = ri ->
    w_close deflate st = Ok (false, data) -> closed_ok2 data Lref L.
  Proof.
    intros st cs0 sec cur Lref L ri data [HS Hb P0 Z0 Z1] LNE RP RI H.
    destruct (finish_public_section deflate st) as [st1| | |] eqn:F;
      try (unfold w_close in H; rewrite F in H; discriminate).
    destruct (fps_log_spec deflate c mn mx st _ sec cur L st1 HS Hb F) as (sec1 & lv & W1 & T1 & R1 & LC & C1 & C2 & G1).
    destruct (w_close_out deflate c mn mx _ _ _ _ F W1 H) as (D & NE).
    destruct (out_unpad deflate c mn mx _ _ _ W1) as (_ & C & P & _).
    assert (RI1 : rio st1 = ri).
    { rewrite <- RI. unfold finish_public_section in F.
      destruct (w_bw st) as [b|] eqn:B; [|congruence].
      assert (TB : bw_typ b = typ_log).
      { destruct HS as [_ _ _ _ SB]. rewrite B in SB. exact SB. }
      destruct (finish_section deflate st) as [st0| | |] eqn:FS; cbn [bind] in F; try discriminate.
      rewrite TB in F. change (typ_log =? typ_ref) with false in F. cbn [andb bind] in F.
      apply Ok_inj in F. subst st1. unfold rio at 1. cbn [set_bw upd w_ref]. fold (rio st0).
      eapply finish_section_rio; [exact FS|exact B|]. rewrite TB. discriminate. }
    assert (NE1 : sec1 <> []).
    { intros ->. cbn [map concat] in R1. congruence. }
    cbv zeta in G1. destruct G1 as (GO & _ & GI).
    assert (LO : ts_offset (w_log st1) = llen cs0).
    { rewrite GO. destruct sec as [|k0 sec0].
      - destruct cur as [|x cur'].
        + exfalso. apply NE1. apply C1. reflexivity.
        + unfold bump. cbn [ts_offset]. rewrite (Z0 eq_refl). cbn [Nat.eqb]. rewrite app_nil_r. reflexivity.
      - destruct (Z1 ltac:(discriminate)) as [NZ O].
        destruct cur as [|x cur']; [exact O|]. unfold bump. cbn [ts_offset].
        destruct (Nat.eqb_spec (ts_blocks (w_log st)) 0); [congruence|exact O]. }
    exists (unpad ((cs0 ++ sec1) ++ concat lv)), st1. split; [exact D|]. split; [rewrite unpad_nil_iff; exact NE|].
    split; [exact C|]. split; [exact P|]. rewrite RI1.
    destruct lv as [|s1 rest].
    - exists cs0, (unpad sec1), []. cbn [concat]. rewrite !app_nil_r.
      split; [apply unpad_app_r; exact NE1|]. split; [exact RP|].
      split; [apply unpad_Forall; auto|]. split; [rewrite unpad_recs; exact R1|]. split; [exact I|].
      split; [reflexivity|].
      assert (U : unpad sec1 <> []) by (rewrite unpad_nil_iff; exact NE1).
      split; [|exact GI]. rewrite LO. destruct (unpad sec1); [congruence|reflexivity].
    - destruct (lchain_unpad _ _ _ LC ltac:(discriminate)) as (lv' & CC & LC' & TO & NL).
      exists cs0, sec1, lv'.
      split.
      { rewrite CC. rewrite <- app_assoc. rewrite unpad_app_r.
        - rewrite unpad_app_r; [reflexivity|].
          destruct LC as (_ & _ & N2 & _). cbn [concat]. intros Q. apply app_eq_nil in Q. destruct Q. congruence.
        - intros Q. apply app_eq_nil in Q. destruct Q. congruence. }
      split; [exact RP|].
      split; [exact T1|]. split; [exact R1|]. split; [exact LC'|]. split; [congruence|].
      split; [rewrite LO; destruct sec1; [congruence|reflexivity]|].
      rewrite GI, <- TO. destruct lv'; [congruence|reflexivity].
  Qed.
End SeekW.

Theorem written2 : forall deflate cfg min max refs logs data,
  write_table deflate cfg min max refs logs = Ok (false, data) ->
  exists nl, norm_logs (c_exact_log cfg) logs = Some nl /\
    c_block_size cfg < 16777216 /\
    closed_ok2 deflate (cfg_defaults cfg) min max data
               (map RecRef (map (delta_ref min) refs)) (map RecLog nl).
Proof.
  intros deflate cfg min max refs logs data H. unfold write_table in H.
  destruct (w_new cfg) as [st0| | |] eqn:N0; cbn [bind] in H; try discriminate.
  destruct (w_new_SI deflate cfg min max st0 N0) as (BS & S0 & B0 & G0). cbv zeta in S0, B0, G0.
  destruct (add_refs deflate (set_limits st0 min max) refs) as [st1| | |] eqn:AR; cbn [bind] in H; try discriminate.
  destruct (add_refs_SI _ _ _ _ _ _ _ _ _ _ S0 B0 AR) as (sec1 & cur1 & S1 & B1 & G1). cbn [app] in S1.
  destruct (add_logs deflate st1 logs) as [st2| | |] eqn:AL; cbn [bind] in H; try discriminate.
  destruct logs as [|l t].
  - cbn [add_logs] in AL. apply Ok_inj in AL. subst st2. exists []. split; [reflexivity|]. split; [exact BS|].
    eapply w_close_PR2; [exact S1|exact B1|congruence|exact H].
  - cbn [add_logs] in AL.
    destruct (w_add_log deflate st1 l) as [st1'| | |] eqn:A1; cbn [bind] in AL; try discriminate.
    destruct (w_add_log_first2 _ _ _ _ _ _ _ _ _ _ S1 B1 ltac:(rewrite G1, G0; reflexivity) A1)
      as (l1 & cs0 & sec' & cur' & N1 & P1 & RP).
    destruct (add_logs_PL _ _ _ _ _ _ _ _ _ _ _ P1 AL) as (nl & sec2 & cur2 & N2 & P2).
    exists (l1 :: nl). cbn [norm_logs]. change (c_exact_log (cfg_defaults cfg)) with (c_exact_log cfg) in N1, N2.
    rewrite N1, N2. split; [reflexivity|]. split; [exact BS|].
    eapply w_close_PL2; [exact P2|discriminate|exact RP|eapply add_logs_rio; eassumption|exact H].
Qed.

(* ------------------------------------------------------------------ *)
(* lists of records and the seek specification *)

Definition lt_all (k : bytes) (l : list record) : Prop :=
  Forall (fun x => bytes_ltb (rec_key x) k = true) l.

Lemma seek_recs_lt_all : forall k l, lt_all k l -> seek_recs k l = [].
Proof. intros k l H. rewrite <- (app_nil_r l). rewrite seek_recs_app by exact H. reflexivity. Qed.

Lemma seek_recs_split : forall k l, exists a, l = a ++ seek_recs k l /\ lt_all k a.
Proof.
  intros k l. induction l as [|x t IH]; cbn [seek_recs].
  - exists []. split; [reflexivity|constructor].
  - destruct (bytes_ltb (rec_key x) k) eqn:E.
    + destruct IH as (a & E' & F'). exists (x :: a). split; [cbn [app]; f_equal; exact E'|].
      constructor; assumption.
    + exists []. split; [reflexivity|constructor].
Qed.

Lemma seek_recs_nil_lt : forall k l, seek_recs k l = [] -> lt_all k l.
Proof.
  intros k l H. destruct (seek_recs_split k l) as (a & E & F). rewrite H, app_nil_r in E. subst. exact F.
Qed.

Lemma seek_recs_head_ge : forall k l x t, seek_recs k l = x :: t -> bytes_ltb (rec_key x) k = false.
Proof.
  intros k l. induction l as [|y l IH]; intros x t H; cbn [seek_recs] in H; [discriminate|].
  destruct (bytes_ltb (rec_key y) k) eqn:E; [eapply IH; exact H|]. injection H as -> _. exact E.
Qed.

Lemma seek_recs_ge : forall k x t, bytes_ltb (rec_key x) k = false -> seek_recs k (x :: t) = x :: t.
Proof. intros k x t H. cbn [seek_recs]. rewrite H. reflexivity. Qed.

Lemma seek_recs_app_ne : forall k a b, seek_recs k a <> [] -> seek_recs k (a ++ b) = seek_recs k a ++ b.
Proof.
  intros k a b. induction a as [|x a IH]; intros H; cbn [seek_recs app] in *; [congruence|].
  destruct (bytes_ltb (rec_key x) k); [apply IH; exact H|reflexivity].
Qed.

Lemma sorted_last : forall l x d, sorted_recs l -> In x l ->
  x = last l d \/ bytes_ltb (rec_key x) (rec_key (last l d)) = true.
Proof.
  intros l x d S. induction S as [|a t S IH F]; intros I; [destruct I|].
  destruct t as [|b t'].
  - destruct I as [<-|[]]. left. reflexivity.
  - change (last (a :: b :: t') d) with (last (b :: t') d).
    destruct I as [<-|I].
    + right. rewrite Forall_forall in F. apply F. apply last_in. discriminate.
    + apply IH. exact I.
Qed.

Lemma lt_all_of_last : forall k l d, sorted_recs l ->
  bytes_ltb (rec_key (last l d)) k = true -> lt_all k l.
Proof.
  intros k l d S H. apply Forall_forall. intros x I.
  destruct (sorted_last l x d S I) as [->|L]; [exact H|].
  eapply bytes_ltb_trans; eassumption.
Qed.

Definition E (s : list chunk) : list record := concat (map ck_recs s).

Lemma E_app : forall a b, E (a ++ b) = E a ++ E b.
Proof. intros. unfold E. rewrite map_app, concat_app. reflexivity. Qed.

Lemma E_cons : forall k s, E (k :: s) = ck_recs k ++ E s.
Proof. reflexivity. Qed.

Definition lastkey (k : chunk) : bytes := rec_key (last (ck_recs k) rdummy).
Definition cgood (k : chunk) : Prop := ck_recs k <> [] /\ sorted_recs (ck_recs k).

Lemma idx_of_cons : forall off k t,
  idx_recs (idx_of off (k :: t)) = RecIdx (lastkey k) off :: idx_recs (idx_of (off + N.of_nat (length (ck_bytes k))) t).
Proof. reflexivity. Qed.

Lemma llen_cons : forall k t, llen (k :: t) = N.of_nat (length (ck_bytes k)) + llen t.
Proof. intros. unfold llen, layout. cbn [flat_map]. rewrite app_length. lia. Qed.

Lemma idx_seek : forall want sec off e tl,
  seek_recs want (idx_recs (idx_of off sec)) = e :: tl ->
  exists a k b, sec = a ++ k :: b /\ e = RecIdx (lastkey k) (off + llen a) /\
    Forall (fun x => bytes_ltb (lastkey x) want = true) a /\
    bytes_ltb (lastkey k) want = false.
Proof.
  intros want sec. induction sec as [|k t IH]; intros off e tl H.
  - discriminate.
  - rewrite idx_of_cons in H. cbn [seek_recs rec_key] in H.
    destruct (bytes_ltb (lastkey k) want) eqn:L.
    + destruct (IH _ _ _ H) as (a & k' & b & E1 & E2 & F & G).
      exists (k :: a), k', b. split; [rewrite E1; reflexivity|]. split.
      * rewrite E2, llen_cons. f_equal. lia.
      * split; [constructor; assumption|exact G].
    + injection H as <- _. exists [], k, t. split; [reflexivity|]. split.
      * change (llen []) with 0. rewrite N.add_0_r. reflexivity.
      * split; [constructor|exact L].
Qed.

Lemma idx_seek_nil : forall want sec off,
  seek_recs want (idx_recs (idx_of off sec)) = [] ->
  Forall (fun x => bytes_ltb (lastkey x) want = true) sec.
Proof.
  intros want sec. induction sec as [|k t IH]; intros off H; [constructor|].
  rewrite idx_of_cons in H. cbn [seek_recs rec_key] in H.
  destruct (bytes_ltb (lastkey k) want) eqn:L; [|discriminate].
  constructor; [exact L|eapply IH; exact H].
Qed.

Lemma lastkeys_lt_all : forall want a, Forall cgood a ->
  Forall (fun x => bytes_ltb (lastkey x) want = true) a -> lt_all want (E a).
Proof.
  intros want a. induction a as [|k t IH]; intros G F; [constructor|].
  rewrite E_cons. apply Forall_app. split.
  - destruct (Forall_inv G) as [_ S]. eapply lt_all_of_last; [exact S|exact (Forall_inv F)].
  - apply IH; [exact (Forall_inv_tail G)|exact (Forall_inv_tail F)].
Qed.

Lemma lchain_ne : forall lv off sec, lchain off sec lv -> Forall (fun s => s <> []) lv.
Proof.
  induction lv as [|s1 rest IH]; intros off sec H; [constructor|].
  destruct H as (_ & _ & N1 & H). constructor; [exact N1|eapply IH; exact H].
Qed.

Lemma top_off_snoc : forall lower off sec stop,
  top_off off sec (lower ++ [stop]) = off + llen sec + llen (concat lower).
Proof.
  induction lower as [|s1 rest IH]; intros off sec stop; cbn [app top_off concat].
  - change (llen []) with 0. unfold llen. lia.
  - rewrite IH. rewrite llen_app. unfold llen. lia.
Qed.

Lemma concat_snoc : forall A (l : list (list A)) x, concat (l ++ [x]) = concat l ++ x.
Proof. intros. rewrite concat_app. cbn [concat]. rewrite app_nil_r. reflexivity. Qed.

Lemma length_concat_ne : forall A (l : list (list A)), Forall (fun s => s <> []) l ->
  (length l <= length (concat l))%nat.
Proof.
  intros A l F. induction F as [|s t NE F IH]; [cbn [length]; lia|].
  cbn [concat length]. rewrite app_length. destruct s; [congruence|cbn [length]; lia].
Qed.

Lemma bi_all_nil : forall fuel b p, bi_all fuel b p = Some [] -> bi_next b p = Some None.
Proof.
  intros fuel b p H. destruct fuel as [|f]; [discriminate|]. cbn [bi_all] in H.
  destruct (bi_next b p) as [[[rec p']|]|]; try discriminate; [|reflexivity].
  destruct (bi_all f b p'); discriminate.
Qed.

(* ------------------------------------------------------------------ *)
(* sections and index levels whose blocks are in the domain of the block codec *)

Section Levels.
  Variable c : config.
  Let hs := hash_size c.

  Definition good (T : N) (s : list chunk) : Prop :=
    Forall (fun x => ck_typ x = T /\ strong c x) s /\ sorted_recs (E s) /\
    Forall (fun k => ck_recs k <> []) s.
  Definition rgood (T : N) (L : list record) : Prop :=
    Forall (fun x => rec_typ x = T /\ rec_ok hs x) L /\ sorted_recs L.

  Lemma good_of_rgood : forall T s, Forall (fun x => ck_typ x = T) s -> rgood T (E s) ->
    Forall (fun k => ck_recs k <> []) s -> good T s.
  Proof. intros T s FT [A B] NE. split; [apply strong_of_concat; assumption|split; [exact B|exact NE]]. Qed.

  Lemma good_cgood : forall T s, good T s -> Forall cgood s.
  Proof.
    intros T s (F & _ & NE). apply Forall_forall. intros x I.
    rewrite Forall_forall in F, NE. destruct (F x I) as [_ [_ S]].
    split; [apply NE; exact I|exact S].
  Qed.

  Lemma good_tail : forall T k s, good T (k :: s) -> good T s.
  Proof.
    intros T k s (F & S & NE). split; [exact (Forall_inv_tail F)|]. split; [|exact (Forall_inv_tail NE)].
    rewrite E_cons in S. apply sorted_app_inv in S. apply S.
  Qed.

  Lemma good_app_r : forall T a s, good T (a ++ s) -> good T s.
  Proof. intros T a. induction a as [|x a IH]; intros s G; [exact G|]. apply IH. eapply good_tail. exact G. Qed.

  Lemma idx_good2 : forall T sec off,
    Forall (fun k => ck_recs k <> []) sec -> rgood T (E sec) ->
    off + llen sec < two64 ->
    rgood typ_idx (idx_recs (idx_of off sec)) /\
    Forall (key_in (E sec)) (idx_recs (idx_of off sec)).
  Proof.
    intros T sec. induction sec as [|k t IH]; intros off NE (GO & GS) LB.
    - cbn [idx_of idx_recs map]. split; [split; constructor|constructor].
    - rewrite idx_of_cons. rewrite E_cons in GO, GS.
      pose proof (Forall_inv NE) as NEk. pose proof (Forall_inv_tail NE) as NEt.
      apply Forall_app in GO. destruct GO as [GO1 GO2].
      pose proof (sorted_app_inv _ _ _ _ GS) as [GS1 GS2].
      rewrite llen_cons in LB.
      destruct (IH (off + N.of_nat (length (ck_bytes k))) NEt (conj GO2 GS2) ltac:(lia)) as ((IO & IS) & II).
      pose proof (last_in _ (ck_recs k) rdummy NEk) as LI.
      unfold lastkey. set (lk := last (ck_recs k) rdummy) in *.
      rewrite Forall_forall in GO1.
      split; [split|].
      + constructor; [|exact IO]. split; [reflexivity|]. unfold rec_ok. cbn [rec_key].
        split; [apply (GO1 lk LI)|lia].
      + constructor; [exact IS|]. rewrite Forall_forall in II |- *. intros x Hx.
        destruct (II x Hx) as (y & Iy & <-). cbn [rec_key].
        eapply (sorted_app_lt _ _ _ _ lk y GS); [exact LI|exact Iy].
      + rewrite E_cons. constructor.
        * exists lk. split; [apply in_or_app; left; exact LI|reflexivity].
        * eapply Forall_impl; [|exact II]. intros x (y & Iy & Ey). exists y.
          split; [apply in_or_app; right; exact Iy|exact Ey].
  Qed.

  Lemma levels_good : forall lv off sec T,
    lchain off sec lv -> Forall (fun k => ck_recs k <> []) (sec ++ concat lv) ->
    rgood T (E sec) -> off + llen sec + llen (concat lv) < two64 ->
    Forall (good typ_idx) lv.
  Proof.
    induction lv as [|s1 rest IH]; intros off sec T LC NE G LB; [constructor|].
    destruct LC as (R1 & T1 & N1 & LC). cbn [concat] in NE, LB. rewrite llen_app in LB.
    apply Forall_app in NE. destruct NE as [NE0 NE1].
    destruct (idx_good2 T sec off NE0 G ltac:(lia)) as (GI & _).
    fold (E s1) in R1. rewrite <- R1 in GI.
    constructor.
    - apply good_of_rgood; try assumption. apply Forall_app in NE1. apply NE1.
    - eapply (IH _ s1 typ_idx); [exact LC|exact NE1|exact GI|]. unfold llen in *. lia.
  Qed.

End Levels.

(* ------------------------------------------------------------------ *)
(* R: seeking in the blocks of a written file *)

Section SeekR.
  Variable deflate : bytes -> bytes.
  Variable inflate : bytes -> inflate_result.
  Hypothesis Hz : zlib_ok deflate inflate.
  Hypothesis Htrunc : forall x n, (n < length (deflate x))%nat -> inflate (firstn n (deflate x)) = ITrunc.
  Hypothesis Hbound : forall x, N.of_nat (length x) < 16777216 -> N.of_nat (length (deflate x)) < 1073741824.
  Variable c : config.
  Variable mn mx : N.
  Hypothesis Hbs : 64 <= c_block_size c < 16777216.
  Hypothesis Hint : (0 < c_restart_interval c)%nat.

  Variable fcs : list chunk.
  Hypothesis Hchunks : chunks_at deflate c mn mx 0 fcs.
  Hypothesis Hlast : last_pad fcs = 0%nat.
  Variable r : reader.
  Hypothesis Hsrc : exists tail, rd_src r = layout fcs ++ tail.
  Hypothesis Hsize : rd_size r = N.of_nat (length (layout fcs)).
  Hypothesis Hrbs : rd_block_size r = c_block_size c.
  Hypothesis Hrhs : rd_hash_size r = hash_size c.
  Hypothesis Hrhd : rd_header_size r = header_size c.

  Variable want : bytes.

  Let hs := hash_size c.

  Let read_chunk_ := read_chunk deflate inflate Hz Htrunc Hbound c mn mx Hbs Hint fcs Hchunks Hlast r
                       Hsrc Hsize Hrbs Hrhs Hrhd.
  Let next_some_ := next_block_some deflate inflate Hz Htrunc Hbound c mn mx Hbs Hint fcs Hchunks Hlast r
                       Hsrc Hsize Hrbs Hrhs Hrhd.
  Let next_none_ := next_block_none deflate inflate Htrunc Hbound c mn mx Hbs Hint fcs Hchunks Hlast r
                       Hsrc Hsize Hrbs Hrhs Hrhd.
  Let drain_start_ := drain_from_start deflate inflate Hz Htrunc Hbound c mn mx Hbs Hint fcs Hchunks Hlast r
                       Hsrc Hsize Hrbs Hrhs Hrhd.
  Let fuel_ok_ := fuel_ok deflate inflate Htrunc Hbound c mn mx Hbs Hint fcs Hchunks Hlast r
                       Hsrc Hsize Hrbs Hrhs Hrhd.
  Let llen_pos_ := llen_pos deflate inflate Htrunc Hbound c mn mx Hbs Hint fcs Hchunks Hlast r
                       Hsize Hrbs Hrhs Hrhd.

  Lemma NEall : Forall (fun k => ck_recs k <> []) fcs.
  Proof. eapply chunks_nonempty. exact Hchunks. Qed.

  Lemma ne_in : forall a k b, fcs = a ++ k :: b -> ck_recs k <> [].
  Proof.
    intros a k b E0. pose proof NEall as F. rewrite Forall_forall in F. apply F. rewrite E0.
    apply in_or_app. right. left. reflexivity.
  Qed.

  (* ---- tableIter.Next at a known position ---- *)

  Lemma ti_next_here : forall t x l fuel, ti_done t = false ->
    bi_all (S (length (br_block (ti_br t)))) (ti_br t) (ti_pos t) = Some (x :: l) ->
    exists p', ti_next inflate (S fuel) r t = Ok (Some (fix_index r x, ti_set t p')).
  Proof.
    intros t x l fuel D BA. destruct (bi_all_head _ _ _ _ _ BA) as (p' & BN).
    exists p'. cbn [ti_next]. rewrite D, BN. reflexivity.
  Qed.

  Lemma ti_next_cross : forall pre k k2 post2 b t fuel,
    fcs = pre ++ k :: k2 :: post2 -> reads c r b pre k (k2 :: post2) ->
    ck_typ k2 = ti_typ t -> strong c k2 -> ti_off t = llen pre -> ti_br t = b -> ti_done t = false ->
    bi_all (S (length (br_block b))) b (ti_pos t) = Some [] ->
    exists x l t', ck_recs k2 = x :: l /\
      ti_next inflate (S (S fuel)) r t = Ok (Some (fix_index r (rec_read hs x), t')).
  Proof.
    intros pre k k2 post2 b t fuel E0 RD T2 S2 TO TB TD BA.
    destruct (next_some_ pre k k2 post2 b t E0 RD T2 S2 TO TB) as (b2 & NB & RD2).
    pose proof (bi_all_nil _ _ _ BA) as BN.
    assert (NE2 : ck_recs k2 <> []).
    { eapply (ne_in (pre ++ [k]) k2 post2). rewrite <- app_assoc. exact E0. }
    destruct (ck_recs k2) as [|x l] eqn:R2; [congruence|].
    destruct RD2 as (_ & BA2 & _). rewrite R2 in BA2. cbn [map] in BA2.
    destruct (bi_all_head _ _ _ _ _ BA2) as (p' & BN2).
    exists x, l. eexists. split; [reflexivity|].
    cbn [ti_next]. rewrite TD, TB, BN, NB. cbn [bind ti_done ti_br ti_pos]. rewrite BN2. reflexivity.
  Qed.

  Lemma ti_next_end : forall pre k post b t fuel,
    fcs = pre ++ k :: post -> reads c r b pre k post -> post_not (ti_typ t) post -> ti_typ t <> typ_any ->
    ti_off t = llen pre -> ti_br t = b -> ti_done t = false ->
    bi_all (S (length (br_block b))) b (ti_pos t) = Some [] ->
    ti_next inflate (S fuel) r t = Ok None.
  Proof.
    intros pre k post b t fuel E0 RD HP TA TO TB TD BA.
    destruct (next_none_ pre k post b t E0 RD HP TA TO TB) as (t' & NB).
    pose proof (bi_all_nil _ _ _ BA) as BN.
    cbn [ti_next]. rewrite TD, TB, BN, NB. reflexivity.
  Qed.

  (* ---- seekLinear for an arbitrary key ---- *)

  Lemma sl_loop : forall T post sec pre k b fuel t,
    fcs = pre ++ (k :: sec) ++ post -> T <> typ_any ->
    Forall (fun x => ck_typ x = T /\ strong c x) (k :: sec) -> post_not T post ->
    reads c r b pre k (sec ++ post) ->
    ti_typ t = T -> ti_off t = llen pre -> ti_br t = b -> ti_done t = false ->
    (length sec < fuel)%nat ->
    exists mid k' sec' b' t',
      k :: sec = mid ++ k' :: sec' /\
      seek_linear_loop inflate fuel r t want = Ok t' /\
      ti_typ t' = T /\ ti_off t' = llen (pre ++ mid) /\ ti_br t' = b' /\ ti_done t' = false /\
      reads c r b' (pre ++ mid) k' (sec' ++ post) /\
      (mid <> [] -> exists x l, ck_recs k' = x :: l /\ bytes_ltb want (rec_key x) = false) /\
      (forall k2 sec2, sec' = k2 :: sec2 ->
         exists x l, ck_recs k2 = x :: l /\ bytes_ltb want (rec_key x) = true).
  Proof.
    intros T post. induction sec as [|k2 sec2 IH]; intros pre k b fuel t E0 TA F HP RD TT TO TB TD FU;
      (destruct fuel as [|f]; [cbn [length] in FU; lia|]); cbn [seek_linear_loop].
    - cbn [app] in E0, RD.
      destruct (next_none_ pre k post b t E0 RD ltac:(rewrite TT; exact HP) ltac:(rewrite TT; exact TA) TO TB)
        as (t' & NB).
      rewrite NB. cbn [bind negb].
      exists [], k, [], b, t. rewrite app_nil_r. cbn [app].
      split; [reflexivity|]. split; [reflexivity|]. split; [exact TT|]. split; [exact TO|].
      split; [exact TB|]. split; [exact TD|]. split; [exact RD|]. split; [congruence|]. intros; discriminate.
    - cbn [app] in E0, RD. pose proof (Forall_inv_tail F) as F'. pose proof (Forall_inv F') as [T2 S2].
      destruct (next_some_ pre k k2 (sec2 ++ post) b t E0 RD ltac:(congruence) S2 TO TB) as (b2 & NB & RD2).
      rewrite NB. cbn [bind negb].
      set (t1 := {| ti_typ := ti_typ t; ti_off := llen (pre ++ [k]); ti_br := b2; ti_pos := br_start b2;
                    ti_done := false |}).
      assert (NE2 : ck_recs k2 <> []).
      { eapply (ne_in (pre ++ [k]) k2 (sec2 ++ post)). rewrite <- app_assoc. exact E0. }
      destruct (ck_recs k2) as [|x2 l2] eqn:R2; [congruence|].
      pose proof RD2 as (_ & BA2 & _). rewrite R2 in BA2. cbn [map] in BA2.
      destruct (ti_next_here t1 _ _ (S (length (rd_src r))) eq_refl BA2) as (p' & TN).
      unfold blocks_fuel. rewrite TN. cbn [bind].
      rewrite fix_index_key, rec_key_read.
      destruct (bytes_ltb want (rec_key x2)) eqn:K2.
      + exists [], k, (k2 :: sec2), b, t. rewrite app_nil_r. cbn [app].
        split; [reflexivity|]. split; [reflexivity|]. split; [exact TT|]. split; [exact TO|].
        split; [exact TB|]. split; [exact TD|]. split; [exact RD|]. split; [congruence|].
        intros k3 sec3 E3. injection E3 as <- <-. exists x2, l2. split; [exact R2|exact K2].
      + assert (E1 : fcs = (pre ++ [k]) ++ (k2 :: sec2) ++ post) by (rewrite <- app_assoc; exact E0).
        destruct (IH (pre ++ [k]) k2 b2 f (ti_set t1 p') E1 TA F' HP RD2 TT eq_refl eq_refl eq_refl
                    ltac:(cbn [length] in FU; lia))
          as (mid & k' & sec' & b' & t' & EM & SL & A1 & A2 & A3 & A4 & A5 & A6 & A7).
        exists (k :: mid), k', sec', b', t'.
        split; [cbn [app]; rewrite EM; reflexivity|]. split; [exact SL|]. split; [exact A1|].
        split; [rewrite A2, <- app_assoc; reflexivity|]. split; [exact A3|]. split; [exact A4|].
        split; [rewrite <- app_assoc in A5; exact A5|]. split; [|exact A7].
        intros _. destruct mid as [|m mid'].
        * cbn [app] in EM. injection EM as <- <-. exists x2, l2. split; [exact R2|exact K2].
        * apply A6. discriminate.
  Qed.

  Lemma seek_linear_gen : forall T pre k sec post b,
    fcs = pre ++ (k :: sec) ++ post -> T <> typ_any ->
    good c T (k :: sec) -> post_not T post ->
    reads c r b pre k (sec ++ post) ->
    exists mid k' sec' b' p,
      k :: sec = mid ++ k' :: sec' /\
      seek_linear inflate r {| ti_typ := br_typ b; ti_off := llen pre; ti_br := b; ti_pos := br_start b;
                               ti_done := false |} want
      = Ok {| ti_typ := T; ti_off := llen (pre ++ mid); ti_br := b'; ti_pos := p; ti_done := false |} /\
      reads c r b' (pre ++ mid) k' (sec' ++ post) /\
      bi_all (S (length (br_block b'))) b' p = Some (map (rec_read hs) (seek_recs want (ck_recs k'))) /\
      seek_recs want (E (k :: sec)) = seek_recs want (ck_recs k') ++ E sec' /\
      (seek_recs want (ck_recs k') = [] -> forall k2 sec2, sec' = k2 :: sec2 ->
         seek_recs want (ck_recs k2) = ck_recs k2).
  Proof.
    intros T pre k sec post b E0 TA (F & S & _) HP RD.
    assert (TB : br_typ b = T).
    { destruct RD as (RT & _). rewrite RT. apply (Forall_inv F). }
    set (t0 := {| ti_typ := br_typ b; ti_off := llen pre; ti_br := b; ti_pos := br_start b; ti_done := false |}).
    destruct (sl_loop T post sec pre k b (blocks_fuel r) t0 E0 TA F HP RD TB eq_refl eq_refl eq_refl)
      as (mid & k' & sec' & b' & t' & EM & SL & A1 & A2 & A3 & A4 & A5 & A6 & A7).
    { eapply (fuel_ok_ (pre ++ [k]) sec post). rewrite <- app_assoc. exact E0. }
    pose proof A5 as (_ & _ & SK & _). destruct (SK want) as (p & SP & BP).
    exists mid, k', sec', b', p. split; [exact EM|]. split.
    { unfold seek_linear. rewrite SL. cbn [bind]. rewrite A3, SP.
      destruct t' as [a1 a2 a3 a4 a5]. cbn [ti_typ ti_off ti_br ti_done ti_pos] in *. subst.
      reflexivity. }
    split; [exact A5|]. split; [exact BP|].
    (* the records before the landing block are smaller than the key *)
    assert (EE : E (k :: sec) = E mid ++ ck_recs k' ++ E sec').
    { rewrite EM, E_app, E_cons. reflexivity. }
    assert (LT : lt_all want (E mid)).
    { destruct mid as [|m mid']; [constructor|].
      destruct (A6 ltac:(discriminate)) as (x & l & Rk & Kx).
      apply Forall_forall. intros y Iy.
      eapply bytes_lt_le_trans; [|exact Kx].
      rewrite EE in S. eapply (sorted_app_lt _ _ _ _ y x S); [exact Iy|].
      apply in_or_app. left. rewrite Rk. left. reflexivity. }
    assert (TL : forall k2 sec2, sec' = k2 :: sec2 -> seek_recs want (ck_recs k2) = ck_recs k2).
    { intros k2 sec2 E2. destruct (A7 _ _ E2) as (x & l & R2 & K2). rewrite R2.
      apply seek_recs_ge. apply bytes_ltb_asym. exact K2. }
    split; [|intros _; exact TL].
    rewrite EE. rewrite seek_recs_app by exact LT.
    destruct (seek_recs want (ck_recs k')) as [|y yl] eqn:SK'.
    - rewrite seek_recs_app by (apply seek_recs_nil_lt; exact SK'). cbn [app].
      destruct sec' as [|k2 sec2]; [reflexivity|]. rewrite E_cons.
      destruct (A7 _ _ eq_refl) as (x & l & R2 & K2). rewrite R2. cbn [app].
      apply seek_recs_ge. apply bytes_ltb_asym. exact K2.
    - rewrite seek_recs_app_ne by (rewrite SK'; discriminate). rewrite SK'. reflexivity.
  Qed.

  (* ---- iterating from a position to the end of the section ---- *)

  Lemma drain_at : forall T pre k sec post b p l,
    fcs = pre ++ (k :: sec) ++ post -> T <> typ_any ->
    Forall (fun x => ck_typ x = T /\ strong c x) (k :: sec) -> post_not T post ->
    reads c r b pre k (sec ++ post) ->
    bi_all (S (length (br_block b))) b p = Some (map (rec_read hs) l) ->
    drain_opt inflate r (Some {| ti_typ := T; ti_off := llen pre; ti_br := b; ti_pos := p; ti_done := false |})
    = Ok (fixr c r (l ++ E sec)).
  Proof.
    intros T pre k sec post b p l E0 TA F HP RD BP. cbn [drain_opt].
    assert (TB : br_typ b = T).
    { destruct RD as (RT & _). rewrite RT. apply (Forall_inv F). }
    rewrite <- TB.
    rewrite (drain_start_ T pre k sec post b E0 TA F HP RD _ _ BP).
    unfold fixr, E. rewrite !map_app. reflexivity.
  Qed.

  Lemma good_split : forall T a k b, good c T (a ++ k :: b) ->
    Forall (fun x => ck_typ x = T /\ strong c x) (k :: b) /\ ck_typ k = T /\ strong c k.
  Proof.
    intros T a k b G. apply good_app_r in G. destruct G as (F & _). split; [exact F|apply (Forall_inv F)].
  Qed.

  Lemma llen_pos_in : forall a s b, fcs = a ++ s ++ b -> s <> [] -> 0 < llen s.
  Proof.
    intros a s b E0 NE. apply llen_pos_; [exact NE|]. apply Forall_forall. intros x I. rewrite E0.
    apply in_or_app. right. apply in_or_app. left. exact I.
  Qed.

  (* ---- a section without index: seekLinear, then iterate ---- *)

  Lemma seek_noidx : forall T pre k sec post,
    fcs = pre ++ (k :: sec) ++ post -> T <> typ_any -> good c T (k :: sec) -> post_not T post ->
    exists ot,
      (let* ot0 := tab_iter_at inflate r (llen pre) T in
       match ot0 with
       | None => Ok None
       | Some t => let* t' := seek_linear inflate r t want in Ok (Some t')
       end) = Ok ot /\
      drain_opt inflate r ot = Ok (fixr c r (seek_recs want (E (k :: sec)))).
  Proof.
    intros T pre k sec post E0 TA G HP. pose proof G as (F & S & _).
    pose proof (Forall_inv F) as [Tk Sk].
    destruct (read_chunk_ pre k (sec ++ post) T E0 Sk ltac:(right; symmetry; exact Tk)) as (b & NB & RD).
    unfold tab_iter_at. rewrite NB. cbn [bind].
    destruct (seek_linear_gen T pre k sec post b E0 TA G HP RD)
      as (mid & k' & sec' & b' & p & EM & SL & RD' & BP & EQ & _).
    rewrite SL. cbn [bind]. eexists. split; [reflexivity|].
    rewrite EQ.
    assert (E1 : fcs = (pre ++ mid) ++ (k' :: sec') ++ post).
    { rewrite E0, EM, <- !app_assoc. reflexivity. }
    rewrite EM in F. apply Forall_app in F. destruct F as [_ F].
    apply (drain_at T (pre ++ mid) k' sec' post b' p _ E1 TA F HP RD' BP).
  Qed.

  Lemma scan_all : forall T pre k sec post,
    fcs = pre ++ (k :: sec) ++ post -> T <> typ_any -> good c T (k :: sec) -> post_not T post ->
    exists ot, tab_iter_at inflate r (llen pre) T = Ok ot /\
      drain_opt inflate r ot = Ok (fixr c r (E (k :: sec))).
  Proof.
    intros T pre k sec post E0 TA G HP. pose proof G as (F & S & _).
    pose proof (Forall_inv F) as [Tk Sk].
    destruct (read_chunk_ pre k (sec ++ post) T E0 Sk ltac:(right; symmetry; exact Tk)) as (b & NB & RD).
    unfold tab_iter_at. rewrite NB. cbn [bind]. eexists. split; [reflexivity|].
    pose proof RD as (TB & BA & _). rewrite TB, Tk. rewrite E_cons.
    apply (drain_at T pre k sec post b (br_start b) _ E0 TA F HP RD BA).
  Qed.

  (* ---- one step down the index ---- *)

  Lemma descend_one : forall typ lpre sec s1 post' idx idx' e tl f T,
    fcs = lpre ++ sec ++ s1 ++ post' ->
    E s1 = idx_recs (idx_of (llen lpre) sec) ->
    good c T sec ->
    seek_recs want (E s1) = e :: tl ->
    ti_next inflate (blocks_fuel r) r idx = Ok (Some (fix_index r (rec_read hs e), idx')) ->
    llen lpre + llen sec <= ti_off idx ->
    exists a0 c0 b0 bk p0,
      sec = a0 ++ c0 :: b0 /\
      reads c r bk (lpre ++ a0) c0 (b0 ++ s1 ++ post') /\
      bi_all (S (length (br_block bk))) bk p0 = Some (map (rec_read hs) (seek_recs want (ck_recs c0))) /\
      seek_recs want (E sec) = seek_recs want (ck_recs c0) ++ E b0 /\
      seek_recs want (ck_recs c0) <> [] /\
      seek_indexed_loop inflate (S f) r idx typ want =
        (let t0 := {| ti_typ := T; ti_off := llen (lpre ++ a0); ti_br := bk; ti_pos := p0; ti_done := false |} in
         if T =? typ then Ok (Some t0)
         else if negb (T =? typ_idx) then Err
         else seek_indexed_loop inflate f r t0 typ want).
  Proof.
    intros typ lpre sec s1 post' idx idx' e tl f T E0 R1 G SE TN OFF.
    rewrite R1 in SE. destruct (idx_seek _ _ _ _ _ SE) as (a0 & k & b0 & ES & Ee & LA & LK).
    pose proof (good_cgood _ _ _ G) as CG. rewrite ES in CG.
    apply Forall_app in CG. destruct CG as [CGa CGk]. pose proof (Forall_inv CGk) as [NEk SOk].
    pose proof (lastkeys_lt_all want a0 CGa LA) as LTa.
    assert (NES : seek_recs want (ck_recs k) <> []).
    { intros Z. apply seek_recs_nil_lt in Z. unfold lt_all in Z. rewrite Forall_forall in Z.
      specialize (Z _ (last_in _ (ck_recs k) rdummy NEk)). unfold lastkey in LK. congruence. }
    assert (EQ : seek_recs want (E sec) = seek_recs want (ck_recs k) ++ E b0).
    { rewrite ES, E_app, E_cons. rewrite seek_recs_app by exact LTa. apply seek_recs_app_ne. exact NES. }
    rewrite ES in G. destruct (good_split _ _ _ _ G) as (_ & Tk & Sk).
    assert (E1 : fcs = (lpre ++ a0) ++ k :: (b0 ++ s1 ++ post')).
    { rewrite E0, ES, <- !app_assoc. reflexivity. }
    destruct (read_chunk_ (lpre ++ a0) k (b0 ++ s1 ++ post') typ_any E1 Sk ltac:(left; reflexivity))
      as (bk & NB & RD).
    pose proof RD as (TB & _ & SK & _). destruct (SK want) as (p0 & SP & BP).
    exists a0, k, b0, bk, p0. split; [exact ES|]. split; [exact RD|]. split; [exact BP|].
    split; [exact EQ|]. split; [exact NES|].
    assert (LP : 0 < llen (k :: b0)).
    { apply (llen_pos_in (lpre ++ a0) (k :: b0) (s1 ++ post')); [|discriminate].
      rewrite E0, ES, <- !app_assoc. reflexivity. }
    cbn [seek_indexed_loop]. rewrite TN. rewrite Ee. cbn [rec_read fix_index].
    rewrite ES, llen_app in OFF.
    destruct (N.leb_spec (ti_off idx) (llen lpre + llen a0)) as [L|_]; [lia|].
    unfold tab_iter_at. rewrite <- llen_app. rewrite NB. cbn [bind ti_br]. rewrite SP.
    cbn [ti_set ti_typ ti_off ti_br ti_done]. rewrite TB, Tk. reflexivity.
  Qed.

  Lemma descend_gen : forall typ post idx idx' e tl lv lpre sec T fuel,
    lv <> [] -> fcs = lpre ++ sec ++ concat lv ++ post -> lchain (llen lpre) sec lv ->
    good c T sec -> Forall (good c typ_idx) lv -> (T = typ \/ T = typ_idx) -> typ <> typ_idx ->
    seek_recs want (E (last lv [])) = e :: tl ->
    ti_next inflate (blocks_fuel r) r idx = Ok (Some (fix_index r (rec_read hs e), idx')) ->
    top_off (llen lpre) sec lv <= ti_off idx -> (length lv <= fuel)%nat ->
    exists a0 c0 b0 bk p0,
      sec = a0 ++ c0 :: b0 /\
      reads c r bk (lpre ++ a0) c0 (b0 ++ concat lv ++ post) /\
      bi_all (S (length (br_block bk))) bk p0 = Some (map (rec_read hs) (seek_recs want (ck_recs c0))) /\
      seek_recs want (E sec) = seek_recs want (ck_recs c0) ++ E b0 /\
      seek_recs want (ck_recs c0) <> [] /\
      seek_indexed_loop inflate fuel r idx typ want =
        (let t0 := {| ti_typ := T; ti_off := llen (lpre ++ a0); ti_br := bk; ti_pos := p0; ti_done := false |} in
         if T =? typ then Ok (Some t0)
         else seek_indexed_loop inflate (fuel - length lv) r t0 typ want).
  Proof.
    intros typ post idx idx' e tl. induction lv as [|s1 rest IH];
      intros lpre sec T fuel NL E0 LC G GL HT NT SE TN OFF FU; [congruence|].
    destruct LC as (R1 & T1 & N1 & LC). fold (E s1) in R1.
    destruct rest as [|s2 rest'].
    - cbn [last] in SE. cbn [concat] in E0. rewrite app_nil_r in E0.
      cbn [top_off] in OFF. fold (llen sec) in OFF.
      destruct fuel as [|f]; [cbn [length] in FU; lia|].
      destruct (descend_one typ lpre sec s1 post idx idx' e tl f T E0 R1 G SE TN OFF)
        as (a0 & c0 & b0 & bk & p0 & A1 & A2 & A3 & A4 & A5 & A6).
      exists a0, c0, b0, bk, p0. split; [exact A1|]. split; [cbn [concat]; rewrite app_nil_r; exact A2|].
      split; [exact A3|]. split; [exact A4|]. split; [exact A5|].
      rewrite A6. cbv zeta. replace (S f - length [s1])%nat with f by (cbn [length]; lia).
      destruct HT as [-> | ->].
      + rewrite N.eqb_refl. reflexivity.
      + destruct (N.eqb_spec typ_idx typ); [congruence|]. reflexivity.
    - change (last (s1 :: s2 :: rest') []) with (last (s2 :: rest') []) in SE.
      pose proof (Forall_inv GL) as G1. pose proof (Forall_inv_tail GL) as GL'.
      assert (E1 : fcs = (lpre ++ sec) ++ s1 ++ concat (s2 :: rest') ++ post).
      { rewrite E0. cbn [concat]. rewrite <- !app_assoc. reflexivity. }
      assert (LL : llen (lpre ++ sec) = llen lpre + N.of_nat (length (layout sec))).
      { rewrite llen_app. reflexivity. }
      cbn [top_off] in OFF. rewrite <- LL in OFF, LC.
      destruct (IH (lpre ++ sec) s1 typ_idx fuel ltac:(discriminate) E1 LC G1 GL' ltac:(right; reflexivity) NT SE TN OFF
                  ltac:(cbn [length] in *; lia))
        as (a1 & c1 & b1 & bk1 & p1 & B1 & B2 & B3 & B4 & B5 & B6).
      destruct (N.eqb_spec typ_idx typ) as [Q|_]; [congruence|]. cbv zeta in B6.
      destruct (seek_recs want (ck_recs c1)) as [|e1 tl1] eqn:S1; [congruence|]. cbn [map] in B3.
      set (t1 := {| ti_typ := typ_idx; ti_off := llen ((lpre ++ sec) ++ a1); ti_br := bk1; ti_pos := p1;
                    ti_done := false |}) in *.
      destruct (ti_next_here t1 _ _ (S (length (rd_src r))) eq_refl B3) as (p' & TN1).
      assert (FF : exists f', (fuel - length (s2 :: rest') = S f' /\ fuel - length (s1 :: s2 :: rest') = f')%nat).
      { exists (fuel - length (s2 :: rest') - 1)%nat. cbn [length] in *. lia. }
      destruct FF as (f' & F1 & F2). rewrite F1 in B6.
      assert (OFF1 : llen lpre + llen sec <= ti_off t1).
      { cbn [t1 ti_off]. rewrite !llen_app. lia. }
      assert (E2 : fcs = lpre ++ sec ++ s1 ++ (concat (s2 :: rest') ++ post)).
      { rewrite E1, <- !app_assoc. reflexivity. }
      destruct (descend_one typ lpre sec s1 (concat (s2 :: rest') ++ post) t1 _ e1 (tl1 ++ E b1) f' T E2 R1 G
                  B4 TN1 OFF1)
        as (a0 & c0 & b0 & bk & p0 & A1 & A2 & A3 & A4 & A5 & A6).
      exists a0, c0, b0, bk, p0. split; [exact A1|]. split.
      { cbn [concat]. rewrite <- app_assoc. exact A2. }
      split; [exact A3|]. split; [exact A4|]. split; [exact A5|].
      rewrite B6, A6, F2. cbv zeta.
      destruct HT as [-> | ->].
      + rewrite N.eqb_refl. reflexivity.
      + destruct (N.eqb_spec typ_idx typ); [congruence|]. reflexivity.
  Qed.

  Lemma lt_down_step : forall off sec s1,
    E s1 = idx_recs (idx_of off sec) -> Forall cgood sec ->
    seek_recs want (E s1) = [] -> seek_recs want (E sec) = [].
  Proof.
    intros off sec s1 R1 CG Z. rewrite R1 in Z. apply idx_seek_nil in Z.
    apply seek_recs_lt_all. apply lastkeys_lt_all; assumption.
  Qed.

  Lemma all_lt_down : forall lv off sec T,
    lv <> [] -> lchain off sec lv -> good c T sec -> Forall (good c typ_idx) lv ->
    seek_recs want (E (last lv [])) = [] -> seek_recs want (E sec) = [].
  Proof.
    induction lv as [|s1 rest IH]; intros off sec T NL LC G GL Z; [congruence|].
    destruct LC as (R1 & T1 & N1 & LC). fold (E s1) in R1.
    destruct rest as [|s2 rest'].
    - cbn [last] in Z. eapply lt_down_step; [exact R1|eapply good_cgood; exact G|exact Z].
    - change (last (s1 :: s2 :: rest') []) with (last (s2 :: rest') []) in Z.
      eapply lt_down_step; [exact R1|eapply good_cgood; exact G|].
      eapply (IH _ s1 typ_idx); [discriminate|exact LC|exact (Forall_inv GL)|exact (Forall_inv_tail GL)|exact Z].
  Qed.

  Lemma top_off_pos : forall lv off sec, lv <> [] -> 0 < llen sec -> 0 < top_off off sec lv.
  Proof.
    intros lv off sec NL P. destruct (snoc_cases _ lv) as [->|(lower & stop & ->)]; [congruence|].
    rewrite top_off_snoc. lia.
  Qed.

  Lemma concat_head_idx : forall lv, lv <> [] -> Forall (fun s => s <> []) lv -> Forall (good c typ_idx) lv ->
    exists k1 rest, concat lv = k1 :: rest /\ ck_typ k1 = typ_idx.
  Proof.
    intros lv NL NE GL. destruct lv as [|s1 rest]; [congruence|].
    pose proof (Forall_inv NE) as N1. pose proof (Forall_inv GL) as (F1 & _).
    destruct s1 as [|k1 s1']; [congruence|]. exists k1, (s1' ++ concat rest). split; [reflexivity|].
    apply (Forall_inv F1).
  Qed.

  Lemma post_not_levels : forall typ lv post, typ <> typ_idx ->
    Forall (fun s => s <> []) lv -> Forall (good c typ_idx) lv -> post_not typ post ->
    post_not typ (concat lv ++ post).
  Proof.
    intros typ lv post NT NE GL HP. destruct lv as [|s1 rest]; [exact HP|].
    destruct (concat_head_idx (s1 :: rest) ltac:(discriminate) NE GL) as (k1 & rs & -> & T1).
    right. exists k1, (rs ++ post). split; [reflexivity|]. congruence.
  Qed.

  (* ---- seekIndexed for an arbitrary key, then iterate ---- *)

  Lemma seek_indexed_gen : forall typ pre sec lv post,
    lv <> [] -> fcs = pre ++ sec ++ concat lv ++ post -> sec <> [] ->
    lchain (llen pre) sec lv -> good c typ sec -> Forall (good c typ_idx) lv ->
    typ <> typ_idx -> typ <> typ_any -> post_not typ_idx post ->
    o_index (rd_offsets r typ) = top_off (llen pre) sec lv ->
    exists ot, seek_indexed inflate r typ want = Ok ot /\
      drain_opt inflate r ot = Ok (fixr c r (seek_recs want (E sec))).
  Proof.
    intros typ pre sec lv post NL E0 NS LC G GL NT NA HP OI.
    pose proof (lchain_ne _ _ _ LC) as LNE.
    assert (PS : 0 < llen sec).
    { apply (llen_pos_in pre sec (concat lv ++ post)); assumption. }
    pose proof (top_off_pos lv (llen pre) sec NL PS) as TP.
    assert (FU : (length lv <= blocks_fuel r)%nat).
    { pose proof (length_concat_ne _ _ LNE) as L1.
      pose proof (fuel_ok_ (pre ++ sec) (concat lv) post ltac:(rewrite E0, <- !app_assoc; reflexivity)) as L2. lia. }
    assert (HPD : post_not typ (concat lv ++ post)).
    { destruct (concat_head_idx lv NL LNE GL) as (k1 & rs & -> & T1).
      right. exists k1, (rs ++ post). split; [reflexivity|]. congruence. }
    destruct (snoc_cases _ lv) as [->|(lower & stop & EL)]; [congruence|].
    assert (GS : good c typ_idx stop).
    { rewrite EL in GL. apply Forall_app in GL. destruct GL as [_ GL]. apply (Forall_inv GL). }
    assert (NSt : stop <> []).
    { rewrite EL in LNE. apply Forall_app in LNE. destruct LNE as [_ LNE]. apply (Forall_inv LNE). }
    destruct stop as [|ik isec]; [congruence|].
    set (ipre := pre ++ sec ++ concat lower).
    assert (EI : fcs = ipre ++ (ik :: isec) ++ post).
    { rewrite E0, EL, concat_snoc. unfold ipre. rewrite <- !app_assoc. reflexivity. }
    assert (TOP : top_off (llen pre) sec lv = llen ipre).
    { rewrite EL, top_off_snoc. unfold ipre. rewrite !llen_app. lia. }
    assert (LAST : last lv [] = ik :: isec) by (rewrite EL; apply last_last).
    unfold seek_indexed, rd_start. rewrite OI.
    destruct (N.eqb_spec (top_off (llen pre) sec lv) 0) as [Z|_]; [lia|].
    rewrite TOP.
    pose proof GS as (FS & SS & NES). pose proof (Forall_inv FS) as [Tik Sik].
    destruct (read_chunk_ ipre ik (isec ++ post) typ_idx EI Sik ltac:(right; symmetry; exact Tik)) as (b & NB & RD).
    unfold tab_iter_at. rewrite NB. cbn [bind].
    destruct (seek_linear_gen typ_idx ipre ik isec post b EI ltac:(discriminate) GS HP RD)
      as (mid & k' & sec' & b' & p & EM & SL & RD' & BP & EQ & TL).
    rewrite SL. cbn [bind].
    set (idx1 := {| ti_typ := typ_idx; ti_off := llen (ipre ++ mid); ti_br := b'; ti_pos := p; ti_done := false |}).
    assert (E1 : fcs = (ipre ++ mid) ++ k' :: sec' ++ post).
    { rewrite EI, EM, <- !app_assoc. reflexivity. }
    assert (FS' : Forall (fun x => ck_typ x = typ_idx /\ strong c x) (k' :: sec')).
    { rewrite EM in FS. apply Forall_app in FS. apply FS. }
    destruct (seek_recs want (E (ik :: isec))) as [|e tl] eqn:SE.
    - (* the key is beyond the last record *)
      symmetry in EQ. apply app_eq_nil in EQ. destruct EQ as [Z1 Z2].
      assert (sec' = []) as ->.
      { destruct sec' as [|k2 sec2]; [reflexivity|]. exfalso.
        rewrite EM in NES. apply Forall_app in NES. destruct NES as [_ NES].
        pose proof (Forall_inv (Forall_inv_tail NES)) as N2. cbv beta in N2.
        rewrite E_cons in Z2. apply app_eq_nil in Z2. destruct Z2. congruence. }
      cbn [app] in E1, RD'. rewrite Z1 in BP. cbn [map] in BP.
      assert (TN : ti_next inflate (blocks_fuel r) r idx1 = Ok None).
      { exact (ti_next_end (ipre ++ mid) k' post b' idx1 (S (length (rd_src r))) E1 RD' HP ltac:(discriminate)
                 eq_refl eq_refl eq_refl BP). }
      exists None. split.
      + change (seek_indexed_loop inflate (blocks_fuel r) r idx1 typ want)
          with (seek_indexed_loop inflate (S (S (length (rd_src r)))) r idx1 typ want).
        cbn [seek_indexed_loop]. rewrite TN. reflexivity.
      + cbn [drain_opt]. rewrite <- LAST in SE.
        rewrite (all_lt_down lv (llen pre) sec typ NL LC G GL SE). reflexivity.
    - assert (TN : exists idx', ti_next inflate (blocks_fuel r) r idx1 = Ok (Some (fix_index r (rec_read hs e), idx'))).
      { destruct (seek_recs want (ck_recs k')) as [|y yl] eqn:SK'.
        - cbn [app] in EQ. destruct sec' as [|k2 sec2]; [discriminate|].
          pose proof (Forall_inv (Forall_inv_tail FS')) as [T2 S2].
          cbn [map] in BP.
          destruct (ti_next_cross (ipre ++ mid) k' k2 (sec2 ++ post) b' idx1 (length (rd_src r)) E1 RD'
                      T2 S2 eq_refl eq_refl eq_refl BP) as (x & l & t' & R2 & TN).
          rewrite E_cons, R2 in EQ. cbn [app] in EQ. injection EQ as -> _.
          exists t'. exact TN.
        - cbn [app] in EQ. injection EQ as -> _. cbn [map] in BP.
          destruct (ti_next_here idx1 _ _ (S (length (rd_src r))) eq_refl BP) as (p' & TN).
          eexists. exact TN. }
      destruct TN as (idx' & TN). rewrite <- LAST in SE.
      destruct (descend_gen typ post idx1 idx' e tl lv pre sec typ (blocks_fuel r) NL E0 LC G GL
                  ltac:(left; reflexivity) NT SE TN ltac:(cbn [idx1 ti_off]; rewrite TOP, llen_app; lia) FU)
        as (a0 & c0 & b0 & bk & p0 & A1 & A2 & A3 & A4 & A5 & A6).
      rewrite A6. cbv zeta. rewrite N.eqb_refl. eexists. split; [reflexivity|].
      rewrite A4. rewrite A1 in G. destruct (good_split _ _ _ _ G) as (F0 & _).
      assert (E2 : fcs = (pre ++ a0) ++ (c0 :: b0) ++ concat lv ++ post).
      { rewrite E0, A1, <- !app_assoc. reflexivity. }
      apply (drain_at typ (pre ++ a0) c0 b0 (concat lv ++ post) bk p0 _ E2 NA F0 HPD A2 A3).
  Qed.

  (* ---- Reader.seek on one section ---- *)

  Lemma seek_section : forall typ pre sec lv post,
    typ <> typ_idx -> typ <> typ_any ->
    fcs = pre ++ sec ++ concat lv ++ post -> sec <> [] ->
    lchain (llen pre) sec lv -> good c typ sec -> Forall (good c typ_idx) lv ->
    post_not typ post -> post_not typ_idx post ->
    o_present (rd_offsets r typ) = true -> o_offset (rd_offsets r typ) = llen pre ->
    o_index (rd_offsets r typ) = (match lv with [] => 0 | _ => top_off (llen pre) sec lv end) ->
    exists ot, seek_record inflate r typ want = Ok ot /\
      drain_opt inflate r ot =
      Ok (fixr c r (if bytes_eqb want (empty_key typ) then E sec else seek_recs want (E sec))).
  Proof.
    intros typ pre sec lv post NT NA E0 NS LC G GL HP HPI OP OO OI.
    pose proof (lchain_ne _ _ _ LC) as LNE.
    pose proof (post_not_levels typ lv post NT LNE GL HP) as HPD.
    destruct sec as [|k sec']; [congruence|].
    unfold seek_record. rewrite OP. cbn [negb]. unfold rd_seek.
    destruct (bytes_eqb_spec want (empty_key typ)) as [EQ|NEQ].
    - unfold rd_start. rewrite OO.
      apply (scan_all typ pre k sec' (concat lv ++ post) E0 NA G HPD).
    - rewrite OI. destruct lv as [|s1 rest].
      + change (0 <? 0) with false. cbv iota. unfold rd_start. rewrite OO.
        cbn [concat app] in E0, HPD.
        apply (seek_noidx typ pre k sec' post E0 NA G HPD).
      + assert (PS : 0 < llen (k :: sec')).
        { apply (llen_pos_in pre (k :: sec') (concat (s1 :: rest) ++ post)); [exact E0|discriminate]. }
        pose proof (top_off_pos (s1 :: rest) (llen pre) (k :: sec') ltac:(discriminate) PS) as TP.
        destruct (N.ltb_spec 0 (top_off (llen pre) (k :: sec') (s1 :: rest))) as [_|L]; [|lia].
        apply (seek_indexed_gen typ pre (k :: sec') (s1 :: rest) post ltac:(discriminate) E0 ltac:(discriminate)
                 LC G GL NT NA HPI OI).
  Qed.
End SeekR.

(* ------------------------------------------------------------------ *)
(* the specification on the public record types *)

Lemma seek_recs_nil_key : forall l, seek_recs [] l = l.
Proof. intros [|x t]; [reflexivity|]. cbn [seek_recs]. destruct (rec_key x); reflexivity. Qed.

Lemma seek_recs_refs : forall mn k refs,
  seek_recs k (map RecRef (map (delta_ref mn) refs)) = map RecRef (map (delta_ref mn) (seek_refs k refs)).
Proof.
  intros mn k. induction refs as [|x t IH]; [reflexivity|].
  cbn [map seek_recs seek_refs rec_key ref_key delta_ref r_name].
  destruct (bytes_ltb (r_name x) k); [exact IH|reflexivity].
Qed.

Lemma seek_recs_logs : forall k nl, seek_recs k (map RecLog nl) = map RecLog (seek_logs k nl).
Proof.
  intros k. induction nl as [|x t IH]; [reflexivity|].
  cbn [map seek_recs seek_logs rec_key]. destruct (bytes_ltb (log_key x) k); [exact IH|reflexivity].
Qed.

Lemma seek_logs_fill : forall hs k nl, map (fill_log hs) (seek_logs k nl) = seek_logs k (map (fill_log hs) nl).
Proof.
  intros hs k. induction nl as [|x t IH]; [reflexivity|].
  cbn [map seek_logs]. change (log_key (fill_log hs x)) with (log_key x).
  destruct (bytes_ltb (log_key x) k); [exact IH|reflexivity].
Qed.

Lemma seek_refs_Forall : forall (P : ref_record -> Prop) k l, Forall P l -> Forall P (seek_refs k l).
Proof.
  intros P k l F. induction F as [|x t Px F IH]; [constructor|].
  cbn [seek_refs]. destruct (bytes_ltb (r_name x) k); [exact IH|constructor; assumption].
Qed.

Lemma Forall_sub_app : forall A (P : A -> Prop) a s b, Forall P (a ++ s ++ b) -> Forall P s.
Proof. intros A P a s b F. apply Forall_app in F. destruct F as [_ F]. apply Forall_app in F. apply F. Qed.

(* ------------------------------------------------------------------ *)
(* C02 on whole tables *)

Section SeekTable.
  Variable deflate : bytes -> bytes.
  Variable inflate : bytes -> inflate_result.
  Hypothesis Hz : zlib_ok deflate inflate.
  Hypothesis Htrunc : forall x n, (n < length (deflate x))%nat -> inflate (firstn n (deflate x)) = ITrunc.
  Hypothesis Hbound : forall x, N.of_nat (length x) < 16777216 -> N.of_nat (length (deflate x)) < 1073741824.

  Lemma table_seek_common : forall cfg min max refs logs data,
    cfg_ok cfg -> max < two64 -> min <= max -> refs_ok cfg min max refs -> logs_ok cfg logs ->
    N.of_nat (length data) < two64 ->
    write_table deflate cfg min max refs logs = Ok (false, data) ->
    exists r nl, rd_open data = Ok r /\ norm_logs (c_exact_log cfg) logs = Some nl /\ rd_min r = min /\
      (forall k, seek_ref inflate r k =
         Ok (fixr (cfg_defaults cfg) r (seek_recs k (map RecRef (map (delta_ref min) refs))))) /\
      (forall name idx, seek_log inflate r name idx =
         Ok (fixr (cfg_defaults cfg) r
               (if bytes_eqb (log_key_of name idx) (empty_key typ_log) then map RecLog nl
                else seek_recs (log_key_of name idx) (map RecLog nl)))).
  Proof.
    intros cfg min max refs logs data [CB1 CB2] Hmax Hmm [RO RS] [LO LS] Hsz H.
    destruct (written2 deflate cfg min max refs logs data H) as (nl & NL & _ & fcs & st1 & D & NE & CH & LP & FO).
    set (c := cfg_defaults cfg) in *.
    assert (HBS : 64 <= c_block_size c < 16777216).
    { unfold c, cfg_defaults. cbn [c_block_size]. destruct (N.eqb_spec (c_block_size cfg) 0); lia. }
    assert (HINT : (0 < c_restart_interval c)%nat).
    { unfold c, cfg_defaults. cbn [c_restart_interval]. destruct (Nat.eqb_spec (c_restart_interval cfg) 0); lia. }
    destruct fcs as [|k0 rest0]; [congruence|].
    destruct (layout_head _ _ _ _ _ _ CH) as (body & LH).
    set (fcs := k0 :: rest0) in *.
    set (ri := rio st1) in *.
    set (lo := ts_offset (w_log st1)) in *. set (li := ts_index_offset (w_log st1)) in *.
    assert (LF : llen fcs < two64).
    { unfold llen. rewrite D, app_length in Hsz. lia. }
    destruct FO as (cs0 & lsec & lv & EF & [(rsec & rlv & more & E0 & TR & RR & LCr & NM & OH & RI)]
                    & TL & RL & LC & LV & ELO & ELI).
    assert (ELEN : llen fcs = llen rsec + llen (concat rlv) + llen more + llen lsec + llen (concat lv)).
    { rewrite EF, E0, !llen_app. lia. }
    assert (ELC : llen cs0 = llen rsec + llen (concat rlv) + llen more).
    { rewrite E0, !llen_app. lia. }
    assert (Hlo : ri <= llen fcs /\ lo <= llen fcs /\ li <= llen fcs).
    { split; [|split].
      - rewrite RI. pose proof (top_off_le rlv 0 rsec). destruct rlv; lia.
      - rewrite ELO. destruct lsec; lia.
      - rewrite ELI. pose proof (top_off_le lv (llen cs0) lsec). destruct lv; lia. }
    pose proof (rd_open_written c min max (ck_typ k0) body ri
                  ((ts_offset (w_objs st1) * 32 + N.of_nat (w_idlen st1)) mod two64)
                  (ts_index_offset (w_objs st1)) lo li
                  ltac:(lia) ltac:(lia) Hmax ltac:(apply N.mod_lt; discriminate) ltac:(lia) ltac:(lia)) as OPEN.
    cbv zeta in OPEN. rewrite <- LH in OPEN.
    assert (D' : data = layout fcs ++
                   footer_of c min max ri
                     ((ts_offset (w_objs st1) * 32 + N.of_nat (w_idlen st1)) mod two64)
                     (ts_index_offset (w_objs st1)) lo li ++
                   be32 (crc32 (footer_of c min max ri
                     ((ts_offset (w_objs st1) * 32 + N.of_nat (w_idlen st1)) mod two64)
                     (ts_index_offset (w_objs st1)) lo li))) by exact D.
    rewrite <- D' in OPEN.
    set (r := {| rd_src := data |}) in *.
    exists r, nl. split; [exact OPEN|]. split; [exact NL|]. split; [reflexivity|].
    set (Lref := map RecRef (map (delta_ref min) refs)) in *.
    set (Llog := map RecLog nl) in *.
    assert (HS : hash_size c = hash_size cfg) by reflexivity.
    (* the reader sees the chunks *)
    assert (HSRC : exists tail, rd_src r = layout fcs ++ tail) by (eexists; exact D).
    assert (HSIZE : rd_size r = N.of_nat (length (layout fcs))) by (cbn [r rd_size]; rewrite LH; reflexivity).
    assert (HRBS : rd_block_size r = c_block_size c) by reflexivity.
    assert (HRHS : rd_hash_size r = hash_size c)
      by (unfold rd_hash_size, hash_size; cbn [r rd_sha256]; reflexivity).
    assert (HRHD : rd_header_size r = header_size c)
      by (unfold rd_header_size, header_size; cbn [r rd_version]; unfold version_of; destruct (c_sha256 c); reflexivity).
    pose proof (seek_section deflate inflate Hz Htrunc Hbound c min max HBS HINT fcs CH LP r
                  HSRC HSIZE HRBS HRHS HRHD) as SS.
    (* the records are in the domain of the block codec *)
    assert (GR : rgood c typ_ref Lref).
    { split.
      - unfold Lref. rewrite !Forall_map. eapply Forall_impl; [|exact RO]. cbv beta.
        intros x ((I & V) & _ & KL & _). split; [reflexivity|]. split; [exact KL|].
        unfold ref_ok. cbn [delta_ref r_index r_val]. split; [lia|exact V].
      - unfold sorted_recs, Lref. apply sorted_map. apply sorted_map. exact RS. }
    pose proof (norm_logs_Forall2 _ _ _ NL) as F2.
    assert (GL : rgood c typ_log Llog).
    { unfold rgood, Llog. clear - F2 LO LS HS. revert LO LS.
      induction F2 as [|l l1 logs nl N1 F2 IH]; intros LO LS.
      - cbn [map]. split; constructor.
      - pose proof (Forall_inv LO) as [OK KL]. pose proof (Forall_inv_tail LO) as LO'.
        inversion LS as [|? ? LS' LF]; subst.
        destruct (IH LO' LS') as (I1 & I2).
        pose proof (norm_log_key _ _ _ N1) as K1. specialize (OK _ N1).
        cbn [map]. split.
        + constructor; [|exact I1]. split; [reflexivity|]. split; [cbn [rec_key]; rewrite K1; exact KL|].
          rewrite HS. exact OK.
        + constructor; [exact I2|]. rewrite Forall_map. cbn [rec_key].
          clear - F2 LF K1. induction F2 as [|a a1 t t1 Na F2 IH]; [constructor|].
          pose proof (Forall_inv LF) as A. pose proof (Forall_inv_tail LF) as LF'.
          constructor; [|apply IH; exact LF'].
          rewrite K1, (norm_log_key _ _ _ Na). exact A. }
    pose proof (chunks_nonempty _ _ _ _ _ _ CH) as NEA.
    assert (EFull : fcs = rsec ++ concat rlv ++ more ++ lsec ++ concat lv).
    { rewrite EF, E0, <- !app_assoc. reflexivity. }
    assert (NEr : Forall (fun k => ck_recs k <> []) (rsec ++ concat rlv)).
    { rewrite EFull in NEA. rewrite app_assoc in NEA. apply Forall_app in NEA. apply NEA. }
    assert (NEl : Forall (fun k => ck_recs k <> []) (lsec ++ concat lv)).
    { rewrite EF in NEA. apply Forall_app in NEA. apply NEA. }
    fold (E rsec) in RR. fold (E lsec) in RL.
    assert (GRS : good c typ_ref rsec).
    { apply good_of_rgood; [exact TR|rewrite RR; exact GR|]. apply Forall_app in NEr. apply NEr. }
    assert (GRL : Forall (good c typ_idx) rlv).
    { apply (levels_good c rlv 0 rsec typ_ref LCr NEr); [rewrite RR; exact GR|lia]. }
    assert (GLS : good c typ_log lsec).
    { apply good_of_rgood; [exact TL|rewrite RL; exact GL|]. apply Forall_app in NEl. apply NEl. }
    assert (GLL : Forall (good c typ_idx) lv).
    { apply (levels_good c lv (llen cs0) lsec typ_log LC NEl); [rewrite RL; exact GL|lia]. }
    (* what follows the ref part *)
    assert (PNR : forall T, T = typ_ref \/ T = typ_idx -> post_not T (more ++ lsec ++ concat lv)).
    { intros T HT. destruct OH as [->|(km & m & -> & TM)].
      - cbn [app]. destruct lsec as [|kl ls].
        + rewrite (LV eq_refl). left. reflexivity.
        + right. exists kl, (ls ++ concat lv). split; [reflexivity|]. rewrite (Forall_inv TL).
          destruct HT as [-> | ->]; discriminate.
      - right. exists km, (m ++ lsec ++ concat lv). split; [reflexivity|]. rewrite TM.
        destruct HT as [-> | ->]; discriminate. }
    split.
    - (* refs *)
      intros k. unfold seek_ref.
      destruct rsec as [|k1 rsec'].
      + assert (rlv = []) as ->.
        { eapply lchain_nil_sec; [exact LCr|]. cbn [app] in NEr. exact NEr. }
        cbn [E map concat] in RR. rewrite <- RR. cbn [seek_recs].
        assert (TK0 : ck_typ k0 =? typ_ref = false).
        { cbn [app concat] in EFull. unfold fcs in EFull.
          destruct OH as [->|(km & m & -> & TM)].
          - cbn [app] in EFull. destruct lsec as [|kl ls].
            + rewrite (LV eq_refl) in EFull. discriminate.
            + cbn [app] in EFull. injection EFull as -> _. rewrite (Forall_inv TL). reflexivity.
          - cbn [app] in EFull. injection EFull as -> _. rewrite TM. reflexivity. }
        unfold seek_record, rd_offsets. change (typ_ref =? typ_ref) with true. cbv iota.
        cbn [r rd_ref o_present]. rewrite TK0. reflexivity.
      + assert (K0 : k0 = k1).
        { unfold fcs in EFull. cbn [app] in EFull. injection EFull as -> _. reflexivity. }
        destruct (SS k typ_ref [] (k1 :: rsec') rlv (more ++ lsec ++ concat lv)
                    ltac:(discriminate) ltac:(discriminate) EFull ltac:(discriminate) LCr GRS GRL
                    (PNR typ_ref ltac:(left; reflexivity)) (PNR typ_idx ltac:(right; reflexivity)))
          as (ot & SR & DR).
        * unfold rd_offsets. change (typ_ref =? typ_ref) with true. cbv iota.
          cbn [r rd_ref o_present]. rewrite K0, (Forall_inv TR). reflexivity.
        * reflexivity.
        * unfold rd_offsets. change (typ_ref =? typ_ref) with true. cbv iota.
          cbn [r rd_ref o_index]. rewrite N.mod_small by lia. exact RI.
        * rewrite SR. cbn [bind]. rewrite DR. rewrite RR.
          change (empty_key typ_ref) with (@nil N).
          destruct (bytes_eqb_spec k []) as [->|_]; [rewrite seek_recs_nil_key|]; reflexivity.
    - (* logs *)
      intros name idx. unfold seek_log. set (k := log_key_of name idx).
      destruct lsec as [|kl lsec'].
      + rewrite (LV eq_refl) in *. cbn [E map concat] in RL. rewrite <- RL. cbn [seek_recs].
        assert (TK0 : ck_typ k0 =? typ_log = false).
        { cbn [app concat] in EFull. rewrite !app_nil_r in EFull. unfold fcs in EFull.
          destruct rsec as [|k1 rsec'].
          - assert (rlv = []) as ->.
            { eapply lchain_nil_sec; [exact LCr|]. cbn [app] in NEr. exact NEr. }
            cbn [app concat] in EFull.
            destruct OH as [->|(km & m & -> & TM)]; [discriminate|].
            injection EFull as -> _. rewrite TM. reflexivity.
          - cbn [app] in EFull. injection EFull as -> _. rewrite (Forall_inv TR). reflexivity. }
        unfold seek_record, rd_offsets. change (typ_log =? typ_ref) with false. change (typ_log =? typ_log) with true.
        cbv iota. cbn [r rd_log o_present]. rewrite TK0, ELO. change (0 <? 0) with false. cbn [orb negb bind drain_opt].
        destruct (bytes_eqb k (empty_key typ_log)); reflexivity.
      + assert (EL0 : fcs = cs0 ++ (kl :: lsec') ++ concat lv ++ []) by (rewrite app_nil_r; exact EF).
        destruct (SS k typ_log cs0 (kl :: lsec') lv []
                    ltac:(discriminate) ltac:(discriminate) EL0 ltac:(discriminate) LC GLS GLL
                    ltac:(left; reflexivity) ltac:(left; reflexivity))
          as (ot & SR & DR).
        * unfold rd_offsets. change (typ_log =? typ_ref) with false. change (typ_log =? typ_log) with true.
          cbv iota. cbn [r rd_log o_present]. rewrite ELO.
          destruct cs0 as [|kc cs0'].
          -- unfold fcs in EF. cbn [app] in EF. injection EF as -> _. rewrite (Forall_inv TL). reflexivity.
          -- assert (0 < llen (kc :: cs0')).
             { rewrite llen_cons. pose proof CH as CH'. rewrite EF in CH'. cbn [app chunks_at] in CH'.
               destruct CH' as [CK _]. apply chunk_at_len in CK. unfold ck_bytes. rewrite app_length. lia. }
             destruct (N.ltb_spec 0 (llen (kc :: cs0'))); [apply orb_true_r|lia].
        * unfold rd_offsets. change (typ_log =? typ_ref) with false. change (typ_log =? typ_log) with true.
          cbv iota. cbn [r rd_log o_offset]. exact ELO.
        * unfold rd_offsets. change (typ_log =? typ_ref) with false. change (typ_log =? typ_log) with true.
          cbv iota. cbn [r rd_log o_index]. exact ELI.
        * rewrite SR. cbn [bind]. rewrite DR. rewrite RL. reflexivity.
  Qed.

  (* seeking a ref: every key, with or without index *)
  Theorem table_seek_ref : forall cfg min max refs logs data,
    cfg_ok cfg -> max < two64 -> min <= max -> refs_ok cfg min max refs -> logs_ok cfg logs ->
    N.of_nat (length data) < two64 ->
    write_table deflate cfg min max refs logs = Ok (false, data) ->
    exists r, rd_open data = Ok r /\
      forall k, seek_ref inflate r k = Ok (map RecRef (seek_refs k refs)).
  Proof.
    intros cfg min max refs logs data CO Hmax Hmm RO LO Hsz H.
    destruct (table_seek_common cfg min max refs logs data CO Hmax Hmm RO LO Hsz H)
      as (r & nl & OPEN & NL & RM & SR & _).
    exists r. split; [exact OPEN|]. intros k. rewrite SR. f_equal.
    rewrite seek_recs_refs. unfold fixr. rewrite !map_map.
    destruct RO as [RO _]. pose proof (seek_refs_Forall _ k refs RO) as F.
    induction F as [|x t ((I & _) & _ & _ & B) F IH]; [reflexivity|].
    cbn [map]. rewrite IH. f_equal. cbn [rec_read fix_index delta_ref r_name r_index r_val].
    f_equal. destruct x as [nm ix v]. cbn [r_name r_index r_val] in *. f_equal.
    rewrite RM. replace (ix - min + min) with ix by lia. apply N.mod_small. exact I.
  Qed.

  (* seeking a log: for every (name, index) *)
  Theorem table_seek_log_gen : forall cfg min max refs logs data logs',
    cfg_ok cfg -> max < two64 -> min <= max -> refs_ok cfg min max refs -> logs_ok cfg logs ->
    N.of_nat (length data) < two64 ->
    write_table deflate cfg min max refs logs = Ok (false, data) ->
    read_logs cfg logs = Some logs' ->
    exists r, rd_open data = Ok r /\
      forall name idx,
        seek_log inflate r name idx = Ok (map RecLog (seek_logs (log_key_of name idx) logs')).
  Proof.
    intros cfg min max refs logs data logs' CO Hmax Hmm RO LO Hsz H RL.
    destruct (table_seek_common cfg min max refs logs data CO Hmax Hmm RO LO Hsz H)
      as (r & nl & OPEN & NL & RM & _ & SL).
    exists r. split; [exact OPEN|]. intros name idx. rewrite SL. f_equal.
    unfold read_logs in RL. rewrite NL in RL. cbn [option_map] in RL. injection RL as <-.
    assert (NE : bytes_eqb (log_key_of name idx) (empty_key typ_log) = false).
    { unfold empty_key, log_key_of. destruct name; reflexivity. }
    rewrite NE.
    change (hash_size cfg) with (hash_size (cfg_defaults cfg)).
    assert (FX : forall l, fixr (cfg_defaults cfg) r (map RecLog l) =
                           map RecLog (map (fill_log (hash_size (cfg_defaults cfg))) l)).
    { intros l. unfold fixr. rewrite !map_map. apply map_ext. intros a. reflexivity. }
    rewrite seek_recs_logs, FX, seek_logs_fill. reflexivity.
  Qed.

  Lemma log_key_empty : forall name idx, idx < two64 ->
    log_key_of name idx = log_key_of [] 0 -> name = [] /\ idx = 0.
  Proof. intros name idx I H. apply (log_key_of_inj name idx [] 0 I ltac:(reflexivity) H). Qed.

  Lemma log_key_not_nul : forall l, hd 0 (l_name l) <> 0 -> bytes_ltb (log_key l) (log_key_of [] 0) = false.
  Proof.
    intros l H. unfold log_key, log_key_of at 1. destruct (l_name l) as [|b t]; [cbn [hd] in H; congruence|].
    cbn [hd] in H. cbn [app]. change (log_key_of [] 0) with (0 :: be64 (rev_int64 0)). cbn [bytes_ltb].
    destruct (N.ltb_spec b 0); [lia|]. destruct (N.ltb_spec 0 b); [reflexivity|lia].
  Qed.

  (* seeking a log lands on the first record at or after the key, for every (name, index) *)
  Theorem table_seek_log : forall cfg min max refs logs data logs',
    cfg_ok cfg -> max < two64 -> min <= max -> refs_ok cfg min max refs -> logs_ok cfg logs ->
    N.of_nat (length data) < two64 ->
    write_table deflate cfg min max refs logs = Ok (false, data) ->
    read_logs cfg logs = Some logs' ->
    exists r, rd_open data = Ok r /\
      forall name idx,
        seek_log inflate r name idx = Ok (map RecLog (seek_logs (log_key_of name idx) logs')).
  Proof. exact table_seek_log_gen. Qed.
End SeekTable.

(* the hypotheses on the codec are consistent: the "stored" stand-in satisfies them *)
Definition table_seek_ref_stored := table_seek_ref sdeflate sinflate sdeflate_ok sdeflate_trunc sdeflate_bound.
Definition table_seek_log_stored := table_seek_log sdeflate sinflate sdeflate_ok sdeflate_trunc sdeflate_bound.


(* ------------------------------------------------------------------ *)
(* the statements hold by computation on concrete tables (stored codec):
   tiny blocks force several index levels and multi-block top levels *)

Definition t_ref_keys (n : nat) : list bytes :=
  [[]; [114]; [114; 47]; [115]; [1]; [114; 47; 57; 57; 1]] ++
  flat_map (fun i => [t_name i; t_name i ++ [0]; firstn 3 (t_name i)]) (seq 0 (S n)).
Definition t_log_keys (n : nat) : list (bytes * N) :=
  [([], 0); ([], u64_max); ([], 5); ([114], 6); ([115], 0); ([1], 7)] ++
  flat_map (fun i => [(t_name i, 6); (t_name i, 7); (t_name i, 5); (t_name i ++ [0], 6); (firstn 3 (t_name i), 6)])
           (seq 0 (S n)).

(* (index offsets of the ref and log sections, failing keys) *)
Definition t_seek_check (c : config) (nr nl : nat) : option (N * N * list bytes * list (bytes * N)) :=
  let refs := t_refs nr in let logs := t_logs nl in
  match write_table sdeflate c 5 7 refs logs, read_logs c logs with
  | Ok (false, data), Some logs' =>
      match rd_open data with
      | Ok r =>
          Some (o_index (rd_ref r), o_index (rd_log r),
                filter (fun k => negb match seek_ref sinflate r k with
                                      | Ok a => records_eqb a (map RecRef (seek_refs k refs))
                                      | _ => false
                                      end) (t_ref_keys nr),
                filter (fun k => negb match seek_log sinflate r (fst k) (snd k) with
                                      | Ok a => records_eqb a (map RecLog (seek_logs (log_key_of (fst k) (snd k)) logs'))
                                      | _ => false
                                      end) (t_log_keys nl))
      | _ => None
      end
  | _, _ => None
  end.

Example t_seek_refs_aligned : t_seek_check (t_cfg false 64 false) 40 0 = Some (1344, 0, [], []).
Proof. vm_compute. reflexivity. Qed.
Example t_seek_refs_unaligned : t_seek_check (t_cfg true 64 true) 60 0 = Some (2104, 0, [], []).
Proof. vm_compute. reflexivity. Qed.
Example t_seek_noindex : t_seek_check (t_cfg false 256 false) 9 9 = Some (0, 0, [], []).
Proof. vm_compute. reflexivity. Qed.
Example t_seek_logs_indexed : t_seek_check (t_cfg true 120 false) 12 24 = Some (372, 3676, [], []).
Proof. vm_compute. reflexivity. Qed.

(* the side condition of [table_seek_log] is needed: a log whose name starts
   with a NUL byte is in the domain of the writer, and SeekLog("", 0) -- the
   "empty key" for which Reader.seek starts at the first log block -- then
   returns a record whose key is smaller than the requested key, although the
   seek for the smaller key of ("", 1) correctly skips that record *)
Definition nul_logs : list log_record :=
  [ {| l_name := [0]; l_index := 6; l_body := None |}; {| l_name := [114]; l_index := 6; l_body := None |} ].

Lemma nul_logs_ok : logs_ok (t_cfg false 128 false) nul_logs.
Proof.
  apply logs_ok_plain.
  - repeat constructor; try discriminate; vm_compute; reflexivity.
  - repeat constructor.
Qed.

Example nul_name_seek :
  match write_table sdeflate (t_cfg false 128 false) 5 7 [] nul_logs, read_logs (t_cfg false 128 false) nul_logs with
  | Ok (false, data), Some logs' =>
      match rd_open data with
      | Ok r =>
          match seek_log sinflate r [] 0, seek_log sinflate r [] 1 with
          | Ok a, Ok b =>
              (* before the fix of Reader.seek's zero-record shortcut this seek returned ALL logs,
                 including the one whose name starts with NUL and sorts before the key *)
              records_eqb a (map RecLog (seek_logs (log_key_of [] 0) logs')) &&
              records_eqb a (map RecLog (tl logs')) &&
              bytes_ltb (log_key_of [] 1) (log_key_of [] 0) &&
              records_eqb b (map RecLog (seek_logs (log_key_of [] 1) logs')) &&
              records_eqb b (map RecLog (tl logs'))
          | _, _ => false
          end
      | _ => false
      end
  | _, _ => false
  end = true.
Proof. vm_compute. reflexivity. Qed.

Print Assumptions written2.
Print Assumptions table_seek_ref.
Print Assumptions table_seek_log_gen.
Print Assumptions table_seek_log.
