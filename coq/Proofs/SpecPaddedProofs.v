(* C14, the layout rule of PADDED tables: a table written with padding on
   (c_unaligned = false) passes the judge's second judgement
   Model/SpecDecoder.spec_aligned -- every block in front of the log section
   starts on a multiple of the block size (table_padded, at the end).
   Standard library only; axiom-free.

   Structure:
   (A) the judge: whenever parse_blocks SUCCEEDS on a file that is the layout of a
       chunk list, its blocks sit at the chunks' offsets and carry their types
       (parse_blocks_shape; no assumption on the records), so aligned_prefix of
       the result is a function of the chunk list (ap_chunks);
       the envelope of spec_aligned (spec_aligned_open);
   (B) the writer: with padding on, every block flushed in front of the log
       section fills a whole file block (invariant J, threaded through every
       operation of the ref phase: flush_block, index_level(s), finish_section,
       dump_objs, dump_object_index, finish_public_section, w_add, add_refs);
       the log phase and Close reuse the section lemmas of TableProofs
       (padded_run);
   (C) assembly: the chunks of written3 are in the domain of the block codec
       (written_strong, the first half of table_wellformed_gen), so the judge's
       parse succeeds (parse_blocks_all); (A) reads its positions off the chunk
       list of (B), whose offsets are aligned (table_padded_two64, table_padded). *)
From Coq Require Import List NArith ZArith Arith Bool Lia ZifyN ZifyNat ZifyBool Sorted.
From RT Require Import Model.Bytes Model.Result Model.Varint Model.KeyCodec Model.Records
  Model.RecCodec Model.Block Model.Crc32 Model.Writer Model.Reader Model.SpecDecoder.
From RT Require Import Proofs.BytesProofs Proofs.CodecProofs Proofs.BlockInitEq Proofs.BlockProofs
  Proofs.WriterGuard Proofs.TableProofs Proofs.SeekProofs Proofs.SpecWriterProofs.
Import ListNotations.
Local Open Scope N_scope.

#[local] Arguments N.div : simpl never.
#[local] Arguments N.modulo : simpl never.
#[local] Arguments N.mul : simpl never.
#[local] Arguments N.add : simpl never.
#[local] Arguments N.sub : simpl never.
#[local] Arguments N.pow : simpl never.
#[local] Arguments N.of_nat : simpl never.
#[local] Arguments N.to_nat : simpl never.
#[local] Arguments N.min : simpl never.
#[local] Arguments N.leb : simpl never.
#[local] Arguments N.ltb : simpl never.
#[local] Arguments N.eqb : simpl never.
#[local] Arguments Nat.div : simpl never.
#[local] Arguments Nat.modulo : simpl never.
#[local] Arguments Nat.ltb : simpl never.
#[local] Arguments Nat.leb : simpl never.

(* ====================================================================== *)
(* PART A: the judge *)
(* ====================================================================== *)

(* aligned_prefix, on the writer's chunks *)
Fixpoint ap_chunks (bs off : N) (cs : list chunk) : bool :=
  match cs with
  | [] => true
  | k :: t => if ck_typ k =? typ_log then true
              else (off mod bs =? 0) && ap_chunks bs (off + N.of_nat (length (ck_bytes k))) t
  end.

(* the blocks sit at the chunks' offsets and carry their types *)
Fixpoint shape_of (off : N) (cs : list chunk) (bl : list sblock) : Prop :=
  match cs, bl with
  | [], [] => True
  | k :: t, b :: u => sb_pos b = off /\ sb_typ b = ck_typ k /\
                      shape_of (off + N.of_nat (length (ck_bytes k))) t u
  | _, _ => False
  end.

Lemma aligned_shape : forall bs cs bl off, shape_of off cs bl ->
  aligned_prefix bs bl = ap_chunks bs off cs.
Proof.
  intros bs. induction cs as [|k t IH]; intros [|b u] off H; cbn [shape_of] in H; try contradiction.
  - reflexivity.
  - destruct H as (P & T & R). cbn [aligned_prefix ap_chunks]. rewrite P, T.
    destruct (ck_typ k =? typ_log); [reflexivity|]. rewrite (IH _ _ R). reflexivity.
Qed.

(* whatever the second half of parse_block checks, a block it accepts keeps the
   position, type and successor it was given *)
Lemma pb_tail_inv : forall typ hs pos hdr blen blk next b,
  pb_tail typ hs pos hdr blen (blk, next) = inr b ->
  sb_pos b = pos /\ sb_typ b = typ /\ sb_next b = next.
Proof.
  intros typ hs pos hdr blen blk next b H. unfold pb_tail in H. cbv zeta in H.
  repeat match type of H with
         | match ?x with _ => _ end = _ => destruct x; try discriminate
         end.
  injection H as <-. auto.
Qed.

Section PBS.
  Variable deflate : bytes -> bytes.
  Variable inflate : bytes -> inflate_result.
  Hypothesis Hz : zlib_ok deflate inflate.
  Variable c : config.
  Variable mn mx : N.
  Hypothesis Hbs : 64 <= c_block_size c < 16777216.

  (* the first half of parse_block on a written chunk: type, length field, zlib,
     padding rule -- without any assumption on the records (cf. parse_block_chunk) *)
  Lemma parse_block_pre : forall fcs tail pre k post data,
    fcs = pre ++ k :: post ->
    chunks_at deflate c mn mx 0 fcs -> last_pad fcs = 0%nat ->
    data = layout fcs ++ tail ->
    exists blen blk,
      parse_block (sinfl_of inflate) data (llen fcs) (c_block_size c) (hash_size c) (llen pre)
                  (if llen pre =? 0 then header_size c else 0%nat)
      = pb_tail (ck_typ k) (hash_size c) (llen pre) (blk_hdr c (llen pre)) blen
                (blk, llen pre + N.of_nat (length (ck_bytes k))).
  Proof.
    intros fcs tail pre k post data E Hch Hlast Hdata.
    destruct (chunk_split' deflate c mn mx Hbs fcs pre k post E Hch Hlast) as (SK & CA & P0 & PN).
    set (off := llen pre) in *.
    destruct (chunk_shape deflate c mn mx Hbs off k CA)
      as (es & rs & nxt & RS & Hn & LB & Erec & NEes & Hc & Hfirst & Hsrt & Hzero & Hcnt).
    pose proof CA as (T & NE & _ & PR).
    change (if off =? 0 then header_size c else 0%nat) with (blk_hdr c off).
    set (hdr := blk_hdr c off) in *.
    set (fh := blk_file_hdr c mn mx off) in *.
    assert (Lfh : length fh = hdr) by apply blk_file_hdr_length.
    set (hs := hash_size c) in *.
    set (payload := body_of es ++ rtable rs ++ be16 (N.of_nat (length rs))) in *.
    assert (Lp : length payload = (length (body_of es) + 3 * length rs + 2)%nat).
    { unfold payload. rewrite !app_length, rtable_length, be16_length. lia. }
    set (head := fh ++ ck_typ k :: be24 (N.of_nat nxt)) in *.
    assert (R' : exists tlr, tlr = (if ck_typ k =? typ_log then deflate payload else payload) /\
                             ck_raw k = head ++ tlr) by (eexists; split; [reflexivity|exact RS]).
    clear RS. destruct R' as (tlr & Etlr & RS).
    assert (Lh : length head = (hdr + 4)%nat).
    { unfold head. rewrite app_length. cbn [length]. rewrite be24_length. lia. }
    remember (zeros (ck_pad k) ++ layout post) as X eqn:EX.
    assert (Hsm : N.of_nat nxt < 16777216) by lia.
    assert (AV : skipn (N.to_nat off) (firstn (N.to_nat (llen fcs)) data) = head ++ tlr ++ X).
    { rewrite Hdata. unfold llen at 1. rewrite Nat2N.id, firstn_app_len.
      rewrite SK, RS, <- app_assoc. reflexivity. }
    exists nxt, (head ++ payload).
    unfold parse_block. rewrite AV.
    set (avail := head ++ tlr ++ X).
    assert (Lav : length avail = (hdr + 4 + length tlr + length X)%nat).
    { unfold avail. rewrite !app_length. lia. }
    assert (Nav : nth hdr avail 0 = ck_typ k).
    { unfold avail. rewrite app_nth1 by lia. unfold head. rewrite <- Lfh. apply nth_middle. }
    assert (Bav : N.to_nat (be_at 3 (hdr + 1) avail) = nxt).
    { unfold avail, head. rewrite be_at_head by assumption. apply Nat2N.id. }
    assert (F4 : firstn (hdr + 4) avail = head) by (apply firstn_app_len'; auto).
    assert (S4 : skipn (hdr + 4) avail = tlr ++ X) by (apply skipn_app_len'; auto).
    cbv zeta.
    destruct (Nat.ltb_spec (length avail) (hdr + 4)) as [L|_]; [lia|].
    rewrite Nav, T. cbn [negb]. rewrite Bav.
    destruct (Nat.ltb_spec nxt (hdr + 4 + 2)) as [L|_]; [lia|].
    destruct (ck_typ k =? typ_log) eqn:TL.
    - (* log block: inflated *)
      subst tlr. rewrite S4. unfold sinfl_of. rewrite Hz.
      assert (Nat.eqb (hdr + 4 + length payload) nxt = true) as -> by (apply Nat.eqb_eq; lia).
      cbn [negb sbind]. rewrite F4.
      assert (PZ : ck_pad k = 0%nat) by (destruct PR as [Z|[NL _]]; [exact Z|lia]).
      replace (off + N.of_nat (hdr + 4 + length (deflate payload)))
        with (off + N.of_nat (length (ck_bytes k))).
      2:{ unfold ck_bytes. rewrite PZ, RS. cbn [zeros repeat]. rewrite app_nil_r, app_length, Lh. reflexivity. }
      reflexivity.
    - (* other blocks: cut at the length field, padding rule *)
      subst tlr.
      destruct (Nat.ltb_spec (length avail) nxt) as [L|_]; [lia|].
      assert (FN : firstn nxt avail = head ++ payload).
      { unfold avail. rewrite app_assoc. apply firstn_app_len'. rewrite app_length. lia. }
      assert (SN : skipn nxt avail = X).
      { unfold avail. rewrite app_assoc. apply skipn_app_len'. rewrite app_length. lia. }
      rewrite FN, SN.
      assert (LR : length (ck_raw k) = nxt) by (rewrite RS, app_length; lia).
      destruct (Nat.eq_dec (ck_pad k) 0) as [PZ|PNZ].
      + assert (LK : off + N.of_nat (length (ck_bytes k)) = off + N.of_nat nxt).
        { unfold ck_bytes. rewrite PZ. cbn [zeros repeat]. rewrite app_nil_r, LR. reflexivity. }
        rewrite LK. rewrite PZ in EX. cbn [zeros repeat app] in EX.
        destruct post as [|k2 post2].
        * cbn [layout flat_map] in EX. subst X. cbn [sbind]. reflexivity.
        * destruct (PN ltac:(discriminate)) as (t & rest & EL & NZ).
          rewrite EL in EX. subst X.
          destruct (N.eqb_spec t 0) as [Z|_]; [congruence|]. cbn [negb sbind]. reflexivity.
      + destruct PR as [PZ|[_ PB]]; [congruence|]. unfold bsz in PB.
        assert (LK : off + N.of_nat (length (ck_bytes k)) = off + c_block_size c).
        { unfold ck_bytes. rewrite app_length, zeros_length. lia. }
        rewrite LK.
        assert (FX : firstn (ck_pad k) X = zeros (ck_pad k)).
        { rewrite EX. apply firstn_app_len'. rewrite zeros_length. reflexivity. }
        assert (LX : (ck_pad k <= length X)%nat).
        { rewrite EX, app_length, zeros_length. lia. }
        destruct X as [|b X'].
        { cbn [length] in LX. lia. }
        assert (b = 0) as ->.
        { destruct (ck_pad k) as [|m]; [congruence|]. cbn [zeros repeat app] in EX. congruence. }
        change (0 =? 0) with true. cbn [negb].
        destruct (N.eqb_spec (c_block_size c) 0) as [Z|_]; [lia|].
        destruct (N.ltb_spec (c_block_size c) (N.of_nat nxt)) as [Z|_]; [lia|]. cbn [orb].
        replace (N.to_nat (c_block_size c) - nxt)%nat with (ck_pad k) by lia.
        destruct (Nat.ltb_spec (length (0 :: X')) (ck_pad k)) as [Z|_]; [lia|].
        rewrite FX, all_zero_zeros. cbn [negb sbind]. reflexivity.
  Qed.

  (* a successful parse of the layout of a chunk list: positions and types are the chunks' *)
  Lemma parse_blocks_shape : forall fcs tail data,
    chunks_at deflate c mn mx 0 fcs -> last_pad fcs = 0%nat ->
    data = layout fcs ++ tail ->
    forall post pre fuel acc blocks, fcs = pre ++ post ->
    parse_blocks (sinfl_of inflate) fuel data (llen fcs) (c_block_size c) (hash_size c) (header_size c)
                 (llen pre) acc = inr blocks ->
    exists bl, blocks = rev acc ++ bl /\ shape_of (llen pre) post bl.
  Proof.
    intros fcs tail data Hch Hl Hd.
    induction post as [|k post IH]; intros pre fuel acc blocks E H.
    - destruct fuel; [discriminate|]. cbn [parse_blocks] in H. rewrite app_nil_r in E. rewrite <- E in H.
      rewrite N.leb_refl, N.eqb_refl in H. injection H as <-.
      exists []. rewrite app_nil_r. split; [reflexivity|exact I].
    - destruct fuel; [discriminate|]. cbn [parse_blocks] in H.
      destruct (chunk_split' deflate c mn mx Hbs fcs pre k post E Hch Hl) as (_ & CA & _ & _).
      pose proof (chunk_at_len _ _ _ _ _ _ CA) as L4.
      assert (LK : (4 <= length (ck_bytes k))%nat) by (unfold ck_bytes; rewrite app_length; lia).
      assert (LF : llen fcs = llen pre + N.of_nat (length (ck_bytes k)) + llen post).
      { rewrite E, llen_app, llen_cons. lia. }
      destruct (N.leb_spec (llen fcs) (llen pre)) as [X|_]; [lia|].
      destruct (parse_block_pre fcs tail pre k post data E Hch Hl Hd) as (blen & blk & PBK).
      rewrite PBK in H.
      destruct (pb_tail (ck_typ k) (hash_size c) (llen pre) (blk_hdr c (llen pre)) blen
                        (blk, llen pre + N.of_nat (length (ck_bytes k)))) as [e|b] eqn:PT;
        cbn [sbind] in H; [discriminate|].
      destruct (pb_tail_inv _ _ _ _ _ _ _ _ PT) as (BP & BT & BN).
      rewrite BN in H.
      destruct (N.leb_spec (llen pre + N.of_nat (length (ck_bytes k))) (llen pre)) as [X|_]; [lia|].
      rewrite <- llen_snoc in H.
      destruct (IH (pre ++ [k]) fuel (b :: acc) blocks) as (bl & EB & SH).
      + rewrite <- app_assoc. exact E.
      + exact H.
      + exists (b :: bl). split.
        * rewrite EB. cbn [rev]. rewrite <- app_assoc. reflexivity.
        * cbn [shape_of]. split; [exact BP|]. split; [exact BT|]. rewrite <- llen_snoc. exact SH.
  Qed.

  Lemma parse_blocks_aligned : forall fcs tail data blocks,
    chunks_at deflate c mn mx 0 fcs -> last_pad fcs = 0%nat ->
    data = layout fcs ++ tail ->
    parse_blocks (sinfl_of inflate) (S (length data)) data (llen fcs) (c_block_size c) (hash_size c)
                 (header_size c) 0 [] = inr blocks ->
    aligned_prefix (c_block_size c) blocks = ap_chunks (c_block_size c) 0 fcs.
  Proof.
    intros fcs tail data blocks Hch Hl Hd H.
    destruct (parse_blocks_shape fcs tail data Hch Hl Hd fcs [] (S (length data)) [] blocks eq_refl H)
      as (bl & EB & SH).
    cbn [rev app] in EB. subst bl. apply aligned_shape. exact SH.
  Qed.
End PBS.

(* ------------------------------------------------------------------ *)
(* the envelope of spec_aligned (cf. spec_decode_open) *)

Section EnvelopeA.
  Variable inflate : bytes -> sinflate_result.

  Lemma spec_aligned_open : forall c min max t body ri oo oi lo li,
    0 < c_block_size c < 16777216 ->
    let hb := header_bytes c min max in
    let foot := footer_of c min max ri oo oi lo li in
    let src := (hb ++ t :: body) ++ foot ++ be32 (crc32 foot) in
    spec_aligned inflate src =
    sbind (parse_blocks inflate (S (length src)) src (N.of_nat (length (hb ++ t :: body))) (c_block_size c)
                        (hash_size c) (header_size c) 0 [])
          (fun blocks => inr (aligned_prefix (c_block_size c) blocks)).
  Proof.
    intros c min max t body ri oo oi lo li Hbs hb foot src.
    set (v := version_of c).
    set (X := c_block_size c + v * 16777216).
    set (idb := if c_sha256 c then sha256_id else []).
    set (hs := header_size c).
    assert (Hv : v = 1 \/ v = 2) by (unfold v, version_of; destruct (c_sha256 c); auto).
    assert (Ehb : hb = magic ++ be32 X ++ be64 min ++ be64 max ++ idb).
    { unfold hb, header_bytes, X, v, version_of, idb. destruct (c_sha256 c); reflexivity. }
    assert (Lhb : length hb = hs) by apply header_bytes_length.
    assert (Hhs : hs = (if v =? 1 then 24%nat else 28%nat)).
    { unfold hs, header_size, v, version_of. destruct (c_sha256 c); reflexivity. }
    assert (Lfoot : length foot = (hs + 40)%nat).
    { unfold foot, footer_of. fold hb. unfold be64. rewrite !app_length, !be_bytes_length. lia. }
    assert (Hfs : (hs + 44)%nat = (if v =? 1 then 68%nat else 72%nat)).
    { rewrite Hhs. destruct Hv as [-> | ->]; reflexivity. }
    set (fs := (hs + 44)%nat) in *.
    set (data := hb ++ t :: body).
    assert (Ldata : (hs + 1 <= length data)%nat).
    { unfold data. rewrite app_length. cbn [length]. lia. }
    assert (Lsrc : length src = (length data + fs)%nat).
    { unfold src. fold data. rewrite !app_length, Lfoot. unfold be32. rewrite be_bytes_length. unfold fs. lia. }
    assert (Ver : nth 4 src 0 = v).
    { unfold src, data. rewrite Ehb. rewrite be32_bytes.
      cbn [magic app nth]. unfold X. rewrite !N.div_div by lia.
      change (256 * 256 * 256) with 16777216. rewrite N.div_add by lia.
      rewrite N.div_small by lia. destruct Hv as [-> | ->]; reflexivity. }
    set (ft := foot ++ be32 (crc32 foot)) in *.
    assert (Esrc : src = magic ++ be32 X ++ be64 min ++ be64 max ++ idb ++ (t :: body) ++ ft).
    { unfold src, data. rewrite Ehb. rewrite <- !app_assoc. reflexivity. }
    assert (G1 : be_at 3 5 src = c_block_size c).
    { rewrite Esrc, be32_split.
      rewrite (be_at_mod 3 5 X (magic ++ be_bytes 1 (X / 16777216)) (be64 min ++ be64 max ++ idb ++ (t :: body) ++ ft));
        [|rewrite <- !app_assoc; reflexivity|reflexivity].
      rewrite pow256_3. unfold X. rewrite N.mod_add by lia. apply N.mod_small. lia. }
    assert (Hid : (if v =? 1 then [115; 104; 97; 49] else slice 24 4 src) = (if c_sha256 c then sha256_id else sha1_id)).
    { unfold v, version_of. destruct (c_sha256 c) eqn:S; [|reflexivity]. change (2 =? 1) with false. cbv iota.
      unfold slice.
      replace src with ((magic ++ be32 X ++ be64 min ++ be64 max) ++ idb ++ (t :: body) ++ ft)
        by (rewrite Esrc, <- !app_assoc; reflexivity).
      rewrite skipn_app_len' by reflexivity. unfold idb. reflexivity. }
    unfold spec_aligned. cbv zeta.
    rewrite Ver.
    rewrite <- Hhs, <- Hfs.
    assert (Lhf : Nat.leb (length src) (hs + fs) = false) by (apply Nat.leb_gt; clear - Lsrc Ldata; lia).
    rewrite Lhf.
    rewrite Hid.
    rewrite G1.
    destruct (N.eqb_spec (c_block_size c) 0) as [Z|_]; [lia|].
    replace (length src - fs)%nat with (length data) by (clear - Lsrc; lia).
    unfold hash_size. destruct (c_sha256 c); reflexivity.
  Qed.
End EnvelopeA.

(* ====================================================================== *)
(* PART B: the writer pads every block in front of the log section *)
(* ====================================================================== *)

Lemma ap_head_log : forall bs off S,
  (S = [] \/ exists k t, S = k :: t /\ ck_typ k = typ_log) -> ap_chunks bs off S = true.
Proof.
  intros bs off S [->|(k & t & -> & T)]; [reflexivity|]. cbn [ap_chunks]. rewrite T. reflexivity.
Qed.

(* unpad keeps the type of the first chunk *)
Lemma unpad_head : forall k t, exists k' t', unpad (k :: t) = k' :: t' /\ ck_typ k' = ck_typ k.
Proof.
  intros k [|k2 t].
  - exists (unpad_k k), []. split; reflexivity.
  - exists k, (unpad (k2 :: t)). split; [|reflexivity].
    change (k :: k2 :: t) with ([k] ++ k2 :: t). rewrite unpad_app_r by discriminate. reflexivity.
Qed.

Section Pad.
  Variable deflate : bytes -> bytes.
  Variable c : config.
  Variable mn mx : N.
  Hypothesis Hun : c_unaligned c = false.
  Hypothesis Hbs : 0 < c_block_size c.

  (* a chunk that is not a log block and fills a whole file block *)
  Definition fullk (k : chunk) : Prop :=
    ck_typ k <> typ_log /\ N.of_nat (length (ck_bytes k)) = c_block_size c.

  (* the block being built is not a log block *)
  Definition bwnl (st : wstate) : Prop := forall b, w_bw st = Some b -> bw_typ b <> typ_log.

  (* the invariant of the ref phase *)
  Definition J (st : wstate) (cur : list record) : Prop :=
    (exists cs, WI deflate c mn mx st cs cur /\ Forall fullk cs) /\ bwnl st.

  (* ---- full chunks keep the offsets aligned ---- *)

  Lemma ap_full : forall A R off, Forall fullk A -> off mod c_block_size c = 0 ->
    exists off', off' mod c_block_size c = 0 /\
      ap_chunks (c_block_size c) off (A ++ R) = ap_chunks (c_block_size c) off' R.
  Proof.
    induction A as [|k t IH]; intros R off F M.
    - exists off. split; [exact M|reflexivity].
    - pose proof (Forall_inv F) as [TN LN]. pose proof (Forall_inv_tail F) as Ft.
      destruct (IH R (off + c_block_size c) Ft) as (off' & M' & E).
      { replace (off + c_block_size c) with (off + 1 * c_block_size c) by lia.
        rewrite N.mod_add by lia. exact M. }
      exists off'. split; [exact M'|]. cbn [app ap_chunks].
      destruct (N.eqb_spec (ck_typ k) typ_log) as [X|_]; [congruence|].
      rewrite M, N.eqb_refl, LN. cbn [andb]. exact E.
  Qed.

  (* the layout of a padded table: full chunks, the last one unpadded, then
     nothing or the log section *)
  Lemma ap_unpad : forall cs S, Forall fullk cs ->
    (S = [] \/ exists k t, S = k :: t /\ ck_typ k = typ_log) ->
    ap_chunks (c_block_size c) 0 (unpad cs ++ S) = true.
  Proof.
    intros cs S F HS. destruct (snoc_cases _ cs) as [->|(cs' & x & ->)].
    - cbn [unpad app]. apply ap_head_log. exact HS.
    - rewrite unpad_snoc, <- app_assoc. cbn [app].
      apply Forall_app in F. destruct F as [F1 F2]. pose proof (Forall_inv F2) as [TN _].
      destruct (ap_full cs' (unpad_k x :: S) 0 F1) as (off' & M' & E).
      { apply N.mod_0_l. lia. }
      rewrite E. cbn [ap_chunks unpad_k ck_typ].
      destruct (N.eqb_spec (ck_typ x) typ_log) as [X|_]; [congruence|].
      rewrite M', N.eqb_refl. cbn [andb]. apply ap_head_log. exact HS.
  Qed.

  (* ---- the primitive steps ---- *)

  Lemma J_frame : forall st st' cur,
    w_cfg st' = w_cfg st -> w_min st' = w_min st -> w_max st' = w_max st ->
    w_out st' = w_out st -> w_pad st' = w_pad st -> w_next st' = w_next st -> w_bw st' = w_bw st ->
    J st cur -> J st' cur.
  Proof.
    intros st st' cur E1 E2 E3 E4 E5 E6 E7 [(cs & W & FU) NL]. split.
    - exists cs. split; [eapply WI_frame; eassumption|exact FU].
    - intros b B. apply NL. rewrite <- E7. exact B.
  Qed.

  Lemma J_cur_nil : forall st cur, J st cur -> w_bw st = None -> cur = [].
  Proof.
    intros st cur [(cs & W & _) _] B. pose proof (wi_bw _ _ _ _ _ _ _ W) as A. rewrite B in A. exact A.
  Qed.

  (* flushBlock: the new chunk fills a whole file block *)
  Lemma J_flush : forall st cur, J st cur -> J (flush_block deflate st) [].
  Proof.
    intros st cur [(cs & W & FU) NL].
    destruct cur as [|x cur'].
    - rewrite (flush_block_nop deflate c mn mx st cs W). split; [exists cs; split; assumption|exact NL].
    - destruct (w_bw st) as [b|] eqn:B.
      2:{ pose proof (wi_bw _ _ _ _ _ _ _ W) as A. rewrite B in A. discriminate. }
      assert (NE : x :: cur' <> []) by discriminate.
      destruct (flush_block_spec deflate c mn mx st cs (x :: cur') b rdummy W B NE) as (W2 & B2 & _).
      cbv zeta in W2, B2.
      split.
      + eexists. split; [exact W2|]. apply Forall_app. split; [exact FU|]. constructor; [|constructor].
        pose proof (wi_bw _ _ _ _ _ _ _ W) as A. rewrite B in A. destruct A as [_ A].
        assert (TN : bw_typ b <> typ_log) by (apply NL; exact B).
        assert (TL : bw_typ b =? typ_log = false) by (apply N.eqb_neq; exact TN).
        pose proof (bw_finish_fits deflate _ _ _ _ _ _ _ (blk_file_hdr c mn mx (w_next st)) A NE
                      (blk_file_hdr_length _ _ _ _) TL) as F.
        split; [exact TN|].
        unfold ck_bytes. cbn [ck_raw ck_pad]. rewrite app_length, zeros_length.
        unfold flush_pad. rewrite Hun, TL. cbn [orb]. unfold bsz in *. lia.
      + intros b0 E. rewrite B2 in E. discriminate.
  Qed.

  Lemma J_add : forall st cur b r b', J st cur -> w_bw st = Some b -> bw_add b r = Ok (Some b') ->
    J (set_bw st (Some b')) (cur ++ [r]).
  Proof.
    intros st cur b r b' [(cs & W & FU) NL] B A. split.
    - exists cs. split; [eapply WI_set_bw_add; eassumption|exact FU].
    - intros b0 E. cbn [set_bw upd w_bw] in E. injection E as <-.
      rewrite (bw_add_typ _ _ _ A). apply NL. exact B.
  Qed.

  Lemma J_new : forall st T, J st [] -> is_block_type T = true -> T <> typ_log ->
    J (set_bw st (Some (new_bw st T))) [].
  Proof.
    intros st T [(cs & W & FU) NL] HT TN. split.
    - exists cs. split; [apply WI_new_bw; assumption|exact FU].
    - intros b0 E. cbn [set_bw upd w_bw] in E. injection E as <-. exact TN.
  Qed.

  Lemma J_fresh : forall st T r b2, J st [] -> is_block_type T = true -> T <> typ_log ->
    bw_add (new_bw st T) r = Ok (Some b2) -> J (set_bw st (Some b2)) [r].
  Proof.
    intros st T r b2 HJ HT TN A.
    pose proof (J_add _ _ _ _ _ (J_new st T HJ HT TN) eq_refl A) as H. cbn [app] in H.
    eapply J_frame; [..|exact H]; reflexivity.
  Qed.

  Lemma J_none : forall st cur, J st cur -> J (set_bw st None) [].
  Proof.
    intros st cur [(cs & W & FU) _]. split.
    - exists cs. split; [eapply WI_set_bw_none; exact W|exact FU].
    - intros b0 E. discriminate.
  Qed.

  (* ---- index levels, sections ---- *)

  Lemma J_index_level : forall idx st cur st', J st cur ->
    index_level deflate st idx = Ok st' -> exists cur', J st' cur'.
  Proof.
    induction idx as [|[k off] rest IH]; intros st cur st' HJ H; cbn [index_level] in H.
    - apply Ok_inj in H. subst st'. exists cur. exact HJ.
    - destruct (w_bw st) as [b|] eqn:B; [|discriminate].
      destruct (bw_add b (RecIdx k off)) as [a| | |] eqn:Ha; cbn [bind] in H; try discriminate.
      destruct a as [b'|].
      + eapply IH; [|exact H]. eapply J_add; eassumption.
      + pose proof (J_flush _ _ HJ) as J1. set (st1 := flush_block deflate st) in *.
        destruct (bw_add (new_bw st1 typ_idx) (RecIdx k off)) as [a2| | |] eqn:Ha2; cbn [bind] in H;
          try discriminate.
        destruct a2 as [b2|]; [|discriminate].
        eapply IH; [|exact H]. eapply (J_fresh st1 typ_idx); [exact J1|reflexivity|discriminate|exact Ha2].
  Qed.

  Lemma J_index_levels : forall fuel st thr is ml st' is' ml', J st [] ->
    index_levels deflate fuel st thr is ml = Ok (st', is', ml') -> J st' [].
  Proof.
    induction fuel as [|f IH]; intros st thr is ml st' is' ml' HJ H; cbn [index_levels] in H;
      [discriminate|].
    destruct (Nat.ltb thr (length (w_index st))).
    - set (idx := w_index st) in *.
      set (st0 := set_index (set_bw st (Some (new_bw st typ_idx))) []) in *.
      destruct (index_level deflate st0 idx) as [st1| | |] eqn:IL; cbn [bind] in H; try discriminate.
      assert (J0 : J st0 []).
      { eapply J_frame; [..|apply (J_new st typ_idx HJ eq_refl)]; try reflexivity. discriminate. }
      destruct (J_index_level _ _ _ _ J0 IL) as (cur1 & J1).
      pose proof (J_flush _ _ J1) as J2.
      destruct (Nat.leb (length idx) (length (w_index (flush_block deflate st1)))).
      + apply Ok_inj in H. injection H as <- <- <-. exact J2.
      + eapply IH; [exact J2|exact H].
    - apply Ok_inj in H. injection H as <- <- <-. exact HJ.
  Qed.

  Lemma J_finish_section : forall st cur st', J st cur ->
    finish_section deflate st = Ok st' -> J st' [].
  Proof.
    intros st cur st' HJ H. unfold finish_section in H.
    destruct (w_bw st) as [b|] eqn:B; [|discriminate].
    pose proof (J_flush _ _ HJ) as J1. set (st1 := flush_block deflate st) in *.
    destruct (index_levels deflate (S (length (w_index st1))) st1 (if c_unaligned (w_cfg st) then 1%nat else 3%nat) 0 0)
      as [[[st2 is2] ml2]| | |] eqn:IL; cbn [bind] in H; try discriminate.
    pose proof (J_index_levels _ _ _ _ _ _ _ _ J1 IL) as J2.
    apply Ok_inj in H. subst st'.
    eapply J_frame; [..|exact J2]; reflexivity.
  Qed.

  Lemma J_dump_objs : forall objs st idlen cur st', J st cur ->
    dump_objs deflate st idlen objs = Ok st' -> exists cur', J st' cur'.
  Proof.
    induction objs as [|[k offs] rest IH]; intros st idlen cur st' HJ H; cbn [dump_objs] in H.
    - apply Ok_inj in H. subst st'. exists cur. exact HJ.
    - destruct (w_bw st) as [b|] eqn:B; [|discriminate].
      destruct (bw_add b (RecObj (firstn idlen k) offs)) as [a| | |] eqn:Ha; cbn [bind] in H; try discriminate.
      destruct a as [b'|].
      + eapply IH; [|exact H]. eapply J_add; eassumption.
      + pose proof (J_flush _ _ HJ) as J1. set (st1 := flush_block deflate st) in *.
        destruct (bw_add (new_bw st1 typ_obj) (RecObj (firstn idlen k) offs)) as [a2| | |] eqn:Ha2; cbn [bind] in H;
          try discriminate.
        destruct a2 as [b2|].
        * eapply IH; [|exact H]. eapply (J_fresh st1 typ_obj); [exact J1|reflexivity|discriminate|exact Ha2].
        * destruct (bw_add (new_bw st1 typ_obj) (RecObj (firstn idlen k) [])) as [a3| | |] eqn:Ha3; cbn [bind] in H;
            try discriminate.
          destruct a3 as [b3|]; [|discriminate].
          eapply IH; [|exact H]. eapply (J_fresh st1 typ_obj); [exact J1|reflexivity|discriminate|exact Ha3].
  Qed.

  Lemma J_dump_object_index : forall st st', J st [] ->
    dump_object_index deflate st = Ok st' -> J st' [].
  Proof.
    intros st st' HJ H. unfold dump_object_index in H.
    destruct (Nat.leb 32 (S (max_common [] (map fst (w_obj st)) 0))).
    - apply Ok_inj in H. subst st'. exact HJ.
    - set (mc := S (max_common [] (map fst (w_obj st)) 0)) in *.
      set (st1 := set_obj st (w_obj st) (w_blocks st) mc) in *.
      set (st2 := set_bw st1 (Some (new_bw st1 typ_obj))) in *.
      destruct (dump_objs deflate st2 mc (w_obj st2)) as [st3| | |] eqn:D; cbn [bind] in H; try discriminate.
      assert (J1 : J st1 []) by (eapply J_frame; [..|exact HJ]; reflexivity).
      assert (J2 : J st2 []) by (apply J_new; [exact J1|reflexivity|discriminate]).
      destruct (J_dump_objs _ _ _ _ _ J2 D) as (cur3 & J3).
      eapply J_finish_section; eassumption.
  Qed.

  Lemma J_fps : forall st cur st', J st cur ->
    finish_public_section deflate st = Ok st' -> J st' [].
  Proof.
    intros st cur st' HJ H. unfold finish_public_section in H.
    destruct (w_bw st) as [b|] eqn:B.
    - destruct (finish_section deflate st) as [st1| | |] eqn:FS; cbn [bind] in H; try discriminate.
      pose proof (J_finish_section _ _ _ HJ FS) as J1.
      destruct ((bw_typ b =? typ_ref) && negb (c_skip_index_objects (w_cfg st1)) &&
                Nat.ltb 0 (ts_index_blocks (w_ref st1))).
      + destruct (dump_object_index deflate st1) as [st2| | |] eqn:D; cbn [bind] in H; try discriminate.
        apply Ok_inj in H. subst st'. eapply J_none. eapply J_dump_object_index; eassumption.
      + cbn [bind] in H. apply Ok_inj in H. subst st'. eapply J_none. exact J1.
    - apply Ok_inj in H. subst st'. rewrite (J_cur_nil _ _ HJ B) in HJ. exact HJ.
  Qed.

  (* ---- AddRef* ---- *)

  Lemma J_w_add : forall st cur r st', J st cur -> rec_typ r = typ_ref ->
    w_add deflate st r = Ok st' -> exists cur', J st' cur'.
  Proof.
    intros st cur r st' HJ Hr H. apply w_add_ok_core in H; unfold w_add_core in H.
    destruct (bytes_ltb (w_last_key st) (rec_key r)); cbn [negb] in H; [|discriminate].
    set (st0 := set_last_key st (rec_key r)) in *.
    assert (J0 : J st0 cur) by (eapply J_frame; [..|exact HJ]; reflexivity).
    set (st1 := match w_bw st0 with None => set_bw st0 (Some (new_bw st0 (rec_typ r))) | Some _ => st0 end) in *.
    assert (J1 : J st1 cur).
    { unfold st1. destruct (w_bw st0) as [b0|] eqn:B0; [exact J0|].
      pose proof (J_cur_nil _ _ J0 B0) as C. subst cur.
      apply J_new; [exact J0|rewrite Hr; reflexivity|rewrite Hr; discriminate]. }
    clearbody st1.
    destruct (w_bw st1) as [b|] eqn:B1; [|discriminate].
    destruct (negb (bw_typ b =? rec_typ r)); [discriminate|].
    destruct (bw_add b r) as [a| | |] eqn:Ha; cbn [bind] in H; try discriminate.
    destruct a as [b'|].
    - apply Ok_inj in H. subst st'. eexists. eapply J_add; eassumption.
    - pose proof (J_flush _ _ J1) as J2.
      destruct (bw_add (new_bw (flush_block deflate st1) (rec_typ r)) r) as [a2| | |] eqn:Ha2; cbn [bind] in H;
        try discriminate.
      destruct a2 as [b2|]; [|discriminate].
      apply Ok_inj in H. subst st'. eexists.
      eapply (J_fresh _ (rec_typ r)); [exact J2|rewrite Hr; reflexivity|rewrite Hr; discriminate|exact Ha2].
  Qed.

  Lemma J_index_hash : forall st cur h, J st cur -> J (index_hash st h) cur.
  Proof.
    intros st cur h HJ. unfold index_hash. destruct (c_skip_index_objects (w_cfg st)); [exact HJ|].
    eapply J_frame; [..|exact HJ]; reflexivity.
  Qed.

  Lemma J_w_add_ref : forall st cur r st', J st cur ->
    w_add_ref deflate st r = Ok st' -> exists cur', J st' cur'.
  Proof.
    intros st cur r st' HJ H. unfold w_add_ref in H.
    destruct (Nat.eqb (length (r_name r)) 0); [discriminate|].
    destruct ((r_index r <? w_min st) || (w_max st <? r_index r)); [discriminate|].
    match type of H with context [w_add deflate st ?x] =>
      destruct (w_add deflate st x) as [st1| | |] eqn:A; cbn [bind] in H; try discriminate;
      destruct (J_w_add st cur x st1 HJ eq_refl A) as (cur1 & J1)
    end.
    apply Ok_inj in H. subst st'. exists cur1.
    destruct (r_val r); try exact J1; repeat apply J_index_hash; exact J1.
  Qed.

  Lemma J_add_refs : forall refs st cur st', J st cur ->
    add_refs deflate st refs = Ok st' -> exists cur', J st' cur'.
  Proof.
    induction refs as [|r t IH]; intros st cur st' HJ H; cbn [add_refs] in H.
    - apply Ok_inj in H. subst st'. exists cur. exact HJ.
    - destruct (w_add_ref deflate st r) as [st1| | |] eqn:A; cbn [bind] in H; try discriminate.
      destruct (J_w_add_ref _ _ _ _ HJ A) as (cur1 & J1).
      eapply IH; eassumption.
  Qed.

  (* ---- the whole run: AddRef*; AddLog*; Close ---- *)

  Definition padded_ok (data : bytes) : Prop :=
    exists fcs st1,
      data = layout fcs ++ footer_st c mn mx st1 ++ be32 (crc32 (footer_st c mn mx st1)) /\ fcs <> [] /\
      chunks_at deflate c mn mx 0 fcs /\ last_pad fcs = 0%nat /\
      ap_chunks (c_block_size c) 0 fcs = true.

  (* Close directly after the refs *)
  Lemma close_refs_padded : forall st cur data, J st cur ->
    w_close deflate st = Ok (false, data) -> padded_ok data.
  Proof.
    intros st cur data HJ H.
    destruct (finish_public_section deflate st) as [st1| | |] eqn:F;
      try (unfold w_close in H; rewrite F in H; discriminate).
    destruct (J_fps _ _ _ HJ F) as [(cs & W1 & FU) _].
    destruct (w_close_out deflate c mn mx _ _ _ _ F W1 H) as (D & NE).
    destruct (out_unpad deflate c mn mx _ _ _ W1) as (_ & C & P & _).
    exists (unpad cs), st1. split; [exact D|].
    split; [rewrite unpad_nil_iff; exact NE|].
    split; [exact C|]. split; [exact P|].
    rewrite <- (app_nil_r (unpad cs)). apply ap_unpad; [exact FU|left; reflexivity].
  Qed.

  (* the first AddLog: the ref phase is finished, its last block loses its padding *)
  Lemma first_log_padded : forall st sec cur L l st',
    SI deflate c mn mx typ_ref st [] sec cur L -> w_bw st <> None -> ts_blocks (w_log st) = 0%nat ->
    (exists cur0, J st cur0) ->
    w_add_log deflate st l = Ok st' ->
    exists l1 cs sec' cur', Forall fullk cs /\ PL deflate c mn mx st' (unpad cs) sec' cur' [RecLog l1].
  Proof.
    intros st sec cur L l st' HS Hb Z (cur0 & HJ) H. unfold w_add_log in H.
    destruct (Nat.eqb (length (l_name l)) 0); [discriminate|].
    rewrite (wi_cfg _ _ _ _ _ _ _ (si_wi _ _ _ _ _ _ _ _ _ _ HS)) in H.
    destruct (norm_log (c_exact_log c) l) as [l1|]; [|discriminate].
    destruct (w_bw st) as [b|] eqn:B; [|congruence].
    pose proof (si_bw _ _ _ _ _ _ _ _ _ _ HS) as TB. rewrite B in TB. rewrite TB in H.
    change (typ_ref =? typ_ref) with true in H. cbv iota in H.
    destruct (finish_public_section deflate st) as [st1| | |] eqn:F; cbn [bind] in H; try discriminate.
    destruct (fps_ref_spec deflate c mn mx st sec cur L st1 HS ltac:(congruence) F)
      as (rsec & mid & _ & B1 & _ & _ & _ & G1 & X1).
    destruct (J_fps _ _ _ HJ F) as [(cs & W1 & FU) _].
    pose proof (take_back deflate c mn mx st1 _ W1 B1) as W2.
    set (st2 := upd st1 (w_out st1) 0 (w_next st1 - w_pad st1) (w_last_key st1) (w_bw st1) (w_index st1)) in *.
    assert (S2 : SI deflate c mn mx typ_log st2 (unpad cs) [] [] []).
    { constructor.
      - rewrite app_nil_r. exact W2.
      - constructor.
      - reflexivity.
      - cbn [st2 upd w_index idx_of]. exact X1.
      - cbn [st2 upd w_bw]. rewrite B1. exact I. }
    destruct (out_unpad deflate c mn mx _ _ _ W1) as (_ & _ & P0 & _).
    assert (H' : w_add deflate (upd st2 (w_out st2) 0 (w_next st2 - w_pad st2) (w_last_key st2) (w_bw st2) (w_index st2))
                   (RecLog l1) = Ok st').
    { cbn [st2 upd w_out w_pad w_next w_last_key w_bw w_index]. rewrite N.sub_0_r. exact H. }
    destruct (w_add_log_core deflate c mn mx st2 _ [] [] [] l1 st' S2 P0) as (sec' & cur' & P'); try exact H'.
    - intros _. cbn [st2 upd w_log]. rewrite G1. exact Z.
    - congruence.
    - exists l1, cs, sec', cur'. cbn [app] in P'. split; [exact FU|exact P'].
  Qed.

  (* Close after logs *)
  Lemma close_logs_padded : forall st cs sec cur L data,
    Forall fullk cs -> PL deflate c mn mx st (unpad cs) sec cur L -> L <> [] ->
    w_close deflate st = Ok (false, data) -> padded_ok data.
  Proof.
    intros st cs sec cur L data FU P LNE H.
    destruct (finish_public_section deflate st) as [st1| | |] eqn:F;
      try (unfold w_close in H; rewrite F in H; discriminate).
    destruct (fps_log_spec deflate c mn mx st _ sec cur L st1 (pl_si _ _ _ _ _ _ _ _ _ P) (pl_bw _ _ _ _ _ _ _ _ _ P) F)
      as (sec1 & lv & W1 & T1 & R1 & _).
    destruct (w_close_out deflate c mn mx _ _ _ _ F W1 H) as (D & NE).
    destruct (out_unpad deflate c mn mx _ _ _ W1) as (_ & C & P1 & _).
    exists (unpad ((unpad cs ++ sec1) ++ concat lv)), st1. split; [exact D|].
    split; [rewrite unpad_nil_iff; exact NE|].
    split; [exact C|]. split; [exact P1|].
    destruct sec1 as [|k1 sec1'].
    { cbn [map concat] in R1. congruence. }
    rewrite <- app_assoc. rewrite unpad_app_r by discriminate.
    cbn [app].
    destruct (unpad_head k1 (sec1' ++ concat lv)) as (k' & t' & EU & TK).
    rewrite EU. apply ap_unpad; [exact FU|]. right. exists k', t'. split; [reflexivity|].
    rewrite TK. exact (Forall_inv T1).
  Qed.

  Lemma run_padded : forall st0 refs logs st1 st2 data,
    SI deflate c mn mx typ_ref st0 [] [] [] [] -> w_bw st0 <> None -> w_log st0 = tstats0 ->
    add_refs deflate st0 refs = Ok st1 -> add_logs deflate st1 logs = Ok st2 ->
    w_close deflate st2 = Ok (false, data) -> padded_ok data.
  Proof.
    intros st0 refs logs st1 st2 data S0 B0 G0 AR AL H.
    assert (J0 : J st0 []).
    { split.
      - exists []. split; [exact (si_wi _ _ _ _ _ _ _ _ _ _ S0)|constructor].
      - intros b B. pose proof (si_bw _ _ _ _ _ _ _ _ _ _ S0) as TB. rewrite B in TB. rewrite TB. discriminate. }
    destruct (J_add_refs _ _ _ _ J0 AR) as (cur1 & J1).
    destruct (add_refs_SI deflate c mn mx refs st0 [] [] [] st1 S0 B0 AR) as (sec1 & cur1' & S1 & B1 & G1).
    destruct logs as [|l t].
    - cbn [add_logs] in AL. apply Ok_inj in AL. subst st2. eapply close_refs_padded; eassumption.
    - cbn [add_logs] in AL.
      destruct (w_add_log deflate st1 l) as [st1'| | |] eqn:A1; cbn [bind] in AL; try discriminate.
      destruct (first_log_padded _ _ _ _ _ _ S1 B1 ltac:(rewrite G1, G0; reflexivity) (ex_intro _ cur1 J1) A1)
        as (l1 & cs & sec' & cur' & FU & P1).
      destruct (add_logs_PL deflate c mn mx _ _ _ _ _ _ _ P1 AL) as (nl & sec2 & cur2 & _ & P2).
      eapply close_logs_padded; [exact FU|exact P2|discriminate|exact H].
  Qed.
End Pad.

Theorem written_padded : forall deflate cfg min max refs logs data,
  c_unaligned cfg = false ->
  write_table deflate cfg min max refs logs = Ok (false, data) ->
  padded_ok deflate (cfg_defaults cfg) min max data.
Proof.
  intros deflate cfg min max refs logs data Hun H. unfold write_table in H.
  destruct (w_new cfg) as [st0| | |] eqn:N0; cbn [bind] in H; try discriminate.
  destruct (w_new_SI deflate cfg min max st0 N0) as (BS & S0 & B0 & G0). cbv zeta in S0, B0, G0.
  destruct (add_refs deflate (set_limits st0 min max) refs) as [st1| | |] eqn:AR; cbn [bind] in H; try discriminate.
  destruct (add_logs deflate st1 logs) as [st2| | |] eqn:AL; cbn [bind] in H; try discriminate.
  eapply (run_padded deflate (cfg_defaults cfg) min max); try eassumption.
  unfold cfg_defaults. cbn [c_block_size]. destruct (N.eqb_spec (c_block_size cfg) 0); lia.
Qed.

(* ====================================================================== *)
(* PART C: assembly *)
(* ====================================================================== *)

(* the chunks of a written table are in the domain of the block codec, so that the
   judge's parse of the file succeeds (parse_blocks_all); this is the first half of
   the proof of table_wellformed_gen, which stops short of the footer and so needs
   only the 64-bit bound on the file size *)
Lemma written_strong : forall deflate cfg min max refs logs data,
  cfg_ok cfg -> max < two64 -> min <= max -> refs_ok cfg min max refs -> logs_ok cfg logs ->
  N.of_nat (length data) < two64 ->
  write_table deflate cfg min max refs logs = Ok (false, data) ->
  let c := cfg_defaults cfg in
  exists fcs st1,
    data = layout fcs ++ footer_st c min max st1 ++ be32 (crc32 (footer_st c min max st1)) /\
    chunks_at deflate c min max 0 fcs /\ last_pad fcs = 0%nat /\ Forall (strong c) fcs.
Proof.
  intros deflate cfg min max refs logs data [CB1 CB2] Hmax Hmm [RO RS] [LO LS] Hsz H c0.
  destruct (written3 deflate cfg min max refs logs data H) as (nl & NL & _ & fcs & st1 & D & NE & CH & LP & FO).
  subst c0. set (c := cfg_defaults cfg) in *.
  exists fcs, st1. split; [exact D|]. split; [exact CH|]. split; [exact LP|].
  assert (HBS : 64 <= c_block_size c < 16777216).
  { unfold c, cfg_defaults. cbn [c_block_size]. destruct (N.eqb_spec (c_block_size cfg) 0); lia. }
  assert (HS : hash_size c = hash_size cfg) by reflexivity.
  assert (HSP : (0 < hash_size c)%nat) by (unfold hash_size; destruct (c_sha256 c); lia).
  assert (LF : llen fcs < two64).
  { unfold llen. rewrite D, app_length in Hsz. lia. }
  set (Lref := map RecRef (map (delta_ref min) refs)) in *.
  set (Llog := map RecLog nl) in *.
  (* the records are in the domain of the block codec *)
  assert (GR : Forall (fun x => rec_typ x = typ_ref /\ rec_ok (hash_size c) x) Lref).
  { unfold Lref. rewrite !Forall_map. eapply Forall_impl; [|exact RO]. cbv beta.
    intros x ((I & V) & _ & KL & _). split; [reflexivity|]. split; [exact KL|].
    unfold ref_ok. cbn [delta_ref r_index r_val]. split; [lia|exact V]. }
  assert (SR : sorted_recs Lref).
  { unfold sorted_recs, Lref. apply sorted_map. apply sorted_map. exact RS. }
  pose proof (norm_logs_Forall2 _ _ _ NL) as F2.
  assert (GL : rgood c typ_log Llog).
  { unfold rgood, Llog. clear - F2 LO LS HS. revert LO LS.
    induction F2 as [|l l1 logs nl N1 F2 IH]; intros LO LS.
    - cbn [map]. split; constructor.
    - pose proof (Forall_inv LO) as [OK KL]. pose proof (Forall_inv_tail LO) as LO'.
      inversion LS as [|? ? LS' LF]; subst.
      destruct (IH LO' LS') as (I1 & I2).
      pose proof (norm_log_key _ _ _ N1) as K1. specialize (OK _ N1).
      cbn [map]. split.
      + constructor; [|exact I1]. split; [reflexivity|]. split; [cbn [rec_key]; rewrite K1; exact KL|].
        rewrite HS. exact OK.
      + constructor; [exact I2|]. rewrite Forall_map. cbn [rec_key].
        clear - F2 LF K1. induction F2 as [|a a1 t t1 Na F2 IH]; [constructor|].
        pose proof (Forall_inv LF) as A. pose proof (Forall_inv_tail LF) as LF'.
        constructor; [|apply IH; exact LF'].
        rewrite K1, (norm_log_key _ _ _ Na). exact A. }
  assert (RNG : Forall (fun r => min <= r_index r <= max) refs).
  { eapply Forall_impl; [|exact RO]. cbv beta. intros x (_ & _ & _ & B). exact B. }
  set (ri := rio st1) in *. set (oo := ts_offset (w_objs st1)) in *. set (oi := ts_index_offset (w_objs st1)) in *.
  set (lo := ts_offset (w_log st1)) in *. set (li := ts_index_offset (w_log st1)) in *.
  set (idlen := w_idlen st1) in *.
  (* the layout *)
  destruct FO as (cs0 & lsec & llv & E0 & [(rsec & rlv & osec & olv & E1 & TR & RR & LC1 & TO & LC2 & Hri & Hoo & Hoi & IL & OSK & OBJ)]
                  & TL & RLg & LC3 & LV3 & Hlo & Hli).
  assert (EF : fcs = rsec ++ concat rlv ++ osec ++ concat olv ++ lsec ++ concat llv).
  { rewrite E0, E1, <- !app_assoc. reflexivity. }
  pose proof (chunks_nonempty _ _ _ _ _ _ CH) as NEall.
  pose proof (chunks_lengths _ _ _ _ _ _ CH) as LNall.
  rewrite EF in NEall, LNall.
  assert (NEr : Forall (fun k => ck_recs k <> []) rsec) by (apply Forall_app in NEall; apply NEall).
  assert (NErl : Forall (fun k => ck_recs k <> []) (concat rlv)).
  { apply (Forall_sub _ _ rsec (concat rlv) (osec ++ concat olv ++ lsec ++ concat llv)). exact NEall. }
  assert (NEo : Forall (fun k => ck_recs k <> []) osec).
  { apply (Forall_sub _ _ (rsec ++ concat rlv) osec (concat olv ++ lsec ++ concat llv)).
    rewrite <- !app_assoc. exact NEall. }
  assert (NEol : Forall (fun k => ck_recs k <> []) (concat olv)).
  { apply (Forall_sub _ _ (rsec ++ concat rlv ++ osec) (concat olv) (lsec ++ concat llv)).
    rewrite <- !app_assoc. exact NEall. }
  assert (NEl : Forall (fun k => ck_recs k <> []) lsec).
  { apply (Forall_sub _ _ (rsec ++ concat rlv ++ osec ++ concat olv) lsec (concat llv)).
    rewrite <- !app_assoc. exact NEall. }
  assert (NEll : Forall (fun k => ck_recs k <> []) (concat llv)).
  { apply (Forall_sub _ _ (rsec ++ concat rlv ++ osec ++ concat olv ++ lsec) (concat llv) []).
    rewrite app_nil_r, <- !app_assoc. exact NEall. }
  assert (LNr : Forall (fun k => (0 < length (ck_bytes k))%nat) rsec) by (apply Forall_app in LNall; apply LNall).
  (* offsets *)
  set (o1 := 0 + llen rsec) in *.
  set (o2 := llen (rsec ++ concat rlv)) in *.
  set (o3 := o2 + llen osec) in *.
  set (o4 := llen cs0) in *.
  set (o5 := o4 + llen lsec) in *.
  assert (LLF : llen fcs = llen rsec + llen (concat rlv) + llen osec + llen (concat olv) + llen lsec + llen (concat llv)).
  { rewrite EF, !llen_app. lia. }
  assert (O2 : o2 = o1 + llen (concat rlv)) by (unfold o2, o1; rewrite llen_app; lia).
  assert (O4 : o4 = o3 + llen (concat olv)) by (unfold o4, o3, o2; rewrite E1, !llen_app; lia).
  (* emptiness relations *)
  assert (CR : rsec = [] -> rlv = []).
  { intros ->. eapply lchain_nil_sec; [exact LC1|exact NErl]. }
  assert (CO : osec = [] -> olv = []).
  { intros ->. eapply lchain_nil_sec; [exact LC2|exact NEol]. }
  (* the sections are good *)
  assert (GRr : rgood c typ_ref (E rsec)) by (rewrite RR; split; assumption).
  assert (GLl : rgood c typ_log (E lsec)) by (rewrite RLg; exact GL).
  (* the object section *)
  destruct (posrecs_bounds rsec 0 LNr) as (PS & PB & PC).
  assert (REFOK : Forall (fun b => Forall (fun r => match r with RecRef x => ref_ok (hash_size c) x | _ => False end) (snd b))
                         (posrecs 0 rsec)).
  { assert (G0 : Forall (fun r => match r with RecRef x => ref_ok (hash_size c) x | _ => False end) (E rsec)).
    { rewrite RR. eapply Forall_impl; [|exact GR]. cbv beta. intros r [T [_ OK]].
      destruct r; try discriminate. exact OK. }
    clear - G0. generalize (0 : N). induction rsec as [|k t IH]; intros o; [constructor|].
    rewrite E_cons in G0. apply Forall_app in G0. destruct G0 as [G1 G2].
    cbn [posrecs]. constructor; [exact G1|apply IH; exact G2]. }
  assert (OBJS : osec <> [] -> sorted_recs (E osec) /\ cobjs idlen (posrecs 0 rsec) (E osec) = true /\
                               Forall (fun r => rec_typ r = typ_obj /\ rec_ok (hash_size c) r) (E osec)).
  { intros NO. destruct (OBJ NO) as (IDL & OF2).
    destruct (objs_check (hash_size c) (posrecs 0 rsec) (E osec) idlen HSP PS REFOK IDL OF2) as (A1 & A2 & _).
    split; [exact A1|]. split; [exact A2|].
    apply (obj_recs_ok (hash_size c) (posrecs 0 rsec) (E osec) idlen (0 + llen rsec) PS); try assumption.
    - eapply Forall_impl; [|exact PB]. cbv beta. intros; lia.
    - lia.
    - lia. }
  assert (GOo : rgood c typ_obj (E osec)).
  { destruct osec as [|ko to]; [split; constructor|].
    destruct (OBJS ltac:(discriminate)) as (A1 & _ & A3). split; assumption. }
  (* every chunk is in the domain of the block codec *)
  assert (STR : Forall (strong c) fcs).
  { rewrite EF. repeat (apply Forall_app; split).
    - eapply typ_strong. apply (strong_of_concat c typ_ref rsec TR); apply GRr.
    - eapply good_strong. apply (levels_good c rlv 0 rsec typ_ref LC1); [apply Forall_app; split; assumption|exact GRr|lia].
    - eapply typ_strong. apply (strong_of_concat c typ_obj osec TO); apply GOo.
    - eapply good_strong. apply (levels_good c olv o2 osec typ_obj LC2); [apply Forall_app; split; assumption|exact GOo|lia].
    - eapply typ_strong. apply (strong_of_concat c typ_log lsec TL); apply GLl.
    - eapply good_strong. apply (levels_good c llv o4 lsec typ_log LC3); [apply Forall_app; split; assumption|exact GLl|lia]. }
  exact STR.
Qed.

Section TopPad.
  Variable deflate : bytes -> bytes.
  Variable inflate : bytes -> inflate_result.
  Hypothesis Hz : zlib_ok deflate inflate.

  Lemma footer_st_length : forall c mn mx st1 st2,
    length (footer_st c mn mx st1 ++ be32 (crc32 (footer_st c mn mx st1))) =
    length (footer_st c mn mx st2 ++ be32 (crc32 (footer_st c mn mx st2))).
  Proof.
    intros. unfold footer_st, footer_of, be32, be64. rewrite !app_length, !be_bytes_length. reflexivity.
  Qed.

  (* C14, padded tables, for every file the format can describe (sizes below 2^64) *)
  Theorem table_padded_two64 : forall cfg min max refs logs data,
    c_unaligned cfg = false ->
    cfg_ok cfg -> max < two64 -> min <= max -> refs_ok cfg min max refs -> logs_ok cfg logs ->
    N.of_nat (length data) < two64 ->
    write_table deflate cfg min max refs logs = Ok (false, data) ->
    spec_aligned (sinfl_of inflate) data = inr true.
  Proof.
    intros cfg min max refs logs data Hun C Hmax Hmm R L Hsz H.
    destruct (written_strong deflate cfg min max refs logs data C Hmax Hmm R L Hsz H)
      as (gcs & st0 & D0 & CH0 & LP0 & STR).
    destruct C as [CB1 CB2].
    set (c := cfg_defaults cfg) in *.
    assert (HBS : 64 <= c_block_size c < 16777216).
    { unfold c, cfg_defaults. cbn [c_block_size]. destruct (N.eqb_spec (c_block_size cfg) 0); lia. }
    (* the judge's parse succeeds *)
    pose proof (parse_blocks_all deflate inflate Hz c min max HBS gcs _ data CH0 LP0 D0 STR) as PB.
    (* the chunk list with the padding made explicit *)
    destruct (written_padded deflate cfg min max refs logs data Hun H) as (fcs & st1 & D & NE & CH & LP & AP).
    fold c in D, CH, AP.
    assert (LL : llen gcs = llen fcs).
    { pose proof (f_equal (@length N) D0) as E0. rewrite D in E0 at 1.
      rewrite !(app_length (layout _)) in E0. rewrite (footer_st_length c min max st1 st0) in E0.
      unfold llen. lia. }
    rewrite LL in PB.
    destruct fcs as [|k0 rest0]; [congruence|].
    destruct (layout_head _ _ _ _ _ _ CH) as (body & LH).
    set (fcs := k0 :: rest0) in *.
    set (ri := ts_index_offset (w_ref st1)) in *.
    set (oo := (ts_offset (w_objs st1) * 32 + N.of_nat (w_idlen st1)) mod two64) in *.
    set (oi := ts_index_offset (w_objs st1)) in *.
    set (lo := ts_offset (w_log st1)) in *. set (li := ts_index_offset (w_log st1)) in *.
    assert (D' : data = layout fcs ++ footer_of c min max ri oo oi lo li ++
                        be32 (crc32 (footer_of c min max ri oo oi lo li))) by exact D.
    pose proof (spec_aligned_open (sinfl_of inflate) c min max (ck_typ k0) body ri oo oi lo li
                  ltac:(lia)) as OPA.
    cbv zeta in OPA. rewrite <- LH in OPA. rewrite <- D' in OPA.
    rewrite OPA. fold (llen fcs). rewrite PB. cbn [sbind].
    rewrite (parse_blocks_aligned deflate inflate Hz c min max HBS fcs _ data _ CH LP D' PB).
    rewrite AP. reflexivity.
  Qed.

  (* the statement with the size bound of table_wellformed *)
  Theorem table_padded : forall cfg min max refs logs data,
    c_unaligned cfg = false ->
    cfg_ok cfg -> max < two64 -> min <= max -> refs_ok cfg min max refs -> logs_ok cfg logs ->
    N.of_nat (length data) < 2 ^ 59 ->
    write_table deflate cfg min max refs logs = Ok (false, data) ->
    spec_aligned (sinfl_of inflate) data = inr true.
  Proof.
    intros cfg min max refs logs data Hun C Hmax Hmm R L Hsz H.
    change (2 ^ 59) with 576460752303423488 in Hsz.
    apply (table_padded_two64 cfg min max refs logs data Hun C Hmax Hmm R L); try assumption.
    unfold two64. lia.
  Qed.
End TopPad.

(* the hypothesis on the codec is satisfiable: the stored stand-in of BlockProofs *)
Definition table_padded_stored := table_padded sdeflate sinflate sdeflate_ok.
Definition table_padded_two64_stored := table_padded_two64 sdeflate sinflate sdeflate_ok.

(* ------------------------------------------------------------------ *)
(* by computation on concrete tables (stored codec) *)

Definition a_check (c : config) (nr nl : nat) : option (spec_err + bool) :=
  match write_table sdeflate c 5 7 (t_refs nr) (t_logs nl) with
  | Ok (false, data) => Some (spec_aligned (sinfl_of sinflate) data)
  | _ => None
  end.

(* padded, 128-byte blocks: ref blocks with an index, object blocks with an index,
   log blocks with an index (the table of s_check_aligned: 38 blocks) *)
Example a_check_padded : a_check (t_cfg false 128 false) 30 30 = Some (inr true).
Proof. vm_compute. reflexivity. Qed.
Example a_check_padded_levels : a_check (t_cfg false 64 false) 40 0 = Some (inr true).
Proof. vm_compute. reflexivity. Qed.
(* the judgement is not constantly true: the same records written without padding *)
Example a_check_unpadded : a_check (t_cfg true 128 false) 30 30 = Some (inr false).
Proof. vm_compute. reflexivity. Qed.
Example a_check_unpadded_refs : a_check (t_cfg true 100 true) 30 0 = Some (inr false).
Proof. vm_compute. reflexivity. Qed.

Print Assumptions table_padded_two64.
Print Assumptions table_padded.
Print Assumptions table_padded_stored.
