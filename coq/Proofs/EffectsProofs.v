From Coq Require Import List Arith Bool Lia.
From RT Require Import Model.Effects.
Import ListNotations.

Section P.
  Variable shared priv : Type.
  Notation thread := (thread shared priv).

  Lemma nth_error_update_eq : forall {A} (l : list A) i x, i < length l -> nth_error (update i x l) i = Some x.
  Proof.
    induction l as [|y l IH]; intros i x H; cbn in H; [lia|].
    destruct i; cbn; [reflexivity|]. apply IH. lia.
  Qed.

  Lemma nth_error_update_neq : forall {A} (l : list A) i j x, i <> j -> nth_error (update i x l) j = nth_error l j.
  Proof.
    induction l as [|y l IH]; intros i j x H; [destruct i; reflexivity|].
    destruct i, j; cbn; try reflexivity; try congruence. apply IH. congruence.
  Qed.

  Lemma length_update : forall {A} (l : list A) i x, length (update i x l) = length l.
  Proof. induction l as [|y l IH]; intros i x; [destruct i; reflexivity|]. destruct i; cbn; [reflexivity|]. rewrite IH. reflexivity. Qed.

  Lemma run_alone_snoc : forall (t : thread) s p n,
    run_alone t s p (S n) = match t_step t s (run_alone t s p n) with Some p' => p' | None => run_alone t s p n end.
  Proof.
    intros t s p n. revert p. induction n as [|n IH]; intros p.
    - cbn. destruct (t_step t s p); reflexivity.
    - change (run_alone t s p (S (S n))) with (match t_step t s p with Some p' => run_alone t s p' (S n) | None => p end).
      destruct (t_step t s p) as [p'|] eqn:E.
      + rewrite IH. cbn [run_alone]. rewrite E. reflexivity.
      + cbn [run_alone]. rewrite E. rewrite E. reflexivity.
  Qed.

  (* no thread writes the shared state => the shared state never changes, and
     every goroutine ends exactly where it ends when run alone for as many
     steps as the schedule gave it *)
  Theorem read_only_interleaving : forall (ts : list thread) s ps0 sched,
    Forall read_only ts -> length ps0 = length ts ->
    forall ps acc,
      (* acc i = steps goroutine i has already taken; ps = their current states *)
      (forall i t p0, nth_error ts i = Some t -> nth_error ps0 i = Some p0 ->
                      nth_error ps i = Some (run_alone t s p0 (acc i))) ->
      length ps = length ts ->
      let '(s', ps') := run_pool ts s ps sched in
      s' = s /\
      forall i t p0, nth_error ts i = Some t -> nth_error ps0 i = Some p0 ->
                     nth_error ps' i = Some (run_alone t s p0 (acc i + count i sched)).
  Proof.
    intros ts s ps0 sched Hro Hlen0. induction sched as [|j rest IH]; intros ps acc Hinv Hlen.
    - cbn. split; [reflexivity|]. intros i t p0 Ht Hp. rewrite Nat.add_0_r. apply Hinv; assumption.
    - cbn [run_pool]. unfold step_pool.
      destruct (nth_error ts j) as [tj|] eqn:Etj.
      + assert (Hj : j < length ts) by (apply nth_error_Some; congruence).
        destruct (nth_error ps0 j) as [p0j|] eqn:Ep0; [|apply nth_error_None in Ep0; lia].
        rewrite (Hinv j tj p0j Etj Ep0).
        assert (Hw : forall p, t_write tj s p = s).
        { rewrite Forall_forall in Hro. intros p. apply (Hro tj). eapply nth_error_In; eassumption. }
        destruct (t_step tj s (run_alone tj s p0j (acc j))) as [p'|] eqn:Est.
        * rewrite Hw.
          specialize (IH (update j p' ps) (fun i => if Nat.eqb i j then S (acc j) else acc i)).
          cbv beta in IH.
          destruct (run_pool ts s (update j p' ps) rest) as [s' ps'] eqn:Er.
          destruct IH as [Hs Hps].
          { intros i t p0 Ht Hp. destruct (Nat.eqb_spec i j) as [->|Hne].
            - rewrite nth_error_update_eq by lia.
              assert (t = tj) by congruence. assert (p0 = p0j) by congruence. subst.
              rewrite run_alone_snoc, Est. reflexivity.
            - rewrite nth_error_update_neq by congruence. apply Hinv; assumption. }
          { rewrite length_update. exact Hlen. }
          split; [exact Hs|]. intros i t p0 Ht Hp. rewrite (Hps i t p0 Ht Hp).
          unfold count. cbn [filter]. destruct (Nat.eqb_spec i j) as [->|Hne]; cbn [length]; cbv iota.
          -- do 2 f_equal. lia.
          -- reflexivity.
        * (* the goroutine had finished: nothing changes, and running it alone one step more changes nothing either *)
          specialize (IH ps (fun i => if Nat.eqb i j then S (acc j) else acc i)).
          cbv beta in IH.
          destruct (run_pool ts s ps rest) as [s' ps'] eqn:Er.
          destruct IH as [Hs Hps].
          { intros i t p0 Ht Hp. destruct (Nat.eqb_spec i j) as [->|Hne].
            - assert (t = tj) by congruence. assert (p0 = p0j) by congruence. subst.
              rewrite run_alone_snoc, Est. apply Hinv; assumption.
            - apply Hinv; assumption. }
          { exact Hlen. }
          split; [exact Hs|]. intros i t p0 Ht Hp. rewrite (Hps i t p0 Ht Hp).
          unfold count. cbn [filter]. destruct (Nat.eqb_spec i j) as [->|Hne]; cbn [length]; cbv iota.
          -- do 2 f_equal. lia.
          -- reflexivity.
      + (* no such goroutine *)
        specialize (IH ps acc Hinv Hlen).
        destruct (run_pool ts s ps rest) as [s' ps'] eqn:Er.
        destruct IH as [Hs Hps]. split; [exact Hs|]. intros i t p0 Ht Hp. rewrite (Hps i t p0 Ht Hp).
        unfold count. cbn [filter]. destruct (Nat.eqb_spec i j) as [->|Hne]; cbn [length]; cbv iota.
        * congruence.
        * reflexivity.
  Qed.
End P.
