(* Facts about the independent spec decoder (the judge of C14). *)
From Coq Require Import List NArith Arith Bool Lia.
From RT Require Import Model.Bytes Model.Records Model.RecCodec Model.SpecDecoder Model.Crc32.
Import ListNotations.
Local Open Scope N_scope.

Lemma bytes_eqb_magic : forall l, bytes_eqb l [82; 69; 70; 84] = true -> l = [82; 69; 70; 84].
Proof.
  intros l. destruct l as [|a [|b [|c [|d [|e l]]]]]; cbn [bytes_eqb]; intros H;
    try discriminate;
    repeat (apply andb_true_iff in H; destruct H as [?H H]);
    try discriminate;
    repeat match goal with E : (_ =? _) = true |- _ => apply N.eqb_eq in E; subst end; reflexivity.
Qed.

Lemma spec_decode_envelope : forall inflate data t,
  spec_decode inflate data = inr t ->
  firstn 4 data = [82; 69; 70; 84] /\ (sp_version t = 1 \/ sp_version t = 2) /\ (92 <= length data)%nat.
Proof.
  intros inflate data t H. unfold spec_decode in H.
  destruct (Nat.ltb (length data) 92) eqn:E0; [discriminate|].
  destruct (bytes_eqb (firstn 4 data) [82; 69; 70; 84]) eqn:E1; cbn [negb] in H; [|discriminate].
  destruct ((nth 4 data 0 =? 1) || (nth 4 data 0 =? 2)) eqn:E2; cbn [negb] in H; [|discriminate].
  assert (Hv : nth 4 data 0 = 1 \/ nth 4 data 0 = 2).
  { apply orb_true_iff in E2. destruct E2 as [E|E]; apply N.eqb_eq in E; auto. }
  split; [apply bytes_eqb_magic; exact E1|]. split; [|apply Nat.ltb_ge in E0; exact E0].
  set (version := nth 4 data 0) in *.
  assert (Hgen : forall t', sp_version t' = version -> sp_version t' = 1 \/ sp_version t' = 2)
    by (intros t' ->; exact Hv).
  apply Hgen. clear Hgen Hv E2 E1 E0.
  repeat match type of H with
  | (if ?c then _ else _) = _ => destruct c; try discriminate
  | (let '(_, _) := ?x in _) = _ => destruct x
  | match ?x with _ => _ end = _ => destruct x; try discriminate
  | sbind ?x _ = _ => destruct x; cbn [sbind] in H; try discriminate
  end; inversion H; reflexivity.
Qed.
