(* Proofs about Model/Refname.v: the name validator accepts exactly the
   transactions whose resulting view is conflict-free. *)
From Coq Require Import List NArith Arith Bool Sorting.Sorted Lia.
From RT Require Import Model.Bytes Model.Refname.
Import ListNotations.
Local Open Scope N_scope.

(* ---------- bytes: equality, order, prefix ---------- *)

Lemma bytes_eqb_eq : forall a b, bytes_eqb a b = true <-> a = b.
Proof.
  induction a as [|x a IH]; intros [|y b]; simpl; split; intro H;
    try congruence; try discriminate.
  - apply andb_true_iff in H as [H1 H2]. apply N.eqb_eq in H1.
    apply IH in H2. congruence.
  - injection H as -> ->. rewrite N.eqb_refl. simpl. apply IH. reflexivity.
Qed.

Lemma bytes_eqb_refl : forall a, bytes_eqb a a = true.
Proof. intro a. apply bytes_eqb_eq. reflexivity. Qed.

Lemma bytes_eqb_neq : forall a b, bytes_eqb a b = false <-> a <> b.
Proof.
  intros a b. split.
  - intros H E. apply bytes_eqb_eq in E. congruence.
  - intro H. destruct (bytes_eqb a b) eqn:E; auto. apply bytes_eqb_eq in E. tauto.
Qed.

Lemma bytes_eq_dec : forall a b : bytes, {a = b} + {a <> b}.
Proof. intros a b. apply (list_eq_dec N.eq_dec). Qed.

Lemma bytes_ltb_irrefl : forall a, bytes_ltb a a = false.
Proof. induction a as [|x a IH]; simpl; auto. rewrite N.ltb_irrefl. auto. Qed.

Lemma bytes_ltb_trans : forall a b c,
  bytes_ltb a b = true -> bytes_ltb b c = true -> bytes_ltb a c = true.
Proof.
  induction a as [|x a IH]; intros [|y b] [|z c]; simpl; try congruence; auto.
  intros H1 H2.
  destruct (N.ltb_spec x y), (N.ltb_spec y x), (N.ltb_spec y z), (N.ltb_spec z y),
    (N.ltb_spec x z), (N.ltb_spec z x); try lia; try congruence; eauto.
Qed.

Lemma bytes_ltb_total : forall a b,
  bytes_ltb a b = false -> bytes_ltb b a = false -> a = b.
Proof.
  induction a as [|x a IH]; intros [|y b]; simpl; try congruence.
  destruct (N.ltb_spec x y), (N.ltb_spec y x); try congruence; try lia.
  intros H1 H2. f_equal; [lia | apply IH; auto].
Qed.

Lemma bytes_ltb_asym : forall a b, bytes_ltb a b = true -> bytes_ltb b a = false.
Proof.
  intros a b H. destruct (bytes_ltb b a) eqn:E; auto.
  pose proof (bytes_ltb_trans _ _ _ H E) as T. rewrite bytes_ltb_irrefl in T. discriminate.
Qed.

Lemma bytes_ltb_neq : forall a b, bytes_ltb a b = true -> a <> b.
Proof. intros a b H ->. rewrite bytes_ltb_irrefl in H. discriminate. Qed.

(* a <= b < c -> a < c, with a <= b stated as ~ b < a *)
Lemma bytes_le_lt_trans : forall a b c,
  bytes_ltb b a = false -> bytes_ltb b c = true -> bytes_ltb a c = true.
Proof.
  intros a b c H1 H2. destruct (bytes_ltb a b) eqn:E.
  - eapply bytes_ltb_trans; eauto.
  - rewrite (bytes_ltb_total _ _ E H1). exact H2.
Qed.

Lemma bytes_lt_le_trans : forall a b c,
  bytes_ltb a b = true -> bytes_ltb c b = false -> bytes_ltb a c = true.
Proof.
  intros a b c H1 H2. destruct (bytes_ltb b c) eqn:E.
  - eapply bytes_ltb_trans; eauto.
  - rewrite <- (bytes_ltb_total _ _ E H2). exact H1.
Qed.

Lemma is_prefix_spec : forall p s, is_prefix p s = true <-> exists r, s = p ++ r.
Proof.
  induction p as [|x p IH]; intros s; simpl.
  - split; eauto.
  - destruct s as [|y s].
    + split; [discriminate | intros [r Hr]; discriminate].
    + rewrite andb_true_iff, N.eqb_eq, IH. split.
      * intros [-> [r ->]]. eauto.
      * intros [r Hr]. injection Hr as -> ->. eauto.
Qed.

Lemma is_prefix_app : forall p r, is_prefix p (p ++ r) = true.
Proof. intros. apply is_prefix_spec. eauto. Qed.

Lemma is_prefix_not_lt : forall p s, is_prefix p s = true -> bytes_ltb s p = false.
Proof.
  induction p as [|x p IH]; intros [|y s]; simpl; auto; try discriminate.
  intro H. apply andb_true_iff in H as [H1 H2]. apply N.eqb_eq in H1. subst.
  rewrite N.ltb_irrefl. auto.
Qed.

(* the strings with prefix p form an interval starting at p *)
Lemma is_prefix_interval : forall p x y,
  bytes_ltb x p = false -> bytes_ltb x y = true -> is_prefix p y = true ->
  is_prefix p x = true.
Proof.
  induction p as [|c p IH]; intros x y Hxp Hxy Hpy; simpl; auto.
  destruct y as [|d y]; simpl in Hpy; [discriminate|].
  apply andb_true_iff in Hpy as [H1 H2]. apply N.eqb_eq in H1. subst d.
  destruct x as [|e x]; simpl in *; [discriminate|].
  destruct (N.ltb_spec e c), (N.ltb_spec c e); try discriminate; try lia.
  assert (e = c) by lia. subst e. rewrite N.eqb_refl. simpl. eapply IH; eauto.
Qed.

(* ---------- ascending lists ---------- *)

Definition asc (l : list bytes) : Prop := StronglySorted (fun a b => bytes_ltb a b = true) l.
Definition tx_ok (t : tx) : Prop := asc (map fst t) /\ Forall (fun p => fst p <> []) t.

Lemma asc_inv : forall a l, asc (a :: l) ->
  asc l /\ forall b, In b l -> bytes_ltb a b = true.
Proof.
  intros a l H. apply StronglySorted_inv in H as [H1 H2]. split; auto.
  rewrite Forall_forall in H2. exact H2.
Qed.

Lemma asc_cons : forall a l, asc l -> (forall b, In b l -> bytes_ltb a b = true) -> asc (a :: l).
Proof. intros a l H1 H2. constructor; auto. apply Forall_forall. exact H2. Qed.

Lemma asc_nil : asc [].
Proof. constructor. Qed.

Lemma asc_NoDup : forall l, asc l -> NoDup l.
Proof.
  induction l as [|a l IH]; intro H; constructor.
  - apply asc_inv in H as [_ H]. intro Hin. apply H in Hin.
    rewrite bytes_ltb_irrefl in Hin. discriminate.
  - apply IH. apply asc_inv in H. tauto.
Qed.

Lemma asc_filter : forall f l, asc l -> asc (filter f l).
Proof.
  induction l as [|a l IH]; simpl; intro H; auto.
  apply asc_inv in H as [H1 H2]. destruct (f a); auto.
  apply asc_cons; auto. intros b Hb. apply filter_In in Hb. apply H2. tauto.
Qed.

Lemma asc_map_filter : forall (f : bytes * bool -> bool) t,
  asc (map fst t) -> asc (map fst (filter f t)).
Proof.
  induction t as [|p t IH]; simpl; intro H; auto.
  apply asc_inv in H as [H1 H2]. destruct (f p); simpl; auto.
  apply asc_cons; auto. intros b Hb. apply H2.
  apply in_map_iff in Hb as [q [Hq1 Hq2]]. apply filter_In in Hq2.
  apply in_map_iff. exists q. tauto.
Qed.

(* ---------- mem, seek_names ---------- *)

Lemma mem_spec : forall x l, mem x l = true <-> In x l.
Proof.
  intros x l. unfold mem. rewrite existsb_exists. split.
  - intros [y [H1 H2]]. apply bytes_eqb_eq in H2. subst. auto.
  - intro H. exists x. split; auto. apply bytes_eqb_refl.
Qed.

Lemma mem_false : forall x l, mem x l = false <-> ~ In x l.
Proof.
  intros x l. rewrite <- mem_spec. destruct (mem x l); split; intro; congruence.
Qed.

Lemma seek_names_In : forall x l y, asc l ->
  (In y (seek_names x l) <-> In y l /\ bytes_ltb y x = false).
Proof.
  induction l as [|a l IH]; intros y H; simpl.
  - tauto.
  - apply asc_inv in H as [H1 H2]. destruct (bytes_ltb a x) eqn:E.
    + rewrite IH by auto. split.
      * tauto.
      * intros [[->|Hy] Hlt]; [congruence|tauto].
    + simpl. split.
      * intros [->|Hy]; [tauto|]. split; auto.
        destruct (bytes_ltb y x) eqn:E2; auto.
        pose proof (bytes_ltb_trans _ _ _ (H2 _ Hy) E2). congruence.
      * tauto.
Qed.

Lemma seek_names_asc : forall x l, asc l -> asc (seek_names x l).
Proof.
  induction l as [|a l IH]; simpl; intro H; auto.
  destruct (bytes_ltb a x); auto. apply IH. apply asc_inv in H. tauto.
Qed.

Lemma seek_names_head : forall x l, asc l ->
  match seek_names x l with r :: _ => bytes_eqb r x | [] => false end = mem x l.
Proof.
  induction l as [|a l IH]; simpl; intro H; auto.
  apply asc_inv in H as [H1 H2]. destruct (bytes_ltb a x) eqn:E.
  - rewrite IH by auto.
    assert (bytes_eqb x a = false) as ->; auto.
    apply bytes_eqb_neq. intros ->. rewrite bytes_ltb_irrefl in E. discriminate.
  - destruct (bytes_eqb a x) eqn:E2.
    + apply bytes_eqb_eq in E2. subst. rewrite bytes_eqb_refl. auto.
    + assert (bytes_eqb x a = false) as ->.
      { apply bytes_eqb_neq. apply bytes_eqb_neq in E2. congruence. }
      simpl. symmetry. apply mem_false. intro Hin.
      pose proof (H2 _ Hin) as Hax. apply bytes_ltb_asym in Hax.
      apply bytes_eqb_neq in E2. apply E2. apply bytes_ltb_total; auto.
Qed.

(* ---------- has_ref ---------- *)

Lemma has_ref_spec : forall view adds dels x, asc view ->
  (has_ref view adds dels x = true <-> In x adds \/ (~ In x dels /\ In x view)).
Proof.
  intros view adds dels x H. unfold has_ref.
  destruct (mem x adds) eqn:Ea.
  - apply mem_spec in Ea. tauto.
  - apply mem_false in Ea. destruct (mem x dels) eqn:Ed.
    + apply mem_spec in Ed. split; [discriminate|tauto].
    + apply mem_false in Ed. rewrite seek_names_head by auto. rewrite mem_spec. tauto.
Qed.

(* ---------- has_ref_with_prefix ---------- *)

Definition first_pref (dels : list bytes) (p : bytes) (l : list bytes) : bool :=
  match first_undeleted dels l with Some r => is_prefix p r | None => false end.

Lemma first_pref_spec : forall dels p l, asc l ->
  (forall y, In y l -> bytes_ltb y p = false) ->
  (first_pref dels p l = true <->
   exists n, In n l /\ ~ In n dels /\ is_prefix p n = true).
Proof.
  unfold first_pref. induction l as [|r l IH]; simpl; intros H Hge.
  - split; [discriminate|]. intros [n [[] _]].
  - apply asc_inv in H as [H1 H2]. destruct (mem r dels) eqn:E.
    + apply mem_spec in E. rewrite IH by auto. split.
      * intros [n [Hn1 Hn2]]. exists n. tauto.
      * intros [n [[->|Hn1] Hn2]]; [tauto|]. exists n. tauto.
    + apply mem_false in E. split.
      * intro Hp. exists r. tauto.
      * intros [n [[->|Hn1] [Hn2 Hn3]]]; auto.
        eapply is_prefix_interval; eauto.
Qed.

Lemma has_ref_with_prefix_unfold : forall view adds dels p,
  has_ref_with_prefix view adds dels p =
  first_pref [] p (seek_names p adds) || first_pref dels p (seek_names p view).
Proof.
  intros. unfold has_ref_with_prefix, first_pref.
  destruct (seek_names p adds) as [|a l]; simpl; auto.
Qed.

Lemma seek_pref_spec : forall dels p l, asc l ->
  (first_pref dels p (seek_names p l) = true <->
   exists n, In n l /\ ~ In n dels /\ is_prefix p n = true).
Proof.
  intros dels p l H. rewrite first_pref_spec.
  - split; intros [n [H1 H2]]; exists n.
    + apply seek_names_In in H1; tauto.
    + rewrite seek_names_In by auto. split; [|tauto]. split; [tauto|].
      apply is_prefix_not_lt. tauto.
  - apply seek_names_asc; auto.
  - intros y Hy. apply seek_names_In in Hy; tauto.
Qed.

Lemma has_ref_with_prefix_spec : forall view adds dels p, asc view -> asc adds ->
  (has_ref_with_prefix view adds dels p = true <->
   exists n, (In n adds \/ (~ In n dels /\ In n view)) /\ is_prefix p n = true).
Proof.
  intros view adds dels p Hv Ha.
  rewrite has_ref_with_prefix_unfold, orb_true_iff, !seek_pref_spec by auto.
  split.
  - intros [[n Hn]|[n Hn]]; exists n; tauto.
  - intros [n [[Hn|Hn] Hp]]; [left|right]; exists n; simpl; tauto.
Qed.

(* ---------- dir_of and parents_free ---------- *)

Lemma dir_of_aux_none : forall s, dir_of_aux s = None -> ~ In slash s.
Proof.
  induction s as [|c s IH]; simpl; auto.
  destruct (dir_of_aux s); [discriminate|].
  destruct (N.eqb_spec c slash); [discriminate|]. intros _ [Hc|Hc]; auto.
  apply IH; auto.
Qed.

Lemma dir_of_aux_some : forall s d, dir_of_aux s = Some d ->
  exists r, s = d ++ slash :: r /\ ~ In slash r.
Proof.
  induction s as [|c s IH]; simpl; intros d H; [discriminate|].
  destruct (dir_of_aux s) as [d'|] eqn:E.
  - injection H as <-. destruct (IH _ eq_refl) as [r [-> Hr]]. exists r. auto.
  - destruct (N.eqb_spec c slash); [|discriminate]. injection H as <-. subst c.
    exists s. split; auto. apply dir_of_aux_none; auto.
Qed.

Lemma split_at_slash : forall d' d r r',
  d ++ slash :: r = d' ++ slash :: r' -> ~ In slash r ->
  d' = d \/ exists q, d = d' ++ slash :: q.
Proof.
  induction d' as [|c d' IH]; intros d r r' H Hr.
  - destruct d as [|c d]; auto. simpl in H. injection H as -> _. right. exists d. auto.
  - destruct d as [|c2 d]; simpl in H.
    + injection H as <- ->. exfalso. apply Hr. apply in_or_app. right. left. auto.
    + injection H as -> H. destruct (IH _ _ _ H Hr) as [->|[q ->]]; auto.
      right. exists q. auto.
Qed.

Section ParentsFree.
  Variables view adds dels : list bytes.
  Hypothesis no_empty : has_ref view adds dels [] = false.

  Lemma parents_free_nil : forall fuel, parents_free fuel view adds dels [] = true.
  Proof. destruct fuel; auto. Qed.

  Lemma parents_free_spec : forall fuel a, (length a < fuel)%nat ->
    (parents_free fuel view adds dels a = true <->
     forall d, is_prefix (d ++ [slash]) a = true -> has_ref view adds dels d = false).
  Proof.
    induction fuel as [|f IH]; intros a Hlen; [lia|].
    destruct a as [|c a].
    - simpl. split; auto. intros _ d Hd. destruct d; discriminate.
    - remember (c :: a) as s eqn:Hs.
      assert (parents_free (S f) view adds dels s =
              if has_ref view adds dels (dir_of s) then false
              else parents_free f view adds dels (dir_of s)) as ->.
      { subst s. reflexivity. }
      unfold dir_of. destruct (dir_of_aux s) as [d|] eqn:E.
      + destruct (dir_of_aux_some _ _ E) as [r [Hsr Hr]].
        assert (length d < f)%nat as Hd.
        { rewrite Hsr in Hlen. rewrite app_length in Hlen. simpl in Hlen. lia. }
        destruct (has_ref view adds dels d) eqn:Eh.
        * split; [discriminate|]. intro H. rewrite H in Eh; [discriminate|].
          apply is_prefix_spec. exists r. rewrite Hsr, <- app_assoc. reflexivity.
        * rewrite IH by auto. split.
          -- intros H d' Hd'. apply is_prefix_spec in Hd' as [r' Hr'].
             rewrite <- app_assoc in Hr'. simpl in Hr'. rewrite Hsr in Hr'.
             destruct (split_at_slash _ _ _ _ Hr' Hr) as [->|[q ->]]; auto.
             apply H. apply is_prefix_spec. exists q. rewrite <- app_assoc. reflexivity.
          -- intros H d' Hd'. apply H. apply is_prefix_spec in Hd' as [q ->].
             apply is_prefix_spec. exists (q ++ slash :: r). rewrite Hsr.
             rewrite <- !app_assoc. reflexivity.
      + rewrite no_empty, parents_free_nil. split; auto. intros _ d Hd.
        apply dir_of_aux_none in E. exfalso. apply E.
        apply is_prefix_spec in Hd as [r ->]. apply in_or_app. left.
        apply in_or_app. right. left. auto.
  Qed.
End ParentsFree.

(* ---------- apply_tx: membership and order ---------- *)

Lemma remove_name_In : forall x l y, In y (remove_name x l) <-> In y l /\ y <> x.
Proof.
  intros. unfold remove_name. rewrite filter_In, negb_true_iff, bytes_eqb_neq. tauto.
Qed.

Lemma insert_name_In : forall x l y, In y (insert_name x l) <-> y = x \/ In y l.
Proof.
  induction l as [|a l IH]; intros y; simpl.
  - intuition.
  - destruct (bytes_ltb x a).
    + simpl. intuition.
    + destruct (bytes_eqb x a) eqn:E.
      * apply bytes_eqb_eq in E. subst. simpl. intuition.
      * simpl. rewrite IH. intuition.
Qed.

Lemma remove_name_asc : forall x l, asc l -> asc (remove_name x l).
Proof. intros. apply asc_filter. auto. Qed.

Lemma insert_name_asc : forall x l, asc l -> asc (insert_name x l).
Proof.
  induction l as [|a l IH]; simpl; intro H.
  - apply asc_cons; auto.
  - pose proof H as H0. apply asc_inv in H as [H1 H2]. destruct (bytes_ltb x a) eqn:E.
    + apply asc_cons; auto. intros b [<-|Hb]; auto.
      eapply bytes_ltb_trans; eauto.
    + destruct (bytes_eqb x a) eqn:E2; auto.
      apply asc_cons; auto. intros b Hb. apply insert_name_In in Hb as [->|Hb]; auto.
      destruct (bytes_ltb a x) eqn:E3; auto.
      apply bytes_eqb_neq in E2. exfalso. apply E2. apply bytes_ltb_total; auto.
Qed.

Definition tx_step (v : list bytes) (p : bytes * bool) : list bytes :=
  if (snd p : bool) then remove_name (fst p) v else insert_name (fst p) (remove_name (fst p) v).

Lemma apply_tx_cons : forall view p t, apply_tx view (p :: t) = apply_tx (tx_step view p) t.
Proof. reflexivity. Qed.

Lemma tx_step_asc : forall v p, asc v -> asc (tx_step v p).
Proof.
  intros v [n [|]] H; unfold tx_step; simpl.
  - apply remove_name_asc; auto.
  - apply insert_name_asc, remove_name_asc; auto.
Qed.

Lemma apply_tx_asc_gen : forall t view, asc view -> asc (apply_tx view t).
Proof.
  induction t as [|p t IH]; intros view H; auto.
  rewrite apply_tx_cons. apply IH. apply tx_step_asc; auto.
Qed.

Lemma apply_tx_In : forall t view x, NoDup (map fst t) ->
  (In x (apply_tx view t) <-> In x (tx_adds t) \/ (In x view /\ ~ In x (map fst t))).
Proof.
  induction t as [|[n d] t IH]; intros view x Hnd.
  - simpl. tauto.
  - rewrite apply_tx_cons. simpl in Hnd. inversion Hnd as [|? ? Hn Hnd']; subst.
    rewrite IH by auto. unfold tx_step, tx_adds. simpl. destruct d; simpl.
    + rewrite remove_name_In. fold (tx_adds t).
      destruct (bytes_eq_dec x n); intuition congruence.
    + rewrite insert_name_In, remove_name_In. fold (tx_adds t).
      destruct (bytes_eq_dec x n).
      * subst. intuition.
      * intuition congruence.
Qed.

Lemma tx_names_split : forall t x, In x (map fst t) <-> In x (tx_adds t) \/ In x (tx_dels t).
Proof.
  induction t as [|[n d] t IH]; intros x; unfold tx_adds, tx_dels in *; simpl.
  - tauto.
  - rewrite IH. destruct d; simpl; tauto.
Qed.

Lemma tx_adds_dels_disjoint : forall t x, NoDup (map fst t) ->
  In x (tx_adds t) -> In x (tx_dels t) -> False.
Proof.
  induction t as [|[n d] t IH]; intros x Hnd; unfold tx_adds, tx_dels in *; simpl; auto.
  simpl in Hnd. inversion Hnd as [|? ? Hn Hnd']; subst.
  assert (forall y, In y (map fst (filter (fun p => negb (snd p)) t)) -> In y (map fst t)) as Ha.
  { intros y Hy. apply tx_names_split. left. exact Hy. }
  assert (forall y, In y (map fst (filter (fun p => snd p) t)) -> In y (map fst t)) as Hd.
  { intros y Hy. apply tx_names_split. right. exact Hy. }
  destruct d; simpl.
  - intros H1 [<-|H2]; [apply Hn; auto | eapply IH; eauto].
  - intros [<-|H1] H2; [apply Hn; auto | eapply IH; eauto].
Qed.

(* the live names after the transaction, in the validator's terms *)
Lemma apply_tx_In' : forall t view x, NoDup (map fst t) ->
  (In x (apply_tx view t) <->
   In x (tx_adds t) \/ (~ In x (tx_dels t) /\ In x view)).
Proof.
  intros t view x Hnd. rewrite apply_tx_In by auto. rewrite tx_names_split.
  pose proof (tx_adds_dels_disjoint t x Hnd).
  destruct (in_dec bytes_eq_dec x (tx_adds t)); tauto.
Qed.

Lemma tx_ok_NoDup : forall t, tx_ok t -> NoDup (map fst t).
Proof. intros t [H _]. apply asc_NoDup; auto. Qed.

Lemma tx_ok_adds_asc : forall t, tx_ok t -> asc (tx_adds t).
Proof. intros t [H _]. apply asc_map_filter; auto. Qed.

Lemma tx_ok_adds_nonempty : forall t, tx_ok t -> ~ In [] (tx_adds t).
Proof.
  intros t [_ H] Hin. unfold tx_adds in Hin. apply in_map_iff in Hin as [p [Hp1 Hp2]].
  apply filter_In in Hp2 as [Hp2 _]. rewrite Forall_forall in H. apply (H p); auto.
Qed.

(* ---------- conflict_free ---------- *)

Theorem conflict_free_b_spec : forall names, conflict_free_b names = true <-> conflict_free names.
Proof.
  intros names. unfold conflict_free_b, conflict_free.
  rewrite andb_true_iff, !forallb_forall. split.
  - intros [H1 H2]. split; auto. intros a b Ha Hb.
    specialize (H2 a Ha). rewrite forallb_forall in H2. specialize (H2 b Hb).
    apply negb_true_iff in H2. exact H2.
  - intros [H1 H2]. split; auto. intros a Ha. apply forallb_forall. intros b Hb.
    apply negb_true_iff. auto.
Qed.

Lemma conflict_free_no_empty : forall names, conflict_free names -> ~ In [] names.
Proof. intros names [H _] Hin. apply H in Hin. discriminate. Qed.

(* ---------- the validator ---------- *)

Section Validate.
  Variables (view : list bytes) (t : tx).
  Hypothesis Hasc : asc view.
  Hypothesis Hcf : conflict_free view.
  Hypothesis Hok : tx_ok t.

  Let adds := tx_adds t.
  Let dels := tx_dels t.
  Let R := apply_tx view t.

  Lemma has_ref_result : forall x, has_ref view adds dels x = true <-> In x R.
  Proof.
    intro x. unfold R, adds, dels. rewrite has_ref_spec by auto.
    rewrite apply_tx_In' by (apply tx_ok_NoDup; auto). tauto.
  Qed.

  Lemma has_ref_result_false : forall x, has_ref view adds dels x = false <-> ~ In x R.
  Proof.
    intro x. rewrite <- has_ref_result. destruct (has_ref view adds dels x); split; congruence.
  Qed.

  Lemma has_ref_with_prefix_result : forall p,
    has_ref_with_prefix view adds dels p = true <-> exists n, In n R /\ is_prefix p n = true.
  Proof.
    intro p. unfold R, adds, dels.
    rewrite has_ref_with_prefix_spec by (auto; apply tx_ok_adds_asc; auto).
    split; intros [n [H1 H2]]; exists n; split; auto;
      apply (apply_tx_In' t view n (tx_ok_NoDup t Hok)); auto.
  Qed.

  Lemma has_ref_empty : has_ref view adds dels [] = false.
  Proof.
    destruct (has_ref view adds dels []) eqn:E; auto.
    apply has_ref_spec in E; auto. destruct E as [E|[_ E]].
    - exfalso. eapply tx_ok_adds_nonempty; eauto.
    - exfalso. eapply conflict_free_no_empty; eauto.
  Qed.

  Lemma check_one_spec : forall a,
    check_one view adds dels a = true <->
    validate_refname a = true /\
    (forall n, In n R -> dir_prefix a n = false) /\
    (forall d, In d R -> dir_prefix d a = false).
  Proof.
    intro a. unfold check_one.
    rewrite !andb_true_iff, negb_true_iff.
    rewrite (parents_free_spec view adds dels has_ref_empty) by lia.
    assert (has_ref_with_prefix view adds dels (a ++ [slash]) = false <->
            forall n, In n R -> dir_prefix a n = false) as ->.
    { split.
      - intros H n Hn. unfold dir_prefix. destruct (is_prefix (a ++ [slash]) n) eqn:E; auto.
        rewrite <- H. symmetry. apply has_ref_with_prefix_result. eauto.
      - intro H. destruct (has_ref_with_prefix view adds dels (a ++ [slash])) eqn:E; auto.
        apply has_ref_with_prefix_result in E as [n [Hn1 Hn2]].
        apply H in Hn1. unfold dir_prefix in Hn1. congruence. }
    assert ((forall d, is_prefix (d ++ [slash]) a = true -> has_ref view adds dels d = false) <->
            forall d, In d R -> dir_prefix d a = false) as ->.
    { split.
      - intros H d Hd. unfold dir_prefix. destruct (is_prefix (d ++ [slash]) a) eqn:E; auto.
        apply H in E. apply has_ref_result_false in E. tauto.
      - intros H d Hd. apply has_ref_result_false. intro Hin. apply H in Hin.
        unfold dir_prefix in Hin. congruence. }
    tauto.
  Qed.

  Lemma validate_sound_complete_sec :
    validate_addition view t = true <-> conflict_free R.
  Proof.
    unfold validate_addition. rewrite forallb_forall. fold adds dels.
    assert (forall x, In x R <-> In x adds \/ (~ In x dels /\ In x view)) as HR.
    { intro x. apply apply_tx_In'. apply tx_ok_NoDup; auto. }
    destruct Hcf as [Hv1 Hv2]. split.
    - intro H. split.
      + intros a Ha. apply HR in Ha as [Ha|[_ Ha]]; auto.
        apply H in Ha. apply check_one_spec in Ha. tauto.
      + intros a b Ha Hb. pose proof Ha as Ha'. pose proof Hb as Hb'.
        apply HR in Ha as [Ha|[_ Ha]].
        * apply H in Ha. apply check_one_spec in Ha. destruct Ha as [_ [Ha _]]. auto.
        * apply HR in Hb as [Hb|[_ Hb]]; auto.
          apply H in Hb. apply check_one_spec in Hb. destruct Hb as [_ [_ Hb]]. auto.
    - intros [H1 H2] a Ha. apply check_one_spec.
      assert (In a R) as HaR by (apply HR; auto).
      repeat split; auto.
  Qed.
End Validate.

(* the validator accepts exactly the transactions whose result is conflict-free *)
Theorem validate_sound_complete : forall view t,
  asc view -> conflict_free view -> tx_ok t ->
  (validate_addition view t = true <-> conflict_free (apply_tx view t)).
Proof. intros. apply validate_sound_complete_sec; auto. Qed.

Theorem apply_tx_asc : forall view t, asc view -> tx_ok t -> asc (apply_tx view t).
Proof. intros. apply apply_tx_asc_gen; auto. Qed.

Lemma add_checked_step : forall view t,
  asc view -> conflict_free view -> tx_ok t ->
  asc (add_checked view t) /\ conflict_free (add_checked view t).
Proof.
  intros view t Ha Hc Ht. unfold add_checked.
  destruct (validate_addition view t) eqn:E; auto. split.
  - apply apply_tx_asc; auto.
  - apply validate_sound_complete; auto.
Qed.

(* invariant over any history of single-table transactions through Add with name checking *)
Theorem add_checked_invariant : forall txs view,
  asc view -> conflict_free view -> Forall tx_ok txs ->
  asc (fold_left add_checked txs view) /\ conflict_free (fold_left add_checked txs view).
Proof.
  induction txs as [|t txs IH]; intros view Ha Hc Hf; simpl; auto.
  inversion Hf; subst.
  destruct (add_checked_step view t) as [Ha' Hc']; auto.
Qed.

(* a multi-table Addition validated sequentially keeps the invariant *)
Theorem addition_seq_invariant : forall ts view view',
  asc view -> conflict_free view -> Forall tx_ok ts ->
  addition_seq view ts = Some view' -> asc view' /\ conflict_free view'.
Proof.
  induction ts as [|t ts IH]; intros view view' Ha Hc Hf H; simpl in H.
  - injection H as <-. auto.
  - inversion Hf; subst. destruct (validate_addition view t) eqn:E; [|discriminate].
    apply (IH (apply_tx view t) view'); auto.
    + apply apply_tx_asc; auto.
    + apply validate_sound_complete; auto.
Qed.

(* deleting a and creating a/b in one transaction is accepted *)
Theorem delete_and_create_accepted : forall view a b,
  asc view -> conflict_free view -> In a view ->
  let ab := a ++ [slash] ++ b in
  tx_ok [(a, true); (ab, false)] -> conflict_free (apply_tx view [(a, true); (ab, false)]) ->
  validate_addition view [(a, true); (ab, false)] = true.
Proof.
  intros view a b Ha Hc Hin ab Hok Hres. apply validate_sound_complete; auto.
Qed.

(* the pinned multi-table Addition (each table checked against the old view only)
   breaks the invariant *)
Theorem addition_pinned_refuted : exists view ts, asc view /\ conflict_free view /\ Forall tx_ok ts /\
  ~ conflict_free (addition_pinned view ts).
Proof.
  exists [], [[([97], false)]; [([97; 47; 98], false)]].
  split; [apply asc_nil|]. split; [apply conflict_free_b_spec; reflexivity|]. split.
  - repeat constructor; simpl; discriminate.
  - intro H. apply conflict_free_b_spec in H. vm_compute in H. discriminate.
Qed.

(* stronger form: the only requirement on the new name is that it is well-formed *)
Lemma bytes_ltb_app : forall a c r, bytes_ltb a (a ++ c :: r) = true.
Proof. induction a as [|x a IH]; simpl; auto. intros. rewrite N.ltb_irrefl. auto. Qed.

Lemma is_prefix_length : forall p s, is_prefix p s = true -> (length p <= length s)%nat.
Proof.
  intros p s H. apply is_prefix_spec in H as [r ->]. rewrite app_length. lia.
Qed.

Lemma split_two_slashes : forall d' d r r',
  d ++ slash :: r = d' ++ slash :: r' ->
  d = d' \/ (exists q, d = d' ++ slash :: q) \/ (exists q, d' = d ++ slash :: q).
Proof.
  induction d' as [|c d' IH]; intros d r r' H.
  - destruct d as [|c d]; auto. simpl in H. injection H as -> _. right. left. exists d. auto.
  - destruct d as [|c2 d]; simpl in H.
    + injection H as <- ->. right. right. exists d'. auto.
    + injection H as -> H. destruct (IH _ _ _ H) as [->|[[q ->]|[q ->]]]; auto.
      * right. left. exists q. auto.
      * right. right. exists q. auto.
Qed.

Theorem delete_and_create_accepted_strong : forall view a b,
  asc view -> conflict_free view -> In a view ->
  let ab := a ++ [slash] ++ b in
  validate_refname ab = true ->
  tx_ok [(a, true); (ab, false)] /\
  validate_addition view [(a, true); (ab, false)] = true.
Proof.
  intros view a b Ha Hc Hin ab Hab.
  assert (a <> []) as Hane.
  { intros ->. eapply conflict_free_no_empty; eauto. }
  assert (tx_ok [(a, true); (ab, false)]) as Hok.
  { split.
    - simpl. apply asc_cons; [apply asc_cons; [apply asc_nil|intros ? []]|].
      intros x [<-|[]]. apply bytes_ltb_app.
    - repeat constructor; simpl; auto. unfold ab. destruct a; discriminate. }
  split; auto. apply validate_sound_complete; auto.
  assert (forall x, In x (apply_tx view [(a, true); (ab, false)]) ->
                    x = ab \/ (In x view /\ x <> a)) as HR.
  { intros x Hx. apply apply_tx_In in Hx; [|apply tx_ok_NoDup; auto].
    simpl in Hx. intuition. }
  destruct Hc as [Hv1 Hv2]. split.
  - intros x Hx. apply HR in Hx as [->|[Hx _]]; auto.
  - intros x y Hx Hy. apply HR in Hx. apply HR in Hy.
    destruct (dir_prefix x y) eqn:E; auto. exfalso. unfold dir_prefix in E.
    destruct Hx as [->|[Hx Hxa]], Hy as [->|[Hy Hya]].
    + apply is_prefix_length in E. rewrite app_length in E. simpl in E. lia.
    + apply is_prefix_spec in E as [r ->].
      specialize (Hv2 a ((ab ++ [slash]) ++ r) Hin Hy). unfold dir_prefix in Hv2.
      assert (is_prefix (a ++ [slash]) ((ab ++ [slash]) ++ r) = true) as Hp.
      { apply is_prefix_spec. exists (b ++ [slash] ++ r). unfold ab.
        rewrite <- !app_assoc. reflexivity. }
      congruence.
    + apply is_prefix_spec in E as [r Hr]. unfold ab in Hr.
      rewrite <- app_assoc in Hr. simpl in Hr. symmetry in Hr.
      destruct (split_two_slashes _ _ _ _ Hr) as [->|[[q ->]|[q ->]]]; auto.
      * specialize (Hv2 a (a ++ slash :: q) Hin Hx). unfold dir_prefix in Hv2.
        assert (is_prefix (a ++ [slash]) (a ++ slash :: q) = true) as Hp.
        { apply is_prefix_spec. exists q. rewrite <- app_assoc. reflexivity. }
        congruence.
      * specialize (Hv2 x (x ++ slash :: q) Hx Hin). unfold dir_prefix in Hv2.
        assert (is_prefix (x ++ [slash]) (x ++ slash :: q) = true) as Hp.
        { apply is_prefix_spec. exists q. rewrite <- app_assoc. reflexivity. }
        congruence.
    + specialize (Hv2 x y Hx Hy). unfold dir_prefix in Hv2. congruence.
Qed.

Print Assumptions conflict_free_b_spec.
Print Assumptions validate_sound_complete.
Print Assumptions apply_tx_asc.
Print Assumptions add_checked_invariant.
Print Assumptions addition_seq_invariant.
Print Assumptions delete_and_create_accepted.
Print Assumptions addition_pinned_refuted.
Print Assumptions delete_and_create_accepted_strong.
