(* Proofs about Model/Segments.v (C17). *)
From Coq Require Import List NArith Arith Bool Lia ZifyBool ZifyN ZifyNat.
From RT Require Import Model.Segments.
Import ListNotations.
Local Open Scope N_scope.

Arguments N.log2 : simpl never.
Arguments N.add : simpl never.
Arguments N.ltb : simpl never.
Arguments N.eqb : simpl never.
Arguments N.div : simpl never.
Arguments N.pow : simpl never.

(* ---------- log2: the Go loop equals N.log2 on uint64 ---------- *)

Lemma log2_loop_spec : forall fuel sz l,
  (N.to_nat (N.size sz) <= fuel)%nat -> log2_loop fuel sz l = l + N.size sz.
Proof.
  induction fuel as [|f IH]; intros sz l Hf.
  - destruct sz as [|p]; cbn in *; [lia|]. destruct p; cbn in Hf; lia.
  - cbn [log2_loop]. destruct (N.eqb_spec sz 0) as [->|Hz].
    + cbn. lia.
    + rewrite IH.
      * destruct sz as [|p]; [congruence|].
        rewrite <- N.div2_div.
        destruct p; cbn; lia.
      * destruct sz as [|p]; [congruence|].
        rewrite <- N.div2_div.
        destruct p; cbn in *; lia.
Qed.

Lemma log2_go_eq : forall sz, sz < 2 ^ 64 -> log2_go sz = log2 sz.
Proof.
  intros sz Hsz. unfold log2_go, log2.
  destruct (N.eqb_spec sz 0) as [->|Hz]; [reflexivity|].
  rewrite log2_loop_spec.
  - rewrite N.size_log2 by assumption. lia.
  - assert (N.size sz <= 64).
    { rewrite N.size_log2 by assumption.
      assert (N.log2 sz < 64) by (apply N.log2_lt_pow2; lia). lia. }
    lia.
Qed.

(* ---------- basic facts ---------- *)

Lemma sumN_app : forall a b, sumN (a ++ b) = sumN a + sumN b.
Proof. induction a as [|x a IH]; intros b; cbn; [lia|]. rewrite IH. lia. Qed.

Lemma sumN_ge1 : forall b, b <> [] -> Forall (fun x => 1 <= x) b -> 1 <= sumN b.
Proof.
  intros [|x b] Hne H; [congruence|]. inversion H; subst. cbn.
  assert (0 <= sumN b) by lia. lia.
Qed.

Lemma In_le_sumN : forall x l, In x l -> x <= sumN l.
Proof.
  induction l as [|y l IH]; cbn; [tauto|]. intros [->|H]; [lia|].
  specialize (IH H). lia.
Qed.

Lemma log2_mono : forall a b, a <= b -> log2 a <= log2 b.
Proof. intros. unfold log2. apply N.log2_le_mono. assumption. Qed.

Lemma log2_double : forall a b, 0 < a -> 0 < b -> log2 a <= log2 b -> log2 a + 1 <= log2 (a + b).
Proof.
  intros a b Ha Hb H. unfold log2 in *.
  assert (2 ^ N.log2 a <= a) by (apply N.log2_spec; lia).
  assert (2 ^ N.log2 b <= b) by (apply N.log2_spec; lia).
  assert (2 ^ N.log2 a <= 2 ^ N.log2 b) by (apply N.pow_le_mono_r; lia).
  assert (2 ^ (N.log2 a + 1) <= a + b).
  { rewrite N.pow_add_r. change (2 ^ 1) with 2. lia. }
  apply N.log2_le_pow2; lia.
Qed.

(* ---------- segments ---------- *)

Definition seg_ok (all : list N) (g : segment) : Prop :=
  exists a b c, all = a ++ b ++ c /\ b <> [] /\
    s_start g = length a /\ s_end g = (length a + length b)%nat /\
    s_bytes g = sumN b /\ Forall (fun x => log2 x = s_log g) b /\
    (* maximal to the left: a segment starts where the class changes *)
    (a = [] \/ exists a0 p, a = a0 ++ [p] /\ log2 p <> s_log g).

Lemma segs_loop_ok : forall rest all a b cur acc,
  all = a ++ b ++ rest -> b <> [] -> Forall (fun x => 1 <= x) all ->
  s_start cur = length a -> s_end cur = (length a + length b)%nat ->
  s_bytes cur = sumN b -> Forall (fun x => log2 x = s_log cur) b ->
  (a = [] \/ exists a0 p, a = a0 ++ [p] /\ log2 p <> s_log cur) ->
  Forall (seg_ok all) acc ->
  Forall (seg_ok all) (segs_loop (length a + length b) rest cur acc).
Proof.
  induction rest as [|sz rest IH]; intros all a b cur acc Hall Hb Hge Hs He Hby Hlog Hleft Hacc.
  - cbn [segs_loop]. apply Forall_rev. constructor; [|assumption].
    exists a, b, []. repeat split; assumption.
  - cbn [segs_loop].
    assert (Hbge : 1 <= sumN b).
    { apply sumN_ge1; [assumption|]. subst all.
      apply Forall_app in Hge as [_ Hge]. apply Forall_app in Hge as [Hge _]. exact Hge. }
    destruct (N.eqb_spec (s_log cur) (log2 sz)) as [Heq|Hne]; cbn [negb andb].
    + (* same class: extend cur *)
      replace (S (length a + length b)) with (length a + length (b ++ [sz]))%nat
        by (rewrite app_length; cbn; lia).
      apply IH with (all := all); cbn [s_start s_end s_bytes s_log].
      * rewrite Hall, <- !app_assoc. reflexivity.
      * destruct b; discriminate.
      * assumption.
      * assumption.
      * rewrite app_length; cbn; lia.
      * rewrite sumN_app, Hby. cbn. lia.
      * apply Forall_app; split.
        -- rewrite <- Heq. exact Hlog.
        -- constructor; [reflexivity|constructor].
      * rewrite <- Heq. exact Hleft.
      * assumption.
    + destruct (N.ltb_spec 0 (s_bytes cur)) as [Hpos|Hzero]; [|lia].
      replace (S (length a + length b)) with (length (a ++ b) + length [sz])%nat
        by (rewrite app_length; cbn; lia).
      replace (length a + length b)%nat with (length (a ++ b)) by (rewrite app_length; lia).
      apply IH with (all := all); cbn [s_start s_end s_bytes s_log].
      * rewrite Hall, <- !app_assoc. reflexivity.
      * discriminate.
      * assumption.
      * reflexivity.
      * cbn; lia.
      * cbn; lia.
      * constructor; [reflexivity|constructor].
      * right. destruct (exists_last Hb) as [b0 [p Hp]]. exists (a ++ b0), p. split.
        -- rewrite Hp, app_assoc. reflexivity.
        -- rewrite Hp in Hlog. apply Forall_app in Hlog as [_ Hlog].
           inversion Hlog; subst. congruence.
      * constructor; [|assumption]. exists a, b, (sz :: rest). repeat split; assumption.
Qed.

Lemma segments_ok : forall x rest,
  Forall (fun y => 1 <= y) (x :: rest) ->
  Forall (seg_ok (x :: rest)) (sizes_to_segments (x :: rest)).
Proof.
  intros x rest Hge. unfold sizes_to_segments. cbn [segs_loop s_log s_bytes s_start].
  replace (negb (0 =? log2 x) && (0 <? 0)) with false
    by (destruct (0 =? log2 x); reflexivity).
  change 1%nat with (length (@nil N) + length [x])%nat.
  apply segs_loop_ok with (all := x :: rest); cbn [s_start s_end s_bytes s_log].
  - reflexivity.
  - discriminate.
  - assumption.
  - reflexivity.
  - reflexivity.
  - cbn. lia.
  - constructor; [reflexivity|constructor].
  - left; reflexivity.
  - constructor.
Qed.

(* ---------- pick_min ---------- *)

Definition seg0 := {| s_start := 0; s_end := 0; s_log := 64; s_bytes := 0 |}.

Definition pick_step (m st : segment) : segment :=
  if Nat.eqb (seg_size st) 1 then m else if s_log st <? s_log m then st else m.

Lemma pick_min_fold : forall segs, pick_min segs = fold_left pick_step segs seg0.
Proof. reflexivity. Qed.

Lemma pick_step_cases : forall m0 h,
  pick_step m0 h = m0 \/ (pick_step m0 h = h /\ seg_size h <> 1%nat /\ s_log h < s_log m0).
Proof.
  intros. unfold pick_step. destruct (Nat.eqb_spec (seg_size h) 1); [left; reflexivity|].
  destruct (N.ltb_spec (s_log h) (s_log m0)); [right; repeat split; assumption|left; reflexivity].
Qed.

Lemma pick_fold_inv : forall segs m0,
  let m := fold_left pick_step segs m0 in
  (m = m0 \/ (In m segs /\ seg_size m <> 1%nat /\ s_log m < s_log m0)).
Proof.
  induction segs as [|g segs IH]; intros m0; cbn [fold_left]; cbn zeta.
  - left; reflexivity.
  - destruct (pick_step_cases m0 g) as [E|[E [Hgs Hgl]]]; rewrite E.
    + destruct (IH m0) as [IH'|[Hin [Hs Hl]]]; [left; exact IH'|right].
      split; [right; exact Hin|split; assumption].
    + destruct (IH g) as [IH'|[Hin [Hs Hl]]].
      * right. rewrite IH'. split; [left; reflexivity|split; assumption].
      * right. split; [right; exact Hin|split; [assumption|lia]].
Qed.

(* If some segment has size <> 1 and class below the current minimum's, the
   fold ends on a segment of size <> 1 taken from the list. *)
Lemma pick_fold_found : forall segs m0 g,
  In g segs -> seg_size g <> 1%nat -> s_log g < s_log m0 ->
  let m := fold_left pick_step segs m0 in In m segs /\ seg_size m <> 1%nat.
Proof.
  induction segs as [|h segs IH]; intros m0 g Hin Hs Hl; [destruct Hin|].
  cbn [fold_left]. cbn zeta.
  destruct (pick_step_cases m0 h) as [E|[E [Hhs Hhl]]].
  - destruct Hin as [->|Hin].
    + exfalso. unfold pick_step in E.
      destruct (Nat.eqb_spec (seg_size g) 1) as [H1|_]; [contradiction|].
      destruct (N.ltb_spec (s_log g) (s_log m0)) as [_|Hge]; [|lia].
      subst g. lia.
    + rewrite E. destruct (IH m0 g Hin Hs Hl) as [A B]. split; [right; exact A|exact B].
  - rewrite E.
    pose proof (pick_fold_inv segs h) as Hinv. cbn zeta in Hinv.
    destruct Hinv as [-> |[Hin' [Hs' _]]].
    + split; [left; reflexivity|assumption].
    + split; [right; assumption|assumption].
Qed.

(* ---------- extend ---------- *)

Fixpoint ext_ok (a2 b : list N) : Prop :=
  match a2 with
  | [] => True
  | p :: t => log2 p <= log2 (sumN (t ++ b)) /\ ext_ok t b
  end.

Lemma nth_middle' : forall (a : list N) p c, nth (length a) (a ++ p :: c) 0 = p.
Proof. intros. rewrite app_nth2 by lia. rewrite Nat.sub_diag. reflexivity. Qed.

Lemma extend_spec : forall fuel a b c st by_,
  (length a <= fuel)%nat ->
  extend fuel (a ++ b ++ c) (length a) (sumN b) = (st, by_) ->
  exists a1 a2, a = a1 ++ a2 /\ st = length a1 /\ by_ = sumN (a2 ++ b) /\ ext_ok a2 b /\
    (a1 = [] \/ exists a0 p, a1 = a0 ++ [p] /\ log2 (sumN (a2 ++ b)) < log2 p).
Proof.
  induction fuel as [|f IH]; intros a b c st by_ Hf H.
  - destruct a; [|cbn in Hf; lia]. cbn in H. inversion H; subst.
    exists [], []. cbn. repeat split; auto.
  - cbn [extend] in H.
    destruct (length a) as [|prev] eqn:Hlen.
    + destruct a; [|discriminate]. inversion H; subst.
      exists [], []. cbn. repeat split; auto.
    + assert (Hne : a <> []) by (intro; subst; discriminate).
      destruct (exists_last Hne) as [a' [p Hp]]. subst a.
      rewrite app_length in Hlen. cbn in Hlen.
      assert (prev = length a') by lia. subst prev.
      rewrite <- app_assoc in H. cbn [app] in H. rewrite nth_middle' in H.
      destruct (N.ltb_spec (log2 (sumN b)) (log2 p)) as [Hlt|Hge].
      * inversion H; subst.
        exists (a' ++ [p]), []. rewrite app_nil_r. cbn [app].
        repeat split; auto.
        -- rewrite app_length; cbn; lia.
        -- right. exists a', p. split; [reflexivity|assumption].
      * change (a' ++ p :: b ++ c) with (a' ++ (p :: b) ++ c) in H.
        replace (sumN b + p) with (sumN (p :: b)) in H by (cbn; lia).
        apply IH in H; [|lia].
        destruct H as [a1 [a2 [E [Hst [Hby [Hext Hstop]]]]]].
        exists a1, (a2 ++ [p]). subst a'.
        rewrite <- !app_assoc. cbn [app].
        repeat split; auto.
        clear - Hext Hge. induction a2 as [|q a2 IHa]; cbn [ext_ok app] in *.
        -- split; [exact Hge|exact I].
        -- destruct Hext as [Hq Hext]. split.
           ++ rewrite <- app_assoc. exact Hq.
           ++ apply IHa. exact Hext.
Qed.

(* ---------- the specification of suggest ---------- *)

Lemma suggest_spec : forall sizes s e,
  Forall (fun x => 1 <= x) sizes ->
  suggest sizes = Some (s, e) ->
  exists a1 a2 b c, sizes = a1 ++ a2 ++ b ++ c /\
    s = length a1 /\ e = (length a1 + length a2 + length b)%nat /\
    (2 <= length b)%nat /\
    (exists cl, Forall (fun x => log2 x = cl) b) /\
    ext_ok a2 b /\
    (a1 = [] \/ exists a0 p, a1 = a0 ++ [p] /\ log2 (sumN (a2 ++ b)) < log2 p).
Proof.
  intros sizes s e Hge H. unfold suggest in H.
  destruct (Nat.eqb_spec (seg_size (pick_min (sizes_to_segments sizes))) 0) as [|Hsz]; [discriminate|].
  destruct (extend _ _ _ _) as [st by_] eqn:Hext. inversion H; subst st e; clear H.
  set (m := pick_min (sizes_to_segments sizes)) in *.
  destruct sizes as [|x rest].
  { subst m. exfalso. apply Hsz. reflexivity. }
  pose proof (segments_ok x rest Hge) as Hok.
  pose proof (pick_fold_inv (sizes_to_segments (x :: rest)) seg0) as Hinv. cbn zeta in Hinv.
  rewrite <- pick_min_fold in Hinv. fold m in Hinv.
  destruct Hinv as [E|[Hin [Hs1 _]]].
  { rewrite E in Hsz. exfalso. apply Hsz. reflexivity. }
  rewrite Forall_forall in Hok. specialize (Hok m Hin).
  destruct Hok as [a [b [c [Hall [Hb [Hst [He [Hby [Hlog _]]]]]]]]].
  rewrite Hall, Hst, Hby in Hext.
  apply extend_spec in Hext; [|lia].
  destruct Hext as [a1 [a2 [E [Hs [_ [Hext Hstop]]]]]].
  exists a1, a2, b, c. subst a.
  rewrite <- app_assoc in Hall. repeat split; auto.
  - rewrite He, app_length. lia.
  - unfold seg_size in *. rewrite Hst, He in *. lia.
  - exists (s_log m). exact Hlog.
Qed.

(* C17_valid *)
Lemma suggest_valid : forall sizes s e,
  Forall (fun x => 1 <= x) sizes ->
  suggest sizes = Some (s, e) -> (s + 2 <= e /\ e <= length sizes)%nat.
Proof.
  intros sizes s e Hge H. apply suggest_spec in H; [|assumption].
  destruct H as [a1 [a2 [b [c [Hall [Hs [He [Hb _]]]]]]]].
  subst. rewrite !app_length. lia.
Qed.

(* ---------- none_iff ---------- *)

Fixpoint adj_eq (l : list N) : bool :=
  match l with
  | a :: ((b :: _) as t) => (log2 a =? log2 b) || adj_eq t
  | _ => false
  end.

Lemma Forall_rev_iff' : forall {A} (P : A -> Prop) l, Forall P (rev l) <-> Forall P l.
Proof.
  intros A P l. split; intros H.
  - rewrite <- (rev_involutive l). apply Forall_rev. exact H.
  - apply Forall_rev. exact H.
Qed.

Lemma segs_loop_sizes : forall rest i cur acc lastv,
  1 <= s_bytes cur -> Forall (fun x => 1 <= x) rest ->
  s_end cur = i -> (s_start cur < i)%nat -> s_log cur = log2 lastv ->
  (Forall (fun g => (seg_size g <= 1)%nat) (segs_loop i rest cur acc) <->
   (Forall (fun g => (seg_size g <= 1)%nat) acc /\ (seg_size cur <= 1)%nat /\
    adj_eq (lastv :: rest) = false)).
Proof.
  induction rest as [|sz rest IH]; intros i cur acc lastv Hby Hge He Hs Hlog.
  - cbn [segs_loop adj_eq]. rewrite Forall_rev_iff'. split.
    + intros H. inversion H; subst. auto.
    + intros [A [B _]]. constructor; assumption.
  - cbn [segs_loop]. inversion Hge as [|? ? Hsz Hrest]; subst.
    change (adj_eq (lastv :: sz :: rest)) with ((log2 lastv =? log2 sz) || adj_eq (sz :: rest)).
    destruct (N.eqb_spec (s_log cur) (log2 sz)) as [Heq|Hne]; cbn [negb andb].
    + rewrite IH with (lastv := sz); cbn [s_bytes s_end s_start s_log]; try lia; try assumption; try reflexivity.
      rewrite <- Hlog, Heq, N.eqb_refl. cbn [orb].
      unfold seg_size; cbn [s_start s_end]. split.
      * intros [_ [H _]]. lia.
      * intros [_ [_ H]]. discriminate.
    + destruct (N.ltb_spec 0 (s_bytes cur)) as [_|]; [|lia].
      rewrite IH with (lastv := sz); cbn [s_bytes s_end s_start s_log]; try lia; try assumption; try reflexivity.
      rewrite <- Hlog. destruct (N.eqb_spec (s_log cur) (log2 sz)); [contradiction|]. cbn [orb].
      unfold seg_size; cbn [s_start s_end]. split.
      * intros [A [_ C]]. inversion A; subst. repeat split; auto.
      * intros [A [B C]]. repeat split; auto. lia.
Qed.

Lemma lt_pow64_log : forall x, x < 2 ^ 64 -> 1 <= x -> log2 x < 64.
Proof. intros. unfold log2. apply N.log2_lt_pow2; lia. Qed.

Lemma first_segs : forall x rest,
  sizes_to_segments (x :: rest) =
  segs_loop 1 rest {| s_start := 0; s_end := 1; s_log := log2 x; s_bytes := 0 + x |} [].
Proof.
  intros. unfold sizes_to_segments. cbn [segs_loop s_log s_bytes s_start].
  replace (negb (0 =? log2 x) && (0 <? 0)) with false
    by (destruct (0 =? log2 x); reflexivity).
  reflexivity.
Qed.

Lemma segs_small_iff : forall sizes, Forall (fun x => 1 <= x) sizes -> sizes <> [] ->
  (Forall (fun g => (seg_size g <= 1)%nat) (sizes_to_segments sizes) <-> adj_eq sizes = false).
Proof.
  intros [|x rest] Hge Hne; [congruence|]. rewrite first_segs.
  inversion Hge; subst.
  rewrite segs_loop_sizes with (lastv := x); cbn [s_bytes s_end s_start s_log]; try lia; auto.
  unfold seg_size; cbn [s_start s_end]. split.
  - intros [_ [_ H]]; exact H.
  - intros H. repeat split; auto.
Qed.

Lemma seg_ok_size : forall all g, seg_ok all g -> (1 <= seg_size g)%nat.
Proof.
  intros all g [a [b [c [_ [Hb [Hs [He _]]]]]]]. unfold seg_size. rewrite Hs, He.
  destruct b; [congruence|cbn; lia].
Qed.

Lemma seg_ok_log : forall all g, Forall (fun x => x < 2 ^ 64) all -> Forall (fun x => 1 <= x) all ->
  seg_ok all g -> s_log g < 64.
Proof.
  intros all g Hlt Hge [a [b [c [Hall [Hb [_ [_ [_ [Hlog _]]]]]]]]].
  destruct b as [|y b]; [congruence|]. inversion Hlog; subst.
  rewrite Forall_forall in Hlt, Hge.
  assert (In y (a ++ (y :: b) ++ c)) by (apply in_or_app; right; left; reflexivity).
  match goal with H : log2 y = _ |- _ => rewrite <- H end.
  apply lt_pow64_log; auto.
Qed.

(* C17_none_iff *)
Lemma suggest_none_iff : forall sizes,
  Forall (fun x => 1 <= x) sizes -> Forall (fun x => x < 2 ^ 64) sizes ->
  (suggest sizes = None <-> adj_eq sizes = false).
Proof.
  intros sizes Hge Hlt.
  destruct sizes as [|x rest]; [split; reflexivity|].
  assert (Hne : x :: rest <> []) by discriminate.
  pose proof (segments_ok x rest Hge) as Hok.
  pose proof (segs_small_iff (x :: rest) Hge Hne) as Hsm.
  assert (Hnone : suggest (x :: rest) = None <-> seg_size (pick_min (sizes_to_segments (x :: rest))) = 0%nat).
  { unfold suggest. destruct (Nat.eqb_spec (seg_size (pick_min (sizes_to_segments (x :: rest)))) 0).
    - split; auto.
    - destruct (extend _ _ _ _). split; [discriminate|contradiction]. }
  rewrite Hnone, <- Hsm. clear Hnone Hsm.
  set (segs := sizes_to_segments (x :: rest)) in *.
  split.
  - intros Hz. apply Forall_forall. intros g Hg.
    destruct (le_lt_dec (seg_size g) 1) as [|Hbig]; [assumption|exfalso].
    rewrite Forall_forall in Hok.
    assert (Hl : s_log g < s_log seg0) by (apply seg_ok_log with (all := x :: rest); auto).
    destruct (pick_fold_found segs seg0 g Hg ltac:(lia) Hl) as [Hin Hs1].
    rewrite <- pick_min_fold in Hin, Hs1.
    pose proof (seg_ok_size _ _ (Hok _ Hin)). lia.
  - intros Hall.
    pose proof (pick_fold_inv segs seg0) as Hinv. cbn zeta in Hinv.
    rewrite <- pick_min_fold in Hinv.
    destruct Hinv as [E|[Hin [Hs1 _]]].
    + rewrite E. reflexivity.
    + rewrite Forall_forall in Hall. specialize (Hall _ Hin). lia.
Qed.

(* ---------- progress ---------- *)

Lemma replace_range_length : forall {A} s e (x : A) l,
  (s + 2 <= e)%nat -> (e <= length l)%nat ->
  (length (replace_range s e x l) + (e - s) = length l + 1)%nat.
Proof.
  intros. unfold replace_range. rewrite app_length. cbn [length].
  rewrite firstn_length, skipn_length. lia.
Qed.

(* C17_progress *)
Lemma auto_compact_progress : forall f sizes s e,
  Forall (fun x => 1 <= x) sizes -> suggest sizes = Some (s, e) ->
  (2 <= e - s)%nat /\ (length (auto_compact f sizes) + (e - s) = length sizes + 1)%nat /\
  (length (auto_compact f sizes) < length sizes)%nat.
Proof.
  intros f sizes s e Hge H. unfold auto_compact. rewrite H.
  destruct (suggest_valid _ _ _ Hge H) as [A B].
  pose proof (replace_range_length s e (f (firstn (e - s) (skipn s sizes))) sizes A B).
  lia.
Qed.

Lemma auto_compact_none : forall f sizes, suggest sizes = None -> auto_compact f sizes = sizes.
Proof. intros. unfold auto_compact. rewrite H. reflexivity. Qed.

(* ---------- class increase: every table in the merged range moves up ---------- *)

Lemma class_increase : forall a2 b cl,
  Forall (fun x => 1 <= x) (a2 ++ b) -> (2 <= length b)%nat ->
  Forall (fun x => log2 x = cl) b -> ext_ok a2 b ->
  forall x, In x (a2 ++ b) -> log2 x + 1 <= log2 (sumN (a2 ++ b)).
Proof.
  induction a2 as [|p t IH]; intros b cl Hge Hlen Hcl Hext x Hin; cbn [app] in *.
  - destruct b as [|x1 [|x2 b']]; cbn in Hlen; try lia.
    pose proof (Forall_inv Hcl) as H1. pose proof (Forall_inv (Forall_inv_tail Hcl)) as H2.
    pose proof (Forall_inv Hge) as G1. pose proof (Forall_inv (Forall_inv_tail Hge)) as G2.
    cbv beta in H1, H2, G1, G2.
    rewrite Forall_forall in Hcl. rewrite (Hcl x Hin), <- H1.
    assert (log2 x1 + 1 <= log2 (x1 + x2)) by (apply log2_double; lia).
    assert (log2 (x1 + x2) <= log2 (sumN (x1 :: x2 :: b'))).
    { apply log2_mono. cbn [sumN]. lia. }
    lia.
  - cbn [ext_ok] in Hext. destruct Hext as [Hp Hext].
    inversion Hge as [|? ? Gp Hge']; subst. cbn [sumN].
    assert (Hs : 1 <= sumN (t ++ b)).
    { apply sumN_ge1; [|assumption]. destruct b; [cbn in Hlen; lia|]. destruct t; discriminate. }
    destruct Hin as [->|Hin].
    + apply log2_double; lia.
    + specialize (IH b cl Hge' Hlen Hcl Hext x Hin).
      assert (log2 (sumN (t ++ b)) <= log2 (p + sumN (t ++ b))) by (apply log2_mono; lia).
      lia.
Qed.

(* ---------- depth ---------- *)

Fixpoint desc (l : list N) : Prop :=
  match l with
  | a :: ((b :: _) as t) => log2 b < log2 a /\ desc t
  | _ => True
  end.

Lemma desc_app_l : forall l1 l2, desc (l1 ++ l2) -> desc l1.
Proof.
  induction l1 as [|a l1 IH]; intros l2 H; [exact I|].
  destruct l1 as [|b l1]; [exact I|]. cbn [app desc] in *. destruct H as [A B].
  split; [exact A|]. apply (IH l2). exact B.
Qed.

Lemma desc_mid : forall pre x y t, desc (pre ++ x :: y :: t) -> log2 y < log2 x.
Proof.
  induction pre as [|a pre IH]; intros x y t H; cbn [app] in H.
  - cbn [desc] in H. tauto.
  - apply (IH x y t). destruct pre; cbn [app desc] in *; tauto.
Qed.

Lemma desc_snoc : forall l p x, desc (l ++ [p]) -> log2 x < log2 p -> desc ((l ++ [p]) ++ [x]).
Proof.
  induction l as [|a l IH]; intros p x H Hlt; cbn [app] in *.
  - cbn [desc]. tauto.
  - destruct l as [|b l]; cbn [app desc] in *.
    + destruct H as [A _]. repeat split; auto.
    + destruct H as [A B]. split; [exact A|]. apply (IH p x); assumption.
Qed.

Lemma desc_adj : forall l u, desc l -> Forall (fun x => u <= x) l ->
  adj_eq (l ++ [u]) = false -> desc (l ++ [u]).
Proof.
  induction l as [|a l IH]; intros u Hd Hge Hadj; [exact I|].
  inversion Hge as [|? ? Ga Hge']; subst.
  destruct l as [|b l].
  - cbn [app adj_eq desc] in *.
    apply orb_false_iff in Hadj as [Hne _].
    assert (log2 u <= log2 a) by (apply log2_mono; assumption).
    split; [|exact I]. lia.
  - cbn [app] in *. cbn [adj_eq] in Hadj. fold (adj_eq (b :: l ++ [u])) in Hadj.
    apply orb_false_iff in Hadj as [_ Hadj].
    cbn [desc] in Hd. destruct Hd as [A B].
    change (desc (a :: b :: l ++ [u])) with (log2 b < log2 a /\ desc (b :: l ++ [u])).
    split; [exact A|]. apply IH; assumption.
Qed.

Lemma desc_pair_last : forall l u pre x y post,
  desc l -> l ++ [u] = pre ++ x :: y :: post -> log2 x = log2 y -> post = [].
Proof.
  intros l u pre x y post Hd E Heq.
  destruct post as [|z post]; [reflexivity|exfalso].
  assert (Hne : z :: post <> []) by discriminate.
  destruct (exists_last Hne) as [post' [w Hw]]. rewrite Hw in E.
  replace (pre ++ x :: y :: post' ++ [w]) with ((pre ++ x :: y :: post') ++ [w]) in E
    by (rewrite <- app_assoc; reflexivity).
  apply app_inj_tail in E as [E _]. subst l.
  apply desc_mid in Hd. lia.
Qed.

Lemma pow2_ge1 : forall n, 1 <= 2 ^ n.
Proof. intros n. pose proof (N.pow_nonzero 2 n). lia. Qed.

Section Depth.
  Variable f : list N -> N.
  Variable u : N.
  Hypothesis Hu : 1 <= u.
  Hypothesis Hf_max : forall l x, In x l -> x <= f l.
  Hypothesis Hf_sum : forall l, f l <= sumN l.

  Definition Inv (l : list N) : Prop := desc l /\ Forall (fun x => u <= x) l.

  Lemma Forall_ge1 : forall l, Forall (fun x => u <= x) l -> Forall (fun x => 1 <= x) l.
  Proof. intros l H. eapply Forall_impl; [|exact H]. cbn. intros; lia. Qed.

  Lemma add_step_inv : forall l, Inv l -> Forall (fun x => x < 2 ^ 64) (l ++ [u]) ->
    Inv (add_step f u l) /\ sumN (add_step f u l) <= sumN l + u /\
    (length (add_step f u l) <= length l + 1)%nat.
  Proof.
    intros l [Hd Hge] Hlt. unfold add_step.
    assert (Hge' : Forall (fun x => u <= x) (l ++ [u])).
    { apply Forall_app; split; [assumption|]. constructor; [lia|constructor]. }
    assert (Hge1 : Forall (fun x => 1 <= x) (l ++ [u])) by (apply Forall_ge1; assumption).
    destruct (suggest (l ++ [u])) as [[s e]|] eqn:Hs.
    - pose proof (suggest_spec _ _ _ Hge1 Hs) as [a1 [a2 [b [c [Hall [Hs' [He [Hb [[cl Hcl] [Hext Hstop]]]]]]]]]].
      destruct b as [|x [|y b']]; cbn in Hb; try lia.
      assert (Hc : b' ++ c = []).
      { apply (desc_pair_last l u (a1 ++ a2) x y (b' ++ c) Hd).
        - rewrite Hall, <- !app_assoc. reflexivity.
        - pose proof (Forall_inv Hcl) as H1. pose proof (Forall_inv (Forall_inv_tail Hcl)) as H2.
          cbv beta in H1, H2. congruence. }
      apply app_eq_nil in Hc as [-> ->].
      rewrite app_nil_r in Hall.
      unfold auto_compact. rewrite Hs. unfold replace_range.
      assert (E1 : firstn s (l ++ [u]) = a1).
      { rewrite Hall, Hs'. rewrite firstn_app, Nat.sub_diag, firstn_all. cbn. apply app_nil_r. }
      assert (E2 : skipn s (l ++ [u]) = a2 ++ [x; y]).
      { rewrite Hall, Hs'. rewrite skipn_app, Nat.sub_diag, skipn_all. reflexivity. }
      assert (E3 : skipn e (l ++ [u]) = []).
      { apply skipn_all2. rewrite Hall, He, !app_length. cbn. lia. }
      rewrite E1, E2, E3.
      replace (e - s)%nat with (length (a2 ++ [x; y])) by (rewrite He, Hs', app_length; cbn; lia).
      rewrite firstn_all.
      (* a1 is a prefix of l *)
      assert (Hne : a2 ++ [x; y] <> []) by (destruct a2; discriminate).
      destruct (exists_last Hne) as [r [w Hw]].
      assert (El : l = a1 ++ r /\ u = w).
      { rewrite Hw, app_assoc in Hall. apply app_inj_tail in Hall. exact Hall. }
      destruct El as [El Eu].
      assert (Hin_u : In u (a2 ++ [x; y])).
      { rewrite Hw, Eu. apply in_or_app; right; left; reflexivity. }
      set (F := f (a2 ++ [x; y])) in *.
      assert (HF : u <= F) by (apply Hf_max; exact Hin_u).
      assert (Hsum : sumN (l ++ [u]) = sumN a1 + sumN (a2 ++ [x; y])) by (rewrite Hall, sumN_app; reflexivity).
      assert (Hda1 : desc a1) by (rewrite El in Hd; eapply desc_app_l; exact Hd).
      assert (Hga1 : Forall (fun z => u <= z) a1).
      { rewrite El in Hge. apply Forall_app in Hge. tauto. }
      split; [split|split].
      + destruct Hstop as [->|[a0 [p [-> Hlt']]]]; [exact I|].
        apply desc_snoc; [exact Hda1|].
        assert (log2 F <= log2 (sumN (a2 ++ [x; y]))) by (apply log2_mono, Hf_sum).
        lia.
      + apply Forall_app; split; [exact Hga1|]. constructor; [exact HF|constructor].
      + rewrite sumN_app. cbn [sumN]. rewrite sumN_app in Hsum. cbn [sumN] in Hsum.
        pose proof (Hf_sum (a2 ++ [x; y])). fold F in H. lia.
      + rewrite El, !app_length. cbn. lia.
    - rewrite auto_compact_none by assumption.
      split; [split|split].
      + apply desc_adj; try assumption. apply suggest_none_iff; assumption.
      + assumption.
      + rewrite sumN_app. cbn. lia.
      + rewrite app_length. cbn. lia.
  Qed.

  Lemma desc_bound : forall l, desc l -> Forall (fun x => u <= x) l -> l <> [] ->
    log2 u + N.of_nat (length l) <= log2 (hd 0 l) + 1 /\
    2 ^ log2 u * (2 ^ N.of_nat (length l) - 1) <= sumN l.
  Proof.
    induction l as [|a l IH]; intros Hd Hge Hne; [congruence|].
    inversion Hge as [|? ? Ga Hge']; subst.
    assert (Hla : log2 u <= log2 a) by (apply log2_mono; assumption).
    assert (Hpa : 2 ^ log2 a <= a) by (unfold log2; apply N.log2_spec; lia).
    destruct l as [|b l].
    - cbn [length hd sumN]. split; [lia|].
      change (2 ^ N.of_nat 1 - 1) with 1.
      assert (2 ^ log2 u <= 2 ^ log2 a) by (apply N.pow_le_mono_r; lia). lia.
    - cbn [desc] in Hd. destruct Hd as [Hlt Hd].
      destruct (IH Hd Hge' ltac:(discriminate)) as [IH1 IH2]. cbn [hd] in IH1.
      set (n := N.of_nat (length (b :: l))) in *.
      replace (N.of_nat (length (a :: b :: l))) with (n + 1) by (subst n; cbn [length]; lia).
      cbn [hd]. split; [lia|].
      cbn [sumN]. fold (sumN (b :: l)).
      assert (Hpow : 2 ^ (log2 u + n) <= 2 ^ log2 a) by (apply N.pow_le_mono_r; lia).
      rewrite N.pow_add_r in Hpow.
      rewrite N.pow_add_r. change (2 ^ 1) with 2.
      assert (1 <= 2 ^ n) by (apply pow2_ge1).
      set (A := 2 ^ log2 u) in *. set (B := 2 ^ n) in *.
      change (sumN (b :: l)) with (b + sumN l) in *.
      nia.
  Qed.

  Lemma run_adds_inv : forall n, N.of_nat n * u < 2 ^ 64 ->
    Inv (run_adds f u n) /\ sumN (run_adds f u n) <= N.of_nat n * u /\
    (length (run_adds f u n) <= n)%nat.
  Proof.
    induction n as [|n IH]; intros Hbound.
    - cbn. repeat split; auto; lia.
    - destruct IH as [Hinv [Hsum Hlen]]; [lia|].
      cbn [run_adds].
      assert (Hlt : Forall (fun x => x < 2 ^ 64) (run_adds f u n ++ [u])).
      { apply Forall_forall. intros x Hx.
        assert (x <= sumN (run_adds f u n ++ [u])) by (apply In_le_sumN; exact Hx).
        rewrite sumN_app in H. cbn [sumN] in H. lia. }
      destruct (add_step_inv _ Hinv Hlt) as [A [B C]].
      split; [exact A|split; lia].
  Qed.

  (* C17_depth (stable): after n >= 1 transactions of u bytes each, the stack
     is at most log2 n + 1 deep. *)
  Lemma depth_stable : forall n, (1 <= n)%nat -> N.of_nat n * u < 2 ^ 64 ->
    N.of_nat (length (run_adds f u n)) <= log2 (N.of_nat n) + 1.
  Proof.
    intros n Hn Hbound.
    destruct (run_adds_inv n Hbound) as [[Hd Hge] [Hsum _]].
    set (l := run_adds f u n) in *.
    destruct l as [|a l'] eqn:El; [cbn; lia|].
    destruct (desc_bound (a :: l') Hd Hge ltac:(discriminate)) as [_ Hb].
    set (d := N.of_nat (length (a :: l'))) in *.
    assert (Hu2 : u < 2 ^ (log2 u + 1)).
    { unfold log2. replace (N.log2 u + 1) with (N.succ (N.log2 u)) by lia.
      apply N.log2_spec. lia. }
    rewrite N.pow_add_r in Hu2. change (2 ^ 1) with 2 in Hu2.
    assert (Hp : 1 <= 2 ^ log2 u) by (apply pow2_ge1).
    assert (Hd1 : 1 <= 2 ^ d) by (apply pow2_ge1).
    set (A := 2 ^ log2 u) in *. set (D := 2 ^ d) in *.
    assert (HD : D <= 2 * N.of_nat n) by nia.
    assert (d <= N.log2 (2 * N.of_nat n)) by (apply N.log2_le_pow2; lia).
    rewrite N.log2_double in H by lia. unfold log2. lia.
  Qed.

  (* transient: between the Add and its compaction the stack is one deeper *)
  Lemma depth_transient : forall n, (1 <= n)%nat -> N.of_nat (S n) * u < 2 ^ 64 ->
    N.of_nat (length (run_adds f u n ++ [u])) <= log2 (N.of_nat n) + 2.
  Proof.
    intros n Hn Hb. rewrite app_length. cbn [length].
    pose proof (depth_stable n Hn ltac:(lia)). lia.
  Qed.
End Depth.

(* ---------- cost (additive sizes, unit transactions) ---------- *)

Fixpoint phi (l : list N) : N :=
  match l with [] => 0 | x :: t => x * log2 x + phi t end.

Lemma phi_app : forall a b, phi (a ++ b) = phi a + phi b.
Proof. induction a as [|x a IH]; intros b; cbn [app phi]; [lia|]. rewrite IH. lia. Qed.

Lemma phi_step : forall r L, (forall x, In x r -> log2 x + 1 <= L) -> phi r + sumN r <= sumN r * L.
Proof.
  induction r as [|x r IH]; intros L H; cbn [phi sumN]; [lia|].
  assert (log2 x + 1 <= L) by (apply H; left; reflexivity).
  assert (phi r + sumN r <= sumN r * L) by (apply IH; intros; apply H; right; assumption).
  nia.
Qed.

Lemma phi_le : forall l T, (forall x, In x l -> x <= T) -> phi l <= sumN l * log2 T.
Proof.
  induction l as [|x l IH]; intros T H; cbn [phi sumN]; [lia|].
  assert (log2 x <= log2 T) by (apply log2_mono, H; left; reflexivity).
  assert (phi l <= sumN l * log2 T) by (apply IH; intros; apply H; right; assumption).
  nia.
Qed.

Lemma additive_step : forall l,
  Forall (fun x => 1 <= x) l ->
  let l' := l ++ [1] in
  Forall (fun x => 1 <= x) (add_step sumN 1 l) /\
  sumN (add_step sumN 1 l) = sumN l + 1 /\
  phi l + compact_cost l' <= phi (add_step sumN 1 l).
Proof.
  intros l Hge l'.
  assert (Hge' : Forall (fun x => 1 <= x) l').
  { apply Forall_app; split; [assumption|constructor; [lia|constructor]]. }
  assert (Hphi' : phi l' = phi l) by (unfold l'; rewrite phi_app; cbn [phi]; change (log2 1) with 0; lia).
  assert (Hsum' : sumN l' = sumN l + 1) by (unfold l'; rewrite sumN_app; cbn [sumN]; lia).
  unfold add_step, compact_cost, auto_compact. fold l'.
  destruct (suggest l') as [[s e]|] eqn:Hs.
  - pose proof (suggest_spec _ _ _ Hge' Hs) as [a1 [a2 [b [c [Hall [Hs' [He [Hb [[cl Hcl] [Hext _]]]]]]]]]].
    unfold replace_range.
    assert (E1 : firstn s l' = a1).
    { rewrite Hall, Hs'. rewrite firstn_app, Nat.sub_diag, firstn_all. cbn. apply app_nil_r. }
    assert (E2 : skipn s l' = (a2 ++ b) ++ c).
    { rewrite Hall, Hs'. rewrite skipn_app, Nat.sub_diag, skipn_all. cbn. rewrite app_assoc. reflexivity. }
    assert (E3 : skipn e l' = c).
    { rewrite Hall, He. rewrite !app_assoc. rewrite skipn_app.
      rewrite !app_length. replace (_ - _)%nat with 0%nat by lia.
      rewrite skipn_all2 by (rewrite !app_length; lia). reflexivity. }
    rewrite E1, E2, E3.
    replace (e - s)%nat with (length (a2 ++ b)) by (rewrite He, Hs', app_length; lia).
    rewrite firstn_app, Nat.sub_diag, firstn_all. cbn [firstn]. rewrite app_nil_r.
    set (r := a2 ++ b) in *.
    assert (Hr : Forall (fun x => 1 <= x) r).
    { rewrite Hall in Hge'. apply Forall_app in Hge' as [_ G]. rewrite app_assoc in G.
      apply Forall_app in G as [G _]. exact G. }
    assert (Hc : Forall (fun x => 1 <= x) c /\ Forall (fun x => 1 <= x) a1).
    { rewrite Hall in Hge'. apply Forall_app in Hge' as [G0 G]. rewrite app_assoc in G.
      apply Forall_app in G as [_ G]. auto. }
    assert (Hstep : phi r + sumN r <= sumN r * log2 (sumN r)).
    { apply phi_step. intros x Hx. apply (class_increase a2 b cl); auto. }
    assert (Hr1 : 1 <= sumN r).
    { apply sumN_ge1; [|exact Hr]. destruct b; [cbn in Hb; lia|]. unfold r. destruct a2; discriminate. }
    split; [|split].
    + apply Forall_app; split; [tauto|]. constructor; [exact Hr1|tauto].
    + rewrite <- Hsum', Hall. subst r. rewrite !sumN_app. cbn [sumN]. lia.
    + assert (Er : phi r = phi a2 + phi b) by (unfold r; apply phi_app).
      rewrite <- Hphi', Hall. rewrite !phi_app. cbn [phi]. lia.
  - split; [exact Hge'|]. split; [exact Hsum'|]. lia.
Qed.

(* C17_cost_additive: n unit transactions rewrite at most n * log2 n units. *)
Lemma cost_additive : forall n,
  Forall (fun x => 1 <= x) (run_adds sumN 1 n) /\
  sumN (run_adds sumN 1 n) = N.of_nat n /\
  run_cost sumN 1 n <= phi (run_adds sumN 1 n).
Proof.
  induction n as [|n [IH1 [IH2 IH3]]].
  - cbn. repeat split; auto; lia.
  - cbn [run_adds run_cost].
    destruct (additive_step _ IH1) as [A [B C]].
    split; [exact A|]. split; [lia|]. lia.
Qed.

Lemma cost_bound : forall n, run_cost sumN 1 n <= N.of_nat n * log2 (N.of_nat n).
Proof.
  intros n. destruct (cost_additive n) as [_ [Hs Hc]].
  assert (phi (run_adds sumN 1 n) <= sumN (run_adds sumN 1 n) * log2 (N.of_nat n)).
  { apply phi_le. intros x Hx. rewrite <- Hs. apply In_le_sumN. exact Hx. }
  rewrite Hs in H. lia.
Qed.
