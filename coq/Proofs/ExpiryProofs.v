From Coq Require Import List NArith Arith Bool Lia ZifyBool ZifyN.
From RT Require Import Model.Bytes Model.Records Model.Compact.
Local Open Scope N_scope.

Lemma keep_log_rule : forall e l b, l_body l = Some b ->
  keep_log (Some e) l = true <->
  (e_time e = 0 \/ e_time e <= lb_time b) /\
  (e_max_index e = 0 \/ l_index l <= e_max_index e) /\
  (e_min_index e = 0 \/ e_min_index e <= l_index l).
Proof.
  intros e l b Hb. unfold keep_log. rewrite Hb.
  destruct (N.ltb_spec 0 (e_time e)); destruct (N.ltb_spec (lb_time b) (e_time e));
  destruct (N.eqb_spec (e_max_index e) 0); destruct (N.ltb_spec (e_max_index e) (l_index l));
  destruct (N.eqb_spec (e_min_index e) 0); destruct (N.ltb_spec (l_index l) (e_min_index e));
  cbn [negb andb]; split; intros; try discriminate; try lia.
Qed.
