(* The byte-level stack of Model/StackSeq.v (the functions tied to the Go
   Stack): every operation preserves what readers see.  Composition of the
   table round trip (TableProofs), the list-level compaction theorems
   (CompactProofs), the merged iterator (MergeProofs), the name validator
   (RefnameProofs) and the segment chooser (SegmentsProofs).
   Standard library only. *)
From Coq Require Import List NArith ZArith Arith Bool Lia ZifyN ZifyNat ZifyBool Sorted.
(* TableProofs first: its test fixtures t_refs / t_logs must not shadow the fields of Compact.table *)
From RT Require Import Proofs.BytesProofs Proofs.CodecProofs Proofs.BlockProofs Proofs.TableProofs.
From RT Require Import Model.Bytes Model.Result Model.Records Model.RecCodec Model.Block Model.Writer
  Model.Reader Model.Heap Model.Merge Model.Overlay Model.Compact Model.Segments Model.Refname Model.StackSeq.
From RT Require Import Proofs.MergeProofs Proofs.CompactProofs Proofs.SegmentsProofs Proofs.RefnameProofs.
Import ListNotations.
Local Open Scope N_scope.

#[local] Arguments N.div : simpl never.
#[local] Arguments N.modulo : simpl never.
#[local] Arguments N.mul : simpl never.
#[local] Arguments N.add : simpl never.
#[local] Arguments N.sub : simpl never.
#[local] Arguments N.pow : simpl never.
#[local] Arguments N.of_nat : simpl never.
#[local] Arguments N.to_nat : simpl never.
#[local] Arguments N.leb : simpl never.
#[local] Arguments N.ltb : simpl never.

(* ------------------------------------------------------------------ *)
(* message normalisation and hash filling are idempotent               *)
(* ------------------------------------------------------------------ *)

Lemma trim_rev_id : forall r, (forall x, In x r -> x <> 10) -> trim_right_nl_rev r = r.
Proof.
  intros [|b t] H; [reflexivity|]. cbn [trim_right_nl_rev].
  destruct (N.eqb_spec b 10) as [E|E]; [|reflexivity].
  exfalso. apply (H b); [left; reflexivity|exact E].
Qed.

Lemma existsb_nl_false : forall t, existsb (N.eqb 10) t = false -> forall x, In x t -> x <> 10.
Proof.
  intros t H x Hx E. subst x.
  assert (X : existsb (N.eqb 10) t = true) by (apply existsb_exists; exists 10; split; [exact Hx|reflexivity]).
  congruence.
Qed.

Lemma norm_msg_idem : forall exact m m1, norm_msg exact m = Some m1 -> norm_msg exact m1 = Some m1.
Proof.
  intros exact m m1 H. unfold norm_msg in *. destruct exact; [reflexivity|].
  destruct (existsb (N.eqb 10) (trim_right_nl m)) eqn:E; [discriminate|]. injection H as <-.
  pose proof (existsb_nl_false _ E) as NN.
  assert (T : trim_right_nl (trim_right_nl m ++ [10]) = trim_right_nl m).
  { set (t := trim_right_nl m) in *. unfold trim_right_nl at 1. rewrite rev_app_distr. cbn [rev app].
    cbn [trim_right_nl_rev]. rewrite N.eqb_refl. rewrite trim_rev_id; [apply rev_involutive|].
    intros x Hx. apply NN. apply in_rev. exact Hx. }
  rewrite T, E. reflexivity.
Qed.

Lemma norm_log_idem : forall exact l l1, norm_log exact l = Some l1 -> norm_log exact l1 = Some l1.
Proof.
  intros exact l l1 H. unfold norm_log in H. destruct (l_body l) as [b|] eqn:EB.
  - destruct (norm_msg exact (lb_msg b)) as [m|] eqn:EM; [|discriminate]. injection H as <-.
    unfold norm_log. cbn [l_body lb_msg l_name l_index lb_old lb_new lb_name lb_email lb_time lb_tz].
    rewrite (norm_msg_idem _ _ _ EM). reflexivity.
  - injection H as <-. unfold norm_log. rewrite EB. reflexivity.
Qed.

Lemma fill_log_idem : forall hs l, fill_log hs (fill_log hs l) = fill_log hs l.
Proof.
  intros hs [n i [b|]]; unfold fill_log; cbn [l_name l_index l_body option_map]; [|reflexivity].
  reflexivity.
Qed.

Lemma norm_log_fill : forall exact hs l, norm_log exact l = Some l ->
  norm_log exact (fill_log hs l) = Some (fill_log hs l).
Proof.
  intros exact hs [n i [b|]] H; unfold norm_log, fill_log in *;
    cbn [l_name l_index l_body option_map fill_body lb_msg lb_old lb_new lb_name lb_email lb_time lb_tz] in *;
    [|reflexivity].
  destruct (norm_msg exact (lb_msg b)) as [m|] eqn:EM; [|discriminate].
  injection H as H. apply (f_equal lb_msg) in H. cbn [lb_msg] in H. subst m. reflexivity.
Qed.

Lemma fill_log_key : forall hs l, log_key (fill_log hs l) = log_key l.
Proof. reflexivity. Qed.

Lemma zeros_length : forall n, length (zeros n) = n.
Proof. intros n. unfold zeros. apply repeat_length. Qed.

Lemma log_ok_fill : forall hs l, log_ok hs l -> log_ok hs (fill_log hs l).
Proof.
  intros hs [n i [b|]] (A & B & C); unfold log_ok, fill_log in *; cbn [l_name l_index l_body option_map] in *;
    (split; [exact A|]; split; [exact B|]); [|exact I].
  destruct C as (C1 & C2 & C3). unfold body_ok, fill_body.
  cbn [lb_old lb_new lb_name lb_email lb_time lb_tz lb_msg].
  split; [|split; [|exact C3]].
  - destruct (lb_old b); cbn [fill_hash]; [exact C1|apply zeros_length].
  - destruct (lb_new b); cbn [fill_hash]; [exact C2|apply zeros_length].
Qed.

(* ------------------------------------------------------------------ *)
(* canonical (read-back) form of log records                           *)
(* ------------------------------------------------------------------ *)

(* a log record as a reader returns it: message already normalised, absent hashes
   already zero-filled, and encodable *)
Definition log_canon (cfg : config) (l : log_record) : Prop :=
  norm_log (c_exact_log cfg) l = Some l /\ fill_log (hash_size cfg) l = l /\
  log_ok (hash_size cfg) l /\ N.of_nat (length (log_key l)) < 2 ^ 60.

Definition logs_canon (cfg : config) (logs : list log_record) : Prop :=
  Forall (log_canon cfg) logs /\ sorted log_record log_key logs.

Lemma logs_canon_nil : forall cfg, logs_canon cfg [].
Proof. intros cfg. split; constructor. Qed.

Lemma logs_canon_ok : forall cfg logs, logs_canon cfg logs -> logs_ok cfg logs.
Proof.
  intros cfg logs [F S]. split; [|exact S].
  eapply Forall_impl; [|exact F]. cbv beta. intros l (A & _ & C & D). split; [|exact D].
  intros l1 H. rewrite A in H. injection H as <-. exact C.
Qed.

Lemma logs_canon_read : forall cfg logs, logs_canon cfg logs -> read_logs cfg logs = Some logs.
Proof.
  intros cfg logs [F _]. unfold read_logs.
  assert (E : norm_logs (c_exact_log cfg) logs = Some logs).
  { induction F as [|l t (A & _) F IH]; [reflexivity|]. cbn [norm_logs]. rewrite A, IH. reflexivity. }
  rewrite E. cbn [option_map]. f_equal.
  induction F as [|l t (_ & B & _) F IH]; [reflexivity|]. cbn [map]. rewrite B. f_equal. apply IH.
  cbn [norm_logs] in E. destruct (norm_log (c_exact_log cfg) l); [|discriminate].
  destruct (norm_logs (c_exact_log cfg) t) as [x|] eqn:X; [|discriminate]. injection E as _ E. rewrite E. reflexivity.
Qed.

(* the converse: what is read back from a table written from [logs_ok] logs is canonical *)
Lemma read_logs_canon : forall cfg logs logs', logs_ok cfg logs -> read_logs cfg logs = Some logs' ->
  logs_canon cfg logs'.
Proof.
  intros cfg logs logs' [LO LS] H. unfold read_logs in H.
  destruct (norm_logs (c_exact_log cfg) logs) as [nl|] eqn:NL; [|discriminate]. cbn [option_map] in H.
  injection H as <-. pose proof (norm_logs_Forall2 _ _ _ NL) as F2. clear NL.
  revert LO LS. induction F2 as [|l l1 logs nl N1 F2 IH]; intros LO LS.
  - apply logs_canon_nil.
  - pose proof (Forall_inv LO) as [OK KL]. pose proof (Forall_inv_tail LO) as LO'.
    inversion LS as [|? ? LS' LF]; subst. destruct (IH LO' LS') as [I1 I2].
    pose proof (norm_log_key _ _ _ N1) as K1. cbn [map]. split.
    + constructor; [|exact I1]. split; [|split; [|split]].
      * apply norm_log_fill. eapply norm_log_idem. exact N1.
      * apply fill_log_idem.
      * apply log_ok_fill. apply OK. exact N1.
      * rewrite fill_log_key, K1. exact KL.
    + apply sorted_cons; [exact I2|]. rewrite Forall_map. unfold key_lt. rewrite fill_log_key, K1.
      clear - F2 LF. induction F2 as [|a a1 t t1 Na F2 IH]; [constructor|].
      pose proof (Forall_inv LF) as A. pose proof (Forall_inv_tail LF) as LF'.
      constructor; [|apply IH; exact LF']. rewrite fill_log_key, (norm_log_key _ _ _ Na). exact A.
Qed.

Lemma read_logs_idem : forall cfg logs logs', logs_ok cfg logs -> read_logs cfg logs = Some logs' ->
  read_logs cfg logs' = Some logs'.
Proof. intros cfg logs logs' H1 H2. apply logs_canon_read. eapply read_logs_canon; eassumption. Qed.

(* ------------------------------------------------------------------ *)
(* well-formed tables and stacks                                       *)
(* ------------------------------------------------------------------ *)

Definition table_wf (cfg : config) (t : table) : Prop :=
  t_min t <= t_max t /\ t_max t < two64 /\ t_sha256 t = c_sha256 cfg /\
  refs_ok cfg (t_min t) (t_max t) (t_refs t) /\ logs_canon cfg (t_logs t).

Lemma table_ext : forall t c : table,
  t_min t = t_min c -> t_max t = t_max c -> t_sha256 t = t_sha256 c ->
  t_refs t = t_refs c -> t_logs t = t_logs c -> t = c.
Proof.
  intros [a1 a2 a3 a4 a5] [b1 b2 b3 b4 b5]. cbn [t_min t_max t_sha256 t_refs t_logs]. congruence.
Qed.

Lemma refs_of_map : forall refs, refs_of (map RecRef refs) = refs.
Proof. induction refs as [|r t IH]; [reflexivity|]. cbn [map refs_of flat_map app]. f_equal. exact IH. Qed.

Lemma logs_of_map : forall logs, logs_of (map RecLog logs) = logs.
Proof. induction logs as [|r t IH]; [reflexivity|]. cbn [map logs_of flat_map app]. f_equal. exact IH. Qed.

(* ------------------------------------------------------------------ *)
(* two facts about the writer's output beyond [written]                *)
(* ------------------------------------------------------------------ *)

Lemma chunks_layout_nil : forall deflate c mn mx off cs,
  chunks_at deflate c mn mx off cs -> layout cs = [] -> cs = [].
Proof.
  intros deflate c mn mx off [|k t] H E; [reflexivity|]. exfalso.
  cbn [chunks_at] in H. destruct H as [H _]. apply chunk_at_len in H.
  unfold layout in E. cbn [flat_map] in E. apply (f_equal (@length N)) in E.
  unfold ck_bytes in E. rewrite !app_length in E. cbn [length] in E. lia.
Qed.

(* Close reports "empty" only when nothing was added *)
Lemma write_empty : forall deflate cfg mn mx refs logs data,
  write_table deflate cfg mn mx refs logs = Ok (true, data) -> refs = [] /\ logs = [].
Proof.
  intros deflate cfg mn mx refs logs data H. unfold write_table in H.
  destruct (w_new cfg) as [st0| | |] eqn:N0; cbn [bind] in H; try discriminate.
  destruct (w_new_SI deflate cfg mn mx st0 N0) as (BS & S0 & B0 & G0). cbv zeta in S0, B0, G0.
  destruct (add_refs deflate (set_limits st0 mn mx) refs) as [st1| | |] eqn:AR; cbn [bind] in H; try discriminate.
  destruct (add_refs_SI _ _ _ _ _ _ _ _ _ _ S0 B0 AR) as (sec1 & cur1 & S1 & B1 & G1). cbn [app] in S1.
  destruct (add_logs deflate st1 logs) as [st2| | |] eqn:AL; cbn [bind] in H; try discriminate.
  unfold w_close in H.
  destruct (finish_public_section deflate st2) as [st3| | |] eqn:F; cbn [bind] in H; try discriminate.
  apply Ok_inj in H. injection H as E1 _. apply N.eqb_eq in E1.
  destruct logs as [|l t].
  - cbn [add_logs] in AL. apply Ok_inj in AL. subst st2. split; [|reflexivity].
    destruct (fps_ref_spec _ _ _ _ _ _ _ _ _ S1 B1 F) as (rsec & more & W & _ & _ & R & _).
    pose proof (wi_next _ _ _ _ _ _ _ W) as NX. rewrite E1 in NX.
    assert (LN : layout (rsec ++ more) = []) by (destruct (layout (rsec ++ more)); [reflexivity|cbn [length] in NX; lia]).
    apply (chunks_layout_nil _ _ _ _ _ _ (wi_chunks _ _ _ _ _ _ _ W)) in LN.
    apply app_eq_nil in LN. destruct LN as [-> _]. cbn [map concat] in R.
    symmetry in R. apply map_eq_nil in R. apply map_eq_nil in R. exact R.
  - exfalso. cbn [add_logs] in AL.
    destruct (w_add_log deflate st1 l) as [st1'| | |] eqn:A1; cbn [bind] in AL; try discriminate.
    destruct (w_add_log_first _ _ _ _ _ _ _ _ _ _ S1 B1 ltac:(rewrite G1, G0; reflexivity) A1)
      as (l1 & rsec & mid & sec' & cur' & N1 & P1 & T1 & R1 & M1).
    destruct (add_logs_PL _ _ _ _ _ _ _ _ _ _ _ P1 AL) as (nl & sec2 & cur2 & N2 & P2).
    destruct P2 as [HS Hb _ _ _].
    destruct (fps_log_spec _ _ _ _ _ _ _ _ _ _ HS Hb F) as (lsec & lv & W & _ & R & _).
    pose proof (wi_next _ _ _ _ _ _ _ W) as NX. rewrite E1 in NX.
    assert (LN : layout ((unpad (rsec ++ mid) ++ lsec) ++ concat lv) = [])
      by (destruct (layout ((unpad (rsec ++ mid) ++ lsec) ++ concat lv)); [reflexivity|cbn [length] in NX; lia]).
    apply (chunks_layout_nil _ _ _ _ _ _ (wi_chunks _ _ _ _ _ _ _ W)) in LN.
    apply app_eq_nil in LN. destruct LN as [LN _]. apply app_eq_nil in LN. destruct LN as [_ ->].
    cbn [map concat app] in R. discriminate.
Qed.

(* conversely, nothing added: Close reports "empty" *)
Lemma write_nil : forall deflate cfg mn mx, cfg_ok cfg ->
  exists d, write_table deflate cfg mn mx [] [] = Ok (true, d).
Proof.
  intros deflate cfg mn mx H. unfold write_table, w_new.
  rewrite (cfg_ok_not_small cfg H). destruct H as [H _].
  destruct (N.leb_spec 16777216 (c_block_size cfg)) as [L|L]; [lia|]. clear H L.
  cbn [bind add_refs add_logs].
  match goal with |- exists d, ?X = _ =>
    assert (Q : match X with Ok (true, _) => True | _ => False end) end.
  { destruct cfg as [un bs sk ri sha ex]. destruct un, sk, sha; vm_compute; exact I. }
  match goal with |- exists d, ?X = _ => destruct X as [[[|] d]| | |]; try contradiction end.
  exists d. reflexivity.
Qed.

(* a non-empty table file is longer than header + footer: its compaction size is positive *)
Lemma written_size : forall deflate cfg mn mx refs logs data,
  write_table deflate cfg mn mx refs logs = Ok (false, data) -> 1 <= compaction_size cfg data.
Proof.
  intros deflate cfg mn mx refs logs data H.
  destruct (written deflate cfg mn mx refs logs data H) as (nl & _ & _ & fcs & st1 & D & NE & CH & _).
  destruct fcs as [|k0 rest0]; [congruence|].
  destruct (layout_head _ _ _ _ _ _ CH) as (body & LH).
  assert (L : (length data = header_size cfg + 1 + length body + footer_size cfg)%nat).
  { rewrite D, LH. unfold footer_st, footer_of, be32, be64.
    rewrite !app_length, !be_bytes_length, !header_bytes_length. cbn [length].
    unfold header_size, footer_size, cfg_defaults. cbn [c_sha256]. destruct (c_sha256 cfg); lia. }
  unfold compaction_size. rewrite L. unfold header_size, footer_size. destruct (c_sha256 cfg); lia.
Qed.

(* ------------------------------------------------------------------ *)
(* list-level facts about the compacted table of well-formed tables     *)
(* ------------------------------------------------------------------ *)

Local Notation dft := {| t_min := 0; t_max := 0; t_sha256 := false; t_refs := []; t_logs := [] |}.

Lemma in_sub_nth : forall A (ts : list A) first n x d,
  In x (firstn n (skipn first ts)) ->
  exists k, (first <= k < first + n)%nat /\ (k < length ts)%nat /\ nth k ts d = x.
Proof.
  intros A. induction ts as [|t rest IH]; intros first n x d H.
  - rewrite skipn_nil, firstn_nil in H. destruct H.
  - destruct first as [|f].
    + cbn [skipn] in H. destruct n as [|n']; [destruct H|]. cbn [firstn] in H. destruct H as [<-|H].
      * exists 0%nat. cbn [length nth]. repeat split; lia.
      * destruct (IH 0%nat n' x d H) as (k & K1 & K2 & K3). exists (S k). cbn [length nth].
        repeat split; try lia. exact K3.
    + cbn [skipn] in H. destruct (IH f n x d H) as (k & K1 & K2 & K3). exists (S k). cbn [length nth].
      repeat split; try lia. exact K3.
Qed.

Lemma ranges_lower : forall ts m, ranges_ok (Some m) ts = true ->
  Forall (fun t => t_min t <= t_max t) ts -> forall x, In x ts -> m < t_min x.
Proof.
  induction ts as [|a ts IH]; intros m H F x Hx; [destruct Hx|].
  rewrite ranges_ok_cons in H. apply andb_true_iff in H. destruct H as [H1 H2].
  cbn [chk] in H1. apply N.ltb_lt in H1. inversion F as [|? ? Fa F']; subst.
  destruct Hx as [<-|Hx]; [exact H1|]. pose proof (IH _ H2 F' x Hx). lia.
Qed.

Lemma ranges_nth_mono : forall ts lm i j, ranges_ok lm ts = true ->
  Forall (fun t => t_min t <= t_max t) ts -> (i <= j)%nat -> (j < length ts)%nat ->
  t_min (nth i ts dft) <= t_min (nth j ts dft) /\ t_max (nth i ts dft) <= t_max (nth j ts dft).
Proof.
  induction ts as [|a ts IH]; intros lm i j H F Hij Hj; [cbn [length] in Hj; lia|].
  rewrite ranges_ok_cons in H. apply andb_true_iff in H. destruct H as [H1 H2].
  inversion F as [|? ? Fa F']; subst. cbn [length] in Hj.
  destruct i as [|i]; destruct j as [|j]; cbn [nth]; try lia.
  - assert (Hin : In (nth j ts dft) ts) by (apply nth_In; lia).
    pose proof (ranges_lower _ _ H2 F' _ Hin) as L.
    rewrite Forall_forall in F'. pose proof (F' _ Hin) as M. cbv beta in M. lia.
  - apply (IH (Some (t_max a))); try assumption; lia.
Qed.

Lemma table_wf_sorted : forall cfg t, table_wf cfg t ->
  sorted ref_record ref_key (t_refs t) /\ sorted log_record log_key (t_logs t).
Proof. intros cfg t (_ & _ & _ & [_ RS] & [_ LS]). split; [exact RS|exact LS]. Qed.

Lemma tables_wf_sorted : forall cfg ts, Forall (table_wf cfg) ts -> tables_sorted ts.
Proof.
  intros cfg ts F. split; rewrite Forall_map; eapply Forall_impl; try exact F; cbv beta;
    intros t W; apply (table_wf_sorted cfg t W).
Qed.

Lemma table_wf_range : forall cfg ts, Forall (table_wf cfg) ts -> Forall (fun t => t_min t <= t_max t) ts.
Proof. intros cfg ts F. eapply Forall_impl; [|exact F]. cbv beta. intros t W. apply W. Qed.

(* the table written by compactLocked for a range of well-formed tables is in the
   writer's domain, and its logs are already in read-back form *)
Lemma compact_table_wf : forall cfg first last e ts,
  Forall (table_wf cfg) ts -> new_merged_ok (c_sha256 cfg) ts = true ->
  (first <= last)%nat -> (last < length ts)%nat ->
  table_wf cfg (compact_table first last e ts).
Proof.
  intros cfg first last e ts F M H1 H2.
  pose proof (table_wf_range _ _ F) as FR.
  unfold new_merged_ok in M. apply andb_true_iff in M. destruct M as [MR MS].
  set (B := firstn (last - first + 1) (skipn first ts)).
  assert (HB : forall x, In x B -> table_wf cfg x /\
            t_min (nth first ts dft) <= t_min x /\ t_max x <= t_max (nth last ts dft)).
  { intros x Hx. destruct (in_sub_nth _ ts first (last - first + 1) x dft Hx) as (k & K1 & K2 & K3).
    subst x. split.
    - rewrite Forall_forall in F. apply F. apply nth_In. exact K2.
    - destruct (ranges_nth_mono ts None first k MR FR ltac:(lia) K2) as [A _].
      destruct (ranges_nth_mono ts None k last MR FR ltac:(lia) H2) as [_ C]. split; assumption. }
  assert (SR : Forall (sorted ref_record ref_key) (map t_refs B)).
  { rewrite Forall_map. apply Forall_forall. intros x Hx. apply (table_wf_sorted cfg x). apply HB. exact Hx. }
  assert (SL : Forall (sorted log_record log_key) (map t_logs B)).
  { rewrite Forall_map. apply Forall_forall. intros x Hx. apply (table_wf_sorted cfg x). apply HB. exact Hx. }
  assert (W1 : table_wf cfg (nth first ts dft)) by (rewrite Forall_forall in F; apply F; apply nth_In; lia).
  assert (W2 : table_wf cfg (nth last ts dft)) by (rewrite Forall_forall in F; apply F; apply nth_In; lia).
  destruct (ranges_nth_mono ts None first last MR FR H1 H2) as [Q1 Q2].
  unfold table_wf, compact_table. fold B. cbn [t_min t_max t_sha256 t_refs t_logs].
  rewrite !merged_scan_overlay by assumption.
  split; [destruct W1 as (A1 & _); lia|]. split; [apply W2|]. split; [apply W1|]. split.
  - assert (G : refs_ok cfg (t_min (nth first ts dft)) (t_max (nth last ts dft)) (overlay ref_key (map t_refs B))).
    { split; [|apply overlay_sorted; exact SR]. apply Forall_forall. intros r Hr.
      destruct (overlay_in _ ref_key _ _ SR Hr) as (l & Hl & Hrl).
      apply in_map_iff in Hl. destruct Hl as (x & <- & Hx).
      destruct (HB x Hx) as ((_ & _ & _ & [RO _] & _) & L1 & L2).
      rewrite Forall_forall in RO. destruct (RO r Hrl) as (A1 & A2 & A3 & A4).
      split; [exact A1|]. split; [exact A2|]. split; [exact A3|]. lia. }
    destruct (Nat.eqb first 0); [|exact G]. destruct G as [G1 G2]. split.
    + apply Forall_forall. intros r Hr. apply filter_In in Hr. rewrite Forall_forall in G1. apply G1. apply Hr.
    + apply (filter_sorted ref_record ref_key). exact G2.
  - split.
    + apply Forall_forall. intros l Hl. apply filter_In in Hl. destruct Hl as [Hl _].
      destruct (overlay_in _ log_key _ _ SL Hl) as (ll & Hll & Hlll).
      apply in_map_iff in Hll. destruct Hll as (x & <- & Hx).
      destruct (HB x Hx) as ((_ & _ & _ & _ & [LC _]) & _).
      rewrite Forall_forall in LC. apply LC. exact Hlll.
    + apply (filter_sorted log_record log_key). apply overlay_sorted. exact SL.
Qed.

(* what readers see through the spliced list, in terms of compact_range *)
Lemma splice_overlays : forall first last e ts (mid : list table),
  let c := compact_table first last e ts in
  (mid = [] /\ t_refs c = [] /\ t_logs c = []) \/
  (exists t, mid = [t] /\ t_refs t = t_refs c /\ t_logs t = t_logs c) ->
  overlay ref_key (map t_refs (firstn first ts ++ mid ++ skipn (S last) ts)) =
    overlay ref_key (map t_refs (compact_range first last e ts)) /\
  overlay log_key (map t_logs (firstn first ts ++ mid ++ skipn (S last) ts)) =
    overlay log_key (map t_logs (compact_range first last e ts)).
Proof.
  intros first last e ts mid c H. unfold compact_range. fold c.
  rewrite (overlay_maybe_drop ref_record ref_key) by apply table_empty_refs.
  rewrite (overlay_maybe_drop log_record log_key) by apply table_empty_logs.
  destruct H as [(-> & E1 & E2)|(t & -> & E1 & E2)].
  - rewrite E1, E2, !overlay_nil_mid. cbn [app]. rewrite !map_app. split; reflexivity.
  - rewrite !map_app. cbn [map app]. rewrite E1, E2. split; reflexivity.
Qed.

(* the spliced list has increasing ranges and the stack's hash *)
Lemma splice_merged_ok : forall sha first last ts (mid : list table),
  new_merged_ok sha ts = true -> Forall (fun t => t_min t <= t_max t) ts ->
  (first <= last)%nat -> (last < length ts)%nat ->
  (mid = [] \/ exists t, mid = [t] /\ t_min t = t_min (nth first ts dft) /\
                         t_max t = t_max (nth last ts dft) /\ t_sha256 t = sha) ->
  new_merged_ok sha (firstn first ts ++ mid ++ skipn (S last) ts) = true.
Proof.
  intros sha first last ts mid H HF H1 H2 Hm. unfold new_merged_ok in *.
  apply andb_true_iff in H. destruct H as [Hr Hs].
  destruct Hm as [->|(t & -> & E1 & E2 & E3)]; cbn [app].
  - destruct (ranges_splice first ts None last (compact_table first last None ts) Hr HF H1 H2 eq_refl eq_refl) as [_ R2].
    rewrite R2. rewrite forallb_app, (forallb_firstn _ _ first ts Hs), (forallb_skipn _ _ (S last) ts Hs). reflexivity.
  - destruct (ranges_splice first ts None last t Hr HF H1 H2 E1 E2) as [R1 _].
    rewrite R1. rewrite forallb_app. cbn [forallb].
    rewrite (forallb_firstn _ _ first ts Hs), (forallb_skipn _ _ (S last) ts Hs), E3.
    destruct sha; reflexivity.
Qed.

(* ------------------------------------------------------------------ *)
(* well-formed stack states                                            *)
(* ------------------------------------------------------------------ *)

(* every table in the writer's domain with read-back logs, update-index ranges strictly
   increasing and of the stack's hash (NewMerged's check), compaction sizes positive *)
Definition stack_wf (cfg : config) (st : list stbl) : Prop :=
  Forall (table_wf cfg) (tables st) /\ new_merged_ok (c_sha256 cfg) (tables st) = true /\
  Forall (fun p : stbl => 1 <= snd p) st.

Lemma stack_wf_nil : forall cfg, stack_wf cfg [].
Proof. intros cfg. split; [constructor|]. split; [reflexivity|constructor]. Qed.

Lemma stack_wf_sorted : forall cfg st, stack_wf cfg st -> tables_sorted (tables st).
Proof. intros cfg st (F & _). eapply tables_wf_sorted. exact F. Qed.

Lemma tables_app : forall a b, tables (a ++ b) = tables a ++ tables b.
Proof. intros a b. unfold tables. apply map_app. Qed.

Lemma tables_length : forall st, length (tables st) = length st.
Proof. intros st. unfold tables. apply map_length. Qed.

Lemma tables_splice : forall first last (st mid : list stbl),
  tables (firstn first st ++ mid ++ skipn (S last) st) =
  firstn first (tables st) ++ tables mid ++ skipn (S last) (tables st).
Proof.
  intros first last st mid. rewrite !tables_app. unfold tables. rewrite firstn_map, skipn_map. reflexivity.
Qed.

Lemma splice_wf : forall cfg first last st (mid : list stbl),
  stack_wf cfg st -> (first <= last)%nat -> (last < length st)%nat ->
  (mid = [] \/ exists t sz, mid = [(t, sz)] /\ table_wf cfg t /\
       t_min t = t_min (nth first (tables st) dft) /\ t_max t = t_max (nth last (tables st) dft) /\ 1 <= sz) ->
  stack_wf cfg (firstn first st ++ mid ++ skipn (S last) st).
Proof.
  intros cfg first last st mid (F & M & Z) H1 H2 Hm. unfold stack_wf. rewrite tables_splice.
  split; [|split].
  - apply Forall_app. split; [apply Forall_firstn; exact F|]. apply Forall_app. split; [|apply Forall_skipn; exact F].
    destruct Hm as [->|(t & sz & -> & W & _)]; [constructor|]. cbn [tables map fst]. constructor; [exact W|constructor].
  - apply splice_merged_ok; try assumption.
    + eapply table_wf_range. exact F.
    + rewrite tables_length. exact H2.
    + destruct Hm as [->|(t & sz & -> & W & E1 & E2 & _)]; [left; reflexivity|]. right. exists t. cbn [tables map fst].
      split; [reflexivity|]. split; [exact E1|]. split; [exact E2|]. apply W.
  - apply Forall_app. split; [apply Forall_firstn; exact Z|]. apply Forall_app. split; [|apply Forall_skipn; exact Z].
    destruct Hm as [->|(t & sz & -> & _ & _ & _ & S1)]; [constructor|]. constructor; [exact S1|constructor].
Qed.

(* ------------------------------------------------------------------ *)
(* pushing one table on a stack: the view                              *)
(* ------------------------------------------------------------------ *)

Section GenView.
  Variable R : Type.
  Variable key : R -> bytes.
  Variable is_del : R -> bool.
  Notation srt := (sorted R key).

  Lemma overlay_snoc : forall ts x, overlay key (ts ++ [x]) = merge2 key (overlay key ts) x.
  Proof. intros ts x. unfold overlay. rewrite fold_left_app. reflexivity. Qed.

  Lemma filter_merge2_live : forall O x, srt O -> srt x ->
    filter (live is_del) (merge2 key O x) = filter (live is_del) (merge2 key (filter (live is_del) O) x).
  Proof.
    intros O x HO Hx.
    assert (HF : srt (filter (live is_del) O)) by (apply filter_sorted; exact HO).
    apply (sorted_lookup_ext R key).
    - apply filter_sorted, merge2_sorted; assumption.
    - apply filter_sorted, merge2_sorted; assumption.
    - intros k. rewrite !lookup_filter by (apply merge2_sorted; assumption).
      rewrite !merge2_lookup by assumption. rewrite lookup_filter by assumption.
      destruct (lookup key k x); [reflexivity|]. destruct (lookup key k O) as [r|]; [|reflexivity].
      destruct (live is_del r) eqn:E; [rewrite E|]; reflexivity.
  Qed.

  (* what the run-time oracle computes: the old view merged with the new table, deletions dropped *)
  Lemma view_snoc : forall ts x, Forall srt ts -> srt x ->
    view key is_del (ts ++ [x]) = filter (live is_del) (merge2 key (view key is_del ts) x).
  Proof.
    intros ts x Hts Hx. unfold view. rewrite overlay_snoc. apply filter_merge2_live; [|exact Hx].
    apply overlay_sorted. exact Hts.
  Qed.

  Lemma view_sorted : forall ts, Forall srt ts -> srt (view key is_del ts).
  Proof. intros ts H. unfold view. apply filter_sorted, overlay_sorted. exact H. Qed.

  Lemma view_live : forall ts r, In r (view key is_del ts) -> is_del r = false.
  Proof.
    intros ts r H. unfold view in H. apply filter_In in H. destruct H as [_ H]. unfold live in H.
    destruct (is_del r); [discriminate|reflexivity].
  Qed.

  Lemma view_merge_nil : forall ts, filter (live is_del) (merge2 key (view key is_del ts) []) = view key is_del ts.
  Proof. intros ts. rewrite merge2_nil_r. unfold view. apply filter_idem. Qed.
End GenView.

(* ------------------------------------------------------------------ *)
(* the live names after an accepted transaction                        *)
(* ------------------------------------------------------------------ *)

Definition tx_of (refs : list ref_record) : tx := map (fun r => (r_name r, ref_is_del r)) refs.

Lemma tx_of_names : forall refs, map fst (tx_of refs) = map r_name refs.
Proof. intros refs. unfold tx_of. rewrite map_map. reflexivity. Qed.

Lemma sorted_names_asc : forall l, sorted ref_record ref_key l -> asc (map r_name l).
Proof. intros l H. unfold asc. apply sorted_map. exact H. Qed.

Lemma tx_of_ok : forall refs, sorted ref_record ref_key refs -> Forall (fun r => r_name r <> []) refs ->
  tx_ok (tx_of refs).
Proof.
  intros refs S F. split.
  - rewrite tx_of_names. apply sorted_names_asc. exact S.
  - unfold tx_of. rewrite Forall_map. exact F.
Qed.

Lemma tx_adds_in : forall refs x, In x (tx_adds (tx_of refs)) <->
  exists r, In r refs /\ r_name r = x /\ ref_is_del r = false.
Proof.
  intros refs x. unfold tx_adds, tx_of. rewrite in_map_iff. split.
  - intros (p & E & Hp). apply filter_In in Hp. destruct Hp as [Hp Q]. apply in_map_iff in Hp.
    destruct Hp as (r & <- & Hr). cbn [fst snd] in *. exists r. split; [exact Hr|]. split; [exact E|].
    destruct (ref_is_del r); [discriminate|reflexivity].
  - intros (r & Hr & E & D). exists (r_name r, ref_is_del r). split; [exact E|]. apply filter_In. split.
    + apply in_map_iff. exists r. auto.
    + cbn [snd]. rewrite D. reflexivity.
Qed.

Lemma tx_dels_in : forall refs x, In x (tx_dels (tx_of refs)) <->
  exists r, In r refs /\ r_name r = x /\ ref_is_del r = true.
Proof.
  intros refs x. unfold tx_dels, tx_of. rewrite in_map_iff. split.
  - intros (p & E & Hp). apply filter_In in Hp. destruct Hp as [Hp Q]. apply in_map_iff in Hp.
    destruct Hp as (r & <- & Hr). cbn [fst snd] in *. exists r. auto.
  - intros (r & Hr & E & D). exists (r_name r, ref_is_del r). split; [exact E|]. apply filter_In. split.
    + apply in_map_iff. exists r. auto.
    + cbn [snd]. exact D.
Qed.

Lemma asc_ext : forall l1 l2, asc l1 -> asc l2 -> (forall x, In x l1 <-> In x l2) -> l1 = l2.
Proof.
  induction l1 as [|a l1 IH]; intros [|b l2] H1 H2 H.
  - reflexivity.
  - exfalso. apply (H b). left. reflexivity.
  - exfalso. apply (H a). left. reflexivity.
  - apply asc_inv in H1. destruct H1 as [A1 A2]. apply asc_inv in H2. destruct H2 as [B1 B2].
    assert (E : a = b).
    { destruct (proj1 (H a) (or_introl eq_refl)) as [E|Ha]; [symmetry; exact E|].
      destruct (proj2 (H b) (or_introl eq_refl)) as [E|Hb]; [exact E|].
      pose proof (B2 _ Ha) as L1. pose proof (A2 _ Hb) as L2.
      rewrite (BytesProofs.bytes_ltb_asym _ _ L1) in L2. discriminate. }
    subst b. f_equal. apply IH; try assumption. intros x. split; intros Hx.
    + destruct (proj1 (H x) (or_intror Hx)) as [E|Hx']; [|exact Hx'].
      subst x. pose proof (A2 _ Hx) as L. rewrite BytesProofs.bytes_ltb_irrefl in L. discriminate.
    + destruct (proj2 (H x) (or_intror Hx)) as [E|Hx']; [|exact Hx'].
      subst x. pose proof (B2 _ Hx) as L. rewrite BytesProofs.bytes_ltb_irrefl in L. discriminate.
Qed.

(* the names a reader sees after the table is pushed = apply_tx on the names seen before *)
Lemma names_apply_tx : forall V refs,
  sorted ref_record ref_key V -> (forall r, In r V -> ref_is_del r = false) ->
  sorted ref_record ref_key refs -> Forall (fun r => r_name r <> []) refs ->
  map r_name (filter (live ref_is_del) (merge2 ref_key V refs)) = apply_tx (map r_name V) (tx_of refs).
Proof.
  intros V refs SV LV SR NE.
  pose proof (tx_of_ok refs SR NE) as TX.
  pose proof (merge2_sorted _ ref_key _ _ SV SR) as SM.
  apply asc_ext.
  - apply sorted_names_asc. apply filter_sorted. exact SM.
  - apply apply_tx_asc; [apply sorted_names_asc; exact SV|exact TX].
  - intros x. rewrite (apply_tx_In' _ _ _ (tx_ok_NoDup _ TX)). rewrite tx_adds_in, tx_dels_in.
    rewrite in_map_iff. split.
    + intros (r & E & Hr). apply filter_In in Hr. destruct Hr as [Hr Lr].
      assert (D : ref_is_del r = false) by (unfold live in Lr; destruct (ref_is_del r); [discriminate|reflexivity]).
      pose proof (lookup_sorted_in _ ref_key _ _ SM Hr) as LK. rewrite merge2_lookup in LK by exact SR.
      change (ref_key r) with (r_name r) in LK. rewrite E in LK.
      destruct (lookup ref_key x refs) as [r'|] eqn:LR.
      * injection LK as ->. apply lookup_some in LR. destruct LR as [_ LR]. left. exists r. auto.
      * right. split.
        -- intros (r' & Hr' & E' & _). pose proof (lookup_sorted_in _ ref_key _ _ SR Hr') as Q.
           change (ref_key r') with (r_name r') in Q. rewrite E' in Q. congruence.
        -- apply lookup_some in LK. destruct LK as [_ LK]. apply in_map_iff. exists r. auto.
    + intros [(r & Hr & E & D)|(ND & Hx)].
      * exists r. split; [exact E|]. apply filter_In. split; [|unfold live; rewrite D; reflexivity].
        pose proof (lookup_sorted_in _ ref_key _ _ SR Hr) as Q.
        assert (LK : lookup ref_key (ref_key r) (merge2 ref_key V refs) = Some r)
          by (rewrite merge2_lookup by exact SR; rewrite Q; reflexivity).
        apply lookup_some in LK. apply LK.
      * apply in_map_iff in Hx. destruct Hx as (rv & E & Hrv).
        destruct (lookup ref_key x refs) as [r'|] eqn:LR.
        -- pose proof (lookup_some _ ref_key _ _ _ LR) as [E' Hr'].
           destruct (ref_is_del r') eqn:D; [exfalso; apply ND; exists r'; auto|].
           exists r'. split; [exact E'|]. apply filter_In. split; [|unfold live; rewrite D; reflexivity].
           assert (LK : lookup ref_key x (merge2 ref_key V refs) = Some r')
             by (rewrite merge2_lookup by exact SR; rewrite LR; reflexivity).
           apply lookup_some in LK. apply LK.
        -- exists rv. split; [exact E|]. apply filter_In. split; [|unfold live; rewrite (LV _ Hrv); reflexivity].
           pose proof (lookup_sorted_in _ ref_key _ _ SV Hrv) as Q.
           change (ref_key rv) with (r_name rv) in Q. rewrite E in Q.
           assert (LK : lookup ref_key x (merge2 ref_key V refs) = Some rv)
             by (rewrite merge2_lookup by exact SR; rewrite LR; exact Q).
           apply lookup_some in LK. apply LK.
Qed.

(* ------------------------------------------------------------------ *)
(* pushing one table on a stack: well-formedness                       *)
(* ------------------------------------------------------------------ *)

Definition last_max (lm : option N) (ts : list table) : option N :=
  fold_left (fun _ x => Some (t_max x)) ts lm.

Lemma ranges_snoc : forall ts lm t, ranges_ok lm ts = true ->
  chk (last_max lm ts) (t_min t) = true -> ranges_ok lm (ts ++ [t]) = true.
Proof.
  induction ts as [|a ts IH]; intros lm t H C.
  - cbn [app]. rewrite ranges_ok_cons. cbn [last_max fold_left] in C. rewrite C. reflexivity.
  - cbn [app]. rewrite ranges_ok_cons in *. apply andb_true_iff in H. destruct H as [H1 H2].
    rewrite H1. cbn [andb]. apply IH; [exact H2|exact C].
Qed.

Lemma next_index_last_max : forall st,
  next_index st = match last_max None (tables st) with Some m => m + 1 | None => 1 end.
Proof.
  intros st. destruct (snoc_cases _ st) as [->|(st0 & [t sz] & ->)]; [reflexivity|].
  unfold next_index. rewrite rev_app_distr. cbn [rev app].
  rewrite tables_app. unfold last_max. rewrite fold_left_app. reflexivity.
Qed.

Lemma next_index_chk : forall st x, next_index st <= x -> chk (last_max None (tables st)) x = true.
Proof.
  intros st x H. rewrite next_index_last_max in H. destruct (last_max None (tables st)) as [m|]; [|reflexivity].
  cbn [chk]. apply N.ltb_lt. lia.
Qed.

Lemma next_index_snoc : forall st t sz, next_index (st ++ [(t, sz)]) = t_max t + 1.
Proof. intros st t sz. unfold next_index. rewrite rev_app_distr. reflexivity. Qed.

Lemma next_index_pos : forall st, 1 <= next_index st.
Proof. intros st. rewrite next_index_last_max. destruct (last_max None (tables st)); lia. Qed.

Lemma push_wf : forall cfg st t sz,
  stack_wf cfg st -> table_wf cfg t -> next_index st <= t_min t -> 1 <= sz ->
  stack_wf cfg (st ++ [(t, sz)]).
Proof.
  intros cfg st t sz (F & M & Z) W Hn Hs. unfold stack_wf. rewrite tables_app. cbn [tables map fst].
  split; [|split].
  - apply Forall_app. split; [exact F|]. constructor; [exact W|constructor].
  - unfold new_merged_ok in *. apply andb_true_iff in M. destruct M as [M1 M2].
    rewrite ranges_snoc; [|exact M1|apply next_index_chk; exact Hn].
    rewrite forallb_app, M2. cbn [forallb andb]. destruct W as (_ & _ & -> & _). destruct (c_sha256 cfg); reflexivity.
  - apply Forall_app. split; [exact Z|]. constructor; [exact Hs|constructor].
Qed.

(* the transaction's effect on the two views, as the run-time oracle computes it *)
Definition add_refs_view (V refs : list ref_record) : list ref_record :=
  filter (live ref_is_del) (merge2 ref_key V refs).
Definition add_logs_view (V logs' : list log_record) : list log_record :=
  filter (live log_is_del) (merge2 log_key V logs').

(* with name checking the live names stay conflict-free *)
Definition names_ok (st : list stbl) : Prop := conflict_free (map r_name (stack_refs (tables st))).

Lemma names_ok_nil : names_ok [].
Proof.
  unfold names_ok. replace (map r_name (stack_refs (tables []))) with (@nil bytes) by reflexivity.
  split; [intros a []|intros a b []].
Qed.

(* with name checking: every table of a multi-table Addition leaves the names conflict-free *)
Fixpoint all_prefix_cf (V : list ref_record) (txs : list (list ref_record)) : Prop :=
  match txs with
  | [] => True
  | refs :: rest => conflict_free (map r_name (add_refs_view V refs)) /\ all_prefix_cf (add_refs_view V refs) rest
  end.

(* ------------------------------------------------------------------ *)
(* histories: the specification (no tables, no bytes)                  *)
(* ------------------------------------------------------------------ *)

Inductive hop :=
| HAdd (auto : bool) (refs : list ref_record) (logs : list log_record)
| HMulti (txs : list (list ref_record))
| HCompact (first last : nat)
| HCompactAll
| HExpire (e : expiry).

(* what a reader sees: live refs by name, live reflog entries by key *)
Definition sview : Type := (list ref_record * list log_record)%type.

(* the reflog records of a transaction as they will be read back: message normalised,
   absent hashes zero-filled (None = a message the writer refuses; then the Add fails) *)
Definition spec_logs (cfg : config) (logs : list log_record) : list log_record :=
  match read_logs cfg logs with Some l => l | None => [] end.

(* the view changes only by successful Adds / Additions (merge, drop deletions) and by a
   successful expiry (drop the entries failing keep_log); compactions, refused and failed
   operations do not touch it *)
Definition spec_hop (cfg : config) (v : sview) (o : hop) (s : status) : sview :=
  match o, s with
  | HAdd _ refs logs, SOk => (add_refs_view (fst v) refs, add_logs_view (snd v) (spec_logs cfg logs))
  | HMulti txs, SOk => (fold_left add_refs_view txs (fst v), snd v)
  | HExpire e, SOk => (fst v, filter (keep_log (Some e)) (snd v))
  | _, _ => v
  end.

(* one step of the specification: a function of the operation and its reported status *)
Definition spec_step (cfg : config) (v : sview) (o : hop) (s : status) (v' : sview) : Prop :=
  v' = spec_hop cfg v o s.

(* the views after every prefix of a history, given the reported statuses *)
Fixpoint spec_trace (cfg : config) (v : sview) (os : list (hop * status)) : list sview :=
  match os with
  | [] => []
  | (o, s) :: rest => let v' := spec_hop cfg v o s in v' :: spec_trace cfg v' rest
  end.

Definition view_of (st : list stbl) : sview := (stack_refs (tables st), stack_logs (tables st)).

Ltac triv := repeat match goal with |- _ /\ _ => split end; auto; try discriminate.

(* ------------------------------------------------------------------ *)
(* the byte-level stack                                                *)
(* ------------------------------------------------------------------ *)

Section StackSeqProofs.
  Variable deflate : bytes -> bytes.
  Variable inflate : bytes -> inflate_result.
  Hypothesis Hz : zlib_ok deflate inflate.
  Hypothesis Htrunc : forall x n, (n < length (deflate x))%nat -> inflate (firstn n (deflate x)) = ITrunc.
  Hypothesis Hbound : forall x, N.of_nat (length x) < 16777216 -> N.of_nat (length (deflate x)) < 1073741824.

  (* item 2: decoding the writer's output never fails and returns what was written,
     logs in read-back form; the decoded table is well-formed *)
  Theorem decode_of_write : forall cfg mn mx refs logs data,
    cfg_ok cfg -> mn <= mx -> mx < two64 -> refs_ok cfg mn mx refs -> logs_ok cfg logs ->
    write_table deflate cfg mn mx refs logs = Ok (false, data) ->
    N.of_nat (length data) < two64 ->
    exists t logs', decode_table inflate data = Ok t /\ read_logs cfg logs = Some logs' /\
      t_min t = mn /\ t_max t = mx /\ t_sha256 t = c_sha256 cfg /\
      t_refs t = refs /\ t_logs t = logs' /\ table_wf cfg t.
  Proof.
    intros cfg mn mx refs logs data Hc Hmm Hmx Hr Hl Hw Hsz.
    destruct (table_roundtrip deflate inflate Hz Htrunc Hbound cfg mn mx refs logs data Hc Hmx Hmm Hr Hl Hsz Hw)
      as (r & OP & E1 & E2 & E3 & SR & logs' & RL & SL).
    eexists. exists logs'. unfold decode_table. rewrite OP. cbn [bind]. rewrite SR. cbn [bind]. rewrite SL. cbn [bind].
    split; [reflexivity|]. split; [exact RL|]. cbn [t_min t_max t_sha256 t_refs t_logs].
    rewrite refs_of_map, logs_of_map.
    split; [exact E1|]. split; [exact E2|]. split; [exact E3|]. split; [reflexivity|]. split; [reflexivity|].
    unfold table_wf. cbn [t_min t_max t_sha256 t_refs t_logs]. rewrite E1, E2.
    split; [exact Hmm|]. split; [exact Hmx|]. split; [exact E3|]. split; [exact Hr|].
    eapply read_logs_canon; eassumption.
  Qed.

  (* the size side condition on the one file a compaction writes *)
  Definition write_size_ok (cfg : config) (c : table) : Prop :=
    forall data, write_table deflate cfg (t_min c) (t_max c) (t_refs c) (t_logs c) = Ok (false, data) ->
                 N.of_nat (length data) < two64.

  (* compactRange at byte level = compact_range at list level, as far as readers can tell *)
  Lemma stack_compact_gen : forall cfg first last e st st' s,
    cfg_ok cfg -> stack_wf cfg st -> (first <= last)%nat -> (last < length st)%nat ->
    write_size_ok cfg (compact_table first last e (tables st)) ->
    stack_compact deflate inflate cfg first last e st = (st', s) ->
    stack_wf cfg st' /\
    ((st' = st /\ s = SErr) \/
     (st' = st /\ s = SOk /\ e = None /\ (last <= first)%nat) \/
     (s = SOk /\
      overlay ref_key (map t_refs (tables st')) =
        overlay ref_key (map t_refs (compact_range first last e (tables st))) /\
      overlay log_key (map t_logs (tables st')) =
        overlay log_key (map t_logs (compact_range first last e (tables st))))).
  Proof.
    intros cfg first last e st st' s Hc Hwf H1 H2 Hsz H. unfold stack_compact in H.
    destruct (Nat.leb last first && match e with None => true | Some _ => false end) eqn:Q.
    { apply pair_equal_spec in H; destruct H as [<- <-]. split; [exact Hwf|]. right. left.
      apply andb_true_iff in Q. destruct Q as [Q1 Q2]. apply Nat.leb_le in Q1.
      destruct e; [discriminate|]. auto. }
    set (c := compact_table first last e (tables st)) in *.
    assert (Wc : table_wf cfg c).
    { destruct Hwf as (F & M & _). apply compact_table_wf; try assumption. rewrite tables_length. exact H2. }
    destruct (write_table deflate cfg (t_min c) (t_max c) (t_refs c) (t_logs c)) as [[[|] data]| | |] eqn:W;
      try (apply pair_equal_spec in H; destruct H as [<- <-]; split; [exact Hwf|left; auto]).
    - (* empty result: dropped *)
      apply pair_equal_spec in H; destruct H as [<- <-]. destruct (write_empty _ _ _ _ _ _ _ W) as [E1 E2].
      change (firstn first st ++ skipn (S last) st) with (firstn first st ++ [] ++ skipn (S last) st).
      split; [apply (splice_wf cfg first last st []); auto|]. right. right. split; [reflexivity|].
      rewrite tables_splice. apply splice_overlays. left. auto.
    - destruct Wc as (A1 & A2 & A3 & A4 & A5).
      destruct (decode_of_write cfg (t_min c) (t_max c) (t_refs c) (t_logs c) data Hc A1 A2 A4
                  (logs_canon_ok _ _ A5) W (Hsz _ W)) as (t & logs' & D & RL & T1 & T2 & T3 & T4 & T5 & TW).
      rewrite (logs_canon_read _ _ A5) in RL. injection RL as <-.
      rewrite D in H. apply pair_equal_spec in H; destruct H as [<- <-].
      change (firstn first st ++ (t, compaction_size cfg data) :: skipn (S last) st)
        with (firstn first st ++ [(t, compaction_size cfg data)] ++ skipn (S last) st).
      split.
      + apply (splice_wf cfg first last st [(t, compaction_size cfg data)]); auto. right. exists t, (compaction_size cfg data). split; [reflexivity|].
        split; [exact TW|]. split; [exact T1|]. split; [exact T2|]. eapply written_size. exact W.
      + right. right. split; [reflexivity|]. rewrite tables_splice. apply splice_overlays. right.
        exists t. cbn [tables map fst]. auto.
  Qed.

  (* on success the new list of tables IS compact_range of the old one (the decoded table
     equals the merged table field by field; an empty result is dropped on both sides) *)
  Theorem stack_compact_tables : forall cfg first last e st st',
    cfg_ok cfg -> stack_wf cfg st -> (first <= last)%nat -> (last < length st)%nat ->
    ((first < last)%nat \/ e <> None) ->
    write_size_ok cfg (compact_table first last e (tables st)) ->
    stack_compact deflate inflate cfg first last e st = (st', SOk) ->
    tables st' = compact_range first last e (tables st).
  Proof.
    intros cfg first last e st st' Hc Hwf H1 H2 Hne Hsz H. unfold stack_compact in H.
    destruct (Nat.leb last first && match e with None => true | Some _ => false end) eqn:Q.
    { exfalso. apply andb_true_iff in Q. destruct Q as [Q1 Q2]. apply Nat.leb_le in Q1.
      destruct e; [discriminate|]. destruct Hne as [Hne|Hne]; [lia|congruence]. }
    unfold compact_range.
    set (c := compact_table first last e (tables st)) in *.
    assert (Wc : table_wf cfg c).
    { destruct Hwf as (F & M & _). apply compact_table_wf; try assumption. rewrite tables_length. exact H2. }
    destruct (write_table deflate cfg (t_min c) (t_max c) (t_refs c) (t_logs c)) as [[[|] data]| | |] eqn:W;
      try (apply pair_equal_spec in H; destruct H as [_ H]; discriminate).
    - apply pair_equal_spec in H. destruct H as [<- _]. destruct (write_empty _ _ _ _ _ _ _ W) as [E1 E2].
      assert (TE : table_empty c = true) by (unfold table_empty; rewrite E1, E2; reflexivity).
      rewrite TE. change (firstn first st ++ skipn (S last) st) with (firstn first st ++ [] ++ skipn (S last) st).
      rewrite tables_splice. reflexivity.
    - destruct Wc as (A1 & A2 & A3 & A4 & A5).
      destruct (decode_of_write cfg (t_min c) (t_max c) (t_refs c) (t_logs c) data Hc A1 A2 A4
                  (logs_canon_ok _ _ A5) W (Hsz _ W)) as (t & logs' & D & RL & T1 & T2 & T3 & T4 & T5 & TW).
      rewrite (logs_canon_read _ _ A5) in RL. injection RL as <-.
      rewrite D in H. apply pair_equal_spec in H. destruct H as [<- _].
      assert (TE : table_empty c = false).
      { destruct (table_empty c) eqn:TE; [|reflexivity]. exfalso.
        rewrite (table_empty_refs _ TE), (table_empty_logs _ TE) in W.
        destruct (write_nil deflate cfg (t_min c) (t_max c) Hc) as (d & X). congruence. }
      rewrite TE. rewrite tables_splice. cbn [tables map fst].
      assert (Etc : t = c).
      { apply table_ext; [exact T1|exact T2|rewrite T3; symmetry; exact A3|exact T4|exact T5]. }
      rewrite Etc. reflexivity.
  Qed.

  (* item 3: compactRange(first, last) without expiry, at byte level: readers see exactly
     the same refs and reflog entries, whatever the outcome; the state stays well-formed;
     tombstones are retained while older tables remain beneath *)
  Theorem stack_compact_preserves : forall cfg first last st st' s,
    cfg_ok cfg -> stack_wf cfg st -> (last < length st)%nat ->
    write_size_ok cfg (compact_table first last None (tables st)) ->
    stack_compact deflate inflate cfg first last None st = (st', s) ->
    stack_refs (tables st') = stack_refs (tables st) /\
    stack_logs (tables st') = stack_logs (tables st) /\
    stack_wf cfg st' /\ s <> SRejected /\ (s = SErr -> st' = st) /\
    ((0 < first)%nat ->
       overlay ref_key (map t_refs (tables st')) = overlay ref_key (map t_refs (tables st)) /\
       overlay log_key (map t_logs (tables st')) = overlay log_key (map t_logs (tables st))).
  Proof.
    intros cfg first last st st' s Hc Hwf H2 Hsz H.
    destruct (le_lt_dec first last) as [H1|H1].
    - destruct (stack_compact_gen cfg first last None st st' s Hc Hwf H1 H2 Hsz H) as (W & [(-> & ->)|[(-> & -> & _)|(-> & O1 & O2)]]).
      + triv.
      + triv.
      + pose proof (stack_wf_sorted _ _ Hwf) as TS.
        assert (H2' : (last < length (tables st))%nat) by (rewrite tables_length; exact H2).
        destruct (compact_preserves_view first last (tables st) TS H1 H2') as [V1 V2].
        split; [unfold stack_refs, view; rewrite O1; exact V1|].
        split; [unfold stack_logs, view; rewrite O2; exact V2|].
        split; [exact W|]. split; [discriminate|]. split; [discriminate|].
        intros Hf. rewrite O1, O2. apply compact_keeps_tombstones; assumption.
    - unfold stack_compact in H. replace (Nat.leb last first) with true in H by (symmetry; apply Nat.leb_le; lia).
      cbn [andb] in H. apply pair_equal_spec in H. destruct H as [<- <-].
      triv.
  Qed.

  (* compactRange over the whole stack with reflog expiry: refs unchanged, exactly the
     reflog entries failing keep_log are gone *)
  Theorem stack_compact_expiry : forall cfg e st st' s,
    cfg_ok cfg -> stack_wf cfg st -> st <> [] ->
    write_size_ok cfg (compact_table 0 (length st - 1) (Some e) (tables st)) ->
    stack_compact deflate inflate cfg 0 (length st - 1) (Some e) st = (st', s) ->
    stack_wf cfg st' /\ s <> SRejected /\ (s = SErr -> st' = st) /\
    (s = SOk -> stack_refs (tables st') = stack_refs (tables st) /\
                stack_logs (tables st') = filter (keep_log (Some e)) (stack_logs (tables st))).
  Proof.
    intros cfg e st st' s Hc Hwf Hne Hsz H.
    assert (L : (0 < length st)%nat) by (destruct st; [congruence|cbn [length]; lia]).
    destruct (stack_compact_gen cfg 0%nat (length st - 1)%nat (Some e) st st' s Hc Hwf ltac:(lia) ltac:(lia) Hsz H)
      as (W & [(-> & ->)|[(_ & _ & Q & _)|(-> & O1 & O2)]]).
    - triv.
    - discriminate.
    - split; [exact W|]. split; [discriminate|]. split; [discriminate|]. intros _.
      pose proof (stack_wf_sorted _ _ Hwf) as TS.
      assert (NE : tables st <> []) by (intros E; apply (f_equal (@length table)) in E; rewrite tables_length in E; cbn [length] in E; lia).
      destruct (expiry_exact e (tables st) TS NE) as [X1 X2]. rewrite tables_length in X1, X2.
      split; [unfold stack_refs, view; rewrite O1; exact X2|unfold stack_logs, view; rewrite O2; exact X1].
  Qed.

  (* a partial-range compaction with expiry still leaves the refs alone *)
  Theorem stack_compact_expiry_refs : forall cfg first last e st st' s,
    cfg_ok cfg -> stack_wf cfg st -> (first <= last)%nat -> (last < length st)%nat ->
    write_size_ok cfg (compact_table first last (Some e) (tables st)) ->
    stack_compact deflate inflate cfg first last (Some e) st = (st', s) ->
    stack_wf cfg st' /\ s <> SRejected /\ (s = SErr -> st' = st) /\
    stack_refs (tables st') = stack_refs (tables st).
  Proof.
    intros cfg first last e st st' s Hc Hwf H1 H2 Hsz H.
    destruct (stack_compact_gen cfg first last (Some e) st st' s Hc Hwf H1 H2 Hsz H)
      as (W & [(-> & ->)|[(_ & _ & Q & _)|(-> & O1 & O2)]]).
    - triv.
    - discriminate.
    - split; [exact W|]. split; [discriminate|]. split; [discriminate|].
      unfold stack_refs, view. rewrite O1. apply compact_refs_view; [eapply stack_wf_sorted; exact Hwf|exact H1|].
      rewrite tables_length. exact H2.
  Qed.

  (* the size side condition of CompactAll *)
  Definition compact_all_size_ok (cfg : config) (e : option expiry) (st : list stbl) : Prop :=
    write_size_ok cfg (compact_table 0 (length st - 1) e (tables st)).

  Theorem stack_compact_all_preserves : forall cfg st st' s,
    cfg_ok cfg -> stack_wf cfg st -> compact_all_size_ok cfg None st ->
    stack_compact_all deflate inflate cfg None st = (st', s) ->
    stack_refs (tables st') = stack_refs (tables st) /\
    stack_logs (tables st') = stack_logs (tables st) /\
    stack_wf cfg st' /\ s <> SRejected /\ (s = SErr -> st' = st).
  Proof.
    intros cfg st st' s Hc Hwf Hsz H. unfold stack_compact_all in H.
    destruct st as [|x rest] eqn:Est.
    { apply pair_equal_spec in H. destruct H as [<- <-]. triv. }
    cbv beta iota zeta in H. rewrite <- Est in *.
    destruct (Nat.leb (length st - 1) 0).
    { apply pair_equal_spec in H. destruct H as [<- <-]. triv. }
    assert (L : (0 < length st)%nat) by (rewrite Est; cbn [length]; lia).
    destruct (stack_compact_preserves cfg 0%nat (length st - 1)%nat st st' s Hc Hwf ltac:(lia) Hsz H)
      as (A & B & C & D & E & _).
    auto.
  Qed.

  Theorem stack_expire_spec : forall cfg e st st' s,
    cfg_ok cfg -> stack_wf cfg st -> compact_all_size_ok cfg (Some e) st ->
    stack_compact_all deflate inflate cfg (Some e) st = (st', s) ->
    stack_wf cfg st' /\ s <> SRejected /\ (s = SErr -> st' = st) /\
    (s = SOk -> stack_refs (tables st') = stack_refs (tables st) /\
                stack_logs (tables st') = filter (keep_log (Some e)) (stack_logs (tables st))).
  Proof.
    intros cfg e st st' s Hc Hwf Hsz H. unfold stack_compact_all in H.
    destruct st as [|x rest] eqn:Est.
    { apply pair_equal_spec in H. destruct H as [<- <-]. triv. }
    cbv beta iota zeta in H. rewrite <- Est in *.
    apply (stack_compact_expiry cfg e st st' s Hc Hwf); [rewrite Est; discriminate|exact Hsz|exact H].
  Qed.

  (* ---------------------------------------------------------------- *)
  (* auto-compaction                                                   *)
  (* ---------------------------------------------------------------- *)

  (* size side condition on the file an auto-compaction of [st] would write *)
  Definition auto_size_ok (cfg : config) (st : list stbl) : Prop :=
    forall a b, suggest (map snd st) = Some (a, b) ->
      write_size_ok cfg (compact_table a (b - 1) None (tables st)).

  Lemma stack_auto_preserves : forall cfg st st' s,
    cfg_ok cfg -> stack_wf cfg st -> auto_size_ok cfg st ->
    stack_auto deflate inflate cfg st = (st', s) ->
    stack_refs (tables st') = stack_refs (tables st) /\
    stack_logs (tables st') = stack_logs (tables st) /\
    stack_wf cfg st' /\ s <> SRejected /\ (s = SErr -> st' = st).
  Proof.
    intros cfg st st' s Hc Hwf Hsz H. unfold stack_auto in H.
    destruct (suggest (map snd st)) as [[a b]|] eqn:SG.
    - assert (V : (a + 2 <= b /\ b <= length st)%nat).
      { replace (length st) with (length (map snd st)) by apply map_length.
        apply suggest_valid; [|exact SG]. rewrite Forall_map. apply Hwf. }
      destruct (stack_compact_preserves cfg a (b - 1)%nat st st' s Hc Hwf ltac:(lia) (Hsz _ _ SG) H)
        as (A & B & C & D & E & _).
      auto.
    - apply pair_equal_spec in H. destruct H as [<- <-]. triv.
  Qed.

  (* ---------------------------------------------------------------- *)
  (* item 4: Stack.Add                                                 *)
  (* ---------------------------------------------------------------- *)

  (* the transaction is visible: both views are the old view merged with the new records *)
  Definition committed (cfg : config) (st : list stbl) (refs : list ref_record) (logs : list log_record)
             (st' : list stbl) : Prop :=
    exists logs', read_logs cfg logs = Some logs' /\
      stack_refs (tables st') = add_refs_view (stack_refs (tables st)) refs /\
      stack_logs (tables st') = add_logs_view (stack_logs (tables st)) logs'.

  Lemma refs_ok_names : forall cfg mn mx refs, refs_ok cfg mn mx refs ->
    sorted ref_record ref_key refs /\ Forall (fun r => r_name r <> []) refs.
  Proof.
    intros cfg mn mx refs [F S]. split; [exact S|]. eapply Forall_impl; [|exact F]. cbv beta. intros r H. apply H.
  Qed.

  Lemma stack_names_asc : forall cfg st, stack_wf cfg st -> asc (map r_name (stack_refs (tables st))).
  Proof.
    intros cfg st Hwf. apply sorted_names_asc. unfold stack_refs. apply view_sorted.
    apply (stack_wf_sorted _ _ Hwf).
  Qed.

  (* pushing a decoded table: the views *)
  Lemma push_views : forall cfg st t sz, stack_wf cfg st -> table_wf cfg t ->
    stack_refs (tables (st ++ [(t, sz)])) = add_refs_view (stack_refs (tables st)) (t_refs t) /\
    stack_logs (tables (st ++ [(t, sz)])) = add_logs_view (stack_logs (tables st)) (t_logs t).
  Proof.
    intros cfg st t sz Hwf W. rewrite tables_app. cbn [tables map fst].
    destruct (stack_wf_sorted _ _ Hwf) as [S1 S2]. destruct (table_wf_sorted _ _ W) as [T1 T2].
    unfold stack_refs, stack_logs, add_refs_view, add_logs_view. rewrite !map_app. cbn [map].
    split; apply view_snoc; assumption.
  Qed.

  (* Add without auto-compaction *)
  Lemma stack_add_noauto : forall cfg nc refs logs st st' s,
    cfg_ok cfg -> stack_wf cfg st -> next_index st < two64 ->
    refs_ok cfg (next_index st) (next_index st) refs -> logs_ok cfg logs ->
    (nc = true -> names_ok st) ->
    (forall data, write_table deflate cfg (next_index st) (next_index st) refs logs = Ok (false, data) ->
                  N.of_nat (length data) < two64) ->
    stack_add deflate inflate cfg nc false refs logs st = (st', s) ->
    match s with
    | SOk => stack_wf cfg st' /\ committed cfg st refs logs st' /\ (nc = true -> names_ok st')
    | SRejected => st' = st /\ nc = true /\
                   ~ conflict_free (apply_tx (map r_name (stack_refs (tables st))) (tx_of refs))
    | SErr => st' = st
    end.
  Proof.
    intros cfg nc refs logs st st' s Hc Hwf Hui Hr Hl Hn Hsz H. unfold stack_add in H. cbv zeta in H.
    fold (tx_of refs) in H.
    destruct (refs_ok_names _ _ _ _ Hr) as [SR NE].
    destruct (write_table deflate cfg (next_index st) (next_index st) refs logs) as [[[|] data]| | |] eqn:W;
      try (apply pair_equal_spec in H; destruct H as [<- <-]; reflexivity).
    - (* no records: no table *)
      apply pair_equal_spec in H. destruct H as [<- <-].
      destruct (write_empty _ _ _ _ _ _ _ W) as [-> ->].
      split; [exact Hwf|]. split; [|exact Hn]. exists []. split; [reflexivity|].
      unfold add_refs_view, add_logs_view, stack_refs, stack_logs. rewrite !view_merge_nil. split; reflexivity.
    - destruct (nc && negb (validate_addition (map r_name (stack_refs (tables st))) (tx_of refs))) eqn:Q.
      + apply pair_equal_spec in H. destruct H as [<- <-].
        apply andb_true_iff in Q. destruct Q as [-> Q]. split; [reflexivity|]. split; [reflexivity|].
        intros CF. apply validate_sound_complete in CF.
        * rewrite CF in Q. discriminate.
        * eapply stack_names_asc. exact Hwf.
        * apply Hn. reflexivity.
        * apply tx_of_ok; assumption.
      + destruct (decode_of_write cfg _ _ refs logs data Hc (N.le_refl _) Hui Hr Hl W (Hsz _ eq_refl))
          as (t & logs' & D & RL & T1 & T2 & T3 & T4 & T5 & TW).
        rewrite D in H. apply pair_equal_spec in H. destruct H as [<- <-].
        destruct (push_views cfg st t (compaction_size cfg data) Hwf TW) as [V1 V2].
        split; [|split].
        * apply push_wf; try assumption; [rewrite T1; lia|eapply written_size; exact W].
        * exists logs'. rewrite V1, V2, T4, T5. auto.
        * intros ->. cbn [andb] in Q. apply negb_false_iff in Q.
          unfold names_ok. rewrite V1, T4. unfold add_refs_view. rewrite names_apply_tx; try assumption.
          -- apply validate_sound_complete; try assumption.
             ++ eapply stack_names_asc. exact Hwf.
             ++ apply Hn. reflexivity.
             ++ apply tx_of_ok; assumption.
          -- unfold stack_refs. apply view_sorted. apply (stack_wf_sorted _ _ Hwf).
          -- intros r. unfold stack_refs. apply view_live.
  Qed.

  (* Add = the add proper, then AutoCompact when enabled and the add succeeded; the outcome
     of the auto-compaction does not change Add's status *)
  Lemma stack_add_auto_eq : forall cfg nc refs logs st,
    stack_add deflate inflate cfg nc true refs logs st =
    match stack_add deflate inflate cfg nc false refs logs st with
    | (st1, SOk) => (fst (stack_auto deflate inflate cfg st1), SOk)
    | other => other
    end.
  Proof.
    intros cfg nc refs logs st. unfold stack_add. cbv zeta.
    destruct (write_table deflate cfg (next_index st) (next_index st) refs logs) as [[[|] data]| | |]; try reflexivity.
    destruct (nc && negb _); [reflexivity|]. destruct (decode_table inflate data); reflexivity.
  Qed.

  (* all size side conditions of one Add: the transaction's table, and the file an
     auto-compaction would write on the state after the add proper *)
  Definition add_size_ok (cfg : config) (nc auto : bool) (refs : list ref_record) (logs : list log_record)
             (st : list stbl) : Prop :=
    (forall data, write_table deflate cfg (next_index st) (next_index st) refs logs = Ok (false, data) ->
                  N.of_nat (length data) < two64) /\
    (auto = true -> forall st1, stack_add deflate inflate cfg nc false refs logs st = (st1, SOk) ->
                    auto_size_ok cfg st1).

  Theorem stack_add_spec : forall cfg nc auto refs logs st st' s,
    cfg_ok cfg -> stack_wf cfg st -> next_index st < two64 ->
    refs_ok cfg (next_index st) (next_index st) refs -> logs_ok cfg logs ->
    (nc = true -> names_ok st) ->
    add_size_ok cfg nc auto refs logs st ->
    stack_add deflate inflate cfg nc auto refs logs st = (st', s) ->
    stack_wf cfg st' /\ (nc = true -> names_ok st') /\
    match s with
    | SOk => committed cfg st refs logs st'
    | SRejected => st' = st /\ nc = true /\
                   ~ conflict_free (apply_tx (map r_name (stack_refs (tables st))) (tx_of refs))
    | SErr => st' = st
    end.
  Proof.
    intros cfg nc auto refs logs st st' s Hc Hwf Hui Hr Hl Hn [Hsz Hau] H.
    destruct auto.
    - rewrite stack_add_auto_eq in H.
      destruct (stack_add deflate inflate cfg nc false refs logs st) as [st1 s1] eqn:A.
      pose proof (stack_add_noauto cfg nc refs logs st st1 s1 Hc Hwf Hui Hr Hl Hn Hsz A) as P.
      destruct s1.
      + destruct P as (W1 & (logs' & RL & V1 & V2) & N1).
        (* whatever the auto-compaction reports (a failure leaves st1 as it is), the views
           are those of st1: the committed ones *)
        destruct (stack_auto deflate inflate cfg st1) as [st2 s2] eqn:AU. cbn [fst] in H.
        apply pair_equal_spec in H. destruct H as [<- <-].
        destruct (stack_auto_preserves cfg st1 st2 s2 Hc W1 (Hau eq_refl _ eq_refl) AU) as (A1 & A2 & A3 & A4 & A5).
        split; [exact A3|]. split; [intros E; unfold names_ok; rewrite A1; apply N1; exact E|].
        exists logs'. rewrite A1, A2. auto.
      + apply pair_equal_spec in H. destruct H as [<- <-]. destruct P as (-> & P). auto.
      + apply pair_equal_spec in H. destruct H as [<- <-]. subst st1. auto.
    - pose proof (stack_add_noauto cfg nc refs logs st st' s Hc Hwf Hui Hr Hl Hn Hsz H) as P.
      destruct s.
      + destruct P as (W1 & CM & N1). auto.
      + destruct P as (-> & P). auto.
      + subst st'. auto.
  Qed.

  (* a failed auto-compaction after the commit: Add still succeeds, the added table stays *)
  Corollary stack_add_auto_failed : forall cfg nc refs logs st st1 st2,
    stack_add deflate inflate cfg nc false refs logs st = (st1, SOk) ->
    stack_auto deflate inflate cfg st1 = (st2, SErr) ->
    cfg_ok cfg -> stack_wf cfg st1 -> auto_size_ok cfg st1 ->
    stack_add deflate inflate cfg nc true refs logs st = (st1, SOk).
  Proof.
    intros cfg nc refs logs st st1 st2 A AU Hc W1 Hsz. rewrite stack_add_auto_eq, A, AU. cbn [fst].
    destruct (stack_auto_preserves cfg st1 st2 SErr Hc W1 Hsz AU) as (_ & _ & _ & _ & E).
    rewrite (E eq_refl). reflexivity.
  Qed.

  (* ---------------------------------------------------------------- *)
  (* item 5: multi-table Addition                                      *)
  (* ---------------------------------------------------------------- *)

  (* input well-formedness and size side conditions: table k is written at index ui + k *)
  Fixpoint multi_ok (cfg : config) (ui : N) (txs : list (list ref_record)) : Prop :=
    match txs with
    | [] => True
    | refs :: rest =>
        ui < two64 /\ refs_ok cfg ui ui refs /\
        (forall data, write_table deflate cfg ui ui refs [] = Ok (false, data) -> N.of_nat (length data) < two64) /\
        multi_ok cfg (ui + 1) rest
    end.

  Lemma logs_ok_nil : forall cfg, logs_ok cfg [].
  Proof. intros cfg. split; constructor. Qed.

  Lemma addition_go_spec : forall txs cfg nc ui st0 cur st' s,
    cfg_ok cfg -> stack_wf cfg cur -> next_index cur <= ui -> multi_ok cfg ui txs ->
    (nc = true -> names_ok cur) ->
    addition_go deflate inflate cfg nc ui txs st0 cur = (st', s) ->
    match s with
    | SOk => stack_wf cfg st' /\
             stack_refs (tables st') = fold_left add_refs_view txs (stack_refs (tables cur)) /\
             stack_logs (tables st') = stack_logs (tables cur) /\
             (nc = true -> names_ok st' /\ all_prefix_cf (stack_refs (tables cur)) txs)
    | SRejected => st' = st0 /\ nc = true /\ ~ all_prefix_cf (stack_refs (tables cur)) txs
    | SErr => st' = st0
    end.
  Proof.
    induction txs as [|refs rest IH]; intros cfg nc ui st0 cur st' s Hc Hwf Hui Hm Hn H.
    - cbn [addition_go] in H. apply pair_equal_spec in H. destruct H as [<- <-].
      cbn [fold_left all_prefix_cf]. triv.
    - cbn [addition_go] in H. fold (tx_of refs) in H. cbn [multi_ok] in Hm.
      destruct Hm as (U & Hr & Hsz & Hm).
      destruct (refs_ok_names _ _ _ _ Hr) as [SR NE].
      assert (VS : sorted ref_record ref_key (stack_refs (tables cur)))
        by (unfold stack_refs; apply view_sorted; apply (stack_wf_sorted _ _ Hwf)).
      destruct (write_table deflate cfg ui ui refs []) as [[[|] data]| | |] eqn:W;
        try (apply pair_equal_spec in H; destruct H as [<- <-]; reflexivity).
      + (* no records: no table, the update index still advances *)
        destruct (write_empty _ _ _ _ _ _ _ W) as [-> _].
        assert (E : add_refs_view (stack_refs (tables cur)) [] = stack_refs (tables cur))
          by (unfold add_refs_view, stack_refs; apply view_merge_nil).
        pose proof (IH cfg nc (ui + 1) st0 cur st' s Hc Hwf ltac:(lia) Hm Hn H) as P.
        cbn [fold_left all_prefix_cf]. rewrite E. destruct s.
        * destruct P as (P1 & P2 & P3 & P4). split; [exact P1|]. split; [exact P2|]. split; [exact P3|].
          intros En. destruct (P4 En) as [Q1 Q2]. split; [exact Q1|]. split; [apply Hn; exact En|exact Q2].
        * destruct P as (P1 & P2 & P3). split; [exact P1|]. split; [exact P2|]. intros [_ Q]. apply P3. exact Q.
        * exact P.
      + destruct (nc && negb (validate_addition (map r_name (stack_refs (tables cur))) (tx_of refs))) eqn:Q.
        * apply pair_equal_spec in H. destruct H as [<- <-].
          apply andb_true_iff in Q. destruct Q as [-> Q]. split; [reflexivity|]. split; [reflexivity|].
          cbn [all_prefix_cf]. intros [CF _]. unfold add_refs_view in CF.
          rewrite names_apply_tx in CF; try assumption; [|intros r; unfold stack_refs; apply view_live].
          apply validate_sound_complete in CF.
          -- rewrite CF in Q. discriminate.
          -- eapply stack_names_asc. exact Hwf.
          -- apply Hn. reflexivity.
          -- apply tx_of_ok; assumption.
        * destruct (decode_of_write cfg ui ui refs [] data Hc (N.le_refl _) U Hr (logs_ok_nil cfg) W (Hsz _ eq_refl))
            as (t & logs' & D & RL & T1 & T2 & T3 & T4 & T5 & TW).
          injection RL as <-.
          rewrite D in H.
          destruct (push_views cfg cur t (compaction_size cfg data) Hwf TW) as [V1 V2].
          rewrite T4 in V1. rewrite T5 in V2.
          assert (V2' : stack_logs (tables (cur ++ [(t, compaction_size cfg data)])) = stack_logs (tables cur))
            by (rewrite V2; unfold add_logs_view, stack_logs; apply view_merge_nil).
          assert (W1 : stack_wf cfg (cur ++ [(t, compaction_size cfg data)])).
          { apply push_wf; try assumption; [rewrite T1; exact Hui|eapply written_size; exact W]. }
          assert (N1 : nc = true -> names_ok (cur ++ [(t, compaction_size cfg data)])).
          { intros En. rewrite En in Q. cbn [andb] in Q. apply negb_false_iff in Q.
            unfold names_ok. rewrite V1. unfold add_refs_view. rewrite names_apply_tx; try assumption.
            - apply validate_sound_complete; try assumption.
              + eapply stack_names_asc. exact Hwf.
              + apply Hn. exact En.
              + apply tx_of_ok; assumption.
            - intros r. unfold stack_refs. apply view_live. }
          pose proof (IH cfg nc (ui + 1) st0 _ st' s Hc W1
                        ltac:(rewrite next_index_snoc, T2; lia) Hm N1 H) as P.
          cbn [fold_left all_prefix_cf]. rewrite V1, V2' in P. destruct s.
          -- destruct P as (P1 & P2 & P3 & P4). split; [exact P1|]. split; [exact P2|]. split; [exact P3|].
             intros En. destruct (P4 En) as [Q1 Q2]. split; [exact Q1|]. split; [|exact Q2].
             pose proof (N1 En) as X. unfold names_ok in X. rewrite V1 in X. exact X.
          -- destruct P as (P1 & P2 & P3). split; [exact P1|]. split; [exact P2|]. intros [_ X]. apply P3. exact X.
          -- exact P.
  Qed.

  Theorem stack_addition_spec : forall cfg nc txs st st' s,
    cfg_ok cfg -> stack_wf cfg st -> multi_ok cfg (next_index st) txs ->
    (nc = true -> names_ok st) ->
    stack_addition deflate inflate cfg nc txs st = (st', s) ->
    stack_wf cfg st' /\ (nc = true -> names_ok st') /\
    match s with
    | SOk => stack_refs (tables st') = fold_left add_refs_view txs (stack_refs (tables st)) /\
             stack_logs (tables st') = stack_logs (tables st) /\
             (nc = true -> all_prefix_cf (stack_refs (tables st)) txs)
    | SRejected => st' = st /\ nc = true /\ ~ all_prefix_cf (stack_refs (tables st)) txs
    | SErr => st' = st
    end.
  Proof.
    intros cfg nc txs st st' s Hc Hwf Hm Hn H. unfold stack_addition in H.
    pose proof (addition_go_spec txs cfg nc (next_index st) st st st' s Hc Hwf (N.le_refl _) Hm Hn H) as P.
    destruct s.
    - destruct P as (P1 & P2 & P3 & P4). split; [exact P1|]. split; [intros E; apply (P4 E)|].
      split; [exact P2|]. split; [exact P3|]. intros E; apply (P4 E).
    - destruct P as (-> & P). auto.
    - subst st'. auto.
  Qed.

  (* ---------------------------------------------------------------- *)
  (* item 6: histories                                                 *)
  (* ---------------------------------------------------------------- *)

  Definition run_hop (cfg : config) (nc : bool) (st : list stbl) (o : hop) : list stbl * status :=
    match o with
    | HAdd auto refs logs => stack_add deflate inflate cfg nc auto refs logs st
    | HMulti txs => stack_addition deflate inflate cfg nc txs st
    | HCompact a b => stack_compact deflate inflate cfg a b None st
    | HCompactAll => stack_compact_all deflate inflate cfg None st
    | HExpire e => stack_compact_all deflate inflate cfg (Some e) st
    end.

  (* per-step side conditions: inputs in the writer's documented domain at the then-current
     update index, a valid range for an explicit compactRange, and the 2^64 size bound on
     exactly the files the step writes *)
  Definition hop_ok (cfg : config) (nc : bool) (st : list stbl) (o : hop) : Prop :=
    match o with
    | HAdd auto refs logs =>
        next_index st < two64 /\ refs_ok cfg (next_index st) (next_index st) refs /\ logs_ok cfg logs /\
        add_size_ok cfg nc auto refs logs st
    | HMulti txs => multi_ok cfg (next_index st) txs
    | HCompact a b => (b < length st)%nat /\ write_size_ok cfg (compact_table a b None (tables st))
    | HCompactAll => compact_all_size_ok cfg None st
    | HExpire e => compact_all_size_ok cfg (Some e) st
    end.

  Fixpoint hist_ok (cfg : config) (nc : bool) (st : list stbl) (ops : list hop) : Prop :=
    match ops with
    | [] => True
    | o :: rest => hop_ok cfg nc st o /\ hist_ok cfg nc (fst (run_hop cfg nc st o)) rest
    end.

  Fixpoint run_hist (cfg : config) (nc : bool) (st : list stbl) (ops : list hop) : list (list stbl * status) :=
    match ops with
    | [] => []
    | o :: rest => let r := run_hop cfg nc st o in r :: run_hist cfg nc (fst r) rest
    end.

  Lemma committed_view : forall cfg st refs logs st', committed cfg st refs logs st' ->
    view_of st' = spec_hop cfg (view_of st) (HAdd true refs logs) SOk.
  Proof.
    intros cfg st refs logs st' (logs' & RL & V1 & V2). unfold view_of, spec_hop, spec_logs. cbn [fst snd].
    rewrite RL, V1, V2. reflexivity.
  Qed.

  Lemma run_hop_step : forall cfg nc st o st' s,
    cfg_ok cfg -> stack_wf cfg st -> (nc = true -> names_ok st) -> hop_ok cfg nc st o ->
    run_hop cfg nc st o = (st', s) ->
    stack_wf cfg st' /\ (nc = true -> names_ok st') /\ spec_step cfg (view_of st) o s (view_of st').
  Proof.
    intros cfg nc st o st' s Hc Hwf Hn Ho H. destruct o as [auto refs logs|txs|a b| |e]; cbn [run_hop hop_ok] in *.
    - destruct Ho as (U & Hr & Hl & Hsz).
      destruct (stack_add_spec cfg nc auto refs logs st st' s Hc Hwf U Hr Hl Hn Hsz H) as (W & N1 & P).
      split; [exact W|]. split; [exact N1|]. unfold spec_step. destruct s.
      + apply (committed_view _ _ _ _ _ P).
      + destruct P as (-> & _). reflexivity.
      + subst st'. reflexivity.
    - destruct (stack_addition_spec cfg nc txs st st' s Hc Hwf Ho Hn H) as (W & N1 & P).
      split; [exact W|]. split; [exact N1|]. unfold spec_step. destruct s.
      + destruct P as (P1 & P2 & _). unfold view_of, spec_hop. cbn [fst snd]. rewrite P1, P2. reflexivity.
      + destruct P as (-> & _). reflexivity.
      + subst st'. reflexivity.
    - destruct Ho as [Hb Hsz].
      destruct (stack_compact_preserves cfg a b st st' s Hc Hwf Hb Hsz H) as (A & B & C & _).
      split; [exact C|]. split; [intros E; unfold names_ok; rewrite A; apply Hn; exact E|].
      unfold spec_step, view_of. rewrite A, B. destruct s; reflexivity.
    - destruct (stack_compact_all_preserves cfg st st' s Hc Hwf Ho H) as (A & B & C & _).
      split; [exact C|]. split; [intros E; unfold names_ok; rewrite A; apply Hn; exact E|].
      unfold spec_step, view_of. rewrite A, B. destruct s; reflexivity.
    - destruct (stack_expire_spec cfg e st st' s Hc Hwf Ho H) as (W & NR & ER & OK).
      split; [exact W|]. destruct s.
      + destruct (OK eq_refl) as [A B].
        split; [intros E; unfold names_ok; rewrite A; apply Hn; exact E|].
        unfold spec_step, view_of, spec_hop. cbn [fst snd]. rewrite A, B. reflexivity.
      + congruence.
      + rewrite (ER eq_refl). split; [exact Hn|]. reflexivity.
  Qed.

  (* from any well-formed state *)
  Theorem history_view_from : forall ops cfg nc st,
    cfg_ok cfg -> stack_wf cfg st -> (nc = true -> names_ok st) -> hist_ok cfg nc st ops ->
    let tr := run_hist cfg nc st ops in
    map (fun r => view_of (fst r)) tr = spec_trace cfg (view_of st) (combine ops (map snd tr)) /\
    Forall (fun r => stack_wf cfg (fst r) /\ (nc = true -> names_ok (fst r))) tr.
  Proof.
    induction ops as [|o rest IH]; intros cfg nc st Hc Hwf Hn Hh; cbn [run_hist]; cbv zeta.
    - cbn [map combine spec_trace]. split; [reflexivity|constructor].
    - cbn [hist_ok] in Hh. destruct Hh as [Ho Hh].
      destruct (run_hop cfg nc st o) as [st' s] eqn:E. cbn [fst] in *.
      destruct (run_hop_step cfg nc st o st' s Hc Hwf Hn Ho E) as (W & N1 & ST). unfold spec_step in ST.
      destruct (IH cfg nc st' Hc W N1 Hh) as [R F]. cbv zeta in R, F.
      cbn [map combine fst snd spec_trace]. cbv zeta. split.
      + rewrite <- ST. f_equal. exact R.
      + constructor; [split; assumption|exact F].
  Qed.

  (* the history theorem (C07 at byte level): starting from the empty stack, after every
     prefix of any history satisfying the side conditions, the view through the byte-level
     stack is the view the deterministic specification computes from the operations and
     their reported statuses, and the state is well-formed *)
  Theorem history_view : forall ops cfg nc,
    cfg_ok cfg -> hist_ok cfg nc [] ops ->
    let tr := run_hist cfg nc [] ops in
    map (fun r => view_of (fst r)) tr = spec_trace cfg ([], []) (combine ops (map snd tr)) /\
    Forall (fun r => stack_wf cfg (fst r) /\ (nc = true -> names_ok (fst r))) tr.
  Proof.
    intros ops cfg nc Hc Hh.
    apply (history_view_from ops cfg nc [] Hc (stack_wf_nil cfg) (fun _ => names_ok_nil) Hh).
  Qed.
End StackSeqProofs.

(* ------------------------------------------------------------------ *)
(* non-vacuity: a concrete history through the stored codec           *)
(* ------------------------------------------------------------------ *)

Definition ex_cfg : config :=
  {| c_unaligned := false; c_block_size := 256; c_skip_index_objects := false; c_restart_interval := 16;
     c_sha256 := false; c_exact_log := false |}.
Definition ex_ref (n : N) (i : N) (v : ref_value) : ref_record := {| r_name := [n]; r_index := i; r_val := v |}.
Definition ex_hash (b : N) : bytes := repeat b 20.
Definition ex_log : log_record :=
  {| l_name := [98]; l_index := 2;
     l_body := Some {| lb_old := None; lb_new := Some (ex_hash 7); lb_name := [65]; lb_email := [66; 67];
                       lb_time := 1000; lb_tz := 60; lb_msg := [109] |} |}.
Definition ex_ops : list hop :=
  [ HAdd true [ex_ref 97 1 (RVal (ex_hash 1)); ex_ref 98 1 (RVal (ex_hash 2))] [];
    HAdd false [ex_ref 97 2 RDel; ex_ref 99 2 (RSym [98])] [ex_log];
    HMulti [[ex_ref 100 3 (RVal (ex_hash 3))]; [ex_ref 101 4 (RVal2 (ex_hash 1) (ex_hash 4))]];
    HCompact 0 1;
    HExpire {| e_time := 0; e_max_index := 0; e_min_index := 3 |} ].


Definition ex_r_b := ex_ref 98 1 (RVal (ex_hash 2)).
Definition ex_r_c := ex_ref 99 2 (RSym [98]).
Definition ex_r_d := ex_ref 100 3 (RVal (ex_hash 3)).
Definition ex_r_e := ex_ref 101 4 (RVal2 (ex_hash 1) (ex_hash 4)).
Definition ex_log_read : log_record :=
  {| l_name := [98]; l_index := 2;
     l_body := Some {| lb_old := Some (zeros 20); lb_new := Some (ex_hash 7); lb_name := [65]; lb_email := [66; 67];
                       lb_time := 1000; lb_tz := 60; lb_msg := [109; 10] |} |}.
Definition ex_views : list sview :=
  [ ([ex_ref 97 1 (RVal (ex_hash 1)); ex_r_b], []);
    ([ex_r_b; ex_r_c], [ex_log_read]);
    ([ex_r_b; ex_r_c; ex_r_d; ex_r_e], [ex_log_read]);
    ([ex_r_b; ex_r_c; ex_r_d; ex_r_e], [ex_log_read]);
    ([ex_r_b; ex_r_c; ex_r_d; ex_r_e], []) ].

Ltac ex_atom :=
  vm_compute; repeat split;
  first [ exact I | reflexivity | (intros ?; discriminate) | discriminate | lia ].
Ltac ex_size := let data := fresh "data" in let Hd := fresh "Hd" in
  intros data Hd; vm_compute in Hd; first [discriminate | (injection Hd as <-; vm_compute; reflexivity)].
Ltac ex_refs_ok := split; [repeat (constructor; [repeat split; ex_atom|])|repeat constructor]; try constructor.
Ltac ex_state :=
  match goal with |- hist_ok _ _ _ _ ?st _ =>
    let v := eval vm_compute in st in replace st with v by (vm_compute; reflexivity) end.

Lemma ex_cfg_ok : cfg_ok ex_cfg.
Proof. split; [reflexivity|right; discriminate]. Qed.

Ltac ex_step :=
  match goal with |- hist_ok ?d ?i ?c ?n ?st (?o :: ?rest) =>
    change (hop_ok d i c n st o /\ hist_ok d i c n (fst (run_hop d i c n st o)) rest); split end.

Ltac ex_ni :=
  repeat match goal with |- context [next_index ?st] =>
    let v := eval vm_compute in (next_index st) in replace (next_index st) with v by (vm_compute; reflexivity) end.
Ltac ex_log_ok :=
  let l1 := fresh "l1" in let Hn := fresh "Hn" in
  split; [intros l1 Hn; vm_compute in Hn; injection Hn as <-; ex_atom|ex_atom].

Lemma ex_hist_ok : hist_ok sdeflate sinflate ex_cfg true [] ex_ops.
Proof.
  unfold ex_ops. ex_step.
  { cbn [hop_ok]. ex_ni.
    split; [reflexivity|]. split; [ex_refs_ok|]. split; [apply logs_ok_nil|].
    split; [ex_size|]. intros _ st1 E. vm_compute in E. injection E as <-.
    intros a b SG. vm_compute in SG. discriminate SG. }
  ex_state. ex_step.
  { cbn [hop_ok]. ex_ni.
    split; [reflexivity|]. split; [ex_refs_ok|]. split.
    - split; [constructor; [ex_log_ok|constructor]|repeat constructor].
    - split; [ex_size|intros X; discriminate X]. }
  ex_state. ex_step.
  { cbn [hop_ok multi_ok]. ex_ni.
    split; [reflexivity|]. split; [ex_refs_ok|]. split; [ex_size|].
    split; [reflexivity|]. split; [ex_refs_ok|]. split; [ex_size|exact I]. }
  ex_state. ex_step.
  { cbn [hop_ok]. split; [ex_atom|unfold write_size_ok; ex_size]. }
  ex_state. ex_step.
  { cbn [hop_ok]. unfold compact_all_size_ok, write_size_ok. ex_size. }
  exact I.
Qed.

Example history_example :
  cfg_ok ex_cfg /\ hist_ok sdeflate sinflate ex_cfg true [] ex_ops /\
  map snd (run_hist sdeflate sinflate ex_cfg true [] ex_ops) = [SOk; SOk; SOk; SOk; SOk] /\
  map (fun r => view_of (fst r)) (run_hist sdeflate sinflate ex_cfg true [] ex_ops) = ex_views /\
  spec_trace ex_cfg ([], []) (combine ex_ops [SOk; SOk; SOk; SOk; SOk]) = ex_views /\
  map (fun r => length (fst r)) (run_hist sdeflate sinflate ex_cfg true [] ex_ops) = [1; 2; 4; 3; 1]%nat.
Proof.
  split; [exact ex_cfg_ok|]. split; [exact ex_hist_ok|]. vm_compute. repeat split; reflexivity.
Qed.

(* ------------------------------------------------------------------ *)
(* regression: a failing auto-compaction is not a failure of Add       *)
(* ------------------------------------------------------------------ *)

(* Block size 64.  Table 1 holds "a" and a 30-byte name that fits a block only without the
   24-byte file header (it is the second block of its table).  Table 2 deletes "a"; the two
   tables are in one size class, so Add's auto-compaction tries to merge them; the tombstone
   is dropped at the bottom of the stack, the long name becomes the FIRST record of the
   merged table, no longer fits, and the writer refuses ("record too large for block size").
   Add used to return that error after the transaction had become visible; now the
   compaction is skipped and Add succeeds. *)
Definition an_cfg : config :=
  {| c_unaligned := false; c_block_size := 64; c_skip_index_objects := false; c_restart_interval := 16;
     c_sha256 := false; c_exact_log := false |}.
Definition an_ref (n : bytes) (i : N) (v : ref_value) : ref_record := {| r_name := n; r_index := i; r_val := v |}.
Definition an_ops : list hop :=
  [ HAdd false [an_ref [97] 1 (RSym [120]); an_ref (repeat 98 30) 1 (RSym [120])] [];
    HAdd true [an_ref [97] 2 RDel; an_ref (repeat 99 21) 2 (RSym [120])] [] ].

Lemma an_hist_ok : hist_ok sdeflate sinflate an_cfg true [] an_ops.
Proof.
  unfold an_ops. ex_step.
  { cbn [hop_ok]. ex_ni.
    split; [reflexivity|]. split; [ex_refs_ok|]. split; [apply logs_ok_nil|].
    split; [ex_size|intros X; discriminate X]. }
  ex_state. ex_step.
  { cbn [hop_ok]. ex_ni.
    split; [reflexivity|]. split; [ex_refs_ok|]. split; [apply logs_ok_nil|].
    split; [ex_size|]. intros _ st1 E. vm_compute in E. injection E as <-.
    intros a b SG. vm_compute in SG. injection SG as <- <-. unfold write_size_ok. ex_size. }
  exact I.
Qed.

Example add_auto_failure_is_not_an_add_failure :
  let st2 := fst (run_hop sdeflate sinflate an_cfg true
                    (fst (run_hop sdeflate sinflate an_cfg true [] (nth 0 an_ops HCompactAll)))
                    (nth 1 an_ops HCompactAll)) in
  cfg_ok an_cfg /\ hist_ok sdeflate sinflate an_cfg true [] an_ops /\
  map snd (run_hist sdeflate sinflate an_cfg true [] an_ops) = [SOk; SOk] /\
  (* the view after step 2 is the committed one *)
  map (fun r => view_of (fst r)) (run_hist sdeflate sinflate an_cfg true [] an_ops) =
    spec_trace an_cfg ([], []) (combine an_ops [SOk; SOk]) /\
  map (fun r => map r_name (fst (view_of (fst r)))) (run_hist sdeflate sinflate an_cfg true [] an_ops) =
    [[[97]; repeat 98 30]; [repeat 98 30; repeat 99 21]] /\
  (* the compaction failed and was skipped: both tables are still there *)
  map (fun r => length (fst r)) (run_hist sdeflate sinflate an_cfg true [] an_ops) = [1; 2]%nat /\
  snd (stack_auto sdeflate sinflate an_cfg st2) = SErr /\
  (* the explicit compaction of the range still fails, and leaves the state unchanged *)
  stack_compact sdeflate sinflate an_cfg 0 1 None st2 = (st2, SErr).
Proof.
  cbv zeta. split; [split; [reflexivity|right; discriminate]|]. split; [exact an_hist_ok|].
  vm_compute. repeat split; reflexivity.
Qed.

(* ------------------------------------------------------------------ *)
(* the zlib hypotheses are satisfiable: the stored codec               *)
(* ------------------------------------------------------------------ *)

Definition history_view_stored := history_view sdeflate sinflate sdeflate_ok sdeflate_trunc sdeflate_bound.

Print Assumptions decode_of_write.
Print Assumptions stack_compact_preserves.
Print Assumptions stack_compact_tables.
Print Assumptions stack_compact_expiry_refs.
Print Assumptions stack_compact_expiry.
Print Assumptions stack_compact_all_preserves.
Print Assumptions stack_expire_spec.
Print Assumptions stack_add_spec.
Print Assumptions stack_addition_spec.
Print Assumptions history_view.
Print Assumptions history_view_stored.
Print Assumptions history_example.
Print Assumptions stack_add_auto_failed.
Print Assumptions history_view_from.
Print Assumptions add_auto_failure_is_not_an_add_failure.
