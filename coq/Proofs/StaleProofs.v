(* Property C09 "a stale handle can never commit; it is refreshed and its retry
   succeeds" for the schedules of the stack protocol model (Model/StackProto.v).

   Two readings of "the directory is unchanged by the failed Add":
     - [c09_ok] (strict, snap_eqb): still FALSE for all traces.  What remains
       after the repairs of the model (an Open that loses every race fails) and
       of the predicate (a Close / a failed Open makes the oracle forget the
       handle) is: a compaction paused (or crashed) between its commit and the
       unlinking of its inputs; the stale handle's reload unlinks those files
       itself ([Counterexamples.ce_paused_compaction], [ce_crashed_compaction]).
       [c09_all_traces_strong] has the one hypothesis that excludes exactly this,
       the trace precondition [c09_precond]: at the call of an Add (Add-like call)
       none of the tables the handle holds is both dropped from tables.list and
       still on disk.
       The former hypotheses are gone: reopen_before_add because the oracle's
       memory of a handle now always is the names of the stack the handle holds
       ([J]); [1 <= attempts] because with no attempt an Open fails, so no handle
       ever holds a stack ([run_att0]).  [c09_all_traces] is the same statement
       with the (unused) hypothesis [1 <= attempts], as requested.
     - [c09_ok_gc] (snap_gc: tables.list unchanged, nothing new, only unlisted
       table files went away): [c09_gc_all_traces_strong] holds of EVERY trace;
       [c09_gc_all_traces] is the requested statement (with [1 <= attempts]).

   Hash types.  Both theorems are about handles configured with the hash type
   of the directory ([native tabs scripts]).  A handle of the other hash type
   that holds a stack is never refreshed: its reload refuses the tables of the
   stack and keeps what it had (Proofs/HashCounterexamples.v:
   [c09_foreign_refuted], on an initially empty directory).  What is needed is
   less than [native]: [native_if_empty] -- the handles agree on the hash type
   if the directory is empty at the start ([c09_all_traces_weak],
   [c09_gc_all_traces_weak]).  A handle of another type cannot open a non-empty
   directory and tables.list never becomes empty again, so such a handle never
   holds a stack ([nostq]) and never writes; the handles of the directory's
   type only write tables of that type ([writes]); so every table file there
   ever is has the one hash type (section 3b: [NatInv]), the check at the end
   of a load by a handle that holds a stack never fails, and the symbolic
   execution of the stale Add goes through as before.

   The calls the oracle looks at.  Through a stale handle: an Add of a table,
   of an empty table, of a rejected table ([add_like]: lock failure, the
   directory compares, the handle is refreshed); a compaction (all, a range,
   with expiry), a Clean, a NewAddition ([stale_quiet]: success resp. lock
   failure, and the directory is STRICTLY unchanged in both readings -- these
   paths do not reload: [exec_compact_stale], [exec_clean_stale],
   [exec_add_multi_stale]).  Through an up-to-date handle: an Add of a table
   with the lock free commits.  The precondition [c09_precond] speaks of the
   Add-like calls only.

   Structure: 1. sequential execution [sexec] of a program against [apply_req];
   an undisturbed call in a trace is such an execution ([alone_run]).
   2. symbolic execution of [add] in the stale case (strictly, and up to the
   collection of unlisted tables [gc_ok]) and in the up-to-date case, and of
   [compact_range], [clean], [add_multi] in the stale case.
   3. a loop [c09g_loop] generic in the comparison of directories, equal to
   c09_loop / c09_loop_gc; the precondition.  4. the run invariant.  5. the
   clause of the oracle ([clause_of_add]); the theorems.  6. counterexamples. *)
From Coq Require Import List NArith Arith Bool Lia.
From RT Require Import Model.StackTrace Model.Segments Model.StackProto.
From RT Require Import Proofs.LockProofs Proofs.StackInvProofs Proofs.ResidueProofs.
Import ListNotations.
Local Open Scope nat_scope.

(* ------------------------------------------------------------------ *)
(* 1. sequential execution                                             *)
(* ------------------------------------------------------------------ *)

Fixpoint sexec {A} (so : nat -> N) (h : nat) (p : prog A) (s : fs) (E : list event) (a : A) (s'' : fs) : Prop :=
  match p with
  | Ret a0 => E = [] /\ a = a0 /\ s'' = s
  | Op q k => exists c s' rs fe E', apply_req so c h q s = (s', rs, fe) /\
                E = req_event h q rs fe :: ESnap (snapshot_of s') :: E' /\ sexec so h (k rs) s' E' a s''
  end.

Lemma sexec_bind : forall A B so h (p : prog A) (f : A -> prog B) s E b s'',
  sexec so h (pbind p f) s E b s'' ->
  exists a s' E1 E2, sexec so h p s E1 a s' /\ sexec so h (f a) s' E2 b s'' /\ E = E1 ++ E2.
Proof.
  induction p as [a|q k IH]; intros f s E b s'' H; cbn [pbind sexec] in *.
  - exists a, s, [], E. split; [auto|]. split; [exact H|reflexivity].
  - destruct H as (c & s' & rs & fe & E' & Hap & -> & H).
    destruct (IH rs f s' E' b s'' H) as (a & s1 & E1 & E2 & H1 & H2 & ->).
    exists a, s1, (req_event h q rs fe :: ESnap (snapshot_of s') :: E1), E2.
    split; [|split; [exact H2|reflexivity]].
    exists c, s', rs, fe, E1. auto.
Qed.

(* [leaves p P] (every result the program can return satisfies P) is defined in StackInvProofs *)

Lemma leaves_sexec : forall A so h (p : prog A) P s E a s', leaves p P -> sexec so h p s E a s' -> P a.
Proof.
  induction p as [a0|q k IH]; intros P s E a s' HL H; cbn [leaves sexec] in *.
  - destruct H as (_ & -> & _). exact HL.
  - destruct H as (c & s1 & rs & fe & E' & _ & _ & H). eapply IH; [apply HL|exact H].
Qed.

Lemma req_not_snap : forall h q rs fe (x : snapshot),
  match req_event h q rs fe with ESnap y => y | _ => x end = x.
Proof. intros. destruct q; reflexivity. Qed.

Lemma last_snap_sexec : forall A so h (p : prog A) s E a s',
  sexec so h p s E a s' -> last_snap E (snapshot_of s) = snapshot_of s'.
Proof.
  induction p as [a0|q k IH]; intros s E a s' H; cbn [sexec] in H.
  - destruct H as (-> & _ & ->). reflexivity.
  - destruct H as (c & s1 & rs & fe & E' & _ & -> & H).
    rewrite <- (IH rs s1 E' a s' H). unfold last_snap. destruct q; reflexivity.
Qed.

(* an undisturbed call in the trace of a run is a sequential execution *)
Lemma alone_req : forall h h' q rs fe t acc,
  alone_until_ret h (req_event h' q rs fe :: t) acc =
  if Nat.eqb h h' then alone_until_ret h t (req_event h' q rs fe :: acc) else None.
Proof. intros. destruct q; reflexivity. Qed.

Definition mem_events (h : nat) (m : option mem) : list event :=
  match m with Some mm => [EMem h (mnames mm) 0] | None => [] end.

Lemma step_other : forall so att w h' c w1 e1 h,
  step so att w h' c = (w1, e1) -> h' <> h ->
  (e1 = [] /\ w1 = w) \/ (forall rest acc, alone_until_ret h (e1 ++ rest) acc = None).
Proof.
  intros so att w h' c w1 e1 h H Hne. unfold step in H.
  assert (Hn : Nat.eqb h h' = false) by (apply Nat.eqb_neq; congruence).
  destruct (nth_error (w_handles w) h') as [hd|]; [|inversion H; auto].
  destruct (h_pc hd) as [|o p|].
  - destruct (h_script hd) as [|o rest]; [inversion H; auto|].
    destruct (call_prog att (h_hash hd) o (h_mem hd)) as [[m r]|q k]; inversion H; subst; right; intros; reflexivity.
  - destruct p as [[m r]|q k].
    + inversion H; subst. right. intros. unfold finish_events. cbn [app alone_until_ret]. rewrite Hn. reflexivity.
    + destruct (apply_req so c h' q (w_fs w)) as [[s' rs] fe].
      destruct (k rs) as [[m r]|q' k']; inversion H; subst; right; intros; cbn [app]; rewrite alone_req, Hn; reflexivity.
  - inversion H; auto.
Qed.

Lemma alone_run : forall so att sched w w' evs h hd o p acc evs1 r rest,
  run so att w sched = (w', evs) -> nth_error (w_handles w) h = Some hd -> h_pc hd = HRun o p ->
  alone_until_ret h evs acc = Some (evs1, r, rest) ->
  exists E m s' rest', sexec so h p (w_fs w) E (m, r) s' /\ evs1 = rev acc ++ E /\
                       rest = mem_events h m ++ rest'.
Proof.
  intros so att. induction sched as [|[h' c|h'] sched IH]; intros w w' evs h hd o p acc evs1 r rest Hrun En Epc Hal;
    cbn [run] in Hrun.
  - inversion Hrun; subst. discriminate Hal.
  - destruct (step so att w h' c) as [w1 e1] eqn:E1.
    destruct (run so att w1 sched) as [w2 e2] eqn:E2. inversion Hrun; subst w' evs. clear Hrun.
    destruct (Nat.eq_dec h' h) as [->|Hne].
    + unfold step in E1. rewrite En, Epc in E1.
      destruct p as [[m r0]|q k].
      * inversion E1; subst w1 e1. clear E1. unfold finish_events in Hal. cbn [app alone_until_ret] in Hal.
        rewrite Nat.eqb_refl in Hal. inversion Hal; subst.
        exists [], m, (w_fs w), e2. cbn [sexec]. rewrite app_nil_r. auto.
      * destruct (apply_req so c h q (w_fs w)) as [[s' rs] fe] eqn:Ea.
        destruct (k rs) as [[m r0]|q' k'] eqn:Ek; inversion E1; subst w1 e1; clear E1.
        -- cbn [app] in Hal. rewrite alone_req, Nat.eqb_refl in Hal. unfold finish_events in Hal.
           cbn [app alone_until_ret] in Hal. rewrite Nat.eqb_refl in Hal. inversion Hal; subst.
           exists [req_event h q rs fe; ESnap (snapshot_of s')], m, s', e2.
           split; [|split; [cbn [rev]; rewrite <- !app_assoc; reflexivity|reflexivity]].
           cbn [sexec]. exists c, s', rs, fe, []. split; [exact Ea|]. split; [reflexivity|].
           rewrite Ek. cbn [sexec]. auto.
        -- cbn [app] in Hal. rewrite alone_req, Nat.eqb_refl in Hal. cbn [alone_until_ret] in Hal.
           set (x := {| h_mem := h_mem hd; h_pc := HRun o (Op q' k'); h_script := h_script hd; h_hash := h_hash hd |}) in *.
           destruct (IH _ _ _ h x o (Op q' k') _ _ _ _ E2 (nth_set_same _ _ x _ En) eq_refl Hal)
             as (E & m & s'' & rest' & Hs & -> & ->).
           cbn [w_fs] in Hs.
           exists (req_event h q rs fe :: ESnap (snapshot_of s') :: E), m, s'', rest'.
           split; [|split; [cbn [rev]; rewrite <- !app_assoc; reflexivity|reflexivity]].
           cbn [sexec]. exists c, s', rs, fe, E. split; [exact Ea|]. split; [reflexivity|].
           rewrite Ek. exact Hs.
    + destruct (step_other _ _ _ _ _ _ _ h E1 Hne) as [[-> ->]|Hno].
      * cbn [app] in Hal. eapply IH; eauto.
      * rewrite Hno in Hal. discriminate Hal.
  - destruct (crash w h') as [w1 e1] eqn:E1.
    destruct (run so att w1 sched) as [w2 e2] eqn:E2. inversion Hrun; subst w' evs. clear Hrun.
    unfold crash in E1. destruct (nth_error (w_handles w) h') as [hd'|].
    + inversion E1; subst. discriminate Hal.
    + inversion E1; subst. cbn [app] in Hal. eapply IH; eauto.
Qed.

(* ------------------------------------------------------------------ *)
(* 2. symbolic execution of reload and add                             *)
(* ------------------------------------------------------------------ *)

Lemma exec_open_all : forall so h old names acc s E o s',
  (forall n, In n names -> lookup n (f_tabs s) <> None) ->
  sexec so h (open_all true old names acc) s E o s' ->
  s' = s /\ exists m, o = Some m /\ mnames m = rev (mnames acc) ++ names /\
    (* every table comes from the old stack or from the directory *)
    (forall x, In x m -> In x acc \/ In x old \/ lookup (fst x) (f_tabs s) = Some (snd x)).
Proof.
  intros so h old. induction names as [|n t IH]; intros acc s E o s' Hex H; cbn [open_all] in H.
  - cbn [sexec] in H. destruct H as (_ & -> & ->). split; [reflexivity|].
    exists (rev acc). split; [reflexivity|]. split; [unfold mnames; rewrite map_rev, app_nil_r; reflexivity|].
    intros x Hx. left. apply in_rev. exact Hx.
  - assert (Ht : forall x, In x t -> lookup x (f_tabs s) <> None) by (intros x Hx; apply Hex; right; exact Hx).
    assert (Hfin : forall f m, mnames m = rev (mnames ((n, f) :: acc)) ++ t -> mnames m = rev (mnames acc) ++ n :: t).
    { intros f m ->. cbn [mnames map fst rev]. rewrite <- app_assoc. reflexivity. }
    destruct (lookup n old) as [f|] eqn:Eo.
    + destruct (IH _ _ _ _ _ Ht H) as (-> & m & -> & Hm & Hfrom). split; [reflexivity|]. exists m. split; [reflexivity|].
      split; [eapply Hfin; eauto|].
      intros x Hx. destruct (Hfrom x Hx) as [[<-|X]|X]; auto. right. left. apply lookup_In. exact Eo.
    + cbn [pbind op sexec] in H. destruct H as (c & s1 & rs & fe & E' & Hap & _ & H).
      cbn [apply_req] in Hap. destruct (lookup n (f_tabs s)) as [f|] eqn:El.
      * inversion Hap; subst. destruct (IH _ _ _ _ _ Ht H) as (-> & m & -> & Hm & Hfrom). split; [reflexivity|].
        exists m. split; [reflexivity|]. split; [eapply Hfin; eauto|].
        intros x Hx. destruct (Hfrom x Hx) as [[<-|X]|X]; auto.
      * exfalso. apply (Hex n); [left; reflexivity|exact El].
Qed.

(* every table file is of hash type [hh] *)
Definition tabs_hash (hh : bool) (s : fs) : Prop := forall n f, lookup n (f_tabs s) = Some f -> tf_hash f = hh.

Lemma exec_remove_any : forall so h fuel cands s E u s',
  (forall n, In n cands -> lookup n (f_tabs s) = None) ->
  sexec so h (remove_any fuel cands) s E u s' -> s' = s.
Proof.
  intros so h. induction fuel as [|f IH]; intros cands s E u s' Hno H.
  - destruct cands; cbn in H; apply H.
  - destruct cands as [|c0 cs]; [cbn in H; apply H|].
    cbn [remove_any pbind op sexec] in H. destruct H as (c & s1 & rs & fe & E' & Hap & _ & H).
    cbn [apply_req] in Hap.
    match type of Hap with context [lookup ?x (f_tabs s)] => set (n := x) in * end.
    assert (Hn : In n (c0 :: cs)).
    { unfold n. destruct c as [c1|]; [|left; reflexivity].
      destruct (mem_nat c1 (c0 :: cs)) eqn:Em; [apply mem_nat_In; exact Em|left; reflexivity]. }
    rewrite (Hno n Hn) in Hap. inversion Hap; subst. eapply IH; [|exact H].
    intros x Hx. apply filter_In in Hx as [Hx _]. apply Hno. exact Hx.
Qed.

Lemma lnames_list : forall s, match SNames (f_list s) with SNames (Some l) => l | _ => [] end = listed_fs s.
Proof. intro s. unfold listed_fs. destruct (f_list s); reflexivity. Qed.

Lemma exec_open_all_hash : forall hh (old m : mem) s,
  mh hh old -> tabs_hash hh s ->
  (forall x, In x m -> In x (@nil (nat * tfile)) \/ In x old \/ lookup (fst x) (f_tabs s) = Some (snd x)) ->
  same_hash hh m = true.
Proof.
  intros hh old m s Hold Hs Hfrom. apply same_hash_mh. intros x Hx.
  destruct (Hfrom x Hx) as [[]|[X|X]]; [apply Hold; exact X|apply (Hs _ _ X)].
Qed.

Lemma exec_reload : forall so h a hh old s E m st s',
  (forall n, In n (listed_fs s) -> lookup n (f_tabs s) <> None) ->
  (forall n, In n (mnames old) -> In n (listed_fs s) \/ lookup n (f_tabs s) = None) ->
  mh hh old -> tabs_hash hh s ->
  sexec so h (reload (S a) hh true old) s E (m, st) s' -> s' = s /\ mnames m = listed_fs s.
Proof.
  intros so h a hh old s E m st s' Hex Hold Hmh Hth H.
  cbn [reload pbind op sexec] in H. destruct H as (c & s1 & rs & fe & E' & Hap & _ & H).
  cbn [apply_req] in Hap. inversion Hap; subst s1 rs fe. clear Hap.
  rewrite lnames_list in H.
  apply sexec_bind in H as (o & s2 & E1 & E2 & H1 & H2 & _).
  destruct (exec_open_all _ _ _ _ _ _ _ _ _ Hex H1) as (-> & m' & -> & Hm' & Hfrom). cbn [mnames map rev app] in Hm'.
  rewrite (exec_open_all_hash _ _ _ _ Hmh Hth Hfrom) in H2.
  apply sexec_bind in H2 as (u & s3 & E3 & E4 & H3 & H4 & _).
  apply exec_remove_any in H3.
  - subst s3. cbn [sexec] in H4. destruct H4 as (_ & E4' & ->). inversion E4'; subst. auto.
  - intros n Hn. apply filter_In in Hn as [Hn1 Hn2]. apply negb_true_iff in Hn2. apply mem_nat_false in Hn2.
    destruct (Hold n Hn1); [contradiction|assumption].
Qed.

Lemma fs_unlock_eq : forall s, f_lock s = None ->
  {| f_list := f_list s; f_lock := None; f_tabs := f_tabs s; f_tlocks := f_tlocks s;
     f_tmps := f_tmps s; f_next_tab := f_next_tab s; f_next_tmp := f_next_tmp s |} = s.
Proof. intros s H. destruct s; cbn in *; subst; reflexivity. Qed.

(* a stale handle: lock failure, the directory is what it was, the handle holds the current list *)
Lemma exec_add_stale : forall so h a hh kind auto mm s E m r s',
  (forall n, In n (listed_fs s) -> lookup n (f_tabs s) <> None) ->
  (forall n, In n (mnames mm) -> In n (listed_fs s) \/ lookup n (f_tabs s) = None) ->
  mh hh mm -> tabs_hash hh s ->
  list_nat_eqb (mnames mm) (listed_fs s) = false ->
  sexec so h (add (S a) hh kind auto mm) s E (m, r) s' ->
  r = RLockFailure /\ s' = s /\ mnames m = listed_fs s.
Proof.
  intros so h a hh kind auto mm s E m r s' Hex Hold Hmh Hth Hst H.
  assert (Hfail : forall E0 s0, s0 = s ->
            sexec so h (do! rl := reload (S a) hh true mm in Ret (fst rl, RLockFailure)) s0 E0 (m, r) s' ->
            r = RLockFailure /\ s' = s /\ mnames m = listed_fs s).
  { intros E0 s0 -> H0. apply sexec_bind in H0 as ([m1 st] & s1 & E1 & E2 & H1 & H2 & _).
    destruct (exec_reload _ _ _ _ _ _ _ _ _ _ Hex Hold Hmh Hth H1) as [-> Hm].
    cbn [sexec fst] in H2. destruct H2 as (_ & E2' & ->). inversion E2'; subst. auto. }
  unfold add in H. cbn [pbind op sexec] in H. destruct H as (c & s1 & rs & fe & E' & Hap & _ & H).
  cbn [apply_req] in Hap. destruct (f_lock s) as [o|] eqn:El; inversion Hap; subst s1 rs fe; clear Hap.
  - eapply Hfail; [reflexivity|exact H].
  - cbn [pbind op sexec] in H. destruct H as (c1 & s2 & rs & fe & E2 & Hap & _ & H).
    cbn [apply_req f_list] in Hap. inversion Hap; subst s2 rs fe. clear Hap.
    rewrite lnames_list in H.
    assert (Hneq : names_eqb (listed_fs s) (mnames mm) = false).
    { unfold names_eqb. destruct (list_nat_eqb (listed_fs s) (mnames mm)) eqn:X; [|reflexivity].
      apply list_nat_eqb_eq in X. rewrite X, list_nat_eqb_refl in Hst. discriminate. }
    change (match f_list s with Some l => l | None => [] end) with (listed_fs s) in H.
    rewrite Hneq in H. cbn [negb pbind op sexec] in H.
    destruct H as (c2 & s3 & rs & fe & E3 & Hap & _ & H).
    cbn [apply_req f_lock f_list f_tabs f_tlocks f_tmps f_next_tab f_next_tmp] in Hap.
    inversion Hap; subst s3 rs fe. clear Hap.
    eapply Hfail; [|exact H]. apply fs_unlock_eq. exact El.
Qed.

(* ---------------- the same up to the collection of unlisted tables ---------------- *)

(* [s'] is [s] with some table files that tables.list does not name unlinked *)
Definition gc_ok (s s' : fs) : Prop :=
  f_list s' = f_list s /\ f_lock s' = f_lock s /\ f_tlocks s' = f_tlocks s /\ f_tmps s' = f_tmps s /\
  incl (f_tabs s') (f_tabs s) /\
  (forall x, In x (f_tabs s) -> In x (f_tabs s') \/ ~ In (fst x) (listed_fs s)).

Lemma gc_ok_refl : forall s, gc_ok s s.
Proof. intro s. repeat split; auto using incl_refl. Qed.

Lemma gc_ok_del : forall s s1 n,
  gc_ok s s1 -> ~ In n (listed_fs s) ->
  gc_ok s {| f_list := f_list s1; f_lock := f_lock s1; f_tabs := del n (f_tabs s1); f_tlocks := f_tlocks s1;
             f_tmps := f_tmps s1; f_next_tab := f_next_tab s1; f_next_tmp := f_next_tmp s1 |}.
Proof.
  intros s s1 n (A & B & C & D & E & F) Hn. unfold gc_ok. cbn [f_list f_lock f_tabs f_tlocks f_tmps].
  split; [exact A|]. split; [exact B|]. split; [exact C|]. split; [exact D|]. split.
  - intros x Hx. unfold del in Hx. apply filter_In in Hx as [Hx _]. apply E. exact Hx.
  - intros x Hx. destruct (F x Hx) as [Y|Y]; [|right; exact Y].
    destruct (Nat.eqb_spec n (fst x)) as [Eq|Ne].
    + right. rewrite <- Eq. exact Hn.
    + left. unfold del. apply filter_In. split; [exact Y|]. apply negb_true_iff. apply Nat.eqb_neq. exact Ne.
Qed.

Lemma exec_remove_any_gc : forall so h s0 fuel cands s E u s',
  (forall n, In n cands -> ~ In n (listed_fs s0)) -> gc_ok s0 s ->
  sexec so h (remove_any fuel cands) s E u s' -> gc_ok s0 s'.
Proof.
  intros so h s0. induction fuel as [|f IH]; intros cands s E u s' Hno Hgc H.
  - destruct cands; cbn in H; destruct H as (_ & _ & ->); exact Hgc.
  - destruct cands as [|c0 cs]; [cbn in H; destruct H as (_ & _ & ->); exact Hgc|].
    cbn [remove_any pbind op sexec] in H. destruct H as (c & s1 & rs & fe & E' & Hap & _ & H).
    cbn [apply_req] in Hap.
    match type of Hap with context [lookup ?x (f_tabs s)] => set (n := x) in * end.
    assert (Hn : In n (c0 :: cs)).
    { unfold n. destruct c as [c1|]; [|left; reflexivity].
      destruct (mem_nat c1 (c0 :: cs)) eqn:Em; [apply mem_nat_In; exact Em|left; reflexivity]. }
    assert (Hsub : forall x, In x (filter (fun y => negb (Nat.eqb y n)) (c0 :: cs)) -> ~ In x (listed_fs s0)).
    { intros x Hx. apply filter_In in Hx as [Hx _]. apply Hno. exact Hx. }
    destruct (lookup n (f_tabs s)); inversion Hap; subst s1 rs fe; clear Hap.
    + eapply IH; [exact Hsub| |exact H]. apply gc_ok_del; [exact Hgc|apply Hno; exact Hn].
    + eapply IH; [exact Hsub|exact Hgc|exact H].
Qed.

Lemma exec_reload_gc : forall so h a hh old s E m st s',
  (forall n, In n (listed_fs s) -> lookup n (f_tabs s) <> None) ->
  mh hh old -> tabs_hash hh s ->
  sexec so h (reload (S a) hh true old) s E (m, st) s' -> gc_ok s s' /\ mnames m = listed_fs s.
Proof.
  intros so h a hh old s E m st s' Hex Hmh Hth H.
  cbn [reload pbind op sexec] in H. destruct H as (c & s1 & rs & fe & E' & Hap & _ & H).
  cbn [apply_req] in Hap. inversion Hap; subst s1 rs fe. clear Hap.
  rewrite lnames_list in H.
  apply sexec_bind in H as (o & s2 & E1 & E2 & H1 & H2 & _).
  destruct (exec_open_all _ _ _ _ _ _ _ _ _ Hex H1) as (-> & m' & -> & Hm' & Hfrom). cbn [mnames map rev app] in Hm'.
  rewrite (exec_open_all_hash _ _ _ _ Hmh Hth Hfrom) in H2.
  apply sexec_bind in H2 as (u & s3 & E3 & E4 & H3 & H4 & _).
  apply (exec_remove_any_gc so h s) in H3; [|intros n Hn|apply gc_ok_refl].
  - cbn [sexec] in H4. destruct H4 as (_ & E4' & ->). inversion E4'; subst. auto.
  - apply filter_In in Hn as [_ Hn2]. apply negb_true_iff in Hn2. apply mem_nat_false in Hn2. exact Hn2.
Qed.

Lemma exec_add_stale_gc : forall so h a hh kind auto mm s E m r s',
  (forall n, In n (listed_fs s) -> lookup n (f_tabs s) <> None) ->
  mh hh mm -> tabs_hash hh s ->
  list_nat_eqb (mnames mm) (listed_fs s) = false ->
  sexec so h (add (S a) hh kind auto mm) s E (m, r) s' ->
  r = RLockFailure /\ gc_ok s s' /\ mnames m = listed_fs s.
Proof.
  intros so h a hh kind auto mm s E m r s' Hex Hmh Hth Hst H.
  assert (Hfail : forall E0 s0, s0 = s ->
            sexec so h (do! rl := reload (S a) hh true mm in Ret (fst rl, RLockFailure)) s0 E0 (m, r) s' ->
            r = RLockFailure /\ gc_ok s s' /\ mnames m = listed_fs s).
  { intros E0 s0 -> H0. apply sexec_bind in H0 as ([m1 st] & s1 & E1 & E2 & H1 & H2 & _).
    destruct (exec_reload_gc _ _ _ _ _ _ _ _ _ _ Hex Hmh Hth H1) as [Hgc Hm].
    cbn [sexec fst] in H2. destruct H2 as (_ & E2' & ->). inversion E2'; subst. auto. }
  unfold add in H. cbn [pbind op sexec] in H. destruct H as (c & s1 & rs & fe & E' & Hap & _ & H).
  cbn [apply_req] in Hap. destruct (f_lock s) as [o|] eqn:El; inversion Hap; subst s1 rs fe; clear Hap.
  - eapply Hfail; [reflexivity|exact H].
  - cbn [pbind op sexec] in H. destruct H as (c1 & s2 & rs & fe & E2 & Hap & _ & H).
    cbn [apply_req f_list] in Hap. inversion Hap; subst s2 rs fe. clear Hap.
    rewrite lnames_list in H.
    assert (Hneq : names_eqb (listed_fs s) (mnames mm) = false).
    { unfold names_eqb. destruct (list_nat_eqb (listed_fs s) (mnames mm)) eqn:X; [|reflexivity].
      apply list_nat_eqb_eq in X. rewrite X, list_nat_eqb_refl in Hst. discriminate. }
    change (match f_list s with Some l => l | None => [] end) with (listed_fs s) in H.
    rewrite Hneq in H. cbn [negb pbind op sexec] in H.
    destruct H as (c2 & s3 & rs & fe & E3 & Hap & _ & H).
    cbn [apply_req f_lock f_list f_tabs f_tlocks f_tmps f_next_tab f_next_tmp] in Hap.
    inversion Hap; subst s3 rs fe. clear Hap.
    eapply Hfail; [|exact H]. apply fs_unlock_eq. exact El.
Qed.

(* an up-to-date handle and a free lock: the Add returns success *)
Lemma leaves_true : forall A (p : prog A), leaves p (fun _ => True).
Proof. induction p as [a|q k IH]; cbn [leaves]; auto. Qed.

Lemma exec_add_fresh : forall so h att hh tx auto mm s E m r s',
  f_lock s = None -> mnames mm = listed_fs s ->
  sexec so h (add att hh (KAdd tx) auto mm) s E (m, r) s' -> r = ROk.
Proof.
  intros so h att hh tx auto mm s E m r s' El Hup H.
  unfold add in H. cbn [pbind op sexec] in H. destruct H as (c & s1 & rs & fe & E' & Hap & _ & H).
  cbn [apply_req] in Hap. rewrite El in Hap. inversion Hap; subst s1 rs fe; clear Hap.
  cbn [pbind op sexec] in H. destruct H as (c1 & s2 & rs & fe & E2 & Hap & _ & H).
  cbn [apply_req f_list] in Hap. inversion Hap; subst s2 rs fe. clear Hap.
  rewrite lnames_list in H. change (match f_list s with Some l => l | None => [] end) with (listed_fs s) in H.
  rewrite <- Hup in H. unfold names_eqb in H. rewrite list_nat_eqb_refl in H. cbn [negb pbind op sexec] in H.
  destruct H as (c2 & s3 & rs & fe & E3 & Hap & _ & H).
  cbn [apply_req f_lock f_list f_tabs f_tlocks f_tmps f_next_tab f_next_tmp] in Hap.
  inversion Hap; subst s3 rs fe. clear Hap.
  cbn [pbind op sexec] in H. destruct H as (c3 & s4 & rs & fe & E4 & Hap & _ & H).
  assert (Es4 : f_tmps s4 = (f_next_tmp s, h) :: f_tmps s /\ f_next_tab s4 = f_next_tab s).
  { cbn [apply_req f_tmps] in Hap. destruct (lookup _ _); inversion Hap; subst; split; reflexivity. }
  clear Hap. destruct Es4 as [Et4 En4].
  cbn [pbind op sexec] in H. destruct H as (c4 & s5 & rs5 & fe5 & E5 & Hap & _ & H).
  cbn [apply_req] in Hap. rewrite Et4 in Hap. cbn [lookup] in Hap. rewrite Nat.eqb_refl in Hap.
  inversion Hap; subst s5 rs5 fe5. clear Hap.
  match type of H with sexec _ _ ?p _ _ _ _ =>
    assert (HL : leaves p (fun res : mem * apires => snd res = ROk)) end.
  { cbn [leaves pbind op]. intros _ _.
    apply leaves_bind. intros rl. destruct auto; [|reflexivity].
    apply leaves_bind. intros m'. reflexivity. }
  apply (leaves_sexec _ _ _ _ _ _ _ _ _ HL H).
Qed.

(* ---------------- the calls that do not reload: compaction, Clean, NewAddition ---------------- *)

(* Through a stale handle these take tables.list.lock (or find it taken and give
   up), read tables.list, see that it is not what the handle holds, remove the
   lock and return: the directory at the return is the directory at the call. *)

Lemma names_eqb_stale : forall (mm : mem) s,
  list_nat_eqb (mnames mm) (listed_fs s) = false -> names_eqb (listed_fs s) (mnames mm) = false.
Proof.
  intros mm s Hst. unfold names_eqb. destruct (list_nat_eqb (listed_fs s) (mnames mm)) eqn:X; [|reflexivity].
  apply list_nat_eqb_eq in X. rewrite X, list_nat_eqb_refl in Hst. discriminate Hst.
Qed.

Lemma exec_compact_stale : forall so h att hh first last expiry mm s E m b s',
  list_nat_eqb (mnames mm) (listed_fs s) = false ->
  sexec so h (compact_range att hh first last expiry mm) s E (m, b) s' -> s' = s.
Proof.
  intros so h att hh first last expiry mm s E m b s' Hst H. unfold compact_range in H.
  destruct (Nat.leb last first && negb expiry).
  - cbn [sexec] in H. destruct H as (_ & _ & ->). reflexivity.
  - cbn [pbind op sexec] in H. destruct H as (c & s1 & rs & fe & E' & Hap & _ & H).
    cbn [apply_req] in Hap. destruct (f_lock s) as [o|] eqn:El; inversion Hap; subst s1 rs fe; clear Hap.
    + cbn [sexec] in H. destruct H as (_ & _ & ->). reflexivity.
    + cbn [pbind op sexec] in H. destruct H as (c1 & s2 & rs & fe & E2 & Hap & _ & H).
      cbn [apply_req f_list] in Hap. inversion Hap; subst s2 rs fe. clear Hap.
      rewrite lnames_list in H.
      change (match f_list s with Some l => l | None => [] end) with (listed_fs s) in H.
      rewrite (names_eqb_stale _ _ Hst) in H. cbn [negb pbind op sexec] in H.
      destruct H as (c2 & s3 & rs & fe & E3 & Hap & _ & H).
      cbn [apply_req f_lock f_list f_tabs f_tlocks f_tmps f_next_tab f_next_tmp] in Hap.
      inversion Hap; subst s3 rs fe. clear Hap.
      cbn [sexec] in H. destruct H as (_ & _ & ->). apply fs_unlock_eq. exact El.
Qed.

Lemma exec_add_multi_stale : forall so h att hh tx same mm s E m r s',
  list_nat_eqb (mnames mm) (listed_fs s) = false ->
  sexec so h (add_multi att hh tx same mm) s E (m, r) s' -> r = RLockFailure /\ s' = s.
Proof.
  intros so h att hh tx same mm s E m r s' Hst H. unfold add_multi in H.
  cbn [pbind op sexec] in H. destruct H as (c & s1 & rs & fe & E' & Hap & _ & H).
  cbn [apply_req] in Hap. destruct (f_lock s) as [o|] eqn:El; inversion Hap; subst s1 rs fe; clear Hap.
  - cbn [sexec] in H. destruct H as (_ & Er & ->). inversion Er; subst m r. split; reflexivity.
  - cbn [pbind op sexec] in H. destruct H as (c1 & s2 & rs & fe & E2 & Hap & _ & H).
    cbn [apply_req f_list] in Hap. inversion Hap; subst s2 rs fe. clear Hap.
    rewrite lnames_list in H.
    change (match f_list s with Some l => l | None => [] end) with (listed_fs s) in H.
    rewrite (names_eqb_stale _ _ Hst) in H. cbn [negb pbind op sexec] in H.
    destruct H as (c2 & s3 & rs & fe & E3 & Hap & _ & H).
    cbn [apply_req f_lock f_list f_tabs f_tlocks f_tmps f_next_tab f_next_tmp] in Hap.
    inversion Hap; subst s3 rs fe. clear Hap.
    cbn [sexec] in H. destruct H as (_ & Er & ->). inversion Er; subst m r.
    split; [reflexivity|]. apply fs_unlock_eq. exact El.
Qed.

Lemma exec_clean_stale : forall so h att hh mm s E m r s',
  list_nat_eqb (mnames mm) (listed_fs s) = false ->
  sexec so h (clean att hh mm) s E (m, r) s' -> r = RLockFailure /\ s' = s.
Proof.
  intros so h att hh mm s E m r s' Hst H. unfold clean in H.
  cbn [pbind op sexec] in H. destruct H as (c & s1 & rs & fe & E' & Hap & _ & H).
  cbn [apply_req] in Hap. destruct (f_lock s) as [o|] eqn:El; inversion Hap; subst s1 rs fe; clear Hap.
  - cbn [sexec] in H. destruct H as (_ & Er & ->). inversion Er; subst m r. split; reflexivity.
  - cbn [pbind op sexec] in H. destruct H as (c1 & s2 & rs & fe & E2 & Hap & _ & H).
    cbn [apply_req f_list] in Hap. inversion Hap; subst s2 rs fe. clear Hap.
    rewrite lnames_list in H.
    change (match f_list s with Some l => l | None => [] end) with (listed_fs s) in H.
    rewrite (names_eqb_stale _ _ Hst) in H. cbn [negb pbind op sexec] in H.
    destruct H as (c2 & s3 & rs & fe & E3 & Hap & _ & H).
    cbn [apply_req f_lock f_list f_tabs f_tlocks f_tmps f_next_tab f_next_tmp] in Hap.
    inversion Hap; subst s3 rs fe. clear Hap.
    cbn [sexec] in H. destruct H as (_ & Er & ->). inversion Er; subst m r.
    split; [reflexivity|]. apply fs_unlock_eq. exact El.
Qed.

(* a compaction call always reports success *)
Lemma exec_wrap_compact_stale : forall so h att hh first last expiry mm s E m r s',
  list_nat_eqb (mnames mm) (listed_fs s) = false ->
  sexec so h (wrap (compact_range att hh first last expiry mm) (fun x => (Some (fst x), ROk))) s E (m, r) s' ->
  r = ROk /\ s' = s.
Proof.
  intros so h att hh first last expiry mm s E m r s' Hst H. unfold wrap in H.
  apply sexec_bind in H as ([m1 b] & s1 & E1 & E2 & H1 & H2 & _).
  cbn [sexec] in H2. destruct H2 as (_ & Er & ->). inversion Er; subst m r.
  split; [reflexivity|]. exact (exec_compact_stale _ _ _ _ _ _ _ _ _ _ _ _ _ Hst H1).
Qed.

(* the calls of [stale_quiet] through a stale handle: the result the oracle asks for, and nothing happened *)
Lemma exec_quiet_stale : forall so h att hh o okr mm s E m r s',
  stale_quiet o = Some okr ->
  list_nat_eqb (mnames mm) (listed_fs s) = false ->
  sexec so h (call_prog att hh o (Some mm)) s E (m, r) s' ->
  okr r = true /\ s' = s.
Proof.
  intros so h att hh o okr mm s E m r s' Hq Hst H.
  assert (Hret : forall (x : option mem), sexec so h (Ret (x, ROk)) s E (m, r) s' -> r = ROk /\ s' = s).
  { intros x H0. cbn [sexec] in H0. destruct H0 as (_ & Er & ->). inversion Er; subst m r. split; reflexivity. }
  assert (Hfail : forall (p : prog (mem * apires)),
            (forall E0 m0 r0 s0, sexec so h p s E0 (m0, r0) s0 -> r0 = RLockFailure /\ s0 = s) ->
            sexec so h (wrap p (fun x => (Some (fst x), snd x))) s E (m, r) s' -> r = RLockFailure /\ s' = s).
  { intros p Hp H0. unfold wrap in H0. apply sexec_bind in H0 as ([m1 r1] & s1 & E1 & E2 & H1 & H2 & _).
    cbn [sexec fst snd] in H2. destruct H2 as (_ & Er & ->). inversion Er; subst m r.
    exact (Hp _ _ _ _ H1). }
  destruct o as [|tx auto|tx same| | | |first last| | | |]; cbn [stale_quiet] in Hq; try discriminate Hq;
    inversion Hq; subst okr; clear Hq; cbn [call_prog] in H.
  - (* AAddMulti *)
    destruct (Hfail _ (fun E0 m0 r0 s0 => exec_add_multi_stale so h att hh tx same mm s E0 m0 r0 s0 Hst) H) as [-> ->].
    split; reflexivity.
  - (* ACompactAll *)
    assert (X : r = ROk /\ s' = s).
    { destruct mm as [|x0 t0]; [exact (Hret _ H)|]. exact (exec_wrap_compact_stale _ _ _ _ _ _ _ _ _ _ _ _ _ Hst H). }
    destruct X as [-> ->]. split; reflexivity.
  - (* ACompact *)
    assert (X : r = ROk /\ s' = s).
    { destruct (Nat.ltb last (length mm) && Nat.leb first last); [|exact (Hret _ H)].
      exact (exec_wrap_compact_stale _ _ _ _ _ _ _ _ _ _ _ _ _ Hst H). }
    destruct X as [-> ->]. split; reflexivity.
  - (* AExpire *)
    assert (X : r = ROk /\ s' = s).
    { destruct mm as [|x0 t0]; [exact (Hret _ H)|]. exact (exec_wrap_compact_stale _ _ _ _ _ _ _ _ _ _ _ _ _ Hst H). }
    destruct X as [-> ->]. split; reflexivity.
  - (* AClean *)
    destruct (Hfail _ (fun E0 m0 r0 s0 => exec_clean_stale so h att hh mm s E0 m0 r0 s0 Hst) H) as [-> ->].
    split; reflexivity.
Qed.

Lemma snap_eqb_refl : forall a, snap_eqb a a = true.
Proof.
  intro a. unfold snap_eqb. apply andb_true_iff. split; [apply andb_true_iff; split|].
  - destruct (sn_list a); [apply list_nat_eqb_refl|reflexivity].
  - apply Nat.eqb_refl.
  - apply forallb_forall. intros p Hp. apply existsb_path. exact Hp.
Qed.

(* a compaction call that returns without any file-system operation reports success *)
Lemma wrap_compact_ret : forall att hh first last expiry mm (m : option mem) r,
  wrap (compact_range att hh first last expiry mm) (fun x => (Some (fst x), ROk)) = Ret (m, r) -> r = ROk.
Proof.
  intros att hh first last expiry mm m r H. unfold wrap, compact_range in H.
  destruct (Nat.leb last first && negb expiry); cbn [pbind op] in H; [|discriminate H].
  inversion H; reflexivity.
Qed.

(* ------------------------------------------------------------------ *)
(* 3. the oracle, generic in the comparison of directories             *)
(* ------------------------------------------------------------------ *)

Definition drop (h : nat) (mems : list (nat * list nat)) : list (nat * list nat) :=
  filter (fun x => negb (Nat.eqb h (fst x))) mems.

Definition heldf (h : nat) (mems : list (nat * list nat)) : option (list nat) :=
  fold_right (fun x acc => if Nat.eqb h (fst x) then Some (snd x) else acc) None mems.

Definition mems_upd (h : nat) (names : list nat) (mems : list (nat * list nat)) : list (nat * list nat) :=
  (h, names) :: drop h mems.

(* [c09_call_ok] with what the oracle holds for the handle as an argument *)
Definition c09_clause (cmp : snapshot -> snapshot -> bool) (cur : snapshot)
           (held : option (list nat)) (h : nat) (o : apiop) (t : list event) : bool :=
  match held, alone_until_ret h t [] with
  | Some names, Some (evs, r, rest) =>
      if negb (list_nat_eqb names (listed cur)) then
        if add_like o then
          (match r with RLockFailure => true | _ => false end)
          && cmp (last_snap evs cur) cur
          && (match rest with
              | EMem h' names' _ :: _ => Nat.eqb h h' && list_nat_eqb names' (listed cur)
              | _ => false
              end)
        else
          match stale_quiet o with
          | Some okr => okr r && snap_eqb (last_snap evs cur) cur
          | None => true
          end
      else
        match o with
        | AAdd _ _ =>
            if existsb (path_eqb PLL) (sn_files cur) then true
            else (match r with ROk => true | _ => false end)
        | _ => true
        end
  | _, _ => true
  end.

Lemma c09_call_ok_clause : forall cmp cur mems h o t,
  c09_call_ok cmp cur mems h o t = c09_clause cmp cur (heldf h mems) h o t.
Proof. reflexivity. Qed.

Fixpoint c09g_loop (cmp : snapshot -> snapshot -> bool) (cur : snapshot) (mems : list (nat * list nat))
         (tr : list event) : bool :=
  match tr with
  | [] => true
  | ESnap s :: t => c09g_loop cmp s mems t
  | EMem h names _ :: t => c09g_loop cmp cur (mems_upd h names mems) t
  | ERet h AClose _ :: t => c09g_loop cmp cur (drop h mems) t
  | ERet h AOpen RErr :: t => c09g_loop cmp cur (drop h mems) t
  | ECall h o :: t => c09_clause cmp cur (heldf h mems) h o t && c09g_loop cmp cur mems t
  | _ :: t => c09g_loop cmp cur mems t
  end.

Lemma c09g_strict : forall tr cur mems, c09g_loop snap_eqb cur mems tr = c09_loop cur mems tr.
Proof.
  induction tr as [|e t IH]; intros cur mems; [reflexivity|].
  destruct e as [h op p r names|s|h op|h op r|h names closed|h|]; try (cbn [c09g_loop c09_loop]; apply IH).
  - cbn [c09g_loop c09_loop]. rewrite IH, c09_call_ok_clause. reflexivity.
  - destruct op; try (cbn [c09g_loop c09_loop]; apply IH). destruct r; cbn [c09g_loop c09_loop]; apply IH.
Qed.

Lemma c09g_gc : forall tr cur mems, c09g_loop snap_gc cur mems tr = c09_loop_gc cur mems tr.
Proof.
  induction tr as [|e t IH]; intros cur mems; [reflexivity|].
  destruct e as [h op p r names|s|h op|h op r|h names closed|h|]; try (cbn [c09g_loop c09_loop_gc]; apply IH).
  - cbn [c09g_loop c09_loop_gc]. rewrite IH, c09_call_ok_clause. reflexivity.
  - destruct op; try (cbn [c09g_loop c09_loop_gc]; apply IH). destruct r; cbn [c09g_loop c09_loop_gc]; apply IH.
Qed.

(* hypothesis on the trace (for the strict reading): at the call of an Add (of a table, of
   an empty or of a rejected table: the calls that reload when they fail), none of the
   tables the handle holds is both dropped from tables.list and still on disk.  Nothing
   is asked at the call of a compaction, a Clean or a NewAddition: these never reload *)
Definition held_gone (cur : snapshot) (names : list nat) : bool :=
  forallb (fun n => mem_nat n (listed cur) || negb (existsb (path_eqb (PT n)) (sn_files cur))) names.

Definition pre_call (P : snapshot -> list nat -> bool) (cur : snapshot) (held : option (list nat)) (o : apiop) : bool :=
  if add_like o then match held with Some names => P cur names | None => true end else true.

Fixpoint c09_pre (P : snapshot -> list nat -> bool) (cur : snapshot) (mems : list (nat * list nat))
         (tr : list event) : bool :=
  match tr with
  | [] => true
  | ESnap s :: t => c09_pre P s mems t
  | EMem h names _ :: t => c09_pre P cur (mems_upd h names mems) t
  | ERet h AClose _ :: t => c09_pre P cur (drop h mems) t
  | ERet h AOpen RErr :: t => c09_pre P cur (drop h mems) t
  | ECall h o :: t => pre_call P cur (heldf h mems) o && c09_pre P cur mems t
  | _ :: t => c09_pre P cur mems t
  end.
Definition c09_precond (tr : list event) : bool := c09_pre held_gone snap0 [] tr.

Lemma pre_call_true : forall cur held o, pre_call (fun _ _ => true) cur held o = true.
Proof. intros cur held o. unfold pre_call. destruct (add_like o); [destruct held|]; reflexivity. Qed.

Lemma c09_pre_true : forall tr cur mems, c09_pre (fun _ _ => true) cur mems tr = true.
Proof.
  induction tr as [|e t IH]; intros cur mems; [reflexivity|].
  destruct e as [h op p r names|s|h op|h op r|h names closed|h|]; try (cbn [c09_pre]; apply IH).
  - cbn [c09_pre]. rewrite IH, pre_call_true. reflexivity.
  - destruct op; try (cbn [c09_pre]; apply IH). destruct r; cbn [c09_pre]; apply IH.
Qed.

Section Generic.
Variable cmp : snapshot -> snapshot -> bool.
Variable P : snapshot -> list nat -> bool.

Lemma c09_call : forall cur mems h o t,
  c09g_loop cmp cur mems (ECall h o :: t) = c09_clause cmp cur (heldf h mems) h o t && c09g_loop cmp cur mems t.
Proof. reflexivity. Qed.

Lemma c09_pre_call : forall cur mems h o t,
  c09_pre P cur mems (ECall h o :: t) = pre_call P cur (heldf h mems) o && c09_pre P cur mems t.
Proof. reflexivity. Qed.

(* what the oracle remembers after the events of a return *)
Definition mems_fin (h : nat) (o : apiop) (m : option mem) (r : apires) (mems : list (nat * list nat)) :=
  let mems1 := match o, r with
               | AClose, _ => drop h mems
               | AOpen, RErr => drop h mems
               | _, _ => mems
               end in
  match m with Some mm => mems_upd h (mnames mm) mems1 | None => mems1 end.

Lemma c09_finish : forall cur mems h o m r rest,
  c09g_loop cmp cur mems (finish_events h o m r ++ rest) = c09g_loop cmp cur (mems_fin h o m r mems) rest /\
  c09_pre P cur mems (finish_events h o m r ++ rest) = c09_pre P cur (mems_fin h o m r mems) rest.
Proof. intros. unfold finish_events, mems_fin. destruct o, r, m; split; reflexivity. Qed.

Lemma c09_req : forall cur mems h q rs fe s' rest,
  c09g_loop cmp cur mems (req_event h q rs fe :: ESnap s' :: rest) = c09g_loop cmp s' mems rest /\
  c09_pre P cur mems (req_event h q rs fe :: ESnap s' :: rest) = c09_pre P s' mems rest.
Proof. intros. destruct q; split; reflexivity. Qed.

End Generic.

Lemma heldf_drop_same : forall h mems, heldf h (drop h mems) = None.
Proof.
  intros h mems. unfold heldf, drop. induction mems as [|[k v] mems IH]; cbn [filter fold_right fst snd]; [reflexivity|].
  destruct (Nat.eqb_spec h k); cbn [negb fold_right fst snd]; [exact IH|].
  destruct (Nat.eqb_spec h k); [contradiction|exact IH].
Qed.

Lemma heldf_drop_other : forall i h mems, i <> h -> heldf i (drop h mems) = heldf i mems.
Proof.
  intros i h mems Hne. unfold heldf, drop.
  induction mems as [|[k v] mems IH]; cbn [filter fold_right fst snd]; [reflexivity|].
  destruct (Nat.eqb_spec h k); cbn [negb fold_right fst snd].
  - subst k. destruct (Nat.eqb_spec i h); [contradiction|exact IH].
  - rewrite IH. reflexivity.
Qed.

Lemma heldf_upd_same : forall h names mems, heldf h (mems_upd h names mems) = Some names.
Proof. intros. unfold mems_upd, heldf. cbn [fold_right fst snd]. rewrite Nat.eqb_refl. reflexivity. Qed.

Lemma heldf_upd_other : forall i h names mems, i <> h -> heldf i (mems_upd h names mems) = heldf i mems.
Proof.
  intros i h names mems Hne. unfold mems_upd. change (heldf i ((h, names) :: drop h mems))
    with (if Nat.eqb i h then Some names else heldf i (drop h mems)).
  destruct (Nat.eqb_spec i h); [contradiction|]. apply heldf_drop_other. exact Hne.
Qed.

(* a call leaves the handle without a stack only if it is a Close, a failed Open, or the handle had none *)
Definition Lf (o : apiop) (m0 : option mem) (res : option mem * apires) : Prop :=
  match fst res with
  | Some _ => True
  | None => o = AClose \/ (o = AOpen /\ snd res = RErr) \/ m0 = None
  end.

Lemma leaves_call_prog : forall att hh o m, leaves (call_prog att hh o m) (Lf o m).
Proof.
  intros att hh o m.
  destruct o; destruct m as [mm|]; cbn [call_prog];
    try (cbn [leaves]; unfold Lf; cbn [fst snd]; auto; fail);
    try (apply leaves_wrap; intros a; unfold Lf; cbn [fst snd]; auto; fail).
  - apply leaves_wrap. intros [m1|]; unfold Lf; cbn [fst snd]; auto.
  - apply leaves_wrap. intros [m1|]; unfold Lf; cbn [fst snd]; auto.
  - destruct mm; [cbn [leaves]; exact I|]. apply leaves_wrap. intros a. exact I.
  - destruct (Nat.ltb last (length mm) && Nat.leb first last); [|cbn [leaves]; exact I].
    apply leaves_wrap. intros a. exact I.
  - destruct mm; [cbn [leaves]; exact I|]. apply leaves_wrap. intros a. exact I.
Qed.

Definition onames (m : option mem) : option (list nat) :=
  match m with Some mm => Some (mnames mm) | None => None end.

(* a call that returns without any file-system operation satisfies the oracle's clause
   (a compaction of nothing reports success; the directory is what it was), and nothing
   is asked of the trace at such a call *)
Lemma clause_immediate : forall cmp cur att hh o m0 m r h rest,
  call_prog att hh o m0 = Ret (m, r) ->
  c09_clause cmp cur (onames m0) h o (finish_events h o m r ++ rest) = true.
Proof.
  intros cmp cur att hh o m0 m r h rest H. destruct m0 as [mm|]; [|reflexivity].
  cbn [onames]. unfold c09_clause, finish_events. cbn [app alone_until_ret]. rewrite Nat.eqb_refl. cbn [rev].
  assert (Hq : forall okr, stale_quiet o = Some okr -> okr r = true).
  { intros okr Hq.
    destruct o as [|tx auto|tx same| | | |first last| | | |]; cbn [stale_quiet] in Hq; try discriminate Hq;
      inversion Hq; subst okr; clear Hq; cbn [call_prog] in H; try discriminate H.
    - destruct mm as [|x0 t0]; [inversion H; reflexivity|]. rewrite (wrap_compact_ret _ _ _ _ _ _ _ _ H). reflexivity.
    - destruct (Nat.ltb last (length mm) && Nat.leb first last); [|inversion H; reflexivity].
      rewrite (wrap_compact_ret _ _ _ _ _ _ _ _ H). reflexivity.
    - destruct mm as [|x0 t0]; [inversion H; reflexivity|]. rewrite (wrap_compact_ret _ _ _ _ _ _ _ _ H). reflexivity. }
  destruct (negb (list_nat_eqb (mnames mm) (listed cur))).
  - destruct (add_like o) eqn:Eal.
    + destruct o; try discriminate Eal; cbn [call_prog] in H; discriminate H.
    + destruct (stale_quiet o) as [okr|]; [|reflexivity].
      rewrite (Hq okr eq_refl). cbn [last_snap fold_left andb]. apply snap_eqb_refl.
  - destruct o; try reflexivity. cbn [call_prog] in H. discriminate H.
Qed.

Lemma pre_immediate : forall P cur att hh o m0 m r,
  call_prog att hh o m0 = Ret (m, r) -> pre_call P cur (onames m0) o = true.
Proof.
  intros P cur att hh o m0 m r H. unfold pre_call. destruct (add_like o) eqn:Eal; [|reflexivity].
  destruct m0 as [mm|]; [|reflexivity].
  destruct o; try discriminate Eal; cbn [call_prog] in H; discriminate H.
Qed.

Lemma heldf_fin_other : forall i h o m r mems, i <> h -> heldf i (mems_fin h o m r mems) = heldf i mems.
Proof.
  intros i h o m r mems Hne. unfold mems_fin.
  assert (E : heldf i (match o, r with AClose, _ => drop h mems | AOpen, RErr => drop h mems | _, _ => mems end)
              = heldf i mems).
  { destruct o; try reflexivity; [destruct r; try reflexivity|]; apply heldf_drop_other; exact Hne. }
  destruct m; [rewrite heldf_upd_other by exact Hne|]; exact E.
Qed.

Lemma heldf_fin_same : forall h o m0 m r mems,
  heldf h mems = onames m0 -> Lf o m0 (m, r) -> heldf h (mems_fin h o m r mems) = onames m.
Proof.
  intros h o m0 m r mems H0 HL. unfold mems_fin. destruct m as [mm|]; [apply heldf_upd_same|].
  unfold Lf in HL. cbn [fst snd onames] in *. destruct HL as [ -> | [ [ -> -> ] | -> ] ].
  - apply heldf_drop_same.
  - apply heldf_drop_same.
  - cbn [onames] in H0. destruct o; try exact H0; [destruct r; try exact H0|]; apply heldf_drop_same.
Qed.

(* ------------------------------------------------------------------ *)
(* 3b. when every handle is configured with the directory's hash type, *)
(*     every table file there ever is has that hash type               *)
(* ------------------------------------------------------------------ *)

(* every handle is configured with the hash type of the initial tables *)
Definition native (tabs : list (nat * tfile)) (scripts : list (bool * list apiop)) : Prop :=
  exists dh, Forall (fun t => tf_hash (snd t) = dh) tabs /\ Forall (fun s => fst s = dh) scripts.

(* what a request may be: a new table is of hash type [dh]; a commit lists at least one table *)
Definition wreq (dh : bool) (q : req) : Prop :=
  match q with
  | QRenameTmp _ _ _ _ hsh => hsh = dh
  | QCommitList names => names <> []
  | _ => True
  end.

(* the program only writes tables of hash type [dh] (and never commits an empty list) *)
Fixpoint writes {A} (dh : bool) (p : prog A) : Prop :=
  match p with
  | Ret _ => True
  | Op q k => wreq dh q /\ forall rs, writes dh (k rs)
  end.

Lemma app_cons_ne : forall (a : list nat) x b, a ++ x :: b <> [].
Proof. intros a x b E. apply app_eq_nil in E as [_ E]. discriminate E. Qed.

Lemma writes_bind : forall A B dh (p : prog A) (f : A -> prog B),
  writes dh p -> (forall a, writes dh (f a)) -> writes dh (pbind p f).
Proof.
  induction p as [a|q k IH]; intros f Hp Hf; cbn [pbind writes] in *; [apply Hf|].
  destruct Hp as [Hq Hk]. split; [exact Hq|]. intro rs. apply IH; auto.
Qed.

Lemma writes_calm : forall A dh (p : prog A), calmp p -> writes dh p.
Proof.
  induction p as [a|q k IH]; intros H; cbn [writes calmp] in *; [exact I|].
  destruct H as [Hq Hk]. split; [destruct q; try exact I; discriminate Hq|]. intro rs. apply IH. apply Hk.
Qed.

Ltac wr_extra := fail.
Ltac wrgo :=
  repeat match goal with
  | |- _ => wr_extra
  | |- True => exact I
  | |- ?x = ?x => reflexivity
  | |- wreq _ _ => cbn [wreq]
  | |- _ ++ _ <> [] => apply app_cons_ne
  | |- _ /\ _ => split
  | |- forall _ : resp, _ => intro
  | |- writes _ (Ret _) => exact I
  | |- writes _ (pbind (op _) _) => cbn [pbind op writes]
  | |- writes _ (Op _ _) => cbn [writes]
  | |- writes _ (pbind _ _) =>
      apply writes_bind;
      [apply writes_calm;
       first [apply calmp_reload | apply calmp_lock_tabs | apply calmp_remove_tlocks | apply calmp_remove_tabs
             | apply calmp_clean_loop]
      |intro]
  | |- writes _ (let _ := _ in _) => cbv zeta
  | |- writes _ (match ?x with _ => _ end) => destruct x
  end.

Lemma writes_compact_range : forall att hh first last expiry m, writes hh (compact_range att hh first last expiry m).
Proof. intros. unfold compact_range. wrgo. Qed.

Lemma writes_auto_compact : forall att hh m, writes hh (auto_compact att hh m).
Proof.
  intros. unfold auto_compact. destruct (suggest _) as [[s e]|]; [|exact I].
  apply writes_bind; [apply writes_compact_range|]. intro a. exact I.
Qed.

Ltac wr_extra ::=
  match goal with
  | |- writes _ (pbind (auto_compact _ _ _) _) => apply writes_bind; [apply writes_auto_compact|intro]
  end.

Lemma writes_add : forall att hh kind auto m, writes hh (add att hh kind auto m).
Proof. intros. unfold add. wrgo. Qed.

Lemma writes_add_multi : forall att hh tx same m, writes hh (add_multi att hh tx same m).
Proof. intros. unfold add_multi. wrgo. Qed.

Lemma writes_clean : forall att hh m, writes hh (clean att hh m).
Proof. intros. unfold clean. wrgo. Qed.

Lemma writes_wrap : forall A dh (p : prog A) f, writes dh p -> writes dh (wrap p f).
Proof. intros A dh p f H. unfold wrap. apply writes_bind; [exact H|]. intro a. exact I. Qed.

Lemma writes_call_prog : forall att hh o m, writes hh (call_prog att hh o m).
Proof.
  intros att hh o m.
  destruct o; destruct m as [mm|]; cbn [call_prog]; try exact I;
    try (apply writes_wrap;
         first [apply writes_add | apply writes_add_multi | apply writes_clean
               | apply writes_calm; first [apply calmp_open_reload | apply calmp_close]]).
  - destruct mm; [exact I|]. apply writes_wrap. apply writes_compact_range.
  - destruct (Nat.ltb last (length mm) && Nat.leb first last); [|exact I]. apply writes_wrap. apply writes_compact_range.
  - destruct mm; [exact I|]. apply writes_wrap. apply writes_compact_range.
Qed.

Definition th (dh : bool) (tabs : list (nat * tfile)) : Prop := forall n f, lookup n tabs = Some f -> tf_hash f = dh.

Lemma th_del : forall dh x tabs, th dh tabs -> th dh (del x tabs).
Proof. intros dh x tabs H n f E. rewrite StackInvProofs.lookup_del in E. destruct (Nat.eqb n x); [discriminate|eauto]. Qed.

Lemma th_app : forall dh tabs n f, th dh tabs -> tf_hash f = dh -> th dh (tabs ++ [(n, f)]).
Proof.
  intros dh tabs n f H Hf x g E. rewrite lookup_app in E. destruct (lookup x tabs) eqn:E0.
  - inversion E as [E1]. rewrite <- E1. eauto.
  - cbn [lookup] in E. destruct (Nat.eqb x n); [|discriminate]. inversion E as [E1]. rewrite <- E1. exact Hf.
Qed.

Lemma apply_req_tabs_hash : forall so c h q s s' rs fe dh,
  apply_req so c h q s = (s', rs, fe) -> tabs_hash dh s ->
  wreq dh q -> tabs_hash dh s'.
Proof.
  intros so c h q s s' rs fe dh H Hs Hq. change (th dh (f_tabs s)) in Hs. change (th dh (f_tabs s')).
  destruct q as [p| |n|t| |t mn mx txs hsh|names|p|cands|cands| ]; cbn [apply_req] in H.
  - destruct p; try (inversion H; subst; exact Hs).
    + destruct (f_lock s); inversion H; subst; exact Hs.
    + destruct (lookup n (f_tlocks s)); inversion H; subst; exact Hs.
  - inversion H; subst; exact Hs.
  - destruct (lookup n (f_tabs s)); inversion H; subst; exact Hs.
  - destruct (lookup t (f_tmps s)); inversion H; subst; exact Hs.
  - inversion H; subst; exact Hs.
  - destruct (lookup t (f_tmps s)); inversion H; subst; [|exact Hs].
    cbn [f_tabs]. apply th_app; [exact Hs|exact Hq].
  - destruct (f_lock s); inversion H; subst; exact Hs.
  - destruct p; try (inversion H; subst; exact Hs).
    + destruct (f_lock s); inversion H; subst; exact Hs.
    + destruct (lookup n (f_tabs s)); inversion H; subst; [|exact Hs]. cbn [f_tabs]. apply th_del. exact Hs.
    + destruct (lookup n (f_tlocks s)); inversion H; subst; exact Hs.
    + destruct (lookup n (f_tmps s)); inversion H; subst; exact Hs.
  - match type of H with context [lookup ?x (f_tabs s)] => destruct (lookup x (f_tabs s)) end;
      inversion H; subst; [|exact Hs]. cbn [f_tabs]. apply th_del. exact Hs.
  - match type of H with context [lookup ?x (f_tabs s)] => destruct (lookup x (f_tabs s)) end;
      inversion H; subst; exact Hs.
  - inversion H; subst; exact Hs.
Qed.

(* ---- a handle of another hash type never gets a stack when tables.list is not empty ---- *)

(* every handle has the hash type of the directory, or (a non-empty directory) some do not *)
Definition native_if_empty (tabs : list (nat * tfile)) (scripts : list (bool * list apiop)) : Prop :=
  tabs = [] -> exists dh, Forall (fun s => fst s = dh) scripts.

Lemma native_weaken : forall tabs scripts, native tabs scripts -> native_if_empty tabs scripts.
Proof. intros tabs scripts (dh & _ & H) _. exists dh. exact H. Qed.

(* the answers a handle gets while the list is not empty and every table is of type [dh] *)
Definition fresp_ok (dh : bool) (q : req) (rs : resp) : Prop :=
  match q with
  | QReadList => lnames rs <> []
  | QOpenTab _ => match rs with STab f => tf_hash f = dh | _ => True end
  | _ => True
  end.

(* the program only reads the list and opens tables, and on such answers ends in [Q] *)
Fixpoint nostq {A} (dh : bool) (p : prog A) (Q : A -> Prop) : Prop :=
  match p with
  | Ret a => Q a
  | Op q k => match q with QReadList | QOpenTab _ => True | _ => False end /\
              forall rs, fresp_ok dh q rs -> nostq dh (k rs) Q
  end.

Lemma nostq_bind : forall A B dh (p : prog A) (f : A -> prog B) (Q : A -> Prop) (Q' : B -> Prop),
  nostq dh p Q -> (forall a, Q a -> nostq dh (f a) Q') -> nostq dh (pbind p f) Q'.
Proof.
  induction p as [a|q k IH]; intros f Q Q' Hp Hf; cbn [pbind nostq] in *; [apply Hf; exact Hp|].
  destruct Hp as [Hq Hk]. split; [exact Hq|]. intros rs Hrs. eapply IH; eauto.
Qed.

Lemma nostq_conseq : forall A dh (p : prog A) (Q Q' : A -> Prop),
  nostq dh p Q -> (forall a, Q a -> Q' a) -> nostq dh p Q'.
Proof.
  induction p as [a|q k IH]; intros Q Q' Hp HQ; cbn [nostq] in *; [apply HQ; exact Hp|].
  destruct Hp as [Hq Hk]. split; [exact Hq|]. intros rs Hrs. eapply IH; eauto.
Qed.

Lemma nost_open_all : forall dh names acc, mh dh acc ->
  nostq dh (open_all true [] names acc)
        (fun o => forall m, o = Some m -> mh dh m /\ length m = length acc + length names).
Proof.
  intros dh. induction names as [|n t IH]; intros acc Hacc; cbn [open_all lookup].
  - cbn [nostq]. intros m E. inversion E; subst m. split.
    + intros x Hx. apply Hacc. apply in_rev. exact Hx.
    + rewrite rev_length. cbn [length]. lia.
  - cbn [pbind op nostq]. split; [exact I|]. intros rs Hrs. cbn [fresp_ok] in Hrs.
    destruct rs; try (cbn [nostq]; intros m E; discriminate E).
    eapply nostq_conseq.
    + apply (IH ((n, f) :: acc)). intros x [<-|Hx]; [exact Hrs|apply Hacc; exact Hx].
    + cbn beta. intros o Ho m E. destruct (Ho m E) as [A B]. split; [exact A|].
      rewrite B. cbn [length]. lia.
Qed.

Lemma same_hash_foreign : forall dh hh (m : mem), hh <> dh -> mh dh m -> m <> [] -> same_hash hh m = false.
Proof.
  intros dh hh m Hne Hm Hm0. destruct m as [|x m']; [congruence|].
  unfold same_hash. cbn [forallb]. rewrite (Hm x (or_introl eq_refl)).
  destruct dh, hh; try reflexivity; congruence.
Qed.

Lemma nost_open_reload : forall dh hh a, hh <> dh -> nostq dh (open_reload a hh) (fun res => res = None).
Proof.
  intros dh hh a Hne. induction a as [|a IH]; cbn [open_reload]; [reflexivity|].
  cbn [pbind op nostq]. split; [exact I|]. intros rs Hrs. cbn [fresp_ok] in Hrs.
  change (match rs with SNames (Some l) => l | _ => [] end) with (lnames rs).
  eapply nostq_bind; [apply nost_open_all; intros x []|].
  cbn beta. intros o Ho. destruct o as [m|].
  - destruct (Ho m eq_refl) as [Hm Hlen]. cbn [length Nat.add] in Hlen.
    rewrite (same_hash_foreign dh hh m Hne Hm); [reflexivity|].
    intro E. subst m. cbn [length] in Hlen. destruct (lnames rs); [congruence|discriminate Hlen].
  - cbn [pbind op nostq]. split; [exact I|]. intros rs2 _.
    destruct (names_eqb _ _); [reflexivity|exact IH].
Qed.

Lemma nost_call_prog : forall dh att hh o, hh <> dh ->
  nostq dh (call_prog att hh o None) (fun res => fst res = None).
Proof.
  intros dh att hh o Hne. destruct o; cbn [call_prog]; try reflexivity.
  unfold wrap. eapply nostq_bind; [apply nost_open_reload; exact Hne|].
  cbn beta. intros res ->. reflexivity.
Qed.

Lemma apply_req_foreign : forall so c h q s s' rs fe dh,
  apply_req so c h q s = (s', rs, fe) ->
  match q with QReadList | QOpenTab _ => True | _ => False end ->
  tabs_hash dh s -> listed_fs s <> [] -> s' = s /\ fresp_ok dh q rs.
Proof.
  intros so c h q s s' rs fe dh H Hq Hs Hl. destruct q; try contradiction; cbn [apply_req] in H.
  - inversion H; subst. split; [reflexivity|]. cbn [fresp_ok]. unfold lnames, listed_fs in *. exact Hl.
  - destruct (lookup n (f_tabs s)) as [f|] eqn:E; inversion H; subst; (split; [reflexivity|]); cbn [fresp_ok]; [|exact I].
    apply (Hs n f E).
Qed.

(* tables.list changes only by a commit *)
Lemma apply_req_list : forall so c h q s s' rs fe,
  apply_req so c h q s = (s', rs, fe) ->
  f_list s' = f_list s \/
  exists names cc, q = QCommitList names /\ f_lock s = Some cc /\ f_list s' = Some (if Nat.eqb cc h then names else []).
Proof.
  intros so c h q s s' rs fe H.
  destruct q as [p| |n|t| |t mn mx txs hsh|names|p|cands|cands| ]; cbn [apply_req] in H.
  - destruct p; try (inversion H; subst; left; reflexivity).
    + destruct (f_lock s); inversion H; subst; left; reflexivity.
    + destruct (lookup n (f_tlocks s)); inversion H; subst; left; reflexivity.
  - inversion H; subst; left; reflexivity.
  - destruct (lookup n (f_tabs s)); inversion H; subst; left; reflexivity.
  - destruct (lookup t (f_tmps s)); inversion H; subst; left; reflexivity.
  - inversion H; subst; left; reflexivity.
  - destruct (lookup t (f_tmps s)); inversion H; subst; left; reflexivity.
  - destruct (f_lock s) as [cc|] eqn:El; inversion H; subst; [|left; reflexivity].
    right. exists names, cc. auto.
  - destruct p; try (inversion H; subst; left; reflexivity).
    + destruct (f_lock s); inversion H; subst; left; reflexivity.
    + destruct (lookup n (f_tabs s)); inversion H; subst; left; reflexivity.
    + destruct (lookup n (f_tlocks s)); inversion H; subst; left; reflexivity.
    + destruct (lookup n (f_tmps s)); inversion H; subst; left; reflexivity.
  - match type of H with context [lookup ?x (f_tabs s)] => destruct (lookup x (f_tabs s)) end;
      inversion H; subst; left; reflexivity.
  - match type of H with context [lookup ?x (f_tabs s)] => destruct (lookup x (f_tabs s)) end;
      inversion H; subst; left; reflexivity.
  - inversion H; subst; left; reflexivity.
Qed.

(* a handle of the directory's hash type writes tables of that type; one of another type has
   no stack, and what it runs (an Open) ends without one *)
Definition hN (dh : bool) (hd : handle) : Prop :=
  (h_hash hd = dh /\ match h_pc hd with HRun _ p => writes dh p | _ => True end) \/
  (h_hash hd <> dh /\ h_mem hd = None /\
   match h_pc hd with HRun _ p => nostq dh p (fun res => fst res = None) | _ => True end).

Definition all_dh (dh : bool) (hs : list handle) : Prop := forall i hd, nth_error hs i = Some hd -> h_hash hd = dh.

Definition NatInv (dh : bool) (w : world) : Prop :=
  tabs_hash dh (w_fs w) /\
  (listed_fs (w_fs w) <> [] \/ all_dh dh (w_handles w)) /\
  forall i hd, nth_error (w_handles w) i = Some hd -> hN dh hd.

Lemma NatInv_held : forall dh w h hd mm,
  NatInv dh w -> nth_error (w_handles w) h = Some hd -> h_mem hd = Some mm -> h_hash hd = dh.
Proof.
  intros dh w h hd mm (_ & _ & Hh) En Em. destruct (Hh h hd En) as [[E _]|(_ & E & _)]; [exact E|congruence].
Qed.

Lemma all_dh_set : forall dh hs h x hd,
  nth_error hs h = Some hd -> h_hash x = h_hash hd -> all_dh dh hs -> all_dh dh (set_handle h x hs).
Proof.
  intros dh hs h x hd En Ex H i hd' E. destruct (Nat.eq_dec i h) as [->|Hne].
  - apply nth_set_eq in E. subst. rewrite Ex. apply (H h hd En).
  - rewrite nth_set_neq in E by exact Hne. eapply H; eauto.
Qed.

Lemma NatInv_set : forall dh s' hs h x hd,
  nth_error hs h = Some hd -> h_hash x = h_hash hd ->
  tabs_hash dh s' -> (listed_fs s' <> [] \/ all_dh dh hs) ->
  (forall i hd, nth_error hs i = Some hd -> hN dh hd) -> hN dh x ->
  NatInv dh {| w_fs := s'; w_handles := set_handle h x hs |}.
Proof.
  intros dh s' hs h x hd En Ex Hs Hl Ho Hx. split; [exact Hs|]. split.
  - destruct Hl as [Hl|Hl]; [left; exact Hl|right]. cbn [w_handles]. eapply all_dh_set; eauto.
  - cbn [w_handles]. intros i hd' E.
    destruct (Nat.eq_dec i h) as [->|Hne].
    + apply nth_set_eq in E. subst. exact Hx.
    + rewrite nth_set_neq in E by exact Hne. eapply Ho; eauto.
Qed.

Lemma step_N : forall so att γ st dh w h c w' e1,
  WInv γ w st -> NatInv dh w -> step so att w h c = (w', e1) -> NatInv dh w'.
Proof.
  intros so att γ st dh w h c w' e1 (HG & _ & Hinv) (Hs & Hl & Hh) H. unfold step in H.
  assert (Hsame : NatInv dh w) by (split; [exact Hs|split; assumption]).
  destruct (nth_error (w_handles w) h) as [hd|] eqn:En; [|inversion H; subst w' e1; exact Hsame].
  destruct (h_pc hd) as [|o p|] eqn:Epc.
  - (* a call starts *)
    destruct (h_script hd) as [|o rest]; [inversion H; subst w' e1; exact Hsame|].
    assert (Hx : forall m r, call_prog att (h_hash hd) o (h_mem hd) = Ret (m, r) -> forall sc,
              hN dh {| h_mem := m; h_pc := HIdle; h_script := sc; h_hash := h_hash hd |}).
    { intros m r Ecp sc. destruct (Hh h hd En) as [[Ehh _]|(Ehh & Em & _)].
      - left. split; [exact Ehh|exact I].
      - right. split; [exact Ehh|]. split; [|exact I]. cbn [h_mem].
        pose proof (nost_call_prog dh att (h_hash hd) o Ehh) as Hn. rewrite Em in Ecp. rewrite Ecp in Hn. exact Hn. }
    assert (Hy : forall q k, call_prog att (h_hash hd) o (h_mem hd) = Op q k -> forall sc,
              hN dh {| h_mem := h_mem hd; h_pc := HRun o (Op q k); h_script := sc; h_hash := h_hash hd |}).
    { intros q k Ecp sc. destruct (Hh h hd En) as [[Ehh _]|(Ehh & Em & _)].
      - left. split; [exact Ehh|]. cbn [h_pc]. rewrite <- Ecp. rewrite <- Ehh at 1. apply writes_call_prog.
      - right. split; [exact Ehh|]. split; [exact Em|]. cbn [h_pc]. rewrite <- Ecp, Em. apply nost_call_prog. exact Ehh. }
    destruct (call_prog att (h_hash hd) o (h_mem hd)) as [[m r]|q k] eqn:Ecp; inversion H; subst w' e1; clear H;
      (eapply NatInv_set; [exact En|reflexivity|exact Hs|exact Hl|exact Hh|]); [eapply Hx|eapply Hy]; reflexivity.
  - destruct p as [[m r]|q k].
    + (* the call returns *)
      inversion H; subst w' e1. eapply NatInv_set; [exact En|reflexivity|exact Hs|exact Hl|exact Hh|].
      destruct (Hh h hd En) as [[Ehh _]|(Ehh & Em & Hp)].
      * left. split; [exact Ehh|exact I].
      * right. split; [exact Ehh|]. split; [|exact I]. rewrite Epc in Hp. exact Hp.
    + (* one file-system operation *)
      destruct (apply_req so c h q (w_fs w)) as [[s' rs] fe] eqn:Ea.
      destruct (Hh h hd En) as [[Ehh Hp]|(Ehh & Em & Hp)]; rewrite Epc in Hp.
      * (* of a handle of the directory's hash type *)
        cbn [writes] in Hp. destruct Hp as [Hq Hk].
        pose proof (apply_req_tabs_hash _ _ _ _ _ _ _ _ _ Ea Hs Hq) as Hs'.
        assert (Hl' : listed_fs s' <> [] \/ all_dh dh (w_handles w)).
        { destruct Hl as [Hl|Hl]; [left|right; exact Hl].
          destruct (apply_req_list _ _ _ _ _ _ _ _ Ea) as [E|(names & cc & -> & Ecc & E)].
          - unfold listed_fs in *. rewrite E. exact Hl.
          - (* a commit: the handle holds the list lock *)
            destruct (Hinv h hd En) as (_ & _ & Hpc). rewrite Epc in Hpc.
            destruct Hpc as (lg & HI & Hok & _). cbn [ok] in Hok. destruct Hok as [Hal _].
            destruct (sp_commit_case (names := names) HG HI Hal) as [Hlock _].
            rewrite Hlock in Ecc. inversion Ecc; subst cc. rewrite Nat.eqb_refl in E.
            unfold listed_fs. rewrite E. exact Hq. }
        specialize (Hk rs).
        destruct (k rs) as [[m r]|q' k']; inversion H; subst w' e1; clear H;
          (eapply NatInv_set; [exact En|reflexivity|exact Hs'|exact Hl'|exact Hh|]); left; (split; [exact Ehh|]);
          cbn [h_pc]; [exact I|exact Hk].
      * (* of a handle of another hash type: it only looks *)
        cbn [nostq] in Hp. destruct Hp as [Hq Hk].
        assert (Hne : listed_fs (w_fs w) <> []).
        { destruct Hl as [Hl|Hl]; [exact Hl|]. exfalso. apply Ehh. apply (Hl h hd En). }
        destruct (apply_req_foreign _ _ _ _ _ _ _ _ dh Ea Hq Hs Hne) as [-> Hrs].
        specialize (Hk rs Hrs).
        destruct (k rs) as [[m r]|q' k']; inversion H; subst w' e1; clear H;
          (eapply NatInv_set; [exact En|reflexivity|exact Hs|exact Hl|exact Hh|]); right; (split; [exact Ehh|]).
        -- split; [|exact I]. exact Hk.
        -- split; [exact Em|]. exact Hk.
  - inversion H; subst w' e1. exact Hsame.
Qed.

Lemma crash_N : forall dh w h w' e1, NatInv dh w -> crash w h = (w', e1) -> NatInv dh w'.
Proof.
  intros dh w h w' e1 (Hs & Hl & Hh) H. unfold crash in H.
  destruct (nth_error (w_handles w) h) as [hd|] eqn:En; inversion H; subst w' e1; [|split; [exact Hs|split; assumption]].
  eapply NatInv_set; [exact En|reflexivity|exact Hs|exact Hl|exact Hh|].
  destruct (Hh h hd En) as [[Ehh _]|(Ehh & Em & _)]; [left|right]; (split; [exact Ehh|]); [exact I|].
  split; [exact Em|exact I].
Qed.

Lemma NatInv_init : forall tabs scripts,
  init_ok tabs -> native_if_empty tabs scripts -> exists dh, NatInv dh (init_world tabs scripts).
Proof.
  intros tabs scripts (_ & _ & hsh & Hh) Hnat.
  assert (Hidle : forall i hd, nth_error (w_handles (init_world tabs scripts)) i = Some hd ->
            h_mem hd = None /\ h_pc hd = HIdle).
  { intros i hd E. cbn [init_world w_handles] in E. apply nth_error_In in E.
    apply in_map_iff in E as [sc [<- Hin]]. split; reflexivity. }
  destruct tabs as [|t0 tabs'].
  - destruct (Hnat eq_refl) as [dh Hsc]. exists dh. split; [intros n f E; discriminate E|]. split.
    + right. intros i hd E. cbn [init_world w_handles] in E. apply nth_error_In in E.
      apply in_map_iff in E as [sc [<- Hin]]. rewrite Forall_forall in Hsc. apply (Hsc sc Hin).
    + intros i hd E. left. split.
      * cbn [init_world w_handles] in E. apply nth_error_In in E.
        apply in_map_iff in E as [sc [<- Hin]]. rewrite Forall_forall in Hsc. apply (Hsc sc Hin).
      * rewrite (proj2 (Hidle i hd E)). exact I.
  - exists hsh. split; [|split].
    + cbn [init_world w_fs init_fs]. intros n f E. cbn [f_tabs] in E. apply lookup_In in E. apply (Hh (n, f) E).
    + left. cbn [init_world w_fs]. rewrite listed_init. discriminate.
    + intros i hd E. destruct (Hidle i hd E) as [Em Ep].
      destruct (Bool.bool_dec (h_hash hd) hsh) as [Eh|Eh]; [left|right]; (split; [exact Eh|]); rewrite Ep; [exact I|].
      split; [exact Em|exact I].
Qed.

(* ------------------------------------------------------------------ *)
(* 4. the run invariant: the oracle remembers the names of the stack   *)
(*    each handle holds                                                *)
(* ------------------------------------------------------------------ *)

Definition hJ (mems : list (nat * list nat)) (i : nat) (hd : handle) : Prop :=
  heldf i mems = onames (h_mem hd) /\
  match h_pc hd with
  | HRun o p => leaves p (Lf o (h_mem hd))
  | _ => True
  end.

Definition J (w : world) (mems : list (nat * list nat)) : Prop :=
  forall i hd, nth_error (w_handles w) i = Some hd -> hJ mems i hd.

Lemma hJ_other : forall mems mems' i hd, heldf i mems' = heldf i mems -> hJ mems i hd -> hJ mems' i hd.
Proof. intros mems mems' i hd E H. unfold hJ in *. rewrite E. exact H. Qed.

Lemma J_set : forall s' hs h x mems',
  (forall i hd, i <> h -> nth_error hs i = Some hd -> hJ mems' i hd) -> hJ mems' h x ->
  J {| w_fs := s'; w_handles := set_handle h x hs |} mems'.
Proof.
  intros s' hs h x mems' Ho Hx i hd E. cbn [w_handles] in E. destruct (Nat.eq_dec i h) as [->|Hne].
  - apply nth_set_eq in E. subst. exact Hx.
  - rewrite nth_set_neq in E by exact Hne. apply Ho; assumption.
Qed.

Section Run.
Variable cmp : snapshot -> snapshot -> bool.
Variable P : snapshot -> list nat -> bool.

Lemma step_J : forall so att w h c w' e1 mems,
  J w mems -> step so att w h c = (w', e1) ->
  exists mems', J w' mems' /\
    (((forall rest, c09g_loop cmp (snapshot_of (w_fs w)) mems (e1 ++ rest) = c09g_loop cmp (snapshot_of (w_fs w')) mems' rest) /\
      (forall rest, c09_pre P (snapshot_of (w_fs w)) mems (e1 ++ rest) = c09_pre P (snapshot_of (w_fs w')) mems' rest))
     \/ (exists o hd', e1 = [ECall h o] /\ mems' = mems /\ w_fs w' = w_fs w /\
           nth_error (w_handles w') h = Some hd' /\
           h_pc hd' = HRun o (call_prog att (h_hash hd') o (h_mem hd')) /\
           heldf h mems = onames (h_mem hd'))).
Proof.
  intros so att w h c w' e1 mems HJ H. unfold step in H.
  match goal with |- ?G => assert (Hnop : (w', e1) = (w, []) -> G) end.
  { intro E. inversion E; subst. exists mems. split; [exact HJ|]. left. split; reflexivity. }
  destruct (nth_error (w_handles w) h) as [hd|] eqn:En; [|apply Hnop; congruence].
  pose proof (HJ h hd En) as [Hheld Hh].
  assert (Hoth : forall o m r i hd0, i <> h -> nth_error (w_handles w) i = Some hd0 -> hJ (mems_fin h o m r mems) i hd0).
  { intros o m r i hd0 Hne E. eapply hJ_other; [apply heldf_fin_other; exact Hne|]. apply HJ. exact E. }
  assert (Hfin : forall o m r script, Lf o (h_mem hd) (m, r) ->
            hJ (mems_fin h o m r mems) h {| h_mem := m; h_pc := HIdle; h_script := script; h_hash := h_hash hd |}).
  { intros o m r script HL. split; [|exact I]. cbn [h_mem]. eapply heldf_fin_same; eauto. }
  destruct (h_pc hd) as [|o p|] eqn:Epc; [| |apply Hnop; congruence].
  - (* a call starts *)
    destruct (h_script hd) as [|o rest] eqn:Es; [apply Hnop; congruence|].
    pose proof (leaves_call_prog att (h_hash hd) o (h_mem hd)) as HL.
    destruct (call_prog att (h_hash hd) o (h_mem hd)) as [[m r]|q k] eqn:Ecp.
    + inversion H; subst w' e1. clear H. cbn [leaves] in HL.
      exists (mems_fin h o m r mems). split.
      * apply J_set; [intros; apply Hoth; assumption|]. apply Hfin. exact HL.
      * left. cbn [w_fs].
        split; intro rest0; cbn [app].
        -- rewrite c09_call, Hheld, (clause_immediate cmp _ _ _ _ _ _ _ h rest0 Ecp). cbn [andb].
           apply (c09_finish cmp P).
        -- rewrite c09_pre_call, Hheld, (pre_immediate P _ _ _ _ _ _ _ Ecp). cbn [andb].
           apply (c09_finish cmp P).
    + inversion H; subst w' e1. clear H.
      exists mems. split.
      * apply J_set; [intros i hd0 Hne E; apply HJ; exact E|].
        split; [exact Hheld|]. cbn [h_pc h_mem]. exact HL.
      * right.
        exists o, {| h_mem := h_mem hd; h_pc := HRun o (Op q k); h_script := rest; h_hash := h_hash hd |}.
        split; [reflexivity|]. split; [reflexivity|]. split; [reflexivity|].
        split; [cbn [w_handles]; eapply nth_set_same; exact En|].
        split; [cbn [h_pc h_hash h_mem]; rewrite Ecp; reflexivity|exact Hheld].
  - (* inside a call *)
    destruct p as [[m r]|q k].
    + inversion H; subst w' e1. clear H. cbn [leaves] in Hh.
      exists (mems_fin h o m r mems). split.
      * apply J_set; [intros; apply Hoth; assumption|]. apply Hfin. exact Hh.
      * left. cbn [w_fs]. split; intro rest0; apply (c09_finish cmp P).
    + destruct (apply_req so c h q (w_fs w)) as [[s' rs] fe] eqn:Ea.
      cbn [leaves] in Hh. specialize (Hh rs).
      destruct (k rs) as [[m r]|q' k'] eqn:Ek.
      * inversion H; subst w' e1. clear H. cbn [leaves] in Hh.
        exists (mems_fin h o m r mems). split.
        -- apply J_set; [intros; apply Hoth; assumption|]. apply Hfin. exact Hh.
        -- left. cbn [w_fs]. split; intro rest0; cbn [app].
           ++ rewrite (proj1 (c09_req cmp P _ _ _ _ _ _ _ _)). apply (c09_finish cmp P).
           ++ rewrite (proj2 (c09_req cmp P _ _ _ _ _ _ _ _)). apply (c09_finish cmp P).
      * inversion H; subst w' e1. clear H.
        exists mems. split.
        -- apply J_set; [intros i hd0 Hne E; apply HJ; exact E|].
           split; [exact Hheld|]. cbn [h_pc h_mem]. exact Hh.
        -- left. cbn [w_fs]. split; intro rest0; cbn [app]; apply (c09_req cmp P).
Qed.

(* what section 5 proves of an undisturbed call that starts when [P] holds (if it is an Add) *)
Definition clause_spec : Prop := forall so a sched γ st dh w w' evs h hd o,
  WInv γ w st -> NatInv dh w -> run so (S a) w sched = (w', evs) ->
  nth_error (w_handles w) h = Some hd ->
  h_pc hd = HRun o (call_prog (S a) (h_hash hd) o (h_mem hd)) ->
  pre_call P (snapshot_of (w_fs w)) (onames (h_mem hd)) o = true ->
  c09_clause cmp (snapshot_of (w_fs w)) (onames (h_mem hd)) h o evs = true.

Lemma run_c09 : clause_spec -> forall so a sched γ st dh w mems w' evs,
  WInv γ w st -> NatInv dh w -> J w mems -> run so (S a) w sched = (w', evs) ->
  c09_pre P (snapshot_of (w_fs w)) mems evs = true ->
  c09g_loop cmp (snapshot_of (w_fs w)) mems evs = true.
Proof.
  intros Hclause so a. induction sched as [|[h c|h] sched IH]; intros γ st dh w mems w' evs HW HN HJ H Hpre; cbn [run] in H.
  - inversion H; subst. reflexivity.
  - destruct (step so (S a) w h c) as [w1 e1] eqn:E1.
    destruct (run so (S a) w1 sched) as [w2 e2] eqn:E2. inversion H; subst w' evs. clear H.
    destruct (@step_inv so (S a) γ w st h c w1 e1 HW E1) as (γ' & st' & HW' & _).
    pose proof (step_N _ _ _ _ _ _ _ _ _ _ HW HN E1) as HN'.
    destruct (step_J _ _ _ _ _ _ _ _ HJ E1) as (mems' & HJ' & [[C1 C2]|X]).
    + rewrite C1. rewrite C2 in Hpre. eapply IH; eauto.
    + destruct X as (o & hd' & -> & -> & Efs & En & Epc & Hheld).
      cbn [app] in *. rewrite c09_call. rewrite c09_pre_call in Hpre.
      apply andb_true_iff in Hpre as [Hg Hpre]. rewrite Hheld in *. rewrite <- Efs in *.
      apply andb_true_iff. split.
      * eapply Hclause; eauto.
      * eapply IH; eauto.
  - destruct (crash w h) as [w1 e1] eqn:E1.
    destruct (run so (S a) w1 sched) as [w2 e2] eqn:E2. inversion H; subst w' evs. clear H.
    destruct (@crash_inv γ w st h w1 e1 HW E1) as (HW' & _).
    pose proof (crash_N _ _ _ _ _ HN E1) as HN'.
    unfold crash in E1. destruct (nth_error (w_handles w) h) as [hd|] eqn:En.
    + inversion E1; subst w1 e1. cbn [app c09g_loop c09_pre w_fs] in *.
      apply (IH γ st dh _ mems w2 e2 HW' HN'); [|exact E2|exact Hpre].
      apply J_set; [intros i hd0 _ E; apply HJ; exact E|].
      split; [cbn [h_mem]; apply (HJ h hd En)|exact I].
    + inversion E1; subst w1 e1. cbn [app] in *. eapply IH; eauto.
Qed.

Lemma J_init : forall tabs scripts, J (init_world tabs scripts) [].
Proof.
  intros tabs scripts i hd En. cbn [init_world w_handles] in En. apply nth_error_In in En.
  apply in_map_iff in En as [s [<- Hin]]. split; [reflexivity|exact I].
Qed.

End Run.

(* ------------------------------------------------------------------ *)
(* 5. the clause of the oracle for an undisturbed call; the theorems   *)
(* ------------------------------------------------------------------ *)

Lemma pt_in_files : forall s n f, lookup n (f_tabs s) = Some f ->
  existsb (path_eqb (PT n)) (sn_files (snapshot_of s)) = true.
Proof.
  intros s n f H. apply existsb_path. cbn [snapshot_of sn_files].
  apply in_or_app. right. apply in_or_app. right. apply in_or_app. left.
  apply lookup_In in H. apply in_map_iff. exists (n, f). split; [reflexivity|exact H].
Qed.

Lemma pll_in_files : forall s c, f_lock s = Some c ->
  existsb (path_eqb PLL) (sn_files (snapshot_of s)) = true.
Proof.
  intros s c H. apply existsb_path. cbn [snapshot_of sn_files]. rewrite H.
  apply in_or_app. right. left. reflexivity.
Qed.

Lemma in_mid : forall (a b c c' d : list path) p,
  In p (a ++ b ++ c ++ d) -> In p c \/ In p (a ++ b ++ c' ++ d).
Proof.
  intros a b c c' d p H.
  apply in_app_or in H as [H|H]; [right; apply in_or_app; left; exact H|].
  apply in_app_or in H as [H|H]; [right; apply in_or_app; right; apply in_or_app; left; exact H|].
  apply in_app_or in H as [H|H]; [left; exact H|].
  right. apply in_or_app. right. apply in_or_app. right. apply in_or_app. right. exact H.
Qed.

Lemma snap_gc_of : forall s s', gc_ok s s' -> snap_gc (snapshot_of s') (snapshot_of s) = true.
Proof.
  intros s s' (A & B & C & D & E & F). unfold snap_gc.
  change (listed (snapshot_of s)) with (listed_fs s).
  cbn [snapshot_of sn_list sn_files]. rewrite A, B, C, D.
  apply andb_true_iff. split; [apply andb_true_iff; split|].
  - destruct (f_list s); [apply list_nat_eqb_refl|reflexivity].
  - apply forallb_forall. intros p Hp. apply existsb_path.
    apply (in_mid _ _ _ (map (fun x => PT (fst x)) (f_tabs s))) in Hp as [Hp|Hp]; [|exact Hp].
    apply in_or_app. right. apply in_or_app. right. apply in_or_app. left.
    apply in_map_iff in Hp as [x [<- Hx]]. apply in_map_iff. exists x. split; [reflexivity|apply E; exact Hx].
  - apply forallb_forall. intros p Hp.
    apply (in_mid _ _ _ (map (fun x => PT (fst x)) (f_tabs s'))) in Hp as [Hp|Hp].
    + apply in_map_iff in Hp as [x [<- Hx]]. destruct (F x Hx) as [Y|Y].
      * apply orb_true_iff. left. apply existsb_path.
        apply in_or_app. right. apply in_or_app. right. apply in_or_app. left.
        apply in_map_iff. exists x. split; [reflexivity|exact Y].
      * apply orb_true_iff. right. apply negb_true_iff. apply mem_nat_false. exact Y.
    + apply orb_true_iff. left. apply existsb_path. exact Hp.
Qed.

(* what is needed of a failed Add (of a table, an empty table, a rejected table)
   through a stale handle, in terms of the comparison [cmp] and the precondition [P] *)
Definition stale_add_spec (cmp : snapshot -> snapshot -> bool) (P : snapshot -> list nat -> bool) : Prop :=
  forall so h a hh kind auto mm s E m r s',
  (forall n, In n (listed_fs s) -> lookup n (f_tabs s) <> None) ->
  mh hh mm -> tabs_hash hh s ->
  list_nat_eqb (mnames mm) (listed_fs s) = false ->
  P (snapshot_of s) (mnames mm) = true ->
  sexec so h (add (S a) hh kind auto mm) s E (m, r) s' ->
  r = RLockFailure /\ cmp (snapshot_of s') (snapshot_of s) = true /\ mnames m = listed_fs s.

(* the strict reading, when the handle's unlisted tables are already unlinked *)
Lemma stale_add_strict : stale_add_spec snap_eqb held_gone.
Proof.
  intros so h a hh kind auto mm s E m r s' Hex Hmh Hth Hst Hgone H.
  assert (Hold : forall n, In n (mnames mm) -> In n (listed_fs s) \/ lookup n (f_tabs s) = None).
  { intros n Hn. unfold held_gone in Hgone. rewrite forallb_forall in Hgone. specialize (Hgone n Hn).
    change (listed (snapshot_of s)) with (listed_fs s) in Hgone.
    apply orb_true_iff in Hgone as [X|X]; [left; apply mem_nat_In; exact X|].
    right. destruct (lookup n (f_tabs s)) as [f|] eqn:El; [|reflexivity].
    rewrite (pt_in_files s n f El) in X. discriminate X. }
  destruct (exec_add_stale _ _ _ _ _ _ _ _ _ _ _ _ Hex Hold Hmh Hth Hst H) as (-> & -> & Hm).
  split; [reflexivity|]. split; [apply snap_eqb_refl|exact Hm].
Qed.

(* the gc-tolerant reading: no precondition *)
Lemma stale_add_gc : stale_add_spec snap_gc (fun _ _ => true).
Proof.
  intros so h a hh kind auto mm s E m r s' Hex Hmh Hth Hst _ H.
  destruct (exec_add_stale_gc _ _ _ _ _ _ _ _ _ _ _ _ Hex Hmh Hth Hst H) as (-> & Hgc & Hm).
  split; [reflexivity|]. split; [apply snap_gc_of; exact Hgc|exact Hm].
Qed.

(* the program of an Add-like call *)
Lemma call_prog_add_like : forall att hh o mm, add_like o = true ->
  exists kind auto, call_prog att hh o (Some mm) = wrap (add att hh kind auto mm) (fun x => (Some (fst x), snd x)).
Proof.
  intros att hh o mm H. destruct o as [|tx auto|tx same| | | |first last| | | |]; try discriminate H; cbn [call_prog].
  - exists (KAdd tx), auto. reflexivity.
  - exists KEmpty, false. reflexivity.
  - exists KBad, false. reflexivity.
Qed.

(* the clause of the oracle, for every call *)
Lemma clause_of_add : forall cmp P, stale_add_spec cmp P -> clause_spec cmp P.
Proof.
  intros cmp P Hadd so a sched γ st dh w w' evs h hd o (HG & _ & Hinv) HN Hrun En Epc Hpre.
  destruct (h_mem hd) as [mm|] eqn:Emem; [|reflexivity].
  cbn [onames] in Hpre |- *.
  destruct (Hinv h hd En) as (_ & Hmh & _). rewrite Emem in Hmh. specialize (Hmh mm eq_refl).
  pose proof (NatInv_held _ _ _ _ _ HN En Emem) as Ehh. destruct HN as [Hth _]. rewrite Ehh in *.
  unfold c09_clause. destruct (alone_until_ret h evs []) as [[[E r] rest]|] eqn:Hal; [|reflexivity].
  destruct (alone_run _ _ _ _ _ _ _ _ _ _ _ _ _ _ Hrun En Epc Hal) as (E0 & m & s' & rest' & Hs & -> & ->).
  cbn [rev app]. pose proof (last_snap_sexec _ _ _ _ _ _ _ _ Hs) as Hlast.
  set (s := w_fs w) in *. change (listed (snapshot_of s)) with (listed_fs s).
  destruct (list_nat_eqb (mnames mm) (listed_fs s)) eqn:Eq; cbn [negb].
  - (* up to date: only an Add of a table has a clause *)
    destruct o as [|tx auto|tx same| | | |first last| | | |]; try reflexivity.
    destruct (existsb (path_eqb PLL) (sn_files (snapshot_of s))) eqn:Ep; [reflexivity|].
    assert (El : f_lock s = None).
    { destruct (f_lock s) as [c|] eqn:El; [|reflexivity]. rewrite (pll_in_files s c El) in Ep. discriminate Ep. }
    apply list_nat_eqb_eq in Eq.
    cbn [call_prog] in Hs. unfold wrap in Hs.
    apply sexec_bind in Hs as ([m1 r1] & s1 & E1 & E2 & H1 & H2 & _).
    cbn [sexec fst snd] in H2. destruct H2 as (_ & Em & ->). inversion Em; subst m r. clear Em.
    rewrite (exec_add_fresh _ _ _ _ _ _ _ _ _ _ _ _ El Eq H1). reflexivity.
  - (* stale *)
    destruct (add_like o) eqn:Eal.
    + (* an Add: lock failure, the directory compares, the handle is refreshed *)
      unfold pre_call in Hpre. rewrite Eal in Hpre.
      destruct (call_prog_add_like (S a) dh o mm Eal) as (kind & auto & Ecp).
      rewrite Ecp in Hs. unfold wrap in Hs.
      apply sexec_bind in Hs as ([m1 r1] & s1 & E1 & E2 & H1 & H2 & _).
      cbn [sexec fst snd] in H2. destruct H2 as (_ & Em & ->). inversion Em; subst m r. clear Em.
      destruct (Hadd _ _ _ _ _ _ _ _ _ _ _ _ (g_exist HG) Hmh Hth Eq Hpre H1) as (-> & Hcmp & Hm).
      rewrite Hlast, Hcmp. cbn [andb mem_events app]. rewrite Nat.eqb_refl, Hm. apply list_nat_eqb_refl.
    + (* a compaction, a Clean, a NewAddition: nothing happens *)
      destruct (stale_quiet o) as [okr|] eqn:Eq2; [|reflexivity].
      destruct (exec_quiet_stale _ _ _ _ _ _ _ _ _ _ _ _ Eq2 Eq Hs) as [Hr ->].
      rewrite Hr, Hlast. apply snap_eqb_refl.
Qed.

Lemma clause_holds : clause_spec snap_eqb held_gone.
Proof. exact (clause_of_add _ _ stale_add_strict). Qed.

Lemma clause_holds_gc : clause_spec snap_gc (fun _ _ => true).
Proof. exact (clause_of_add _ _ stale_add_gc). Qed.

(* without any load attempt no handle ever gets a stack: the oracle has nothing to check *)
Definition no_stack (w : world) : Prop :=
  forall i hd, nth_error (w_handles w) i = Some hd -> h_mem hd = None /\ (h_pc hd = HIdle \/ h_pc hd = HDead).

Lemma call_prog_0_none : forall hh o, exists r, call_prog 0 hh o None = Ret (None, r).
Proof. destruct o; eexists; reflexivity. Qed.

Lemma run_att0 : forall cmp so sched w w' evs cur,
  no_stack w -> run so 0 w sched = (w', evs) -> c09g_loop cmp cur [] evs = true.
Proof.
  intros cmp so. induction sched as [|[h c|h] sched IH]; intros w w' evs cur HN H; cbn [run] in H.
  - inversion H; subst. reflexivity.
  - destruct (step so 0 w h c) as [w1 e1] eqn:E1.
    destruct (run so 0 w1 sched) as [w2 e2] eqn:E2. inversion H; subst w' evs. clear H.
    unfold step in E1.
    destruct (nth_error (w_handles w) h) as [hd|] eqn:En; [|inversion E1; subst; eapply IH; eauto].
    destruct (HN h hd En) as [Hm [Hpc|Hpc]]; rewrite Hpc in E1; [|inversion E1; subst; eapply IH; eauto].
    destruct (h_script hd) as [|o rest]; [inversion E1; subst; eapply IH; eauto|].
    rewrite Hm in E1. destruct (call_prog_0_none (h_hash hd) o) as [r Er]. rewrite Er in E1.
    inversion E1; subst w1 e1. clear E1. cbn [finish_events app].
    assert (El : c09g_loop cmp cur [] (ECall h o :: ERet h o r :: e2) = c09g_loop cmp cur [] e2).
    { destruct o, r; reflexivity. }
    rewrite El. eapply IH; [|exact E2].
    intros i hd' E. cbn [w_handles] in E. destruct (Nat.eq_dec i h) as [->|Hne].
    + apply nth_set_eq in E. subst hd'. cbn. auto.
    + rewrite nth_set_neq in E by exact Hne. apply HN with (i := i). exact E.
  - destruct (crash w h) as [w1 e1] eqn:E1.
    destruct (run so 0 w1 sched) as [w2 e2] eqn:E2. inversion H; subst w' evs. clear H.
    unfold crash in E1. destruct (nth_error (w_handles w) h) as [hd|] eqn:En.
    + inversion E1; subst w1 e1. cbn [app c09g_loop]. eapply IH; [|exact E2].
      intros i hd' E. cbn [w_handles] in E. destruct (Nat.eq_dec i h) as [->|Hne].
      * apply nth_set_eq in E. subst hd'. cbn. split; [apply (HN h hd En)|auto].
      * rewrite nth_set_neq in E by exact Hne. apply HN with (i := i). exact E.
    + inversion E1; subst w1 e1. cbn [app]. eapply IH; eauto.
Qed.

Lemma no_stack_init : forall tabs scripts, no_stack (init_world tabs scripts).
Proof.
  intros tabs scripts i hd En. cbn [init_world w_handles] in En. apply nth_error_In in En.
  apply in_map_iff in En as [s [<- Hin]]. cbn. auto.
Qed.

(* property C09, strict reading: for traces in which no Add starts while a table the handle
   holds is unlisted but still on disk (any attempt bound) *)
Theorem c09_all_traces_strong : forall size_oracle attempts tabs scripts sched,
  init_ok tabs -> native_if_empty tabs scripts ->
  c09_precond (trace_of size_oracle attempts tabs scripts sched) = true ->
  c09_ok (trace_of size_oracle attempts tabs scripts sched) = true.
Proof.
  intros so att tabs scripts sched Hi Hnat Hpre. destruct (NatInv_init tabs scripts Hi Hnat) as [dh HN].
  unfold c09_ok, c09_precond, trace_of in *. rewrite <- c09g_strict.
  destruct (run so att (init_world tabs scripts) sched) as [w' evs] eqn:E. cbn [snd] in *.
  cbn [c09g_loop]. cbn [c09_pre] in Hpre.
  destruct att as [|a]; [exact (run_att0 snap_eqb so sched _ _ _ _ (no_stack_init tabs scripts) E)|].
  exact (run_c09 snap_eqb held_gone clause_holds so a sched _ _ dh (init_world tabs scripts) [] w' evs
           (@WInv_init tabs scripts Hi) HN (J_init tabs scripts) E Hpre).
Qed.

(* property C09, gc-tolerant reading: every trace *)
Theorem c09_gc_all_traces_strong : forall size_oracle attempts tabs scripts sched,
  init_ok tabs -> native_if_empty tabs scripts ->
  c09_ok_gc (trace_of size_oracle attempts tabs scripts sched) = true.
Proof.
  intros so att tabs scripts sched Hi Hnat. destruct (NatInv_init tabs scripts Hi Hnat) as [dh HN].
  unfold c09_ok_gc, trace_of. rewrite <- c09g_gc.
  destruct (run so att (init_world tabs scripts) sched) as [w' evs] eqn:E. cbn [snd].
  cbn [c09g_loop].
  destruct att as [|a]; [exact (run_att0 snap_gc so sched _ _ _ _ (no_stack_init tabs scripts) E)|].
  exact (run_c09 snap_gc (fun _ _ => true) clause_holds_gc so a sched _ _ dh (init_world tabs scripts) [] w' evs
           (@WInv_init tabs scripts Hi) HN (J_init tabs scripts) E (c09_pre_true _ _ _)).
Qed.

(* the statements as requested: every handle is configured with the directory's hash type
   (the hypothesis on the attempts is not needed any more: see above) *)
Theorem c09_all_traces : forall size_oracle attempts tabs scripts sched,
  init_ok tabs -> native tabs scripts ->
  (1 <= attempts)%nat ->
  c09_precond (trace_of size_oracle attempts tabs scripts sched) = true ->
  c09_ok (trace_of size_oracle attempts tabs scripts sched) = true.
Proof.
  intros so att tabs scripts sched Hi Hnat _ Hpre. apply c09_all_traces_strong; [exact Hi|apply native_weaken; exact Hnat|exact Hpre].
Qed.

Theorem c09_gc_all_traces : forall size_oracle attempts tabs scripts sched,
  init_ok tabs -> native tabs scripts ->
  (1 <= attempts)%nat ->
  c09_ok_gc (trace_of size_oracle attempts tabs scripts sched) = true.
Proof.
  intros so att tabs scripts sched Hi Hnat _. apply c09_gc_all_traces_strong; [exact Hi|apply native_weaken; exact Hnat].
Qed.

(* the same under the weaker hypothesis: the handles need to agree on the hash type only when
   the directory is empty at the start.  (A handle of another hash type cannot open a non-empty
   directory, tables.list never becomes empty again, so such a handle never holds a stack and
   the oracle has nothing to check for it.) *)
Theorem c09_all_traces_weak : forall size_oracle attempts tabs scripts sched,
  init_ok tabs -> native_if_empty tabs scripts ->
  (1 <= attempts)%nat ->
  c09_precond (trace_of size_oracle attempts tabs scripts sched) = true ->
  c09_ok (trace_of size_oracle attempts tabs scripts sched) = true.
Proof. intros so att tabs scripts sched Hi Hnat _ Hpre. apply c09_all_traces_strong; assumption. Qed.

Theorem c09_gc_all_traces_weak : forall size_oracle attempts tabs scripts sched,
  init_ok tabs -> native_if_empty tabs scripts ->
  (1 <= attempts)%nat ->
  c09_ok_gc (trace_of size_oracle attempts tabs scripts sched) = true.
Proof. intros so att tabs scripts sched Hi Hnat _. apply c09_gc_all_traces_strong; assumption. Qed.

Print Assumptions c09_all_traces.
Print Assumptions c09_gc_all_traces.
Print Assumptions c09_all_traces_strong.
Print Assumptions c09_gc_all_traces_strong.
Print Assumptions c09_all_traces_weak.
Print Assumptions c09_gc_all_traces_weak.

(* the precondition holds whenever the directory is clean in the sense of C16
   (so, by c16_all_traces, at every crash-free instant at which no other handle
   is inside a call) *)
Lemma clean_held_gone : forall cur names, clean_dir cur = true -> held_gone cur names = true.
Proof.
  intros cur names H. unfold clean_dir in H. apply andb_true_iff in H as [H _].
  rewrite forallb_forall in H. unfold held_gone. apply forallb_forall. intros n _.
  destruct (existsb (path_eqb (PT n)) (sn_files cur)) eqn:E; [|apply orb_true_r].
  apply existsb_exists in E as (p & Hp & Ep). apply path_eqb_true in Ep. subst p.
  rewrite (H (PT n) Hp). reflexivity.
Qed.

(* ------------------------------------------------------------------ *)
(* 6. counterexamples and examples                                     *)
(* ------------------------------------------------------------------ *)

Module Counterexamples.
  Definition f0 : tfile := {| tf_min := 1; tf_max := 1; tf_txs := [7]; tf_size := 10; tf_hash := false |}.
  Definition f1 : tfile := {| tf_min := 2; tf_max := 2; tf_txs := [8]; tf_size := 10; tf_hash := false |}.
  Definition so (_ : nat) : N := 10%N.
  Definition steps (h n : nat) : list sched_item := repeat (Step h None) n.

  Ltac init_ok_tac :=
    split; [reflexivity|]; split; [reflexivity|]; exists false; intros x Hx; cbn [In] in Hx;
    repeat (destruct Hx as [<-|Hx]; [reflexivity|]); destruct Hx.
  Lemma init_ok_1 : init_ok [(0, f0)].
  Proof. init_ok_tac. Qed.
  Lemma init_ok_2 : init_ok [(0, f0); (1, f1)].
  Proof. init_ok_tac. Qed.
  Lemma init_ok_0 : init_ok [].
  Proof. init_ok_tac. Qed.
  (* (c) handle 1 compacts tables 0 and 1 and is paused right after its commit,
     before it unlinks them; handle 0 (holding 0 and 1) then runs an Add alone:
     lock failure, but its reload unlinks 0.ref and 1.ref, so the directory at
     the return is not the directory at the call.  Strict reading: violated (and
     the precondition fails); gc-tolerant reading: accepted *)
  Definition scripts_c := [(false, [AOpen; AAdd 9 false]); (false, [AOpen; ACompactAll])].
  Definition sched_c := steps 0 4 ++ steps 1 4 ++ steps 1 11 ++ steps 0 9.
  Definition tr_c := trace_of so 2 [(0, f0); (1, f1)] scripts_c sched_c.
  Example ce_paused_compaction :
    c09_ok tr_c = false /\ c09_precond tr_c = false /\ c09_ok_gc tr_c = true.
  Proof. vm_compute. auto. Qed.

  (* (d) the same with the compactor crashed instead of paused *)
  Definition sched_d := steps 0 4 ++ steps 1 4 ++ steps 1 11 ++ [Crash 1] ++ steps 0 9.
  Definition tr_d := trace_of so 2 [(0, f0); (1, f1)] scripts_c sched_d.
  Example ce_crashed_compaction : c09_ok tr_d = false /\ c09_precond tr_d = false /\ c09_ok_gc tr_d = true.
  Proof. vm_compute. auto. Qed.

  (* the unrestricted strict statement is false *)
  Lemma native_c : native [(0, f0); (1, f1)] scripts_c.
  Proof. exists false. split; repeat constructor. Qed.

  Theorem c09_unrestricted_refuted :
    ~ (forall size_oracle attempts tabs scripts sched,
         init_ok tabs -> native tabs scripts -> (1 <= attempts)%nat ->
         c09_ok (trace_of size_oracle attempts tabs scripts sched) = true).
  Proof.
    intro H. assert (E : c09_ok tr_c = true).
    { apply H; [apply init_ok_2|apply native_c|repeat constructor]. }
    destruct ce_paused_compaction as [X _]. rewrite X in E. discriminate E.
  Qed.

  (* former counterexamples that the repairs have removed: (a) attempts = 0 (an Open now fails,
     no handle ever holds a stack); (b) an Add after a Close (the oracle forgets a closed handle) *)
  Definition tr_a := trace_of so 0 [(0, f0)] [(false, [AOpen; AAdd 5 false])] (steps 0 6).
  Example former_attempts_0 : c09_ok tr_a = true /\ c09_ok_gc tr_a = true.
  Proof. vm_compute. auto. Qed.
  Definition tr_b := trace_of so 2 [] [(false, [AOpen; AClose; AAdd 5 false])] (steps 0 6).
  Example former_add_after_close : c09_ok tr_b = true /\ c09_ok_gc tr_b = true /\ c09_precond tr_b = true.
  Proof. vm_compute. auto. Qed.

  (* the precondition is satisfiable on a run with a stale Add, a retry and an auto-compaction *)
  Definition scripts_e := [(false, [AOpen; AAdd 3 true; AAdd 4 true]); (false, [AOpen; AAdd 5 true; AAdd 6 true])].
  Definition sched_e := steps 0 4 ++ steps 1 4 ++ steps 0 40 ++ steps 1 40 ++ steps 0 40 ++ steps 1 40.
  Definition tr_e := trace_of so 2 [(0, f0); (1, f1)] scripts_e sched_e.
  Example sat_example :
    c09_precond tr_e = true /\ c09_ok tr_e = true /\ c09_ok_gc tr_e = true /\
    existsb (fun e => match e with ERet 1 (AAdd 5 true) RLockFailure => true | _ => false end) tr_e = true /\
    existsb (fun e => match e with ERet 1 (AAdd 6 true) ROk => true | _ => false end) tr_e = true.
  Proof. vm_compute. auto. Qed.
  (* the calls that do not reload.  Handle 1 commits a table; handle 0, now stale, compacts
     (three ways), cleans and starts a two-table transaction: success / lock failure, the
     directory untouched, the handle still stale; its empty Add then fails and refreshes it,
     and the rejected Add after that goes through an up-to-date handle *)
  Definition scripts_f := [(false, [AOpen; ACompactAll; AExpire; ACompact 0 1; AClean; AAddMulti 11 false; AAddEmpty; AAddBad]);
                           (false, [AOpen; AAdd 5 false])].
  Definition sched_f := steps 0 4 ++ steps 1 30 ++ steps 0 80.
  Definition tr_f := trace_of so 2 [(0, f0); (1, f1)] scripts_f sched_f.
  Example stale_quiet_example :
    c09_precond tr_f = true /\ c09_ok tr_f = true /\ c09_ok_gc tr_f = true /\
    forallb (fun x => existsb (fun e => match e, x with
                                        | ERet 0 ACompactAll ROk, 0 | ERet 0 AExpire ROk, 1 | ERet 0 (ACompact 0 1) ROk, 2
                                        | ERet 0 AClean RLockFailure, 3 | ERet 0 (AAddMulti 11 false) RLockFailure, 4
                                        | ERet 0 AAddEmpty RLockFailure, 5 | ERet 0 AAddBad RRejected, 6 => true
                                        | _, _ => false end) tr_f) [0; 1; 2; 3; 4; 5; 6] = true.
  Proof. vm_compute. auto. Qed.

  (* (c) with an empty Add instead of an Add: the same (this is why the precondition covers
     every Add-like call) *)
  Definition scripts_g := [(false, [AOpen; AAddEmpty]); (false, [AOpen; ACompactAll])].
  Definition tr_g := trace_of so 2 [(0, f0); (1, f1)] scripts_g sched_c.
  Example ce_paused_compaction_empty_add :
    c09_ok tr_g = false /\ c09_precond tr_g = false /\ c09_ok_gc tr_g = true.
  Proof. vm_compute. auto. Qed.

  (* (c) with a compaction and a Clean through the stale handle: they do not reload, nothing is
     unlinked, the strict reading holds and the precondition asks nothing *)
  Definition scripts_h := [(false, [AOpen; ACompactAll; AClean]); (false, [AOpen; ACompactAll])].
  Definition tr_h := trace_of so 2 [(0, f0); (1, f1)] scripts_h sched_c.
  Example paused_compaction_quiet :
    c09_ok tr_h = true /\ c09_precond tr_h = true /\ c09_ok_gc tr_h = true /\
    existsb (fun e => match e with ERet 0 AClean RLockFailure => true | _ => false end) tr_h = true.
  Proof. vm_compute. auto. Qed.
End Counterexamples.
