(* Property C09 "a stale handle can never commit; it is refreshed and its retry
   succeeds" for the schedules of the stack protocol model (Model/StackProto.v).

   Two readings of "the directory is unchanged by the failed Add":
     - [c09_ok] (strict, snap_eqb): still FALSE for all traces.  What remains
       after the repairs of the model (an Open that loses every race fails) and
       of the predicate (a Close / a failed Open makes the oracle forget the
       handle) is: a compaction paused (or crashed) between its commit and the
       unlinking of its inputs; the stale handle's reload unlinks those files
       itself ([Counterexamples.ce_paused_compaction], [ce_crashed_compaction]).
       [c09_all_traces_strong] has the one hypothesis that excludes exactly this,
       the trace precondition [c09_precond]: at the call of an Add none of the
       tables the handle holds is both dropped from tables.list and still on disk.
       The former hypotheses are gone: reopen_before_add because the oracle's
       memory of a handle now always is the names of the stack the handle holds
       ([J]); [1 <= attempts] because with no attempt an Open fails, so no handle
       ever holds a stack ([run_att0]).  [c09_all_traces] is the same statement
       with the (unused) hypothesis [1 <= attempts], as requested.
     - [c09_ok_gc] (snap_gc: tables.list unchanged, nothing new, only unlisted
       table files went away): [c09_gc_all_traces_strong] holds of EVERY trace;
       [c09_gc_all_traces] is the requested statement (with [1 <= attempts]).

   Structure: 1. sequential execution [sexec] of a program against [apply_req];
   an undisturbed call in a trace is such an execution ([alone_run]).
   2. symbolic execution of [add] in the stale case (strictly, and up to the
   collection of unlisted tables [gc_ok]) and in the up-to-date case.
   3. a loop [c09g_loop] generic in the comparison of directories, equal to
   c09_loop / c09_loop_gc; the precondition.  4. the run invariant.  5. the
   clause of the oracle; the theorems.  6. counterexamples. *)
From Coq Require Import List NArith Arith Bool Lia.
From RT Require Import Model.StackTrace Model.Segments Model.StackProto.
From RT Require Import Proofs.LockProofs Proofs.StackInvProofs Proofs.ResidueProofs.
Import ListNotations.
Local Open Scope nat_scope.

(* ------------------------------------------------------------------ *)
(* 1. sequential execution                                             *)
(* ------------------------------------------------------------------ *)

Fixpoint sexec {A} (so : nat -> N) (h : nat) (p : prog A) (s : fs) (E : list event) (a : A) (s'' : fs) : Prop :=
  match p with
  | Ret a0 => E = [] /\ a = a0 /\ s'' = s
  | Op q k => exists c s' rs fe E', apply_req so c h q s = (s', rs, fe) /\
                E = req_event h q rs fe :: ESnap (snapshot_of s') :: E' /\ sexec so h (k rs) s' E' a s''
  end.

Lemma sexec_bind : forall A B so h (p : prog A) (f : A -> prog B) s E b s'',
  sexec so h (pbind p f) s E b s'' ->
  exists a s' E1 E2, sexec so h p s E1 a s' /\ sexec so h (f a) s' E2 b s'' /\ E = E1 ++ E2.
Proof.
  induction p as [a|q k IH]; intros f s E b s'' H; cbn [pbind sexec] in *.
  - exists a, s, [], E. split; [auto|]. split; [exact H|reflexivity].
  - destruct H as (c & s' & rs & fe & E' & Hap & -> & H).
    destruct (IH rs f s' E' b s'' H) as (a & s1 & E1 & E2 & H1 & H2 & ->).
    exists a, s1, (req_event h q rs fe :: ESnap (snapshot_of s') :: E1), E2.
    split; [|split; [exact H2|reflexivity]].
    exists c, s', rs, fe, E1. auto.
Qed.

Fixpoint leaves {A} (p : prog A) (P : A -> Prop) : Prop :=
  match p with Ret a => P a | Op q k => forall rs, leaves (k rs) P end.

Lemma leaves_bind : forall A B (p : prog A) (f : A -> prog B) P,
  (forall a, leaves (f a) P) -> leaves (pbind p f) P.
Proof.
  induction p as [a|q k IH]; intros f P H; cbn [pbind leaves]; [apply H|]. intro rs. apply IH. exact H.
Qed.

Lemma leaves_sexec : forall A so h (p : prog A) P s E a s', leaves p P -> sexec so h p s E a s' -> P a.
Proof.
  induction p as [a0|q k IH]; intros P s E a s' HL H; cbn [leaves sexec] in *.
  - destruct H as (_ & -> & _). exact HL.
  - destruct H as (c & s1 & rs & fe & E' & _ & _ & H). eapply IH; [apply HL|exact H].
Qed.

Lemma req_not_snap : forall h q rs fe (x : snapshot),
  match req_event h q rs fe with ESnap y => y | _ => x end = x.
Proof. intros. destruct q; reflexivity. Qed.

Lemma last_snap_sexec : forall A so h (p : prog A) s E a s',
  sexec so h p s E a s' -> last_snap E (snapshot_of s) = snapshot_of s'.
Proof.
  induction p as [a0|q k IH]; intros s E a s' H; cbn [sexec] in H.
  - destruct H as (-> & _ & ->). reflexivity.
  - destruct H as (c & s1 & rs & fe & E' & _ & -> & H).
    rewrite <- (IH rs s1 E' a s' H). unfold last_snap. destruct q; reflexivity.
Qed.

(* an undisturbed call in the trace of a run is a sequential execution *)
Lemma alone_req : forall h h' q rs fe t acc,
  alone_until_ret h (req_event h' q rs fe :: t) acc =
  if Nat.eqb h h' then alone_until_ret h t (req_event h' q rs fe :: acc) else None.
Proof. intros. destruct q; reflexivity. Qed.

Definition mem_events (h : nat) (m : option mem) : list event :=
  match m with Some mm => [EMem h (mnames mm) 0] | None => [] end.

Lemma step_other : forall so att w h' c w1 e1 h,
  step so att w h' c = (w1, e1) -> h' <> h ->
  (e1 = [] /\ w1 = w) \/ (forall rest acc, alone_until_ret h (e1 ++ rest) acc = None).
Proof.
  intros so att w h' c w1 e1 h H Hne. unfold step in H.
  assert (Hn : Nat.eqb h h' = false) by (apply Nat.eqb_neq; congruence).
  destruct (nth_error (w_handles w) h') as [hd|]; [|inversion H; auto].
  destruct (h_pc hd) as [|o p|].
  - destruct (h_script hd) as [|o rest]; [inversion H; auto|].
    destruct (call_prog att o (h_mem hd)) as [[m r]|q k]; inversion H; subst; right; intros; reflexivity.
  - destruct p as [[m r]|q k].
    + inversion H; subst. right. intros. unfold finish_events. cbn [app alone_until_ret]. rewrite Hn. reflexivity.
    + destruct (apply_req so c h' q (w_fs w)) as [[s' rs] fe].
      destruct (k rs) as [[m r]|q' k']; inversion H; subst; right; intros; cbn [app]; rewrite alone_req, Hn; reflexivity.
  - inversion H; auto.
Qed.

Lemma alone_run : forall so att sched w w' evs h hd o p acc evs1 r rest,
  run so att w sched = (w', evs) -> nth_error (w_handles w) h = Some hd -> h_pc hd = HRun o p ->
  alone_until_ret h evs acc = Some (evs1, r, rest) ->
  exists E m s' rest', sexec so h p (w_fs w) E (m, r) s' /\ evs1 = rev acc ++ E /\
                       rest = mem_events h m ++ rest'.
Proof.
  intros so att. induction sched as [|[h' c|h'] sched IH]; intros w w' evs h hd o p acc evs1 r rest Hrun En Epc Hal;
    cbn [run] in Hrun.
  - inversion Hrun; subst. discriminate Hal.
  - destruct (step so att w h' c) as [w1 e1] eqn:E1.
    destruct (run so att w1 sched) as [w2 e2] eqn:E2. inversion Hrun; subst w' evs. clear Hrun.
    destruct (Nat.eq_dec h' h) as [->|Hne].
    + unfold step in E1. rewrite En, Epc in E1.
      destruct p as [[m r0]|q k].
      * inversion E1; subst w1 e1. clear E1. unfold finish_events in Hal. cbn [app alone_until_ret] in Hal.
        rewrite Nat.eqb_refl in Hal. inversion Hal; subst.
        exists [], m, (w_fs w), e2. cbn [sexec]. rewrite app_nil_r. auto.
      * destruct (apply_req so c h q (w_fs w)) as [[s' rs] fe] eqn:Ea.
        destruct (k rs) as [[m r0]|q' k'] eqn:Ek; inversion E1; subst w1 e1; clear E1.
        -- cbn [app] in Hal. rewrite alone_req, Nat.eqb_refl in Hal. unfold finish_events in Hal.
           cbn [app alone_until_ret] in Hal. rewrite Nat.eqb_refl in Hal. inversion Hal; subst.
           exists [req_event h q rs fe; ESnap (snapshot_of s')], m, s', e2.
           split; [|split; [cbn [rev]; rewrite <- !app_assoc; reflexivity|reflexivity]].
           cbn [sexec]. exists c, s', rs, fe, []. split; [exact Ea|]. split; [reflexivity|].
           rewrite Ek. cbn [sexec]. auto.
        -- cbn [app] in Hal. rewrite alone_req, Nat.eqb_refl in Hal. cbn [alone_until_ret] in Hal.
           set (x := {| h_mem := h_mem hd; h_pc := HRun o (Op q' k'); h_script := h_script hd |}) in *.
           destruct (IH _ _ _ h x o (Op q' k') _ _ _ _ E2 (nth_set_same _ _ x _ En) eq_refl Hal)
             as (E & m & s'' & rest' & Hs & -> & ->).
           cbn [w_fs] in Hs.
           exists (req_event h q rs fe :: ESnap (snapshot_of s') :: E), m, s'', rest'.
           split; [|split; [cbn [rev]; rewrite <- !app_assoc; reflexivity|reflexivity]].
           cbn [sexec]. exists c, s', rs, fe, E. split; [exact Ea|]. split; [reflexivity|].
           rewrite Ek. exact Hs.
    + destruct (step_other _ _ _ _ _ _ _ h E1 Hne) as [[-> ->]|Hno].
      * cbn [app] in Hal. eapply IH; eauto.
      * rewrite Hno in Hal. discriminate Hal.
  - destruct (crash w h') as [w1 e1] eqn:E1.
    destruct (run so att w1 sched) as [w2 e2] eqn:E2. inversion Hrun; subst w' evs. clear Hrun.
    unfold crash in E1. destruct (nth_error (w_handles w) h') as [hd'|].
    + inversion E1; subst. discriminate Hal.
    + inversion E1; subst. cbn [app] in Hal. eapply IH; eauto.
Qed.

(* ------------------------------------------------------------------ *)
(* 2. symbolic execution of reload and add                             *)
(* ------------------------------------------------------------------ *)

Lemma exec_open_all : forall so h old names acc s E o s',
  (forall n, In n names -> lookup n (f_tabs s) <> None) ->
  sexec so h (open_all true old names acc) s E o s' ->
  s' = s /\ exists m, o = Some m /\ mnames m = rev (mnames acc) ++ names.
Proof.
  intros so h old. induction names as [|n t IH]; intros acc s E o s' Hex H; cbn [open_all] in H.
  - cbn [sexec] in H. destruct H as (_ & -> & ->). split; [reflexivity|].
    exists (rev acc). split; [reflexivity|]. unfold mnames. rewrite map_rev, app_nil_r. reflexivity.
  - assert (Ht : forall x, In x t -> lookup x (f_tabs s) <> None) by (intros x Hx; apply Hex; right; exact Hx).
    assert (Hfin : forall f m, mnames m = rev (mnames ((n, f) :: acc)) ++ t -> mnames m = rev (mnames acc) ++ n :: t).
    { intros f m ->. cbn [mnames map fst rev]. rewrite <- app_assoc. reflexivity. }
    destruct (lookup n old) as [f|].
    + destruct (IH _ _ _ _ _ Ht H) as (-> & m & -> & Hm). split; [reflexivity|]. exists m. split; [reflexivity|].
      eapply Hfin; eauto.
    + cbn [pbind op sexec] in H. destruct H as (c & s1 & rs & fe & E' & Hap & _ & H).
      cbn [apply_req] in Hap. destruct (lookup n (f_tabs s)) as [f|] eqn:El.
      * inversion Hap; subst. destruct (IH _ _ _ _ _ Ht H) as (-> & m & -> & Hm). split; [reflexivity|].
        exists m. split; [reflexivity|]. eapply Hfin; eauto.
      * exfalso. apply (Hex n); [left; reflexivity|exact El].
Qed.

Lemma exec_remove_any : forall so h fuel cands s E u s',
  (forall n, In n cands -> lookup n (f_tabs s) = None) ->
  sexec so h (remove_any fuel cands) s E u s' -> s' = s.
Proof.
  intros so h. induction fuel as [|f IH]; intros cands s E u s' Hno H.
  - destruct cands; cbn in H; apply H.
  - destruct cands as [|c0 cs]; [cbn in H; apply H|].
    cbn [remove_any pbind op sexec] in H. destruct H as (c & s1 & rs & fe & E' & Hap & _ & H).
    cbn [apply_req] in Hap.
    match type of Hap with context [lookup ?x (f_tabs s)] => set (n := x) in * end.
    assert (Hn : In n (c0 :: cs)).
    { unfold n. destruct c as [c1|]; [|left; reflexivity].
      destruct (mem_nat c1 (c0 :: cs)) eqn:Em; [apply mem_nat_In; exact Em|left; reflexivity]. }
    rewrite (Hno n Hn) in Hap. inversion Hap; subst. eapply IH; [|exact H].
    intros x Hx. apply filter_In in Hx as [Hx _]. apply Hno. exact Hx.
Qed.

Lemma lnames_list : forall s, match SNames (f_list s) with SNames (Some l) => l | _ => [] end = listed_fs s.
Proof. intro s. unfold listed_fs. destruct (f_list s); reflexivity. Qed.

Lemma exec_reload : forall so h a old s E m st s',
  (forall n, In n (listed_fs s) -> lookup n (f_tabs s) <> None) ->
  (forall n, In n (mnames old) -> In n (listed_fs s) \/ lookup n (f_tabs s) = None) ->
  sexec so h (reload (S a) true old) s E (m, st) s' -> s' = s /\ mnames m = listed_fs s.
Proof.
  intros so h a old s E m st s' Hex Hold H.
  cbn [reload pbind op sexec] in H. destruct H as (c & s1 & rs & fe & E' & Hap & _ & H).
  cbn [apply_req] in Hap. inversion Hap; subst s1 rs fe. clear Hap.
  rewrite lnames_list in H.
  apply sexec_bind in H as (o & s2 & E1 & E2 & H1 & H2 & _).
  destruct (exec_open_all _ _ _ _ _ _ _ _ _ Hex H1) as (-> & m' & -> & Hm'). cbn [mnames map rev app] in Hm'.
  apply sexec_bind in H2 as (u & s3 & E3 & E4 & H3 & H4 & _).
  apply exec_remove_any in H3.
  - subst s3. cbn [sexec] in H4. destruct H4 as (_ & E4' & ->). inversion E4'; subst. auto.
  - intros n Hn. apply filter_In in Hn as [Hn1 Hn2]. apply negb_true_iff in Hn2. apply mem_nat_false in Hn2.
    destruct (Hold n Hn1); [contradiction|assumption].
Qed.

Lemma fs_unlock_eq : forall s, f_lock s = None ->
  {| f_list := f_list s; f_lock := None; f_tabs := f_tabs s; f_tlocks := f_tlocks s;
     f_tmps := f_tmps s; f_next_tab := f_next_tab s; f_next_tmp := f_next_tmp s |} = s.
Proof. intros s H. destruct s; cbn in *; subst; reflexivity. Qed.

(* a stale handle: lock failure, the directory is what it was, the handle holds the current list *)
Lemma exec_add_stale : forall so h a tx auto mm s E m r s',
  (forall n, In n (listed_fs s) -> lookup n (f_tabs s) <> None) ->
  (forall n, In n (mnames mm) -> In n (listed_fs s) \/ lookup n (f_tabs s) = None) ->
  list_nat_eqb (mnames mm) (listed_fs s) = false ->
  sexec so h (add (S a) (KAdd tx) auto mm) s E (m, r) s' ->
  r = RLockFailure /\ s' = s /\ mnames m = listed_fs s.
Proof.
  intros so h a tx auto mm s E m r s' Hex Hold Hst H.
  assert (Hfail : forall E0 s0, s0 = s ->
            sexec so h (do! rl := reload (S a) true mm in Ret (fst rl, RLockFailure)) s0 E0 (m, r) s' ->
            r = RLockFailure /\ s' = s /\ mnames m = listed_fs s).
  { intros E0 s0 -> H0. apply sexec_bind in H0 as ([m1 st] & s1 & E1 & E2 & H1 & H2 & _).
    destruct (exec_reload _ _ _ _ _ _ _ _ _ Hex Hold H1) as [-> Hm].
    cbn [sexec fst] in H2. destruct H2 as (_ & E2' & ->). inversion E2'; subst. auto. }
  unfold add in H. cbn [pbind op sexec] in H. destruct H as (c & s1 & rs & fe & E' & Hap & _ & H).
  cbn [apply_req] in Hap. destruct (f_lock s) as [o|] eqn:El; inversion Hap; subst s1 rs fe; clear Hap.
  - eapply Hfail; [reflexivity|exact H].
  - cbn [pbind op sexec] in H. destruct H as (c1 & s2 & rs & fe & E2 & Hap & _ & H).
    cbn [apply_req f_list] in Hap. inversion Hap; subst s2 rs fe. clear Hap.
    rewrite lnames_list in H.
    assert (Hneq : names_eqb (listed_fs s) (mnames mm) = false).
    { unfold names_eqb. destruct (list_nat_eqb (listed_fs s) (mnames mm)) eqn:X; [|reflexivity].
      apply list_nat_eqb_eq in X. rewrite X, list_nat_eqb_refl in Hst. discriminate. }
    change (match f_list s with Some l => l | None => [] end) with (listed_fs s) in H.
    rewrite Hneq in H. cbn [negb pbind op sexec] in H.
    destruct H as (c2 & s3 & rs & fe & E3 & Hap & _ & H).
    cbn [apply_req f_lock f_list f_tabs f_tlocks f_tmps f_next_tab f_next_tmp] in Hap.
    inversion Hap; subst s3 rs fe. clear Hap.
    eapply Hfail; [|exact H]. apply fs_unlock_eq. exact El.
Qed.

(* ---------------- the same up to the collection of unlisted tables ---------------- *)

(* [s'] is [s] with some table files that tables.list does not name unlinked *)
Definition gc_ok (s s' : fs) : Prop :=
  f_list s' = f_list s /\ f_lock s' = f_lock s /\ f_tlocks s' = f_tlocks s /\ f_tmps s' = f_tmps s /\
  incl (f_tabs s') (f_tabs s) /\
  (forall x, In x (f_tabs s) -> In x (f_tabs s') \/ ~ In (fst x) (listed_fs s)).

Lemma gc_ok_refl : forall s, gc_ok s s.
Proof. intro s. repeat split; auto using incl_refl. Qed.

Lemma gc_ok_del : forall s s1 n,
  gc_ok s s1 -> ~ In n (listed_fs s) ->
  gc_ok s {| f_list := f_list s1; f_lock := f_lock s1; f_tabs := del n (f_tabs s1); f_tlocks := f_tlocks s1;
             f_tmps := f_tmps s1; f_next_tab := f_next_tab s1; f_next_tmp := f_next_tmp s1 |}.
Proof.
  intros s s1 n (A & B & C & D & E & F) Hn. unfold gc_ok. cbn [f_list f_lock f_tabs f_tlocks f_tmps].
  split; [exact A|]. split; [exact B|]. split; [exact C|]. split; [exact D|]. split.
  - intros x Hx. unfold del in Hx. apply filter_In in Hx as [Hx _]. apply E. exact Hx.
  - intros x Hx. destruct (F x Hx) as [Y|Y]; [|right; exact Y].
    destruct (Nat.eqb_spec n (fst x)) as [Eq|Ne].
    + right. rewrite <- Eq. exact Hn.
    + left. unfold del. apply filter_In. split; [exact Y|]. apply negb_true_iff. apply Nat.eqb_neq. exact Ne.
Qed.

Lemma exec_remove_any_gc : forall so h s0 fuel cands s E u s',
  (forall n, In n cands -> ~ In n (listed_fs s0)) -> gc_ok s0 s ->
  sexec so h (remove_any fuel cands) s E u s' -> gc_ok s0 s'.
Proof.
  intros so h s0. induction fuel as [|f IH]; intros cands s E u s' Hno Hgc H.
  - destruct cands; cbn in H; destruct H as (_ & _ & ->); exact Hgc.
  - destruct cands as [|c0 cs]; [cbn in H; destruct H as (_ & _ & ->); exact Hgc|].
    cbn [remove_any pbind op sexec] in H. destruct H as (c & s1 & rs & fe & E' & Hap & _ & H).
    cbn [apply_req] in Hap.
    match type of Hap with context [lookup ?x (f_tabs s)] => set (n := x) in * end.
    assert (Hn : In n (c0 :: cs)).
    { unfold n. destruct c as [c1|]; [|left; reflexivity].
      destruct (mem_nat c1 (c0 :: cs)) eqn:Em; [apply mem_nat_In; exact Em|left; reflexivity]. }
    assert (Hsub : forall x, In x (filter (fun y => negb (Nat.eqb y n)) (c0 :: cs)) -> ~ In x (listed_fs s0)).
    { intros x Hx. apply filter_In in Hx as [Hx _]. apply Hno. exact Hx. }
    destruct (lookup n (f_tabs s)); inversion Hap; subst s1 rs fe; clear Hap.
    + eapply IH; [exact Hsub| |exact H]. apply gc_ok_del; [exact Hgc|apply Hno; exact Hn].
    + eapply IH; [exact Hsub|exact Hgc|exact H].
Qed.

Lemma exec_reload_gc : forall so h a old s E m st s',
  (forall n, In n (listed_fs s) -> lookup n (f_tabs s) <> None) ->
  sexec so h (reload (S a) true old) s E (m, st) s' -> gc_ok s s' /\ mnames m = listed_fs s.
Proof.
  intros so h a old s E m st s' Hex H.
  cbn [reload pbind op sexec] in H. destruct H as (c & s1 & rs & fe & E' & Hap & _ & H).
  cbn [apply_req] in Hap. inversion Hap; subst s1 rs fe. clear Hap.
  rewrite lnames_list in H.
  apply sexec_bind in H as (o & s2 & E1 & E2 & H1 & H2 & _).
  destruct (exec_open_all _ _ _ _ _ _ _ _ _ Hex H1) as (-> & m' & -> & Hm'). cbn [mnames map rev app] in Hm'.
  apply sexec_bind in H2 as (u & s3 & E3 & E4 & H3 & H4 & _).
  apply (exec_remove_any_gc so h s) in H3; [|intros n Hn|apply gc_ok_refl].
  - cbn [sexec] in H4. destruct H4 as (_ & E4' & ->). inversion E4'; subst. auto.
  - apply filter_In in Hn as [_ Hn2]. apply negb_true_iff in Hn2. apply mem_nat_false in Hn2. exact Hn2.
Qed.

Lemma exec_add_stale_gc : forall so h a tx auto mm s E m r s',
  (forall n, In n (listed_fs s) -> lookup n (f_tabs s) <> None) ->
  list_nat_eqb (mnames mm) (listed_fs s) = false ->
  sexec so h (add (S a) (KAdd tx) auto mm) s E (m, r) s' ->
  r = RLockFailure /\ gc_ok s s' /\ mnames m = listed_fs s.
Proof.
  intros so h a tx auto mm s E m r s' Hex Hst H.
  assert (Hfail : forall E0 s0, s0 = s ->
            sexec so h (do! rl := reload (S a) true mm in Ret (fst rl, RLockFailure)) s0 E0 (m, r) s' ->
            r = RLockFailure /\ gc_ok s s' /\ mnames m = listed_fs s).
  { intros E0 s0 -> H0. apply sexec_bind in H0 as ([m1 st] & s1 & E1 & E2 & H1 & H2 & _).
    destruct (exec_reload_gc _ _ _ _ _ _ _ _ _ Hex H1) as [Hgc Hm].
    cbn [sexec fst] in H2. destruct H2 as (_ & E2' & ->). inversion E2'; subst. auto. }
  unfold add in H. cbn [pbind op sexec] in H. destruct H as (c & s1 & rs & fe & E' & Hap & _ & H).
  cbn [apply_req] in Hap. destruct (f_lock s) as [o|] eqn:El; inversion Hap; subst s1 rs fe; clear Hap.
  - eapply Hfail; [reflexivity|exact H].
  - cbn [pbind op sexec] in H. destruct H as (c1 & s2 & rs & fe & E2 & Hap & _ & H).
    cbn [apply_req f_list] in Hap. inversion Hap; subst s2 rs fe. clear Hap.
    rewrite lnames_list in H.
    assert (Hneq : names_eqb (listed_fs s) (mnames mm) = false).
    { unfold names_eqb. destruct (list_nat_eqb (listed_fs s) (mnames mm)) eqn:X; [|reflexivity].
      apply list_nat_eqb_eq in X. rewrite X, list_nat_eqb_refl in Hst. discriminate. }
    change (match f_list s with Some l => l | None => [] end) with (listed_fs s) in H.
    rewrite Hneq in H. cbn [negb pbind op sexec] in H.
    destruct H as (c2 & s3 & rs & fe & E3 & Hap & _ & H).
    cbn [apply_req f_lock f_list f_tabs f_tlocks f_tmps f_next_tab f_next_tmp] in Hap.
    inversion Hap; subst s3 rs fe. clear Hap.
    eapply Hfail; [|exact H]. apply fs_unlock_eq. exact El.
Qed.

(* an up-to-date handle and a free lock: the Add returns success *)
Lemma leaves_true : forall A (p : prog A), leaves p (fun _ => True).
Proof. induction p as [a|q k IH]; cbn [leaves]; auto. Qed.

Lemma exec_add_fresh : forall so h att tx auto mm s E m r s',
  f_lock s = None -> mnames mm = listed_fs s ->
  sexec so h (add att (KAdd tx) auto mm) s E (m, r) s' -> r = ROk.
Proof.
  intros so h att tx auto mm s E m r s' El Hup H.
  unfold add in H. cbn [pbind op sexec] in H. destruct H as (c & s1 & rs & fe & E' & Hap & _ & H).
  cbn [apply_req] in Hap. rewrite El in Hap. inversion Hap; subst s1 rs fe; clear Hap.
  cbn [pbind op sexec] in H. destruct H as (c1 & s2 & rs & fe & E2 & Hap & _ & H).
  cbn [apply_req f_list] in Hap. inversion Hap; subst s2 rs fe. clear Hap.
  rewrite lnames_list in H. change (match f_list s with Some l => l | None => [] end) with (listed_fs s) in H.
  rewrite <- Hup in H. unfold names_eqb in H. rewrite list_nat_eqb_refl in H. cbn [negb pbind op sexec] in H.
  destruct H as (c2 & s3 & rs & fe & E3 & Hap & _ & H).
  cbn [apply_req f_lock f_list f_tabs f_tlocks f_tmps f_next_tab f_next_tmp] in Hap.
  inversion Hap; subst s3 rs fe. clear Hap.
  cbn [pbind op sexec] in H. destruct H as (c3 & s4 & rs & fe & E4 & Hap & _ & H).
  assert (Es4 : f_tmps s4 = (f_next_tmp s, h) :: f_tmps s /\ f_next_tab s4 = f_next_tab s).
  { cbn [apply_req f_tmps] in Hap. destruct (lookup _ _); inversion Hap; subst; split; reflexivity. }
  clear Hap. destruct Es4 as [Et4 En4].
  cbn [pbind op sexec] in H. destruct H as (c4 & s5 & rs5 & fe5 & E5 & Hap & _ & H).
  cbn [apply_req] in Hap. rewrite Et4 in Hap. cbn [lookup] in Hap. rewrite Nat.eqb_refl in Hap.
  inversion Hap; subst s5 rs5 fe5. clear Hap.
  match type of H with sexec _ _ ?p _ _ _ _ =>
    assert (HL : leaves p (fun res : mem * apires => snd res = ROk)) end.
  { cbn [leaves pbind op]. intros _ _.
    apply leaves_bind. intros rl. destruct auto; [|reflexivity].
    apply leaves_bind. intros m'. reflexivity. }
  apply (leaves_sexec _ _ _ _ _ _ _ _ _ HL H).
Qed.

(* ------------------------------------------------------------------ *)
(* 3. the oracle, generic in the comparison of directories             *)
(* ------------------------------------------------------------------ *)

Definition drop (h : nat) (mems : list (nat * list nat)) : list (nat * list nat) :=
  filter (fun x => negb (Nat.eqb h (fst x))) mems.

Definition heldf (h : nat) (mems : list (nat * list nat)) : option (list nat) :=
  fold_right (fun x acc => if Nat.eqb h (fst x) then Some (snd x) else acc) None mems.

Definition mems_upd (h : nat) (names : list nat) (mems : list (nat * list nat)) : list (nat * list nat) :=
  (h, names) :: drop h mems.

Definition c09_clause (cmp : snapshot -> snapshot -> bool) (h : nat) (cur : snapshot)
           (held : option (list nat)) (t : list event) : bool :=
  match held, alone_until_ret h t [] with
  | Some names, Some (evs, r, rest) =>
      if negb (list_nat_eqb names (listed cur)) then
        (match r with RLockFailure => true | _ => false end)
        && cmp (last_snap evs cur) cur
        && (match rest with
            | EMem h' names' _ :: _ => Nat.eqb h h' && list_nat_eqb names' (listed cur)
            | _ => false
            end)
      else if existsb (path_eqb PLL) (sn_files cur) then true
      else (match r with ROk => true | _ => false end)
  | _, _ => true
  end.

Fixpoint c09g_loop (cmp : snapshot -> snapshot -> bool) (cur : snapshot) (mems : list (nat * list nat))
         (tr : list event) : bool :=
  match tr with
  | [] => true
  | ESnap s :: t => c09g_loop cmp s mems t
  | EMem h names _ :: t => c09g_loop cmp cur (mems_upd h names mems) t
  | ERet h AClose _ :: t => c09g_loop cmp cur (drop h mems) t
  | ERet h AOpen RErr :: t => c09g_loop cmp cur (drop h mems) t
  | ECall h (AAdd tx _) :: t => c09_clause cmp h cur (heldf h mems) t && c09g_loop cmp cur mems t
  | _ :: t => c09g_loop cmp cur mems t
  end.

Lemma c09g_strict : forall tr cur mems, c09g_loop snap_eqb cur mems tr = c09_loop cur mems tr.
Proof.
  induction tr as [|e t IH]; intros cur mems; [reflexivity|].
  destruct e as [h op p r names|s|h op|h op r|h names closed|h|]; try (cbn; apply IH).
  - destruct op; try (cbn; apply IH).
    change (c09_clause snap_eqb h cur (heldf h mems) t && c09g_loop snap_eqb cur mems t
            = c09_clause snap_eqb h cur (heldf h mems) t && c09_loop cur mems t).
    rewrite IH. reflexivity.
  - destruct op; try (cbn; apply IH). destruct r; cbn; apply IH.
Qed.

Lemma c09g_gc : forall tr cur mems, c09g_loop snap_gc cur mems tr = c09_loop_gc cur mems tr.
Proof.
  induction tr as [|e t IH]; intros cur mems; [reflexivity|].
  destruct e as [h op p r names|s|h op|h op r|h names closed|h|]; try (cbn; apply IH).
  - destruct op; try (cbn; apply IH).
    change (c09_clause snap_gc h cur (heldf h mems) t && c09g_loop snap_gc cur mems t
            = c09_clause snap_gc h cur (heldf h mems) t && c09_loop_gc cur mems t).
    rewrite IH. reflexivity.
  - destruct op; try (cbn; apply IH). destruct r; cbn; apply IH.
Qed.

(* hypothesis on the trace (for the strict reading): at the call of an Add, none of the
   tables the handle holds is both dropped from tables.list and still on disk *)
Definition held_gone (cur : snapshot) (names : list nat) : bool :=
  forallb (fun n => mem_nat n (listed cur) || negb (existsb (path_eqb (PT n)) (sn_files cur))) names.

Fixpoint c09_pre (P : snapshot -> list nat -> bool) (cur : snapshot) (mems : list (nat * list nat))
         (tr : list event) : bool :=
  match tr with
  | [] => true
  | ESnap s :: t => c09_pre P s mems t
  | EMem h names _ :: t => c09_pre P cur (mems_upd h names mems) t
  | ERet h AClose _ :: t => c09_pre P cur (drop h mems) t
  | ERet h AOpen RErr :: t => c09_pre P cur (drop h mems) t
  | ECall h (AAdd _ _) :: t =>
      (match heldf h mems with Some names => P cur names | None => true end) && c09_pre P cur mems t
  | _ :: t => c09_pre P cur mems t
  end.
Definition c09_precond (tr : list event) : bool := c09_pre held_gone snap0 [] tr.

Lemma c09_pre_true : forall tr cur mems, c09_pre (fun _ _ => true) cur mems tr = true.
Proof.
  induction tr as [|e t IH]; intros cur mems; [reflexivity|].
  destruct e as [h op p r names|s|h op|h op r|h names closed|h|]; try (cbn; apply IH).
  - destruct op; try (cbn; apply IH). cbn [c09_pre]. rewrite IH. destruct (heldf h mems); reflexivity.
  - destruct op; try (cbn; apply IH). destruct r; cbn; apply IH.
Qed.

Section Generic.
Variable cmp : snapshot -> snapshot -> bool.
Variable P : snapshot -> list nat -> bool.

Lemma c09_call : forall cur mems h tx auto t,
  c09g_loop cmp cur mems (ECall h (AAdd tx auto) :: t) = c09_clause cmp h cur (heldf h mems) t && c09g_loop cmp cur mems t.
Proof. reflexivity. Qed.

Lemma c09_pre_call : forall cur mems h tx auto t,
  c09_pre P cur mems (ECall h (AAdd tx auto) :: t) =
  (match heldf h mems with Some names => P cur names | None => true end) && c09_pre P cur mems t.
Proof. reflexivity. Qed.

(* what the oracle remembers after the events of a return *)
Definition mems_fin (h : nat) (o : apiop) (m : option mem) (r : apires) (mems : list (nat * list nat)) :=
  let mems1 := match o, r with
               | AClose, _ => drop h mems
               | AOpen, RErr => drop h mems
               | _, _ => mems
               end in
  match m with Some mm => mems_upd h (mnames mm) mems1 | None => mems1 end.

Lemma c09_finish : forall cur mems h o m r rest,
  c09g_loop cmp cur mems (finish_events h o m r ++ rest) = c09g_loop cmp cur (mems_fin h o m r mems) rest /\
  c09_pre P cur mems (finish_events h o m r ++ rest) = c09_pre P cur (mems_fin h o m r mems) rest.
Proof. intros. unfold finish_events, mems_fin. destruct o, r, m; split; reflexivity. Qed.

Lemma c09_req : forall cur mems h q rs fe s' rest,
  c09g_loop cmp cur mems (req_event h q rs fe :: ESnap s' :: rest) = c09g_loop cmp s' mems rest /\
  c09_pre P cur mems (req_event h q rs fe :: ESnap s' :: rest) = c09_pre P s' mems rest.
Proof. intros. destruct q; split; reflexivity. Qed.

End Generic.

Lemma heldf_drop_same : forall h mems, heldf h (drop h mems) = None.
Proof.
  intros h mems. unfold heldf, drop. induction mems as [|[k v] mems IH]; cbn [filter fold_right fst snd]; [reflexivity|].
  destruct (Nat.eqb_spec h k); cbn [negb fold_right fst snd]; [exact IH|].
  destruct (Nat.eqb_spec h k); [contradiction|exact IH].
Qed.

Lemma heldf_drop_other : forall i h mems, i <> h -> heldf i (drop h mems) = heldf i mems.
Proof.
  intros i h mems Hne. unfold heldf, drop.
  induction mems as [|[k v] mems IH]; cbn [filter fold_right fst snd]; [reflexivity|].
  destruct (Nat.eqb_spec h k); cbn [negb fold_right fst snd].
  - subst k. destruct (Nat.eqb_spec i h); [contradiction|exact IH].
  - rewrite IH. reflexivity.
Qed.

Lemma heldf_upd_same : forall h names mems, heldf h (mems_upd h names mems) = Some names.
Proof. intros. unfold mems_upd, heldf. cbn [fold_right fst snd]. rewrite Nat.eqb_refl. reflexivity. Qed.

Lemma heldf_upd_other : forall i h names mems, i <> h -> heldf i (mems_upd h names mems) = heldf i mems.
Proof.
  intros i h names mems Hne. unfold mems_upd. change (heldf i ((h, names) :: drop h mems))
    with (if Nat.eqb i h then Some names else heldf i (drop h mems)).
  destruct (Nat.eqb_spec i h); [contradiction|]. apply heldf_drop_other. exact Hne.
Qed.

(* a call leaves the handle without a stack only if it is a Close, a failed Open, or the handle had none *)
Definition Lf (o : apiop) (m0 : option mem) (res : option mem * apires) : Prop :=
  match fst res with
  | Some _ => True
  | None => o = AClose \/ (o = AOpen /\ snd res = RErr) \/ m0 = None
  end.

Lemma leaves_wrap : forall A (p : prog A) f (Q : option mem * apires -> Prop),
  (forall a, Q (f a)) -> leaves (wrap p f) Q.
Proof. intros A p f Q H. unfold wrap. apply leaves_bind. intro a. cbn [leaves]. apply H. Qed.

Lemma leaves_call_prog : forall att o m, leaves (call_prog att o m) (Lf o m).
Proof.
  intros att o m.
  destruct o; destruct m as [mm|]; cbn [call_prog];
    try (cbn [leaves]; unfold Lf; cbn [fst snd]; auto; fail);
    try (apply leaves_wrap; intros a; unfold Lf; cbn [fst snd]; auto; fail).
  - apply leaves_wrap. intros [m1|]; unfold Lf; cbn [fst snd]; auto.
  - apply leaves_wrap. intros [m1|]; unfold Lf; cbn [fst snd]; auto.
  - destruct mm; [cbn [leaves]; exact I|]. apply leaves_wrap. intros a. exact I.
  - destruct (Nat.ltb last (length mm) && Nat.leb first last); [|cbn [leaves]; exact I].
    apply leaves_wrap. intros a. exact I.
  - destruct mm; [cbn [leaves]; exact I|]. apply leaves_wrap. intros a. exact I.
Qed.

Definition onames (m : option mem) : option (list nat) :=
  match m with Some mm => Some (mnames mm) | None => None end.

Lemma heldf_fin_other : forall i h o m r mems, i <> h -> heldf i (mems_fin h o m r mems) = heldf i mems.
Proof.
  intros i h o m r mems Hne. unfold mems_fin.
  assert (E : heldf i (match o, r with AClose, _ => drop h mems | AOpen, RErr => drop h mems | _, _ => mems end)
              = heldf i mems).
  { destruct o; try reflexivity; [destruct r; try reflexivity|]; apply heldf_drop_other; exact Hne. }
  destruct m; [rewrite heldf_upd_other by exact Hne|]; exact E.
Qed.

Lemma heldf_fin_same : forall h o m0 m r mems,
  heldf h mems = onames m0 -> Lf o m0 (m, r) -> heldf h (mems_fin h o m r mems) = onames m.
Proof.
  intros h o m0 m r mems H0 HL. unfold mems_fin. destruct m as [mm|]; [apply heldf_upd_same|].
  unfold Lf in HL. cbn [fst snd onames] in *. destruct HL as [ -> | [ [ -> -> ] | -> ] ].
  - apply heldf_drop_same.
  - apply heldf_drop_same.
  - cbn [onames] in H0. destruct o; try exact H0; [destruct r; try exact H0|]; apply heldf_drop_same.
Qed.

(* ------------------------------------------------------------------ *)
(* 4. the run invariant: the oracle remembers the names of the stack   *)
(*    each handle holds                                                *)
(* ------------------------------------------------------------------ *)

Definition hJ (mems : list (nat * list nat)) (i : nat) (hd : handle) : Prop :=
  heldf i mems = onames (h_mem hd) /\
  match h_pc hd with
  | HRun o p => leaves p (Lf o (h_mem hd))
  | _ => True
  end.

Definition J (w : world) (mems : list (nat * list nat)) : Prop :=
  forall i hd, nth_error (w_handles w) i = Some hd -> hJ mems i hd.

Lemma hJ_other : forall mems mems' i hd, heldf i mems' = heldf i mems -> hJ mems i hd -> hJ mems' i hd.
Proof. intros mems mems' i hd E H. unfold hJ in *. rewrite E. exact H. Qed.

Lemma J_set : forall s' hs h x mems',
  (forall i hd, i <> h -> nth_error hs i = Some hd -> hJ mems' i hd) -> hJ mems' h x ->
  J {| w_fs := s'; w_handles := set_handle h x hs |} mems'.
Proof.
  intros s' hs h x mems' Ho Hx i hd E. cbn [w_handles] in E. destruct (Nat.eq_dec i h) as [->|Hne].
  - apply nth_set_eq in E. subst. exact Hx.
  - rewrite nth_set_neq in E by exact Hne. apply Ho; assumption.
Qed.

Section Run.
Variable cmp : snapshot -> snapshot -> bool.
Variable P : snapshot -> list nat -> bool.

Lemma step_J : forall so att w h c w' e1 mems,
  J w mems -> step so att w h c = (w', e1) ->
  exists mems', J w' mems' /\
    (((forall rest, c09g_loop cmp (snapshot_of (w_fs w)) mems (e1 ++ rest) = c09g_loop cmp (snapshot_of (w_fs w')) mems' rest) /\
      (forall rest, c09_pre P (snapshot_of (w_fs w)) mems (e1 ++ rest) = c09_pre P (snapshot_of (w_fs w')) mems' rest))
     \/ (exists tx auto mm hd', e1 = [ECall h (AAdd tx auto)] /\ mems' = mems /\ w_fs w' = w_fs w /\
           nth_error (w_handles w') h = Some hd' /\
           h_pc hd' = HRun (AAdd tx auto) (call_prog att (AAdd tx auto) (Some mm)) /\
           heldf h mems = Some (mnames mm))).
Proof.
  intros so att w h c w' e1 mems HJ H. unfold step in H.
  match goal with |- ?G => assert (Hnop : (w', e1) = (w, []) -> G) end.
  { intro E. inversion E; subst. exists mems. split; [exact HJ|]. left. split; reflexivity. }
  destruct (nth_error (w_handles w) h) as [hd|] eqn:En; [|apply Hnop; congruence].
  pose proof (HJ h hd En) as [Hheld Hh].
  assert (Hoth : forall o m r i hd0, i <> h -> nth_error (w_handles w) i = Some hd0 -> hJ (mems_fin h o m r mems) i hd0).
  { intros o m r i hd0 Hne E. eapply hJ_other; [apply heldf_fin_other; exact Hne|]. apply HJ. exact E. }
  assert (Hfin : forall o m r script, Lf o (h_mem hd) (m, r) ->
            hJ (mems_fin h o m r mems) h {| h_mem := m; h_pc := HIdle; h_script := script |}).
  { intros o m r script HL. split; [|exact I]. cbn [h_mem]. eapply heldf_fin_same; eauto. }
  destruct (h_pc hd) as [|o p|] eqn:Epc; [| |apply Hnop; congruence].
  - (* a call starts *)
    destruct (h_script hd) as [|o rest] eqn:Es; [apply Hnop; congruence|].
    pose proof (leaves_call_prog att o (h_mem hd)) as HL.
    destruct (call_prog att o (h_mem hd)) as [[m r]|q k] eqn:Ecp.
    + inversion H; subst w' e1. clear H. cbn [leaves] in HL.
      exists (mems_fin h o m r mems). split.
      * apply J_set; [intros; apply Hoth; assumption|]. apply Hfin. exact HL.
      * left. cbn [w_fs].
        assert (Hc : forall t, c09g_loop cmp (snapshot_of (w_fs w)) mems (ECall h o :: t) = c09g_loop cmp (snapshot_of (w_fs w)) mems t /\
                               c09_pre P (snapshot_of (w_fs w)) mems (ECall h o :: t) = c09_pre P (snapshot_of (w_fs w)) mems t).
        { intro t. destruct o; try (split; reflexivity).
          (* an Add that returns at once: the handle has no stack and the oracle holds nothing for it *)
          rewrite c09_call, c09_pre_call.
          destruct (h_mem hd) as [mm|] eqn:Em; [cbn [call_prog] in Ecp; discriminate Ecp|].
          cbn [onames] in Hheld. rewrite Hheld. split; reflexivity. }
        split; intro rest0; cbn [app]; [rewrite (proj1 (Hc _))|rewrite (proj2 (Hc _))]; apply (c09_finish cmp P).
    + inversion H; subst w' e1. clear H.
      exists mems. split.
      * apply J_set; [intros i hd0 Hne E; apply HJ; exact E|].
        split; [exact Hheld|]. cbn [h_pc h_mem]. exact HL.
      * destruct o; try (left; split; intro rest0; reflexivity).
        right. destruct (h_mem hd) as [mm|] eqn:Em; [|cbn [call_prog] in Ecp; discriminate Ecp].
        exists tx, auto, mm, {| h_mem := Some mm; h_pc := HRun (AAdd tx auto) (Op q k); h_script := rest |}.
        split; [reflexivity|]. split; [reflexivity|]. split; [reflexivity|].
        split; [cbn [w_handles]; eapply nth_set_same; exact En|].
        split; [cbn [h_pc]; rewrite Ecp; reflexivity|exact Hheld].
  - (* inside a call *)
    destruct p as [[m r]|q k].
    + inversion H; subst w' e1. clear H. cbn [leaves] in Hh.
      exists (mems_fin h o m r mems). split.
      * apply J_set; [intros; apply Hoth; assumption|]. apply Hfin. exact Hh.
      * left. cbn [w_fs]. split; intro rest0; apply (c09_finish cmp P).
    + destruct (apply_req so c h q (w_fs w)) as [[s' rs] fe] eqn:Ea.
      cbn [leaves] in Hh. specialize (Hh rs).
      destruct (k rs) as [[m r]|q' k'] eqn:Ek.
      * inversion H; subst w' e1. clear H. cbn [leaves] in Hh.
        exists (mems_fin h o m r mems). split.
        -- apply J_set; [intros; apply Hoth; assumption|]. apply Hfin. exact Hh.
        -- left. cbn [w_fs]. split; intro rest0; cbn [app].
           ++ rewrite (proj1 (c09_req cmp P _ _ _ _ _ _ _ _)). apply (c09_finish cmp P).
           ++ rewrite (proj2 (c09_req cmp P _ _ _ _ _ _ _ _)). apply (c09_finish cmp P).
      * inversion H; subst w' e1. clear H.
        exists mems. split.
        -- apply J_set; [intros i hd0 Hne E; apply HJ; exact E|].
           split; [exact Hheld|]. cbn [h_pc h_mem]. exact Hh.
        -- left. cbn [w_fs]. split; intro rest0; cbn [app]; apply (c09_req cmp P).
Qed.

(* what section 5 proves of an undisturbed Add that starts when [P] holds *)
Definition clause_spec : Prop := forall so a sched γ st w w' evs h hd tx auto mm,
  WInv γ w st -> run so (S a) w sched = (w', evs) ->
  nth_error (w_handles w) h = Some hd ->
  h_pc hd = HRun (AAdd tx auto) (call_prog (S a) (AAdd tx auto) (Some mm)) ->
  P (snapshot_of (w_fs w)) (mnames mm) = true ->
  c09_clause cmp h (snapshot_of (w_fs w)) (Some (mnames mm)) evs = true.

Lemma run_c09 : clause_spec -> forall so a sched γ st w mems w' evs,
  WInv γ w st -> J w mems -> run so (S a) w sched = (w', evs) ->
  c09_pre P (snapshot_of (w_fs w)) mems evs = true ->
  c09g_loop cmp (snapshot_of (w_fs w)) mems evs = true.
Proof.
  intros Hclause so a. induction sched as [|[h c|h] sched IH]; intros γ st w mems w' evs HW HJ H Hpre; cbn [run] in H.
  - inversion H; subst. reflexivity.
  - destruct (step so (S a) w h c) as [w1 e1] eqn:E1.
    destruct (run so (S a) w1 sched) as [w2 e2] eqn:E2. inversion H; subst w' evs. clear H.
    destruct (@step_inv so (S a) γ w st h c w1 e1 HW E1) as (γ' & st' & HW' & _).
    destruct (step_J _ _ _ _ _ _ _ _ HJ E1) as (mems' & HJ' & [[C1 C2]|X]).
    + rewrite C1. rewrite C2 in Hpre. eapply IH; eauto.
    + destruct X as (tx & auto & mm & hd' & -> & -> & Efs & En & Epc & Hheld).
      cbn [app] in *. rewrite c09_call. rewrite c09_pre_call in Hpre.
      apply andb_true_iff in Hpre as [Hg Hpre]. rewrite Hheld in *. rewrite <- Efs in *.
      apply andb_true_iff. split.
      * eapply Hclause; eauto.
      * eapply IH; eauto.
  - destruct (crash w h) as [w1 e1] eqn:E1.
    destruct (run so (S a) w1 sched) as [w2 e2] eqn:E2. inversion H; subst w' evs. clear H.
    destruct (@crash_inv γ w st h w1 e1 HW E1) as (HW' & _).
    unfold crash in E1. destruct (nth_error (w_handles w) h) as [hd|] eqn:En.
    + inversion E1; subst w1 e1. cbn [app c09g_loop c09_pre w_fs] in *.
      apply (IH γ st _ mems w2 e2 HW'); [|exact E2|exact Hpre].
      apply J_set; [intros i hd0 _ E; apply HJ; exact E|].
      split; [cbn [h_mem]; apply (HJ h hd En)|exact I].
    + inversion E1; subst w1 e1. cbn [app] in *. eapply IH; eauto.
Qed.

Lemma J_init : forall tabs scripts, J (init_world tabs scripts) [].
Proof.
  intros tabs scripts i hd En. cbn [init_world w_handles] in En. apply nth_error_In in En.
  apply in_map_iff in En as [s [<- Hin]]. split; [reflexivity|exact I].
Qed.

End Run.

(* ------------------------------------------------------------------ *)
(* 5. the clause of the oracle for an undisturbed Add; the theorems    *)
(* ------------------------------------------------------------------ *)

Lemma snap_eqb_refl : forall a, snap_eqb a a = true.
Proof.
  intro a. unfold snap_eqb. apply andb_true_iff. split; [apply andb_true_iff; split|].
  - destruct (sn_list a); [apply list_nat_eqb_refl|reflexivity].
  - apply Nat.eqb_refl.
  - apply forallb_forall. intros p Hp. apply existsb_path. exact Hp.
Qed.

Lemma pt_in_files : forall s n f, lookup n (f_tabs s) = Some f ->
  existsb (path_eqb (PT n)) (sn_files (snapshot_of s)) = true.
Proof.
  intros s n f H. apply existsb_path. cbn [snapshot_of sn_files].
  apply in_or_app. right. apply in_or_app. right. apply in_or_app. left.
  apply lookup_In in H. apply in_map_iff. exists (n, f). split; [reflexivity|exact H].
Qed.

Lemma pll_in_files : forall s c, f_lock s = Some c ->
  existsb (path_eqb PLL) (sn_files (snapshot_of s)) = true.
Proof.
  intros s c H. apply existsb_path. cbn [snapshot_of sn_files]. rewrite H.
  apply in_or_app. right. left. reflexivity.
Qed.

Lemma in_mid : forall (a b c c' d : list path) p,
  In p (a ++ b ++ c ++ d) -> In p c \/ In p (a ++ b ++ c' ++ d).
Proof.
  intros a b c c' d p H.
  apply in_app_or in H as [H|H]; [right; apply in_or_app; left; exact H|].
  apply in_app_or in H as [H|H]; [right; apply in_or_app; right; apply in_or_app; left; exact H|].
  apply in_app_or in H as [H|H]; [left; exact H|].
  right. apply in_or_app. right. apply in_or_app. right. apply in_or_app. right. exact H.
Qed.

Lemma snap_gc_of : forall s s', gc_ok s s' -> snap_gc (snapshot_of s') (snapshot_of s) = true.
Proof.
  intros s s' (A & B & C & D & E & F). unfold snap_gc.
  change (listed (snapshot_of s)) with (listed_fs s).
  cbn [snapshot_of sn_list sn_files]. rewrite A, B, C, D.
  apply andb_true_iff. split; [apply andb_true_iff; split|].
  - destruct (f_list s); [apply list_nat_eqb_refl|reflexivity].
  - apply forallb_forall. intros p Hp. apply existsb_path.
    apply (in_mid _ _ _ (map (fun x => PT (fst x)) (f_tabs s))) in Hp as [Hp|Hp]; [|exact Hp].
    apply in_or_app. right. apply in_or_app. right. apply in_or_app. left.
    apply in_map_iff in Hp as [x [<- Hx]]. apply in_map_iff. exists x. split; [reflexivity|apply E; exact Hx].
  - apply forallb_forall. intros p Hp.
    apply (in_mid _ _ _ (map (fun x => PT (fst x)) (f_tabs s'))) in Hp as [Hp|Hp].
    + apply in_map_iff in Hp as [x [<- Hx]]. destruct (F x Hx) as [Y|Y].
      * apply orb_true_iff. left. apply existsb_path.
        apply in_or_app. right. apply in_or_app. right. apply in_or_app. left.
        apply in_map_iff. exists x. split; [reflexivity|exact Y].
      * apply orb_true_iff. right. apply negb_true_iff. apply mem_nat_false. exact Y.
    + apply orb_true_iff. left. apply existsb_path. exact Hp.
Qed.

(* the strict reading, when the handle's unlisted tables are already unlinked *)
Lemma clause_holds : clause_spec snap_eqb held_gone.
Proof.
  intros so a sched γ st w w' evs h hd tx auto mm (HG & _) Hrun En Epc Hgone.
  unfold c09_clause. destruct (alone_until_ret h evs []) as [[[E r] rest]|] eqn:Hal; [|reflexivity].
  destruct (alone_run _ _ _ _ _ _ _ _ _ _ _ _ _ _ Hrun En Epc Hal) as (E0 & m & s' & rest' & Hs & -> & ->).
  cbn [rev app]. pose proof (last_snap_sexec _ _ _ _ _ _ _ _ Hs) as Hlast.
  cbn [call_prog] in Hs. unfold wrap in Hs.
  apply sexec_bind in Hs as ([m1 r1] & s1 & E1 & E2 & H1 & H2 & _).
  cbn [sexec fst snd] in H2. destruct H2 as (_ & Em & ->). inversion Em; subst m r. clear Em.
  set (s := w_fs w) in *. change (listed (snapshot_of s)) with (listed_fs s).
  destruct (list_nat_eqb (mnames mm) (listed_fs s)) eqn:Eq; cbn [negb].
  - (* up to date *)
    destruct (existsb (path_eqb PLL) (sn_files (snapshot_of s))) eqn:Ep; [reflexivity|].
    assert (El : f_lock s = None).
    { destruct (f_lock s) as [c|] eqn:El; [|reflexivity]. rewrite (pll_in_files s c El) in Ep. discriminate. }
    apply list_nat_eqb_eq in Eq.
    rewrite (exec_add_fresh _ _ _ _ _ _ _ _ _ _ _ El Eq H1). reflexivity.
  - (* stale *)
    assert (Hold : forall n, In n (mnames mm) -> In n (listed_fs s) \/ lookup n (f_tabs s) = None).
    { intros n Hn. unfold held_gone in Hgone. rewrite forallb_forall in Hgone. specialize (Hgone n Hn).
      change (listed (snapshot_of s)) with (listed_fs s) in Hgone.
      apply orb_true_iff in Hgone as [X|X]; [left; apply mem_nat_In; exact X|].
      right. destruct (lookup n (f_tabs s)) as [f|] eqn:El; [|reflexivity].
      rewrite (pt_in_files s n f El) in X. discriminate. }
    destruct (exec_add_stale _ _ _ _ _ _ _ _ _ _ _ (g_exist HG) Hold Eq H1) as (-> & -> & Hm).
    rewrite Hlast, snap_eqb_refl. cbn [andb mem_events app]. rewrite Nat.eqb_refl, Hm. apply list_nat_eqb_refl.
Qed.

(* the gc-tolerant reading: no precondition *)
Lemma clause_holds_gc : clause_spec snap_gc (fun _ _ => true).
Proof.
  intros so a sched γ st w w' evs h hd tx auto mm (HG & _) Hrun En Epc _.
  unfold c09_clause. destruct (alone_until_ret h evs []) as [[[E r] rest]|] eqn:Hal; [|reflexivity].
  destruct (alone_run _ _ _ _ _ _ _ _ _ _ _ _ _ _ Hrun En Epc Hal) as (E0 & m & s' & rest' & Hs & -> & ->).
  cbn [rev app]. pose proof (last_snap_sexec _ _ _ _ _ _ _ _ Hs) as Hlast.
  cbn [call_prog] in Hs. unfold wrap in Hs.
  apply sexec_bind in Hs as ([m1 r1] & s1 & E1 & E2 & H1 & H2 & _).
  cbn [sexec fst snd] in H2. destruct H2 as (_ & Em & ->). inversion Em; subst m r. clear Em.
  set (s := w_fs w) in *. change (listed (snapshot_of s)) with (listed_fs s).
  destruct (list_nat_eqb (mnames mm) (listed_fs s)) eqn:Eq; cbn [negb].
  - destruct (existsb (path_eqb PLL) (sn_files (snapshot_of s))) eqn:Ep; [reflexivity|].
    assert (El : f_lock s = None).
    { destruct (f_lock s) as [c|] eqn:El; [|reflexivity]. rewrite (pll_in_files s c El) in Ep. discriminate. }
    apply list_nat_eqb_eq in Eq.
    rewrite (exec_add_fresh _ _ _ _ _ _ _ _ _ _ _ El Eq H1). reflexivity.
  - destruct (exec_add_stale_gc _ _ _ _ _ _ _ _ _ _ _ (g_exist HG) Eq H1) as (-> & Hgc & Hm).
    rewrite Hlast, (snap_gc_of _ _ Hgc). cbn [andb mem_events app]. rewrite Nat.eqb_refl, Hm. apply list_nat_eqb_refl.
Qed.

(* without any load attempt no handle ever gets a stack: the oracle has nothing to check *)
Definition no_stack (w : world) : Prop :=
  forall i hd, nth_error (w_handles w) i = Some hd -> h_mem hd = None /\ (h_pc hd = HIdle \/ h_pc hd = HDead).

Lemma call_prog_0_none : forall o, exists r, call_prog 0 o None = Ret (None, r).
Proof. destruct o; eexists; reflexivity. Qed.

Lemma run_att0 : forall cmp so sched w w' evs cur,
  no_stack w -> run so 0 w sched = (w', evs) -> c09g_loop cmp cur [] evs = true.
Proof.
  intros cmp so. induction sched as [|[h c|h] sched IH]; intros w w' evs cur HN H; cbn [run] in H.
  - inversion H; subst. reflexivity.
  - destruct (step so 0 w h c) as [w1 e1] eqn:E1.
    destruct (run so 0 w1 sched) as [w2 e2] eqn:E2. inversion H; subst w' evs. clear H.
    unfold step in E1.
    destruct (nth_error (w_handles w) h) as [hd|] eqn:En; [|inversion E1; subst; eapply IH; eauto].
    destruct (HN h hd En) as [Hm [Hpc|Hpc]]; rewrite Hpc in E1; [|inversion E1; subst; eapply IH; eauto].
    destruct (h_script hd) as [|o rest]; [inversion E1; subst; eapply IH; eauto|].
    rewrite Hm in E1. destruct (call_prog_0_none o) as [r Er]. rewrite Er in E1.
    inversion E1; subst w1 e1. clear E1. cbn [finish_events app].
    assert (El : c09g_loop cmp cur [] (ECall h o :: ERet h o r :: e2) = c09g_loop cmp cur [] e2).
    { destruct o, r; reflexivity. }
    rewrite El. eapply IH; [|exact E2].
    intros i hd' E. cbn [w_handles] in E. destruct (Nat.eq_dec i h) as [->|Hne].
    + apply nth_set_eq in E. subst hd'. cbn. auto.
    + rewrite nth_set_neq in E by exact Hne. apply HN with (i := i). exact E.
  - destruct (crash w h) as [w1 e1] eqn:E1.
    destruct (run so 0 w1 sched) as [w2 e2] eqn:E2. inversion H; subst w' evs. clear H.
    unfold crash in E1. destruct (nth_error (w_handles w) h) as [hd|] eqn:En.
    + inversion E1; subst w1 e1. cbn [app c09g_loop]. eapply IH; [|exact E2].
      intros i hd' E. cbn [w_handles] in E. destruct (Nat.eq_dec i h) as [->|Hne].
      * apply nth_set_eq in E. subst hd'. cbn. split; [apply (HN h hd En)|auto].
      * rewrite nth_set_neq in E by exact Hne. apply HN with (i := i). exact E.
    + inversion E1; subst w1 e1. cbn [app]. eapply IH; eauto.
Qed.

Lemma no_stack_init : forall tabs scripts, no_stack (init_world tabs scripts).
Proof.
  intros tabs scripts i hd En. cbn [init_world w_handles] in En. apply nth_error_In in En.
  apply in_map_iff in En as [s [<- Hin]]. cbn. auto.
Qed.

(* property C09, strict reading: for traces in which no Add starts while a table the handle
   holds is unlisted but still on disk (any attempt bound) *)
Theorem c09_all_traces_strong : forall size_oracle attempts tabs scripts sched,
  init_ok tabs ->
  c09_precond (trace_of size_oracle attempts tabs scripts sched) = true ->
  c09_ok (trace_of size_oracle attempts tabs scripts sched) = true.
Proof.
  intros so att tabs scripts sched Hi Hpre.
  unfold c09_ok, c09_precond, trace_of in *. rewrite <- c09g_strict.
  destruct (run so att (init_world tabs scripts) sched) as [w' evs] eqn:E. cbn [snd] in *.
  cbn [c09g_loop]. cbn [c09_pre] in Hpre.
  destruct att as [|a]; [exact (run_att0 snap_eqb so sched _ _ _ _ (no_stack_init tabs scripts) E)|].
  exact (run_c09 snap_eqb held_gone clause_holds so a sched _ _ (init_world tabs scripts) [] w' evs
           (@WInv_init tabs scripts Hi) (J_init tabs scripts) E Hpre).
Qed.

(* property C09, gc-tolerant reading: every trace *)
Theorem c09_gc_all_traces_strong : forall size_oracle attempts tabs scripts sched,
  init_ok tabs ->
  c09_ok_gc (trace_of size_oracle attempts tabs scripts sched) = true.
Proof.
  intros so att tabs scripts sched Hi.
  unfold c09_ok_gc, trace_of. rewrite <- c09g_gc.
  destruct (run so att (init_world tabs scripts) sched) as [w' evs] eqn:E. cbn [snd].
  cbn [c09g_loop].
  destruct att as [|a]; [exact (run_att0 snap_gc so sched _ _ _ _ (no_stack_init tabs scripts) E)|].
  exact (run_c09 snap_gc (fun _ _ => true) clause_holds_gc so a sched _ _ (init_world tabs scripts) [] w' evs
           (@WInv_init tabs scripts Hi) (J_init tabs scripts) E (c09_pre_true _ _ _)).
Qed.

(* the statements as requested (the hypothesis on the attempts is not needed any more: see above) *)
Theorem c09_all_traces : forall size_oracle attempts tabs scripts sched,
  init_ok tabs ->
  (1 <= attempts)%nat ->
  c09_precond (trace_of size_oracle attempts tabs scripts sched) = true ->
  c09_ok (trace_of size_oracle attempts tabs scripts sched) = true.
Proof. intros so att tabs scripts sched Hi _ Hpre. apply c09_all_traces_strong; assumption. Qed.

Theorem c09_gc_all_traces : forall size_oracle attempts tabs scripts sched,
  init_ok tabs ->
  (1 <= attempts)%nat ->
  c09_ok_gc (trace_of size_oracle attempts tabs scripts sched) = true.
Proof. intros so att tabs scripts sched Hi _. apply c09_gc_all_traces_strong; assumption. Qed.

Print Assumptions c09_all_traces.
Print Assumptions c09_gc_all_traces.
Print Assumptions c09_all_traces_strong.
Print Assumptions c09_gc_all_traces_strong.

(* the precondition holds whenever the directory is clean in the sense of C16
   (so, by c16_all_traces, at every crash-free instant at which no other handle
   is inside a call) *)
Lemma clean_held_gone : forall cur names, clean_dir cur = true -> held_gone cur names = true.
Proof.
  intros cur names H. unfold clean_dir in H. apply andb_true_iff in H as [H _].
  rewrite forallb_forall in H. unfold held_gone. apply forallb_forall. intros n _.
  destruct (existsb (path_eqb (PT n)) (sn_files cur)) eqn:E; [|apply orb_true_r].
  apply existsb_exists in E as (p & Hp & Ep). apply path_eqb_true in Ep. subst p.
  rewrite (H (PT n) Hp). reflexivity.
Qed.

(* ------------------------------------------------------------------ *)
(* 6. counterexamples and examples                                     *)
(* ------------------------------------------------------------------ *)

Module Counterexamples.
  Definition f0 : tfile := {| tf_min := 1; tf_max := 1; tf_txs := [7]; tf_size := 10 |}.
  Definition f1 : tfile := {| tf_min := 2; tf_max := 2; tf_txs := [8]; tf_size := 10 |}.
  Definition so (_ : nat) : N := 10%N.
  Definition steps (h n : nat) : list sched_item := repeat (Step h None) n.

  Lemma init_ok_1 : init_ok [(0, f0)].
  Proof. split; reflexivity. Qed.
  Lemma init_ok_2 : init_ok [(0, f0); (1, f1)].
  Proof. split; reflexivity. Qed.
  Lemma init_ok_0 : init_ok [].
  Proof. split; reflexivity. Qed.
  (* (c) handle 1 compacts tables 0 and 1 and is paused right after its commit,
     before it unlinks them; handle 0 (holding 0 and 1) then runs an Add alone:
     lock failure, but its reload unlinks 0.ref and 1.ref, so the directory at
     the return is not the directory at the call.  Strict reading: violated (and
     the precondition fails); gc-tolerant reading: accepted *)
  Definition scripts_c := [[AOpen; AAdd 9 false]; [AOpen; ACompactAll]].
  Definition sched_c := steps 0 4 ++ steps 1 4 ++ steps 1 11 ++ steps 0 9.
  Definition tr_c := trace_of so 2 [(0, f0); (1, f1)] scripts_c sched_c.
  Example ce_paused_compaction :
    c09_ok tr_c = false /\ c09_precond tr_c = false /\ c09_ok_gc tr_c = true.
  Proof. vm_compute. auto. Qed.

  (* (d) the same with the compactor crashed instead of paused *)
  Definition sched_d := steps 0 4 ++ steps 1 4 ++ steps 1 11 ++ [Crash 1] ++ steps 0 9.
  Definition tr_d := trace_of so 2 [(0, f0); (1, f1)] scripts_c sched_d.
  Example ce_crashed_compaction : c09_ok tr_d = false /\ c09_precond tr_d = false /\ c09_ok_gc tr_d = true.
  Proof. vm_compute. auto. Qed.

  (* the unrestricted strict statement is false *)
  Theorem c09_unrestricted_refuted :
    ~ (forall size_oracle attempts tabs scripts sched,
         init_ok tabs -> (1 <= attempts)%nat ->
         c09_ok (trace_of size_oracle attempts tabs scripts sched) = true).
  Proof.
    intro H. assert (E : c09_ok tr_c = true).
    { apply H; [apply init_ok_2|repeat constructor]. }
    destruct ce_paused_compaction as [X _]. rewrite X in E. discriminate E.
  Qed.

  (* former counterexamples that the repairs have removed: (a) attempts = 0 (an Open now fails,
     no handle ever holds a stack); (b) an Add after a Close (the oracle forgets a closed handle) *)
  Definition tr_a := trace_of so 0 [(0, f0)] [[AOpen; AAdd 5 false]] (steps 0 6).
  Example former_attempts_0 : c09_ok tr_a = true /\ c09_ok_gc tr_a = true.
  Proof. vm_compute. auto. Qed.
  Definition tr_b := trace_of so 2 [] [[AOpen; AClose; AAdd 5 false]] (steps 0 6).
  Example former_add_after_close : c09_ok tr_b = true /\ c09_ok_gc tr_b = true /\ c09_precond tr_b = true.
  Proof. vm_compute. auto. Qed.

  (* the precondition is satisfiable on a run with a stale Add, a retry and an auto-compaction *)
  Definition scripts_e := [[AOpen; AAdd 3 true; AAdd 4 true]; [AOpen; AAdd 5 true; AAdd 6 true]].
  Definition sched_e := steps 0 4 ++ steps 1 4 ++ steps 0 40 ++ steps 1 40 ++ steps 0 40 ++ steps 1 40.
  Definition tr_e := trace_of so 2 [(0, f0); (1, f1)] scripts_e sched_e.
  Example sat_example :
    c09_precond tr_e = true /\ c09_ok tr_e = true /\ c09_ok_gc tr_e = true /\
    existsb (fun e => match e with ERet 1 (AAdd 5 true) RLockFailure => true | _ => false end) tr_e = true /\
    existsb (fun e => match e with ERet 1 (AAdd 6 true) ROk => true | _ => false end) tr_e = true.
  Proof. vm_compute. auto. Qed.
End Counterexamples.
