(* Property C09 "a stale handle can never commit; it is refreshed and its retry
   succeeds" for the schedules of the stack protocol model (Model/StackProto.v).

   The statement "c09_ok holds of every trace" is FALSE in the model; the
   counterexamples are at the end of this file (checked by vm_compute):
     - attempts = 0: reload gives up at once, the stale handle is not refreshed;
     - an Add on a handle after its Close (without a new Open) returns RNoStack
       while the oracle still remembers what the handle held before the Close;
     - a compaction paused (or crashed) between its commit and the unlinking of
       its inputs: the stale handle's reload unlinks those files itself, so the
       directory is not what it was at the call.
   The theorem proved here has the three hypotheses that exclude exactly these:
   [1 <= attempts], [reopen_before_add] on the scripts, and the trace
   precondition [c09_precond]: at the call of an Add none of the tables the
   handle holds is both dropped from tables.list and still on disk.

   Structure: 1. sequential execution [sexec] of a program against [apply_req];
   an undisturbed call in a trace is such an execution ([alone_run]).
   2. symbolic execution of [add] in the stale and in the up-to-date case.
   3. the handle state the oracle tracks; the run invariant; the theorem. *)
From Coq Require Import List NArith Arith Bool Lia.
From RT Require Import Model.StackTrace Model.Segments Model.StackProto.
From RT Require Import Proofs.LockProofs Proofs.StackInvProofs Proofs.ResidueProofs.
Import ListNotations.
Local Open Scope nat_scope.

(* ------------------------------------------------------------------ *)
(* 1. sequential execution                                             *)
(* ------------------------------------------------------------------ *)

Fixpoint sexec {A} (so : nat -> N) (h : nat) (p : prog A) (s : fs) (E : list event) (a : A) (s'' : fs) : Prop :=
  match p with
  | Ret a0 => E = [] /\ a = a0 /\ s'' = s
  | Op q k => exists c s' rs fe E', apply_req so c h q s = (s', rs, fe) /\
                E = req_event h q rs fe :: ESnap (snapshot_of s') :: E' /\ sexec so h (k rs) s' E' a s''
  end.

Lemma sexec_bind : forall A B so h (p : prog A) (f : A -> prog B) s E b s'',
  sexec so h (pbind p f) s E b s'' ->
  exists a s' E1 E2, sexec so h p s E1 a s' /\ sexec so h (f a) s' E2 b s'' /\ E = E1 ++ E2.
Proof.
  induction p as [a|q k IH]; intros f s E b s'' H; cbn [pbind sexec] in *.
  - exists a, s, [], E. split; [auto|]. split; [exact H|reflexivity].
  - destruct H as (c & s' & rs & fe & E' & Hap & -> & H).
    destruct (IH rs f s' E' b s'' H) as (a & s1 & E1 & E2 & H1 & H2 & ->).
    exists a, s1, (req_event h q rs fe :: ESnap (snapshot_of s') :: E1), E2.
    split; [|split; [exact H2|reflexivity]].
    exists c, s', rs, fe, E1. auto.
Qed.

Fixpoint leaves {A} (p : prog A) (P : A -> Prop) : Prop :=
  match p with Ret a => P a | Op q k => forall rs, leaves (k rs) P end.

Lemma leaves_bind : forall A B (p : prog A) (f : A -> prog B) P,
  (forall a, leaves (f a) P) -> leaves (pbind p f) P.
Proof.
  induction p as [a|q k IH]; intros f P H; cbn [pbind leaves]; [apply H|]. intro rs. apply IH. exact H.
Qed.

Lemma leaves_sexec : forall A so h (p : prog A) P s E a s', leaves p P -> sexec so h p s E a s' -> P a.
Proof.
  induction p as [a0|q k IH]; intros P s E a s' HL H; cbn [leaves sexec] in *.
  - destruct H as (_ & -> & _). exact HL.
  - destruct H as (c & s1 & rs & fe & E' & _ & _ & H). eapply IH; [apply HL|exact H].
Qed.

Lemma req_not_snap : forall h q rs fe (x : snapshot),
  match req_event h q rs fe with ESnap y => y | _ => x end = x.
Proof. intros. destruct q; reflexivity. Qed.

Lemma last_snap_sexec : forall A so h (p : prog A) s E a s',
  sexec so h p s E a s' -> last_snap E (snapshot_of s) = snapshot_of s'.
Proof.
  induction p as [a0|q k IH]; intros s E a s' H; cbn [sexec] in H.
  - destruct H as (-> & _ & ->). reflexivity.
  - destruct H as (c & s1 & rs & fe & E' & _ & -> & H).
    rewrite <- (IH rs s1 E' a s' H). unfold last_snap. destruct q; reflexivity.
Qed.

(* an undisturbed call in the trace of a run is a sequential execution *)
Lemma alone_req : forall h h' q rs fe t acc,
  alone_until_ret h (req_event h' q rs fe :: t) acc =
  if Nat.eqb h h' then alone_until_ret h t (req_event h' q rs fe :: acc) else None.
Proof. intros. destruct q; reflexivity. Qed.

Definition mem_events (h : nat) (m : option mem) : list event :=
  match m with Some mm => [EMem h (mnames mm) 0] | None => [] end.

Lemma step_other : forall so att w h' c w1 e1 h,
  step so att w h' c = (w1, e1) -> h' <> h ->
  (e1 = [] /\ w1 = w) \/ (forall rest acc, alone_until_ret h (e1 ++ rest) acc = None).
Proof.
  intros so att w h' c w1 e1 h H Hne. unfold step in H.
  assert (Hn : Nat.eqb h h' = false) by (apply Nat.eqb_neq; congruence).
  destruct (nth_error (w_handles w) h') as [hd|]; [|inversion H; auto].
  destruct (h_pc hd) as [|o p|].
  - destruct (h_script hd) as [|o rest]; [inversion H; auto|].
    destruct (call_prog att o (h_mem hd)) as [[m r]|q k]; inversion H; subst; right; intros; reflexivity.
  - destruct p as [[m r]|q k].
    + inversion H; subst. right. intros. unfold finish_events. cbn [app alone_until_ret]. rewrite Hn. reflexivity.
    + destruct (apply_req so c h' q (w_fs w)) as [[s' rs] fe].
      destruct (k rs) as [[m r]|q' k']; inversion H; subst; right; intros; cbn [app]; rewrite alone_req, Hn; reflexivity.
  - inversion H; auto.
Qed.

Lemma alone_run : forall so att sched w w' evs h hd o p acc evs1 r rest,
  run so att w sched = (w', evs) -> nth_error (w_handles w) h = Some hd -> h_pc hd = HRun o p ->
  alone_until_ret h evs acc = Some (evs1, r, rest) ->
  exists E m s' rest', sexec so h p (w_fs w) E (m, r) s' /\ evs1 = rev acc ++ E /\
                       rest = mem_events h m ++ rest'.
Proof.
  intros so att. induction sched as [|[h' c|h'] sched IH]; intros w w' evs h hd o p acc evs1 r rest Hrun En Epc Hal;
    cbn [run] in Hrun.
  - inversion Hrun; subst. discriminate Hal.
  - destruct (step so att w h' c) as [w1 e1] eqn:E1.
    destruct (run so att w1 sched) as [w2 e2] eqn:E2. inversion Hrun; subst w' evs. clear Hrun.
    destruct (Nat.eq_dec h' h) as [->|Hne].
    + unfold step in E1. rewrite En, Epc in E1.
      destruct p as [[m r0]|q k].
      * inversion E1; subst w1 e1. clear E1. unfold finish_events in Hal. cbn [app alone_until_ret] in Hal.
        rewrite Nat.eqb_refl in Hal. inversion Hal; subst.
        exists [], m, (w_fs w), e2. cbn [sexec]. rewrite app_nil_r. auto.
      * destruct (apply_req so c h q (w_fs w)) as [[s' rs] fe] eqn:Ea.
        destruct (k rs) as [[m r0]|q' k'] eqn:Ek; inversion E1; subst w1 e1; clear E1.
        -- cbn [app] in Hal. rewrite alone_req, Nat.eqb_refl in Hal. unfold finish_events in Hal.
           cbn [app alone_until_ret] in Hal. rewrite Nat.eqb_refl in Hal. inversion Hal; subst.
           exists [req_event h q rs fe; ESnap (snapshot_of s')], m, s', e2.
           split; [|split; [cbn [rev]; rewrite <- !app_assoc; reflexivity|reflexivity]].
           cbn [sexec]. exists c, s', rs, fe, []. split; [exact Ea|]. split; [reflexivity|].
           rewrite Ek. cbn [sexec]. auto.
        -- cbn [app] in Hal. rewrite alone_req, Nat.eqb_refl in Hal. cbn [alone_until_ret] in Hal.
           set (x := {| h_mem := h_mem hd; h_pc := HRun o (Op q' k'); h_script := h_script hd |}) in *.
           destruct (IH _ _ _ h x o (Op q' k') _ _ _ _ E2 (nth_set_same _ _ x _ En) eq_refl Hal)
             as (E & m & s'' & rest' & Hs & -> & ->).
           cbn [w_fs] in Hs.
           exists (req_event h q rs fe :: ESnap (snapshot_of s') :: E), m, s'', rest'.
           split; [|split; [cbn [rev]; rewrite <- !app_assoc; reflexivity|reflexivity]].
           cbn [sexec]. exists c, s', rs, fe, E. split; [exact Ea|]. split; [reflexivity|].
           rewrite Ek. exact Hs.
    + destruct (step_other _ _ _ _ _ _ _ h E1 Hne) as [[-> ->]|Hno].
      * cbn [app] in Hal. eapply IH; eauto.
      * rewrite Hno in Hal. discriminate Hal.
  - destruct (crash w h') as [w1 e1] eqn:E1.
    destruct (run so att w1 sched) as [w2 e2] eqn:E2. inversion Hrun; subst w' evs. clear Hrun.
    unfold crash in E1. destruct (nth_error (w_handles w) h') as [hd'|].
    + inversion E1; subst. discriminate Hal.
    + inversion E1; subst. cbn [app] in Hal. eapply IH; eauto.
Qed.

(* ------------------------------------------------------------------ *)
(* 2. symbolic execution of reload and add                             *)
(* ------------------------------------------------------------------ *)

Lemma exec_open_all : forall so h old names acc s E o s',
  (forall n, In n names -> lookup n (f_tabs s) <> None) ->
  sexec so h (open_all true old names acc) s E o s' ->
  s' = s /\ exists m, o = Some m /\ mnames m = rev (mnames acc) ++ names.
Proof.
  intros so h old. induction names as [|n t IH]; intros acc s E o s' Hex H; cbn [open_all] in H.
  - cbn [sexec] in H. destruct H as (_ & -> & ->). split; [reflexivity|].
    exists (rev acc). split; [reflexivity|]. unfold mnames. rewrite map_rev, app_nil_r. reflexivity.
  - assert (Ht : forall x, In x t -> lookup x (f_tabs s) <> None) by (intros x Hx; apply Hex; right; exact Hx).
    assert (Hfin : forall f m, mnames m = rev (mnames ((n, f) :: acc)) ++ t -> mnames m = rev (mnames acc) ++ n :: t).
    { intros f m ->. cbn [mnames map fst rev]. rewrite <- app_assoc. reflexivity. }
    destruct (lookup n old) as [f|].
    + destruct (IH _ _ _ _ _ Ht H) as (-> & m & -> & Hm). split; [reflexivity|]. exists m. split; [reflexivity|].
      eapply Hfin; eauto.
    + cbn [pbind op sexec] in H. destruct H as (c & s1 & rs & fe & E' & Hap & _ & H).
      cbn [apply_req] in Hap. destruct (lookup n (f_tabs s)) as [f|] eqn:El.
      * inversion Hap; subst. destruct (IH _ _ _ _ _ Ht H) as (-> & m & -> & Hm). split; [reflexivity|].
        exists m. split; [reflexivity|]. eapply Hfin; eauto.
      * exfalso. apply (Hex n); [left; reflexivity|exact El].
Qed.

Lemma exec_remove_any : forall so h fuel cands s E u s',
  (forall n, In n cands -> lookup n (f_tabs s) = None) ->
  sexec so h (remove_any fuel cands) s E u s' -> s' = s.
Proof.
  intros so h. induction fuel as [|f IH]; intros cands s E u s' Hno H.
  - destruct cands; cbn in H; apply H.
  - destruct cands as [|c0 cs]; [cbn in H; apply H|].
    cbn [remove_any pbind op sexec] in H. destruct H as (c & s1 & rs & fe & E' & Hap & _ & H).
    cbn [apply_req] in Hap.
    match type of Hap with context [lookup ?x (f_tabs s)] => set (n := x) in * end.
    assert (Hn : In n (c0 :: cs)).
    { unfold n. destruct c as [c1|]; [|left; reflexivity].
      destruct (mem_nat c1 (c0 :: cs)) eqn:Em; [apply mem_nat_In; exact Em|left; reflexivity]. }
    rewrite (Hno n Hn) in Hap. inversion Hap; subst. eapply IH; [|exact H].
    intros x Hx. apply filter_In in Hx as [Hx _]. apply Hno. exact Hx.
Qed.

Lemma lnames_list : forall s, match SNames (f_list s) with SNames (Some l) => l | _ => [] end = listed_fs s.
Proof. intro s. unfold listed_fs. destruct (f_list s); reflexivity. Qed.

Lemma exec_reload : forall so h a old s E m st s',
  (forall n, In n (listed_fs s) -> lookup n (f_tabs s) <> None) ->
  (forall n, In n (mnames old) -> In n (listed_fs s) \/ lookup n (f_tabs s) = None) ->
  sexec so h (reload (S a) true old) s E (m, st) s' -> s' = s /\ mnames m = listed_fs s.
Proof.
  intros so h a old s E m st s' Hex Hold H.
  cbn [reload pbind op sexec] in H. destruct H as (c & s1 & rs & fe & E' & Hap & _ & H).
  cbn [apply_req] in Hap. inversion Hap; subst s1 rs fe. clear Hap.
  rewrite lnames_list in H.
  apply sexec_bind in H as (o & s2 & E1 & E2 & H1 & H2 & _).
  destruct (exec_open_all _ _ _ _ _ _ _ _ _ Hex H1) as (-> & m' & -> & Hm'). cbn [mnames map rev app] in Hm'.
  apply sexec_bind in H2 as (u & s3 & E3 & E4 & H3 & H4 & _).
  apply exec_remove_any in H3.
  - subst s3. cbn [sexec] in H4. destruct H4 as (_ & E4' & ->). inversion E4'; subst. auto.
  - intros n Hn. apply filter_In in Hn as [Hn1 Hn2]. apply negb_true_iff in Hn2. apply mem_nat_false in Hn2.
    destruct (Hold n Hn1); [contradiction|assumption].
Qed.

Lemma fs_unlock_eq : forall s, f_lock s = None ->
  {| f_list := f_list s; f_lock := None; f_tabs := f_tabs s; f_tlocks := f_tlocks s;
     f_tmps := f_tmps s; f_next_tab := f_next_tab s; f_next_tmp := f_next_tmp s |} = s.
Proof. intros s H. destruct s; cbn in *; subst; reflexivity. Qed.

(* a stale handle: lock failure, the directory is what it was, the handle holds the current list *)
Lemma exec_add_stale : forall so h a tx auto mm s E m r s',
  (forall n, In n (listed_fs s) -> lookup n (f_tabs s) <> None) ->
  (forall n, In n (mnames mm) -> In n (listed_fs s) \/ lookup n (f_tabs s) = None) ->
  list_nat_eqb (mnames mm) (listed_fs s) = false ->
  sexec so h (add (S a) (KAdd tx) auto mm) s E (m, r) s' ->
  r = RLockFailure /\ s' = s /\ mnames m = listed_fs s.
Proof.
  intros so h a tx auto mm s E m r s' Hex Hold Hst H.
  assert (Hfail : forall E0 s0, s0 = s ->
            sexec so h (do! rl := reload (S a) true mm in Ret (fst rl, RLockFailure)) s0 E0 (m, r) s' ->
            r = RLockFailure /\ s' = s /\ mnames m = listed_fs s).
  { intros E0 s0 -> H0. apply sexec_bind in H0 as ([m1 st] & s1 & E1 & E2 & H1 & H2 & _).
    destruct (exec_reload _ _ _ _ _ _ _ _ _ Hex Hold H1) as [-> Hm].
    cbn [sexec fst] in H2. destruct H2 as (_ & E2' & ->). inversion E2'; subst. auto. }
  unfold add in H. cbn [pbind op sexec] in H. destruct H as (c & s1 & rs & fe & E' & Hap & _ & H).
  cbn [apply_req] in Hap. destruct (f_lock s) as [o|] eqn:El; inversion Hap; subst s1 rs fe; clear Hap.
  - eapply Hfail; [reflexivity|exact H].
  - cbn [pbind op sexec] in H. destruct H as (c1 & s2 & rs & fe & E2 & Hap & _ & H).
    cbn [apply_req f_list] in Hap. inversion Hap; subst s2 rs fe. clear Hap.
    rewrite lnames_list in H.
    assert (Hneq : names_eqb (listed_fs s) (mnames mm) = false).
    { unfold names_eqb. destruct (list_nat_eqb (listed_fs s) (mnames mm)) eqn:X; [|reflexivity].
      apply list_nat_eqb_eq in X. rewrite X, list_nat_eqb_refl in Hst. discriminate. }
    change (match f_list s with Some l => l | None => [] end) with (listed_fs s) in H.
    rewrite Hneq in H. cbn [negb pbind op sexec] in H.
    destruct H as (c2 & s3 & rs & fe & E3 & Hap & _ & H).
    cbn [apply_req f_lock f_list f_tabs f_tlocks f_tmps f_next_tab f_next_tmp] in Hap.
    inversion Hap; subst s3 rs fe. clear Hap.
    eapply Hfail; [|exact H]. apply fs_unlock_eq. exact El.
Qed.

(* an up-to-date handle and a free lock: the Add returns success *)
Lemma leaves_true : forall A (p : prog A), leaves p (fun _ => True).
Proof. induction p as [a|q k IH]; cbn [leaves]; auto. Qed.

Lemma exec_add_fresh : forall so h att tx auto mm s E m r s',
  f_lock s = None -> mnames mm = listed_fs s ->
  sexec so h (add att (KAdd tx) auto mm) s E (m, r) s' -> r = ROk.
Proof.
  intros so h att tx auto mm s E m r s' El Hup H.
  unfold add in H. cbn [pbind op sexec] in H. destruct H as (c & s1 & rs & fe & E' & Hap & _ & H).
  cbn [apply_req] in Hap. rewrite El in Hap. inversion Hap; subst s1 rs fe; clear Hap.
  cbn [pbind op sexec] in H. destruct H as (c1 & s2 & rs & fe & E2 & Hap & _ & H).
  cbn [apply_req f_list] in Hap. inversion Hap; subst s2 rs fe. clear Hap.
  rewrite lnames_list in H. change (match f_list s with Some l => l | None => [] end) with (listed_fs s) in H.
  rewrite <- Hup in H. unfold names_eqb in H. rewrite list_nat_eqb_refl in H. cbn [negb pbind op sexec] in H.
  destruct H as (c2 & s3 & rs & fe & E3 & Hap & _ & H).
  cbn [apply_req f_lock f_list f_tabs f_tlocks f_tmps f_next_tab f_next_tmp] in Hap.
  inversion Hap; subst s3 rs fe. clear Hap.
  cbn [pbind op sexec] in H. destruct H as (c3 & s4 & rs & fe & E4 & Hap & _ & H).
  assert (Es4 : f_tmps s4 = (f_next_tmp s, h) :: f_tmps s /\ f_next_tab s4 = f_next_tab s).
  { cbn [apply_req f_tmps] in Hap. destruct (lookup _ _); inversion Hap; subst; split; reflexivity. }
  clear Hap. destruct Es4 as [Et4 En4].
  cbn [pbind op sexec] in H. destruct H as (c4 & s5 & rs5 & fe5 & E5 & Hap & _ & H).
  cbn [apply_req] in Hap. rewrite Et4 in Hap. cbn [lookup] in Hap. rewrite Nat.eqb_refl in Hap.
  inversion Hap; subst s5 rs5 fe5. clear Hap.
  match type of H with sexec _ _ ?p _ _ _ _ =>
    assert (HL : leaves p (fun res : mem * apires => snd res = ROk)) end.
  { cbn [leaves pbind op]. intros _ _.
    apply leaves_bind. intros rl. destruct auto; [|reflexivity].
    apply leaves_bind. intros m'. reflexivity. }
  apply (leaves_sexec _ _ _ _ _ _ _ _ _ HL H).
Qed.

(* ------------------------------------------------------------------ *)
(* 3. what the oracle remembers of a handle; the hypotheses            *)
(* ------------------------------------------------------------------ *)

Inductive hst := Fresh | Opened | Closed.

Definition hnext (σ : hst) (o : apiop) : hst :=
  match o with
  | AOpen => Opened
  | AClose => match σ with Fresh => Fresh | _ => Closed end
  | _ => σ
  end.

Definition add_allowed (σ : hst) (o : apiop) : bool :=
  match o, σ with AAdd _ _, Closed => false | _, _ => true end.

Fixpoint script_ok (σ : hst) (s : list apiop) : bool :=
  match s with [] => true | o :: t => add_allowed σ o && script_ok (hnext σ o) t end.

(* hypothesis on a script: no Add on a handle that was closed and not opened again *)
Definition reopen_before_add (s : list apiop) : bool := script_ok Fresh s.

Definition heldf (h : nat) (mems : list (nat * list nat)) : option (list nat) :=
  fold_right (fun x acc => if Nat.eqb h (fst x) then Some (snd x) else acc) None mems.

Definition mems_upd (h : nat) (names : list nat) (mems : list (nat * list nat)) : list (nat * list nat) :=
  (h, names) :: filter (fun x => negb (Nat.eqb h (fst x))) mems.

(* hypothesis on the trace: at the call of an Add, none of the tables the handle
   holds is both dropped from tables.list and still on disk *)
Definition held_gone (cur : snapshot) (names : list nat) : bool :=
  forallb (fun n => mem_nat n (listed cur) || negb (existsb (path_eqb (PT n)) (sn_files cur))) names.

Fixpoint c09_pre (cur : snapshot) (mems : list (nat * list nat)) (tr : list event) : bool :=
  match tr with
  | [] => true
  | ESnap s :: t => c09_pre s mems t
  | EMem h names _ :: t => c09_pre cur (mems_upd h names mems) t
  | ECall h (AAdd _ _) :: t =>
      (match heldf h mems with Some names => held_gone cur names | None => true end) && c09_pre cur mems t
  | _ :: t => c09_pre cur mems t
  end.
Definition c09_precond (tr : list event) : bool := c09_pre snap0 [] tr.

Definition c09_clause (h : nat) (cur : snapshot) (held : option (list nat)) (t : list event) : bool :=
  match held, alone_until_ret h t [] with
  | Some names, Some (evs, r, rest) =>
      if negb (list_nat_eqb names (listed cur)) then
        (match r with RLockFailure => true | _ => false end)
        && snap_eqb (last_snap evs cur) cur
        && (match rest with
            | EMem h' names' _ :: _ => Nat.eqb h h' && list_nat_eqb names' (listed cur)
            | _ => false
            end)
      else if existsb (path_eqb PLL) (sn_files cur) then true
      else (match r with ROk => true | _ => false end)
  | _, _ => true
  end.

Lemma c09_call : forall cur mems h tx auto t,
  c09_loop cur mems (ECall h (AAdd tx auto) :: t) = c09_clause h cur (heldf h mems) t && c09_loop cur mems t.
Proof. reflexivity. Qed.

Lemma c09_pre_call : forall cur mems h tx auto t,
  c09_pre cur mems (ECall h (AAdd tx auto) :: t) =
  (match heldf h mems with Some names => held_gone cur names | None => true end) && c09_pre cur mems t.
Proof. reflexivity. Qed.

Lemma c09_call_other : forall cur mems h o t, (forall tx auto, o <> AAdd tx auto) ->
  c09_loop cur mems (ECall h o :: t) = c09_loop cur mems t /\ c09_pre cur mems (ECall h o :: t) = c09_pre cur mems t.
Proof. intros cur mems h o t H. destruct o; try (split; reflexivity). exfalso. eapply H. reflexivity. Qed.

Definition mems_fin (h : nat) (m : option mem) (mems : list (nat * list nat)) : list (nat * list nat) :=
  match m with Some mm => mems_upd h (mnames mm) mems | None => mems end.

Lemma c09_finish : forall cur mems h o m r rest,
  c09_loop cur mems (finish_events h o m r ++ rest) = c09_loop cur (mems_fin h m mems) rest /\
  c09_pre cur mems (finish_events h o m r ++ rest) = c09_pre cur (mems_fin h m mems) rest.
Proof. intros. unfold finish_events. destruct m; split; reflexivity. Qed.

Lemma c09_req : forall cur mems h q rs fe s' rest,
  c09_loop cur mems (req_event h q rs fe :: ESnap s' :: rest) = c09_loop s' mems rest /\
  c09_pre cur mems (req_event h q rs fe :: ESnap s' :: rest) = c09_pre s' mems rest.
Proof. intros. destruct q; split; reflexivity. Qed.

Lemma heldf_upd_same : forall h names mems, heldf h (mems_upd h names mems) = Some names.
Proof. intros. unfold mems_upd, heldf. cbn [fold_right fst snd]. rewrite Nat.eqb_refl. reflexivity. Qed.

Lemma heldf_upd_other : forall i h names mems, i <> h -> heldf i (mems_upd h names mems) = heldf i mems.
Proof.
  intros i h names mems Hne. unfold mems_upd, heldf. cbn [fold_right fst snd].
  destruct (Nat.eqb_spec i h); [contradiction|].
  induction mems as [|[k v] mems IH]; cbn [filter fold_right fst snd]; [reflexivity|].
  destruct (Nat.eqb_spec h k); cbn [negb fold_right fst snd].
  - subst k. destruct (Nat.eqb_spec i h); [contradiction|exact IH].
  - rewrite IH. reflexivity.
Qed.

Definition hstate_ok (σ : hst) (m : option mem) (held : option (list nat)) : Prop :=
  match σ with
  | Fresh => m = None /\ held = None
  | Opened => exists mm, m = Some mm /\ held = Some (mnames mm)
  | Closed => m = None
  end.

Definition Lf (σ : hst) (o : apiop) (res : option mem * apires) : Prop :=
  (o = AOpen /\ snd res = RErr) \/
  match hnext σ o with Opened => fst res <> None | _ => fst res = None end.

Lemma leaves_wrap : forall A (p : prog A) f (P : option mem * apires -> Prop),
  (forall a, P (f a)) -> leaves (wrap p f) P.
Proof. intros A p f P H. unfold wrap. apply leaves_bind. intro a. cbn [leaves]. apply H. Qed.

Lemma leaves_call_prog : forall att σ o m held, hstate_ok σ m held -> leaves (call_prog att o m) (Lf σ o).
Proof.
  intros att σ o m held H.
  assert (HN : m = None -> forall r, (match hnext σ o with Opened => False | _ => True end) ->
               leaves (Ret (@None mem, r)) (Lf σ o)).
  { intros _ r X. cbn [leaves]. right. cbn [fst]. destruct (hnext σ o); [reflexivity|destruct X|reflexivity]. }
  destruct o.
  - (* Open *) cbn [call_prog]. apply leaves_wrap. intros [m1 st]. cbn [fst snd]. destruct st.
    + right. cbn. discriminate.
    + left. auto.
  - destruct σ; cbn [hstate_ok] in H.
    + destruct H as [-> _]. apply HN; [reflexivity|exact I].
    + destruct H as (mm & -> & _). cbn [call_prog]. apply leaves_wrap. intros a. right. cbn. discriminate.
    + subst m. apply HN; [reflexivity|exact I].
  - destruct σ; cbn [hstate_ok] in H.
    + destruct H as [-> _]. apply HN; [reflexivity|exact I].
    + destruct H as (mm & -> & _). cbn [call_prog leaves]. right. cbn. discriminate.
    + subst m. apply HN; [reflexivity|exact I].
  - destruct σ; cbn [hstate_ok] in H.
    + destruct H as [-> _]. apply HN; [reflexivity|exact I].
    + destruct H as (mm & -> & _). cbn [call_prog]. apply leaves_wrap. intros a. right. cbn. discriminate.
    + subst m. apply HN; [reflexivity|exact I].
  - destruct σ; cbn [hstate_ok] in H.
    + destruct H as [-> _]. apply HN; [reflexivity|exact I].
    + destruct H as (mm & -> & _). cbn [call_prog]. apply leaves_wrap. intros a. right. cbn. discriminate.
    + subst m. apply HN; [reflexivity|exact I].
  - destruct σ; cbn [hstate_ok] in H.
    + destruct H as [-> _]. apply HN; [reflexivity|exact I].
    + destruct H as (mm & -> & _). cbn [call_prog]. destruct mm.
      * cbn [leaves]. right. cbn. discriminate.
      * apply leaves_wrap. intros a. right. cbn. discriminate.
    + subst m. apply HN; [reflexivity|exact I].
  - destruct σ; cbn [hstate_ok] in H.
    + destruct H as [-> _]. apply HN; [reflexivity|exact I].
    + destruct H as (mm & -> & _). cbn [call_prog]. destruct mm.
      * cbn [leaves]. right. cbn. discriminate.
      * apply leaves_wrap. intros a. right. cbn. discriminate.
    + subst m. apply HN; [reflexivity|exact I].
  - (* Close *) destruct σ; cbn [hstate_ok] in H.
    + destruct H as [-> _]. apply HN; [reflexivity|exact I].
    + destruct H as (mm & -> & _). cbn [call_prog]. apply leaves_wrap. intros a. right. reflexivity.
    + subst m. apply HN; [reflexivity|exact I].
  - destruct σ; cbn [hstate_ok] in H.
    + destruct H as [-> _]. apply HN; [reflexivity|exact I].
    + destruct H as (mm & -> & _). cbn [call_prog leaves]. right. cbn. discriminate.
    + subst m. apply HN; [reflexivity|exact I].
  - destruct σ; cbn [hstate_ok] in H.
    + destruct H as [-> _]. apply HN; [reflexivity|exact I].
    + destruct H as (mm & -> & _). cbn [call_prog leaves]. right. cbn. discriminate.
    + subst m. apply HN; [reflexivity|exact I].
Qed.

Lemma fin_state : forall σ o m0 m r h mems,
  hstate_ok σ m0 (heldf h mems) -> Lf σ o (m, r) -> ret_allowed o r = true ->
  hstate_ok (hnext σ o) m (heldf h (mems_fin h m mems)).
Proof.
  intros σ o m0 m r h mems H0 HL Hr. destruct HL as [[-> Er]|HL].
  { cbn [snd] in Er. subst r. discriminate Hr. }
  cbn [fst] in HL. destruct (hnext σ o) eqn:En; cbn [hstate_ok].
  - subst m. cbn [mems_fin]. split; [reflexivity|].
    assert (σ = Fresh) by (destruct o, σ; cbn in En; congruence). subst σ. apply H0.
  - destruct m as [mm|]; [|congruence]. exists mm. split; [reflexivity|]. cbn [mems_fin]. apply heldf_upd_same.
  - exact HL.
Qed.

(* ------------------------------------------------------------------ *)
(* 4. the run invariant                                                *)
(* ------------------------------------------------------------------ *)

Definition hJ (mems : list (nat * list nat)) (i : nat) (hd : handle) : Prop :=
  match h_pc hd with
  | HDead => True
  | HIdle => exists σ, hstate_ok σ (h_mem hd) (heldf i mems) /\ script_ok σ (h_script hd) = true
  | HRun o p => exists σ, hstate_ok σ (h_mem hd) (heldf i mems) /\
                          script_ok (hnext σ o) (h_script hd) = true /\ leaves p (Lf σ o)
  end.

Definition J (w : world) (mems : list (nat * list nat)) : Prop :=
  forall i hd, nth_error (w_handles w) i = Some hd -> hJ mems i hd.

Lemma hJ_other : forall mems mems' i hd, heldf i mems' = heldf i mems -> hJ mems i hd -> hJ mems' i hd.
Proof. intros mems mems' i hd E H. unfold hJ in *. rewrite E. exact H. Qed.

Lemma heldf_fin_other : forall i h m mems, i <> h -> heldf i (mems_fin h m mems) = heldf i mems.
Proof. intros i h m mems Hne. destruct m; cbn [mems_fin]; [apply heldf_upd_other; exact Hne|reflexivity]. Qed.

Lemma J_set : forall s' hs h x mems',
  (forall i hd, i <> h -> nth_error hs i = Some hd -> hJ mems' i hd) -> hJ mems' h x ->
  J {| w_fs := s'; w_handles := set_handle h x hs |} mems'.
Proof.
  intros s' hs h x mems' Ho Hx i hd E. cbn [w_handles] in E. destruct (Nat.eq_dec i h) as [->|Hne].
  - apply nth_set_eq in E. subst. exact Hx.
  - rewrite nth_set_neq in E by exact Hne. apply Ho; assumption.
Qed.

Lemma rets_app_l : forall a b, rets_ok (a ++ b) -> rets_ok a.
Proof. intros a b H h o r Hin. apply (H h o r). apply in_or_app. left. exact Hin. Qed.

Lemma step_J : forall so att w h c w' e1 mems,
  J w mems -> step so att w h c = (w', e1) -> rets_ok e1 ->
  exists mems', J w' mems' /\
    (((forall rest, c09_loop (snapshot_of (w_fs w)) mems (e1 ++ rest) = c09_loop (snapshot_of (w_fs w')) mems' rest) /\
      (forall rest, c09_pre (snapshot_of (w_fs w)) mems (e1 ++ rest) = c09_pre (snapshot_of (w_fs w')) mems' rest))
     \/ (exists tx auto mm hd', e1 = [ECall h (AAdd tx auto)] /\ mems' = mems /\ w_fs w' = w_fs w /\
           nth_error (w_handles w') h = Some hd' /\
           h_pc hd' = HRun (AAdd tx auto) (call_prog att (AAdd tx auto) (Some mm)) /\
           heldf h mems = Some (mnames mm))).
Proof.
  intros so att w h c w' e1 mems HJ H Hrets. unfold step in H.
  match goal with |- ?G => assert (Hnop : (w', e1) = (w, []) -> G) end.
  { intro E. inversion E; subst. exists mems. split; [exact HJ|]. left. split; reflexivity. }
  destruct (nth_error (w_handles w) h) as [hd|] eqn:En; [|apply Hnop; congruence].
  pose proof (HJ h hd En) as Hh. unfold hJ in Hh.
  assert (Hoth : forall m i hd0, i <> h -> nth_error (w_handles w) i = Some hd0 -> hJ (mems_fin h m mems) i hd0).
  { intros m i hd0 Hne E. eapply hJ_other; [apply heldf_fin_other; exact Hne|]. apply HJ. exact E. }
  destruct (h_pc hd) as [|o p|] eqn:Epc; [| |apply Hnop; congruence].
  - (* a call starts *)
    destruct Hh as (σ & Hst & Hsc).
    destruct (h_script hd) as [|o rest] eqn:Es; [apply Hnop; congruence|].
    cbn [script_ok] in Hsc. apply andb_true_iff in Hsc as [Hadd Hrest].
    pose proof (leaves_call_prog att σ o (h_mem hd) _ Hst) as HL.
    destruct (call_prog att o (h_mem hd)) as [[m r]|q k] eqn:Ecp.
    + inversion H; subst w' e1. clear H. cbn [leaves] in HL.
      assert (Hr : ret_allowed o r = true) by (apply (Hrets h o r); right; left; reflexivity).
      exists (mems_fin h m mems). split.
      * apply J_set; [intros; apply Hoth; assumption|].
        unfold hJ. cbn [h_pc h_mem h_script]. exists (hnext σ o). split; [|exact Hrest].
        eapply fin_state; eauto.
      * left. cbn [w_fs].
        assert (Hc : forall t, c09_loop (snapshot_of (w_fs w)) mems (ECall h o :: t) = c09_loop (snapshot_of (w_fs w)) mems t /\
                               c09_pre (snapshot_of (w_fs w)) mems (ECall h o :: t) = c09_pre (snapshot_of (w_fs w)) mems t).
        { intro t. destruct o; try (split; reflexivity).
          (* an Add that returns at once: the handle has no stack and the oracle holds nothing for it *)
          rewrite c09_call, c09_pre_call.
          destruct σ; cbn [hstate_ok] in Hst.
          - destruct Hst as [_ ->]. split; reflexivity.
          - destruct Hst as (mm & Em & _). rewrite Em in Ecp. cbn [call_prog] in Ecp. discriminate Ecp.
          - discriminate Hadd. }
        split; intro rest0; cbn [app]; [rewrite (proj1 (Hc _))|rewrite (proj2 (Hc _))]; apply c09_finish.
    + inversion H; subst w' e1. clear H.
      exists mems. split.
      * apply J_set; [intros i hd0 Hne E; apply HJ; exact E|].
        unfold hJ. cbn [h_pc h_mem h_script]. exists σ. auto.
      * destruct o; try (left; split; intro rest0; reflexivity).
        right. destruct σ; cbn [hstate_ok] in Hst.
        -- destruct Hst as [Em _]. rewrite Em in Ecp. discriminate Ecp.
        -- destruct Hst as (mm & Em & Hheld). exists tx, auto, mm, {| h_mem := h_mem hd; h_pc := HRun (AAdd tx auto) (Op q k); h_script := rest |}.
           split; [reflexivity|]. split; [reflexivity|]. split; [reflexivity|].
           split; [cbn [w_handles]; eapply nth_set_same; exact En|].
           split; [cbn [h_pc]; rewrite <- Em, Ecp; reflexivity|exact Hheld].
        -- discriminate Hadd.
  - (* inside a call *)
    destruct Hh as (σ & Hst & Hsc & HL).
    destruct p as [[m r]|q k].
    + inversion H; subst w' e1. clear H. cbn [leaves] in HL.
      assert (Hr : ret_allowed o r = true) by (apply (Hrets h o r); left; reflexivity).
      exists (mems_fin h m mems). split.
      * apply J_set; [intros; apply Hoth; assumption|].
        unfold hJ. cbn [h_pc h_mem h_script]. exists (hnext σ o). split; [|exact Hsc].
        eapply fin_state; eauto.
      * left. cbn [w_fs]. split; intro rest0; apply c09_finish.
    + destruct (apply_req so c h q (w_fs w)) as [[s' rs] fe] eqn:Ea.
      cbn [leaves] in HL. specialize (HL rs).
      destruct (k rs) as [[m r]|q' k'] eqn:Ek.
      * inversion H; subst w' e1. clear H. cbn [leaves] in HL.
        assert (Hr : ret_allowed o r = true).
        { apply (Hrets h o r). right. right. left. reflexivity. }
        exists (mems_fin h m mems). split.
        -- apply J_set; [intros; apply Hoth; assumption|].
           unfold hJ. cbn [h_pc h_mem h_script]. exists (hnext σ o). split; [|exact Hsc].
           eapply fin_state; eauto.
        -- left. cbn [w_fs]. split; intro rest0; cbn [app].
           ++ rewrite (proj1 (c09_req _ _ _ _ _ _ _ _)). apply c09_finish.
           ++ rewrite (proj2 (c09_req _ _ _ _ _ _ _ _)). apply c09_finish.
      * inversion H; subst w' e1. clear H.
        exists mems. split.
        -- apply J_set; [intros i hd0 Hne E; apply HJ; exact E|].
           unfold hJ. cbn [h_pc h_mem h_script]. exists σ. auto.
        -- left. cbn [w_fs]. split; intro rest0; cbn [app]; apply c09_req.
Qed.

(* ------------------------------------------------------------------ *)
(* 5. the clause of the oracle for an undisturbed Add                  *)
(* ------------------------------------------------------------------ *)

Lemma snap_eqb_refl : forall a, snap_eqb a a = true.
Proof.
  intro a. unfold snap_eqb. apply andb_true_iff. split; [apply andb_true_iff; split|].
  - destruct (sn_list a); [apply list_nat_eqb_refl|reflexivity].
  - apply Nat.eqb_refl.
  - apply forallb_forall. intros p Hp. apply existsb_path. exact Hp.
Qed.

Lemma pt_in_files : forall s n f, lookup n (f_tabs s) = Some f ->
  existsb (path_eqb (PT n)) (sn_files (snapshot_of s)) = true.
Proof.
  intros s n f H. apply existsb_path. cbn [snapshot_of sn_files].
  apply in_or_app. right. apply in_or_app. right. apply in_or_app. left.
  apply lookup_In in H. apply in_map_iff. exists (n, f). split; [reflexivity|exact H].
Qed.

Lemma pll_in_files : forall s c, f_lock s = Some c ->
  existsb (path_eqb PLL) (sn_files (snapshot_of s)) = true.
Proof.
  intros s c H. apply existsb_path. cbn [snapshot_of sn_files]. rewrite H.
  apply in_or_app. right. left. reflexivity.
Qed.

Lemma clause_holds : forall so a sched γ st w w' evs h hd tx auto mm,
  WInv γ w st -> run so (S a) w sched = (w', evs) ->
  nth_error (w_handles w) h = Some hd ->
  h_pc hd = HRun (AAdd tx auto) (call_prog (S a) (AAdd tx auto) (Some mm)) ->
  held_gone (snapshot_of (w_fs w)) (mnames mm) = true ->
  c09_clause h (snapshot_of (w_fs w)) (Some (mnames mm)) evs = true.
Proof.
  intros so a sched γ st w w' evs h hd tx auto mm (HG & _) Hrun En Epc Hgone.
  unfold c09_clause. destruct (alone_until_ret h evs []) as [[[E r] rest]|] eqn:Hal; [|reflexivity].
  destruct (alone_run _ _ _ _ _ _ _ _ _ _ _ _ _ _ Hrun En Epc Hal) as (E0 & m & s' & rest' & Hs & -> & ->).
  cbn [rev app]. pose proof (last_snap_sexec _ _ _ _ _ _ _ _ Hs) as Hlast.
  cbn [call_prog] in Hs. unfold wrap in Hs.
  apply sexec_bind in Hs as ([m1 r1] & s1 & E1 & E2 & H1 & H2 & _).
  cbn [sexec fst snd] in H2. destruct H2 as (_ & Em & ->). inversion Em; subst m r. clear Em.
  set (s := w_fs w) in *. change (listed (snapshot_of s)) with (listed_fs s).
  destruct (list_nat_eqb (mnames mm) (listed_fs s)) eqn:Eq; cbn [negb].
  - (* up to date *)
    destruct (existsb (path_eqb PLL) (sn_files (snapshot_of s))) eqn:Ep; [reflexivity|].
    assert (El : f_lock s = None).
    { destruct (f_lock s) as [c|] eqn:El; [|reflexivity]. rewrite (pll_in_files s c El) in Ep. discriminate. }
    apply list_nat_eqb_eq in Eq.
    rewrite (exec_add_fresh _ _ _ _ _ _ _ _ _ _ _ El Eq H1). reflexivity.
  - (* stale *)
    assert (Hold : forall n, In n (mnames mm) -> In n (listed_fs s) \/ lookup n (f_tabs s) = None).
    { intros n Hn. unfold held_gone in Hgone. rewrite forallb_forall in Hgone. specialize (Hgone n Hn).
      change (listed (snapshot_of s)) with (listed_fs s) in Hgone.
      apply orb_true_iff in Hgone as [X|X]; [left; apply mem_nat_In; exact X|].
      right. destruct (lookup n (f_tabs s)) as [f|] eqn:El; [|reflexivity].
      rewrite (pt_in_files s n f El) in X. discriminate. }
    destruct (exec_add_stale _ _ _ _ _ _ _ _ _ _ _ (g_exist HG) Hold Eq H1) as (-> & -> & Hm).
    rewrite Hlast, snap_eqb_refl. cbn [andb mem_events app]. rewrite Nat.eqb_refl, Hm. apply list_nat_eqb_refl.
Qed.

Lemma run_c09 : forall so a sched γ st w mems w' evs,
  WInv γ w st -> J w mems -> run so (S a) w sched = (w', evs) -> rets_ok evs ->
  c09_pre (snapshot_of (w_fs w)) mems evs = true ->
  c09_loop (snapshot_of (w_fs w)) mems evs = true.
Proof.
  intros so a. induction sched as [|[h c|h] sched IH]; intros γ st w mems w' evs HW HJ H Hrets Hpre; cbn [run] in H.
  - inversion H; subst. reflexivity.
  - destruct (step so (S a) w h c) as [w1 e1] eqn:E1.
    destruct (run so (S a) w1 sched) as [w2 e2] eqn:E2. inversion H; subst w' evs. clear H.
    destruct (@step_inv so (S a) γ w st h c w1 e1 HW E1) as (γ' & st' & HW' & _).
    destruct (step_J _ _ _ _ _ _ _ _ HJ E1 (rets_app_l _ _ Hrets)) as (mems' & HJ' & [[C1 C2]|X]).
    + rewrite C1. rewrite C2 in Hpre. eapply IH; eauto. eapply rets_app; eauto.
    + destruct X as (tx & auto & mm & hd' & -> & -> & Efs & En & Epc & Hheld).
      cbn [app] in *. rewrite c09_call. rewrite c09_pre_call in Hpre.
      apply andb_true_iff in Hpre as [Hg Hpre]. rewrite Hheld in *. rewrite <- Efs in *.
      apply andb_true_iff. split.
      * eapply clause_holds; eauto.
      * eapply IH; eauto. eapply rets_app with (a := [_]); eauto.
  - destruct (crash w h) as [w1 e1] eqn:E1.
    destruct (run so (S a) w1 sched) as [w2 e2] eqn:E2. inversion H; subst w' evs. clear H.
    destruct (@crash_inv γ w st h w1 e1 HW E1) as (HW' & _).
    unfold crash in E1. destruct (nth_error (w_handles w) h) as [hd|] eqn:En.
    + inversion E1; subst w1 e1. cbn [app c09_loop c09_pre w_fs] in *.
      apply (IH γ st _ mems w2 e2 HW'); [|exact E2| |exact Hpre].
      * apply J_set; [intros i hd0 _ E; apply HJ; exact E|]. exact I.
      * eapply rets_app with (a := [_]); eauto.
    + inversion E1; subst w1 e1. cbn [app] in *. eapply IH; eauto.
Qed.

(* property C09 (repaired): for at least one reload attempt, scripts that do not
   add on a closed handle, and traces in which no Add starts while a table the
   handle holds is unlisted but still on disk *)
Theorem c09_all_traces : forall size_oracle attempts tabs scripts sched,
  init_ok tabs -> Forall (fun s => forallb modelled s = true) scripts ->
  (1 <= attempts)%nat ->
  Forall (fun s => reopen_before_add s = true) scripts ->
  c09_precond (trace_of size_oracle attempts tabs scripts sched) = true ->
  c09_ok (trace_of size_oracle attempts tabs scripts sched) = true.
Proof.
  intros so att tabs scripts sched Hi Hs Hatt Hre Hpre.
  destruct att as [|a]; [lia|].
  pose proof (@c04_all_traces so (S a) tabs scripts sched Hi Hs) as H4.
  unfold c09_ok, c09_precond, c04_ok, trace_of in *.
  destruct (run so (S a) (init_world tabs scripts) sched) as [w' evs] eqn:E. cbn [snd] in *.
  cbn [c09_loop]. cbn [c09_pre] in Hpre.
  apply (run_c09 so a sched _ _ (init_world tabs scripts) [] w' evs (@WInv_init tabs scripts Hi Hs)).
  - intros i hd En. cbn [init_world w_handles] in En. apply nth_error_In in En.
    apply in_map_iff in En as [s [<- Hin]]. unfold hJ. cbn [h_pc h_mem h_script].
    exists Fresh. split; [split; reflexivity|]. rewrite Forall_forall in Hre. apply Hre. exact Hin.
  - exact E.
  - apply c04_rets in H4. intros h o r Hin. apply (H4 h o r). right. exact Hin.
  - exact Hpre.
Qed.

Print Assumptions c09_all_traces.

(* the precondition holds whenever the directory is clean in the sense of C16
   (so, by c16_all_traces, at every crash-free instant at which no other handle
   is inside a call) *)
Lemma clean_held_gone : forall cur names, clean_dir cur = true -> held_gone cur names = true.
Proof.
  intros cur names H. unfold clean_dir in H. apply andb_true_iff in H as [H _].
  rewrite forallb_forall in H. unfold held_gone. apply forallb_forall. intros n _.
  destruct (existsb (path_eqb (PT n)) (sn_files cur)) eqn:E; [|apply orb_true_r].
  apply existsb_exists in E as (p & Hp & Ep). apply path_eqb_true in Ep. subst p.
  rewrite (H (PT n) Hp). reflexivity.
Qed.

(* ------------------------------------------------------------------ *)
(* 6. the counterexamples to the unrestricted statement                *)
(* ------------------------------------------------------------------ *)

Module Counterexamples.
  Definition f0 : tfile := {| tf_min := 1; tf_max := 1; tf_txs := [7]; tf_size := 10 |}.
  Definition f1 : tfile := {| tf_min := 2; tf_max := 2; tf_txs := [8]; tf_size := 10 |}.
  Definition so (_ : nat) : N := 10%N.
  Definition steps (h n : nat) : list sched_item := repeat (Step h None) n.

  Lemma init_ok_1 : init_ok [(0, f0)].
  Proof. split; reflexivity. Qed.
  Lemma init_ok_2 : init_ok [(0, f0); (1, f1)].
  Proof. split; reflexivity. Qed.
  Lemma init_ok_0 : init_ok [].
  Proof. split; reflexivity. Qed.

  (* (a) attempts = 0: reload gives up at once; the stale handle gets its lock
     failure but still holds the old (empty) stack afterwards *)
  Definition tr_a := trace_of so 0 [(0, f0)] [[AOpen; AAdd 5 false]] (steps 0 6).
  Example ce_attempts_0 :
    c09_ok tr_a = false /\ c09_precond tr_a = true /\ reopen_before_add [AOpen; AAdd 5 false] = true.
  Proof. vm_compute. auto. Qed.

  (* (b) Add after Close: RNoStack, while the oracle remembers the stack held before the Close *)
  Definition tr_b := trace_of so 2 [] [[AOpen; AClose; AAdd 5 false]] (steps 0 6).
  Example ce_add_after_close :
    c09_ok tr_b = false /\ c09_precond tr_b = true /\ reopen_before_add [AOpen; AClose; AAdd 5 false] = false.
  Proof. vm_compute. auto. Qed.

  (* (c) handle 1 compacts tables 0 and 1 and is paused right after its commit,
     before it unlinks them; handle 0 (holding 0 and 1) then runs an Add alone:
     lock failure, but its reload unlinks 0.ref and 1.ref, so the directory at
     the return is not the directory at the call *)
  Definition scripts_c := [[AOpen; AAdd 9 false]; [AOpen; ACompactAll]].
  Definition sched_c := steps 0 4 ++ steps 1 4 ++ steps 1 11 ++ steps 0 9.
  Definition tr_c := trace_of so 2 [(0, f0); (1, f1)] scripts_c sched_c.
  Example ce_paused_compaction :
    c09_ok tr_c = false /\ c09_precond tr_c = false /\ forallb reopen_before_add scripts_c = true.
  Proof. vm_compute. auto. Qed.

  (* (d) the same with the compactor crashed instead of paused *)
  Definition sched_d := steps 0 4 ++ steps 1 4 ++ steps 1 11 ++ [Crash 1] ++ steps 0 9.
  Definition tr_d := trace_of so 2 [(0, f0); (1, f1)] scripts_c sched_d.
  Example ce_crashed_compaction : c09_ok tr_d = false /\ c09_precond tr_d = false.
  Proof. vm_compute. auto. Qed.

  (* the hypotheses are satisfiable on a run with a stale Add, a retry and an auto-compaction *)
  Definition scripts_e := [[AOpen; AAdd 3 true; AAdd 4 true]; [AOpen; AAdd 5 true; AAdd 6 true]].
  Definition sched_e := steps 0 4 ++ steps 1 4 ++ steps 0 40 ++ steps 1 40 ++ steps 0 40 ++ steps 1 40.
  Definition tr_e := trace_of so 2 [(0, f0); (1, f1)] scripts_e sched_e.
  Example sat_example :
    c09_precond tr_e = true /\ forallb reopen_before_add scripts_e = true /\ c09_ok tr_e = true /\
    existsb (fun e => match e with ERet 1 (AAdd 5 true) RLockFailure => true | _ => false end) tr_e = true /\
    existsb (fun e => match e with ERet 1 (AAdd 6 true) ROk => true | _ => false end) tr_e = true.
  Proof. vm_compute. auto. Qed.
End Counterexamples.
