(* C11 (single-table part): Reader.RefsFor returns exactly the refs of the
   table whose value or peeled value is the requested object id -- with an
   object index, without one, or with an index whose position lists were
   dropped.  Standard library only. *)
From Coq Require Import List NArith ZArith Arith Bool Lia ZifyN ZifyNat ZifyBool Sorted RelationClasses.
From RT Require Import Model.Bytes Model.Result Model.Varint Model.KeyCodec Model.Records
  Model.RecCodec Model.Block Model.Crc32 Model.Writer Model.Reader.
From RT Require Import Proofs.BytesProofs Proofs.CodecProofs Proofs.BlockInitEq Proofs.BlockProofs
  Proofs.WriterGuard Proofs.TableProofs Proofs.SeekProofs.
Import ListNotations.
Local Open Scope N_scope.

#[local] Arguments N.div : simpl never.
#[local] Arguments N.modulo : simpl never.
#[local] Arguments N.mul : simpl never.
#[local] Arguments N.add : simpl never.
#[local] Arguments N.sub : simpl never.
#[local] Arguments N.pow : simpl never.
#[local] Arguments N.of_nat : simpl never.
#[local] Arguments N.to_nat : simpl never.
#[local] Arguments N.min : simpl never.
#[local] Arguments N.leb : simpl never.
#[local] Arguments N.ltb : simpl never.
#[local] Arguments N.eqb : simpl never.
#[local] Arguments Nat.div : simpl never.
#[local] Arguments Nat.modulo : simpl never.
#[local] Arguments Nat.ltb : simpl never.
#[local] Arguments Nat.leb : simpl never.

(* ------------------------------------------------------------------ *)
(* A: the object index as a list: obj_insert keeps a sorted duplicate-free
   association list; the positions recorded for a key *)

Definition ltb_rel (a b : bytes) : Prop := bytes_ltb a b = true.

#[local] Instance ltb_rel_trans : Transitive ltb_rel.
Proof. intros a b c. apply bytes_ltb_trans. Qed.

Definition omap := list (bytes * list N).
Definition keys_sorted (M : omap) : Prop := StronglySorted ltb_rel (map fst M).

Definition snoc_uniq (offs : list N) (off : N) : list N :=
  if (match rev offs with o :: _ => o =? off | [] => false end) then offs else offs ++ [off].

Definition olook (h : bytes) (M : omap) : list N :=
  match find (fun p => bytes_eqb (fst p) h) M with Some p => snd p | None => [] end.

Lemma obj_insert_unfold : forall h off k offs t,
  obj_insert h off ((k, offs) :: t) =
  if bytes_eqb k h then (k, snoc_uniq offs off) :: t
  else if bytes_ltb h k then (h, [off]) :: (k, offs) :: t
  else (k, offs) :: obj_insert h off t.
Proof. reflexivity. Qed.

Lemma obj_insert_keys : forall h off M x,
  In x (map fst (obj_insert h off M)) <-> x = h \/ In x (map fst M).
Proof.
  intros h off M. induction M as [|[k offs] t IH]; intros x.
  - cbn [obj_insert map fst In]. intuition congruence.
  - rewrite obj_insert_unfold. destruct (bytes_eqb_spec k h) as [->|NE].
    + cbn [map fst In]. intuition congruence.
    + destruct (bytes_ltb h k).
      * cbn [map fst In]. intuition congruence.
      * cbn [map fst In]. rewrite IH. intuition congruence.
Qed.

Lemma obj_insert_sorted : forall h off M, keys_sorted M -> keys_sorted (obj_insert h off M).
Proof.
  intros h off M. unfold keys_sorted. induction M as [|[k offs] t IH]; intros S.
  - cbn [obj_insert map fst]. constructor; constructor.
  - rewrite obj_insert_unfold. cbn [map fst] in S. inversion S as [|? ? S' F]; subst.
    destruct (bytes_eqb_spec k h) as [->|NE].
    + cbn [map fst]. constructor; assumption.
    + destruct (bytes_ltb h k) eqn:L.
      * cbn [map fst]. constructor; [constructor; assumption|].
        constructor; [exact L|]. eapply Forall_impl; [|exact F]. intros a Ha.
        eapply bytes_ltb_trans; [exact L|exact Ha].
      * cbn [map fst]. constructor; [apply IH; exact S'|].
        apply Forall_forall. intros x Hx. apply obj_insert_keys in Hx. destruct Hx as [->|Hx].
        -- destruct (bytes_ltb_trichotomy k h) as [[T|T]|T]; [exact T|congruence|unfold ltb_rel; congruence].
        -- rewrite Forall_forall in F. apply F. exact Hx.
Qed.

Lemma olook_none : forall x M, Forall (ltb_rel x) (map fst M) -> olook x M = [].
Proof.
  intros x M F. unfold olook. induction M as [|[k offs] t IH]; [reflexivity|].
  cbn [map fst] in F. inversion F as [|? ? L F']; subst. cbn [find fst].
  destruct (bytes_eqb_spec k x) as [->|NE].
  - unfold ltb_rel in L. rewrite bytes_ltb_irrefl in L. discriminate.
  - apply IH. exact F'.
Qed.

Lemma olook_cons : forall x k offs t,
  olook x ((k, offs) :: t) = if bytes_eqb k x then offs else olook x t.
Proof. intros. unfold olook. cbn [find fst]. destruct (bytes_eqb k x); reflexivity. Qed.

Lemma olook_insert : forall h off M x, keys_sorted M ->
  olook x (obj_insert h off M) = if bytes_eqb h x then snoc_uniq (olook x M) off else olook x M.
Proof.
  intros h off M x. unfold keys_sorted. induction M as [|[k offs] t IH]; intros S.
  - cbn [obj_insert]. rewrite olook_cons. destruct (bytes_eqb h x); reflexivity.
  - rewrite obj_insert_unfold. cbn [map fst] in S. inversion S as [|? ? S' F]; subst.
    destruct (bytes_eqb_spec k h) as [->|NE].
    + rewrite !olook_cons. destruct (bytes_eqb h x); reflexivity.
    + destruct (bytes_ltb h k) eqn:L.
      * rewrite (olook_cons x h). destruct (bytes_eqb_spec h x) as [->|NE2]; [|reflexivity].
        rewrite (olook_none x ((k, offs) :: t)); [reflexivity|].
        cbn [map fst]. constructor; [exact L|]. eapply Forall_impl; [|exact F]. intros a Ha.
        eapply bytes_ltb_trans; [exact L|exact Ha].
      * rewrite !olook_cons. destruct (bytes_eqb_spec k x) as [->|NE2].
        -- destruct (bytes_eqb_spec h x) as [->|_]; [congruence|reflexivity].
        -- apply IH. exact S'.
Qed.

Lemma olook_in : forall h offs M, keys_sorted M -> In (h, offs) M -> olook h M = offs.
Proof.
  intros h offs M. unfold keys_sorted. induction M as [|[k o] t IH]; intros S I; [destruct I|].
  cbn [map fst] in S. inversion S as [|? ? S' F]; subst. rewrite olook_cons.
  destruct I as [E|I].
  - injection E as -> ->. rewrite bytes_eqb_refl. reflexivity.
  - assert (L : ltb_rel k h).
    { rewrite Forall_forall in F. apply F. apply in_map_iff. exists (h, offs). auto. }
    unfold ltb_rel in L. rewrite (bytes_ltb_eqb _ _ L). apply IH; assumption.
Qed.

Lemma olook_notin : forall h M, ~ In h (map fst M) -> olook h M = [].
Proof.
  intros h M. induction M as [|[k o] t IH]; intros NI; [reflexivity|].
  rewrite olook_cons. cbn [map fst In] in NI. destruct (bytes_eqb_spec k h) as [->|NE]; [tauto|].
  apply IH. tauto.
Qed.

(* inserting a list of (position, id) pairs *)
Definition ins (M : omap) (p : N * bytes) : omap := obj_insert (snd p) (fst p) M.
Definition hits (x : bytes) (il : list (N * bytes)) : list N :=
  map fst (filter (fun p => bytes_eqb (snd p) x) il).

Lemma hits_app : forall x a b, hits x (a ++ b) = hits x a ++ hits x b.
Proof. intros. unfold hits. rewrite filter_app, map_app. reflexivity. Qed.

Lemma fold_ins_sorted : forall il M, keys_sorted M -> keys_sorted (fold_left ins il M).
Proof.
  induction il as [|p t IH]; intros M S; cbn [fold_left]; [exact S|].
  apply IH. apply obj_insert_sorted. exact S.
Qed.

Lemma fold_ins_look : forall il M x, keys_sorted M ->
  olook x (fold_left ins il M) = fold_left snoc_uniq (hits x il) (olook x M).
Proof.
  induction il as [|[off h] t IH]; intros M x S; cbn [fold_left]; [reflexivity|].
  rewrite IH by (apply obj_insert_sorted; exact S).
  unfold ins. cbn [fst snd]. rewrite olook_insert by exact S.
  unfold hits. cbn [filter snd]. destruct (bytes_eqb h x); reflexivity.
Qed.

Lemma fold_ins_keys : forall il M x,
  In x (map fst (fold_left ins il M)) -> In x (map fst M) \/ In x (map snd il).
Proof.
  induction il as [|[off h] t IH]; intros M x I; cbn [fold_left] in I; [left; exact I|].
  apply IH in I. destruct I as [I|I]; [|right; right; exact I].
  unfold ins in I. cbn [fst snd] in I. apply obj_insert_keys in I.
  destruct I as [->|I]; [right; left; reflexivity|left; exact I].
Qed.

Lemma snoc_uniq_snoc : forall acc off, snoc_uniq (acc ++ [off]) off = acc ++ [off].
Proof. intros. unfold snoc_uniq. rewrite rev_app_distr. cbn [rev app]. rewrite N.eqb_refl. reflexivity. Qed.

Lemma snoc_uniq_new : forall acc off, (forall o, In o acc -> o < off) -> snoc_uniq acc off = acc ++ [off].
Proof.
  intros acc off H. unfold snoc_uniq. destruct (rev acc) as [|o t] eqn:R; [reflexivity|].
  assert (I : In o acc). { apply in_rev. rewrite R. left. reflexivity. }
  specialize (H o I). destruct (N.eqb_spec o off); [lia|reflexivity].
Qed.

Lemma fold_snoc_repeat : forall m acc off, (forall o, In o acc -> o < off) ->
  fold_left snoc_uniq (repeat off m) acc = match m with O => acc | S _ => acc ++ [off] end.
Proof.
  intros m acc off H. destruct m as [|m]; [reflexivity|]. cbn [repeat fold_left].
  rewrite snoc_uniq_new by exact H. induction m as [|m IH]; [reflexivity|].
  cbn [repeat fold_left]. rewrite snoc_uniq_snoc. exact IH.
Qed.

Lemma map_fst_const : forall (l : list (N * bytes)) off, Forall (fun p => fst p = off) l ->
  map fst l = repeat off (length l).
Proof.
  intros l off F. induction F as [|p t E F IH]; [reflexivity|]. cbn [map length repeat]. rewrite E, IH. reflexivity.
Qed.

(* ------------------------------------------------------------------ *)
(* the ids of the records of the ref blocks, tagged with the block offsets *)

Definition rec_ids (x : record) : list bytes :=
  match x with
  | RecRef r => match r_val r with RVal h => [h] | RVal2 h t => [h; t] | _ => [] end
  | _ => []
  end.

Definition tag_ids (off : N) (recs : list record) : list (N * bytes) :=
  flat_map (fun x => map (pair off) (rec_ids x)) recs.

Fixpoint sec_ids (off : N) (sec : list chunk) : list (N * bytes) :=
  match sec with
  | [] => []
  | k :: t => tag_ids off (ck_recs k) ++ sec_ids (off + N.of_nat (length (ck_bytes k))) t
  end.

Definition obj_of (il : list (N * bytes)) : omap := fold_left ins il [].

Definition has (oid : bytes) (recs : list record) : bool := existsb (rec_points_to oid) recs.

Fixpoint hit_offs (x : bytes) (off : N) (sec : list chunk) : list N :=
  match sec with
  | [] => []
  | k :: t => (if has x (ck_recs k) then [off] else []) ++ hit_offs x (off + N.of_nat (length (ck_bytes k))) t
  end.

Lemma tag_ids_app : forall off a b, tag_ids off (a ++ b) = tag_ids off a ++ tag_ids off b.
Proof. intros. unfold tag_ids. apply flat_map_app. Qed.

Lemma sec_ids_app : forall a b off,
  sec_ids off (a ++ b) = sec_ids off a ++ sec_ids (off + llen a) b.
Proof.
  induction a as [|k t IH]; intros b off; cbn [app sec_ids].
  - change (llen []) with 0. rewrite N.add_0_r. reflexivity.
  - rewrite IH, <- app_assoc. rewrite llen_cons. do 3 f_equal. lia.
Qed.

Lemma tag_ids_fst : forall off recs, Forall (fun p => fst p = off) (tag_ids off recs).
Proof.
  intros off recs. unfold tag_ids. apply Forall_forall. intros p I. apply in_flat_map in I.
  destruct I as (x & _ & I). apply in_map_iff in I. destruct I as (h & <- & _). reflexivity.
Qed.

Lemma tag_ids_has : forall x off recs,
  filter (fun p => bytes_eqb (snd p) x) (tag_ids off recs) = [] <-> has x recs = false.
Proof.
  intros x off recs. unfold has. induction recs as [|rc t IH].
  - cbn. split; reflexivity.
  - change (tag_ids off (rc :: t)) with (map (pair off) (rec_ids rc) ++ tag_ids off t).
    rewrite filter_app. cbn [existsb]. rewrite orb_false_iff, <- IH.
    assert (H : filter (fun p : N * bytes => bytes_eqb (snd p) x) (map (pair off) (rec_ids rc)) = [] <->
                rec_points_to x rc = false).
    { destruct rc as [r|l|k o|k o]; cbn [rec_ids rec_points_to map filter]; try (split; intros; reflexivity).
      unfold points_to. destruct (r_val r) as [|h|h u|s]; cbn [map filter snd]; try (split; intros; reflexivity).
      - destruct (bytes_eqb h x); split; intros; try reflexivity; discriminate.
      - destruct (bytes_eqb h x); destruct (bytes_eqb u x); cbn [orb]; split; intros; try reflexivity; discriminate. }
    rewrite <- H. split.
    + intros E. apply app_eq_nil in E. exact E.
    + intros [E1 E2]. rewrite E1, E2. reflexivity.
Qed.

Lemma hits_tag : forall x off recs, exists m,
  hits x (tag_ids off recs) = repeat off m /\ (m = 0%nat <-> has x recs = false).
Proof.
  intros x off recs. exists (length (filter (fun p => bytes_eqb (snd p) x) (tag_ids off recs))). split.
  - unfold hits. apply map_fst_const. apply Forall_forall. intros p I. apply filter_In in I.
    destruct I as [I _]. pose proof (tag_ids_fst off recs) as F. rewrite Forall_forall in F. apply F. exact I.
  - rewrite <- (tag_ids_has x off recs). apply length_zero_iff_nil.
Qed.

Lemma hit_offs_bound : forall x sec off o, In o (hit_offs x off sec) -> off <= o <= off + llen sec.
Proof.
  intros x sec. induction sec as [|k t IH]; intros off o I; [destruct I|].
  cbn [hit_offs] in I. rewrite llen_cons. apply in_app_or in I. destruct I as [I|I].
  - destruct (has x (ck_recs k)); [|destruct I]. destruct I as [<-|[]]. lia.
  - apply IH in I. lia.
Qed.

Lemma hit_offs_length : forall x sec off, (length (hit_offs x off sec) <= length sec)%nat.
Proof.
  intros x sec. induction sec as [|k t IH]; intros off; cbn [hit_offs length]; [lia|].
  rewrite app_length. specialize (IH (off + N.of_nat (length (ck_bytes k)))).
  destruct (has x (ck_recs k)); cbn [length]; lia.
Qed.

Lemma hit_offs_nil : forall x sec off, hit_offs x off sec = [] ->
  Forall (fun k => has x (ck_recs k) = false) sec.
Proof.
  intros x sec. induction sec as [|k t IH]; intros off H; [constructor|].
  cbn [hit_offs] in H. apply app_eq_nil in H. destruct H as [H1 H2].
  constructor; [destruct (has x (ck_recs k)); [discriminate|reflexivity]|eapply IH; exact H2].
Qed.

(* the positions recorded for an id are the offsets of the blocks that hold a
   ref pointing at it, ascending, each once *)
Lemma fold_hits_sec : forall x sec off acc,
  Forall (fun k => 0 < N.of_nat (length (ck_bytes k))) sec -> (forall o, In o acc -> o < off) ->
  fold_left snoc_uniq (hits x (sec_ids off sec)) acc = acc ++ hit_offs x off sec.
Proof.
  intros x sec. induction sec as [|k t IH]; intros off acc P H.
  - cbn [sec_ids hits filter map fold_left hit_offs]. rewrite app_nil_r. reflexivity.
  - cbn [sec_ids hit_offs]. rewrite hits_app, fold_left_app.
    destruct (hits_tag x off (ck_recs k)) as (m & -> & Hm).
    rewrite fold_snoc_repeat by exact H.
    pose proof (Forall_inv P) as Pk. pose proof (Forall_inv_tail P) as Pt. cbv beta in Pk.
    destruct m as [|m].
    + assert (has x (ck_recs k) = false) as -> by (apply Hm; reflexivity). cbn [app].
      apply IH; [exact Pt|]. intros o I. specialize (H o I). lia.
    + assert (has x (ck_recs k) = true) as ->.
      { destruct (has x (ck_recs k)); [reflexivity|]. destruct Hm as [_ Hm]. specialize (Hm eq_refl). discriminate. }
      rewrite IH; [rewrite <- app_assoc; reflexivity|exact Pt|].
      intros o I. apply in_app_or in I. destruct I as [I|[<-|[]]]; [specialize (H o I)|]; lia.
Qed.

Theorem obj_of_spec : forall sec,
  Forall (fun k => 0 < N.of_nat (length (ck_bytes k))) sec ->
  let M := obj_of (sec_ids 0 sec) in
  keys_sorted M /\ (forall x, olook x M = hit_offs x 0 sec) /\
  (forall h, In h (map fst M) -> In h (map snd (sec_ids 0 sec))).
Proof.
  intros sec P M. unfold M, obj_of. split; [apply fold_ins_sorted; constructor|]. split.
  - intros x. rewrite fold_ins_look by constructor.
    change (olook x []) with (@nil N). rewrite fold_hits_sec; [reflexivity|exact P|intros o []].
  - intros h I. apply fold_ins_keys in I. destruct I as [[]|I]. exact I.
Qed.

Lemma sec_ids_hit : forall h sec off p, In p (sec_ids off sec) -> snd p = h -> hit_offs h off sec <> [].
Proof.
  intros h sec. induction sec as [|k t IH]; intros off p I Ep; [destruct I|].
  cbn [sec_ids hit_offs] in *. apply in_app_or in I. destruct I as [I|I].
  - assert (HK : has h (ck_recs k) = true).
    { destruct (has h (ck_recs k)) eqn:HK; [reflexivity|]. exfalso.
      apply (tag_ids_has h off) in HK.
      assert (IF : In p (filter (fun q => bytes_eqb (snd q) h) (tag_ids off (ck_recs k)))).
      { apply filter_In. split; [exact I|]. rewrite Ep. apply bytes_eqb_refl. }
      rewrite HK in IF. destruct IF. }
    rewrite HK. discriminate.
  - intros Z. apply app_eq_nil in Z. destruct Z as [_ Z]. exact (IH _ _ I Ep Z).
Qed.

(* the writer's object index, exactly: a sorted duplicate-free association
   list; the positions of an id are the offsets of the ref blocks holding a
   ref that points at it, ascending, each once; every such id is present *)
Theorem obj_index_exact : forall sec,
  Forall (fun k => 0 < N.of_nat (length (ck_bytes k))) sec ->
  let M := obj_of (sec_ids 0 sec) in
  keys_sorted M /\
  (forall h offs, In (h, offs) M -> offs = hit_offs h 0 sec) /\
  (forall h, In h (map fst M) <-> hit_offs h 0 sec <> []).
Proof.
  intros sec P M. destruct (obj_of_spec sec P) as (KS & LK & KI). fold M in KS, LK, KI.
  split; [exact KS|]. split.
  - intros h offs I. rewrite <- LK. symmetry. apply olook_in; assumption.
  - intros h. split.
    + intros I. apply KI in I. apply in_map_iff in I. destruct I as (p & Ep & I).
      eapply sec_ids_hit; eassumption.
    + intros NZ. destruct (in_dec (list_eq_dec N.eq_dec) h (map fst M)) as [I|NI]; [exact I|].
      exfalso. apply NZ. rewrite <- LK. apply olook_notin. exact NI.
Qed.

(* ------------------------------------------------------------------ *)
(* abbreviated ids: idlen = max_common + 1 keeps the keys distinct and in order *)

Fixpoint adj_lt (n : nat) (last : bytes) (keys : list bytes) : Prop :=
  match keys with
  | [] => True
  | k :: t => (common_prefix last k < n)%nat /\ adj_lt n k t
  end.

Lemma max_common_ge : forall keys last m, (m <= max_common last keys m)%nat.
Proof.
  induction keys as [|k t IH]; intros last m; cbn [max_common]; [lia|].
  specialize (IH k (Nat.max m (common_prefix last k))). lia.
Qed.

Lemma max_common_adj : forall keys last m n, (max_common last keys m < n)%nat -> adj_lt n last keys.
Proof.
  induction keys as [|k t IH]; intros last m n H; cbn [max_common adj_lt] in *; [exact I|].
  pose proof (max_common_ge t k (Nat.max m (common_prefix last k))) as G.
  split; [lia|]. eapply IH. exact H.
Qed.

Lemma adj_max_common : forall keys last m n, adj_lt n last keys -> (m < n)%nat -> (max_common last keys m < n)%nat.
Proof.
  induction keys as [|k t IH]; intros last m n A H; cbn [max_common adj_lt] in *; [exact H|].
  destruct A as [A1 A2]. apply IH; [exact A2|lia].
Qed.

Lemma firstn_lt : forall n a b, bytes_ltb a b = true -> (common_prefix a b < n)%nat ->
  bytes_ltb (firstn n a) (firstn n b) = true.
Proof.
  induction n as [|n IH]; intros a b L C; [lia|].
  destruct a as [|x a'], b as [|y b']; cbn [bytes_ltb firstn common_prefix] in *; try discriminate; try reflexivity.
  destruct (N.ltb_spec x y); [reflexivity|]. destruct (N.ltb_spec y x); [discriminate|].
  destruct (N.eqb_spec x y); [|lia]. apply IH; [exact L|lia].
Qed.

Lemma common_prefix_le : forall a b, (common_prefix a b <= length a)%nat.
Proof.
  induction a as [|x a IH]; intros b; cbn [common_prefix length]; [lia|].
  destruct b as [|y b]; [lia|]. destruct (x =? y); [specialize (IH b)|]; lia.
Qed.

Lemma common_prefix_full : forall a b, length a = length b -> common_prefix a b = length a -> a = b.
Proof.
  induction a as [|x a IH]; intros b L C; destruct b as [|y b]; cbn [length] in L; try discriminate; [reflexivity|].
  cbn [common_prefix length] in C. destruct (N.eqb_spec x y); [|discriminate].
  f_equal; [assumption|]. apply IH; lia.
Qed.

Lemma sorted_adj_firstn : forall n keys last, Sorted ltb_rel (last :: keys) -> adj_lt n last keys ->
  Sorted ltb_rel (map (firstn n) (last :: keys)).
Proof.
  intros n keys. induction keys as [|k t IH]; intros last S A; cbn [map].
  - constructor; constructor.
  - inversion S as [|? ? S' H]; subst. destruct A as [A1 A2].
    constructor; [apply (IH k S' A2)|]. constructor. inversion H; subst.
    apply firstn_lt; assumption.
Qed.

Lemma abbrev_sorted : forall keys n, StronglySorted ltb_rel keys -> (max_common [] keys 0 < n)%nat ->
  StronglySorted ltb_rel (map (firstn n) keys).
Proof.
  intros keys n S H. destruct keys as [|k t]; [constructor|].
  cbn [max_common] in H. apply max_common_adj in H.
  apply Sorted_StronglySorted; [exact ltb_rel_trans|].
  apply sorted_adj_firstn; [apply StronglySorted_Sorted; exact S|exact H].
Qed.

Lemma sorted_inj : forall A (f : A -> bytes) l a b, StronglySorted ltb_rel (map f l) ->
  In a l -> In b l -> f a = f b -> a = b.
Proof.
  intros A f l. induction l as [|x t IH]; intros a b S Ia Ib E; [destruct Ia|].
  cbn [map] in S. inversion S as [|? ? S' F]; subst. rewrite Forall_forall in F.
  destruct Ia as [<-|Ia], Ib as [<-|Ib]; [reflexivity| | |apply IH; assumption].
  - exfalso. specialize (F (f b) (in_map f _ _ Ib)). unfold ltb_rel in F. rewrite E, bytes_ltb_irrefl in F. discriminate.
  - exfalso. specialize (F (f a) (in_map f _ _ Ia)). unfold ltb_rel in F. rewrite E, bytes_ltb_irrefl in F. discriminate.
Qed.

(* the abbreviated length does not exceed the length of the ids *)
Lemma idlen_le : forall keys hs, StronglySorted ltb_rel keys -> Forall (fun k => length k = hs) keys ->
  (0 < hs)%nat -> (max_common [] keys 0 < hs)%nat.
Proof.
  intros keys hs S F P. apply adj_max_common; [|exact P].
  destruct keys as [|k t]; [exact I|]. cbn [adj_lt]. split; [cbn [common_prefix]; lia|].
  apply StronglySorted_Sorted in S. revert k S F. induction t as [|k2 t IH]; intros k S F; [exact I|].
  cbn [adj_lt]. inversion S as [|? ? S' H]; subst. inversion H as [|? ? L]; subst.
  pose proof (Forall_inv F) as Lk. pose proof (Forall_inv (Forall_inv_tail F)) as Lk2. cbv beta in Lk, Lk2.
  split; [|apply IH; [exact S'|exact (Forall_inv_tail F)]].
  pose proof (common_prefix_le k k2) as LE.
  destruct (Nat.eq_dec (common_prefix k k2) (length k)) as [E|NE]; [|lia].
  apply common_prefix_full in E; [|lia]. subst k2. unfold ltb_rel in L. rewrite bytes_ltb_irrefl in L. discriminate.
Qed.

(* ------------------------------------------------------------------ *)
(* B: the writer: the object index it collects, and the object section *)

Lemma bw_add_typ : forall w r w', bw_add w r = Ok (Some w') -> bw_typ w' = bw_typ w.
Proof.
  intros w r w' H. apply bw_add_inv in H.
  destruct H as (? & ? & ? & ? & ? & _ & _ & _ & _ & _ & _ & S & _). apply S.
Qed.

Section RefsW.
  Variable deflate : bytes -> bytes.
  Variable c : config.
  Variable mn mx : N.

  Notation SI_ := (SI deflate c mn mx).
  Notation WI_ := (WI deflate c mn mx).

  (* the object statistics, the abbreviated length and the collected index *)
  Definition ost (st : wstate) : tstats * nat * omap := (w_objs st, w_idlen st, w_obj st).

  Definition bw_not_obj (st : wstate) : Prop := forall b, w_bw st = Some b -> bw_typ b <> typ_obj.

  Lemma flush_ost : forall st, bw_not_obj st -> ost (flush_block deflate st) = ost st.
  Proof.
    intros st H. unfold flush_block. destruct (w_bw st) as [b|] eqn:B; [|reflexivity].
    destruct (Nat.eqb (bw_entries b) 0); [reflexivity|]. cbv zeta. unfold ost.
    cbn [set_obj upd set_stats w_objs w_idlen w_obj]. specialize (H b B).
    destruct (N.eqb_spec (bw_typ b) typ_obj); [congruence|reflexivity].
  Qed.

  Lemma flush_objs_eq : forall st b, w_bw st = Some b -> bw_entries b <> 0%nat ->
    w_objs (flush_block deflate st) = (if bw_typ b =? typ_obj then bump (w_objs st) (w_next st) else w_objs st) /\
    w_idlen (flush_block deflate st) = w_idlen st /\ w_obj (flush_block deflate st) = w_obj st.
  Proof.
    intros st b B NZ. unfold flush_block. rewrite B.
    destruct (Nat.eqb_spec (bw_entries b) 0); [congruence|]. cbv zeta.
    cbn [set_obj upd set_stats w_objs w_idlen w_obj]. split; [|split; reflexivity].
    destruct (N.eqb_spec (bw_typ b) typ_obj) as [E|NE]; [|reflexivity].
    unfold get_stats. rewrite E. reflexivity.
  Qed.

  Lemma index_level_ost : forall idx st st', index_level deflate st idx = Ok st' ->
    (forall b, w_bw st = Some b -> bw_typ b = typ_idx) ->
    ost st' = ost st /\ (forall b, w_bw st' = Some b -> bw_typ b = typ_idx).
  Proof.
    induction idx as [|[k off] rest IH]; intros st st' H T; cbn [index_level] in H.
    - apply Ok_inj in H. subst. auto.
    - destruct (w_bw st) as [b|] eqn:B; [|discriminate].
      destruct (bw_add b (RecIdx k off)) as [[b'|]| | |] eqn:A; cbn [bind] in H; try discriminate.
      + apply IH in H; [exact H|]. cbn [set_bw upd w_bw]. intros b0 E. injection E as <-.
        rewrite (bw_add_typ _ _ _ A). apply T. reflexivity.
      + destruct (bw_add (new_bw (flush_block deflate st) typ_idx) (RecIdx k off)) as [[b2|]| | |] eqn:A2;
          cbn [bind] in H; try discriminate.
        apply IH in H.
        * destruct H as [H1 H2]. split; [|exact H2]. rewrite H1.
          change (ost (set_bw (flush_block deflate st) (Some b2))) with (ost (flush_block deflate st)).
          apply flush_ost. intros b0 E. rewrite B in E. injection E as <-. rewrite (T b eq_refl). discriminate.
        * cbn [set_bw upd w_bw]. intros b0 E. injection E as <-. rewrite (bw_add_typ _ _ _ A2). reflexivity.
  Qed.

  Lemma index_levels_ost : forall fuel st thr is ml st' is' ml',
    index_levels deflate fuel st thr is ml = Ok (st', is', ml') -> ost st' = ost st.
  Proof.
    induction fuel as [|f IH]; intros st thr is ml st' is' ml' H; cbn [index_levels] in H; [discriminate|].
    destruct (Nat.ltb thr (length (w_index st))).
    - destruct (index_level deflate (set_index (set_bw st (Some (new_bw st typ_idx))) []) (w_index st))
        as [st1| | |] eqn:IL; cbn [bind] in H; try discriminate.
      apply index_level_ost in IL; [|cbn [set_index set_bw upd w_bw]; intros b0 E; injection E as <-; reflexivity].
      destruct IL as [O1 T1].
      assert (O2 : ost (flush_block deflate st1) = ost st).
      { rewrite flush_ost; [exact O1|]. intros b0 E. rewrite (T1 b0 E). discriminate. }
      destruct (Nat.leb (length (w_index st)) (length (w_index (flush_block deflate st1)))).
      + apply Ok_inj in H. injection H as <- _ _. exact O2.
      + apply IH in H. rewrite H. exact O2.
    - apply Ok_inj in H. injection H as <- _ _. reflexivity.
  Qed.

  Lemma w_add_ost : forall st r st', w_add deflate st r = Ok st' -> rec_typ r <> typ_obj -> ost st' = ost st.
  Proof.
    intros st r st' H NT. apply w_add_ok_core in H; unfold w_add_core in H.
    destruct (negb (bytes_ltb (w_last_key st) (rec_key r))); [discriminate|].
    set (st0 := set_last_key st (rec_key r)) in *.
    set (st1 := match w_bw st0 with None => set_bw st0 (Some (new_bw st0 (rec_typ r))) | Some _ => st0 end) in *.
    assert (R1 : ost st1 = ost st) by (unfold st1; destruct (w_bw st0); reflexivity).
    clearbody st1.
    destruct (w_bw st1) as [b|] eqn:B; [|discriminate].
    destruct (N.eqb_spec (bw_typ b) (rec_typ r)) as [TB|]; cbn [negb] in H; [|discriminate].
    destruct (bw_add b r) as [[b'|]| | |]; cbn [bind] in H; try discriminate.
    - apply Ok_inj in H. subst. exact R1.
    - destruct (bw_add (new_bw (flush_block deflate st1) (rec_typ r)) r) as [[b2|]| | |]; cbn [bind] in H;
        try discriminate.
      apply Ok_inj in H. subst.
      change (ost (set_bw (flush_block deflate st1) (Some b2))) with (ost (flush_block deflate st1)).
      rewrite flush_ost; [exact R1|]. intros b0 E. rewrite B in E. injection E as <-. congruence.
  Qed.

  Lemma finish_section_ost : forall st st' b, finish_section deflate st = Ok st' -> w_bw st = Some b ->
    bw_typ b <> typ_obj -> ost st' = ost st.
  Proof.
    intros st st' b H B NT. unfold finish_section in H. rewrite B in H.
    destruct (index_levels deflate (S (length (w_index (flush_block deflate st)))) (flush_block deflate st)
                (if c_unaligned (w_cfg st) then 1%nat else 3%nat) 0 0)
      as [[[st2 is2] ml2]| | |] eqn:IL; cbn [bind] in H; try discriminate.
    apply Ok_inj in H. subst st'. apply index_levels_ost in IL.
    rewrite flush_ost in IL by (intros b0 E; rewrite B in E; injection E as <-; exact NT).
    unfold ost in *. cbn [set_last_key upd set_stats set_index w_objs w_idlen w_obj].
    destruct (N.eqb_spec (bw_typ b) typ_obj); [congruence|]. exact IL.
  Qed.

  Lemma w_add_log_ost : forall st l st' b, w_add_log deflate st l = Ok st' -> w_bw st = Some b ->
    bw_typ b <> typ_ref -> ost st' = ost st.
  Proof.
    intros st l st' b H B NT. unfold w_add_log in H.
    destruct (Nat.eqb (length (l_name l)) 0); [discriminate|].
    destruct (norm_log (c_exact_log (w_cfg st)) l) as [l1|]; [|discriminate].
    rewrite B in H. destruct (N.eqb_spec (bw_typ b) typ_ref); [congruence|]. cbn [bind] in H.
    apply w_add_ost in H; [exact H|discriminate].
  Qed.

  Lemma add_logs_ost : forall logs st cs0 sec cur L st',
    PL deflate c mn mx st cs0 sec cur L -> add_logs deflate st logs = Ok st' -> ost st' = ost st.
  Proof.
    induction logs as [|l t IH]; intros st cs0 sec cur L st' P H; cbn [add_logs] in H.
    - apply Ok_inj in H. subst. reflexivity.
    - destruct (w_add_log deflate st l) as [st1| | |] eqn:A; cbn [bind] in H; try discriminate.
      destruct (w_add_log_next _ _ _ _ _ _ _ _ _ _ _ P A) as (l1 & sec1 & cur1 & _ & P1).
      rewrite (IH _ _ _ _ _ _ P1 H).
      destruct P as [HS Hb _ _ _]. destruct HS as [_ _ _ _ SB].
      destruct (w_bw st) as [b|] eqn:B; [|congruence].
      eapply w_add_log_ost; [exact A|exact B|]. rewrite SB. discriminate.
  Qed.

  (* what the footer says about the ref index and the object section *)
  Definition oinf (st : wstate) : N * N * N * nat :=
    (rio st, ts_offset (w_objs st), ts_index_offset (w_objs st), w_idlen st).

  Lemma oinf_frame : forall st st', ost st' = ost st -> rio st' = rio st -> oinf st' = oinf st.
  Proof. intros st st' O R. unfold oinf. unfold ost in O. injection O as O1 O2 _. rewrite R, O1, O2. reflexivity. Qed.

  (* ---- AddRef: the collected index ---- *)

  Definition OI (st : wstate) (sec : list chunk) (cur : list record) : Prop :=
    w_obj st = if c_skip_index_objects c then [] else obj_of (sec_ids 0 sec ++ tag_ids (w_next st) cur).

  Lemma w_add_SI2 : forall st sec cur L r st',
    SI_ typ_ref st [] sec cur L -> rec_typ r = typ_ref ->
    w_add deflate st r = Ok st' ->
    w_bw st' <> None /\ w_log st' = w_log st /\
    ((SI_ typ_ref st' [] sec (cur ++ [r]) (L ++ [r]) /\ w_next st' = w_next st) \/
     (exists k, SI_ typ_ref st' [] (sec ++ [k]) [r] (L ++ [r]) /\ ck_recs k = cur /\ w_next st = llen sec)).
  Proof.
    intros st sec cur L r st' S Hr H. apply w_add_ok_core in H; unfold w_add_core in H.
    destruct (bytes_ltb (w_last_key st) (rec_key r)); cbn [negb] in H; [|discriminate].
    set (st0 := set_last_key st (rec_key r)) in *.
    assert (S0 : SI_ typ_ref st0 [] sec cur L) by (eapply SI_frame; [..|exact S]; reflexivity).
    set (st1 := match w_bw st0 with None => set_bw st0 (Some (new_bw st0 (rec_typ r))) | Some _ => st0 end) in *.
    assert (S1 : SI_ typ_ref st1 [] sec cur L /\ w_log st1 = w_log st /\ w_bw st1 <> None /\ w_next st1 = w_next st).
    { unfold st1. destruct (w_bw st0) as [b0|] eqn:B0.
      - split; [exact S0|]. split; [reflexivity|]. split; [rewrite B0; discriminate|reflexivity].
      - split; [|split; [reflexivity|split; [discriminate|reflexivity]]].
        destruct S0 as [W ST SR SX SB]. pose proof (wi_bw _ _ _ _ _ _ _ W) as C. rewrite B0 in C. subst cur.
        constructor.
        + apply WI_new_bw; [exact W|]. rewrite Hr. reflexivity.
        + exact ST.
        + exact SR.
        + exact SX.
        + cbn [set_bw upd w_bw]. rewrite (new_bw_fresh c) by apply W. exact Hr. }
    clearbody st1. destruct S1 as (S1 & G1 & N1 & X1).
    destruct (w_bw st1) as [b|] eqn:B1; [|congruence].
    pose proof (si_bw _ _ _ _ _ _ _ _ _ _ S1) as TB. rewrite B1 in TB.
    rewrite TB, Hr, N.eqb_refl in H. cbn [negb] in H.
    destruct (bw_add b r) as [a| | |] eqn:Ha; cbn [bind] in H; try discriminate.
    pose proof (add_step deflate c mn mx typ_ref st1 [] sec cur L r b a S1 eq_refl B1 Ha) as AS.
    destruct a as [b'|].
    - apply Ok_inj in H. subst st'. split; [discriminate|]. split; [exact G1|]. left. split; [exact AS|exact X1].
    - cbv zeta in AS.
      destruct (bw_add (new_bw (flush_block deflate st1) typ_ref) r) as [a2| | |] eqn:Ha2; cbn [bind] in H; try discriminate.
      specialize (AS a2 eq_refl). destruct a2 as [b2|]; [|discriminate].
      apply Ok_inj in H. subst st'.
      destruct AS as (k & S2 & _ & RK & _ & _ & G2 & NX).
      split; [discriminate|]. split; [cbn [set_bw upd w_log]; rewrite G2, G1; reflexivity|].
      right. exists k. split; [exact S2|]. split; [exact RK|]. rewrite <- X1, NX. reflexivity.
  Qed.

  Lemma obj_of_step : forall il n r, obj_of (il ++ tag_ids n [r]) = fold_left ins (map (pair n) (rec_ids r)) (obj_of il).
  Proof.
    intros. unfold obj_of. rewrite fold_left_app. unfold tag_ids. cbn [flat_map]. rewrite app_nil_r. reflexivity.
  Qed.

  Lemma index_hash_obj : forall st h, w_cfg st = c ->
    w_obj (index_hash st h) = (if c_skip_index_objects c then w_obj st else obj_insert h (w_next st) (w_obj st)) /\
    w_next (index_hash st h) = w_next st /\ w_cfg (index_hash st h) = c /\
    w_objs (index_hash st h) = w_objs st /\ w_idlen (index_hash st h) = w_idlen st.
  Proof.
    intros st h E. unfold index_hash. rewrite E. destruct (c_skip_index_objects c); cbn [set_obj w_obj w_next w_cfg w_objs w_idlen]; auto.
  Qed.

  Lemma w_add_ref_SI2 : forall st sec cur L r st',
    SI_ typ_ref st [] sec cur L -> OI st sec cur ->
    w_add_ref deflate st r = Ok st' ->
    exists sec' cur', SI_ typ_ref st' [] sec' cur' (L ++ [RecRef (delta_ref mn r)]) /\ w_bw st' <> None /\
      w_log st' = w_log st /\ OI st' sec' cur' /\ w_objs st' = w_objs st /\ w_idlen st' = w_idlen st.
  Proof.
    intros st sec cur L r st' HS HO H. unfold w_add_ref in H.
    destruct (Nat.eqb (length (r_name r)) 0); [discriminate|].
    destruct ((r_index r <? w_min st) || (w_max st <? r_index r)); [discriminate|].
    rewrite (wi_min _ _ _ _ _ _ _ (si_wi _ _ _ _ _ _ _ _ _ _ HS)) in H. fold (delta_ref mn r) in H.
    set (r' := RecRef (delta_ref mn r)) in *.
    destruct (w_add deflate st r') as [st1| | |] eqn:A; cbn [bind] in H; try discriminate.
    destruct (w_add_SI2 st sec cur L r' st1 HS eq_refl A) as (B1 & G1 & C1).
    pose proof (w_add_ost _ _ _ A ltac:(discriminate)) as O1. unfold ost in O1. injection O1 as O1a O1b O1c.
    apply Ok_inj in H.
    (* the state after the add, its section and the ids the record contributes *)
    assert (X : exists sec' cur', SI_ typ_ref st1 [] sec' cur' (L ++ [r']) /\
                  (c_skip_index_objects c = false ->
                   obj_of (sec_ids 0 sec' ++ tag_ids (w_next st1) cur') =
                   fold_left ins (map (pair (w_next st1)) (rec_ids r')) (w_obj st1))).
    { destruct C1 as [(S1 & NX)|(k & S1 & RK & NX)].
      - exists sec, (cur ++ [r']). split; [exact S1|]. intros SK.
        rewrite tag_ids_app, app_assoc, obj_of_step. rewrite O1c, HO, SK, NX. reflexivity.
      - exists (sec ++ [k]), [r']. split; [exact S1|]. intros SK.
        rewrite obj_of_step. rewrite O1c, HO, SK. f_equal. f_equal.
        rewrite sec_ids_app. cbn [sec_ids]. rewrite app_nil_r, RK, NX, N.add_0_l. reflexivity. }
    destruct X as (sec' & cur' & S1 & XO).
    assert (CF : w_cfg st1 = c) by apply S1.
    exists sec', cur'.
    assert (RI : rec_ids r' = match r_val r with RVal h => [h] | RVal2 h t => [h; t] | _ => [] end) by reflexivity.
    destruct (r_val r) as [|h|h t|s].
    - subst st'. split; [exact S1|]. split; [exact B1|]. split; [exact G1|]. split; [|auto].
      unfold OI. destruct (c_skip_index_objects c) eqn:SK; [rewrite O1c, HO, SK; reflexivity|].
      rewrite (XO eq_refl), RI. reflexivity.
    - subst st'. destruct (index_hash_obj st1 h CF) as (E1 & E2 & E3 & E4 & E5).
      destruct (index_hash_log st1 h) as [E6 E7].
      split; [apply index_hash_frame; exact S1|]. split; [rewrite E7; exact B1|]. split; [rewrite E6; exact G1|].
      split; [|rewrite E4, E5; auto].
      unfold OI. rewrite E1, E2. destruct (c_skip_index_objects c) eqn:SK; [rewrite O1c, HO, SK; reflexivity|].
      rewrite (XO eq_refl), RI. reflexivity.
    - subst st'. destruct (index_hash_obj st1 h CF) as (E1 & E2 & E3 & E4 & E5).
      destruct (index_hash_obj (index_hash st1 h) t E3) as (F1 & F2 & F3 & F4 & F5).
      destruct (index_hash_log st1 h) as [E6 E7]. destruct (index_hash_log (index_hash st1 h) t) as [F6 F7].
      split; [apply index_hash_frame, index_hash_frame; exact S1|]. split; [rewrite F7, E7; exact B1|].
      split; [rewrite F6, E6; exact G1|]. split; [|rewrite F4, F5, E4, E5; auto].
      unfold OI. rewrite F1, F2, E1, E2. destruct (c_skip_index_objects c) eqn:SK; [rewrite O1c, HO, SK; reflexivity|].
      rewrite (XO eq_refl), RI. reflexivity.
    - subst st'. split; [exact S1|]. split; [exact B1|]. split; [exact G1|]. split; [|auto].
      unfold OI. destruct (c_skip_index_objects c) eqn:SK; [rewrite O1c, HO, SK; reflexivity|].
      rewrite (XO eq_refl), RI. reflexivity.
  Qed.

  Lemma add_refs_SI2 : forall refs st sec cur L st',
    SI_ typ_ref st [] sec cur L -> w_bw st <> None -> OI st sec cur ->
    add_refs deflate st refs = Ok st' ->
    exists sec' cur', SI_ typ_ref st' [] sec' cur' (L ++ map RecRef (map (delta_ref mn) refs)) /\ w_bw st' <> None /\
      w_log st' = w_log st /\ OI st' sec' cur' /\ w_objs st' = w_objs st /\ w_idlen st' = w_idlen st.
  Proof.
    induction refs as [|r t IH]; intros st sec cur L st' HS Hb HO H; cbn [add_refs] in H.
    - apply Ok_inj in H. subst st'. exists sec, cur. cbn [map]. rewrite app_nil_r. auto 10.
    - destruct (w_add_ref deflate st r) as [st1| | |] eqn:A; cbn [bind] in H; try discriminate.
      destruct (w_add_ref_SI2 _ _ _ _ _ _ HS HO A) as (sec1 & cur1 & S1 & B1 & G1 & O1 & J1 & K1).
      destruct (IH _ _ _ _ _ S1 B1 O1 H) as (sec' & cur' & S' & B' & G' & O' & J' & K').
      exists sec', cur'. cbn [map].
      replace (L ++ RecRef (delta_ref mn r) :: map RecRef (map (delta_ref mn) t))
        with ((L ++ [RecRef (delta_ref mn r)]) ++ map RecRef (map (delta_ref mn) t)) by (rewrite <- app_assoc; reflexivity).
      split; [exact S'|]. split; [exact B'|]. split; [congruence|]. split; [exact O'|]. split; congruence.
  Qed.

  (* ---- finishSection of the ref or the object section ---- *)

  Lemma finish_section_full : forall T st cs0 sec cur L st',
    SI_ T st cs0 sec cur L -> T = typ_ref \/ T = typ_obj -> w_bw st <> None ->
    finish_section deflate st = Ok st' ->
    exists sec1 lv,
      WI_ st' ((cs0 ++ sec1) ++ concat lv) [] /\
      Forall (fun k => ck_typ k = T) sec1 /\ E sec1 = L /\
      lchain (llen cs0) sec1 lv /\ w_index st' = [] /\ w_log st' = w_log st /\
      ((cur = [] /\ sec1 = sec) \/ (cur <> [] /\ exists k, sec1 = sec ++ [k] /\ ck_recs k = cur)) /\
      w_idlen st' = w_idlen st /\ w_obj st' = w_obj st /\
      (T = typ_ref -> rio st' = (match lv with [] => 0 | _ => top_off (llen cs0) sec1 lv end) /\
                      w_objs st' = w_objs st) /\
      (T = typ_obj -> rio st' = rio st /\
         ts_index_offset (w_objs st') = (match lv with [] => 0 | _ => top_off (llen cs0) sec1 lv end) /\
         ts_offset (w_objs st') =
         ts_offset (match cur with [] => w_objs st | _ => bump (w_objs st) (llen (cs0 ++ sec)) end)).
  Proof.
    intros T st cs0 sec cur L st' HS HT Hb H. unfold finish_section in H.
    destruct (w_bw st) as [b|] eqn:B; [|congruence].
    assert (TB : bw_typ b = T).
    { destruct HS as [_ _ _ _ SB]. rewrite B in SB. exact SB. }
    assert (BT : is_block_type T = true) by (destruct HT as [-> | ->]; reflexivity).
    assert (NL : T =? typ_log = false) by (destruct HT as [-> | ->]; reflexivity).
    destruct (flush_SI deflate c mn mx T st cs0 sec cur L HS ltac:(left; congruence)) as (sec1 & S1 & _ & C).
    set (st1 := flush_block deflate st) in *.
    destruct (index_levels deflate (S (length (w_index st1))) st1 (if c_unaligned (w_cfg st) then 1%nat else 3%nat) 0 0)
      as [[[st2 is2] ml2]| | |] eqn:IL; cbn [bind] in H; try discriminate.
    destruct (index_levels_spec _ _ _ _ _ _ _ _ _ _ _ _ _ _ _ _ S1 IL) as (lv & W2 & LC & G2 & I2 & _).
    pose proof (index_levels_ost _ _ _ _ _ _ _ _ IL) as O2. unfold ost in O2. injection O2 as O2a O2b O2c.
    pose proof (index_levels_rio _ _ _ _ _ _ _ _ _ IL) as R2. fold st1 in R2.
    assert (R1 : rio st1 = rio st) by apply flush_rio.
    (* the statistics after the flush *)
    assert (F1 : w_idlen st1 = w_idlen st /\ w_obj st1 = w_obj st /\
                 w_objs st1 = (match cur with
                               | [] => w_objs st
                               | _ => if T =? typ_obj then bump (w_objs st) (llen (cs0 ++ sec)) else w_objs st
                               end)).
    { destruct C as [(_ & -> & E1)|(k & _ & NE & _)].
      - rewrite E1. auto.
      - pose proof (si_wi _ _ _ _ _ _ _ _ _ _ HS) as W.
        destruct (WI_cur_nil _ _ _ _ _ _ _ _ W B) as [EN _].
        destruct (flush_objs_eq st b B ltac:(rewrite EN; destruct cur; [congruence|discriminate])) as (Q1 & Q2 & Q3).
        fold st1 in Q1, Q2, Q3. split; [exact Q2|]. split; [exact Q3|].
        rewrite Q1, TB, (wi_next _ _ _ _ _ _ _ W). destruct cur; [congruence|reflexivity]. }
    destruct F1 as (F1a & F1b & F1c).
    apply Ok_inj in H. subst st'.
    exists sec1, lv.
    split; [eapply WI_frame; [..|exact W2]; reflexivity|].
    split; [destruct S1 as [_ ST _ _ _]; exact ST|].
    split; [destruct S1 as [_ _ SR _ _]; rewrite app_nil_r in SR; exact SR|].
    split; [exact LC|]. split; [reflexivity|].
    split.
    { rewrite TB. cbn [set_last_key upd set_stats set_index w_log]. rewrite NL, G2.
      destruct C as [(_ & _ & ->)|(k & _ & _ & _ & _ & _ & G)]; [reflexivity|]. rewrite G, NL. reflexivity. }
    split.
    { destruct C as [(E1 & E2 & _)|(k & E1 & NE & RK & _)]; [left; auto|right]. split; [exact NE|]. exists k. auto. }
    split; [cbn [set_last_key upd set_stats set_index w_idlen]; congruence|].
    split; [cbn [set_last_key upd set_stats set_index w_obj]; congruence|].
    rewrite TB. split.
    - intros ->. split.
      + unfold rio. cbn [set_last_key upd set_stats set_index w_ref ts_index_offset].
        change (typ_ref =? typ_ref) with true. cbv iota. cbn [ts_index_offset]. exact I2.
      + cbn [set_last_key upd set_stats set_index w_objs]. change (typ_ref =? typ_obj) with false. cbv iota.
        rewrite O2a, F1c. change (typ_ref =? typ_obj) with false. destruct cur; reflexivity.
    - intros ->. split; [|split].
      + unfold rio in *. cbn [set_last_key upd set_stats set_index w_ref]. change (typ_obj =? typ_ref) with false.
        cbv iota. congruence.
      + cbn [set_last_key upd set_stats set_index w_objs]. change (typ_obj =? typ_obj) with true. cbv iota.
        cbn [ts_index_offset]. exact I2.
      + cbn [set_last_key upd set_stats set_index w_objs]. change (typ_obj =? typ_obj) with true. cbv iota.
        cbn [ts_offset]. unfold get_stats. change (typ_obj =? typ_ref) with false. change (typ_obj =? typ_log) with false.
        change (typ_obj =? typ_obj) with true. cbv iota. cbn [set_index upd w_objs].
        rewrite O2a, F1c. change (typ_obj =? typ_obj) with true. destruct cur; reflexivity.
  Qed.

  (* ---- dumpObjectIndex ---- *)

  Definition OJ (st : wstate) (cs0 sec : list chunk) : Prop :=
    match sec with
    | [] => w_objs st = tstats0
    | _ => ts_blocks (w_objs st) <> 0%nat /\ ts_offset (w_objs st) = llen cs0
    end.

  Definition obj_rel (idlen : nat) (p : bytes * list N) (x : record) : Prop :=
    x = RecObj (firstn idlen (fst p)) (snd p) \/ x = RecObj (firstn idlen (fst p)) [].

  Lemma OJ_flush : forall st cs0 sec cur L,
    SI_ typ_obj st cs0 sec cur L -> w_bw st <> None -> OJ st cs0 sec ->
    forall sec1, SI_ typ_obj (flush_block deflate st) cs0 sec1 [] L ->
    (sec1 = sec /\ cur = [] /\ flush_block deflate st = st) \/
    (exists k, sec1 = sec ++ [k] /\ cur <> []) ->
    OJ (flush_block deflate st) cs0 sec1 /\ w_idlen (flush_block deflate st) = w_idlen st /\
    w_obj (flush_block deflate st) = w_obj st.
  Proof.
    intros st cs0 sec cur L HS Hb HJ sec1 S1 C.
    destruct C as [(-> & _ & ->)|(k & -> & NE)]; [auto|].
    destruct (w_bw st) as [b|] eqn:B; [|congruence].
    pose proof (si_wi _ _ _ _ _ _ _ _ _ _ HS) as W.
    destruct (WI_cur_nil _ _ _ _ _ _ _ _ W B) as [EN _].
    destruct (flush_objs_eq st b B ltac:(rewrite EN; destruct cur; [congruence|discriminate])) as (Q1 & Q2 & Q3).
    split; [|auto].
    assert (TB : bw_typ b = typ_obj).
    { destruct HS as [_ _ _ _ SB]. rewrite B in SB. exact SB. }
    rewrite TB in Q1. change (typ_obj =? typ_obj) with true in Q1. cbv iota in Q1.
    rewrite (wi_next _ _ _ _ _ _ _ W) in Q1. fold (llen (cs0 ++ sec)) in Q1.
    assert (OJ' : ts_blocks (w_objs (flush_block deflate st)) <> 0%nat /\
                  ts_offset (w_objs (flush_block deflate st)) = llen cs0).
    { rewrite Q1. unfold bump. cbn [ts_blocks ts_offset]. split; [discriminate|].
      destruct sec as [|a s]; unfold OJ in HJ.
      - rewrite HJ. cbn [tstats0 ts_blocks Nat.eqb]. rewrite app_nil_r. reflexivity.
      - destruct HJ as [NZ O]. destruct (Nat.eqb_spec (ts_blocks (w_objs st)) 0); [congruence|exact O]. }
    unfold OJ. destruct sec; exact OJ'.
  Qed.

  Lemma dump_objs_full : forall objs st idlen cs0 sec cur L st',
    SI_ typ_obj st cs0 sec cur L -> w_bw st <> None -> OJ st cs0 sec ->
    dump_objs deflate st idlen objs = Ok st' ->
    exists sec' cur' L', SI_ typ_obj st' cs0 sec' cur' (L ++ L') /\ w_bw st' <> None /\ w_log st' = w_log st /\
      Forall2 (obj_rel idlen) objs L' /\ OJ st' cs0 sec' /\ w_idlen st' = w_idlen st /\ w_obj st' = w_obj st.
  Proof.
    induction objs as [|[k offs] rest IH]; intros st idlen cs0 sec cur L st' HS Hb HJ H; cbn [dump_objs] in H.
    - apply Ok_inj in H. subst st'. exists sec, cur, []. rewrite app_nil_r. auto 10.
    - destruct (w_bw st) as [b|] eqn:B; [|congruence].
      destruct (bw_add b (RecObj (firstn idlen k) offs)) as [a| | |] eqn:Ha; cbn [bind] in H; try discriminate.
      destruct a as [b'|].
      + pose proof (add_step deflate c mn mx typ_obj st cs0 sec cur L _ b _ HS eq_refl B Ha) as AS. cbv beta iota in AS.
        destruct (IH _ _ _ _ _ _ _ AS ltac:(discriminate) HJ H) as (sec' & cur' & L' & S' & B' & G' & R' & J' & K' & M').
        exists sec', cur', (RecObj (firstn idlen k) offs :: L').
        split; [rewrite <- app_assoc in S'; exact S'|]. split; [exact B'|]. split; [exact G'|].
        split; [constructor; [left; reflexivity|exact R']|]. auto.
      + destruct (flush_SI deflate c mn mx typ_obj st cs0 sec cur L HS ltac:(left; congruence)) as (sec1 & S1 & _ & C).
        destruct (OJ_flush st cs0 sec cur L HS ltac:(congruence) HJ sec1 S1) as (J1 & K1 & M1).
        { destruct C as [C|(k0 & E1 & NE & _)]; [left; exact C|right; exists k0; auto]. }
        set (st1 := flush_block deflate st) in *.
        assert (G1 : w_log st1 = w_log st).
        { destruct C as [(_ & _ & ->)|(k0 & _ & _ & _ & _ & _ & G)]; [reflexivity|]. rewrite G. reflexivity. }
        destruct (bw_add (new_bw st1 typ_obj) (RecObj (firstn idlen k) offs)) as [a2| | |] eqn:Ha2; cbn [bind] in H;
          try discriminate.
        destruct a2 as [b2|].
        * pose proof (fresh_add_SI deflate c mn mx typ_obj st1 cs0 sec1 L _ b2 S1 eq_refl Ha2) as S2.
          destruct (IH _ _ _ _ _ _ _ S2 ltac:(discriminate) J1 H) as (sec' & cur' & L' & S' & B' & G' & R' & J' & K' & M').
          exists sec', cur', (RecObj (firstn idlen k) offs :: L').
          split; [rewrite <- app_assoc in S'; exact S'|]. split; [exact B'|]. split; [rewrite G'; exact G1|].
          split; [constructor; [left; reflexivity|exact R']|]. split; [exact J'|].
          split; [rewrite K'; exact K1|rewrite M'; exact M1].
        * destruct (bw_add (new_bw st1 typ_obj) (RecObj (firstn idlen k) [])) as [a3| | |] eqn:Ha3; cbn [bind] in H;
            try discriminate.
          destruct a3 as [b3|]; [|discriminate].
          pose proof (fresh_add_SI deflate c mn mx typ_obj st1 cs0 sec1 L _ b3 S1 eq_refl Ha3) as S2.
          destruct (IH _ _ _ _ _ _ _ S2 ltac:(discriminate) J1 H) as (sec' & cur' & L' & S' & B' & G' & R' & J' & K' & M').
          exists sec', cur', (RecObj (firstn idlen k) [] :: L').
          split; [rewrite <- app_assoc in S'; exact S'|]. split; [exact B'|]. split; [rewrite G'; exact G1|].
          split; [constructor; [right; reflexivity|exact R']|]. split; [exact J'|].
          split; [rewrite K'; exact K1|rewrite M'; exact M1].
  Qed.

  (* the object section as it is in the file *)
  Record obj_sec (pre : N) (M : omap) (osec : list chunk) (olv : list (list chunk)) (oo oi : N) (idl : nat)
    : Prop := {
    os_typ : Forall (fun k => ck_typ k = typ_obj) osec;
    os_chain : lchain pre osec olv;
    os_nil : osec = [] -> olv = [];
    os_oo : oo = (match osec with [] => 0 | _ => pre end);
    os_oi : oi = (match olv with [] => 0 | _ => top_off pre osec olv end);
    os_idl : (idl < 32)%nat;
    os_recs : osec <> [] -> Forall2 (obj_rel idl) M (E osec) /\ idl = S (max_common [] (map fst M) 0) }.

  Lemma obj_sec_none : forall pre M idl, (idl < 32)%nat -> obj_sec pre M [] [] 0 0 idl.
  Proof.
    intros pre M idl H. constructor.
    - constructor.
    - exact I.
    - reflexivity.
    - reflexivity.
    - reflexivity.
    - exact H.
    - congruence.
  Qed.

  Lemma dump_object_index_full : forall st cs st',
    WI_ st cs [] -> w_index st = [] -> w_objs st = tstats0 -> (w_idlen st < 32)%nat ->
    dump_object_index deflate st = Ok st' ->
    exists osec olv, WI_ st' (cs ++ osec ++ concat olv) [] /\
      obj_sec (llen cs) (w_obj st) osec olv (ts_offset (w_objs st')) (ts_index_offset (w_objs st')) (w_idlen st') /\
      w_log st' = w_log st /\ w_index st' = [] /\ rio st' = rio st.
  Proof.
    intros st cs st' W X Z IDL H. unfold dump_object_index in H.
    destruct (Nat.leb_spec 32 (S (max_common [] (map fst (w_obj st)) 0))) as [L32|L32].
    - apply Ok_inj in H. subst st'. exists [], []. cbn [concat app]. rewrite app_nil_r.
      split; [exact W|]. split; [|auto]. rewrite Z. cbn [tstats0 ts_offset ts_index_offset].
      apply obj_sec_none. exact IDL.
    - set (mc := S (max_common [] (map fst (w_obj st)) 0)) in *.
      set (st1 := set_obj st (w_obj st) (w_blocks st) mc) in *.
      set (st2 := set_bw st1 (Some (new_bw st1 typ_obj))) in *.
      destruct (dump_objs deflate st2 mc (w_obj st2)) as [st3| | |] eqn:D; cbn [bind] in H; try discriminate.
      assert (W1 : WI_ st1 cs []) by (eapply WI_frame; [..|exact W]; reflexivity).
      assert (S2 : SI_ typ_obj st2 cs [] [] []).
      { constructor.
        - rewrite app_nil_r. apply WI_new_bw; [exact W1|reflexivity].
        - constructor.
        - reflexivity.
        - cbn [st2 st1 set_bw set_obj upd w_index idx_of]. exact X.
        - cbn [st2 set_bw upd w_bw]. rewrite (new_bw_fresh c) by apply W1. reflexivity. }
      assert (J2 : OJ st2 cs []) by exact Z.
      destruct (dump_objs_full _ _ _ _ _ _ _ _ S2 ltac:(discriminate) J2 D)
        as (sec' & cur' & L' & S3 & B3 & G3 & R3 & J3 & K3 & M3).
      cbn [app] in S3.
      destruct (finish_section_full typ_obj st3 cs sec' cur' L' st' S3 ltac:(right; reflexivity) B3 H)
        as (sec1 & lv & W4 & T4 & E4 & LC & X4 & G4 & C4 & K4 & M4 & _ & Q4).
      destruct (Q4 eq_refl) as (Q4a & Q4b & Q4c).
      exists sec1, lv. rewrite app_assoc. split; [exact W4|].
      assert (NIL : sec1 = [] -> lv = []).
      { intros ->. eapply lchain_nil_sec; [exact LC|].
        pose proof (wi_chunks _ _ _ _ _ _ _ W4) as CH. apply (chunks_nonempty deflate c mn mx) in CH.
        apply Forall_app in CH. apply CH. }
      split; [|split; [rewrite G4; exact G3|split; [exact X4|]]].
      + constructor.
        * exact T4.
        * exact LC.
        * exact NIL.
        * rewrite Q4c. destruct C4 as [(-> & ->)|(NE & k & -> & RK)].
          -- unfold OJ in J3. destruct sec' as [|a s]; [rewrite J3; reflexivity|]. apply J3.
          -- unfold OJ in J3. destruct cur' as [|x cur'']; [congruence|]. unfold bump. cbn [ts_offset].
             destruct sec' as [|a s].
             ++ rewrite J3. cbn [tstats0 ts_blocks Nat.eqb app]. rewrite app_nil_r. reflexivity.
             ++ destruct J3 as [NZ O]. destruct (Nat.eqb_spec (ts_blocks (w_objs st3)) 0); [congruence|].
                cbn [app]. exact O.
        * exact Q4b.
        * rewrite K4, K3. cbn [st2 st1 set_bw set_obj upd w_idlen]. unfold mc. lia.
        * intros _. rewrite E4, K4, K3. cbn [st2 st1 set_bw set_obj upd w_idlen]. split; [exact R3|reflexivity].
      + rewrite Q4a. rewrite (dump_objs_rio _ _ _ _ _ D). reflexivity.
  Qed.

  (* ---- finishPublicSection of the ref section ---- *)

  Lemma fps_ref_spec3 : forall st sec cur L st',
    SI_ typ_ref st [] sec cur L -> w_bw st <> None -> OI st sec cur ->
    w_objs st = tstats0 -> (w_idlen st < 32)%nat ->
    finish_public_section deflate st = Ok st' ->
    exists rsec rlv osec olv,
      WI_ st' ((rsec ++ concat rlv) ++ osec ++ concat olv) [] /\ w_bw st' = None /\
      Forall (fun k => ck_typ k = typ_ref) rsec /\ E rsec = L /\ lchain 0 rsec rlv /\
      w_log st' = w_log st /\ w_index st' = [] /\
      rio st' = (match rlv with [] => 0 | _ => top_off 0 rsec rlv end) /\
      obj_sec (llen (rsec ++ concat rlv)) (obj_of (sec_ids 0 rsec)) osec olv
              (ts_offset (w_objs st')) (ts_index_offset (w_objs st')) (w_idlen st').
  Proof.
    intros st sec cur L st' HS Hb HO Z IDL H. unfold finish_public_section in H.
    destruct (w_bw st) as [b|] eqn:B; [|congruence].
    destruct (finish_section deflate st) as [st1| | |] eqn:FS; cbn [bind] in H; try discriminate.
    destruct (finish_section_full typ_ref st [] sec cur L st1 HS ltac:(left; reflexivity) ltac:(congruence) FS)
      as (rsec & rlv & W1 & T1 & E1 & LC & X1 & G1 & C1 & K1 & M1 & Q1 & _).
    destruct (Q1 eq_refl) as (Q1a & Q1b).
    cbn [app] in W1. change (llen []) with 0 in LC, Q1a.
    assert (CF : w_cfg st1 = c) by apply W1.
    (* the index collected while adding refs describes the flushed ref blocks *)
    assert (MO : c_skip_index_objects c = false -> w_obj st1 = obj_of (sec_ids 0 rsec)).
    { intros SK. rewrite M1, HO, SK. f_equal.
      pose proof (wi_next _ _ _ _ _ _ _ (si_wi _ _ _ _ _ _ _ _ _ _ HS)) as NX. cbn [app] in NX. fold (llen sec) in NX.
      destruct C1 as [(-> & ->)|(NE & k & -> & RK)].
      - cbn [tag_ids flat_map]. apply app_nil_r.
      - rewrite sec_ids_app. cbn [sec_ids]. rewrite app_nil_r, RK, NX, N.add_0_l. reflexivity. }
    destruct ((bw_typ b =? typ_ref) && negb (c_skip_index_objects (w_cfg st1)) &&
              Nat.ltb 0 (ts_index_blocks (w_ref st1))) eqn:COND.
    - destruct (dump_object_index deflate st1) as [st2| | |] eqn:D; cbn [bind] in H; try discriminate.
      apply Ok_inj in H. subst st'.
      assert (SK : c_skip_index_objects c = false).
      { rewrite CF in COND. destruct (c_skip_index_objects c); [|reflexivity].
        rewrite andb_false_r in COND. discriminate. }
      destruct (dump_object_index_full st1 _ st2 W1 X1 ltac:(rewrite Q1b; exact Z) ltac:(rewrite K1; exact IDL) D)
        as (osec & olv & W2 & OS & G2 & X2 & R2).
      exists rsec, rlv, osec, olv.
      split; [eapply WI_set_bw_none; exact W2|]. split; [reflexivity|]. split; [exact T1|]. split; [exact E1|].
      split; [exact LC|]. split; [cbn [set_bw upd w_log]; congruence|]. split; [exact X2|].
      split; [unfold rio in *; cbn [set_bw upd w_ref]; rewrite R2; exact Q1a|].
      rewrite (MO SK) in OS. exact OS.
    - cbn [bind] in H. apply Ok_inj in H. subst st'.
      exists rsec, rlv, [], []. cbn [concat app]. rewrite app_nil_r.
      split; [eapply WI_set_bw_none; exact W1|]. split; [reflexivity|]. split; [exact T1|]. split; [exact E1|].
      split; [exact LC|]. split; [exact G1|]. split; [exact X1|]. split; [exact Q1a|].
      cbn [set_bw upd w_objs w_idlen]. rewrite Q1b, Z, K1. cbn [tstats0 ts_offset ts_index_offset].
      apply obj_sec_none. exact IDL.
  Qed.

  (* ---- the ref part of the file, with its object section ---- *)

  Definition ref_part3 (cs : list chunk) (Lref : list record) (ri oo oi : N) (idl : nat) : Prop :=
    exists rsec rlv osec olv,
      cs = (rsec ++ concat rlv) ++ osec ++ concat olv /\
      Forall (fun k => ck_typ k = typ_ref) rsec /\ E rsec = Lref /\ lchain 0 rsec rlv /\
      ri = (match rlv with [] => 0 | _ => top_off 0 rsec rlv end) /\
      obj_sec (llen (rsec ++ concat rlv)) (obj_of (sec_ids 0 rsec)) osec olv oo oi idl.

  Lemma sec_ids_unpad : forall sec off, sec_ids off (unpad sec) = sec_ids off sec.
  Proof.
    intros sec off. destruct (snoc_cases _ sec) as [->|(b' & x & ->)]; [reflexivity|].
    rewrite unpad_snoc, !sec_ids_app. reflexivity.
  Qed.

  Lemma E_unpad : forall sec, E (unpad sec) = E sec.
  Proof. intros. unfold E. rewrite unpad_recs. reflexivity. Qed.

  Lemma obj_sec_nil_any : forall pre M oo oi idl pre' M',
    obj_sec pre M [] [] oo oi idl -> obj_sec pre' M' [] [] oo oi idl.
  Proof.
    intros pre M oo oi idl pre' M' [A1 A2 A3 A4 A5 A6 A7]. constructor; try assumption. congruence.
  Qed.

  Lemma ref_part3_unpad : forall cs Lref ri oo oi idl,
    ref_part3 cs Lref ri oo oi idl -> ref_part3 (unpad cs) Lref ri oo oi idl.
  Proof.
    intros cs Lref ri oo oi idl (rsec & rlv & osec & olv & EQ & T & R & LC & RI & OS).
    destruct osec as [|ko osec'].
    - (* no object section: the last chunk belongs to the ref part *)
      pose proof (os_nil _ _ _ _ _ _ _ OS eq_refl) as ->. cbn [concat app] in EQ. rewrite app_nil_r in EQ.
      destruct rlv as [|s1 rest].
      + cbn [concat] in EQ. rewrite app_nil_r in EQ. subst cs.
        exists (unpad rsec), [], [], []. cbn [concat app]. rewrite !app_nil_r.
        split; [reflexivity|]. split; [apply unpad_Forall; auto|]. split; [rewrite E_unpad; exact R|].
        split; [exact I|]. split; [exact RI|]. eapply obj_sec_nil_any. exact OS.
      + destruct (lchain_unpad _ _ _ LC ltac:(discriminate)) as (lv' & CC & LC' & TO & NL).
        exists rsec, lv', [], []. cbn [concat app]. rewrite app_nil_r. split.
        * rewrite EQ, CC. apply unpad_app_r.
          destruct LC as (_ & _ & N1 & _). cbn [concat]. intros Q. apply app_eq_nil in Q. destruct Q. congruence.
        * split; [exact T|]. split; [exact R|]. split; [exact LC'|].
          split; [rewrite RI, <- TO; destruct lv'; [congruence|reflexivity]|].
          eapply obj_sec_nil_any. exact OS.
    - destruct OS as [A1 A2 A3 A4 A5 A6 A7].
      destruct olv as [|s1 rest].
      + exists rsec, rlv, (unpad (ko :: osec')), []. cbn [concat]. rewrite !app_nil_r. split.
        * rewrite EQ. cbn [concat]. rewrite app_nil_r. apply unpad_app_r. discriminate.
        * split; [exact T|]. split; [exact R|]. split; [exact LC|]. split; [exact RI|].
          assert (U : unpad (ko :: osec') <> []) by (rewrite unpad_nil_iff; discriminate).
          constructor.
          -- apply unpad_Forall; auto.
          -- exact I.
          -- congruence.
          -- rewrite A4. destruct (unpad (ko :: osec')); [congruence|reflexivity].
          -- exact A5.
          -- exact A6.
          -- intros _. rewrite E_unpad. apply A7. discriminate.
      + destruct (lchain_unpad _ _ _ A2 ltac:(discriminate)) as (lv' & CC & LC' & TO & NL).
        exists rsec, rlv, (ko :: osec'), lv'. split.
        * rewrite EQ, CC. rewrite unpad_app_r.
          -- rewrite unpad_app_r; [reflexivity|].
             destruct A2 as (_ & _ & N2 & _). cbn [concat]. intros Q. apply app_eq_nil in Q. destruct Q. congruence.
          -- discriminate.
        * split; [exact T|]. split; [exact R|]. split; [exact LC|]. split; [exact RI|].
          constructor; try assumption.
          -- congruence.
          -- rewrite A5, <- TO. destruct lv'; [congruence|reflexivity].
  Qed.

  (* ---- the final layout ---- *)

  Definition final_ok3 (fcs : list chunk) (Lref Llog : list record) (ri oo oi : N) (idl : nat) (lo li : N) : Prop :=
    exists cs0 lsec lv,
      fcs = cs0 ++ lsec ++ concat lv /\ ref_part3 cs0 Lref ri oo oi idl /\
      Forall (fun k => ck_typ k = typ_log) lsec /\ E lsec = Llog /\
      lchain (llen cs0) lsec lv /\ (lsec = [] -> lv = []) /\
      lo = (match lsec with [] => 0 | _ => llen cs0 end) /\
      li = (match lv with [] => 0 | _ => top_off (llen cs0) lsec lv end).

  Definition closed_ok3 (data : bytes) (Lref Llog : list record) : Prop :=
    exists fcs st1,
      data = layout fcs ++ footer_st c mn mx st1 ++ be32 (crc32 (footer_st c mn mx st1)) /\ fcs <> [] /\
      chunks_at deflate c mn mx 0 fcs /\ last_pad fcs = 0%nat /\
      final_ok3 fcs Lref Llog (rio st1) (ts_offset (w_objs st1)) (ts_index_offset (w_objs st1)) (w_idlen st1)
                (ts_offset (w_log st1)) (ts_index_offset (w_log st1)).

  Lemma w_close_PR3 : forall st sec cur L data,
    SI_ typ_ref st [] sec cur L -> w_bw st <> None -> w_log st = tstats0 -> OI st sec cur ->
    w_objs st = tstats0 -> (w_idlen st < 32)%nat ->
    w_close deflate st = Ok (false, data) -> closed_ok3 data L [].
  Proof.
    intros st sec cur L data HS Hb G HO Z IDL H.
    destruct (finish_public_section deflate st) as [st1| | |] eqn:F;
      try (unfold w_close in H; rewrite F in H; discriminate).
    destruct (fps_ref_spec3 st sec cur L st1 HS Hb HO Z IDL F)
      as (rsec & rlv & osec & olv & W1 & B1 & T1 & R1 & LC & G1 & X1 & I1 & OS).
    destruct (w_close_out deflate c mn mx _ _ _ _ F W1 H) as (D & NE).
    destruct (out_unpad deflate c mn mx _ _ _ W1) as (_ & C & P & _).
    exists (unpad ((rsec ++ concat rlv) ++ osec ++ concat olv)), st1. split; [exact D|].
    split; [rewrite unpad_nil_iff; exact NE|].
    split; [exact C|]. split; [exact P|].
    exists (unpad ((rsec ++ concat rlv) ++ osec ++ concat olv)), [], []. cbn [concat app]. rewrite app_nil_r.
    split; [reflexivity|]. split.
    { apply ref_part3_unpad. exists rsec, rlv, osec, olv. auto 10. }
    split; [constructor|]. split; [reflexivity|]. split; [exact I|]. split; [reflexivity|].
    rewrite G1, G. split; reflexivity.
  Qed.

  Lemma w_add_log_first3 : forall st sec cur L l st',
    SI_ typ_ref st [] sec cur L -> w_bw st <> None -> ts_blocks (w_log st) = 0%nat -> OI st sec cur ->
    w_objs st = tstats0 -> (w_idlen st < 32)%nat ->
    w_add_log deflate st l = Ok st' ->
    exists l1 cs0 sec' cur' ri oo oi idl, norm_log (c_exact_log c) l = Some l1 /\
      PL deflate c mn mx st' cs0 sec' cur' [RecLog l1] /\ ref_part3 cs0 L ri oo oi idl /\
      oinf st' = (ri, oo, oi, idl).
  Proof.
    intros st sec cur L l st' HS Hb Z HO ZO IDL H. unfold w_add_log in H.
    destruct (Nat.eqb (length (l_name l)) 0); [discriminate|].
    assert (CF : w_cfg st = c) by (destruct HS as [W _ _ _ _]; apply W).
    rewrite CF in H.
    destruct (norm_log (c_exact_log c) l) as [l1|]; [|discriminate].
    destruct (w_bw st) as [b|] eqn:B; [|congruence].
    assert (TB : bw_typ b = typ_ref).
    { destruct HS as [_ _ _ _ SB]. rewrite B in SB. exact SB. }
    rewrite TB in H.
    change (typ_ref =? typ_ref) with true in H. cbv iota in H.
    destruct (finish_public_section deflate st) as [st1| | |] eqn:F; cbn [bind] in H; try discriminate.
    destruct (fps_ref_spec3 st sec cur L st1 HS ltac:(congruence) HO ZO IDL F)
      as (rsec & rlv & osec & olv & W1 & B1 & T1 & R1 & LC & G1 & X1 & I1 & OS).
    pose proof (take_back deflate c mn mx st1 _ W1 B1) as W2.
    set (st2 := upd st1 (w_out st1) 0 (w_next st1 - w_pad st1) (w_last_key st1) (w_bw st1) (w_index st1)) in *.
    set (cs0 := unpad ((rsec ++ concat rlv) ++ osec ++ concat olv)) in *.
    assert (S2 : SI_ typ_log st2 cs0 [] [] []).
    { constructor.
      - rewrite app_nil_r. exact W2.
      - constructor.
      - reflexivity.
      - cbn [st2 upd w_index idx_of]. exact X1.
      - cbn [st2 upd w_bw]. rewrite B1. exact I. }
    destruct (out_unpad deflate c mn mx _ _ _ W1) as (_ & _ & P0 & _).
    assert (H' : w_add deflate (upd st2 (w_out st2) 0 (w_next st2 - w_pad st2) (w_last_key st2) (w_bw st2) (w_index st2))
                   (RecLog l1) = Ok st').
    { cbn [st2 upd w_out w_pad w_next w_last_key w_bw w_index]. rewrite N.sub_0_r. exact H. }
    destruct (w_add_log_core deflate c mn mx st2 _ [] [] [] l1 st' S2 P0) as (sec' & cur' & P'); try exact H'.
    - intros _. cbn [st2 upd w_log]. rewrite G1. exact Z.
    - congruence.
    - exists l1, cs0, sec', cur', (rio st1), (ts_offset (w_objs st1)), (ts_index_offset (w_objs st1)), (w_idlen st1).
      cbn [app] in P'. split; [reflexivity|]. split; [exact P'|]. split.
      + apply ref_part3_unpad. exists rsec, rlv, osec, olv. auto 10.
      + change (rio st1, ts_offset (w_objs st1), ts_index_offset (w_objs st1), w_idlen st1) with (oinf st2).
        apply oinf_frame.
        * apply (w_add_ost _ _ _ H). discriminate.
        * apply (w_add_rio _ _ _ _ H).
  Qed.

  Lemma w_close_PL3 : forall st cs0 sec cur Lref L ri oo oi idl data,
    PL deflate c mn mx st cs0 sec cur L -> L <> [] -> ref_part3 cs0 Lref ri oo oi idl ->
    oinf st = (ri, oo, oi, idl) ->
    w_close deflate st = Ok (false, data) -> closed_ok3 data Lref L.
  Proof.
    intros st cs0 sec cur Lref L ri oo oi idl data [HS Hb P0 Z0 Z1] LNE RP RI H.
    destruct (finish_public_section deflate st) as [st1| | |] eqn:F;
      try (unfold w_close in H; rewrite F in H; discriminate).
    destruct (fps_log_spec deflate c mn mx st _ sec cur L st1 HS Hb F) as (sec1 & lv & W1 & T1 & R1 & LC & C1 & C2 & G1).
    destruct (w_close_out deflate c mn mx _ _ _ _ F W1 H) as (D & NE).
    destruct (out_unpad deflate c mn mx _ _ _ W1) as (_ & C & P & _).
    assert (RI1 : oinf st1 = (ri, oo, oi, idl)).
    { rewrite <- RI. unfold finish_public_section in F.
      destruct (w_bw st) as [b|] eqn:B; [|congruence].
      assert (TB : bw_typ b = typ_log).
      { destruct HS as [_ _ _ _ SB]. rewrite B in SB. exact SB. }
      destruct (finish_section deflate st) as [st0| | |] eqn:FS; cbn [bind] in F; try discriminate.
      rewrite TB in F. change (typ_log =? typ_ref) with false in F. cbn [andb bind] in F.
      apply Ok_inj in F. subst st1. change (oinf (set_bw st0 None)) with (oinf st0).
      apply oinf_frame.
      - eapply finish_section_ost; [exact FS|exact B|]. rewrite TB. discriminate.
      - eapply finish_section_rio; [exact FS|exact B|]. rewrite TB. discriminate. }
    unfold oinf in RI1. injection RI1 as Q1 Q2 Q3 Q4.
    assert (NE1 : sec1 <> []).
    { intros ->. cbn [map concat] in R1. congruence. }
    cbv zeta in G1. destruct G1 as (GO & _ & GI).
    assert (LO : ts_offset (w_log st1) = llen cs0).
    { rewrite GO. destruct sec as [|k0 sec0].
      - destruct cur as [|x cur'].
        + exfalso. apply NE1. apply C1. reflexivity.
        + unfold bump. cbn [ts_offset]. rewrite (Z0 eq_refl). cbn [Nat.eqb]. rewrite app_nil_r. reflexivity.
      - destruct (Z1 ltac:(discriminate)) as [NZ O].
        destruct cur as [|x cur']; [exact O|]. unfold bump. cbn [ts_offset].
        destruct (Nat.eqb_spec (ts_blocks (w_log st)) 0); [congruence|exact O]. }
    exists (unpad ((cs0 ++ sec1) ++ concat lv)), st1. split; [exact D|]. split; [rewrite unpad_nil_iff; exact NE|].
    split; [exact C|]. split; [exact P|]. rewrite Q1, Q2, Q3, Q4.
    destruct lv as [|s1 rest].
    - exists cs0, (unpad sec1), []. cbn [concat]. rewrite !app_nil_r.
      split; [apply unpad_app_r; exact NE1|]. split; [exact RP|].
      split; [apply unpad_Forall; auto|]. split; [rewrite E_unpad; exact R1|]. split; [exact I|].
      split; [reflexivity|].
      assert (U : unpad sec1 <> []) by (rewrite unpad_nil_iff; exact NE1).
      split; [|exact GI]. rewrite LO. destruct (unpad sec1); [congruence|reflexivity].
    - destruct (lchain_unpad _ _ _ LC ltac:(discriminate)) as (lv' & CC & LC' & TO & NL).
      exists cs0, sec1, lv'.
      split.
      { rewrite CC. rewrite <- app_assoc. rewrite unpad_app_r.
        - rewrite unpad_app_r; [reflexivity|].
          destruct LC as (_ & _ & N2 & _). cbn [concat]. intros Q. apply app_eq_nil in Q. destruct Q. congruence.
        - intros Q. apply app_eq_nil in Q. destruct Q. congruence. }
      split; [exact RP|].
      split; [exact T1|]. split; [exact R1|]. split; [exact LC'|]. split; [congruence|].
      split; [rewrite LO; destruct sec1; [congruence|reflexivity]|].
      rewrite GI, <- TO. destruct lv'; [congruence|reflexivity].
  Qed.
End RefsW.

Theorem written3 : forall deflate cfg min max refs logs data,
  write_table deflate cfg min max refs logs = Ok (false, data) ->
  exists nl, norm_logs (c_exact_log cfg) logs = Some nl /\
    c_block_size cfg < 16777216 /\
    closed_ok3 deflate (cfg_defaults cfg) min max data
               (map RecRef (map (delta_ref min) refs)) (map RecLog nl).
Proof.
  intros deflate cfg min max refs logs data H. unfold write_table in H.
  destruct (w_new cfg) as [st0| | |] eqn:N0; cbn [bind] in H; try discriminate.
  destruct (w_new_SI deflate cfg min max st0 N0) as (BS & S0 & B0 & G0). cbv zeta in S0, B0, G0.
  assert (Z0 : OI (cfg_defaults cfg) (set_limits st0 min max) [] [] /\
               w_objs (set_limits st0 min max) = tstats0 /\ w_idlen (set_limits st0 min max) = 0%nat).
  { unfold w_new in N0. destruct (16777216 <=? c_block_size cfg); [discriminate|].
    destruct (block_too_small cfg) eqn:TS; [discriminate|]. apply Ok_inj in N0. subst st0.
    split; [|split; reflexivity]. unfold OI. cbn [set_limits set_bw upd w_obj sec_ids tag_ids flat_map app].
    destruct (c_skip_index_objects (cfg_defaults cfg)); reflexivity. }
  destruct Z0 as (O0 & J0 & K0).
  destruct (add_refs deflate (set_limits st0 min max) refs) as [st1| | |] eqn:AR; cbn [bind] in H; try discriminate.
  destruct (add_refs_SI2 _ _ _ _ _ _ _ _ _ _ S0 B0 O0 AR) as (sec1 & cur1 & S1 & B1 & G1 & O1 & J1 & K1). cbn [app] in S1.
  rewrite J0 in J1. rewrite K0 in K1.
  destruct (add_logs deflate st1 logs) as [st2| | |] eqn:AL; cbn [bind] in H; try discriminate.
  destruct logs as [|l t].
  - cbn [add_logs] in AL. apply Ok_inj in AL. subst st2. exists []. split; [reflexivity|]. split; [exact BS|].
    eapply w_close_PR3; [exact S1|exact B1|congruence|exact O1|exact J1|rewrite K1; lia|exact H].
  - cbn [add_logs] in AL.
    destruct (w_add_log deflate st1 l) as [st1'| | |] eqn:A1; cbn [bind] in AL; try discriminate.
    destruct (w_add_log_first3 _ _ _ _ _ _ _ _ _ _ S1 B1 ltac:(rewrite G1, G0; reflexivity) O1 J1 ltac:(rewrite K1; lia) A1)
      as (l1 & cs0 & sec' & cur' & ri & oo & oi & idl & N1 & P1 & RP & OF).
    destruct (add_logs_PL _ _ _ _ _ _ _ _ _ _ _ P1 AL) as (nl & sec2 & cur2 & N2 & P2).
    exists (l1 :: nl). cbn [norm_logs]. change (c_exact_log (cfg_defaults cfg)) with (c_exact_log cfg) in N1, N2.
    rewrite N1, N2. split; [reflexivity|]. split; [exact BS|].
    eapply w_close_PL3; [exact P2|discriminate|exact RP| |exact H].
    rewrite <- OF. apply oinf_frame.
    + eapply add_logs_ost; eassumption.
    + eapply add_logs_rio; eassumption.
Qed.

(* ------------------------------------------------------------------ *)
(* C: the reader *)

(* the first record an iterator yields is the first record of its drain *)
Lemma block_rest_acc : forall fuel r b p acc recs, block_rest fuel r b p acc = Ok recs ->
  exists l, recs = rev acc ++ l.
Proof.
  induction fuel as [|f IH]; intros r b p acc recs H; cbn [block_rest] in H; [discriminate|].
  destruct (bi_next b p) as [[[rec p']|]|]; try discriminate.
  - apply IH in H. destruct H as (l & ->). exists (fix_index r rec :: l). cbn [rev]. rewrite <- app_assoc. reflexivity.
  - apply Ok_inj in H. subst. exists []. rewrite app_nil_r. reflexivity.
Qed.

Lemma block_rest_head : forall fuel r b p recs, block_rest fuel r b p [] = Ok recs ->
  match bi_next b p with
  | Some None => recs = []
  | Some (Some (rec, p')) => exists l', recs = fix_index r rec :: l'
  | None => False
  end.
Proof.
  intros fuel r b p recs H. destruct fuel as [|f]; [discriminate|]. cbn [block_rest] in H.
  destruct (bi_next b p) as [[[rec p']|]|]; try discriminate.
  - apply block_rest_acc in H. destruct H as (l & ->). exists l. reflexivity.
  - apply Ok_inj in H. subst. reflexivity.
Qed.

Lemma drain_next : forall inflate fuel r t acc res, ti_drain inflate fuel r t acc = Ok res ->
  exists l, res = acc ++ l /\
    match l with
    | [] => ti_next inflate fuel r t = Ok None
    | x :: _ => exists t', ti_next inflate fuel r t = Ok (Some (x, t'))
    end.
Proof.
  intros inflate. induction fuel as [|f IH]; intros r t acc res H; cbn [ti_drain] in H; [discriminate|].
  cbn [ti_next]. destruct (ti_done t).
  - apply Ok_inj in H. subst. exists []. rewrite app_nil_r. split; reflexivity.
  - destruct (block_rest (S (length (br_block (ti_br t)))) r (ti_br t) (ti_pos t) []) as [recs| | |] eqn:BR;
      cbn [bind] in H; try discriminate.
    apply block_rest_head in BR.
    destruct (ti_next_block inflate r t) as [[t' moved]| | |] eqn:NB; cbn [bind] in H; try discriminate.
    destruct (bi_next (ti_br t) (ti_pos t)) as [[[rec p']|]|]; [| |destruct BR].
    + destruct BR as (l' & ->). destruct moved.
      * apply IH in H. destruct H as (l & -> & _). exists ((fix_index r rec :: l') ++ l).
        rewrite <- app_assoc. split; [reflexivity|]. cbn [app]. eexists. reflexivity.
      * apply Ok_inj in H. subst. exists (fix_index r rec :: l'). split; [reflexivity|]. eexists. reflexivity.
    + subst recs. cbn [bind]. destruct moved.
      * rewrite app_nil_r in H. apply IH in H. exact H.
      * apply Ok_inj in H. subst. exists []. split; reflexivity.
Qed.

Lemma chunks_pos : forall deflate c mn mx cs off, chunks_at deflate c mn mx off cs ->
  Forall (fun k => 0 < N.of_nat (length (ck_bytes k))) cs.
Proof.
  induction cs as [|k t IH]; intros off H; [constructor|]. cbn [chunks_at] in H. destruct H as [Hk Ht].
  constructor; [|eapply IH; exact Ht]. apply chunk_at_len in Hk. unfold ck_bytes. rewrite app_length. lia.
Qed.

Lemma length_le_llen : forall cs, Forall (fun k => 0 < N.of_nat (length (ck_bytes k))) cs ->
  N.of_nat (length cs) <= llen cs.
Proof.
  induction cs as [|k t IH]; intros F; [unfold llen; cbn; lia|].
  rewrite llen_cons. pose proof (Forall_inv F) as P. cbv beta in P. specialize (IH (Forall_inv_tail F)).
  cbn [length]. lia.
Qed.

Lemma Forall_post_not : forall T post, Forall (fun k => ck_typ k <> T) post -> post_not T post.
Proof.
  intros T post F. destruct post as [|k2 post2]; [left; reflexivity|]. right. exists k2, post2.
  split; [reflexivity|exact (Forall_inv F)].
Qed.

Lemma Forall2_in_l : forall A B (R : A -> B -> Prop) l1 l2 a, Forall2 R l1 l2 -> In a l1 ->
  exists b, In b l2 /\ R a b.
Proof.
  intros A B R l1 l2 a F. induction F as [|x y l1 l2 Rxy F IH]; intros I; [destruct I|].
  destruct I as [<-|I]; [exists y; split; [left; reflexivity|exact Rxy]|].
  destruct (IH I) as (b & Ib & Rb). exists b. split; [right; exact Ib|exact Rb].
Qed.

Lemma Forall2_in_r : forall A B (R : A -> B -> Prop) l1 l2 b, Forall2 R l1 l2 -> In b l2 ->
  exists a, In a l1 /\ R a b.
Proof.
  intros A B R l1 l2 b F. induction F as [|x y l1 l2 Rxy F IH]; intros I; [destruct I|].
  destruct I as [<-|I]; [exists x; split; [left; reflexivity|exact Rxy]|].
  destruct (IH I) as (a & Ia & Ra). exists a. split; [right; exact Ia|exact Ra].
Qed.

Lemma sorted_unmap : forall A B (f : A -> B) (R : B -> B -> Prop) l,
  StronglySorted R (map f l) -> StronglySorted (fun a b => R (f a) (f b)) l.
Proof.
  intros A B f R l. induction l as [|x t IH]; intros S; [constructor|].
  cbn [map] in S. inversion S as [|? ? S' F]; subst. constructor; [apply IH; exact S'|].
  rewrite Forall_map in F. exact F.
Qed.

Lemma sec_ids_in : forall sec off p, In p (sec_ids off sec) ->
  exists x, In x (E sec) /\ In (snd p) (rec_ids x).
Proof.
  induction sec as [|k t IH]; intros off p I; [destruct I|].
  cbn [sec_ids] in I. rewrite E_cons. apply in_app_or in I. destruct I as [I|I].
  - unfold tag_ids in I. apply in_flat_map in I. destruct I as (x & Ix & I).
    apply in_map_iff in I. destruct I as (h & <- & Ih). exists x. split; [apply in_or_app; left; exact Ix|exact Ih].
  - apply IH in I. destruct I as (x & Ix & Ih). exists x. split; [apply in_or_app; right; exact Ix|exact Ih].
Qed.

Lemma filter_rpt_refs : forall oid refs,
  filter (rec_points_to oid) (map RecRef refs) = map RecRef (filter (points_to oid) refs).
Proof.
  intros oid refs. induction refs as [|x t IH]; [reflexivity|]. cbn [map filter rec_points_to].
  destruct (points_to oid x); cbn [map]; rewrite IH; reflexivity.
Qed.

Section RefsR.
  Variable deflate : bytes -> bytes.
  Variable inflate : bytes -> inflate_result.
  Hypothesis Hz : zlib_ok deflate inflate.
  Hypothesis Htrunc : forall x n, (n < length (deflate x))%nat -> inflate (firstn n (deflate x)) = ITrunc.
  Hypothesis Hbound : forall x, N.of_nat (length x) < 16777216 -> N.of_nat (length (deflate x)) < 1073741824.
  Variable c : config.
  Variable mn mx : N.
  Hypothesis Hbs : 64 <= c_block_size c < 16777216.
  Hypothesis Hint : (0 < c_restart_interval c)%nat.

  Variable fcs : list chunk.
  Hypothesis Hchunks : chunks_at deflate c mn mx 0 fcs.
  Hypothesis Hlast : last_pad fcs = 0%nat.
  Variable r : reader.
  Hypothesis Hsrc : exists tail, rd_src r = layout fcs ++ tail.
  Hypothesis Hsize : rd_size r = N.of_nat (length (layout fcs)).
  Hypothesis Hrbs : rd_block_size r = c_block_size c.
  Hypothesis Hrhs : rd_hash_size r = hash_size c.
  Hypothesis Hrhd : rd_header_size r = header_size c.

  Let hs := hash_size c.

  Let read_chunk_ := read_chunk deflate inflate Hz Htrunc Hbound c mn mx Hbs Hint fcs Hchunks Hlast r
                       Hsrc Hsize Hrbs Hrhs Hrhd.
  Let read_none_ := read_none_typ deflate inflate Htrunc Hbound c mn mx Hbs Hint fcs Hchunks Hlast r
                       Hsrc Hsize Hrbs Hrhs Hrhd.
  Let scan_all_ := scan_all deflate inflate Hz Htrunc Hbound c mn mx Hbs Hint fcs Hchunks Hlast r
                       Hsrc Hsize Hrbs Hrhs Hrhd.

  Lemma rpt_fix : forall oid x, rec_points_to oid (fix_index r (rec_read hs x)) = rec_points_to oid x.
  Proof. intros oid [x|l|k o|k o]; reflexivity. Qed.

  Lemma filter_fixr_nil : forall oid recs, has oid recs = false ->
    filter (rec_points_to oid) (fixr c r recs) = [].
  Proof.
    intros oid recs. unfold has, fixr. induction recs as [|x t IH]; intros H; [reflexivity|].
    cbn [existsb] in H. apply orb_false_iff in H. destruct H as [H1 H2].
    cbn [map filter]. fold hs. rewrite rpt_fix, H1. apply IH. exact H2.
  Qed.

  Lemma filter_fixr_app : forall oid a b,
    filter (rec_points_to oid) (fixr c r (a ++ b)) =
    filter (rec_points_to oid) (fixr c r a) ++ filter (rec_points_to oid) (fixr c r b).
  Proof. intros. unfold fixr. rewrite !map_app, filter_app. reflexivity. Qed.

  Lemma has_E : forall oid sec, Forall (fun k => has oid (ck_recs k) = false) sec ->
    filter (rec_points_to oid) (fixr c r (E sec)) = [].
  Proof.
    intros oid sec F. induction F as [|k t Hk F IH]; [reflexivity|].
    rewrite E_cons, filter_fixr_app, IH, (filter_fixr_nil _ _ Hk). reflexivity.
  Qed.

  (* indexedTableRefIter over the blocks listed for an id *)
  Lemma refs_blocks_ok : forall h oid sec pre post,
    fcs = pre ++ sec ++ post ->
    Forall (fun x => ck_typ x = typ_ref /\ strong c x) sec ->
    Forall (fun k => has h (ck_recs k) = false -> has oid (ck_recs k) = false) sec ->
    refs_in_blocks inflate r oid (hit_offs h (llen pre) sec) =
    Ok (filter (rec_points_to oid) (fixr c r (E sec))).
  Proof.
    intros h oid. induction sec as [|k t IH]; intros pre post E0 F HH.
    - reflexivity.
    - cbn [hit_offs]. pose proof (Forall_inv F) as [Tk Sk]. pose proof (Forall_inv_tail F) as F'.
      pose proof (Forall_inv HH) as Hk. pose proof (Forall_inv_tail HH) as HH'. cbv beta in Hk.
      assert (E1 : fcs = (pre ++ [k]) ++ t ++ post) by (rewrite <- app_assoc; exact E0).
      assert (LL : llen pre + N.of_nat (length (ck_bytes k)) = llen (pre ++ [k])).
      { rewrite llen_app, llen_cons. change (llen []) with 0. lia. }
      rewrite LL. specialize (IH (pre ++ [k]) post E1 F' HH').
      rewrite E_cons, filter_fixr_app.
      destruct (has h (ck_recs k)) eqn:HK.
      + cbn [app refs_in_blocks].
        destruct (read_chunk_ pre k (t ++ post) typ_ref E0 Sk ltac:(right; symmetry; exact Tk)) as (b & NB & RD).
        rewrite NB. cbn [bind]. destruct RD as (_ & BA & _).
        rewrite (block_rest_bi_all _ r _ _ _ [] BA). cbn [rev app bind]. rewrite IH. cbn [bind].
        reflexivity.
      + cbn [app]. rewrite IH. rewrite (filter_fixr_nil _ _ (Hk eq_refl)). reflexivity.
  Qed.

  (* the linear scan *)
  Lemma linear_ok : forall oid rsec post,
    fcs = rsec ++ post -> fcs <> [] -> good c typ_ref rsec -> Forall (fun k => ck_typ k <> typ_ref) post ->
    o_offset (rd_ref r) = 0 ->
    refs_for_linear inflate r oid = Ok (filter (rec_points_to oid) (fixr c r (E rsec))).
  Proof.
    intros oid rsec post E0 NE G NP O0. unfold refs_for_linear, rd_start, rd_offsets.
    change (typ_ref =? typ_ref) with true. cbv iota. rewrite O0.
    destruct rsec as [|k sec].
    - cbn [app] in E0. destruct post as [|k0 rest]; [congruence|].
      unfold tab_iter_at. change 0 with (llen []).
      rewrite (read_none_ [] k0 rest typ_ref E0 ltac:(discriminate) (Forall_inv NP)). reflexivity.
    - destruct (scan_all_ typ_ref [] k sec post E0 ltac:(discriminate) G (Forall_post_not _ _ NP)) as (ot & TI & DR).
      change (llen []) with 0 in TI. rewrite TI. cbn [bind]. rewrite DR. reflexivity.
  Qed.
End RefsR.

Lemma obj_rel_keys : forall idl M L, Forall2 (obj_rel idl) M L ->
  map rec_key L = map (firstn idl) (map fst M).
Proof.
  intros idl M L F. induction F as [|p x M L R F IH]; [reflexivity|].
  cbn [map]. rewrite IH. f_equal. destruct R as [-> | ->]; reflexivity.
Qed.

Lemma obj_rel_key : forall idl p x, obj_rel idl p x -> rec_key x = firstn idl (fst p).
Proof. intros idl p x [-> | ->]; reflexivity. Qed.

(* ------------------------------------------------------------------ *)
(* C11 on whole tables *)

Section RefsTable.
  Variable deflate : bytes -> bytes.
  Variable inflate : bytes -> inflate_result.
  Hypothesis Hz : zlib_ok deflate inflate.
  Hypothesis Htrunc : forall x n, (n < length (deflate x))%nat -> inflate (firstn n (deflate x)) = ITrunc.
  Hypothesis Hbound : forall x, N.of_nat (length x) < 16777216 -> N.of_nat (length (deflate x)) < 1073741824.

  (* the footer stores the offset of the object section in 59 bits *)
  Definition two59 : N := 576460752303423488.

  Theorem table_refs_for_all : forall cfg min max refs logs data,
    cfg_ok cfg -> max < two64 -> min <= max -> refs_ok cfg min max refs -> logs_ok cfg logs ->
    N.of_nat (length data) < two59 ->
    write_table deflate cfg min max refs logs = Ok (false, data) ->
    exists r, rd_open data = Ok r /\
      forall oid, refs_for inflate r oid = Ok (map RecRef (filter (points_to oid) refs)).
  Proof.
    intros cfg min max refs logs data [CB1 CB2] Hmax Hmm [RO RS] [LO LS] Hsz59 H.
    assert (Hsz : N.of_nat (length data) < two64) by (unfold two59, two64 in *; lia).
    destruct (written3 deflate cfg min max refs logs data H) as (nl & NL & _ & fcs & st1 & D & NE & CH & LP & FO).
    set (c := cfg_defaults cfg) in *.
    assert (HBS : 64 <= c_block_size c < 16777216).
    { unfold c, cfg_defaults. cbn [c_block_size]. destruct (N.eqb_spec (c_block_size cfg) 0); lia. }
    assert (HINT : (0 < c_restart_interval c)%nat).
    { unfold c, cfg_defaults. cbn [c_restart_interval]. destruct (Nat.eqb_spec (c_restart_interval cfg) 0); lia. }
    destruct fcs as [|k0 rest0]; [congruence|].
    destruct (layout_head _ _ _ _ _ _ CH) as (body & LH).
    set (fcs := k0 :: rest0) in *.
    set (ri := rio st1) in *. set (oo := ts_offset (w_objs st1)) in *.
    set (oi := ts_index_offset (w_objs st1)) in *. set (idl := w_idlen st1) in *.
    set (lo := ts_offset (w_log st1)) in *. set (li := ts_index_offset (w_log st1)) in *.
    assert (LF : llen fcs < two59).
    { unfold llen. rewrite D, app_length in Hsz59. lia. }
    destruct FO as (cs0 & lsec & lv & EF & (rsec & rlv & osec & olv & E0 & TR & RR & LCr & RI & OS)
                    & TL & RL & LC & LV & ELO & ELI).
    destruct OS as [OT OC ON OO OIx OD OR].
    set (pre := rsec ++ concat rlv) in *.
    assert (ELEN : llen fcs = llen pre + llen osec + llen (concat olv) + llen lsec + llen (concat lv)).
    { rewrite EF, E0, !llen_app. lia. }
    assert (ELC : llen cs0 = llen pre + llen osec + llen (concat olv)).
    { rewrite E0, !llen_app. lia. }
    assert (ELP : llen pre = llen rsec + llen (concat rlv)) by (unfold pre; apply llen_app).
    assert (Hlo : ri <= llen fcs /\ oo <= llen fcs /\ oi <= llen fcs /\ lo <= llen fcs /\ li <= llen fcs).
    { split; [|split; [|split; [|split]]].
      - rewrite RI. pose proof (top_off_le rlv 0 rsec). destruct rlv; lia.
      - rewrite OO. destruct osec; lia.
      - rewrite OIx. pose proof (top_off_le olv (llen pre) osec). destruct olv; lia.
      - rewrite ELO. destruct lsec; lia.
      - rewrite ELI. pose proof (top_off_le lv (llen cs0) lsec). destruct lv; lia. }
    assert (IDN : N.of_nat idl < 32) by lia.
    assert (OOM : (oo * 32 + N.of_nat idl) mod two64 = oo * 32 + N.of_nat idl).
    { apply N.mod_small. unfold two59, two64 in *. lia. }
    pose proof (rd_open_written c min max (ck_typ k0) body ri
                  ((oo * 32 + N.of_nat idl) mod two64) oi lo li
                  ltac:(lia) ltac:(lia) Hmax ltac:(apply N.mod_lt; discriminate)
                  ltac:(unfold two59, two64 in *; lia) ltac:(unfold two59, two64 in *; lia)) as OPEN.
    cbv zeta in OPEN. rewrite <- LH in OPEN.
    assert (D' : data = layout fcs ++
                   footer_of c min max ri ((oo * 32 + N.of_nat idl) mod two64) oi lo li ++
                   be32 (crc32 (footer_of c min max ri ((oo * 32 + N.of_nat idl) mod two64) oi lo li))) by exact D.
    rewrite <- D' in OPEN.
    set (r := {| rd_src := data |}) in *.
    exists r. split; [exact OPEN|].
    set (Lref := map RecRef (map (delta_ref min) refs)) in *.
    assert (HS : hash_size c = hash_size cfg) by reflexivity.
    assert (HSP : (0 < hash_size c)%nat) by (unfold hash_size; destruct (c_sha256 c); lia).
    assert (HSRC : exists tail, rd_src r = layout fcs ++ tail) by (eexists; exact D).
    assert (HSIZE : rd_size r = N.of_nat (length (layout fcs))) by (cbn [r rd_size]; rewrite LH; reflexivity).
    assert (HRBS : rd_block_size r = c_block_size c) by reflexivity.
    assert (HRHS : rd_hash_size r = hash_size c)
      by (unfold rd_hash_size, hash_size; cbn [r rd_sha256]; reflexivity).
    assert (HRHD : rd_header_size r = header_size c)
      by (unfold rd_header_size, header_size; cbn [r rd_version]; unfold version_of; destruct (c_sha256 c); reflexivity).
    (* what the reader knows about the object section *)
    assert (RP : o_present (rd_obj r) = (0 <? oo)).
    { cbn [r rd_obj o_present]. rewrite OOM. f_equal. unfold two59 in *. lia. }
    assert (RIDL : rd_idlen r = idl).
    { cbn [r rd_idlen]. rewrite OOM. unfold two59 in *. lia. }
    assert (ROO : o_offset (rd_obj r) = oo).
    { cbn [r rd_obj o_offset]. rewrite OOM. unfold two59 in *. lia. }
    assert (ROI : o_index (rd_obj r) = oi).
    { cbn [r rd_obj o_index]. apply N.mod_small. unfold two59, two64 in *. lia. }
    (* the records are in the domain of the block codec *)
    assert (GR : rgood c typ_ref Lref).
    { split.
      - unfold Lref. rewrite !Forall_map. eapply Forall_impl; [|exact RO]. cbv beta.
        intros x ((I & V) & _ & KL & _). split; [reflexivity|]. split; [exact KL|].
        unfold ref_ok. cbn [delta_ref r_index r_val]. split; [lia|exact V].
      - unfold sorted_recs, Lref. apply sorted_map. apply sorted_map. exact RS. }
    pose proof (chunks_nonempty _ _ _ _ _ _ CH) as NEA.
    pose proof (chunks_pos _ _ _ _ _ _ CH) as POS.
    assert (EFull : fcs = rsec ++ concat rlv ++ osec ++ concat olv ++ lsec ++ concat lv).
    { rewrite EF, E0. unfold pre. rewrite <- !app_assoc. reflexivity. }
    assert (EF2 : fcs = pre ++ (osec ++ concat olv) ++ lsec ++ concat lv).
    { rewrite EF, E0. rewrite <- !app_assoc. reflexivity. }
    assert (NEr : Forall (fun k => ck_recs k <> []) (rsec ++ concat rlv)).
    { rewrite EFull in NEA. rewrite app_assoc in NEA. apply Forall_app in NEA. apply NEA. }
    assert (NEo : Forall (fun k => ck_recs k <> []) (osec ++ concat olv)).
    { rewrite EF2 in NEA. eapply Forall_sub_app. exact NEA. }
    assert (POSr : Forall (fun k => 0 < N.of_nat (length (ck_bytes k))) rsec).
    { rewrite EFull in POS. apply Forall_app in POS. apply POS. }
    assert (GRS : good c typ_ref rsec).
    { apply good_of_rgood; [exact TR|rewrite RR; exact GR|]. apply Forall_app in NEr. apply NEr. }
    assert (NPr : Forall (fun k => ck_typ k <> typ_ref) (concat rlv ++ osec ++ concat olv ++ lsec ++ concat lv)).
    { assert (NR : forall k, not_ref k -> ck_typ k <> typ_ref) by (intros k [-> | ->]; discriminate).
      repeat (apply Forall_app; split).
      - eapply Forall_impl; [exact NR|]. eapply lchain_not_ref. exact LCr.
      - eapply Forall_impl; [|exact OT]. intros k ->. discriminate.
      - eapply Forall_impl; [exact NR|]. eapply lchain_not_ref. exact OC.
      - eapply Forall_impl; [|exact TL]. intros k ->. discriminate.
      - eapply Forall_impl; [exact NR|]. eapply lchain_not_ref. exact LC. }
    pose (FR := fun oid => filter (rec_points_to oid) (fixr c r (E rsec))).
    assert (LIN : forall oid, refs_for_linear inflate r oid = Ok (FR oid)).
    { intros oid.
      apply (linear_ok deflate inflate Hz Htrunc Hbound c min max HBS HINT fcs CH LP r HSRC HSIZE HRBS HRHS HRHD
               oid rsec _ EFull NE GRS NPr). reflexivity. }
    (* the object index the writer collected *)
    set (M := obj_of (sec_ids 0 rsec)) in *.
    destruct (obj_of_spec rsec POSr) as (KS & LK & KI). fold M in KS, LK, KI.
    assert (KLEN : forall h, In h (map fst M) -> length h = hash_size c).
    { intros h I. apply KI in I. apply in_map_iff in I. destruct I as (p & <- & I).
      apply sec_ids_in in I. destruct I as (x & Ix & Ih). fold (E rsec) in RR. rewrite RR in Ix.
      destruct GR as [GR1 _]. rewrite Forall_forall in GR1. destruct (GR1 x Ix) as [_ [_ OK]].
      destruct x as [y|l|k o|k o]; cbn [rec_ids] in Ih; try destruct Ih.
      unfold ref_ok in OK. destruct OK as [_ OK]. destruct (r_val y) as [|a|a b|s]; cbn [In] in Ih.
      - destruct Ih.
      - destruct Ih as [<-|[]]. exact OK.
      - destruct Ih as [<-|[<-|[]]]; apply OK.
      - destruct Ih. }
    assert (HASNO : forall oid, ~ In oid (map fst M) -> Forall (fun k => has oid (ck_recs k) = false) rsec).
    { intros oid NI. apply (hit_offs_nil oid rsec 0). rewrite <- LK. apply olook_notin. exact NI. }
    assert (NOTKEY : forall oid, ~ In oid (map fst M) -> FR oid = []).
    { intros oid NI. unfold FR. apply has_E. apply HASNO. exact NI. }
    assert (FIN : forall oid, FR oid = map RecRef (filter (points_to oid) refs)).
    { intros oid. unfold FR. fold (E rsec) in RR. rewrite RR. rewrite <- filter_rpt_refs. f_equal.
      unfold fixr, Lref. rewrite !map_map.
      clear - RO Hmax. induction RO as [|x t ((I & _) & _ & _ & B) RO IH]; [reflexivity|].
      cbn [map]. rewrite IH. f_equal. cbn [rec_read fix_index delta_ref r_name r_index r_val r rd_min].
      f_equal. destruct x as [nm ix v]. cbn [r_name r_index r_val] in *. f_equal.
      replace (ix - min + min) with ix by lia. apply N.mod_small. exact I. }
    (* the reader sees a ref section exactly when the first block is a ref block *)
    assert (RPR : o_present (rd_ref r) = (ck_typ k0 =? typ_ref)) by reflexivity.
    intros oid. rewrite <- FIN. unfold refs_for. rewrite RPR.
    destruct (N.eqb_spec (ck_typ k0) typ_ref) as [T0|T0]; cbn [negb].
    2:{ (* no ref block in front: the table has no ref section, and no refs *)
        destruct rsec as [|kr rsec']; [reflexivity|].
        exfalso. apply T0. pose proof (Forall_inv TR) as TK.
        unfold fcs in EFull. cbn [app] in EFull. injection EFull as -> _. exact TK. }
    rewrite RP, RIDL.
    destruct (N.ltb_spec 0 oo) as [PO|PO]; [|apply LIN].
    destruct osec as [|ko osec']; [rewrite OO in PO; lia|].
    set (osec := ko :: osec') in *.
    assert (OOe : oo = llen pre) by exact OO.
    destruct (OR ltac:(discriminate)) as (R2 & IDLE).
    (* the abbreviated keys *)
    assert (MC : (max_common [] (map fst M) 0 < hash_size c)%nat).
    { apply idlen_le; [exact KS| |exact HSP]. apply Forall_forall. exact KLEN. }
    assert (AS : StronglySorted ltb_rel (map (firstn idl) (map fst M))).
    { apply abbrev_sorted; [exact KS|]. rewrite IDLE. lia. }
    pose proof (obj_rel_keys _ _ _ R2) as KEYS.
    assert (SO : sorted_recs (E osec)).
    { unfold sorted_recs. apply (sorted_unmap _ _ rec_key ltb_rel). rewrite KEYS. exact AS. }
    assert (LRS : llen rsec < two64) by (unfold two59, two64 in *; lia).
    assert (OKO : Forall (fun x => rec_typ x = typ_obj /\ rec_ok (hash_size c) x) (E osec)).
    { apply Forall_forall. intros x Ix. destruct (Forall2_in_r _ _ _ _ _ _ R2 Ix) as ([h offs] & Ip & Rx).
      pose proof (olook_in _ _ _ KS Ip) as OL. rewrite LK in OL.
      assert (KL : N.of_nat (length (firstn idl h)) < 2 ^ 60).
      { change (2 ^ 60) with 1152921504606846976. pose proof (firstn_le_length idl h). lia. }
      destruct Rx as [-> | ->]; cbn [fst snd]; (split; [reflexivity|]); (split; [exact KL|]).
      - split.
        + apply Forall_forall. intros o Io. rewrite <- OL in Io. apply hit_offs_bound in Io. lia.
        + rewrite <- OL. pose proof (hit_offs_length h rsec 0). pose proof (length_le_llen _ POSr). lia.
      - split; [constructor|cbn [length]; unfold two64; lia]. }
    assert (GO : good c typ_obj osec).
    { apply good_of_rgood; [exact OT|split; [exact OKO|exact SO]|]. apply Forall_app in NEo. apply NEo. }
    assert (GOL : Forall (good c typ_idx) olv).
    { apply (levels_good c olv (llen pre) osec typ_obj OC NEo); [split; [exact OKO|exact SO]|].
      unfold two59, two64 in *. lia. }
    assert (PNL : forall T, T <> typ_log -> post_not T (lsec ++ concat lv)).
    { intros T NT. destruct lsec as [|kl ls].
      - rewrite (LV eq_refl). left. reflexivity.
      - right. exists kl, (ls ++ concat lv). split; [reflexivity|]. rewrite (Forall_inv TL). congruence. }
    assert (OP : o_present (rd_offsets r typ_obj) = true).
    { unfold rd_offsets. change (typ_obj =? typ_ref) with false. change (typ_obj =? typ_log) with false.
      change (typ_obj =? typ_obj) with true. cbv iota. rewrite RP. destruct (N.ltb_spec 0 oo); [reflexivity|lia]. }
    destruct (Nat.ltb_spec (length oid) idl) as [SH|LG].
    { (* an id shorter than the abbreviation is not in the table *)
      rewrite NOTKEY; [reflexivity|]. intros I. apply KLEN in I. lia. }
    cbv zeta. set (want := firstn idl oid).
    assert (WNE : bytes_eqb want (empty_key typ_obj) = false).
    { unfold want. rewrite IDLE in *. destruct oid as [|a oid']; [cbn [length] in LG; lia|]. reflexivity. }
    destruct (seek_section deflate inflate Hz Htrunc Hbound c min max HBS HINT fcs CH LP r
                HSRC HSIZE HRBS HRHS HRHD want typ_obj pre osec olv (lsec ++ concat lv)
                ltac:(discriminate) ltac:(discriminate) ltac:(rewrite EF2, <- !app_assoc; reflexivity)
                ltac:(discriminate) OC GO GOL (PNL typ_obj ltac:(discriminate)) (PNL typ_idx ltac:(discriminate)) OP)
      as (ot & SR & DR).
    { unfold rd_offsets. change (typ_obj =? typ_ref) with false. change (typ_obj =? typ_log) with false.
      change (typ_obj =? typ_obj) with true. cbv iota. rewrite ROO. exact OOe. }
    { unfold rd_offsets. change (typ_obj =? typ_ref) with false. change (typ_obj =? typ_log) with false.
      change (typ_obj =? typ_obj) with true. cbv iota. rewrite ROI. exact OIx. }
    rewrite WNE in DR. unfold seek_record in SR. rewrite OP in SR. cbn [negb] in SR. rewrite SR. cbn [bind].
    destruct (seek_recs_split want (E osec)) as (a & EA & LTA).
    (* a key of the index has a record in the object section *)
    assert (KEYREC : In oid (map fst M) -> exists y, In y (E osec) /\ rec_key y = want).
    { intros I. apply in_map_iff in I. destruct I as ([h2 offs2] & E2 & I2). cbn [fst] in E2. subst h2.
      destruct (Forall2_in_l _ _ _ _ _ _ R2 I2) as (y & Iy & Ry). exists y. split; [exact Iy|].
      apply obj_rel_key in Ry. exact Ry. }
    assert (CASEA : seek_recs want (E osec) = [] -> FR oid = []).
    { intros Z. apply NOTKEY. intros I. destruct (KEYREC I) as (y & Iy & Ky).
      apply seek_recs_nil_lt in Z. unfold lt_all in Z. rewrite Forall_forall in Z. specialize (Z y Iy).
      rewrite Ky, bytes_ltb_irrefl in Z. discriminate. }
    destruct ot as [t|].
    - cbn [drain_opt] in DR. apply drain_next in DR. destruct DR as (l & EL & NX). cbn [app] in EL. subst l.
      destruct (seek_recs want (E osec)) as [|x tl] eqn:ESRL.
      + unfold fixr in NX. cbn [map] in NX. rewrite NX. cbn [bind]. rewrite CASEA; reflexivity.
      + unfold fixr in NX. cbn [map] in NX. destruct NX as (t' & NX). rewrite NX. cbn [bind].
        assert (Ix : In x (E osec)).
        { rewrite EA. apply in_or_app. right. left. reflexivity. }
        destruct (Forall2_in_r _ _ _ _ _ _ R2 Ix) as ([h offs] & Ip & Rx).
        pose proof (obj_rel_key _ _ _ Rx) as Kx. cbn [fst] in Kx.
        assert (Ih : In h (map fst M)) by (apply in_map_iff; exists (h, offs); auto).
        destruct (bytes_eqb_spec (firstn idl h) want) as [EQK|NEK].
        * (* the abbreviated id is in the index *)
          assert (BLK : refs_in_blocks inflate r oid (hit_offs h 0 rsec) = Ok (FR oid)).
          { change 0 with (llen []) at 1.
            apply (refs_blocks_ok deflate inflate Hz Htrunc Hbound c min max HBS HINT fcs CH LP r
                     HSRC HSIZE HRBS HRHS HRHD h oid rsec [] _ EFull).
            - apply GRS.
            - destruct (bytes_eqb_spec h oid) as [->|NEH]; [apply Forall_forall; auto|].
              assert (NI : ~ In oid (map fst M)).
              { intros I. apply NEH. apply (sorted_inj _ (firstn idl) (map fst M) h oid AS Ih I EQK). }
              eapply Forall_impl; [|exact (HASNO oid NI)]. auto. }
          pose proof (olook_in _ _ _ KS Ip) as OL. rewrite LK in OL.
          destruct Rx as [-> | ->]; cbn [rec_read fix_index fst snd]; rewrite EQK, bytes_eqb_refl; cbn [negb].
          -- destruct offs as [|o1 otl]; [apply LIN|]. rewrite <- OL. exact BLK.
          -- apply LIN.
        * (* another key: the id is not in the index *)
          assert (Z : FR oid = []).
          { apply NOTKEY. intros I. destruct (KEYREC I) as (y & Iy & Ky).
            pose proof (seek_recs_head_ge _ _ _ _ ESRL) as GE.
            rewrite EA in Iy, SO. apply in_app_or in Iy. destruct Iy as [Iy|[Iy|Iy]].
            - unfold lt_all in LTA. rewrite Forall_forall in LTA. specialize (LTA y Iy).
              rewrite Ky, bytes_ltb_irrefl in LTA. discriminate.
            - subst y. congruence.
            - apply sorted_app_inv in SO. destruct SO as [_ SO]. inversion SO as [|? ? _ F]; subst.
              rewrite Forall_forall in F. specialize (F y Iy). cbv beta in F. rewrite Ky in F. congruence. }
          destruct Rx as [-> | ->]; cbn [rec_read fix_index fst snd];
            (destruct (bytes_eqb_spec (firstn idl h) want) as [Q|_]; [congruence|]); cbn [negb]; rewrite Z; reflexivity.
    - cbn [drain_opt] in DR. apply Ok_inj in DR. rewrite CASEA; [reflexivity|].
      unfold fixr in DR. symmetry in DR. apply map_eq_nil in DR. apply map_eq_nil in DR. exact DR.
  Qed.

  (* the statement for object ids of the table's hash size *)
  Theorem table_refs_for : forall cfg min max refs logs data,
    cfg_ok cfg -> max < two64 -> min <= max -> refs_ok cfg min max refs -> logs_ok cfg logs ->
    N.of_nat (length data) < two59 ->
    write_table deflate cfg min max refs logs = Ok (false, data) ->
    exists r, rd_open data = Ok r /\
      forall oid, length oid = hash_size cfg ->
        refs_for inflate r oid = Ok (map RecRef (filter (points_to oid) refs)).
  Proof.
    intros cfg min max refs logs data CO Hmax Hmm RO LO Hsz H.
    destruct (table_refs_for_all cfg min max refs logs data CO Hmax Hmm RO LO Hsz H) as (r & OPEN & RF).
    exists r. split; [exact OPEN|]. intros oid _. apply RF.
  Qed.
End RefsTable.

Definition table_refs_for_stored := table_refs_for sdeflate sinflate sdeflate_ok sdeflate_trunc sdeflate_bound.

(* ------------------------------------------------------------------ *)
(* the statement holds by computation on concrete tables (stored codec):
   tiny blocks, many refs sharing few object ids, so that the ref section has
   an index and the object section appears -- with full position lists, with
   dropped ones, and with ids that share long prefixes *)

Definition x_hid (i : nat) : bytes := repeat (N.of_nat i) 19 ++ [N.of_nat (i * 7 mod 5)].
Definition x_hid2 (i : nat) : bytes := repeat 7 18 ++ [N.of_nat (i / 4); N.of_nat (i mod 4)].
Definition x_refs (hid : nat -> bytes) (n m : nat) : list ref_record :=
  map (fun i => {| r_name := t_name i; r_index := 5 + N.of_nat (i mod 3);
                   r_val := if Nat.eqb (i mod 4) 0 then RVal2 (hid (i mod m)%nat) (hid ((i + 1) mod m)%nat)
                            else if Nat.eqb (i mod 4) 3 then RDel else RVal (hid (i mod m)%nat) |}) (seq 0 n).
Definition x_oids (hid : nat -> bytes) (m : nat) : list bytes :=
  map hid (seq 0 (m + 2)) ++ [repeat 0 20; repeat 255 20; repeat 1 19 ++ [9]; repeat 1 20; repeat 7 19; [7]; []].

(* (object section present?, its offset, its index, abbreviated length,
    number of object records, how many of them without position list, failing ids) *)
Definition rf_check (c : config) (refs : list ref_record) (os : list bytes) :=
  match write_table sdeflate c 5 7 refs [] with
  | Ok (false, data) =>
      match rd_open data with
      | Ok r =>
          let objs := match seek_record sinflate r typ_obj [] with
                      | Ok ot => match drain_opt sinflate r ot with Ok l => l | _ => [] end
                      | _ => []
                      end in
          Some (o_present (rd_obj r), o_offset (rd_obj r), o_index (rd_obj r), rd_idlen r,
                length objs,
                length (filter (fun x => match x with RecObj _ [] => true | _ => false end) objs),
                filter (fun oid => negb match refs_for sinflate r oid with
                                      | Ok a => records_eqb a (map RecRef (filter (points_to oid) refs))
                                      | _ => false
                                      end) os)
      | _ => None
      end
  | _ => None
  end.

Example x_rf_indexed : rf_check (t_cfg false 96 false) (x_refs x_hid 40 5) (x_oids x_hid 5)
  = Some (true, 1728, 0, 1%nat, 5%nat, 0%nat, []).
Proof. vm_compute. reflexivity. Qed.
Example x_rf_obj_index : rf_check (t_cfg false 96 false) (x_refs x_hid 99 40) (x_oids x_hid 40)
  = Some (true, 4128, 4512, 1%nat, 30%nat, 0%nat, []).
Proof. vm_compute. reflexivity. Qed.
Example x_rf_skip : rf_check (t_cfg false 96 true) (x_refs x_hid 40 5) (x_oids x_hid 5)
  = Some (false, 0, 0, 0%nat, 0%nat, 0%nat, []).
Proof. vm_compute. reflexivity. Qed.
Example x_rf_small : rf_check (t_cfg false 256 false) (x_refs x_hid 9 5) (x_oids x_hid 5)
  = Some (false, 0, 0, 0%nat, 0%nat, 0%nat, []).
Proof. vm_compute. reflexivity. Qed.
Example x_rf_dropped : rf_check (t_cfg true 96 false) (x_refs x_hid 300 2) (x_oids x_hid 2)
  = Some (true, 9547, 9573, 1%nat, 2%nat, 2%nat, []).
Proof. vm_compute. reflexivity. Qed.
Example x_rf_long_prefix : rf_check (t_cfg true 96 false) (x_refs x_hid2 60 9) (x_oids x_hid2 9)
  = Some (true, 1942, 2153, 20%nat, 9%nat, 0%nat, []).
Proof. vm_compute. reflexivity. Qed.

Print Assumptions obj_index_exact.
Print Assumptions abbrev_sorted.
Print Assumptions written3.
Print Assumptions table_refs_for_all.
Print Assumptions table_refs_for.
Print Assumptions table_refs_for_stored.
