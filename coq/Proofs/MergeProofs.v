(* Proofs about Model/Heap.v, Model/Merge.v and Model/Overlay.v:
   the array heap is a priority queue, and the merged iterator computes the
   newest-table-wins overlay of sorted tables. *)
From Coq Require Import List NArith Arith Bool Lia Permutation Sorted.
From RT Require Import Model.Bytes Model.Heap Model.Merge Model.Overlay.
From RT Require Import Proofs.BytesProofs.
Import ListNotations.

Local Arguments drop_same {R} key fuel k it.
Local Arguments init_loop {R} key n i it.

(* ------------------------------------------------------------------ *)
(* generic list facts: set_nth, nth, removelast                        *)
(* ------------------------------------------------------------------ *)

Lemma length_set_nth : forall A i (x : A) l, length (set_nth i x l) = length l.
Proof.
  intros A i x l. revert i. induction l as [|y t IH]; intros [|i]; cbn [set_nth length];
    try reflexivity. rewrite IH. reflexivity.
Qed.

Lemma nth_set_nth_eq : forall A i (x d : A) l,
  i < length l -> nth i (set_nth i x l) d = x.
Proof.
  intros A i x d l. revert i. induction l as [|y t IH]; intros [|i] H; cbn in *;
    try lia; try reflexivity. apply IH. lia.
Qed.

Lemma nth_set_nth_neq : forall A i j (x d : A) l,
  i <> j -> nth j (set_nth i x l) d = nth j l d.
Proof.
  intros A i j x d l. revert i j. induction l as [|y t IH]; intros [|i] [|j] H; cbn;
    try reflexivity; try congruence. apply IH. congruence.
Qed.

Lemma set_nth_same : forall A i (d : A) l, set_nth i (nth i l d) l = l.
Proof.
  intros A i d l. revert i. induction l as [|y t IH]; intros [|i]; cbn; try reflexivity.
  rewrite IH. reflexivity.
Qed.

Lemma map_set_nth : forall A B (f : A -> B) i x l,
  map f (set_nth i x l) = set_nth i (f x) (map f l).
Proof.
  intros A B f i x l. revert i. induction l as [|y t IH]; intros [|i]; cbn; try reflexivity.
  rewrite IH. reflexivity.
Qed.

Lemma Forall_set_nth : forall A (P : A -> Prop) i x l,
  Forall P l -> P x -> Forall P (set_nth i x l).
Proof.
  intros A P i x l Hl Hx. revert i. induction Hl as [|y t Hy Ht IH]; intros [|i]; cbn;
    constructor; auto.
Qed.

Lemma perm_set_nth : forall A i (x d : A) l,
  i < length l -> Permutation (x :: l) (nth i l d :: set_nth i x l).
Proof.
  intros A i x d l. revert i. induction l as [|y t IH]; intros [|i] H; cbn in *; try lia.
  - apply perm_swap.
  - eapply perm_trans; [apply perm_swap|].
    eapply perm_trans; [apply perm_skip; apply (IH i); lia|].
    apply perm_swap.
Qed.

Lemma nth_nonnil_lt : forall A i (l : list (list A)), nth i l [] <> [] -> i < length l.
Proof.
  intros A i l H. destruct (Nat.lt_ge_cases i (length l)) as [Hlt|Hge]; [exact Hlt|].
  exfalso. apply H. apply nth_overflow. exact Hge.
Qed.

Lemma length_removelast : forall A (l : list A), length (removelast l) = length l - 1.
Proof.
  intros A l. induction l as [|x t IH]; [reflexivity|].
  destruct t as [|y t']; [reflexivity|].
  change (removelast (x :: y :: t')) with (x :: removelast (y :: t')).
  cbn [length] in *. rewrite IH. lia.
Qed.

Lemma nth_removelast : forall A i (d : A) l,
  i < length l - 1 -> nth i (removelast l) d = nth i l d.
Proof.
  intros A i d l. revert i. induction l as [|x t IH]; intros i H; [cbn in H; lia|].
  destruct t as [|y t']; [cbn in H; lia|].
  change (removelast (x :: y :: t')) with (x :: removelast (y :: t')).
  destruct i as [|i]; [reflexivity|].
  cbn [nth]. apply IH. cbn [length] in *. lia.
Qed.

Ltac divfacts x :=
  let H1 := fresh in let H2 := fresh in
  pose proof (Nat.div_mod x 2 ltac:(discriminate)) as H1;
  pose proof (Nat.mod_upper_bound x 2 ltac:(discriminate)) as H2;
  generalize dependent (x / 2); generalize dependent (x mod 2); intros.

Lemma parent_lt : forall i, 0 < i -> (i - 1) / 2 < i.
Proof. intros i H. divfacts (i - 1). lia. Qed.

Lemma parent_child : forall i j, 0 < j -> (j - 1) / 2 = i -> j = 2 * i + 1 \/ j = 2 * i + 2.
Proof. intros i j. divfacts (j - 1). lia. Qed.

Lemma parent_left : forall i, (2 * i + 1 - 1) / 2 = i.
Proof. intros i. divfacts (2 * i + 1 - 1). lia. Qed.

Lemma parent_right : forall i, (2 * i + 2 - 1) / 2 = i.
Proof. intros i. divfacts (2 * i + 2 - 1). lia. Qed.

(* ------------------------------------------------------------------ *)
(* the heap                                                             *)
(* ------------------------------------------------------------------ *)
Section HeapProofs.
  Variable R : Type.
  Variable key : R -> bytes.

  Notation entry := (entry R).

  (* a <= b in the priority order *)
  Definition ple (a b : entry) : Prop := pq_less key b a = false.

  Lemma pq_less_irrefl : forall a, pq_less key a a = false.
  Proof.
    intros a. unfold pq_less. rewrite bytes_eqb_refl. apply Nat.ltb_irrefl.
  Qed.

  Lemma ple_refl : forall a, ple a a.
  Proof. intros a. apply pq_less_irrefl. Qed.

  Lemma pq_less_asym : forall a b, pq_less key a b = true -> pq_less key b a = false.
  Proof.
    intros a b. unfold pq_less. rewrite (bytes_eqb_sym (key (fst b))).
    destruct (bytes_eqb_spec (key (fst a)) (key (fst b))) as [E|E].
    - intros H. apply Nat.ltb_lt in H. apply Nat.ltb_ge. lia.
    - apply bytes_ltb_asym.
  Qed.

  Lemma pq_less_ple : forall a b, pq_less key a b = true -> ple a b.
  Proof. intros a b H. apply pq_less_asym. exact H. Qed.

  Lemma ple_trans : forall a b c, ple a b -> ple b c -> ple a c.
  Proof.
    intros a b c. unfold ple, pq_less.
    destruct (bytes_eqb_spec (key (fst b)) (key (fst a))) as [E1|E1];
    destruct (bytes_eqb_spec (key (fst c)) (key (fst b))) as [E2|E2];
    destruct (bytes_eqb_spec (key (fst c)) (key (fst a))) as [E3|E3];
      intros H1 H2; try congruence.
    - apply Nat.ltb_ge in H1, H2. apply Nat.ltb_ge. lia.
    - exfalso. apply E1. rewrite E3 in H2.
      apply bytes_ltb_total; assumption.
    - eapply bytes_le_trans; eassumption.
  Qed.

  (* what  (r,i) <= (r',j)  means *)
  Lemma ple_key : forall a b, ple a b -> bytes_ltb (key (fst b)) (key (fst a)) = false.
  Proof.
    intros a b. unfold ple, pq_less.
    destruct (bytes_eqb_spec (key (fst b)) (key (fst a))) as [E|E]; intros H.
    - rewrite E. apply bytes_ltb_irrefl.
    - exact H.
  Qed.

  Lemma ple_newer : forall a b, ple a b -> snd a < snd b ->
    bytes_ltb (key (fst a)) (key (fst b)) = true.
  Proof.
    intros a b. unfold ple, pq_less.
    destruct (bytes_eqb_spec (key (fst b)) (key (fst a))) as [E|E]; intros H Hlt.
    - apply Nat.ltb_ge in H. lia.
    - destruct (bytes_ltb_trichotomy (key (fst a)) (key (fst b))) as [[H1|H1]|H1];
        congruence.
  Qed.

  (* ---- swap ---- *)
  Lemma length_swap : forall d i j (h : list entry), length (swap d i j h) = length h.
  Proof. intros. unfold swap. rewrite !length_set_nth. reflexivity. Qed.

  Lemma nth_swap : forall d i j c (h : list entry),
    i < length h -> j < length h ->
    nth c (swap d i j h) d =
      if Nat.eqb c j then nth i h d else if Nat.eqb c i then nth j h d else nth c h d.
  Proof.
    intros d i j c h Hi Hj. unfold swap.
    destruct (Nat.eqb_spec c j) as [->|Hcj].
    - apply nth_set_nth_eq. rewrite length_set_nth. exact Hj.
    - rewrite nth_set_nth_neq by congruence.
      destruct (Nat.eqb_spec c i) as [->|Hci].
      + apply nth_set_nth_eq. exact Hi.
      + apply nth_set_nth_neq. congruence.
  Qed.

  Lemma perm_swap_heap : forall d i j (h : list entry),
    i < length h -> j < length h -> Permutation (swap d i j h) h.
  Proof.
    intros d i j h Hi Hj. unfold swap.
    set (a := nth i h d). set (b := nth j h d).
    pose proof (perm_set_nth _ i b d h Hi) as P1. fold a in P1.
    assert (Hj' : j < length (set_nth i b h)) by (rewrite length_set_nth; exact Hj).
    pose proof (perm_set_nth _ j a d (set_nth i b h) Hj') as P2.
    assert (E : nth j (set_nth i b h) d = b).
    { destruct (Nat.eq_dec i j) as [->|Hne].
      - apply nth_set_nth_eq. exact Hi.
      - rewrite nth_set_nth_neq by exact Hne. reflexivity. }
    rewrite E in P2.
    apply Permutation_cons_inv with (a := b).
    symmetry. eapply perm_trans; [exact P1|exact P2].
  Qed.

  (* ---- heap property ---- *)
  Definition HPd (d : entry) (h : list entry) : Prop :=
    forall i, 0 < i < length h -> ple (nth ((i - 1) / 2) h d) (nth i h d).
  Definition HP (h : list entry) : Prop := forall d, HPd d h.

  Lemma HPd_indep : forall d d' h, HPd d h -> HPd d' h.
  Proof.
    intros d d' h H i Hi. pose proof (parent_lt i ltac:(lia)) as Hp.
    rewrite (nth_indep h d' d) by lia. rewrite (nth_indep h d' d) by lia.
    apply H. exact Hi.
  Qed.

  Lemma HP_nil : HP [].
  Proof. intros d i Hi. cbn in Hi. lia. Qed.

  Lemma HPd_root_min : forall d h, HPd d h ->
    forall i, i < length h -> ple (nth 0 h d) (nth i h d).
  Proof.
    intros d h H i. induction i as [i IH] using lt_wf_ind. intros Hi.
    destruct (Nat.eq_dec i 0) as [->|Hne]; [apply ple_refl|].
    pose proof (parent_lt i ltac:(lia)) as Hp.
    eapply ple_trans; [apply (IH ((i - 1) / 2)); lia|]. apply H. lia.
  Qed.

  Lemma HP_root_min : forall e t, HP (e :: t) -> forall x, In x (e :: t) -> ple e x.
  Proof.
    intros e t H x Hx. destruct (In_nth _ _ e Hx) as [i [Hi E]].
    rewrite <- E. apply (HPd_root_min e (e :: t) (H e) i Hi).
  Qed.

  (* ---- sift_up ---- *)
  Definition SU (d : entry) (i : nat) (h : list entry) : Prop :=
    (forall j, 0 < j < length h -> j <> i -> ple (nth ((j - 1) / 2) h d) (nth j h d)) /\
    (forall j, 0 < j < length h -> (j - 1) / 2 = i -> 0 < i ->
               ple (nth ((i - 1) / 2) h d) (nth j h d)).

  Lemma sift_up_spec : forall d fuel i h,
    i <= fuel -> i < length h -> SU d i h ->
    HPd d (sift_up key d fuel i h) /\ Permutation (sift_up key d fuel i h) h.
  Proof.
    intros d fuel. induction fuel as [|f IH]; intros i h Hf Hi [Ha Hb].
    - cbn [sift_up]. split; [|apply Permutation_refl].
      intros j Hj. apply Ha; lia.
    - cbn [sift_up]. destruct i as [|i'].
      + split; [|apply Permutation_refl]. intros j Hj. apply Ha; lia.
      + set (i := S i') in *. set (p := (i - 1) / 2).
        assert (Hp : p < i) by (apply parent_lt; lia).
        destruct (pq_less key (nth p h d) (nth i h d)) eqn:E.
        * split; [|apply Permutation_refl]. intros j Hj.
          destruct (Nat.eq_dec j i) as [->|Hne]; [|apply Ha; assumption].
          apply pq_less_ple. exact E.
        * assert (Hsw : forall c, nth c (swap d p i h) d =
                    if Nat.eqb c i then nth p h d else if Nat.eqb c p then nth i h d
                    else nth c h d) by (intros c; apply nth_swap; lia).
          destruct (IH p (swap d p i h)) as [H1 H2].
          -- lia.
          -- rewrite length_swap. lia.
          -- split.
             ++ intros j Hj Hjp. rewrite length_swap in Hj.
                pose proof (parent_lt j ltac:(lia)) as Hpj.
                rewrite !Hsw.
                destruct (Nat.eqb_spec j i) as [->|Hji].
                ** fold p. rewrite Nat.eqb_refl.
                   destruct (Nat.eqb_spec p i) as [Hpi|_]; [lia|]. exact E.
                ** destruct (Nat.eqb_spec j p) as [|_]; [contradiction|].
                   destruct (Nat.eqb_spec ((j - 1) / 2) i) as [Epi|Hnpi].
                   --- apply Hb; [lia|exact Epi|lia].
                   --- destruct (Nat.eqb_spec ((j - 1) / 2) p) as [Epp|Hnpp].
                       +++ eapply ple_trans; [exact E|]. rewrite <- Epp. apply Ha; assumption.
                       +++ apply Ha; assumption.
             ++ intros j Hj Hjp Hp0. rewrite length_swap in Hj.
                pose proof (parent_lt j ltac:(lia)) as Hpj.
                pose proof (parent_lt p Hp0) as Hpp.
                rewrite !Hsw.
                destruct (Nat.eqb_spec ((p - 1) / 2) i) as [|_]; [lia|].
                destruct (Nat.eqb_spec ((p - 1) / 2) p) as [|_]; [lia|].
                destruct (Nat.eqb_spec j i) as [->|Hji].
                ** apply Ha; lia.
                ** destruct (Nat.eqb_spec j p) as [|_]; [lia|].
                   eapply ple_trans; [apply (Ha p); lia|].
                   rewrite <- Hjp. apply Ha; assumption.
          -- split; [exact H1|].
             eapply perm_trans; [exact H2|]. apply perm_swap_heap; lia.
  Qed.

  Lemma length_sift_up : forall d fuel i h, length (sift_up key d fuel i h) = length h.
  Proof.
    intros d fuel. induction fuel as [|f IH]; intros i h; cbn [sift_up]; [reflexivity|].
    destruct i as [|i']; [reflexivity|].
    destruct (pq_less key _ _); [reflexivity|].
    rewrite IH. apply length_swap.
  Qed.

  Lemma length_heap_add : forall h e, length (heap_add key h e) = S (length h).
  Proof.
    intros h e. unfold heap_add. rewrite length_sift_up, app_length. cbn. lia.
  Qed.

  Lemma heap_add_spec : forall h e,
    HP h -> HP (heap_add key h e) /\ Permutation (heap_add key h e) (e :: h).
  Proof.
    intros h e H. unfold heap_add.
    destruct (sift_up_spec e (length (h ++ [e])) (length h) (h ++ [e])) as [H1 H2].
    - rewrite app_length. cbn. lia.
    - rewrite app_length. cbn. lia.
    - split.
      + intros j Hj Hne. rewrite app_length in Hj. cbn in Hj.
        pose proof (parent_lt j ltac:(lia)) as Hpj.
        rewrite !app_nth1 by lia. apply (H e). lia.
      + intros j Hj Hp _. rewrite app_length in Hj. cbn in Hj.
        pose proof (parent_lt j ltac:(lia)) as Hpj. lia.
    - split.
      + intros d. eapply HPd_indep. exact H1.
      + eapply perm_trans; [exact H2|]. symmetry. apply Permutation_cons_append.
  Qed.

  (* ---- sift_down ---- *)
  Definition SD (d : entry) (i : nat) (h : list entry) : Prop :=
    (forall j, 0 < j < length h -> (j - 1) / 2 <> i ->
               ple (nth ((j - 1) / 2) h d) (nth j h d)) /\
    (forall j, 0 < j < length h -> (j - 1) / 2 = i -> 0 < i ->
               ple (nth ((i - 1) / 2) h d) (nth j h d)).

  Definition pick (d : entry) (i : nat) (h : list entry) : nat :=
    let j := 2 * i + 1 in
    let k := 2 * i + 2 in
    let m1 := if Nat.ltb j (length h) && pq_less key (nth j h d) (nth i h d) then j else i in
    if Nat.ltb k (length h) && pq_less key (nth k h d) (nth m1 h d) then k else m1.

  Lemma pick_spec : forall d i h,
    let m := pick d i h in
    (m = i \/ (m = 2 * i + 1 /\ m < length h) \/ (m = 2 * i + 2 /\ m < length h)) /\
    ple (nth m h d) (nth i h d) /\
    (2 * i + 1 < length h -> ple (nth m h d) (nth (2 * i + 1) h d)) /\
    (2 * i + 2 < length h -> ple (nth m h d) (nth (2 * i + 2) h d)).
  Proof.
    intros d i h. unfold pick.
    destruct (Nat.ltb_spec (2 * i + 1) (length h)) as [Hj|Hj];
    destruct (Nat.ltb_spec (2 * i + 2) (length h)) as [Hk|Hk]; cbn [andb]; try lia.
    - destruct (pq_less key (nth (2 * i + 1) h d) (nth i h d)) eqn:E1.
      + destruct (pq_less key (nth (2 * i + 2) h d) (nth (2 * i + 1) h d)) eqn:E2.
        * split; [right; right; lia|]. split; [|split]; intros.
          -- eapply ple_trans; apply pq_less_ple; eassumption.
          -- apply pq_less_ple. exact E2.
          -- apply ple_refl.
        * split; [right; left; lia|]. split; [|split]; intros.
          -- apply pq_less_ple. exact E1.
          -- apply ple_refl.
          -- exact E2.
      + destruct (pq_less key (nth (2 * i + 2) h d) (nth i h d)) eqn:E2.
        * split; [right; right; lia|]. split; [|split]; intros.
          -- apply pq_less_ple. exact E2.
          -- eapply ple_trans; [apply pq_less_ple; exact E2|exact E1].
          -- apply ple_refl.
        * split; [left; reflexivity|]. split; [|split]; intros.
          -- apply ple_refl.
          -- exact E1.
          -- exact E2.
    - destruct (pq_less key (nth (2 * i + 1) h d) (nth i h d)) eqn:E1.
      + split; [right; left; lia|]. split; [|split]; intros; try lia.
        * apply pq_less_ple. exact E1.
        * apply ple_refl.
      + split; [left; reflexivity|]. split; [|split]; intros; try lia.
        * apply ple_refl.
        * exact E1.
    - split; [left; reflexivity|]. split; [|split]; intros; try lia. apply ple_refl.
  Qed.

  Lemma sift_down_eq : forall d f i h,
    sift_down key d (S f) i h =
      if Nat.ltb i (length h) then
        if Nat.eqb (pick d i h) i then h
        else sift_down key d f (pick d i h) (swap d i (pick d i h) h)
      else h.
  Proof. reflexivity. Qed.

  Lemma sift_down_spec : forall d fuel i h,
    length h - i <= fuel -> SD d i h ->
    HPd d (sift_down key d fuel i h) /\ Permutation (sift_down key d fuel i h) h.
  Proof.
    intros d fuel. induction fuel as [|f IH]; intros i h Hf [Ha Hb].
    - cbn [sift_down]. split; [|apply Permutation_refl].
      intros j Hj. pose proof (parent_lt j ltac:(lia)). apply Ha; lia.
    - rewrite sift_down_eq.
      destruct (Nat.ltb_spec i (length h)) as [Hi|Hi].
      2:{ split; [|apply Permutation_refl].
          intros j Hj. pose proof (parent_lt j ltac:(lia)). apply Ha; lia. }
      destruct (pick_spec d i h) as [Hm [Hmi [Hmj Hmk]]].
      set (m := pick d i h) in *.
      destruct (Nat.eqb_spec m i) as [Emi|Nmi].
      + split; [|apply Permutation_refl]. intros j Hj.
        destruct (Nat.eq_dec ((j - 1) / 2) i) as [Ep|Np]; [|apply Ha; assumption].
        rewrite Ep. rewrite Emi in *.
        destruct (parent_child i j ltac:(lia) Ep) as [->| ->]; [apply Hmj|apply Hmk]; lia.
      + assert (Hml : m < length h) by lia.
        assert (Him : i < m) by lia.
        assert (Epm : (m - 1) / 2 = i).
        { destruct Hm as [Hm|[[Hm _]|[Hm _]]]; [lia| |]; rewrite Hm.
          - apply parent_left. - apply parent_right. }
        assert (Hsw : forall c, nth c (swap d i m h) d =
                    if Nat.eqb c m then nth i h d else if Nat.eqb c i then nth m h d
                    else nth c h d) by (intros c; apply nth_swap; lia).
        destruct (IH m (swap d i m h)) as [H1 H2].
        * rewrite length_swap. lia.
        * split.
          -- intros j Hj Hjp. rewrite length_swap in Hj.
             pose proof (parent_lt j ltac:(lia)) as Hpj.
             rewrite !Hsw.
             destruct (Nat.eqb_spec ((j - 1) / 2) m) as [|_]; [contradiction|].
             destruct (Nat.eqb_spec j m) as [->|Hjm].
             ++ rewrite Epm, Nat.eqb_refl. exact Hmi.
             ++ destruct (Nat.eqb_spec j i) as [->|Hji].
                ** destruct (Nat.eqb_spec ((i - 1) / 2) i) as [|_]; [lia|].
                   apply Hb; [lia|exact Epm|lia].
                ** destruct (Nat.eqb_spec ((j - 1) / 2) i) as [Ep|Np].
                   --- destruct (parent_child i j ltac:(lia) Ep) as [->| ->];
                         [apply Hmj|apply Hmk]; lia.
                   --- apply Ha; assumption.
          -- intros j Hj Hjp Hm0. rewrite length_swap in Hj.
             pose proof (parent_lt j ltac:(lia)) as Hpj.
             rewrite Epm. rewrite !Hsw.
             destruct (Nat.eqb_spec i m) as [|_]; [lia|]. rewrite Nat.eqb_refl.
             destruct (Nat.eqb_spec j m) as [|_]; [lia|].
             destruct (Nat.eqb_spec j i) as [|_]; [lia|].
             rewrite <- Hjp. apply Ha; [lia|lia].
        * split; [exact H1|].
          eapply perm_trans; [exact H2|]. apply perm_swap_heap; lia.
  Qed.

  Lemma heap_remove_spec : forall h e h1,
    HP h -> heap_remove key h = Some (e, h1) ->
    HP h1 /\ Permutation h (e :: h1) /\ (forall x, In x h -> ple e x).
  Proof.
    intros h e h1 H Hr. destruct h as [|e0 t]; [discriminate|].
    unfold heap_remove in Hr. injection Hr as <- <-.
    set (lastv := last (e0 :: t) e0).
    set (h0 := removelast (set_nth 0 lastv (e0 :: t))).
    assert (Hperm : Permutation t h0).
    { unfold h0. cbn [set_nth]. destruct t as [|y t'].
      - cbn. apply Permutation_refl.
      - change (removelast (lastv :: y :: t')) with (lastv :: removelast (y :: t')).
        assert (E : lastv = last (y :: t') e0) by reflexivity.
        rewrite (app_removelast_last e0 (l := y :: t')) at 1 by discriminate.
        rewrite <- E. symmetry. apply Permutation_cons_append. }
    assert (Hlen : length h0 = length t).
    { unfold h0. rewrite length_removelast, length_set_nth. cbn. lia. }
    destruct (sift_down_spec e0 (length h0) 0 h0) as [H1 H2].
    - lia.
    - split.
      + intros j Hj Hp. pose proof (parent_lt j ltac:(lia)) as Hpj.
        unfold h0. rewrite !nth_removelast by (rewrite length_set_nth; cbn [length]; lia).
        rewrite !nth_set_nth_neq by lia.
        apply (H e0). cbn [length]. lia.
      + intros; lia.
    - split; [|split].
      + intros d. eapply HPd_indep. exact H1.
      + apply perm_skip. eapply perm_trans; [exact Hperm|]. symmetry. exact H2.
      + apply HP_root_min. exact H.
  Qed.

  Lemma length_sift_down : forall d fuel i h, length (sift_down key d fuel i h) = length h.
  Proof.
    intros d fuel. induction fuel as [|f IH]; intros i h; [reflexivity|].
    rewrite sift_down_eq.
    destruct (Nat.ltb i (length h)); [|reflexivity].
    destruct (Nat.eqb _ _); [reflexivity|].
    rewrite IH. apply length_swap.
  Qed.

  Lemma length_heap_remove : forall h e h1,
    heap_remove key h = Some (e, h1) -> length h = S (length h1).
  Proof.
    intros h e h1 Hr. destruct h as [|e0 t]; [discriminate|].
    unfold heap_remove in Hr. injection Hr as <- <-.
    rewrite length_sift_down. destruct t as [|y t2]; [reflexivity|]. cbn [length]. rewrite length_removelast. cbn [length]. lia.
  Qed.

  Lemma heap_remove_head : forall e t, exists h1, heap_remove key (e :: t) = Some (e, h1).
  Proof. intros e t. eexists. reflexivity. Qed.
End HeapProofs.

Arguments ple {R} key a b.
Arguments HP {R} key h.

(* ------------------------------------------------------------------ *)
(* the specification side and the merged iterator                       *)
(* ------------------------------------------------------------------ *)
Section MergeProofs.
  Variable R : Type.
  Variable key : R -> bytes.
  Variable is_del : R -> bool.

  Definition key_lt (a b : R) : Prop := bytes_ltb (key a) (key b) = true.
  Definition sorted (l : list R) : Prop := StronglySorted key_lt l.

  Lemma key_lt_trans : forall a b c, key_lt a b -> key_lt b c -> key_lt a c.
  Proof. unfold key_lt. intros a b c H1 H2. eapply bytes_ltb_trans; eassumption. Qed.

  Lemma sorted_inv : forall a l, sorted (a :: l) -> sorted l /\ Forall (key_lt a) l.
  Proof. intros a l H. apply StronglySorted_inv in H. exact H. Qed.

  Lemma sorted_cons : forall a l, sorted l -> Forall (key_lt a) l -> sorted (a :: l).
  Proof. intros a l H1 H2. apply SSorted_cons; assumption. Qed.

  Lemma sorted_nil : sorted [].
  Proof. apply SSorted_nil. Qed.

  (* ---- lookup ---- *)
  Lemma lookup_some : forall k l r, lookup key k l = Some r -> key r = k /\ In r l.
  Proof.
    intros k l r. induction l as [|x t IH]; cbn [lookup]; [discriminate|].
    destruct (bytes_eqb_spec (key x) k) as [E|E]; intros H.
    - injection H as <-. split; [exact E|left; reflexivity].
    - destruct (IH H) as [H1 H2]. split; [exact H1|right; exact H2].
  Qed.

  Lemma lookup_none : forall k l, (forall x, In x l -> key x <> k) -> lookup key k l = None.
  Proof.
    intros k l. induction l as [|x t IH]; intros H; cbn [lookup]; [reflexivity|].
    destruct (bytes_eqb_spec (key x) k) as [E|E].
    - exfalso. apply (H x); [left; reflexivity|exact E].
    - apply IH. intros y Hy. apply H. right. exact Hy.
  Qed.

  Lemma lookup_sorted_in : forall l x, sorted l -> In x l -> lookup key (key x) l = Some x.
  Proof.
    induction l as [|a t IH]; intros x Hs Hin; [contradiction|].
    destruct (sorted_inv _ _ Hs) as [Hst Hfa]. cbn [lookup].
    destruct Hin as [->|Hin].
    - rewrite bytes_eqb_refl. reflexivity.
    - rewrite Forall_forall in Hfa. pose proof (Hfa x Hin) as Hlt. unfold key_lt in Hlt.
      rewrite (bytes_ltb_eqb _ _ Hlt). apply IH; assumption.
  Qed.

  Lemma sorted_lookup_ext : forall l1 l2, sorted l1 -> sorted l2 ->
    (forall k, lookup key k l1 = lookup key k l2) -> l1 = l2.
  Proof.
    induction l1 as [|a t1 IH]; intros [|b t2] H1 H2 H.
    - reflexivity.
    - specialize (H (key b)). cbn [lookup] in H. rewrite bytes_eqb_refl in H. discriminate.
    - specialize (H (key a)). cbn [lookup] in H. rewrite bytes_eqb_refl in H. discriminate.
    - destruct (sorted_inv _ _ H1) as [Hs1 Hf1]. destruct (sorted_inv _ _ H2) as [Hs2 Hf2].
      rewrite Forall_forall in Hf1, Hf2.
      assert (Eab : a = b).
      { pose proof (H (key a)) as Ha. pose proof (H (key b)) as Hb.
        cbn [lookup] in Ha, Hb. rewrite bytes_eqb_refl in Ha, Hb.
        destruct (bytes_eqb_spec (key b) (key a)) as [E|E].
        - congruence.
        - destruct (bytes_eqb_spec (key a) (key b)) as [E'|E']; [congruence|].
          symmetry in Ha. apply lookup_some in Ha. apply lookup_some in Hb.
          destruct Ha as [_ Ha]. destruct Hb as [_ Hb].
          pose proof (Hf2 _ Ha) as L1. pose proof (Hf1 _ Hb) as L2. unfold key_lt in *.
          rewrite (bytes_ltb_asym _ _ L1) in L2. discriminate. }
      subst b. f_equal. apply IH; [assumption|assumption|].
      intros k. specialize (H k). cbn [lookup] in H.
      destruct (bytes_eqb_spec (key a) k) as [E|E]; [|exact H].
      rewrite !lookup_none; [reflexivity| |].
      + intros x Hx. specialize (Hf2 _ Hx). unfold key_lt in Hf2.
        apply bytes_ltb_neq in Hf2. congruence.
      + intros x Hx. specialize (Hf1 _ Hx). unfold key_lt in Hf1.
        apply bytes_ltb_neq in Hf1. congruence.
  Qed.

  (* ---- merge2 ---- *)
  Lemma merge2_nil_l : forall b, merge2 key [] b = b.
  Proof. intros [|n ns]; reflexivity. Qed.

  Lemma merge2_nil_r : forall a, merge2 key a [] = a.
  Proof. intros [|o os]; reflexivity. Qed.

  Lemma merge2_cons : forall o os n ns, merge2 key (o :: os) (n :: ns) =
    if bytes_ltb (key o) (key n) then o :: merge2 key os (n :: ns)
    else if bytes_ltb (key n) (key o) then n :: merge2 key (o :: os) ns
    else n :: merge2 key os ns.
  Proof. reflexivity. Qed.

  Lemma merge2_in : forall a b x, In x (merge2 key a b) -> In x a \/ In x b.
  Proof.
    induction a as [|o os IHa]; intros b x.
    - rewrite merge2_nil_l. auto.
    - induction b as [|n ns IHb].
      + rewrite merge2_nil_r. auto.
      + rewrite merge2_cons.
        destruct (bytes_ltb (key o) (key n)); [|destruct (bytes_ltb (key n) (key o))];
          intros [->|H].
        * left; left; reflexivity.
        * destruct (IHa _ _ H) as [H1|H1]; [left; right; exact H1|right; exact H1].
        * right; left; reflexivity.
        * destruct (IHb H) as [H1|H1]; [left; exact H1|right; right; exact H1].
        * right; left; reflexivity.
        * destruct (IHa _ _ H) as [H1|H1]; [left; right; exact H1|right; right; exact H1].
  Qed.

  Lemma merge2_sorted : forall a b, sorted a -> sorted b -> sorted (merge2 key a b).
  Proof.
    induction a as [|o os IHa]; intros b Ha Hb.
    - rewrite merge2_nil_l. exact Hb.
    - induction b as [|n ns IHb].
      + rewrite merge2_nil_r. exact Ha.
      + rewrite merge2_cons.
        destruct (sorted_inv _ _ Ha) as [Hsa Hfa]. destruct (sorted_inv _ _ Hb) as [Hsb Hfb].
        rewrite Forall_forall in Hfa, Hfb.
        destruct (bytes_ltb (key o) (key n)) eqn:E1;
          [|destruct (bytes_ltb (key n) (key o)) eqn:E2].
        * apply sorted_cons; [apply IHa; assumption|].
          apply Forall_forall. intros x Hx. apply merge2_in in Hx.
          destruct Hx as [Hx|[<-|Hx]].
          -- apply Hfa; exact Hx.
          -- exact E1.
          -- eapply key_lt_trans; [exact E1|apply Hfb; exact Hx].
        * apply sorted_cons; [apply IHb; assumption|].
          apply Forall_forall. intros x Hx. apply merge2_in in Hx.
          destruct Hx as [[<-|Hx]|Hx].
          -- exact E2.
          -- eapply key_lt_trans; [exact E2|apply Hfa; exact Hx].
          -- apply Hfb; exact Hx.
        * assert (E : key o = key n) by (apply bytes_ltb_total; assumption).
          apply sorted_cons; [apply IHa; assumption|].
          apply Forall_forall. intros x Hx. apply merge2_in in Hx.
          destruct Hx as [Hx|Hx].
          -- unfold key_lt. rewrite <- E. apply Hfa; exact Hx.
          -- apply Hfb; exact Hx.
  Qed.

  Lemma merge2_lookup : forall k a b, sorted b ->
    lookup key k (merge2 key a b) =
      match lookup key k b with Some r => Some r | None => lookup key k a end.
  Proof.
    intros k. induction a as [|o os IHa]; intros b Hb.
    - rewrite merge2_nil_l. cbn [lookup]. destruct (lookup key k b); reflexivity.
    - induction b as [|n ns IHb].
      + rewrite merge2_nil_r. reflexivity.
      + rewrite merge2_cons. destruct (sorted_inv _ _ Hb) as [Hsb Hfb].
        rewrite Forall_forall in Hfb.
        destruct (bytes_ltb (key o) (key n)) eqn:E1;
          [|destruct (bytes_ltb (key n) (key o)) eqn:E2].
        * cbn [lookup]. rewrite (IHa (n :: ns) Hb). cbn [lookup].
          destruct (bytes_eqb_spec (key o) k) as [Eo|Eo];
          destruct (bytes_eqb_spec (key n) k) as [En|En]; try reflexivity.
          -- exfalso. apply bytes_ltb_neq in E1. congruence.
          -- rewrite lookup_none; [reflexivity|].
             intros x Hx Hk. pose proof (Hfb x Hx) as Hnx. unfold key_lt in Hnx.
             pose proof (bytes_ltb_trans _ _ _ E1 Hnx) as Hox.
             apply bytes_ltb_neq in Hox. congruence.
        * cbn [lookup]. rewrite (IHb Hsb). cbn [lookup].
          destruct (bytes_eqb (key n) k); reflexivity.
        * assert (E : key o = key n) by (apply bytes_ltb_total; assumption).
          cbn [lookup]. rewrite (IHa ns Hsb). rewrite E.
          destruct (bytes_eqb (key n) k); reflexivity.
  Qed.

  (* ---- overlay ---- *)
  Lemma fold_merge2_sorted : forall ts acc, sorted acc -> Forall sorted ts ->
    sorted (fold_left (merge2 key) ts acc).
  Proof.
    induction ts as [|t rest IH]; intros acc Ha Hts; cbn [fold_left]; [exact Ha|].
    inversion Hts as [|? ? Ht Hrest]; subst.
    apply IH; [apply merge2_sorted; assumption|exact Hrest].
  Qed.

  Lemma fold_merge2_lookup : forall k ts acc, Forall sorted ts ->
    lookup key k (fold_left (merge2 key) ts acc) =
      match lookup_newest key k ts with Some r => Some r | None => lookup key k acc end.
  Proof.
    intros k. induction ts as [|t rest IH]; intros acc Hts; cbn [fold_left lookup_newest];
      [reflexivity|].
    inversion Hts as [|? ? Ht Hrest]; subst.
    rewrite (IH _ Hrest). destruct (lookup_newest key k rest); [reflexivity|].
    apply merge2_lookup. exact Ht.
  Qed.

  Theorem overlay_sorted : forall ts, Forall sorted ts -> sorted (overlay key ts).
  Proof. intros ts H. unfold overlay. apply fold_merge2_sorted; [apply sorted_nil|exact H]. Qed.

  Theorem overlay_lookup : forall ts k, Forall sorted ts ->
    lookup key k (overlay key ts) = lookup_newest key k ts.
  Proof.
    intros ts k H. unfold overlay. rewrite (fold_merge2_lookup k ts [] H).
    destruct (lookup_newest key k ts); reflexivity.
  Qed.

  (* ---- seek_list ---- *)
  Lemma seek_sorted : forall k l, sorted l -> sorted (seek_list key k l).
  Proof.
    intros k. induction l as [|r t IH]; intros H; [exact H|].
    cbn [seek_list]. destruct (bytes_ltb (key r) k); [|exact H].
    apply IH. apply (sorted_inv _ _ H).
  Qed.

  Lemma seek_all_ge : forall k l,
    (forall x, In x l -> bytes_ltb (key x) k = false) -> seek_list key k l = l.
  Proof.
    intros k [|r t] H; [reflexivity|]. cbn [seek_list].
    rewrite (H r) by (left; reflexivity). reflexivity.
  Qed.

  Lemma seek_lookup : forall k k' l, sorted l ->
    lookup key k' (seek_list key k l) = if bytes_ltb k' k then None else lookup key k' l.
  Proof.
    intros k k'. induction l as [|r t IH]; intros H.
    - cbn. destruct (bytes_ltb k' k); reflexivity.
    - destruct (sorted_inv _ _ H) as [Hs Hf]. rewrite Forall_forall in Hf.
      cbn [seek_list]. destruct (bytes_ltb (key r) k) eqn:E.
      + rewrite (IH Hs). cbn [lookup].
        destruct (bytes_ltb k' k) eqn:E'; [reflexivity|].
        destruct (bytes_eqb_spec (key r) k') as [Er|Er]; [|reflexivity].
        subst k'. congruence.
      + destruct (bytes_ltb k' k) eqn:E'; [|reflexivity].
        apply lookup_none. intros x Hx Hk. subst k'.
        assert (Hrx : bytes_ltb (key x) (key r) = false).
        { destruct Hx as [<-|Hx]; [apply bytes_ltb_irrefl|].
          apply bytes_ltb_asym. apply (Hf x Hx). }
        pose proof (bytes_lt_le_trans _ _ _ E' E) as H1.
        congruence.
  Qed.

  Lemma seek_lookup_newest : forall k k' ts, Forall sorted ts ->
    lookup_newest key k' (map (seek_list key k) ts) =
      if bytes_ltb k' k then None else lookup_newest key k' ts.
  Proof.
    intros k k'. induction ts as [|t rest IH]; intros H; cbn [map lookup_newest].
    - destruct (bytes_ltb k' k); reflexivity.
    - inversion H as [|? ? Ht Hrest]; subst.
      rewrite (IH Hrest), (seek_lookup k k' t Ht).
      destruct (bytes_ltb k' k); reflexivity.
  Qed.

  Lemma Forall_sorted_seek : forall k ts, Forall sorted ts ->
    Forall sorted (map (seek_list key k) ts).
  Proof.
    intros k ts H. apply Forall_forall. intros t Ht. apply in_map_iff in Ht.
    destruct Ht as [t0 [<- Ht0]]. apply seek_sorted.
    rewrite Forall_forall in H. apply H. exact Ht0.
  Qed.

  Lemma overlay_seek : forall k ts, Forall sorted ts ->
    overlay key (map (seek_list key k) ts) = seek_list key k (overlay key ts).
  Proof.
    intros k ts H. pose proof (Forall_sorted_seek k ts H) as H'.
    apply sorted_lookup_ext.
    - apply overlay_sorted. exact H'.
    - apply seek_sorted. apply overlay_sorted. exact H.
    - intros k'. rewrite (overlay_lookup _ k' H'), (seek_lookup_newest k k' ts H).
      rewrite (seek_lookup k k' _ (overlay_sorted ts H)), (overlay_lookup ts k' H).
      reflexivity.
  Qed.

  Lemma seek_filter : forall (f : R -> bool) k l, sorted l ->
    seek_list key k (filter f l) = filter f (seek_list key k l).
  Proof.
    intros f k. induction l as [|r t IH]; intros H; [reflexivity|].
    destruct (sorted_inv _ _ H) as [Hs Hf]. rewrite Forall_forall in Hf.
    cbn [seek_list]. destruct (bytes_ltb (key r) k) eqn:E.
    - cbn [filter]. destruct (f r); [|exact (IH Hs)].
      cbn [seek_list]. rewrite E. exact (IH Hs).
    - apply seek_all_ge. intros x Hx. apply filter_In in Hx. destruct Hx as [Hx _].
      destruct Hx as [<-|Hx]; [exact E|].
      pose proof (Hf x Hx) as Hrx. unfold key_lt in Hrx.
      destruct (bytes_ltb (key x) k) eqn:E'; [|reflexivity].
      pose proof (bytes_ltb_trans _ _ _ Hrx E'). congruence.
  Qed.

  (* ---- fuel: the total number of remaining records decreases ---- *)
  Definition tsum (subs : list (list R)) : nat :=
    fold_right (fun l n => length l + n) 0 subs.

  Lemma total_eq : forall it : miter R, total it = length (m_heap it) + tsum (m_subs it).
  Proof. reflexivity. Qed.

  Lemma tsum_set_nth : forall i r rest subs,
    nth i subs [] = r :: rest -> tsum subs = S (tsum (set_nth i rest subs)).
  Proof.
    intros i r rest subs. revert i.
    induction subs as [|s t IH]; intros [|i] H; cbn [nth] in H; try discriminate.
    - subst s. reflexivity.
    - cbn [set_nth]. unfold tsum in *. cbn [fold_right]. rewrite (IH i H). lia.
  Qed.

  Lemma total_advance : forall i it, total (advance key i it) = total it.
  Proof.
    intros i it. unfold advance.
    destruct (nth i (m_subs it) []) as [|r rest] eqn:E; [reflexivity|].
    rewrite !total_eq. cbn [m_heap m_subs].
    pose proof (length_heap_add R key (m_heap it) (r, i)) as HL.
    pose proof (tsum_set_nth _ _ _ _ E) as HT. unfold entry in *. lia.
  Qed.

  Lemma heap_remove_cons : forall (e : R * nat) (tl : list (R * nat)),
    exists h1 : list (R * nat), heap_remove key (e :: tl) = Some (e, h1).
  Proof. intros e tl. eexists. reflexivity. Qed.

  Lemma drop_same_total : forall f k it, total (drop_same key f k it) <= total it.
  Proof.
    induction f as [|f IH]; intros k it; cbn [drop_same]; [lia|].
    destruct (m_heap it) as [|top tl] eqn:Hh; [lia|].
    destruct (bytes_ltb k (key (fst top))); [lia|].
    destruct (heap_remove_cons top tl) as [h1 Hr]. rewrite Hr.
    eapply Nat.le_trans; [apply IH|]. rewrite total_advance, !total_eq. cbn [m_heap m_subs].
    rewrite Hh. apply length_heap_remove in Hr. unfold entry in *. cbn [length] in *. lia.
  Qed.

  Lemma next_entry_total : forall it r it',
    next_entry key it = Some (r, it') -> total it' < total it.
  Proof.
    intros it r it'. unfold next_entry.
    destruct (heap_remove key (m_heap it)) as [[e h1]|] eqn:Hr; [|discriminate].
    set (it1 := drop_same key _ _ _).
    intros H. injection H as H1 H2. subst it'. unfold it1.
    eapply Nat.le_lt_trans; [apply drop_same_total|].
    rewrite total_advance, !total_eq. cbn [m_heap m_subs].
    apply length_heap_remove in Hr. unfold entry in *. lia.
  Qed.

  Lemma m_next_S : forall g s it, m_next key is_del (S g) s it =
    match next_entry key it with
    | None => None
    | Some (r, it') => if is_del r && s then m_next key is_del g s it' else Some (r, it')
    end.
  Proof. reflexivity. Qed.

  Lemma m_next_total : forall g s it r it',
    m_next key is_del g s it = Some (r, it') -> total it' < total it.
  Proof.
    induction g as [|g IH]; intros s it r it'; [discriminate|].
    rewrite m_next_S. destruct (next_entry key it) as [[r1 it1]|] eqn:E; [|discriminate].
    apply next_entry_total in E.
    destruct (is_del r1 && s); intros H.
    - apply IH in H. lia.
    - injection H as H1 H2. subst. exact E.
  Qed.

  Lemma m_next_fuel : forall g1 g2 s it, total it < g1 -> total it < g2 ->
    m_next key is_del g1 s it = m_next key is_del g2 s it.
  Proof.
    induction g1 as [|g1 IH]; intros g2 s it H1 H2; [lia|].
    destruct g2 as [|g2]; [lia|]. rewrite !m_next_S.
    destruct (next_entry key it) as [[r1 it1]|] eqn:E; [|reflexivity].
    apply next_entry_total in E. destruct (is_del r1 && s); [|reflexivity].
    apply IH; lia.
  Qed.

  Lemma drain_S : forall f s it, drain key is_del (S f) s it =
    match m_next key is_del (S (total it)) s it with
    | None => []
    | Some (r, it') => r :: drain key is_del f s it'
    end.
  Proof. reflexivity. Qed.

  Lemma drain_fuel : forall f1 f2 s it, total it < f1 -> total it < f2 ->
    drain key is_del f1 s it = drain key is_del f2 s it.
  Proof.
    induction f1 as [|f1 IH]; intros f2 s it H1 H2; [lia|].
    destruct f2 as [|f2]; [lia|]. rewrite !drain_S.
    destruct (m_next key is_del (S (total it)) s it) as [[r it']|] eqn:E; [|reflexivity].
    apply m_next_total in E. f_equal. apply IH; lia.
  Qed.

  Lemma m_next_false : forall g it, m_next key is_del (S g) false it = next_entry key it.
  Proof.
    intros g it. rewrite m_next_S. destruct (next_entry key it) as [[r it']|]; [|reflexivity].
    rewrite andb_false_r. reflexivity.
  Qed.

  Definition scan0 (it : miter R) : list R := drain key is_del (S (total it)) false it.
  Definition scan1 (it : miter R) : list R := drain key is_del (S (total it)) true it.

  Lemma scan0_eq : forall it, scan0 it =
    match next_entry key it with None => [] | Some (r, it') => r :: scan0 it' end.
  Proof.
    intros it. unfold scan0. rewrite drain_S, m_next_false.
    destruct (next_entry key it) as [[r it']|] eqn:E; [|reflexivity].
    apply next_entry_total in E. f_equal. apply drain_fuel; lia.
  Qed.

  Lemma scan1_scan0 : forall n it, total it < n -> scan1 it = filter (live is_del) (scan0 it).
  Proof.
    induction n as [|n IH]; intros it Hn; [lia|].
    rewrite scan0_eq. unfold scan1. rewrite drain_S, m_next_S.
    destruct (next_entry key it) as [[r it']|] eqn:E; [|reflexivity].
    apply next_entry_total in E. rewrite andb_true_r. cbn [filter].
    change (live is_del r) with (negb (is_del r)).
    destruct (is_del r); cbn [negb].
    - rewrite <- (IH it') by lia. unfold scan1. rewrite drain_S.
      rewrite (m_next_fuel (total it) (S (total it')) true it') by lia.
      destruct (m_next key is_del (S (total it')) true it') as [[r2 it2]|] eqn:E2; [|reflexivity].
      apply m_next_total in E2. f_equal. apply drain_fuel; lia.
    - f_equal. rewrite <- (IH it') by lia. unfold scan1. apply drain_fuel; lia.
  Qed.

  (* ---- the iterator invariant ---- *)
  Definition noent (i : nat) (h : list (R * nat)) : Prop := forall r, ~ In (r, i) h.

  Lemma noent_dec : forall i h, noent i h \/ exists r, In (r, i) h.
  Proof.
    intros i h. induction h as [|[r j] t IH].
    - left. intros r H. exact H.
    - destruct (Nat.eq_dec j i) as [->|Hne].
      + right. exists r. left. reflexivity.
      + destruct IH as [IH|[r' IH]].
        * left. intros r' [H|H]; [congruence|exact (IH r' H)].
        * right. exists r'. right. exact IH.
  Qed.

  Lemma noent_map : forall i h, noent i h -> ~ In i (map snd h).
  Proof.
    intros i h H Hin. apply in_map_iff in Hin. destruct Hin as [[r j] [E Hin]].
    cbn in E. subst j. exact (H r Hin).
  Qed.

  Lemma notin_noent : forall i h, ~ In i (map snd h) -> noent i h.
  Proof.
    intros i h H r Hin. apply H. apply in_map_iff. exists (r, i). split; [reflexivity|exact Hin].
  Qed.

  (* [ts] are the remaining tables the state stands for.  PreInv is the state
     between removing the entry of table i and advancing sub-iterator i. *)
  Record PreInv (n i : nat) (it : miter R) (ts : list (list R)) : Prop := {
    p_len : length (m_subs it) = length ts;
    p_hp : HP key (m_heap it);
    p_nd : NoDup (map snd (m_heap it));
    p_sorted : Forall sorted ts;
    p_ent : forall r j, In (r, j) (m_heap it) -> nth j ts [] = r :: nth j (m_subs it) [];
    p_noi : noent i (m_heap it);
    p_no : forall j, noent j (m_heap it) ->
             nth j ts [] = nth j (m_subs it) [] /\
             (j < n -> j <> i -> nth j (m_subs it) [] = [])
  }.

  Record InvN (n : nat) (it : miter R) (ts : list (list R)) : Prop := {
    i_len : length (m_subs it) = length ts;
    i_hp : HP key (m_heap it);
    i_nd : NoDup (map snd (m_heap it));
    i_sorted : Forall sorted ts;
    i_ent : forall r j, In (r, j) (m_heap it) -> nth j ts [] = r :: nth j (m_subs it) [];
    i_no : forall j, noent j (m_heap it) ->
             nth j ts [] = nth j (m_subs it) [] /\ (j < n -> nth j (m_subs it) [] = [])
  }.

  Definition Inv (it : miter R) (ts : list (list R)) : Prop := InvN (length ts) it ts.

  Lemma advance_inv : forall n i it ts, PreInv n i it ts -> InvN n (advance key i it) ts.
  Proof.
    intros n i it ts [Hlen Hhp Hnd Hso Hent Hnoi Hno]. unfold advance.
    destruct (nth i (m_subs it) []) as [|r rest] eqn:E.
    - constructor; try assumption.
      intros j Hj. destruct (Hno j Hj) as [H1 H2]. split; [exact H1|].
      intros Hjn. destruct (Nat.eq_dec j i) as [->|Hne]; [exact E|apply H2; assumption].
    - destruct (heap_add_spec R key (m_heap it) (r, i) Hhp) as [Hhp' Hperm].
      assert (Hi : i < length (m_subs it)) by (apply nth_nonnil_lt; rewrite E; discriminate).
      constructor; cbn [m_heap m_subs].
      + rewrite length_set_nth. exact Hlen.
      + exact Hhp'.
      + eapply Permutation_NoDup; [symmetry; apply Permutation_map; exact Hperm|].
        cbn [map snd]. constructor; [apply noent_map; exact Hnoi|exact Hnd].
      + exact Hso.
      + intros r' j Hin. apply (Permutation_in _ Hperm) in Hin. destruct Hin as [Heq|Hin].
        * injection Heq as <- <-. rewrite nth_set_nth_eq by exact Hi.
          destruct (Hno i Hnoi) as [H1 _]. rewrite H1. exact E.
        * assert (j <> i) by (intros ->; exact (Hnoi r' Hin)).
          rewrite nth_set_nth_neq by congruence. apply Hent. exact Hin.
      + intros j Hj.
        assert (Hji : j <> i).
        { intros ->. apply (Hj r). apply (Permutation_in _ (Permutation_sym Hperm)).
          left. reflexivity. }
        assert (Hj' : noent j (m_heap it)).
        { intros r' Hin. apply (Hj r'). apply (Permutation_in _ (Permutation_sym Hperm)).
          right. exact Hin. }
        rewrite nth_set_nth_neq by congruence. destruct (Hno j Hj') as [H1 H2].
        split; [exact H1|]. intros Hjn. apply H2; assumption.
  Qed.

  Lemma advance_heap_in : forall i it e, HP key (m_heap it) ->
    In e (m_heap (advance key i it)) -> snd e = i \/ In e (m_heap it).
  Proof.
    intros i it e Hhp. unfold advance.
    destruct (nth i (m_subs it) []) as [|r rest]; [right; assumption|].
    cbn [m_heap]. intros Hin.
    destruct (heap_add_spec R key (m_heap it) (r, i) Hhp) as [_ Hperm].
    apply (Permutation_in _ Hperm) in Hin. destruct Hin as [<-|Hin]; [left; reflexivity|].
    right. exact Hin.
  Qed.

  Lemma pop_inv : forall n it ts r i h1,
    InvN n it ts -> heap_remove key (m_heap it) = Some ((r, i), h1) ->
    In (r, i) (m_heap it) /\
    nth i ts [] = r :: nth i (m_subs it) [] /\
    (forall x, In x (m_heap it) -> ple key (r, i) x) /\
    PreInv n i {| m_heap := h1; m_subs := m_subs it |} (set_nth i (nth i (m_subs it) []) ts).
  Proof.
    intros n it ts r i h1 [Hlen Hhp Hnd Hso Hent Hno] Hr.
    destruct (heap_remove_spec R key _ _ _ Hhp Hr) as [Hhp1 [Hperm Hmin]].
    assert (Hri : In (r, i) (m_heap it))
      by (apply (Permutation_in _ (Permutation_sym Hperm)); left; reflexivity).
    pose proof (Hent r i Hri) as Hti.
    assert (Hi : i < length ts) by (apply nth_nonnil_lt; rewrite Hti; discriminate).
    assert (Hnd' : NoDup (i :: map snd h1)).
    { change (i :: map snd h1) with (map snd ((r, i) :: h1)).
      eapply Permutation_NoDup; [apply Permutation_map; exact Hperm|exact Hnd]. }
    inversion Hnd' as [|? ? Hnotin Hnd1]; subst.
    split; [exact Hri|]. split; [exact Hti|]. split; [exact Hmin|].
    constructor; cbn [m_heap m_subs].
    - rewrite length_set_nth. exact Hlen.
    - exact Hhp1.
    - exact Hnd1.
    - apply Forall_set_nth; [exact Hso|].
      assert (Hs : sorted (nth i ts []))
        by (rewrite Forall_forall in Hso; apply Hso; apply nth_In; exact Hi).
      rewrite Hti in Hs. apply sorted_inv in Hs. apply Hs.
    - intros r' j Hin.
      assert (Hji : j <> i).
      { intros ->. apply Hnotin. apply in_map_iff. exists (r', i). auto. }
      rewrite nth_set_nth_neq by congruence. apply Hent.
      apply (Permutation_in _ (Permutation_sym Hperm)). right. exact Hin.
    - apply notin_noent. exact Hnotin.
    - intros j Hj. destruct (Nat.eq_dec j i) as [->|Hji].
      + split; [apply nth_set_nth_eq; exact Hi|]. intros _ Hc. congruence.
      + rewrite nth_set_nth_neq by congruence.
        assert (Hj' : noent j (m_heap it)).
        { intros r' Hin. apply (Permutation_in _ Hperm) in Hin.
          destruct Hin as [Heq|Hin]; [congruence|exact (Hj r' Hin)]. }
        destruct (Hno j Hj') as [H1 H2]. split; [exact H1|]. intros Hjn _. apply H2; exact Hjn.
  Qed.

  (* ---- initialisation ---- *)
  Lemma init_loop_inv : forall n i it ts,
    InvN i it ts -> (forall r j, In (r, j) (m_heap it) -> j < i) ->
    InvN (i + n) (init_loop key n i it) ts.
  Proof.
    induction n as [|n IH]; intros i it ts H Hlt.
    - cbn [init_loop]. rewrite Nat.add_0_r. exact H.
    - cbn [init_loop]. replace (i + S n) with (S i + n) by lia. apply IH.
      + apply advance_inv. destruct H as [Hlen Hhp Hnd Hso Hent Hno].
        constructor; try assumption.
        * intros r Hin. apply Hlt in Hin. lia.
        * intros j Hj. destruct (Hno j Hj) as [H1 H2]. split; [exact H1|].
          intros Hjs Hji. apply H2. lia.
      + intros r j Hin. apply advance_heap_in in Hin; [|apply H].
        destruct Hin as [Hin|Hin]; cbn [snd] in Hin; [lia|]. apply Hlt in Hin. lia.
  Qed.

  Lemma m_init_inv : forall ts, Forall sorted ts -> Inv (m_init key ts) ts.
  Proof.
    intros ts H. unfold Inv, m_init.
    apply (init_loop_inv (length ts) 0).
    - constructor; cbn [m_heap m_subs].
      + reflexivity.
      + apply HP_nil.
      + constructor.
      + exact H.
      + intros r j Hin. contradiction.
      + intros j _. split; [reflexivity|lia].
    - intros r j Hin. contradiction.
  Qed.

  (* ---- consequences of the invariant ---- *)
  Lemma inv_table_cases : forall it ts j, Inv it ts ->
    nth j ts [] = [] \/
    exists r, In (r, j) (m_heap it) /\ nth j ts [] = r :: nth j (m_subs it) [].
  Proof.
    intros it ts j [Hlen Hhp Hnd Hso Hent Hno].
    destruct (noent_dec j (m_heap it)) as [Hj|[r Hr]].
    - left. destruct (Hno j Hj) as [H1 H2].
      destruct (Nat.lt_ge_cases j (length ts)) as [Hlt|Hge].
      + rewrite H1. apply H2. exact Hlt.
      + apply nth_overflow. exact Hge.
    - right. exists r. split; [exact Hr|apply Hent; exact Hr].
  Qed.

  Lemma inv_sorted_nth : forall it ts j, Inv it ts -> sorted (nth j ts []).
  Proof.
    intros it ts j H. destruct (Nat.lt_ge_cases j (length ts)) as [Hlt|Hge].
    - pose proof (i_sorted _ _ _ H) as Hso. rewrite Forall_forall in Hso.
      apply Hso. apply nth_In. exact Hlt.
    - rewrite nth_overflow by exact Hge. apply sorted_nil.
  Qed.

  Lemma inv_heap_nil : forall it ts, Inv it ts -> m_heap it = [] ->
    forall t, In t ts -> t = [].
  Proof.
    intros it ts H Hh t Hin. destruct (In_nth _ _ [] Hin) as [j [Hj E]]. subst t.
    destruct (inv_table_cases it ts j H) as [H1|[r [H1 _]]]; [exact H1|].
    rewrite Hh in H1. contradiction.
  Qed.

  Definition all_ge (k : bytes) (ts : list (list R)) : Prop :=
    forall t x, In t ts -> In x t -> bytes_ltb (key x) k = false.

  Lemma inv_min_all_ge : forall it ts r i, Inv it ts ->
    (forall x, In x (m_heap it) -> ple key (r, i) x) -> all_ge (key r) ts.
  Proof.
    intros it ts r i H Hmin t x Hin Hx. destruct (In_nth _ _ [] Hin) as [j [Hj E]]. subst t.
    destruct (inv_table_cases it ts j H) as [H1|[r' [H1 H2]]];
      [rewrite H1 in Hx; contradiction|].
    pose proof (ple_key R key _ _ (Hmin _ H1)) as Hk. cbn [fst] in Hk.
    pose proof (inv_sorted_nth it ts j H) as Hs.
    rewrite H2 in Hx, Hs. destruct Hx as [<-|Hx]; [exact Hk|].
    apply sorted_inv in Hs. destruct Hs as [_ Hf]. rewrite Forall_forall in Hf.
    pose proof (Hf x Hx) as Hrx. unfold key_lt in Hrx.
    destruct (bytes_ltb (key x) (key r)) eqn:E; [|reflexivity].
    rewrite (bytes_ltb_trans _ _ _ Hrx E) in Hk. discriminate.
  Qed.

  Lemma lookup_newest_none : forall k ts,
    (forall t, In t ts -> lookup key k t = None) -> lookup_newest key k ts = None.
  Proof.
    intros k. induction ts as [|t rest IH]; intros H; cbn [lookup_newest]; [reflexivity|].
    rewrite IH by (intros t' Ht'; apply H; right; exact Ht').
    apply H. left. reflexivity.
  Qed.

  Lemma lookup_newest_nth : forall k r ts i,
    i < length ts -> lookup key k (nth i ts []) = Some r ->
    (forall j, i < j -> lookup key k (nth j ts []) = None) ->
    lookup_newest key k ts = Some r.
  Proof.
    intros k r. induction ts as [|t rest IH]; intros i Hi Hl Hn; [cbn in Hi; lia|].
    cbn [lookup_newest]. destruct i as [|i].
    - rewrite lookup_newest_none.
      + exact Hl.
      + intros t' Hin. destruct (In_nth _ _ [] Hin) as [j [Hj E]]. rewrite <- E.
        apply (Hn (S j)). lia.
    - rewrite (IH i); [reflexivity| cbn in Hi; lia | exact Hl |].
      intros j Hj. apply (Hn (S j)). lia.
  Qed.

  Lemma lookup_newest_some : forall k r ts,
    lookup_newest key k ts = Some r -> exists t, In t ts /\ In r t /\ key r = k.
  Proof.
    intros k r. induction ts as [|t rest IH]; cbn [lookup_newest]; [discriminate|].
    destruct (lookup_newest key k rest) as [r'|] eqn:E.
    - intros H. injection H as ->. destruct (IH eq_refl) as [t' [H1 H2]].
      exists t'. split; [right; exact H1|exact H2].
    - intros H. apply lookup_some in H. exists t. split; [left; reflexivity|].
      split; apply H.
  Qed.

  Lemma inv_min_newest : forall it ts r i, Inv it ts -> In (r, i) (m_heap it) ->
    (forall x, In x (m_heap it) -> ple key (r, i) x) ->
    lookup_newest key (key r) ts = Some r.
  Proof.
    intros it ts r i H Hri Hmin.
    pose proof (i_ent _ _ _ H r i Hri) as Hti.
    assert (Hi : i < length ts) by (apply nth_nonnil_lt; rewrite Hti; discriminate).
    apply (lookup_newest_nth (key r) r ts i Hi).
    - rewrite Hti. cbn [lookup]. rewrite bytes_eqb_refl. reflexivity.
    - intros j Hij.
      destruct (inv_table_cases it ts j H) as [H1|[r' [H1 H2]]]; [rewrite H1; reflexivity|].
      pose proof (ple_newer R key _ _ (Hmin _ H1) Hij) as Hlt. cbn [fst] in Hlt.
      pose proof (inv_sorted_nth it ts j H) as Hs. rewrite H2 in Hs |- *.
      apply sorted_inv in Hs. destruct Hs as [_ Hf]. rewrite Forall_forall in Hf.
      apply lookup_none. intros x [<-|Hx] Hk.
      + apply bytes_ltb_neq in Hlt. congruence.
      + pose proof (Hf x Hx) as Hrx. unfold key_lt in Hrx.
        pose proof (bytes_ltb_trans _ _ _ Hlt Hrx) as H3. apply bytes_ltb_neq in H3. congruence.
  Qed.

  (* ---- dropping the records with key <= k ---- *)
  Definition above (k : bytes) (l : list R) : list R :=
    filter (fun x => bytes_ltb k (key x)) l.

  Lemma lookup_above : forall k0 k l,
    lookup key k (above k0 l) = if bytes_ltb k0 k then lookup key k l else None.
  Proof.
    intros k0 k. induction l as [|x t IH].
    - cbn. destruct (bytes_ltb k0 k); reflexivity.
    - unfold above in *. cbn [filter]. destruct (bytes_ltb k0 (key x)) eqn:E.
      + cbn [lookup]. rewrite IH.
        destruct (bytes_eqb_spec (key x) k) as [Ex|Ex]; [|reflexivity].
        subst k. rewrite E. reflexivity.
      + rewrite IH. cbn [lookup].
        destruct (bytes_eqb_spec (key x) k) as [Ex|Ex]; [|reflexivity].
        subst k. rewrite E. reflexivity.
  Qed.

  Lemma lookup_newest_above : forall k0 k ts,
    lookup_newest key k (map (above k0) ts) =
      if bytes_ltb k0 k then lookup_newest key k ts else None.
  Proof.
    intros k0 k. induction ts as [|t rest IH]; cbn [map lookup_newest].
    - destruct (bytes_ltb k0 k); reflexivity.
    - rewrite IH, lookup_above. destruct (bytes_ltb k0 k); reflexivity.
  Qed.

  Lemma above_id : forall k l,
    (forall x, In x l -> bytes_ltb k (key x) = true) -> above k l = l.
  Proof.
    intros k. induction l as [|x t IH]; intros H; [reflexivity|].
    unfold above in *. cbn [filter]. rewrite (H x) by (left; reflexivity).
    f_equal. apply IH. intros y Hy. apply H. right. exact Hy.
  Qed.

  Lemma map_above_id : forall k ts,
    (forall t x, In t ts -> In x t -> bytes_ltb k (key x) = true) ->
    map (above k) ts = ts.
  Proof.
    intros k ts H. rewrite <- (map_id ts) at 2. apply map_ext_in.
    intros t Ht. apply above_id. intros x Hx. eapply H; eassumption.
  Qed.

  Lemma map_set_nth_absorb : forall A B (f : A -> B) i x d l,
    f (nth i l d) = f x -> map f (set_nth i x l) = map f l.
  Proof.
    intros A B f i x d l. revert i.
    induction l as [|y t IH]; intros [|i] H; cbn [set_nth map nth] in *; try reflexivity.
    - rewrite H. reflexivity.
    - rewrite (IH i H). reflexivity.
  Qed.

  Lemma inv_heap_nil_above : forall k it ts, Inv it ts -> m_heap it = [] ->
    map (above k) ts = ts.
  Proof.
    intros k it ts H Hh. apply map_above_id. intros t x Ht Hx.
    rewrite (inv_heap_nil it ts H Hh t Ht) in Hx. contradiction.
  Qed.

  Lemma drop_same_inv : forall f k it ts, Inv it ts -> total it <= f ->
    Inv (drop_same key f k it) (map (above k) ts).
  Proof.
    induction f as [|f IH]; intros k it ts H Hf.
    - cbn [drop_same]. rewrite (inv_heap_nil_above k it ts H); [exact H|].
      rewrite total_eq in Hf. apply length_zero_iff_nil. lia.
    - cbn [drop_same]. destruct (m_heap it) as [|[r i] tl] eqn:Hh.
      + rewrite (inv_heap_nil_above k it ts H Hh). exact H.
      + cbn [fst].
        assert (Hmin : forall x, In x (m_heap it) -> ple key (r, i) x).
        { intros x Hx. pose proof (i_hp _ _ _ H) as Hhp. rewrite Hh in Hhp, Hx.
          exact (HP_root_min R key (r, i) tl Hhp x Hx). }
        destruct (bytes_ltb k (key r)) eqn:Ek.
        * rewrite map_above_id; [exact H|]. intros t x Ht Hx.
          pose proof (inv_min_all_ge it ts r i H Hmin t x Ht Hx) as Hge.
          eapply bytes_lt_le_trans; eassumption.
        * destruct (heap_remove_cons (r, i) tl) as [h1 Hr]. rewrite Hr. cbn [snd].
          rewrite <- Hh in Hr.
          destruct (pop_inv _ it ts r i h1 H Hr) as [_ [Hti [_ Hpre]]].
          apply advance_inv in Hpre.
          assert (E : map (above k) (set_nth i (nth i (m_subs it) []) ts) = map (above k) ts).
          { apply map_set_nth_absorb with (d := []). rewrite Hti.
            unfold above. cbn [filter]. rewrite Ek. reflexivity. }
          rewrite <- E. apply IH.
          -- unfold Inv. rewrite length_set_nth. exact Hpre.
          -- rewrite total_advance, total_eq. cbn [m_heap m_subs].
             rewrite total_eq, Hh in Hf. apply length_heap_remove in Hr. rewrite Hh in Hr.
             unfold entry in *. cbn [length] in *. lia.
  Qed.

  Lemma next_entry_none : forall it ts, Inv it ts -> next_entry key it = None ->
    forall t, In t ts -> t = [].
  Proof.
    intros it ts H. unfold next_entry. destruct (m_heap it) as [|e tl] eqn:Hh.
    - intros _. apply (inv_heap_nil it ts H Hh).
    - destruct (heap_remove_cons e tl) as [h1 Hr]. rewrite Hr. discriminate.
  Qed.

  Lemma next_entry_inv : forall it ts r it', Inv it ts ->
    next_entry key it = Some (r, it') ->
    Inv it' (map (above (key r)) ts) /\
    lookup_newest key (key r) ts = Some r /\ all_ge (key r) ts.
  Proof.
    intros it ts r it' H. unfold next_entry.
    destruct (heap_remove key (m_heap it)) as [[[r0 i] h1]|] eqn:Hr; [|discriminate].
    cbn [fst snd]. set (it1 := drop_same key _ _ _).
    intros Heq. injection Heq as H1 H2. subst r0. unfold it1 in H2. clear it1.
    destruct (pop_inv _ it ts r i h1 H Hr) as [Hri [Hti [Hmin Hpre]]].
    apply advance_inv in Hpre.
    split; [|split].
    - subst it'.
      assert (E : map (above (key r)) (set_nth i (nth i (m_subs it) []) ts) =
                  map (above (key r)) ts).
      { apply map_set_nth_absorb with (d := []). rewrite Hti.
        unfold above. cbn [filter]. rewrite bytes_ltb_irrefl. reflexivity. }
      rewrite <- E. apply drop_same_inv; [|lia].
      unfold Inv. rewrite length_set_nth. exact Hpre.
    - eapply inv_min_newest; eassumption.
    - eapply inv_min_all_ge; eassumption.
  Qed.

  (* ---- the scan without suppression computes the overlay ---- *)
  Lemma scan0_spec : forall n it ts, total it < n -> Inv it ts ->
    sorted (scan0 it) /\ forall k, lookup key k (scan0 it) = lookup_newest key k ts.
  Proof.
    induction n as [|n IH]; intros it ts Hn H; [lia|].
    rewrite scan0_eq. destruct (next_entry key it) as [[r it']|] eqn:E.
    - pose proof (next_entry_total _ _ _ E) as Htot.
      destruct (next_entry_inv it ts r it' H E) as [H' [Hnew Hge]].
      destruct (IH it' _ ltac:(lia) H') as [Hs Hl].
      split.
      + apply sorted_cons; [exact Hs|]. apply Forall_forall. intros x Hx.
        pose proof (lookup_sorted_in _ _ Hs Hx) as Hlx.
        rewrite Hl, lookup_newest_above in Hlx. unfold key_lt.
        destruct (bytes_ltb (key r) (key x)); [reflexivity|discriminate].
      + intros k. cbn [lookup]. destruct (bytes_eqb_spec (key r) k) as [Ek|Ek].
        * subst k. symmetry. exact Hnew.
        * rewrite Hl, lookup_newest_above.
          destruct (bytes_ltb (key r) k) eqn:E1; [reflexivity|].
          symmetry. apply lookup_newest_none. intros t Ht. apply lookup_none.
          intros x Hx Hk. subst k. pose proof (Hge t x Ht Hx) as H2.
          apply Ek. apply bytes_ltb_total; assumption.
    - split; [apply sorted_nil|]. intros k. cbn [lookup]. symmetry.
      apply lookup_newest_none. intros t Ht.
      rewrite (next_entry_none it ts H E t Ht). reflexivity.
  Qed.

  Theorem merged_scan_overlay : forall ts, Forall sorted ts ->
    merged_scan key is_del false ts = overlay key ts.
  Proof.
    intros ts H. change (merged_scan key is_del false ts) with (scan0 (m_init key ts)).
    destruct (scan0_spec _ (m_init key ts) ts (Nat.lt_succ_diag_r _) (m_init_inv ts H))
      as [Hs Hl].
    apply sorted_lookup_ext; [exact Hs|apply overlay_sorted; exact H|].
    intros k. rewrite Hl, overlay_lookup by exact H. reflexivity.
  Qed.

  Theorem merged_scan_suppress : forall ts, Forall sorted ts ->
    merged_scan key is_del true ts = view key is_del ts.
  Proof.
    intros ts H. change (merged_scan key is_del true ts) with (scan1 (m_init key ts)).
    rewrite (scan1_scan0 _ _ (Nat.lt_succ_diag_r _)).
    change (scan0 (m_init key ts)) with (merged_scan key is_del false ts).
    rewrite (merged_scan_overlay ts H). reflexivity.
  Qed.

  Lemma filter_sorted : forall (f : R -> bool) l, sorted l -> sorted (filter f l).
  Proof.
    intros f. induction l as [|a t IH]; intros H; [exact H|].
    destruct (sorted_inv _ _ H) as [Hs Hf]. cbn [filter].
    destruct (f a); [|exact (IH Hs)].
    apply sorted_cons; [exact (IH Hs)|].
    rewrite Forall_forall in Hf. apply Forall_forall. intros x Hx.
    apply filter_In in Hx. apply Hf. apply Hx.
  Qed.

  Theorem merged_scan_sorted : forall s ts, Forall sorted ts ->
    sorted (merged_scan key is_del s ts).
  Proof.
    intros [|] ts H.
    - rewrite (merged_scan_suppress ts H). unfold view.
      apply filter_sorted. apply overlay_sorted. exact H.
    - rewrite (merged_scan_overlay ts H). apply overlay_sorted. exact H.
  Qed.

  Theorem merged_seek_spec : forall s ts k, Forall sorted ts ->
    merged_seek key is_del s ts k = seek_list key k (merged_scan key is_del s ts).
  Proof.
    intros [|] ts k H; unfold merged_seek.
    - rewrite (merged_scan_suppress _ (Forall_sorted_seek k ts H)).
      rewrite (merged_scan_suppress ts H). unfold view.
      rewrite (overlay_seek k ts H). symmetry. apply seek_filter.
      apply overlay_sorted. exact H.
    - rewrite (merged_scan_overlay _ (Forall_sorted_seek k ts H)).
      rewrite (merged_scan_overlay ts H). apply overlay_seek. exact H.
  Qed.
End MergeProofs.
