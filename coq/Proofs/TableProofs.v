(* C01: a written table reads back exactly the records that were written.
   Standard library only. *)
From Coq Require Import List NArith ZArith Arith Bool Lia ZifyN ZifyNat ZifyBool Sorted.
From RT Require Import Model.Bytes Model.Result Model.Varint Model.KeyCodec Model.Records
  Model.RecCodec Model.Block Model.Crc32 Model.Writer Model.Reader.
From RT Require Import Proofs.BytesProofs Proofs.CodecProofs Proofs.BlockInitEq Proofs.BlockProofs
  Proofs.WriterGuard.
Import ListNotations.
Local Open Scope N_scope.

#[local] Arguments N.div : simpl never.
#[local] Arguments N.modulo : simpl never.
#[local] Arguments N.mul : simpl never.
#[local] Arguments N.add : simpl never.
#[local] Arguments N.sub : simpl never.
#[local] Arguments N.pow : simpl never.
#[local] Arguments N.of_nat : simpl never.
#[local] Arguments N.to_nat : simpl never.
#[local] Arguments N.min : simpl never.
#[local] Arguments N.leb : simpl never.
#[local] Arguments N.ltb : simpl never.
#[local] Arguments N.eqb : simpl never.
#[local] Arguments Nat.div : simpl never.
#[local] Arguments Nat.modulo : simpl never.
#[local] Arguments Nat.ltb : simpl never.
#[local] Arguments Nat.leb : simpl never.

(* ------------------------------------------------------------------ *)
(* lists *)

Lemma tl_skipn1 : forall A (l : list A), tl l = skipn 1 l.
Proof. intros A [|x l]; reflexivity. Qed.

Lemma skipn_skipn_add : forall A (n m : nat) (l : list A), skipn n (skipn m l) = skipn (m + n) l.
Proof.
  intros A n m; revert n; induction m as [|m IH]; intros n l; [reflexivity|].
  destruct l as [|x l]; [now rewrite !skipn_nil|]. cbn [skipn Nat.add]. apply IH.
Qed.

Lemma drop_pos_skipn' : forall A (p : positive) (l : list A), drop_pos p l = skipn (Pos.to_nat p) l.
Proof.
  intros A p; induction p as [q IH|q IH|]; intros l; cbn [drop_pos].
  - rewrite !IH, tl_skipn1, !skipn_skipn_add. f_equal. lia.
  - rewrite !IH, !skipn_skipn_add. f_equal. lia.
  - apply tl_skipn1.
Qed.

Lemma dropN_skipn' : forall A (n : N) (l : list A), dropN n l = skipn (N.to_nat n) l.
Proof. intros A [|p] l; [reflexivity|]. unfold dropN. rewrite drop_pos_skipn'. f_equal. Qed.


Lemma nth_firstn : forall A (l : list A) (i n : nat) d, (i < n)%nat -> nth i (firstn n l) d = nth i l d.
Proof.
  intros A l; induction l as [|x l IH]; intros i n d H.
  - now rewrite firstn_nil.
  - destruct n as [|n]; [lia|]. destruct i as [|i]; cbn [firstn nth]; [reflexivity|]. apply IH; lia.
Qed.

(* ------------------------------------------------------------------ *)
(* CRC-32 values fit 32 bits *)

Lemma lxor_lt_pow2 : forall a b n, a < 2 ^ n -> b < 2 ^ n -> N.lxor a b < 2 ^ n.
Proof.
  intros a b n Ha Hb.
  destruct (N.eq_dec (N.lxor a b) 0) as [E|E]; [rewrite E; lia|].
  apply N.log2_lt_pow2; [lia|].
  pose proof (N.log2_lxor a b) as L.
  destruct (N.eq_dec a 0) as [->|Na].
  - rewrite N.lxor_0_l in *. apply N.log2_lt_pow2; lia.
  - destruct (N.eq_dec b 0) as [->|Nb].
    + rewrite N.lxor_0_r in *. apply N.log2_lt_pow2; lia.
    + assert (N.log2 a < n) by (apply N.log2_lt_pow2; lia).
      assert (N.log2 b < n) by (apply N.log2_lt_pow2; lia). lia.
Qed.

Lemma crc_bits_lt : forall n c, c < 2 ^ 32 -> crc_bits n c < 2 ^ 32.
Proof.
  induction n as [|n IH]; intros c H; cbn [crc_bits]; [exact H|]. apply IH.
  assert (S : N.shiftr c 1 < 2 ^ 32).
  { rewrite N.shiftr_div_pow2. change (2 ^ 1) with 2. change (2 ^ 32) with 4294967296 in *.
    pose proof (N.div_le_upper_bound c 2 4294967295). lia. }
  destruct (N.testbit c 0); [|exact S]. apply lxor_lt_pow2; [exact S|reflexivity].
Qed.

Lemma crc_fold_lt : forall data c, wf_bytes data -> c < 2 ^ 32 -> fold_left crc_byte data c < 2 ^ 32.
Proof.
  induction data as [|b t IH]; intros c W H; cbn [fold_left]; [exact H|].
  inversion W as [|? ? Wb Wt]; subst. apply IH; [exact Wt|]. unfold crc_byte. apply crc_bits_lt.
  apply lxor_lt_pow2; [exact H|]. unfold wf_byte in Wb. change (2 ^ 32) with 4294967296. lia.
Qed.

Lemma crc32_lt : forall data, wf_bytes data -> crc32 data < 4294967296.
Proof.
  intros data W. unfold crc32. change 4294967296 with (2 ^ 32).
  apply lxor_lt_pow2; [|reflexivity]. apply crc_fold_lt; [exact W|reflexivity].
Qed.

Lemma wf_bytes_app : forall a b, wf_bytes a -> wf_bytes b -> wf_bytes (a ++ b).
Proof. intros a b Ha Hb. apply Forall_app. split; assumption. Qed.

Lemma header_bytes_wf : forall c min max, wf_bytes (header_bytes c min max).
Proof.
  intros. unfold header_bytes.
  apply wf_bytes_app; [unfold magic; repeat constructor; reflexivity|].
  apply wf_bytes_app; [apply be_bytes_wf|]. apply wf_bytes_app; [apply be_bytes_wf|].
  apply wf_bytes_app; [apply be_bytes_wf|].
  destruct (c_sha256 c); unfold sha256_id; repeat constructor; reflexivity.
Qed.

(* ------------------------------------------------------------------ *)
(* L1: header and footer *)

Lemma header_bytes_length : forall c min max, length (header_bytes c min max) = header_size c.
Proof.
  intros. unfold header_bytes, header_size, be32, be64.
  rewrite !app_length, !be_bytes_length. destruct (c_sha256 c); reflexivity.
Qed.

Lemma get_be_at_split : forall w off v a b l,
  l = a ++ be_bytes w v ++ b -> length a = off -> v < 256 ^ N.of_nat w -> get_be_at w off l = v.
Proof.
  intros w off v a b l -> <- H. unfold get_be_at.
  rewrite skipn_app_len. rewrite firstn_app_len' by (rewrite be_bytes_length; reflexivity).
  apply be_value_be_bytes. exact H.
Qed.

Lemma be_value_be_bytes_mod : forall w v, be_value (be_bytes w v) 0 = v mod 256 ^ N.of_nat w.
Proof.
  induction w as [|w IH]; intros v.
  - cbn [be_bytes be_value]. change (256 ^ N.of_nat 0) with 1. rewrite N.mod_1_r. reflexivity.
  - cbn [be_bytes]. rewrite be_value_app, IH. cbn [be_value].
    replace (256 ^ N.of_nat (S w)) with (256 * 256 ^ N.of_nat w)
      by (rewrite Nat2N.inj_succ, N.pow_succ_r'; reflexivity).
    assert (P : 256 ^ N.of_nat w <> 0) by (apply N.pow_nonzero; lia).
    rewrite (N.mod_mul_r v 256 (256 ^ N.of_nat w)) by lia. lia.
Qed.

Lemma get_be_at_mod : forall w off v a b l,
  l = a ++ be_bytes w v ++ b -> length a = off -> get_be_at w off l = v mod 256 ^ N.of_nat w.
Proof.
  intros w off v a b l -> <-. unfold get_be_at.
  rewrite skipn_app_len. rewrite firstn_app_len' by (rewrite be_bytes_length; reflexivity).
  apply be_value_be_bytes_mod.
Qed.

Lemma read_block_ok : forall src off sz,
  off < N.of_nat (length src) ->
  read_block src off sz = Some (firstn (N.to_nat (N.min sz (N.of_nat (length src) - off))) (skipn (N.to_nat off) src)).
Proof.
  intros src off sz H. unfold read_block.
  destruct (N.leb_spec (N.of_nat (length src)) off); [lia|]. rewrite dropN_skipn'. reflexivity.
Qed.

Lemma be32_bytes : forall x, be32 x = [x / 256 / 256 / 256 mod 256; x / 256 / 256 mod 256; x / 256 mod 256; x mod 256].
Proof. reflexivity. Qed.

Definition footer_of (c : config) (min max ri oo oi lo li : N) : bytes :=
  header_bytes c min max ++ be64 ri ++ be64 oo ++ be64 oi ++ be64 lo ++ be64 li.

Lemma pow256_4 : 256 ^ N.of_nat 4 = 4294967296.
Proof. reflexivity. Qed.

Definition version_of (c : config) : N := if c_sha256 c then 2 else 1.

Ltac len_solve := unfold be32, be64; rewrite !app_length, !be_bytes_length; cbn [length magic]; lia.

Lemma rd_open_written : forall c min max t body ri oo oi lo li,
  c_block_size c < 16777216 -> min < two64 -> max < two64 ->
  oo < two64 -> lo < two64 -> li < two64 ->
  let hb := header_bytes c min max in
  let foot := footer_of c min max ri oo oi lo li in
  let src := (hb ++ t :: body) ++ foot ++ be32 (crc32 foot) in
  rd_open src = Ok {| rd_src := src; rd_version := version_of c;
                      rd_block_size := c_block_size c; rd_min := min; rd_max := max;
                      rd_sha256 := c_sha256 c; rd_idlen := N.to_nat (oo mod 32);
                      rd_size := N.of_nat (length (hb ++ t :: body));
                      rd_ref := {| o_present := t =? typ_ref; o_offset := 0; o_index := ri mod two64 |};
                      rd_log := {| o_present := (t =? typ_log) || (0 <? lo); o_offset := lo; o_index := li |};
                      rd_obj := {| o_present := 0 <? oo / 32; o_offset := oo / 32; o_index := oi mod two64 |} |}.
Proof.
  intros c min max t body ri oo oi lo li Hbs Hmin Hmax Hoo Hlo Hli hb foot src.
  set (v := version_of c).
  set (X := c_block_size c + v * 16777216).
  set (idb := if c_sha256 c then sha256_id else []).
  set (hs := header_size c).
  assert (Hv : v = 1 \/ v = 2) by (unfold v, version_of; destruct (c_sha256 c); auto).
  assert (HX : X < 256 ^ N.of_nat 4) by (rewrite pow256_4; unfold X; lia).
  assert (Ehb : hb = magic ++ be32 X ++ be64 min ++ be64 max ++ idb).
  { unfold hb, header_bytes, X, v, version_of, idb. destruct (c_sha256 c); reflexivity. }
  assert (Lhb : length hb = hs) by apply header_bytes_length.
  assert (Lidb : length idb = (hs - 24)%nat).
  { unfold idb, hs, header_size. destruct (c_sha256 c); reflexivity. }
  assert (Hhs : hs = (if v =? 1 then 24%nat else 28%nat)).
  { unfold hs, header_size, v, version_of. destruct (c_sha256 c); reflexivity. }
  assert (Lfoot : length foot = (hs + 40)%nat).
  { unfold foot, footer_of. fold hb. unfold be64. rewrite !app_length, !be_bytes_length. lia. }
  assert (Hfs : (hs + 44)%nat = (if v =? 1 then 68%nat else 72%nat)).
  { rewrite Hhs. destruct Hv as [-> | ->]; reflexivity. }
  set (fs := (hs + 44)%nat) in *.
  set (data := hb ++ t :: body).
  assert (Ldata : (hs + 1 <= length data)%nat).
  { unfold data. rewrite app_length. cbn [length]. lia. }
  assert (Lsrc : length src = (length data + fs)%nat).
  { unfold src. fold data. rewrite !app_length, Lfoot. unfold be32. rewrite be_bytes_length. unfold fs. lia. }
  assert (H29 : (29 <= length src)%nat).
  { rewrite Lsrc. unfold fs. rewrite Hhs in *. destruct (v =? 1); lia. }
  (* the head *)
  assert (RB1 : read_block src 0 29 = Some (firstn 29 src)).
  { rewrite read_block_ok by lia. f_equal. change (N.to_nat 0) with 0%nat. cbn [skipn].
    f_equal. lia. }
  assert (Ver : nth 4 (firstn 29 src) 0 = v).
  { rewrite nth_firstn by lia. unfold src, data. rewrite Ehb. rewrite be32_bytes.
    cbn [magic app nth]. unfold X. rewrite !N.div_div by lia.
    change (256 * 256 * 256) with 16777216. rewrite N.div_add by lia.
    rewrite N.div_small by lia. destruct Hv as [-> | ->]; reflexivity. }
  assert (Mag : firstn 4 (firstn 29 src) = magic).
  { rewrite firstn_firstn. change (Nat.min 4 29) with 4%nat. unfold src, data. rewrite Ehb.
    rewrite <- !app_assoc. apply firstn_app_len'. reflexivity. }
  assert (Hd : firstn hs (firstn 29 src) = hb).
  { rewrite firstn_firstn. replace (Nat.min hs 29) with hs by (rewrite Hhs; destruct (v =? 1); lia).
    unfold src, data. rewrite <- !app_assoc. apply firstn_app_len'. auto. }
  assert (Ft : nth hs (firstn 29 src) 0 = t).
  { rewrite nth_firstn by (rewrite Hhs; destruct (v =? 1); lia).
    unfold src, data. rewrite <- !app_assoc. rewrite <- Lhb. apply nth_middle. }
  (* the footer *)
  assert (RB2 : read_block src (N.of_nat (length src) - N.of_nat fs) (N.of_nat fs) = Some (foot ++ be32 (crc32 foot))).
  { rewrite read_block_ok by lia. f_equal.
    replace (N.to_nat (N.of_nat (length src) - N.of_nat fs)) with (length data) by lia.
    replace (N.to_nat (N.min (N.of_nat fs) (N.of_nat (length src) - (N.of_nat (length src) - N.of_nat fs))))
      with fs by lia.
    unfold src. fold data. rewrite skipn_app_len. apply firstn_all2.
    rewrite app_length, Lfoot. unfold be32. rewrite be_bytes_length. unfold fs. lia. }
  set (ft := foot ++ be32 (crc32 foot)) in *.
  assert (Lft : length ft = fs).
  { unfold ft. rewrite app_length, Lfoot. unfold be32. rewrite be_bytes_length. unfold fs. lia. }
  assert (Fh : firstn hs ft = hb).
  { unfold ft, foot, footer_of. fold hb. rewrite <- !app_assoc. apply firstn_app_len'. auto. }
  assert (Eft : ft = magic ++ be32 X ++ be64 min ++ be64 max ++ idb ++ be64 ri ++ be64 oo ++ be64 oi ++
                     be64 lo ++ be64 li ++ be32 (crc32 foot)).
  { unfold ft, foot, footer_of. fold hb. rewrite Ehb. rewrite <- !app_assoc. reflexivity. }
  assert (P8 : forall x, x < two64 -> x < 256 ^ N.of_nat 8) by (intros; rewrite pow256_8; assumption).
  assert (G1 : get_be_at 4 4 ft = X).
  { eapply (get_be_at_split 4 4 X magic); [exact Eft|reflexivity|exact HX]. }
  assert (G2 : get_be_at 8 8 ft = min).
  { eapply (get_be_at_split 8 8 min (magic ++ be32 X)); [rewrite Eft, <- !app_assoc; reflexivity|reflexivity|auto]. }
  assert (G3 : get_be_at 8 16 ft = max).
  { eapply (get_be_at_split 8 16 max (magic ++ be32 X ++ be64 min));
      [rewrite Eft, <- !app_assoc; reflexivity|reflexivity|auto]. }
  assert (L24 : length (magic ++ be32 X ++ be64 min ++ be64 max) = 24%nat) by reflexivity.
  assert (Lpre : length (magic ++ be32 X ++ be64 min ++ be64 max ++ idb) = hs).
  { rewrite <- Ehb. exact Lhb. }
  assert (H24 : (24 <= hs)%nat) by (rewrite Hhs; destruct (v =? 1); lia).
  assert (G4 : get_be_at 8 hs ft = ri mod two64).
  { rewrite <- pow256_8.
    eapply (get_be_at_mod 8 hs ri (magic ++ be32 X ++ be64 min ++ be64 max ++ idb));
      [rewrite Eft, <- !app_assoc; reflexivity|exact Lpre]. }
  assert (G5 : get_be_at 8 (hs + 8) ft = oo).
  { eapply (get_be_at_split 8 (hs + 8) oo ((magic ++ be32 X ++ be64 min ++ be64 max ++ idb) ++ be64 ri));
      [rewrite Eft, <- !app_assoc; reflexivity|len_solve|auto]. }
  assert (G6 : get_be_at 8 (hs + 16) ft = oi mod two64).
  { rewrite <- pow256_8.
    eapply (get_be_at_mod 8 (hs + 16) oi ((magic ++ be32 X ++ be64 min ++ be64 max ++ idb) ++ be64 ri ++ be64 oo));
      [rewrite Eft, <- !app_assoc; reflexivity|len_solve]. }
  assert (G7 : get_be_at 8 (hs + 24) ft = lo).
  { eapply (get_be_at_split 8 (hs + 24) lo ((magic ++ be32 X ++ be64 min ++ be64 max ++ idb) ++ be64 ri ++ be64 oo ++ be64 oi));
      [rewrite Eft, <- !app_assoc; reflexivity|len_solve|auto]. }
  assert (G8 : get_be_at 8 (hs + 32) ft = li).
  { eapply (get_be_at_split 8 (hs + 32) li ((magic ++ be32 X ++ be64 min ++ be64 max ++ idb) ++ be64 ri ++ be64 oo ++ be64 oi ++ be64 lo));
      [rewrite Eft, <- !app_assoc; reflexivity|len_solve|auto]. }
  assert (G9 : get_be_at 4 (hs + 40) ft = crc32 (firstn (fs - 4) ft)).
  { assert (F : firstn (fs - 4) ft = foot).
    { unfold ft. apply firstn_app_len'. rewrite Lfoot. unfold fs. lia. }
    rewrite F. unfold get_be_at, ft. rewrite skipn_app_len' by (symmetry; exact Lfoot).
    rewrite firstn_all2 by (unfold be32; rewrite be_bytes_length; lia).
    unfold be32. apply be_value_be_bytes. rewrite pow256_4.
    (* crc32 < 2^32 *)
    apply crc32_lt. unfold foot, footer_of.
    apply wf_bytes_app; [apply header_bytes_wf|]. do 4 (apply wf_bytes_app; [apply be_bytes_wf|]).
    apply be_bytes_wf. }
  assert (Hid : (if v =? 1 then sha1_id else firstn 4 (skipn 24 ft)) = (if c_sha256 c then sha256_id else sha1_id)).
  { unfold v, version_of. destruct (c_sha256 c) eqn:S; [|reflexivity]. change (2 =? 1) with false. cbv iota.
    replace ft with ((magic ++ be32 X ++ be64 min ++ be64 max) ++ idb ++ be64 ri ++ be64 oo ++ be64 oi ++
                     be64 lo ++ be64 li ++ be32 (crc32 foot)) by (rewrite Eft, <- !app_assoc; reflexivity).
    rewrite skipn_app_len' by reflexivity. unfold idb. reflexivity. }
  unfold rd_open. rewrite RB1.
  rewrite firstn_length. replace (Nat.min 29 (length src)) with 29%nat by lia.
  change (Nat.ltb 29 29) with false. cbv iota.
  rewrite Mag. change (bytes_eqb magic magic) with true. cbn [negb].
  rewrite Ver.
  assert ((v =? 1) || (v =? 2) = true) as -> by (destruct Hv as [-> | ->]; reflexivity).
  cbn [negb]. cbv zeta.
  rewrite <- Hhs, <- Hfs.
  destruct (N.ltb_spec (N.of_nat (length src)) (N.of_nat (hs + fs))) as [L|L]; [lia|].
  rewrite RB2. rewrite Lft.
  destruct (Nat.ltb_spec fs fs) as [L2|_]; [lia|].
  rewrite Hd, Fh, bytes_eqb_refl. cbn [negb].
  rewrite Hid. rewrite G9, N.eqb_refl. cbn [negb].
  assert (bytes_eqb (if c_sha256 c then sha256_id else sha1_id) sha1_id
          || bytes_eqb (if c_sha256 c then sha256_id else sha1_id) sha256_id = true) as ->
    by (destruct (c_sha256 c); reflexivity).
  cbn [negb].
  rewrite G1, G2, G3, G4, G5, G6, G7, G8, Ft.
  f_equal. f_equal.
  - unfold X. rewrite N.mod_add by lia. apply N.mod_small. exact Hbs.
  - destruct (c_sha256 c); reflexivity.
  - change (hb ++ t :: body) with data. lia.
Qed.

(* ------------------------------------------------------------------ *)
(* L2: what the writer has put out *)

(* one flushed block: its type, its records, the bytes of the block and the
   number of padding bytes after it *)
Record chunk := { ck_typ : N; ck_recs : list record; ck_raw : bytes; ck_pad : nat }.
Definition ck_bytes (k : chunk) : bytes := ck_raw k ++ zeros (ck_pad k).
Definition layout (cs : list chunk) : bytes := flat_map ck_bytes cs.
Definition last_pad (cs : list chunk) : nat := last (map ck_pad cs) 0%nat.

Lemma layout_app : forall a b, layout (a ++ b) = layout a ++ layout b.
Proof. intros. apply flat_map_app. Qed.

Lemma last_pad_snoc : forall cs k, last_pad (cs ++ [k]) = ck_pad k.
Proof. intros. unfold last_pad. rewrite map_app. cbn [map]. apply last_last. Qed.

Lemma bw_add_all_snoc : forall recs w w' r w'',
  bw_add_all w recs = Ok (Some w') -> bw_add w' r = Ok (Some w'') ->
  bw_add_all w (recs ++ [r]) = Ok (Some w'').
Proof.
  induction recs as [|x t IH]; intros w w' r w'' A B; cbn [bw_add_all app] in *.
  - apply Ok_inj in A. injection A as ->. rewrite B. reflexivity.
  - destruct (bw_add w x) as [[w1|]| | |]; cbn [bind] in *; try discriminate.
    eapply IH; eassumption.
Qed.

Lemma winv2_new : forall typ hdr size interval hs, winv2 (bw_new typ hdr size interval hs).
Proof.
  intros. constructor; cbn [bw_new bw_restarts bw_entries bw_body bw_hdr]; try constructor; auto. lia.
Qed.

Lemma bw_add_all_entries : forall typ hdr size interval hs recs w,
  bw_add_all (bw_new typ hdr size interval hs) recs = Ok (Some w) -> bw_entries w = length recs.
Proof.
  intros typ hdr size interval hs recs w A.
  destruct (bw_add_all_inv2 recs _ w (winv2_new typ hdr size interval hs) A) as [_ E].
  rewrite E. reflexivity.
Qed.

Lemma bw_add_all_same : forall recs w w', bw_add_all w recs = Ok (Some w') -> bw_same w w'.
Proof.
  induction recs as [|x t IH]; intros w w' A; cbn [bw_add_all] in A.
  - apply Ok_inj in A. injection A as ->. apply bw_same_refl.
  - destruct (bw_add w x) as [[w1|]| | |] eqn:E; cbn [bind] in A; try discriminate.
    apply bw_add_inv in E. destruct E as (? & ? & ? & ? & ? & _ & _ & _ & _ & _ & _ & S & _).
    eapply bw_same_trans; [exact S|]. apply IH. exact A.
Qed.

Lemma bw_add_all_last : forall recs w w' d, bw_add_all w recs = Ok (Some w') -> recs <> [] ->
  bw_last w' = rec_key (last recs d).
Proof.
  induction recs as [|x t IH]; intros w w' d A NE; [congruence|]. cbn [bw_add_all] in A.
  destruct (bw_add w x) as [[w1|]| | |] eqn:E; cbn [bind] in A; try discriminate.
  destruct t as [|y t'].
  - cbn [bw_add_all] in A. apply Ok_inj in A. injection A as <-.
    apply bw_add_inv in E. destruct E as (? & ? & ? & ? & ? & _ & _ & _ & _ & _ & _ & _ & _ & _ & L & _).
    exact L.
  - change (last (x :: y :: t') d) with (last (y :: t') d). eapply IH; [exact A|discriminate].
Qed.

(* the length of a finished block that is not compressed *)
Lemma bw_finish_length : forall deflate fh w, bw_typ w =? typ_log = false ->
  length (bw_finish deflate fh w) = (length fh + 4 + length (bw_body w) + 3 * length (bw_restarts w) + 2)%nat.
Proof.
  intros deflate fh w T. unfold bw_finish. rewrite T.
  rewrite !app_length, be24_length, be16_length. cbn [length].
  fold (rtable (bw_restarts w)). rewrite rtable_length. lia.
Qed.

Lemma bw_finish_fits : forall deflate typ hdr size interval hs recs w fh,
  bw_add_all (bw_new typ hdr size interval hs) recs = Ok (Some w) -> recs <> [] ->
  length fh = hdr -> typ =? typ_log = false ->
  (length (bw_finish deflate fh w) <= size)%nat.
Proof.
  intros deflate typ hdr size interval hs recs w fh A NE Lf T.
  destruct (bw_add_all_inv hs recs _ [] w (winv_new typ hdr size interval hs) A) as (es & E & W & S).
  destruct S as (St & Sh & Ss & _). cbn [bw_new bw_typ bw_hdr bw_size] in St, Sh, Ss.
  assert (NE' : [] ++ es <> []) by (cbn [app]; intros ->; apply NE; symmetry; exact E).
  pose proof (wi_fit _ _ _ W NE') as F. unfold bw_next in F. rewrite Sh, Ss in F.
  rewrite bw_finish_length by (rewrite St; exact T). lia.
Qed.

(* a finished block starts with the file header (if any), its type and a 3-byte length *)
Lemma bw_finish_head : forall deflate fh w, exists b3 tl,
  bw_finish deflate fh w = fh ++ bw_typ w :: b3 ++ tl /\ length b3 = 3%nat.
Proof.
  intros. unfold bw_finish. 
  destruct (bw_typ w =? typ_log); eexists; eexists; (split; [rewrite <- app_assoc; cbn [app]; reflexivity|apply be24_length]).
Qed.

Section TableW.
  Variable deflate : bytes -> bytes.
  Variable c : config.          (* the writer's configuration, after defaults *)
  Variable mn mx : N.           (* SetLimits *)

  Definition bsz : N := c_block_size c.

  Definition blk_hdr (off : N) : nat := if off =? 0 then header_size c else O.
  Definition blk_file_hdr (off : N) : bytes := if off =? 0 then header_bytes c mn mx else [].
  Definition fresh_bw (off : N) (typ : N) : bw :=
    bw_new typ (blk_hdr off) (N.to_nat bsz) (c_restart_interval c) (hash_size c).

  Lemma blk_file_hdr_length : forall off, length (blk_file_hdr off) = blk_hdr off.
  Proof. intros. unfold blk_file_hdr, blk_hdr. destruct (off =? 0); [apply header_bytes_length|reflexivity]. Qed.

  (* chunk k is a block written at offset off *)
  Definition chunk_at (off : N) (k : chunk) : Prop :=
    is_block_type (ck_typ k) = true /\ ck_recs k <> [] /\
    (exists w, bw_add_all (fresh_bw off (ck_typ k)) (ck_recs k) = Ok (Some w) /\
               ck_raw k = bw_finish deflate (blk_file_hdr off) w) /\
    (ck_pad k = 0%nat \/
     (ck_typ k <> typ_log /\ N.of_nat (length (ck_raw k)) + N.of_nat (ck_pad k) = bsz)).

  Fixpoint chunks_at (off : N) (cs : list chunk) : Prop :=
    match cs with
    | [] => True
    | k :: t => chunk_at off k /\ chunks_at (off + N.of_nat (length (ck_bytes k))) t
    end.

  Lemma chunks_at_app : forall a b off,
    chunks_at off (a ++ b) <-> chunks_at off a /\ chunks_at (off + N.of_nat (length (layout a))) b.
  Proof.
    induction a as [|k t IH]; intros b off; cbn [app chunks_at].
    - unfold layout. cbn [flat_map length]. rewrite N.add_0_r. tauto.
    - rewrite IH. unfold layout. cbn [flat_map]. rewrite app_length.
      replace (off + N.of_nat (length (ck_bytes k)) + N.of_nat (length (flat_map ck_bytes t)))
        with (off + N.of_nat (length (ck_bytes k) + length (flat_map ck_bytes t))) by lia.
      tauto.
  Qed.

  Lemma chunk_at_len : forall off k, chunk_at off k -> (4 <= length (ck_raw k))%nat.
  Proof.
    intros off k (_ & _ & (w & _ & R) & _). destruct (bw_finish_head deflate (blk_file_hdr off) w) as (b3 & tl & E & L).
    rewrite R, E, app_length. cbn [length]. rewrite app_length. lia.
  Qed.

  (* the invariant of the output *)
  Record WI (st : wstate) (cs : list chunk) (cur : list record) : Prop := {
    wi_cfg : w_cfg st = c;
    wi_min : w_min st = mn;
    wi_max : w_max st = mx;
    wi_out : w_out st ++ zeros (N.to_nat (w_pad st)) = layout cs;
    wi_next : w_next st = N.of_nat (length (layout cs));
    wi_pad : w_pad st = N.of_nat (last_pad cs);
    wi_chunks : chunks_at 0 cs;
    wi_bw : match w_bw st with
            | None => cur = []
            | Some b => is_block_type (bw_typ b) = true /\
                        bw_add_all (fresh_bw (w_next st) (bw_typ b)) cur = Ok (Some b)
            end }.

  Lemma WI_frame : forall st st' cs cur,
    w_cfg st' = w_cfg st -> w_min st' = w_min st -> w_max st' = w_max st ->
    w_out st' = w_out st -> w_pad st' = w_pad st -> w_next st' = w_next st -> w_bw st' = w_bw st ->
    WI st cs cur -> WI st' cs cur.
  Proof.
    intros st st' cs cur E1 E2 E3 E4 E5 E6 E7 [A1 A2 A3 A4 A5 A6 A7 A8].
    constructor; try congruence.
    rewrite E7, E6. exact A8.
  Qed.

  Lemma new_bw_fresh : forall st typ, w_cfg st = c -> new_bw st typ = fresh_bw (w_next st) typ.
  Proof. intros st typ E. unfold new_bw, fresh_bw, blk_hdr, bsz. rewrite E. reflexivity. Qed.

  Lemma WI_set_bw_add : forall st cs cur b r b',
    WI st cs cur -> w_bw st = Some b -> bw_add b r = Ok (Some b') ->
    WI (set_bw st (Some b')) cs (cur ++ [r]).
  Proof.
    intros st cs cur b r b' [A1 A2 A3 A4 A5 A6 A7 A8] Hb Ha.
    rewrite Hb in A8. destruct A8 as [T A].
    assert (S : bw_typ b' = bw_typ b).
    { apply bw_add_inv in Ha. destruct Ha as (? & ? & ? & ? & ? & _ & _ & _ & _ & _ & _ & S & _). apply S. }
    constructor; cbn [set_bw upd w_cfg w_min w_max w_out w_pad w_next w_bw]; try assumption.
    rewrite S. split; [exact T|]. eapply bw_add_all_snoc; eassumption.
  Qed.

  Lemma WI_new_bw : forall st cs typ,
    WI st cs [] -> is_block_type typ = true ->
    WI (set_bw st (Some (new_bw st typ))) cs [].
  Proof.
    intros st cs typ [A1 A2 A3 A4 A5 A6 A7 A8] T.
    constructor; cbn [set_bw upd w_cfg w_min w_max w_out w_pad w_next w_bw]; try assumption.
    rewrite new_bw_fresh by exact A1. cbn [fresh_bw bw_new bw_typ]. split; [exact T|reflexivity].
  Qed.

  Lemma WI_cur_nil : forall st cs cur b, WI st cs cur -> w_bw st = Some b ->
    (bw_entries b = length cur) /\ bw_typ b = bw_typ b.
  Proof.
    intros st cs cur b W Hb. pose proof (wi_bw _ _ _ W) as A. rewrite Hb in A. destruct A as [_ A].
    split; [|reflexivity]. eapply bw_add_all_entries. exact A.
  Qed.

  Definition flush_pad (typ : N) (raw : bytes) : N :=
    if c_unaligned c || (typ =? typ_log) then 0 else bsz - N.of_nat (length raw).

  Definition bump (s : tstats) (off : N) : tstats :=
    {| ts_blocks := S (ts_blocks s);
       ts_offset := if Nat.eqb (ts_blocks s) 0 then off else ts_offset s;
       ts_index_blocks := ts_index_blocks s; ts_index_offset := ts_index_offset s;
       ts_max_level := ts_max_level s |}.

  Lemma flush_block_nop : forall st cs, WI st cs [] -> flush_block deflate st = st.
  Proof.
    intros st cs W. unfold flush_block. destruct (w_bw st) as [b|] eqn:Hb; [|reflexivity].
    destruct (WI_cur_nil _ _ _ _ W Hb) as [E _]. rewrite E. reflexivity.
  Qed.

  Lemma is_block_type_cases : forall t, is_block_type t = true ->
    t = typ_ref \/ t = typ_log \/ t = typ_obj \/ t = typ_idx.
  Proof. intros t H. unfold is_block_type in H. lia. Qed.

  Lemma flush_block_spec : forall st cs cur b d, WI st cs cur -> w_bw st = Some b -> cur <> [] ->
    let raw := bw_finish deflate (blk_file_hdr (w_next st)) b in
    let k := {| ck_typ := bw_typ b; ck_recs := cur; ck_raw := raw;
                ck_pad := N.to_nat (flush_pad (bw_typ b) raw) |} in
    let st' := flush_block deflate st in
    WI st' (cs ++ [k]) [] /\ w_bw st' = None /\
    w_index st' = w_index st ++ [(rec_key (last cur d), w_next st)] /\
    w_last_key st' = w_last_key st /\ w_obj st' = w_obj st /\ w_idlen st' = w_idlen st /\
    w_ref st' = (if bw_typ b =? typ_ref then bump (w_ref st) (w_next st) else w_ref st) /\
    w_log st' = (if bw_typ b =? typ_log then bump (w_log st) (w_next st) else w_log st) /\
    w_objs st' = (if bw_typ b =? typ_obj then bump (w_objs st) (w_next st) else w_objs st) /\
    w_idx st' = (if bw_typ b =? typ_idx then bump (w_idx st) (w_next st) else w_idx st).
  Proof.
    intros st cs cur b d W Hb NE raw k st'.
    pose proof W as [A1 A2 A3 A4 A5 A6 A7 A8]. rewrite Hb in A8. destruct A8 as [T A].
    assert (En : bw_entries b = length cur) by (eapply bw_add_all_entries; exact A).
    assert (Hl : bw_last b = rec_key (last cur d)) by (eapply bw_add_all_last; eassumption).
    assert (Ht : bw_typ (fresh_bw (w_next st) (bw_typ b)) = bw_typ b) by reflexivity.
    assert (E' : st' = flush_block deflate st) by reflexivity.
    unfold flush_block in E'. rewrite Hb in E'.
    destruct (Nat.eqb_spec (bw_entries b) 0) as [Z|NZ].
    { exfalso. rewrite En in Z. destruct cur; [congruence|discriminate]. }
    rewrite A1, A2, A3 in E'.
    change (if w_next st =? 0 then header_bytes c mn mx else []) with (blk_file_hdr (w_next st)) in E'.
    fold raw in E'.
    change (if c_unaligned c || (bw_typ b =? typ_log) then 0 else c_block_size c - N.of_nat (length raw))
      with (flush_pad (bw_typ b) raw) in E'.
    set (pad := flush_pad (bw_typ b) raw) in *.
    assert (Fit : bw_typ b =? typ_log = false -> N.of_nat (length raw) <= bsz).
    { intros TL. pose proof (bw_finish_fits deflate _ _ _ _ _ _ _ (blk_file_hdr (w_next st)) A NE
                               (blk_file_hdr_length _) TL) as F. fold raw in F. lia. }
    rewrite E'.
    split.
    { constructor; cbn [set_obj upd set_stats w_cfg w_min w_max w_out w_pad w_next w_bw]; try assumption.
      - rewrite layout_app. unfold layout at 2. cbn [flat_map]. rewrite app_nil_r.
        unfold ck_bytes. cbn [ck_raw ck_pad k]. rewrite <- A4. rewrite <- !app_assoc. reflexivity.
      - rewrite layout_app, app_length. unfold layout at 2. cbn [flat_map]. rewrite app_nil_r.
        unfold ck_bytes. cbn [ck_raw ck_pad k]. rewrite app_length, zeros_length. lia.
      - rewrite last_pad_snoc. cbn [ck_pad k]. lia.
      - apply chunks_at_app. split; [exact A7|]. cbn [chunks_at]. split; [|exact I].
        rewrite N.add_0_l, <- A5. unfold chunk_at. cbn [ck_typ ck_recs ck_raw ck_pad k].
        split; [exact T|]. split; [exact NE|]. split; [exists b; split; [exact A|reflexivity]|].
        unfold pad, flush_pad. destruct (c_unaligned c); [left; reflexivity|]. cbn [orb].
        destruct (bw_typ b =? typ_log) eqn:TL; [left; reflexivity|]. right.
        split; [lia|]. specialize (Fit eq_refl). lia.
      - reflexivity. }
    cbn [set_obj upd set_stats w_bw w_index w_last_key w_obj w_idlen w_ref w_log w_objs w_idx].
    rewrite Hl.
    destruct (is_block_type_cases _ T) as [E|[E|[E|E]]]; rewrite E; repeat (split; try reflexivity).
  Qed.

  (* ---- one section: consecutive blocks of one type ---- *)

  Definition rdummy : record := RecIdx [] 0.

  Fixpoint idx_of (off : N) (sec : list chunk) : list (bytes * N) :=
    match sec with
    | [] => []
    | k :: t => (rec_key (last (ck_recs k) rdummy), off) :: idx_of (off + N.of_nat (length (ck_bytes k))) t
    end.

  Lemma idx_of_app : forall a b off,
    idx_of off (a ++ b) = idx_of off a ++ idx_of (off + N.of_nat (length (layout a))) b.
  Proof.
    induction a as [|k t IH]; intros b off; cbn [app idx_of].
    - unfold layout. cbn [flat_map length]. rewrite N.add_0_r. reflexivity.
    - rewrite IH. unfold layout. cbn [flat_map]. rewrite app_length.
      replace (off + N.of_nat (length (ck_bytes k)) + N.of_nat (length (flat_map ck_bytes t)))
        with (off + N.of_nat (length (ck_bytes k) + length (flat_map ck_bytes t))) by lia.
      reflexivity.
  Qed.

  Lemma idx_of_length : forall sec off, length (idx_of off sec) = length sec.
  Proof. induction sec as [|k t IH]; intros off; cbn [idx_of length]; [reflexivity|]. rewrite IH. reflexivity. Qed.

  Record SI (T : N) (st : wstate) (cs0 sec : list chunk) (cur L : list record) : Prop := {
    si_wi : WI st (cs0 ++ sec) cur;
    si_typ : Forall (fun k => ck_typ k = T) sec;
    si_recs : concat (map ck_recs sec) ++ cur = L;
    si_index : w_index st = idx_of (N.of_nat (length (layout cs0))) sec;
    si_bw : match w_bw st with Some b => bw_typ b = T | None => True end }.

  Lemma SI_frame : forall T st st' cs0 sec cur L,
    w_cfg st' = w_cfg st -> w_min st' = w_min st -> w_max st' = w_max st ->
    w_out st' = w_out st -> w_pad st' = w_pad st -> w_next st' = w_next st -> w_bw st' = w_bw st ->
    w_index st' = w_index st ->
    SI T st cs0 sec cur L -> SI T st' cs0 sec cur L.
  Proof.
    intros T st st' cs0 sec cur L E1 E2 E3 E4 E5 E6 E7 E8 [A1 A2 A3 A4 A5].
    constructor; try assumption.
    - eapply WI_frame; eassumption.
    - congruence.
    - rewrite E7. exact A5.
  Qed.

  (* the common step of w_add / index_level / dump_objs *)
  Lemma add_step : forall T st cs0 sec cur L r b a,
    SI T st cs0 sec cur L -> is_block_type T = true -> w_bw st = Some b ->
    bw_add b r = Ok a ->
    match a with
    | Some b' => SI T (set_bw st (Some b')) cs0 sec (cur ++ [r]) (L ++ [r])
    | None =>
        let st2 := flush_block deflate st in
        forall a2, bw_add (new_bw st2 T) r = Ok a2 ->
        match a2 with
        | Some b2 =>
            exists k, SI T (set_bw st2 (Some b2)) cs0 (sec ++ [k]) [r] (L ++ [r]) /\
                      cur <> [] /\ ck_recs k = cur /\ ck_typ k = T /\
                      w_last_key st2 = w_last_key st /\
                      w_log st2 = (if T =? typ_log then bump (w_log st) (w_next st) else w_log st) /\
                      w_next st = N.of_nat (length (layout (cs0 ++ sec)))
        | None => True
        end
    end.
  Proof.
    intros T st cs0 sec cur L r b a [W ST SR SX SB] HT Hb Ha.
    rewrite Hb in SB.
    destruct a as [b'|].
    - constructor.
      + eapply WI_set_bw_add; eassumption.
      + exact ST.
      + rewrite <- SR, app_assoc. reflexivity.
      + exact SX.
      + cbn [set_bw upd w_bw]. apply bw_add_inv in Ha.
        destruct Ha as (? & ? & ? & ? & ? & _ & _ & _ & _ & _ & _ & S & _). destruct S as [S _]. congruence.
    - intros st2 a2 Ha2. destruct a2 as [b2|]; [|exact I].
      destruct cur as [|x cur'].
      { exfalso. unfold st2 in Ha2. rewrite (flush_block_nop _ _ W) in Ha2.
        pose proof (wi_bw _ _ _ W) as A. rewrite Hb in A. destruct A as [_ A]. cbn [bw_add_all] in A.
        apply Ok_inj in A. injection A as A. rewrite new_bw_fresh in Ha2 by apply W.
        rewrite <- SB, A in Ha2. rewrite Ha in Ha2. discriminate. }
      assert (NE : x :: cur' <> []) by discriminate.
      destruct (flush_block_spec st (cs0 ++ sec) (x :: cur') b rdummy W Hb NE)
        as (W2 & B2 & X2 & K2 & _ & _ & _ & G2 & _).
      fold st2 in W2, B2, X2, K2, G2.
      set (k := {| ck_typ := bw_typ b; ck_recs := x :: cur';
                   ck_raw := bw_finish deflate (blk_file_hdr (w_next st)) b;
                   ck_pad := N.to_nat (flush_pad (bw_typ b) (bw_finish deflate (blk_file_hdr (w_next st)) b)) |}) in *.
      exists k.
      pose proof (WI_new_bw st2 _ T W2 HT) as W3.
      assert (B3 : w_bw (set_bw st2 (Some (new_bw st2 T))) = Some (new_bw st2 T)) by reflexivity.
      pose proof (WI_set_bw_add _ _ _ _ _ _ W3 B3 Ha2) as W4.
      split; [|split; [exact NE|split; [reflexivity|split; [exact SB|split; [exact K2|split]]]]].
      + constructor.
        * rewrite <- app_assoc in W4. eapply WI_frame; [..|exact W4]; reflexivity.
        * apply Forall_app. split; [exact ST|]. constructor; [exact SB|constructor].
        * rewrite map_app, concat_app. cbn [map concat]. rewrite app_nil_r. rewrite <- SR.
          rewrite <- !app_assoc. reflexivity.
        * cbn [set_bw upd w_index]. rewrite X2, SX, idx_of_app. cbn [idx_of]. f_equal. f_equal. f_equal.
          rewrite (wi_next _ _ _ W), layout_app, app_length. lia.
        * cbn [set_bw upd w_bw]. apply bw_add_inv in Ha2.
          destruct Ha2 as (? & ? & ? & ? & ? & _ & _ & _ & _ & _ & _ & S & _). destruct S as [S _].
          rewrite S. rewrite new_bw_fresh by apply W2. reflexivity.
      + rewrite G2, SB. reflexivity.
      + apply W.
  Qed.

  Lemma w_add_SI : forall T st cs0 sec cur L r st',
    SI T st cs0 sec cur L -> is_block_type T = true -> rec_typ r = T ->
    w_add deflate st r = Ok st' ->
    exists sec' cur', SI T st' cs0 sec' cur' (L ++ [r]) /\ w_bw st' <> None /\
      ((sec' = sec /\ w_log st' = w_log st) \/
       (exists k, sec' = sec ++ [k] /\
          w_log st' = (if T =? typ_log then bump (w_log st) (N.of_nat (length (layout (cs0 ++ sec))))
                       else w_log st))).
  Proof.
    intros T st cs0 sec cur L r st' S HT Hr H. apply w_add_ok_core in H; unfold w_add_core in H.
    destruct (bytes_ltb (w_last_key st) (rec_key r)); cbn [negb] in H; [|discriminate].
    set (st0 := set_last_key st (rec_key r)) in *.
    assert (S0 : SI T st0 cs0 sec cur L) by (eapply SI_frame; [..|exact S]; reflexivity).
    assert (G0 : w_log st0 = w_log st) by reflexivity.
    set (st1 := match w_bw st0 with None => set_bw st0 (Some (new_bw st0 (rec_typ r))) | Some _ => st0 end) in *.
    assert (S1 : SI T st1 cs0 sec cur L /\ w_log st1 = w_log st /\ w_bw st1 <> None).
    { unfold st1. destruct (w_bw st0) as [b0|] eqn:B0.
      - split; [exact S0|]. split; [exact G0|]. rewrite B0. discriminate.
      - split; [|split; [reflexivity|discriminate]].
        destruct S0 as [W ST SR SX SB]. pose proof (wi_bw _ _ _ W) as C. rewrite B0 in C. subst cur.
        constructor.
        + apply WI_new_bw; [exact W|]. rewrite Hr. exact HT.
        + exact ST.
        + exact SR.
        + exact SX.
        + cbn [set_bw upd w_bw]. rewrite new_bw_fresh by apply W. exact Hr. }
    clearbody st1. destruct S1 as (S1 & G1 & N1).
    destruct (w_bw st1) as [b|] eqn:B1; [|congruence].
    pose proof (si_bw _ _ _ _ _ _ S1) as TB. rewrite B1 in TB.
    rewrite TB, Hr, N.eqb_refl in H. cbn [negb] in H.
    destruct (bw_add b r) as [a| | |] eqn:Ha; cbn [bind] in H; try discriminate.
    pose proof (add_step T st1 cs0 sec cur L r b a S1 HT B1 Ha) as AS.
    destruct a as [b'|].
    - apply Ok_inj in H. subst st'. exists sec, (cur ++ [r]). split; [exact AS|].
      split; [discriminate|]. left. split; [reflexivity|exact G1].
    - cbv zeta in AS.
      destruct (bw_add (new_bw (flush_block deflate st1) T) r) as [a2| | |] eqn:Ha2; cbn [bind] in H; try discriminate.
      specialize (AS a2 eq_refl). destruct a2 as [b2|]; [|discriminate].
      apply Ok_inj in H. subst st'.
      destruct AS as (k & S2 & _ & _ & _ & _ & G2 & NX).
      exists (sec ++ [k]), [r]. split; [exact S2|]. split; [discriminate|]. right.
      exists k. split; [reflexivity|]. cbn [set_bw upd w_log]. rewrite G2, G1, NX. reflexivity.
  Qed.

  (* flushing inside a section *)
  Lemma flush_SI : forall T st cs0 sec cur L,
    SI T st cs0 sec cur L -> w_bw st <> None \/ cur = [] ->
    let st' := flush_block deflate st in
    exists sec1, SI T st' cs0 sec1 [] L /\
      w_last_key st' = w_last_key st /\
      ((sec1 = sec /\ cur = [] /\ st' = st) \/
       (exists k, sec1 = sec ++ [k] /\ cur <> [] /\ ck_recs k = cur /\ ck_typ k = T /\ w_bw st' = None /\
          w_log st' = (if T =? typ_log then bump (w_log st) (N.of_nat (length (layout (cs0 ++ sec))))
                       else w_log st))).
  Proof.
    intros T st cs0 sec cur L S Hb st'. pose proof S as [W ST SR SX SB].
    destruct cur as [|x cur'].
    - exists sec. unfold st'. rewrite (flush_block_nop _ _ W). split; [exact S|]. split; [reflexivity|].
      left. auto.
    - destruct Hb as [Hb|Hb]; [|discriminate].
      destruct (w_bw st) as [b|] eqn:B; [|congruence].
      assert (NE : x :: cur' <> []) by discriminate.
      destruct (flush_block_spec st (cs0 ++ sec) (x :: cur') b rdummy W B NE)
        as (W2 & B2 & X2 & K2 & _ & _ & _ & G2 & _).
      fold st' in W2, B2, X2, K2, G2.
      set (k := {| ck_typ := bw_typ b; ck_recs := x :: cur';
                   ck_raw := bw_finish deflate (blk_file_hdr (w_next st)) b;
                   ck_pad := N.to_nat (flush_pad (bw_typ b) (bw_finish deflate (blk_file_hdr (w_next st)) b)) |}) in *.
      exists (sec ++ [k]). split; [|split; [exact K2|]].
      + constructor.
        * rewrite app_assoc. exact W2.
        * apply Forall_app. split; [exact ST|]. constructor; [exact SB|constructor].
        * rewrite map_app, concat_app. cbn [map concat]. rewrite !app_nil_r. exact SR.
        * rewrite X2, SX, idx_of_app. cbn [idx_of]. f_equal. f_equal. f_equal.
          rewrite (wi_next _ _ _ W), layout_app, app_length. lia.
        * rewrite B2. exact I.
      + right. exists k. split; [reflexivity|]. split; [exact NE|]. split; [reflexivity|].
        split; [exact SB|]. split; [exact B2|]. rewrite G2, SB, (wi_next _ _ _ W). reflexivity.
  Qed.

  Lemma fresh_add_SI : forall T st cs0 sec L r b2,
    SI T st cs0 sec [] L -> is_block_type T = true ->
    bw_add (new_bw st T) r = Ok (Some b2) ->
    SI T (set_bw st (Some b2)) cs0 sec [r] (L ++ [r]).
  Proof.
    intros T st cs0 sec L r b2 [W ST SR SX SB] HT Ha.
    pose proof (WI_new_bw st _ T W HT) as W3.
    assert (B3 : w_bw (set_bw st (Some (new_bw st T))) = Some (new_bw st T)) by reflexivity.
    pose proof (WI_set_bw_add _ _ _ _ _ _ W3 B3 Ha) as W4.
    constructor.
    - eapply WI_frame; [..|exact W4]; reflexivity.
    - exact ST.
    - rewrite <- SR. rewrite <- app_assoc. reflexivity.
    - exact SX.
    - cbn [set_bw upd w_bw]. apply bw_add_inv in Ha.
      destruct Ha as (? & ? & ? & ? & ? & _ & _ & _ & _ & _ & _ & S & _). destruct S as [S _].
      rewrite S. rewrite new_bw_fresh by apply W. reflexivity.
  Qed.

  Definition idx_recs (idx : list (bytes * N)) : list record := map (fun p => RecIdx (fst p) (snd p)) idx.

  Lemma index_level_SI : forall idx st cs0 sec cur L st',
    SI typ_idx st cs0 sec cur L -> w_bw st <> None ->
    index_level deflate st idx = Ok st' ->
    exists sec' cur', SI typ_idx st' cs0 sec' cur' (L ++ idx_recs idx) /\ w_bw st' <> None /\
      w_log st' = w_log st /\ (idx <> [] -> cur' <> []).
  Proof.
    induction idx as [|[k off] rest IH]; intros st cs0 sec cur L st' S Hb H; cbn [index_level] in H.
    - apply Ok_inj in H. subst st'. exists sec, cur. unfold idx_recs. cbn [map]. rewrite app_nil_r.
      split; [exact S|]. split; [exact Hb|]. split; [reflexivity|congruence].
    - destruct (w_bw st) as [b|] eqn:B; [|congruence].
      destruct (bw_add b (RecIdx k off)) as [a| | |] eqn:Ha; cbn [bind] in H; try discriminate.
      unfold idx_recs. cbn [map fst snd]. fold (idx_recs rest).
      replace (L ++ RecIdx k off :: idx_recs rest) with ((L ++ [RecIdx k off]) ++ idx_recs rest)
        by (rewrite <- app_assoc; reflexivity).
      destruct a as [b'|].
      + pose proof (add_step typ_idx st cs0 sec cur L _ b _ S eq_refl B Ha) as AS. cbv beta iota in AS.
        destruct (IH _ _ _ _ _ _ AS ltac:(discriminate) H) as (sec' & cur' & S' & B' & G' & N').
        exists sec', cur'. split; [exact S'|]. split; [exact B'|]. split; [exact G'|].
        intros _. destruct rest as [|p rest']; [|apply N'; discriminate].
        cbn [index_level] in H. apply Ok_inj in H. subst st'.
        pose proof (si_recs _ _ _ _ _ _ S') as R1. pose proof (si_recs _ _ _ _ _ _ AS) as R2.
        intros ->. 
        pose proof (wi_bw _ _ _ (si_wi _ _ _ _ _ _ S')) as Wb. cbn [set_bw upd w_bw] in Wb.
        destruct Wb as [_ Wb]. apply bw_add_all_entries in Wb. cbn [length] in Wb.
        apply bw_add_inv in Ha. destruct Ha as (? & ? & ? & ? & ? & _ & _ & _ & _ & _ & _ & _ & _ & _ & _ & E).
        lia.
      + destruct (flush_SI typ_idx st cs0 sec cur L S ltac:(left; congruence)) as (sec1 & S1 & _ & C).
        set (st1 := flush_block deflate st) in *.
        destruct (bw_add (new_bw st1 typ_idx) (RecIdx k off)) as [a2| | |] eqn:Ha2; cbn [bind] in H; try discriminate.
        destruct a2 as [b2|]; [|discriminate].
        pose proof (fresh_add_SI typ_idx st1 cs0 sec1 L _ b2 S1 eq_refl Ha2) as S2.
        destruct (IH _ _ _ _ _ _ S2 ltac:(discriminate) H) as (sec' & cur' & S' & B' & G' & N').
        exists sec', cur'. split; [exact S'|]. split; [exact B'|]. split.
        * rewrite G'. cbn [set_bw upd w_log].
          destruct C as [(_ & _ & ->)|(k0 & _ & _ & _ & _ & _ & G)]; [reflexivity|]. rewrite G. reflexivity.
        * intros _. destruct rest as [|p rest']; [|apply N'; discriminate].
          cbn [index_level] in H. apply Ok_inj in H. subst st'.
          intros ->.
          pose proof (wi_bw _ _ _ (si_wi _ _ _ _ _ _ S')) as Wb. cbn [set_bw upd w_bw] in Wb.
          destruct Wb as [_ Wb]. apply bw_add_all_entries in Wb. cbn [length] in Wb.
          apply bw_add_inv in Ha2. destruct Ha2 as (? & ? & ? & ? & ? & _ & _ & _ & _ & _ & _ & _ & _ & _ & _ & E).
          lia.
  Qed.

  (* ---- the index levels written after a section ---- *)

  Fixpoint lchain (off : N) (sec : list chunk) (lv : list (list chunk)) : Prop :=
    match lv with
    | [] => True
    | s1 :: rest =>
        concat (map ck_recs s1) = idx_recs (idx_of off sec) /\
        Forall (fun k => ck_typ k = typ_idx) s1 /\ s1 <> [] /\
        lchain (off + N.of_nat (length (layout sec))) s1 rest
    end.

  Fixpoint top_off (off : N) (sec : list chunk) (lv : list (list chunk)) : N :=
    match lv with
    | [] => off
    | s1 :: rest => top_off (off + N.of_nat (length (layout sec))) s1 rest
    end.

  Definition llen (cs : list chunk) : N := N.of_nat (length (layout cs)).

  Lemma llen_app : forall a b, llen (a ++ b) = llen a + llen b.
  Proof. intros. unfold llen. rewrite layout_app, app_length. lia. Qed.

  Lemma index_levels_spec : forall fuel T st cs0 sec L thr is ml st' is' ml',
    SI T st cs0 sec [] L ->
    index_levels deflate fuel st thr is ml = Ok (st', is', ml') ->
    exists lv, WI st' ((cs0 ++ sec) ++ concat lv) [] /\ lchain (llen cs0) sec lv /\
      w_log st' = w_log st /\
      is' = (match lv with [] => is | _ => top_off (llen cs0) sec lv end) /\
      (lv = [] -> st' = st).
  Proof.
    induction fuel as [|f IH]; intros T st cs0 sec L thr is ml st' is' ml' HS H; cbn [index_levels] in H;
      [discriminate|].
    destruct (Nat.ltb thr (length (w_index st))) eqn:TH.
    - set (idx := w_index st) in *.
      set (st0 := set_index (set_bw st (Some (new_bw st typ_idx))) []) in *.
      destruct (index_level deflate st0 idx) as [st1| | |] eqn:IL; cbn [bind] in H; try discriminate.
      pose proof HS as [W ST SR SX SB].
      assert (S0 : SI typ_idx st0 (cs0 ++ sec) [] [] []).
      { constructor.
        - rewrite app_nil_r. eapply WI_frame; [..|apply (WI_new_bw st _ typ_idx W eq_refl)]; reflexivity.
        - constructor.
        - reflexivity.
        - reflexivity.
        - cbn [st0 set_index set_bw upd w_bw]. rewrite new_bw_fresh by apply W. reflexivity. }
      destruct (index_level_SI idx st0 _ _ _ _ st1 S0 ltac:(discriminate) IL) as (sec' & cur' & S1 & B1 & G1 & N1).
      cbn [app] in S1.
      assert (NI : idx <> []).
      { intros E. rewrite E in TH. cbn [length] in TH. destruct thr; discriminate. }
      specialize (N1 NI).
      destruct (flush_SI typ_idx st1 _ _ _ _ S1 ltac:(left; exact B1)) as (sec1 & S2 & _ & C).
      set (st2 := flush_block deflate st1) in *.
      destruct C as [(_ & C & _)|(k & E1 & _ & _ & _ & B2 & G2)]; [congruence|].
      assert (NE1 : sec1 <> []) by (rewrite E1; intros E; apply app_eq_nil in E; destruct E; discriminate).
      assert (G : w_log st2 = w_log st) by (rewrite G2, G1; reflexivity).
      assert (LC : concat (map ck_recs sec1) = idx_recs (idx_of (llen cs0) sec)).
      { pose proof (si_recs _ _ _ _ _ _ S2) as R. rewrite app_nil_r in R. rewrite R. unfold idx. rewrite SX. reflexivity. }
      assert (NX : w_next st = llen cs0 + llen sec).
      { rewrite (wi_next _ _ _ W). fold (llen (cs0 ++ sec)). apply llen_app. }
      destruct (Nat.leb (length idx) (length (w_index st2))).
      + apply Ok_inj in H. injection H as <- <- <-.
        exists [sec1]. cbn [concat]. rewrite app_nil_r.
        split; [apply (si_wi _ _ _ _ _ _ S2)|]. split.
        { cbn [lchain]. split; [exact LC|]. split; [apply (si_typ _ _ _ _ _ _ S2)|]. split; [exact NE1|exact I]. }
        split; [exact G|]. split; [cbn [top_off]; exact NX|discriminate].
      + destruct (IH typ_idx st2 (cs0 ++ sec) sec1 _ thr (w_next st) (S ml) st' is' ml' S2 H)
          as (lv & W' & LC' & G' & I' & _).
        exists (sec1 :: lv). cbn [concat]. rewrite app_assoc.
        split; [exact W'|]. split.
        { cbn [lchain]. split; [exact LC|]. split; [apply (si_typ _ _ _ _ _ _ S2)|]. split; [exact NE1|].
          rewrite llen_app in LC'. exact LC'. }
        split; [rewrite G'; exact G|]. split; [|discriminate].
        cbn [top_off]. fold (llen sec). rewrite I'. rewrite llen_app.
        destruct lv; [cbn [top_off]; exact NX|reflexivity].
    - apply Ok_inj in H. injection H as <- <- <-. exists []. cbn [concat]. rewrite app_nil_r.
      split; [apply HS|]. split; [exact I|]. split; [reflexivity|]. split; reflexivity.
  Qed.

  Lemma finish_section_spec : forall T st cs0 sec cur L st',
    SI T st cs0 sec cur L -> is_block_type T = true -> w_bw st <> None ->
    finish_section deflate st = Ok st' ->
    exists sec1 lv,
      WI st' ((cs0 ++ sec1) ++ concat lv) [] /\
      Forall (fun k => ck_typ k = T) sec1 /\ concat (map ck_recs sec1) = L /\
      lchain (llen cs0) sec1 lv /\ w_index st' = [] /\
      (cur = [] -> sec1 = sec) /\ (cur <> [] -> exists k, sec1 = sec ++ [k]) /\
      (T <> typ_log -> w_log st' = w_log st) /\
      (T = typ_log ->
         let l1 := match cur with [] => w_log st | _ => bump (w_log st) (llen (cs0 ++ sec)) end in
         ts_offset (w_log st') = ts_offset l1 /\ ts_blocks (w_log st') = ts_blocks l1 /\
         ts_index_offset (w_log st') = (match lv with [] => 0 | _ => top_off (llen cs0) sec1 lv end)).
  Proof.
    intros T st cs0 sec cur L st' HS HT Hb H. unfold finish_section in H.
    destruct (w_bw st) as [b|] eqn:B; [|congruence].
    pose proof (si_bw _ _ _ _ _ _ HS) as TB. rewrite B in TB.
    destruct (flush_SI T st cs0 sec cur L HS ltac:(left; congruence)) as (sec1 & S1 & _ & C).
    set (st1 := flush_block deflate st) in *.
    destruct (index_levels deflate (S (length (w_index st1))) st1 (if c_unaligned (w_cfg st) then 1%nat else 3%nat) 0 0)
      as [[[st2 is2] ml2]| | |] eqn:IL; cbn [bind] in H; try discriminate.
    destruct (index_levels_spec _ _ _ _ _ _ _ _ _ _ _ _ S1 IL) as (lv & W2 & LC & G2 & I2 & _).
    apply Ok_inj in H. subst st'.
    exists sec1, lv.
    split; [eapply WI_frame; [..|exact W2]; reflexivity|].
    split; [apply S1|]. split; [pose proof (si_recs _ _ _ _ _ _ S1) as R; rewrite app_nil_r in R; exact R|].
    split; [exact LC|]. split; [reflexivity|].
    split; [intros ->; destruct C as [(E & _)|(k & _ & N & _)]; [exact E|congruence]|].
    split; [intros N; destruct C as [(_ & E & _)|(k & E & _)]; [congruence|exists k; exact E]|].
    rewrite TB.
    cbn [set_last_key upd set_stats set_index w_log w_bw w_out w_pad w_next w_last_key w_index w_cfg w_obj w_min w_max w_ref w_objs w_idx w_blocks w_idlen].
    split.
    - intros NL. destruct (N.eqb_spec T typ_log) as [E|_]; [congruence|].
      rewrite G2. destruct C as [(_ & _ & ->)|(k & _ & _ & _ & _ & _ & G)]; [reflexivity|].
      rewrite G. destruct (N.eqb_spec T typ_log); [congruence|reflexivity].
    - intros ->. cbv zeta. change (typ_log =? typ_log) with true. cbv iota.
      unfold get_stats. change (typ_log =? typ_ref) with false. change (typ_log =? typ_log) with true. cbv iota.
      cbn [set_index upd w_log ts_offset ts_blocks ts_index_offset]. rewrite G2, I2.
      destruct C as [(_ & -> & ->)|(k & _ & N & _ & _ & _ & G)].
      + split; [reflexivity|]. split; reflexivity.
      + rewrite G. change (typ_log =? typ_log) with true. cbv iota.
        destruct cur; [congruence|]. split; [reflexivity|]. split; reflexivity.
  Qed.

  Lemma dump_objs_SI : forall objs st idlen cs0 sec cur L st',
    SI typ_obj st cs0 sec cur L -> w_bw st <> None ->
    dump_objs deflate st idlen objs = Ok st' ->
    exists sec' cur' L', SI typ_obj st' cs0 sec' cur' L' /\ w_bw st' <> None /\ w_log st' = w_log st.
  Proof.
    induction objs as [|[k offs] rest IH]; intros st idlen cs0 sec cur L st' HS Hb H; cbn [dump_objs] in H.
    - apply Ok_inj in H. subst st'. exists sec, cur, L. auto.
    - destruct (w_bw st) as [b|] eqn:B; [|congruence].
      destruct (bw_add b (RecObj (firstn idlen k) offs)) as [a| | |] eqn:Ha; cbn [bind] in H; try discriminate.
      destruct a as [b'|].
      + pose proof (add_step typ_obj st cs0 sec cur L _ b _ HS eq_refl B Ha) as AS. cbv beta iota in AS.
        destruct (IH _ _ _ _ _ _ _ AS ltac:(discriminate) H) as (sec' & cur' & L' & S' & B' & G').
        exists sec', cur', L'. auto.
      + destruct (flush_SI typ_obj st cs0 sec cur L HS ltac:(left; congruence)) as (sec1 & S1 & _ & C).
        set (st1 := flush_block deflate st) in *.
        assert (G1 : w_log st1 = w_log st).
        { destruct C as [(_ & _ & ->)|(k0 & _ & _ & _ & _ & _ & G)]; [reflexivity|]. rewrite G. reflexivity. }
        destruct (bw_add (new_bw st1 typ_obj) (RecObj (firstn idlen k) offs)) as [a2| | |] eqn:Ha2; cbn [bind] in H;
          try discriminate.
        destruct a2 as [b2|].
        * pose proof (fresh_add_SI typ_obj st1 cs0 sec1 L _ b2 S1 eq_refl Ha2) as S2.
          destruct (IH _ _ _ _ _ _ _ S2 ltac:(discriminate) H) as (sec' & cur' & L' & S' & B' & G').
          exists sec', cur', L'. split; [exact S'|]. split; [exact B'|]. rewrite G'. exact G1.
        * destruct (bw_add (new_bw st1 typ_obj) (RecObj (firstn idlen k) [])) as [a3| | |] eqn:Ha3; cbn [bind] in H;
            try discriminate.
          destruct a3 as [b3|]; [|discriminate].
          pose proof (fresh_add_SI typ_obj st1 cs0 sec1 L _ b3 S1 eq_refl Ha3) as S2.
          destruct (IH _ _ _ _ _ _ _ S2 ltac:(discriminate) H) as (sec' & cur' & L' & S' & B' & G').
          exists sec', cur', L'. split; [exact S'|]. split; [exact B'|]. rewrite G'. exact G1.
  Qed.

  Definition not_ref (k : chunk) : Prop := ck_typ k = typ_idx \/ ck_typ k = typ_obj.

  Lemma lchain_not_ref : forall lv off sec, lchain off sec lv -> Forall not_ref (concat lv).
  Proof.
    induction lv as [|s1 rest IH]; intros off sec H; cbn [concat]; [constructor|].
    destruct H as (_ & T & _ & H). apply Forall_app. split; [|eapply IH; exact H].
    eapply Forall_impl; [|exact T]. intros k E. left. exact E.
  Qed.

  Lemma dump_object_index_spec : forall st cs st',
    WI st cs [] -> w_index st = [] ->
    dump_object_index deflate st = Ok st' ->
    exists more, WI st' (cs ++ more) [] /\ Forall not_ref more /\ w_log st' = w_log st /\ w_index st' = [].
  Proof.
    intros st cs st' W X H. unfold dump_object_index in H.
    destruct (Nat.leb 32 (S (max_common [] (map fst (w_obj st)) 0))).
    - apply Ok_inj in H. subst st'. exists []. rewrite app_nil_r. auto.
    - set (mc := S (max_common [] (map fst (w_obj st)) 0)) in *.
      set (st1 := set_obj st (w_obj st) (w_blocks st) mc) in *.
      set (st2 := set_bw st1 (Some (new_bw st1 typ_obj))) in *.
      destruct (dump_objs deflate st2 mc (w_obj st2)) as [st3| | |] eqn:D; cbn [bind] in H; try discriminate.
      assert (W1 : WI st1 cs []) by (eapply WI_frame; [..|exact W]; reflexivity).
      assert (S2 : SI typ_obj st2 cs [] [] []).
      { constructor.
        - rewrite app_nil_r. apply WI_new_bw; [exact W1|reflexivity].
        - constructor.
        - reflexivity.
        - cbn [st2 st1 set_bw set_obj upd w_index idx_of]. exact X.
        - cbn [st2 set_bw upd w_bw]. rewrite new_bw_fresh by apply W1. reflexivity. }
      destruct (dump_objs_SI _ _ _ _ _ _ _ _ S2 ltac:(discriminate) D) as (sec' & cur' & L' & S3 & B3 & G3).
      destruct (finish_section_spec typ_obj st3 cs sec' cur' L' st' S3 eq_refl B3 H)
        as (sec1 & lv & W4 & T4 & _ & LC & X4 & _ & _ & G4 & _).
      exists (sec1 ++ concat lv). rewrite app_assoc. split; [exact W4|]. split.
      + apply Forall_app. split; [|eapply lchain_not_ref; exact LC].
        eapply Forall_impl; [|exact T4]. intros k E. right. exact E.
      + split; [|exact X4]. rewrite G4 by discriminate. rewrite G3. reflexivity.
  Qed.

  Lemma WI_set_bw_none : forall st cs cur, WI st cs cur -> WI (set_bw st None) cs [].
  Proof.
    intros st cs cur [A1 A2 A3 A4 A5 A6 A7 A8].
    constructor; cbn [set_bw upd w_cfg w_min w_max w_out w_pad w_next w_bw]; try assumption. reflexivity.
  Qed.

  Lemma fps_ref_spec : forall st sec cur L st',
    SI typ_ref st [] sec cur L -> w_bw st <> None ->
    finish_public_section deflate st = Ok st' ->
    exists sec1 more, WI st' (sec1 ++ more) [] /\ w_bw st' = None /\
      Forall (fun k => ck_typ k = typ_ref) sec1 /\ concat (map ck_recs sec1) = L /\
      Forall not_ref more /\ w_log st' = w_log st /\ w_index st' = [].
  Proof.
    intros st sec cur L st' HS Hb H. unfold finish_public_section in H.
    destruct (w_bw st) as [b|] eqn:B; [|congruence].
    pose proof (si_bw _ _ _ _ _ _ HS) as TB. rewrite B in TB.
    destruct (finish_section deflate st) as [st1| | |] eqn:FS; cbn [bind] in H; try discriminate.
    destruct (finish_section_spec typ_ref st [] sec cur L st1 HS eq_refl ltac:(congruence) FS)
      as (sec1 & lv & W1 & T1 & R1 & LC & X1 & _ & _ & G1 & _).
    cbn [app] in W1. specialize (G1 ltac:(discriminate)).
    destruct ((bw_typ b =? typ_ref) && negb (c_skip_index_objects (w_cfg st1)) &&
              Nat.ltb 0 (ts_index_blocks (w_ref st1))).
    - destruct (dump_object_index deflate st1) as [st2| | |] eqn:D; cbn [bind] in H; try discriminate.
      apply Ok_inj in H. subst st'.
      destruct (dump_object_index_spec st1 _ st2 W1 X1 D) as (more & W2 & N2 & G2 & X2).
      exists sec1, (concat lv ++ more). rewrite app_assoc.
      split; [eapply WI_set_bw_none; exact W2|]. split; [reflexivity|]. split; [exact T1|]. split; [exact R1|].
      split; [apply Forall_app; split; [eapply lchain_not_ref; exact LC|exact N2]|].
      split; [cbn [set_bw upd w_log]; congruence|exact X2].
    - cbn [bind] in H. apply Ok_inj in H. subst st'.
      exists sec1, (concat lv).
      split; [eapply WI_set_bw_none; exact W1|]. split; [reflexivity|]. split; [exact T1|]. split; [exact R1|].
      split; [eapply lchain_not_ref; exact LC|]. split; [exact G1|exact X1].
  Qed.

  Lemma fps_log_spec : forall st cs0 sec cur L st',
    SI typ_log st cs0 sec cur L -> w_bw st <> None ->
    finish_public_section deflate st = Ok st' ->
    exists sec1 lv,
      WI st' ((cs0 ++ sec1) ++ concat lv) [] /\
      Forall (fun k => ck_typ k = typ_log) sec1 /\ concat (map ck_recs sec1) = L /\
      lchain (llen cs0) sec1 lv /\
      (cur = [] -> sec1 = sec) /\ (cur <> [] -> exists k, sec1 = sec ++ [k]) /\
      (let l1 := match cur with [] => w_log st | _ => bump (w_log st) (llen (cs0 ++ sec)) end in
       ts_offset (w_log st') = ts_offset l1 /\ ts_blocks (w_log st') = ts_blocks l1 /\
       ts_index_offset (w_log st') = (match lv with [] => 0 | _ => top_off (llen cs0) sec1 lv end)).
  Proof.
    intros st cs0 sec cur L st' HS Hb H. unfold finish_public_section in H.
    destruct (w_bw st) as [b|] eqn:B; [|congruence].
    pose proof (si_bw _ _ _ _ _ _ HS) as TB. rewrite B in TB.
    destruct (finish_section deflate st) as [st1| | |] eqn:FS; cbn [bind] in H; try discriminate.
    destruct (finish_section_spec typ_log st cs0 sec cur L st1 HS eq_refl ltac:(congruence) FS)
      as (sec1 & lv & W1 & T1 & R1 & LC & X1 & C1 & C2 & _ & G1).
    rewrite TB in H. change (typ_log =? typ_ref) with false in H. cbn [andb bind] in H.
    apply Ok_inj in H. subst st'.
    exists sec1, lv. split; [eapply WI_set_bw_none; exact W1|]. split; [exact T1|]. split; [exact R1|].
    split; [exact LC|]. split; [exact C1|]. split; [exact C2|]. exact (G1 eq_refl).
  Qed.

  (* ---- taking back the pending padding ---- *)

  Definition unpad_k (k : chunk) : chunk :=
    {| ck_typ := ck_typ k; ck_recs := ck_recs k; ck_raw := ck_raw k; ck_pad := 0 |}.
  Definition unpad (cs : list chunk) : list chunk :=
    match cs with [] => [] | k0 :: _ => removelast cs ++ [unpad_k (last cs k0)] end.

  Lemma unpad_snoc : forall cs k, unpad (cs ++ [k]) = cs ++ [unpad_k k].
  Proof.
    intros cs k. destruct cs as [|x cs']; [reflexivity|].
    unfold unpad. cbn [app]. rewrite app_comm_cons, removelast_last, last_last. reflexivity.
  Qed.

  Lemma snoc_cases : forall (A : Type) (l : list A), l = [] \/ exists l' x, l = l' ++ [x].
  Proof.
    intros A l. destruct l as [|a l]; [auto|]. right.
    destruct (exists_last (l := a :: l)) as (l' & x & E); [discriminate|]. eauto.
  Qed.

  Lemma unpad_app_r : forall a b, b <> [] -> unpad (a ++ b) = a ++ unpad b.
  Proof.
    intros a b NE. destruct (snoc_cases _ b) as [->|(b' & x & ->)]; [congruence|].
    rewrite app_assoc, !unpad_snoc, app_assoc. reflexivity.
  Qed.

  Lemma unpad_Forall : forall (P : chunk -> Prop) cs, (forall k, P k -> P (unpad_k k)) ->
    Forall P cs -> Forall P (unpad cs).
  Proof.
    intros P cs HP F. destruct (snoc_cases _ cs) as [->|(b' & x & ->)]; [constructor|].
    rewrite unpad_snoc. apply Forall_app in F. destruct F as [F1 F2]. apply Forall_app. split; [exact F1|].
    inversion F2; subst. constructor; [auto|constructor].
  Qed.

  Lemma unpad_recs : forall cs, map ck_recs (unpad cs) = map ck_recs cs.
  Proof.
    intros cs. destruct (snoc_cases _ cs) as [->|(b' & x & ->)]; [reflexivity|].
    rewrite unpad_snoc, !map_app. reflexivity.
  Qed.

  Lemma unpad_nil_iff : forall cs, unpad cs = [] <-> cs = [].
  Proof.
    intros cs. destruct (snoc_cases _ cs) as [->|(b' & x & ->)]; [tauto|].
    rewrite unpad_snoc. split; intros E; apply app_eq_nil in E; destruct E; discriminate.
  Qed.

  Lemma chunk_at_unpad : forall off k, chunk_at off k -> chunk_at off (unpad_k k).
  Proof. intros off k (A & B & C & _). unfold chunk_at. cbn [unpad_k ck_typ ck_recs ck_raw ck_pad]. auto. Qed.

  Lemma out_unpad : forall st cs cur, WI st cs cur ->
    w_out st = layout (unpad cs) /\ chunks_at 0 (unpad cs) /\ last_pad (unpad cs) = 0%nat /\
    llen (unpad cs) = w_next st - w_pad st.
  Proof.
    intros st cs cur [A1 A2 A3 A4 A5 A6 A7 A8].
    destruct (snoc_cases _ cs) as [->|(cs' & k & ->)].
    - cbn [unpad layout flat_map] in *. unfold last_pad in A6. cbn [map last] in A6.
      rewrite A6 in A4. cbn [zeros repeat N.to_nat] in A4. change (N.to_nat (N.of_nat 0)) with 0%nat in A4.
      cbn [repeat] in A4. rewrite app_nil_r in A4.
      split; [exact A4|]. split; [exact I|]. split; [reflexivity|]. unfold llen. cbn [layout flat_map length].
      cbn [length] in A5. lia.
    - rewrite unpad_snoc. rewrite last_pad_snoc in A6.
      rewrite layout_app in A4, A5. unfold layout at 2 in A4. unfold layout at 2 in A5.
      cbn [flat_map] in A4, A5. rewrite app_nil_r in A4, A5. unfold ck_bytes in A4, A5.
      rewrite A6, Nat2N.id in A4. rewrite app_assoc in A4. apply app_inv_tail in A4.
      assert (LB : layout (cs' ++ [unpad_k k]) = layout cs' ++ ck_raw k).
      { rewrite layout_app. unfold layout at 2. cbn [flat_map]. unfold ck_bytes. cbn [unpad_k ck_raw ck_pad zeros repeat].
        rewrite !app_nil_r. reflexivity. }
      split; [rewrite LB; exact A4|]. split.
      + apply chunks_at_app in A7. destruct A7 as [C1 C2]. apply chunks_at_app. split; [exact C1|].
        cbn [chunks_at] in *. split; [|exact I]. apply chunk_at_unpad. apply C2.
      + split; [apply last_pad_snoc|]. unfold llen. rewrite LB, A5, A6. rewrite !app_length, zeros_length. lia.
  Qed.

  Lemma take_back : forall st cs, WI st cs [] -> w_bw st = None ->
    WI (upd st (w_out st) 0 (w_next st - w_pad st) (w_last_key st) (w_bw st) (w_index st)) (unpad cs) [].
  Proof.
    intros st cs W B. destruct (out_unpad _ _ _ W) as (O & C & P & N).
    constructor; cbn [upd w_cfg w_min w_max w_out w_pad w_next w_bw]; try apply W.
    - cbn [zeros repeat N.to_nat]. change (N.to_nat 0) with 0%nat. cbn [repeat]. rewrite app_nil_r. exact O.
    - rewrite <- N. reflexivity.
    - rewrite P. reflexivity.
    - exact C.
    - rewrite B. reflexivity.
  Qed.

  (* ---- AddRef* ---- *)

  Definition delta_ref (r : ref_record) : ref_record :=
    {| r_name := r_name r; r_index := r_index r - mn; r_val := r_val r |}.

  Lemma index_hash_frame : forall T st h cs0 sec cur L,
    SI T st cs0 sec cur L -> SI T (index_hash st h) cs0 sec cur L.
  Proof.
    intros. unfold index_hash. destruct (c_skip_index_objects (w_cfg st)); [assumption|].
    eapply SI_frame; [..|eassumption]; reflexivity.
  Qed.

  Lemma index_hash_log : forall st h, w_log (index_hash st h) = w_log st /\ w_bw (index_hash st h) = w_bw st.
  Proof. intros. unfold index_hash. destruct (c_skip_index_objects (w_cfg st)); split; reflexivity. Qed.

  Lemma w_add_ref_SI : forall st sec cur L r st',
    SI typ_ref st [] sec cur L ->
    w_add_ref deflate st r = Ok st' ->
    exists sec' cur', SI typ_ref st' [] sec' cur' (L ++ [RecRef (delta_ref r)]) /\ w_bw st' <> None /\
      w_log st' = w_log st.
  Proof.
    intros st sec cur L r st' HS H. unfold w_add_ref in H.
    destruct (Nat.eqb (length (r_name r)) 0); [discriminate|].
    destruct ((r_index r <? w_min st) || (w_max st <? r_index r)); [discriminate|].
    rewrite (wi_min _ _ _ (si_wi _ _ _ _ _ _ HS)) in H. fold (delta_ref r) in H.
    destruct (w_add deflate st (RecRef (delta_ref r))) as [st1| | |] eqn:A; cbn [bind] in H; try discriminate.
    destruct (w_add_SI typ_ref st [] sec cur L (RecRef (delta_ref r)) st1 HS eq_refl eq_refl A) as (sec' & cur' & S1 & B1 & G1).
    assert (G : w_log st1 = w_log st).
    { destruct G1 as [(_ & G)|(k & _ & G)]; exact G. }
    apply Ok_inj in H. subst st'. exists sec', cur'.
    destruct (r_val r) as [|h|h t|s].
    - auto.
    - split; [apply index_hash_frame; exact S1|]. destruct (index_hash_log st1 h) as [E1 E2]. rewrite E1, E2. auto.
    - split; [apply index_hash_frame, index_hash_frame; exact S1|].
      destruct (index_hash_log (index_hash st1 h) t) as [E1 E2]. destruct (index_hash_log st1 h) as [E3 E4].
      rewrite E1, E2, E3, E4. auto.
    - auto.
  Qed.

  Lemma add_refs_SI : forall refs st sec cur L st',
    SI typ_ref st [] sec cur L -> w_bw st <> None ->
    add_refs deflate st refs = Ok st' ->
    exists sec' cur', SI typ_ref st' [] sec' cur' (L ++ map RecRef (map delta_ref refs)) /\ w_bw st' <> None /\
      w_log st' = w_log st.
  Proof.
    induction refs as [|r t IH]; intros st sec cur L st' HS Hb H; cbn [add_refs] in H.
    - apply Ok_inj in H. subst st'. exists sec, cur. cbn [map]. rewrite app_nil_r. auto.
    - destruct (w_add_ref deflate st r) as [st1| | |] eqn:A; cbn [bind] in H; try discriminate.
      destruct (w_add_ref_SI _ _ _ _ _ _ HS A) as (sec1 & cur1 & S1 & B1 & G1).
      destruct (IH _ _ _ _ _ S1 B1 H) as (sec' & cur' & S' & B' & G').
      exists sec', cur'. cbn [map]. 
      replace (L ++ RecRef (delta_ref r) :: map RecRef (map delta_ref t))
        with ((L ++ [RecRef (delta_ref r)]) ++ map RecRef (map delta_ref t)) by (rewrite <- app_assoc; reflexivity).
      split; [exact S'|]. split; [exact B'|]. congruence.
  Qed.

  (* ---- AddLog* ---- *)

  Lemma last_pad_log_sec : forall cs0 sec off, chunks_at off (cs0 ++ sec) ->
    Forall (fun k => ck_typ k = typ_log) sec -> last_pad cs0 = 0%nat -> last_pad (cs0 ++ sec) = 0%nat.
  Proof.
    intros cs0 sec off C T P. destruct (snoc_cases _ sec) as [->|(sec' & k & ->)].
    - rewrite app_nil_r. exact P.
    - rewrite app_assoc, last_pad_snoc. rewrite app_assoc in C. apply chunks_at_app in C. destruct C as [_ C].
      cbn [chunks_at] in C. destruct C as [(_ & _ & _ & [Z|[NL _]]) _]; [exact Z|].
      apply Forall_app in T. destruct T as [_ T]. inversion T; subst. congruence.
  Qed.

  Record PL (st : wstate) (cs0 sec : list chunk) (cur L : list record) : Prop := {
    pl_si : SI typ_log st cs0 sec cur L;
    pl_bw : w_bw st <> None;
    pl_pad0 : last_pad cs0 = 0%nat;
    pl_stat0 : sec = [] -> ts_blocks (w_log st) = 0%nat;
    pl_stat1 : sec <> [] -> ts_blocks (w_log st) <> 0%nat /\ ts_offset (w_log st) = llen cs0 }.

  (* the common part: from a log-typed section state (possibly without a block writer) *)
  Lemma w_add_log_core : forall st cs0 sec cur L l1 st',
    SI typ_log st cs0 sec cur L -> last_pad cs0 = 0%nat ->
    (sec = [] -> ts_blocks (w_log st) = 0%nat) ->
    (sec <> [] -> ts_blocks (w_log st) <> 0%nat /\ ts_offset (w_log st) = llen cs0) ->
    w_add deflate (upd st (w_out st) 0 (w_next st - w_pad st) (w_last_key st) (w_bw st) (w_index st)) (RecLog l1) = Ok st' ->
    exists sec' cur', PL st' cs0 sec' cur' (L ++ [RecLog l1]).
  Proof.
    intros st cs0 sec cur L l1 st' HS P0 Z0 Z1 H.
    set (st2 := upd st (w_out st) 0 (w_next st - w_pad st) (w_last_key st) (w_bw st) (w_index st)) in *.
    pose proof (si_wi _ _ _ _ _ _ HS) as W.
    assert (PZ : w_pad st = 0).
    { rewrite (wi_pad _ _ _ W). rewrite (last_pad_log_sec cs0 sec 0 (wi_chunks _ _ _ W) (si_typ _ _ _ _ _ _ HS) P0).
      reflexivity. }
    assert (S2 : SI typ_log st2 cs0 sec cur L).
    { eapply SI_frame; [..|exact HS]; try reflexivity.
      - cbn [st2 upd w_pad]. symmetry. exact PZ.
      - cbn [st2 upd w_next]. rewrite PZ. lia. }
    assert (G2 : w_log st2 = w_log st) by reflexivity.
    destruct (w_add_SI typ_log st2 cs0 sec cur L (RecLog l1) st' S2 eq_refl eq_refl H) as (sec' & cur' & S' & B' & G').
    exists sec', cur'. constructor; try assumption.
    - intros E. destruct G' as [(E1 & G)|(k & E1 & G)].
      + rewrite G, G2. apply Z0. congruence.
      + subst sec'. apply app_eq_nil in E. destruct E; discriminate.
    - intros NE. destruct G' as [(E1 & G)|(k & E1 & G)].
      + rewrite G, G2. apply Z1. congruence.
      + rewrite G, G2. change (typ_log =? typ_log) with true. cbv iota. unfold bump. cbn [ts_blocks ts_offset].
        split; [discriminate|]. destruct sec as [|k0 sec0].
        * rewrite (Z0 eq_refl). cbn [Nat.eqb]. rewrite app_nil_r. reflexivity.
        * destruct (Z1 ltac:(discriminate)) as [NZ O]. destruct (Nat.eqb_spec (ts_blocks (w_log st)) 0); [congruence|exact O].
  Qed.

  Lemma w_add_log_next : forall st cs0 sec cur L l st',
    PL st cs0 sec cur L -> w_add_log deflate st l = Ok st' ->
    exists l1 sec' cur', norm_log (c_exact_log c) l = Some l1 /\ PL st' cs0 sec' cur' (L ++ [RecLog l1]).
  Proof.
    intros st cs0 sec cur L l st' [HS Hb P0 Z0 Z1] H. unfold w_add_log in H.
    destruct (Nat.eqb (length (l_name l)) 0); [discriminate|].
    rewrite (wi_cfg _ _ _ (si_wi _ _ _ _ _ _ HS)) in H.
    destruct (norm_log (c_exact_log c) l) as [l1|]; [|discriminate].
    destruct (w_bw st) as [b|] eqn:B; [|congruence].
    pose proof (si_bw _ _ _ _ _ _ HS) as TB. rewrite B in TB. rewrite TB in H.
    change (typ_log =? typ_ref) with false in H. cbn [bind] in H.
    destruct (w_add_log_core _ _ _ _ _ _ _ HS P0 Z0 Z1 H) as (sec' & cur' & P').
    exists l1, sec', cur'. auto.
  Qed.

  Lemma w_add_log_first : forall st sec cur L l st',
    SI typ_ref st [] sec cur L -> w_bw st <> None -> ts_blocks (w_log st) = 0%nat ->
    w_add_log deflate st l = Ok st' ->
    exists l1 rsec mid sec' cur', norm_log (c_exact_log c) l = Some l1 /\
      PL st' (unpad (rsec ++ mid)) sec' cur' [RecLog l1] /\
      Forall (fun k => ck_typ k = typ_ref) rsec /\ concat (map ck_recs rsec) = L /\ Forall not_ref mid.
  Proof.
    intros st sec cur L l st' HS Hb Z H. unfold w_add_log in H.
    destruct (Nat.eqb (length (l_name l)) 0); [discriminate|].
    rewrite (wi_cfg _ _ _ (si_wi _ _ _ _ _ _ HS)) in H.
    destruct (norm_log (c_exact_log c) l) as [l1|]; [|discriminate].
    destruct (w_bw st) as [b|] eqn:B; [|congruence].
    pose proof (si_bw _ _ _ _ _ _ HS) as TB. rewrite B in TB. rewrite TB in H.
    change (typ_ref =? typ_ref) with true in H. cbv iota in H.
    destruct (finish_public_section deflate st) as [st1| | |] eqn:F; cbn [bind] in H; try discriminate.
    destruct (fps_ref_spec st sec cur L st1 HS ltac:(congruence) F) as (rsec & mid & W1 & B1 & T1 & R1 & N1 & G1 & X1).
    pose proof (take_back st1 _ W1 B1) as W2.
    set (st2 := upd st1 (w_out st1) 0 (w_next st1 - w_pad st1) (w_last_key st1) (w_bw st1) (w_index st1)) in *.
    assert (S2 : SI typ_log st2 (unpad (rsec ++ mid)) [] [] []).
    { constructor.
      - rewrite app_nil_r. exact W2.
      - constructor.
      - reflexivity.
      - cbn [st2 upd w_index idx_of]. exact X1.
      - cbn [st2 upd w_bw]. rewrite B1. exact I. }
    destruct (out_unpad _ _ _ W1) as (_ & _ & P0 & _).
    assert (H' : w_add deflate (upd st2 (w_out st2) 0 (w_next st2 - w_pad st2) (w_last_key st2) (w_bw st2) (w_index st2))
                   (RecLog l1) = Ok st').
    { cbn [st2 upd w_out w_pad w_next w_last_key w_bw w_index]. rewrite N.sub_0_r. exact H. }
    destruct (w_add_log_core st2 _ [] [] [] l1 st' S2 P0) as (sec' & cur' & P'); try exact H'.
    - intros _. cbn [st2 upd w_log]. rewrite G1. exact Z.
    - congruence.
    - exists l1, rsec, mid, sec', cur'. cbn [app] in P'. auto.
  Qed.

  Fixpoint norm_logs (exact : bool) (logs : list log_record) : option (list log_record) :=
    match logs with
    | [] => Some []
    | l :: t => match norm_log exact l, norm_logs exact t with
                | Some a, Some b => Some (a :: b)
                | _, _ => None
                end
    end.

  Lemma add_logs_PL : forall logs st cs0 sec cur L st',
    PL st cs0 sec cur L -> add_logs deflate st logs = Ok st' ->
    exists nl sec' cur', norm_logs (c_exact_log c) logs = Some nl /\ PL st' cs0 sec' cur' (L ++ map RecLog nl).
  Proof.
    induction logs as [|l t IH]; intros st cs0 sec cur L st' P H; cbn [add_logs] in H.
    - apply Ok_inj in H. subst st'. exists [], sec, cur. cbn [map norm_logs]. rewrite app_nil_r. auto.
    - destruct (w_add_log deflate st l) as [st1| | |] eqn:A; cbn [bind] in H; try discriminate.
      destruct (w_add_log_next _ _ _ _ _ _ _ P A) as (l1 & sec1 & cur1 & N1 & P1).
      destruct (IH _ _ _ _ _ _ P1 H) as (nl & sec' & cur' & N' & P').
      exists (l1 :: nl), sec', cur'. cbn [norm_logs map]. rewrite N1, N'. split; [reflexivity|].
      rewrite <- app_assoc in P'. exact P'.
  Qed.

  (* ---- the final layout ---- *)

  Definition final_ok (fcs : list chunk) (Lref Llog : list record) (lo li : N) : Prop :=
    exists rsec mid lsec lv,
      fcs = (rsec ++ mid) ++ lsec ++ concat lv /\
      Forall (fun k => ck_typ k = typ_ref) rsec /\ concat (map ck_recs rsec) = Lref /\
      Forall not_ref mid /\
      Forall (fun k => ck_typ k = typ_log) lsec /\ concat (map ck_recs lsec) = Llog /\
      lchain (llen (rsec ++ mid)) lsec lv /\ (lsec = [] -> lv = []) /\
      lo = (match lsec with [] => 0 | _ => llen (rsec ++ mid) end) /\
      li = (match lv with [] => 0 | _ => top_off (llen (rsec ++ mid)) lsec lv end).

  Lemma unpad_split : forall rsec mid,
    Forall (fun k => ck_typ k = typ_ref) rsec -> Forall not_ref mid ->
    exists rsec' mid', unpad (rsec ++ mid) = rsec' ++ mid' /\
      Forall (fun k => ck_typ k = typ_ref) rsec' /\ map ck_recs rsec' = map ck_recs rsec /\ Forall not_ref mid'.
  Proof.
    intros rsec mid T N. destruct mid as [|m mid'].
    - exists (unpad rsec), []. rewrite !app_nil_r. split; [reflexivity|].
      split; [apply unpad_Forall; auto|]. split; [apply unpad_recs|constructor].
    - exists rsec, (unpad (m :: mid')). split; [apply unpad_app_r; discriminate|].
      split; [exact T|]. split; [reflexivity|]. apply unpad_Forall; auto.
  Qed.

  Lemma lchain_unpad : forall lv off sec, lchain off sec lv -> lv <> [] ->
    exists lv', concat lv' = unpad (concat lv) /\ lchain off sec lv' /\
      top_off off sec lv' = top_off off sec lv /\ lv' <> [].
  Proof.
    induction lv as [|s1 rest IH]; intros off sec H NE; [congruence|].
    destruct H as (R & T & N1 & H). destruct rest as [|s2 rest'].
    - exists [unpad s1]. cbn [concat]. rewrite !app_nil_r. split; [reflexivity|]. split.
      + cbn [lchain]. rewrite unpad_recs. split; [exact R|]. split; [apply unpad_Forall; auto|].
        split; [rewrite unpad_nil_iff; exact N1|exact I].
      + split; [reflexivity|discriminate].
    - destruct (IH _ _ H ltac:(discriminate)) as (lv' & C' & L' & TO' & N').
      exists (s1 :: lv'). split.
      + cbn [concat]. rewrite C'. symmetry. apply unpad_app_r.
        destruct H as (_ & _ & N2 & _). cbn [concat]. intros E. apply app_eq_nil in E. destruct E. congruence.
      + split; [cbn [lchain]; auto|]. split; [cbn [top_off]; exact TO'|discriminate].
  Qed.

  Definition footer_st (st1 : wstate) : bytes :=
    footer_of c mn mx (ts_index_offset (w_ref st1))
              ((ts_offset (w_objs st1) * 32 + N.of_nat (w_idlen st1)) mod two64)
              (ts_index_offset (w_objs st1)) (ts_offset (w_log st1)) (ts_index_offset (w_log st1)).

  Lemma w_close_out : forall st st1 cs data,
    finish_public_section deflate st = Ok st1 -> WI st1 cs [] ->
    w_close deflate st = Ok (false, data) ->
    data = layout (unpad cs) ++ footer_st st1 ++ be32 (crc32 (footer_st st1)) /\ cs <> [].
  Proof.
    intros st st1 cs data F W H. unfold w_close in H. rewrite F in H. cbn [bind] in H.
    rewrite (wi_cfg _ _ _ W), (wi_min _ _ _ W), (wi_max _ _ _ W) in H.
    apply Ok_inj in H. injection H as E1 E2.
    destruct (N.eqb_spec (w_next st1) 0) as [Z|NZ]; [discriminate|].
    destruct (out_unpad _ _ _ W) as (O & _). rewrite O in E2.
    split.
    - rewrite <- E2. unfold footer_st, footer_of. rewrite <- !app_assoc. reflexivity.
    - intros ->. apply NZ. rewrite (wi_next _ _ _ W). reflexivity.
  Qed.

  Definition closed_ok (data : bytes) (Lref Llog : list record) : Prop :=
    exists fcs st1,
      data = layout fcs ++ footer_st st1 ++ be32 (crc32 (footer_st st1)) /\ fcs <> [] /\
      chunks_at 0 fcs /\ last_pad fcs = 0%nat /\
      final_ok fcs Lref Llog (ts_offset (w_log st1)) (ts_index_offset (w_log st1)).

  Lemma w_close_PR : forall st sec cur L data,
    SI typ_ref st [] sec cur L -> w_bw st <> None -> w_log st = tstats0 ->
    w_close deflate st = Ok (false, data) -> closed_ok data L [].
  Proof.
    intros st sec cur L data HS Hb G H.
    destruct (finish_public_section deflate st) as [st1| | |] eqn:F;
      try (unfold w_close in H; rewrite F in H; discriminate).
    destruct (fps_ref_spec st sec cur L st1 HS Hb F) as (rsec & mid & W1 & B1 & T1 & R1 & N1 & G1 & X1).
    destruct (w_close_out _ _ _ _ F W1 H) as (D & NE).
    destruct (out_unpad _ _ _ W1) as (_ & C & P & _).
    destruct (unpad_split rsec mid T1 N1) as (rsec' & mid' & E & T' & R' & N').
    exists (unpad (rsec ++ mid)), st1. split; [exact D|]. split; [rewrite unpad_nil_iff; exact NE|].
    split; [exact C|]. split; [exact P|].
    exists rsec', mid', [], []. cbn [concat app]. rewrite app_nil_r.
    split; [exact E|]. split; [exact T'|]. split; [rewrite R'; exact R1|]. split; [exact N'|].
    split; [constructor|]. split; [reflexivity|]. split; [exact I|]. split; [reflexivity|].
    rewrite G1, G. split; reflexivity.
  Qed.

  Lemma w_close_PL : forall st rsec mid sec cur Lref L data,
    PL st (unpad (rsec ++ mid)) sec cur L -> L <> [] ->
    Forall (fun k => ck_typ k = typ_ref) rsec -> concat (map ck_recs rsec) = Lref -> Forall not_ref mid ->
    w_close deflate st = Ok (false, data) -> closed_ok data Lref L.
  Proof.
    intros st rsec mid sec cur Lref L data [HS Hb P0 Z0 Z1] LNE T0 R0 N0 H.
    destruct (finish_public_section deflate st) as [st1| | |] eqn:F;
      try (unfold w_close in H; rewrite F in H; discriminate).
    destruct (fps_log_spec st _ sec cur L st1 HS Hb F) as (sec1 & lv & W1 & T1 & R1 & LC & C1 & C2 & G1).
    destruct (w_close_out _ _ _ _ F W1 H) as (D & NE).
    destruct (out_unpad _ _ _ W1) as (_ & C & P & _).
    destruct (unpad_split rsec mid T0 N0) as (rsec' & mid' & E & T' & R' & N').
    set (cs0 := unpad (rsec ++ mid)) in *.
    assert (NE1 : sec1 <> []).
    { intros ->. cbn [map concat] in R1. congruence. }
    cbv zeta in G1. destruct G1 as (GO & _ & GI).
    assert (LO : ts_offset (w_log st1) = llen cs0).
    { rewrite GO. destruct sec as [|k0 sec0].
      - destruct cur as [|x cur'].
        + exfalso. apply NE1. apply C1. reflexivity.
        + unfold bump. cbn [ts_offset]. rewrite (Z0 eq_refl). cbn [Nat.eqb]. rewrite app_nil_r. reflexivity.
      - destruct (Z1 ltac:(discriminate)) as [NZ O].
        destruct cur as [|x cur']; [exact O|]. unfold bump. cbn [ts_offset].
        destruct (Nat.eqb_spec (ts_blocks (w_log st)) 0); [congruence|exact O]. }
    exists (unpad ((cs0 ++ sec1) ++ concat lv)), st1. split; [exact D|]. split; [rewrite unpad_nil_iff; exact NE|].
    split; [exact C|]. split; [exact P|].
    destruct lv as [|s1 rest].
    - exists rsec', mid', (unpad sec1), []. cbn [concat]. rewrite !app_nil_r. rewrite <- E. fold cs0.
      split; [apply unpad_app_r; exact NE1|]. split; [exact T'|]. split; [rewrite R'; exact R0|]. split; [exact N'|].
      split; [apply unpad_Forall; auto|]. split; [rewrite unpad_recs; exact R1|]. split; [exact I|].
      split; [reflexivity|].
      assert (U : unpad sec1 <> []) by (rewrite unpad_nil_iff; exact NE1).
      split; [|exact GI]. rewrite LO. destruct (unpad sec1); [congruence|reflexivity].
    - destruct (lchain_unpad _ _ _ LC ltac:(discriminate)) as (lv' & CC & LC' & TO & NL).
      exists rsec', mid', sec1, lv'. rewrite <- E. fold cs0.
      split.
      { rewrite CC. rewrite <- app_assoc. rewrite unpad_app_r.
        - rewrite unpad_app_r; [reflexivity|].
          destruct LC as (_ & _ & N2 & _). cbn [concat]. intros Q. apply app_eq_nil in Q. destruct Q. congruence.
        - intros Q. apply app_eq_nil in Q. destruct Q. congruence. }
      split; [exact T'|]. split; [rewrite R'; exact R0|]. split; [exact N'|].
      split; [exact T1|]. split; [exact R1|]. split; [exact LC'|]. split; [congruence|].
      split; [rewrite LO; destruct sec1; [congruence|reflexivity]|].
      rewrite GI, <- TO. destruct lv'; [congruence|reflexivity].
  Qed.
End TableW.

Lemma w_new_SI : forall deflate cfg min max st0,
  w_new cfg = Ok st0 ->
  let st := set_limits st0 min max in
  c_block_size cfg < 16777216 /\
  SI deflate (cfg_defaults cfg) min max typ_ref st [] [] [] [] /\ w_bw st <> None /\ w_log st = tstats0.
Proof.
  intros deflate cfg min max st0 H st. unfold w_new in H.
  destruct (N.leb_spec 16777216 (c_block_size cfg)) as [L|L]; [discriminate|].
  destruct (block_too_small cfg) eqn:TS; [discriminate|].
  apply Ok_inj in H. subst st0. split; [exact L|].
  split; [|split; [discriminate|reflexivity]].
  constructor.
  - constructor; try reflexivity; try exact I.
    cbn [st set_limits set_bw upd w_bw w_next]. split; reflexivity.
  - constructor.
  - reflexivity.
  - reflexivity.
  - reflexivity.
Qed.

Theorem written : forall deflate cfg min max refs logs data,
  write_table deflate cfg min max refs logs = Ok (false, data) ->
  exists nl, norm_logs (c_exact_log cfg) logs = Some nl /\
    c_block_size cfg < 16777216 /\
    closed_ok deflate (cfg_defaults cfg) min max data
              (map RecRef (map (delta_ref min) refs)) (map RecLog nl).
Proof.
  intros deflate cfg min max refs logs data H. unfold write_table in H.
  destruct (w_new cfg) as [st0| | |] eqn:N0; cbn [bind] in H; try discriminate.
  destruct (w_new_SI deflate cfg min max st0 N0) as (BS & S0 & B0 & G0). cbv zeta in S0, B0, G0.
  destruct (add_refs deflate (set_limits st0 min max) refs) as [st1| | |] eqn:AR; cbn [bind] in H; try discriminate.
  destruct (add_refs_SI _ _ _ _ _ _ _ _ _ _ S0 B0 AR) as (sec1 & cur1 & S1 & B1 & G1). cbn [app] in S1.
  destruct (add_logs deflate st1 logs) as [st2| | |] eqn:AL; cbn [bind] in H; try discriminate.
  destruct logs as [|l t].
  - cbn [add_logs] in AL. apply Ok_inj in AL. subst st2. exists []. split; [reflexivity|]. split; [exact BS|].
    eapply w_close_PR; [exact S1|exact B1|congruence|exact H].
  - cbn [add_logs] in AL.
    destruct (w_add_log deflate st1 l) as [st1'| | |] eqn:A1; cbn [bind] in AL; try discriminate.
    destruct (w_add_log_first _ _ _ _ _ _ _ _ _ _ S1 B1 ltac:(rewrite G1, G0; reflexivity) A1)
      as (l1 & rsec & mid & sec' & cur' & N1 & P1 & T1 & R1 & M1).
    destruct (add_logs_PL _ _ _ _ _ _ _ _ _ _ _ P1 AL) as (nl & sec2 & cur2 & N2 & P2).
    exists (l1 :: nl). cbn [norm_logs]. change (c_exact_log (cfg_defaults cfg)) with (c_exact_log cfg) in N1, N2.
    rewrite N1, N2. split; [reflexivity|]. split; [exact BS|].
    eapply w_close_PL; [exact P2|discriminate|exact T1|exact R1|exact M1|exact H].
Qed.

(* ------------------------------------------------------------------ *)
(* L2: what the writer has put out *)
(* ------------------------------------------------------------------ *)
(* L3: reading the blocks back *)

Lemma firstn_min_app : forall A (l t : list A) a, firstn (Nat.min a (length l)) (l ++ t) = firstn a l.
Proof.
  intros A l t a. rewrite firstn_app. replace (Nat.min a (length l) - length l)%nat with 0%nat by lia.
  cbn [firstn]. rewrite app_nil_r. destruct (Nat.le_ge_cases a (length l)) as [L|L].
  - rewrite Nat.min_l by exact L. reflexivity.
  - rewrite Nat.min_r by exact L. rewrite firstn_all. symmetry. apply firstn_all2. exact L.
Qed.

Lemma skipn_app_le : forall A (l t : list A) n, (n <= length l)%nat -> skipn n (l ++ t) = skipn n l ++ t.
Proof.
  intros A l t n H. rewrite skipn_app. replace (n - length l)%nat with 0%nat by lia. reflexivity.
Qed.

Lemma firstn_app_ge : forall A (l t : list A) n, (length l <= n)%nat ->
  firstn n (l ++ t) = l ++ firstn (n - length l) t.
Proof. intros A l t n H. rewrite firstn_app. rewrite firstn_all2 by exact H. reflexivity. Qed.

Lemma bytes_ltb_zeros : forall n key, (n < length key)%nat -> bytes_ltb (zeros n) key = true.
Proof.
  induction n as [|n IH]; intros key H; destruct key as [|y key']; cbn [length] in H; try lia.
  - reflexivity.
  - cbn [zeros repeat bytes_ltb]. destruct (N.ltb_spec 0 y); [reflexivity|].
    destruct (N.ltb_spec y 0); [lia|]. apply IH. lia.
Qed.

Lemma sorted_app_inv : forall A (R : A -> A -> Prop) a b,
  StronglySorted R (a ++ b) -> StronglySorted R a /\ StronglySorted R b.
Proof.
  intros A R a. induction a as [|x a IH]; intros b H; cbn [app] in H.
  - split; [constructor|exact H].
  - inversion H as [|? ? S F]; subst. destruct (IH _ S) as [S1 S2]. split; [|exact S2].
    constructor; [exact S1|]. apply Forall_app in F. apply F.
Qed.

Lemma sorted_concat_in : forall A (R : A -> A -> Prop) ls l,
  StronglySorted R (concat ls) -> In l ls -> StronglySorted R l.
Proof.
  intros A R ls. induction ls as [|a ls IH]; intros l S I; [destruct I|].
  cbn [concat] in S. apply sorted_app_inv in S. destruct S as [S1 S2].
  destruct I as [<-|I]; [exact S1|]. apply IH; assumption.
Qed.

Lemma Forall_concat_in : forall A (P : A -> Prop) ls l, Forall P (concat ls) -> In l ls -> Forall P l.
Proof.
  intros A P ls. induction ls as [|a ls IH]; intros l F I; [destruct I|].
  cbn [concat] in F. apply Forall_app in F. destruct F as [F1 F2].
  destruct I as [<-|I]; [exact F1|]. apply IH; assumption.
Qed.

(* block_rest from bi_all *)
Lemma block_rest_bi_all : forall fuel r b p l acc,
  bi_all fuel b p = Some l ->
  block_rest fuel r b p acc = Ok (rev acc ++ map (fix_index r) l).
Proof.
  induction fuel as [|f IH]; intros r b p l acc H; cbn [bi_all] in H; [discriminate|].
  cbn [block_rest]. destruct (bi_next b p) as [[[rec p']|]|]; try discriminate.
  - destruct (bi_all f b p') as [l'|] eqn:E; [|discriminate]. injection H as <-.
    rewrite (IH _ _ _ _ _ E). cbn [rev map]. rewrite <- app_assoc. reflexivity.
  - injection H as <-. cbn [map]. rewrite app_nil_r. reflexivity.
Qed.

Lemma is_block_type_nonzero : forall t, is_block_type t = true -> t <> 0.
Proof. intros t H ->. discriminate. Qed.

Section TableR.
  Variable deflate : bytes -> bytes.
  Variable inflate : bytes -> inflate_result.
  Hypothesis Hz : zlib_ok deflate inflate.
  (* a truncated zlib stream is reported as such *)
  Hypothesis Htrunc : forall x n, (n < length (deflate x))%nat -> inflate (firstn n (deflate x)) = ITrunc.
  (* deflate does not blow a block up beyond 2^30 bytes *)
  Hypothesis Hbound : forall x, N.of_nat (length x) < 16777216 -> N.of_nat (length (deflate x)) < 1073741824.
  Variable c : config.
  Variable mn mx : N.
  Hypothesis Hbs : 64 <= c_block_size c < 16777216.
  Hypothesis Hint : (0 < c_restart_interval c)%nat.

  Variable fcs : list chunk.
  Hypothesis Hchunks : chunks_at deflate c mn mx 0 fcs.
  Hypothesis Hlast : last_pad fcs = 0%nat.
  Variable r : reader.
  Let d := layout fcs.
  Hypothesis Hsrc : exists tail, rd_src r = d ++ tail.
  Hypothesis Hsize : rd_size r = N.of_nat (length d).
  Hypothesis Hrbs : rd_block_size r = c_block_size c.
  Hypothesis Hrhs : rd_hash_size r = hash_size c.
  Hypothesis Hrhd : rd_header_size r = header_size c.

  Let hs := hash_size c.
  Let B := N.to_nat (c_block_size c).

  Lemma hs_pos : (0 < hs)%nat.
  Proof. unfold hs, hash_size. destruct (c_sha256 c); lia. Qed.

  Lemma get_block_d : forall off sz, off < N.of_nat (length d) ->
    get_block r off sz = Some (firstn (N.to_nat sz) (skipn (N.to_nat off) d)).
  Proof.
    intros off sz H. unfold get_block. rewrite Hsize.
    destruct (N.leb_spec (N.of_nat (length d)) off); [lia|]. f_equal.
    destruct Hsrc as [tail ->]. rewrite dropN_skipn'. rewrite skipn_app_le by lia.
    replace (N.to_nat (N.min sz (N.of_nat (length d) - off)))
      with (Nat.min (N.to_nat sz) (length (skipn (N.to_nat off) d))) by (rewrite skipn_length; lia).
    apply firstn_min_app.
  Qed.

  Lemma chunk_split : forall pre k post, fcs = pre ++ k :: post ->
    skipn (N.to_nat (llen pre)) d = ck_raw k ++ zeros (ck_pad k) ++ layout post /\
    chunk_at deflate c mn mx (llen pre) k /\
    (post = [] -> ck_pad k = 0%nat) /\
    (post <> [] -> exists t rest, layout post = t :: rest /\ t <> 0).
  Proof.
    intros pre k post E. pose proof Hchunks as C. rewrite E in C.
    apply chunks_at_app in C. destruct C as [_ C]. rewrite N.add_0_l in C. fold (llen pre) in C.
    cbn [chunks_at] in C. destruct C as [Ck Cp].
    split.
    { unfold d. rewrite E, layout_app. unfold llen. rewrite Nat2N.id, skipn_app_len.
      unfold layout at 1. cbn [flat_map]. unfold ck_bytes. rewrite <- app_assoc. reflexivity. }
    split; [exact Ck|]. split.
    - intros ->. pose proof Hlast as L. rewrite E in L. rewrite last_pad_snoc in L. exact L.
    - intros NE. destruct post as [|k2 post2]; [congruence|]. cbn [chunks_at] in Cp. destruct Cp as [C2 _].
      pose proof (chunk_at_len _ _ _ _ _ _ Ck) as L4.
      destruct C2 as (T2 & _ & (w2 & A2 & R2) & _).
      destruct (bw_finish_head deflate (blk_file_hdr c mn mx (llen pre + N.of_nat (length (ck_bytes k)))) w2)
        as (b3 & tl & E2 & _).
      assert (Z : blk_file_hdr c mn mx (llen pre + N.of_nat (length (ck_bytes k))) = []).
      { unfold blk_file_hdr. unfold ck_bytes. rewrite app_length.
        destruct (N.eqb_spec (llen pre + N.of_nat (length (ck_raw k) + length (zeros (ck_pad k)))) 0); [lia|reflexivity]. }
      rewrite Z in E2, R2. cbn [app] in E2.
      exists (bw_typ w2), (b3 ++ tl ++ zeros (ck_pad k2) ++ layout post2).
      split.
      + unfold layout. cbn [flat_map]. unfold ck_bytes. rewrite R2, E2. cbn [app]. rewrite <- !app_assoc. reflexivity.
      + apply is_block_type_nonzero. apply bw_add_all_same in A2. destruct A2 as [A2 _].
        rewrite A2. exact T2.
  Qed.

  Definition hdr_of (off : N) : nat := blk_hdr c off.

  (* the shape of a written block *)
  Lemma raw_shape : forall off k, chunk_at deflate c mn mx off k ->
    exists w nxt payload,
      bw_add_all (fresh_bw c off (ck_typ k)) (ck_recs k) = Ok (Some w) /\
      ck_raw k = bw_finish deflate (blk_file_hdr c mn mx off) w /\
      ck_raw k = (blk_file_hdr c mn mx off ++ ck_typ k :: be24 (N.of_nat nxt)) ++
                 (if ck_typ k =? typ_log then deflate payload else payload) /\
      (hdr_of off + 4 + length payload = nxt)%nat /\ (nxt <= B)%nat.
  Proof.
    intros off k (T & NE & (w & A & R) & _).
    exists w, (bw_next w + 3 * length (bw_restarts w) + 2)%nat,
      (bw_body w ++ rtable (bw_restarts w) ++ be16 (N.of_nat (length (bw_restarts w)))).
    split; [exact A|]. split; [exact R|].
    unfold fresh_bw in A.
    destruct (bw_add_all_inv hs (ck_recs k) _ [] w (winv_new _ _ _ _ _) A) as (es & E & W & S).
    destruct S as (St & Sh & Ss & _). cbn [bw_new bw_typ bw_hdr bw_size] in St, Sh, Ss.
    assert (NE' : [] ++ es <> []) by (cbn [app]; intros ->; apply NE; symmetry; exact E).
    pose proof (wi_fit _ _ _ W NE') as F.
    split.
    { rewrite R. unfold bw_finish. rewrite St. unfold rtable.
      destruct (ck_typ k =? typ_log); rewrite <- !app_assoc; reflexivity. }
    split.
    - unfold bw_next, hdr_of. rewrite Sh, !app_length, rtable_length, be16_length. lia.
    - unfold B, bsz in *. lia.
  Qed.

  Lemma br_init_trunc_log : forall head x j hdr tbs hash,
    length head = (hdr + 4)%nat -> nth hdr head 0 = typ_log -> (j < length (deflate x))%nat ->
    br_init inflate (head ++ firstn j (deflate x)) hdr tbs hash = inl BrTrunc.
  Proof.
    intros head x j hdr tbs hash Lh Ht Hj. unfold br_init.
    destruct (Nat.ltb_spec (length (head ++ firstn j (deflate x))) (hdr + 4)) as [L|_].
    { rewrite app_length in L. lia. }
    rewrite app_nth1 by lia. rewrite Ht. change (is_block_type typ_log) with true. cbn [negb].
    change (typ_log =? typ_log) with true. cbv iota.
    rewrite skipn_app_len' by (symmetry; exact Lh). rewrite Htrunc by exact Hj. reflexivity.
  Qed.

  Lemma br_retry_log : forall f off hdr head x X n,
    off < N.of_nat (length d) ->
    skipn (N.to_nat off) d = (head ++ deflate x) ++ X ->
    length head = (hdr + 4)%nat -> nth hdr head 0 = typ_log ->
    N.of_nat (length (deflate x)) < 1073741824 -> (hdr <= 28)%nat ->
    (forall rest', exists b, br_init inflate ((head ++ deflate x) ++ rest') hdr B hs = inr b) ->
    (hdr + 4 <= n)%nat ->
    N.of_nat (length (head ++ deflate x)) <= 2 ^ N.of_nat f * N.of_nat n ->
    exists rest' b,
      br_retry inflate (S f) r off hdr true (firstn n (skipn (N.to_nat off) d)) = Ok (Some b) /\
      br_init inflate ((head ++ deflate x) ++ rest') hdr B hs = inr b.
  Proof.
    induction f as [|f IH]; intros off hdr head x X n Ho SK Lh Ht Hb H28 Hok Hn Hf.
    - (* the window holds the block *)
      assert (LE : (length (head ++ deflate x) <= n)%nat).
      { change (2 ^ N.of_nat 0) with 1 in Hf. lia. }
      rewrite SK. rewrite firstn_app_ge by exact LE.
      destruct (Hok (firstn (n - length (head ++ deflate x)) X)) as [b Eb].
      eexists; exists b. split; [|exact Eb]. cbn [br_retry]. rewrite Hrbs, Hrhs. fold B hs. rewrite Eb. reflexivity.
    - destruct (Nat.le_gt_cases (length (head ++ deflate x)) n) as [LE|GT].
      + rewrite SK. rewrite firstn_app_ge by exact LE.
        destruct (Hok (firstn (n - length (head ++ deflate x)) X)) as [b Eb].
        eexists; exists b. split; [|exact Eb]. cbn [br_retry]. rewrite Hrbs, Hrhs. fold B hs. rewrite Eb. reflexivity.
      + assert (BL : firstn n (skipn (N.to_nat off) d) = head ++ firstn (n - (hdr + 4)) (deflate x)).
        { rewrite SK. rewrite firstn_app. replace (n - length (head ++ deflate x))%nat with 0%nat by lia.
          cbn [firstn]. rewrite app_nil_r. rewrite firstn_app_ge by lia. rewrite Lh. reflexivity. }
        rewrite app_length in GT.
        destruct (IH off hdr head x X (2 * n)%nat Ho SK Lh Ht Hb H28 Hok ltac:(lia)) as (rest' & b & R & Eb).
        { rewrite Nat2N.inj_succ, N.pow_succ_r' in Hf. lia. }
        exists rest', b. split; [|exact Eb].
        cbn [br_retry]. rewrite BL at 1. rewrite br_init_trunc_log by (try assumption; lia).
        cbn [negb orb].
        assert (LB : length (firstn n (skipn (N.to_nat off) d)) = n).
        { rewrite BL, app_length, firstn_length. lia. }
        rewrite LB.
        assert (LD : N.of_nat (length d) = off + N.of_nat (length ((head ++ deflate x) ++ X))).
        { rewrite <- SK, skipn_length. lia. }
        rewrite app_length, app_length in LD.
        destruct (N.leb_spec (rd_size r) (off + N.of_nat n)) as [L|_]; [rewrite Hsize in L; lia|].
        rewrite get_block_d by exact Ho.
        replace (N.to_nat ((2 * N.of_nat n) mod 4294967296)) with (2 * n)%nat.
        * exact R.
        * rewrite N.mod_small by lia. lia.
  Qed.

  Definition reads (b : br) (pre : list chunk) (k : chunk) (post : list chunk) : Prop :=
    br_typ b = ck_typ k /\
    bi_all (S (length (br_block b))) b (br_start b) = Some (map (rec_read hs) (ck_recs k)) /\
    (forall key, exists p, br_seek b key = Some p /\
       bi_all (S (length (br_block b))) b p = Some (map (rec_read hs) (seek_recs key (ck_recs k)))) /\
    (post <> [] -> llen pre + N.of_nat (br_full b) = llen (pre ++ [k])) /\
    (post = [] -> rd_size r <= llen pre + N.of_nat (br_full b)).

  Lemma hdr_of_le : forall off, (hdr_of off <= 28)%nat.
  Proof. intros. unfold hdr_of, blk_hdr, header_size. destruct (off =? 0); [destruct (c_sha256 c)|]; lia. Qed.

  Lemma nbr_parse : forall pre k post want,
    fcs = pre ++ k :: post ->
    new_block_reader inflate r (llen pre) want =
    if negb (want =? typ_any) && negb (ck_typ k =? want) then Ok None
    else br_retry inflate 40 r (llen pre) (hdr_of (llen pre)) (ck_typ k =? typ_log)
                  (firstn B (skipn (N.to_nat (llen pre)) d)).
  Proof.
    intros pre k post want E.
    destruct (chunk_split pre k post E) as (SK & CA & P0 & PN).
    set (off := llen pre) in *.
    destruct (raw_shape off k CA) as (w & nxt & payload & A & R & RS & LN & LB).
    pose proof CA as (T & NE & _ & PR).
    set (hdr := hdr_of off) in *.
    set (fh := blk_file_hdr c mn mx off) in *.
    assert (Lfh : length fh = hdr) by apply blk_file_hdr_length.
    pose proof (hdr_of_le off) as H28. fold hdr in H28.
    set (X := zeros (ck_pad k) ++ layout post) in *.
    set (tlr := if ck_typ k =? typ_log then deflate payload else payload) in *.
    set (head := fh ++ ck_typ k :: be24 (N.of_nat nxt)) in *.
    assert (Lh : length head = (hdr + 4)%nat).
    { unfold head. rewrite app_length. cbn [length]. rewrite be24_length. lia. }
    assert (LD : N.of_nat (length d) = off + N.of_nat (length (ck_raw k ++ X))).
    { rewrite <- SK, skipn_length. assert (N.to_nat off <= length d)%nat; [|lia].
      unfold off, llen, d. rewrite E, layout_app, app_length. lia. }
    assert (Ho : off < N.of_nat (length d)).
    { rewrite LD, app_length, RS, app_length, Lh. lia. }
    assert (HB : (64 <= B)%nat) by (unfold B; lia).
    set (block := firstn B (skipn (N.to_nat off) d)).
    assert (Eblock : block = head ++ firstn (B - (hdr + 4)) (tlr ++ X)).
    { unfold block. rewrite SK, RS. rewrite <- app_assoc. rewrite firstn_app_ge by lia. rewrite Lh. reflexivity. }
    unfold new_block_reader. rewrite Hsize.
    destruct (N.leb_spec (N.of_nat (length d)) off) as [L|_]; [lia|].
    rewrite Hrbs. destruct (N.eqb_spec (c_block_size c) 0) as [Z|_]; [lia|].
    rewrite get_block_d by exact Ho.
    replace (N.to_nat (c_block_size c)) with B by reflexivity. fold block.
    assert (Ehdr : (if off =? 0 then rd_header_size r else 0%nat) = hdr).
    { rewrite Hrhd. reflexivity. }
    rewrite Ehdr.
    assert (Lblock : (hdr + 4 <= length block)%nat).
    { rewrite Eblock, app_length. lia. }
    destruct (Nat.ltb_spec (length block) hdr) as [L|_]; [lia|].
    assert (Eb1 : skipn hdr block = ck_typ k :: be24 (N.of_nat nxt) ++ firstn (B - (hdr + 4)) (tlr ++ X)).
    { rewrite Eblock. unfold head. rewrite <- app_assoc. rewrite skipn_app_len' by (symmetry; exact Lfh). reflexivity. }
    rewrite Eb1. cbn [length nth skipn].
    destruct (Nat.ltb_spec (S (length (be24 (N.of_nat nxt) ++ firstn (B - (hdr + 4)) (tlr ++ X)))) 4) as [L|_].
    { rewrite app_length, be24_length in L. lia. }
    rewrite T. cbn [negb].
    rewrite firstn_app_len' by (rewrite be24_length; reflexivity).
    rewrite be24_value by (unfold B in LB; lia).
    destruct (negb (want =? typ_any) && negb (ck_typ k =? want)); [reflexivity|].
    destruct (N.ltb_spec (c_block_size c) (N.of_nat nxt)) as [L|_]; [unfold B in LB; lia|].
    reflexivity.
  Qed.

  Lemma read_none_typ : forall pre k post want,
    fcs = pre ++ k :: post -> want <> typ_any -> ck_typ k <> want ->
    new_block_reader inflate r (llen pre) want = Ok None.
  Proof.
    intros pre k post want E H1 H2. rewrite (nbr_parse pre k post want E).
    destruct (N.eqb_spec want typ_any); [congruence|]. destruct (N.eqb_spec (ck_typ k) want); [congruence|].
    reflexivity.
  Qed.

  Lemma read_none_end : forall off want, rd_size r <= off -> new_block_reader inflate r off want = Ok None.
  Proof.
    intros off want H. unfold new_block_reader. destruct (N.leb_spec (rd_size r) off); [reflexivity|lia].
  Qed.

  Lemma read_chunk : forall pre k post want,
    fcs = pre ++ k :: post -> block_recs_ok (ck_typ k) hs (ck_recs k) ->
    want = typ_any \/ want = ck_typ k ->
    exists b, new_block_reader inflate r (llen pre) want = Ok (Some b) /\ reads b pre k post.
  Proof.
    intros pre k post want E OK Hw.
    destruct (chunk_split pre k post E) as (SK & CA & P0 & PN).
    set (off := llen pre) in *.
    destruct (raw_shape off k CA) as (w & nxt & payload & A & R & RS & LN & LB).
    pose proof CA as (T & NE & _ & PR).
    set (hdr := hdr_of off) in *.
    set (fh := blk_file_hdr c mn mx off) in *.
    assert (Lfh : length fh = hdr) by apply blk_file_hdr_length.
    pose proof (hdr_of_le off) as H28. fold hdr in H28.
    set (X := zeros (ck_pad k) ++ layout post) in *.
    set (tlr := if ck_typ k =? typ_log then deflate payload else payload) in *.
    set (head := fh ++ ck_typ k :: be24 (N.of_nat nxt)) in *.
    assert (Lh : length head = (hdr + 4)%nat).
    { unfold head. rewrite app_length. cbn [length]. rewrite be24_length. lia. }
    assert (Nh : nth hdr head 0 = ck_typ k).
    { unfold head. rewrite <- Lfh. apply nth_middle. }
    assert (LD : N.of_nat (length d) = off + N.of_nat (length (ck_raw k ++ X))).
    { rewrite <- SK, skipn_length. assert (N.to_nat off <= length d)%nat; [|lia].
      unfold off, llen, d. rewrite E, layout_app, app_length. lia. }
    assert (Ho : off < N.of_nat (length d)).
    { rewrite LD, app_length, RS, app_length, Lh. lia. }
    assert (HB : (64 <= B)%nat) by (unfold B; lia).
    (* the window *)
    set (block := firstn B (skipn (N.to_nat off) d)).
    assert (Eblock : block = head ++ firstn (B - (hdr + 4)) (tlr ++ X)).
    { unfold block. rewrite SK, RS. rewrite <- app_assoc. rewrite firstn_app_ge by lia. rewrite Lh. reflexivity. }
    (* all blocks that are long enough open *)
    assert (Hinit : forall rest', exists b, br_init inflate (ck_raw k ++ rest') hdr B hs = inr b /\
              br_typ b = ck_typ k /\
              bi_all (S (length (br_block b))) b (br_start b) = Some (map (rec_read hs) (ck_recs k)) /\
              (forall key, exists p, br_seek b key = Some p /\
                 bi_all (S (length (br_block b))) b p = Some (map (rec_read hs) (seek_recs key (ck_recs k)))) /\
              br_full b = full_of (ck_typ k) B (ck_raw k) rest' /\
              (ck_typ k =? typ_log = false -> (length (ck_raw k) <= B)%nat)).
    { intros rest'. unfold fresh_bw, bsz in A. fold B hs in A.
      assert (SZ : N.of_nat B < 16777216) by (unfold B; lia).
      destruct (block_roundtrip deflate inflate (ck_typ k) _ B _ hs (ck_recs k) w fh rest' B
                  Hz T Hint hs_pos SZ Lfh NE OK A) as (b & BI & B1 & B2 & B3 & ALL & FU & FIT).
      fold hdr in BI. rewrite <- R in BI, FU, FIT.
      exists b. split; [exact BI|]. split; [exact B1|]. split; [exact ALL|]. split.
      - intros key. rewrite R in BI.
        apply (block_seek deflate inflate (ck_typ k) _ B _ hs (ck_recs k) w fh rest' B b key
                 Hz T Hint hs_pos SZ Lfh NE OK A BI).
      - split; [exact FU|exact FIT]. }
    unfold new_block_reader. rewrite Hsize.
    destruct (N.leb_spec (N.of_nat (length d)) off) as [L|_]; [lia|].
    rewrite Hrbs. destruct (N.eqb_spec (c_block_size c) 0) as [Z|_]; [lia|].
    rewrite get_block_d by exact Ho.
    replace (N.to_nat (c_block_size c)) with B by reflexivity. fold block.
    assert (Ehdr : (if off =? 0 then rd_header_size r else 0%nat) = hdr).
    { rewrite Hrhd. reflexivity. }
    rewrite Ehdr.
    assert (Lblock : (hdr + 4 <= length block)%nat).
    { rewrite Eblock, app_length. lia. }
    destruct (Nat.ltb_spec (length block) hdr) as [L|_]; [lia|].
    assert (Eb1 : skipn hdr block = ck_typ k :: be24 (N.of_nat nxt) ++ firstn (B - (hdr + 4)) (tlr ++ X)).
    { rewrite Eblock. unfold head. rewrite <- app_assoc. rewrite skipn_app_len' by (symmetry; exact Lfh). reflexivity. }
    rewrite Eb1. cbn [length nth skipn].
    destruct (Nat.ltb_spec (S (length (be24 (N.of_nat nxt) ++ firstn (B - (hdr + 4)) (tlr ++ X)))) 4) as [L|_].
    { rewrite app_length, be24_length in L. lia. }
    rewrite T. cbn [negb].
    rewrite firstn_app_len' by (rewrite be24_length; reflexivity).
    rewrite be24_value by (unfold B in LB; lia).
    assert ((negb (want =? typ_any) && negb (ck_typ k =? want)) = false) as ->.
    { destruct Hw as [-> | ->]; [reflexivity|]. rewrite N.eqb_refl. apply andb_false_r. }
    destruct (N.ltb_spec (c_block_size c) (N.of_nat nxt)) as [L|_]; [unfold B in LB; lia|].
    (* the retry loop *)
    assert (RT : exists rest' b, br_retry inflate 40 r off hdr (ck_typ k =? typ_log) block = Ok (Some b) /\
                   br_init inflate (ck_raw k ++ rest') hdr B hs = inr b /\
                   (ck_typ k =? typ_log = false -> rest' = firstn (B - length (ck_raw k)) X)).
    { destruct (ck_typ k =? typ_log) eqn:TL.
      - assert (TLe : ck_typ k = typ_log) by lia.
        assert (Hok : forall rest', exists b, br_init inflate ((head ++ deflate payload) ++ rest') hdr B hs = inr b).
        { intros rest'. destruct (Hinit rest') as (b & BI & _). rewrite RS in BI. exists b. exact BI. }
        assert (Hdb : N.of_nat (length (deflate payload)) < 1073741824).
        { apply Hbound. unfold B in LB. lia. }
        destruct (br_retry_log 39 off hdr head payload X B Ho ltac:(rewrite SK, RS; reflexivity) Lh
                    ltac:(rewrite Nh; exact TLe) Hdb H28 Hok ltac:(lia)) as (rest' & b & R1 & R2).
        { rewrite app_length, Lh. change (2 ^ N.of_nat 39) with 549755813888. lia. }
        exists rest', b. split; [exact R1|]. split; [rewrite RS; exact R2|discriminate].
      - destruct (Hinit (firstn (B - length (ck_raw k)) X)) as (b & BI & _ & _ & _ & _ & FIT).
        specialize (FIT eq_refl).
        exists (firstn (B - length (ck_raw k)) X), b. split; [|split; [exact BI|reflexivity]].
        change 40%nat with (S 39). cbn [br_retry]. rewrite Hrbs, Hrhs. fold B hs.
        assert (block = ck_raw k ++ firstn (B - length (ck_raw k)) X) as ->.
        { unfold block. rewrite SK. apply firstn_app_ge. exact FIT. }
        rewrite BI. reflexivity. }
    destruct RT as (rest' & b & R1 & R2 & R3).
    exists b. split; [exact R1|].
    destruct (Hinit rest') as (b' & BI & B1 & ALL & SEEK & FU & FIT).
    rewrite R2 in BI. injection BI as <-.
    split; [exact B1|]. split; [exact ALL|]. split; [exact SEEK|].
    (* where the next block starts *)
    assert (LK : llen (pre ++ [k]) = off + N.of_nat (length (ck_raw k)) + N.of_nat (ck_pad k)).
    { rewrite llen_app. fold off. unfold llen, layout. cbn [flat_map]. rewrite app_nil_r. unfold ck_bytes.
      rewrite app_length, zeros_length. lia. }
    assert (LX : length X = (ck_pad k + length (layout post))%nat).
    { unfold X. rewrite app_length, zeros_length. reflexivity. }
    rewrite Hsize, LD, app_length, LX, LK, FU. unfold full_of.
    destruct (ck_typ k =? typ_log) eqn:TL.
    - assert (PZ : ck_pad k = 0%nat) by (destruct PR as [Z|[NL _]]; [exact Z|lia]).
      rewrite PZ. split; [intros _; lia|]. intros ->. cbn [layout flat_map length]. lia.
    - specialize (FIT eq_refl). specialize (R3 eq_refl).
      destruct (Nat.eqb_spec B 0) as [Z|_]; [lia|].
      destruct PR as [PZ|[_ PB]].
      + (* no padding *)
        rewrite PZ in *. cbn [zeros repeat app] in X.
        destruct post as [|k2 post2].
        * split; [congruence|]. intros _. cbn [layout flat_map length].
          destruct (Nat.ltb (length (ck_raw k)) B && Nat.ltb (length (ck_raw k)) (length (ck_raw k ++ rest'))
                    && negb (nth (length (ck_raw k)) (ck_raw k ++ rest') 0 =? 0)); lia.
        * split; [|congruence]. intros _.
          destruct (PN ltac:(discriminate)) as (t & rest & EL & NZ).
          destruct (Nat.ltb_spec (length (ck_raw k)) B) as [LT|GE]; cbn [andb]; [|lia].
          assert (ER : rest' = t :: firstn (B - length (ck_raw k) - 1) rest).
          { rewrite R3. unfold X. rewrite PZ, EL. cbn [zeros repeat app].
            destruct (B - length (ck_raw k))%nat as [|m] eqn:EM; [lia|]. cbn [firstn].
            replace (S m - 1)%nat with m by lia. reflexivity. }
          rewrite ER. rewrite app_length. cbn [length].
          destruct (Nat.ltb_spec (length (ck_raw k)) (length (ck_raw k) + S (length (firstn (B - length (ck_raw k) - 1) rest))));
            [|lia]. cbn [andb].
          rewrite nth_middle. destruct (N.eqb_spec t 0); [congruence|]. cbn [negb]. lia.
      + (* padded to the block size *)
        assert (PB' : (length (ck_raw k) + ck_pad k = B)%nat) by (unfold B, bsz in *; lia).
        destruct (Nat.eq_dec (ck_pad k) 0) as [PZ|PNZ].
        * assert (Nat.ltb (length (ck_raw k)) B = false) as -> by (apply Nat.ltb_ge; lia).
          cbn [andb]. split; [intros _; lia|]. intros ->. cbn [layout flat_map length]. lia.
        * assert (ER : rest' = zeros (ck_pad k)).
          { rewrite R3. unfold X. replace (B - length (ck_raw k))%nat with (ck_pad k) by lia.
            apply firstn_app_len'. rewrite zeros_length. reflexivity. }
          assert (nth (length (ck_raw k)) (ck_raw k ++ rest') 0 = 0) as ->.
          { rewrite ER. destruct (ck_pad k); [congruence|]. cbn [zeros repeat]. apply nth_middle. }
          change (0 =? 0) with true. cbn [negb]. rewrite andb_false_r.
          split; [intros _; lia|]. intros ->. exfalso. apply PNZ. apply P0. reflexivity.
  Qed.

  Definition strong (k : chunk) : Prop := block_recs_ok (ck_typ k) hs (ck_recs k).

  Lemma next_block_some : forall pre k k2 post2 b t,
    fcs = pre ++ k :: k2 :: post2 -> reads b pre k (k2 :: post2) ->
    ck_typ k2 = ti_typ t -> strong k2 -> ti_off t = llen pre -> ti_br t = b ->
    exists b2, ti_next_block inflate r t =
                 Ok ({| ti_typ := ti_typ t; ti_off := llen (pre ++ [k]); ti_br := b2;
                        ti_pos := br_start b2; ti_done := false |}, true) /\
               reads b2 (pre ++ [k]) k2 post2.
  Proof.
    intros pre k k2 post2 b t E (_ & _ & _ & NX & _) T2 S2 TO TB.
    specialize (NX ltac:(discriminate)).
    assert (E' : fcs = (pre ++ [k]) ++ k2 :: post2) by (rewrite <- app_assoc; exact E).
    destruct (read_chunk (pre ++ [k]) k2 post2 (ti_typ t) E' S2 ltac:(right; symmetry; exact T2)) as (b2 & R2 & RD2).
    exists b2. split; [|exact RD2].
    unfold ti_next_block. rewrite TO, TB, NX, R2. reflexivity.
  Qed.

  Lemma next_block_none : forall pre k post b t,
    fcs = pre ++ k :: post -> reads b pre k post ->
    (post = [] \/ exists k2 post2, post = k2 :: post2 /\ ck_typ k2 <> ti_typ t) -> ti_typ t <> typ_any ->
    ti_off t = llen pre -> ti_br t = b ->
    exists t', ti_next_block inflate r t = Ok (t', false).
  Proof.
    intros pre k post b t E (_ & _ & _ & NX & NE) HP TA TO TB.
    unfold ti_next_block. rewrite TO, TB.
    destruct HP as [->|(k2 & post2 & -> & T2)].
    - rewrite read_none_end by (apply NE; reflexivity). eexists; reflexivity.
    - rewrite (NX ltac:(discriminate)).
      assert (E' : fcs = (pre ++ [k]) ++ k2 :: post2) by (rewrite <- app_assoc; exact E).
      rewrite (read_none_typ _ _ _ _ E' TA T2). eexists; reflexivity.
  Qed.

  Lemma drain_section : forall sec pre k post b p recs_p fuel t acc,
    fcs = pre ++ (k :: sec) ++ post ->
    Forall (fun x => ck_typ x = ti_typ t /\ strong x) sec ->
    (post = [] \/ exists k2 post2, post = k2 :: post2 /\ ck_typ k2 <> ti_typ t) -> ti_typ t <> typ_any ->
    reads b pre k (sec ++ post) -> ti_off t = llen pre -> ti_br t = b -> ti_pos t = p -> ti_done t = false ->
    bi_all (S (length (br_block b))) b p = Some recs_p ->
    (length sec < fuel)%nat ->
    ti_drain inflate fuel r t acc =
    Ok (acc ++ map (fix_index r) (recs_p ++ map (rec_read hs) (concat (map ck_recs sec)))).
  Proof.
    induction sec as [|k2 sec' IH]; intros pre k post b p recs_p fuel t acc E F HP TA RD TO TB TP TD BA FU;
      (destruct fuel as [|f]; [cbn [length] in FU; lia|]); cbn [ti_drain]; rewrite TD, TB, TP;
      rewrite (block_rest_bi_all _ r _ _ _ [] BA); cbn [rev app bind].
    - cbn [app] in E, RD.
      destruct (next_block_none pre k post b t E RD HP TA TO TB) as (t' & NB). rewrite NB. cbn [bind].
      cbn [map concat]. rewrite app_nil_r. reflexivity.
    - cbn [app] in E, RD. pose proof (Forall_inv F) as [T2 S2]. pose proof (Forall_inv_tail F) as F'.
      destruct (next_block_some pre k k2 (sec' ++ post) b t E RD T2 S2 TO TB) as (b2 & NB & RD2).
      rewrite NB. cbn [bind].
      pose proof RD2 as (RA & RB & RC).
      assert (E1 : fcs = (pre ++ [k]) ++ (k2 :: sec') ++ post) by (rewrite <- app_assoc; exact E).
      assert (FU1 : (length sec' < f)%nat) by (cbn [length] in FU; lia).
      set (t1 := {| ti_typ := ti_typ t; ti_off := llen (pre ++ [k]); ti_br := b2;
                    ti_pos := br_start b2; ti_done := false |}).
      rewrite (IH (pre ++ [k]) k2 post b2 (br_start b2) (map (rec_read hs) (ck_recs k2)) f t1
                  (acc ++ map (fix_index r) recs_p) E1 F' HP TA RD2 eq_refl eq_refl eq_refl eq_refl RB FU1).
      cbn [map concat]. rewrite !map_app, <- !app_assoc. reflexivity.
  Qed.

  Lemma chunks_count : forall cs off, chunks_at deflate c mn mx off cs -> (length cs <= length (layout cs))%nat.
  Proof.
    induction cs as [|k t IH]; intros off H; [cbn [length]; lia|].
    cbn [chunks_at] in H. destruct H as [Hk Ht]. apply IH in Ht. apply chunk_at_len in Hk.
    unfold layout in *. cbn [flat_map length]. rewrite app_length. unfold ck_bytes at 1. rewrite app_length. lia.
  Qed.

  Lemma fuel_ok : forall a sec b, fcs = a ++ sec ++ b -> (length sec < blocks_fuel r)%nat.
  Proof.
    intros a sec b E. unfold blocks_fuel. destruct Hsrc as [tail ->]. rewrite app_length.
    pose proof (chunks_count _ _ Hchunks) as L. fold d in L. rewrite E, !app_length in L. lia.
  Qed.

  Definition sorted_recs (l : list record) : Prop :=
    StronglySorted (fun a b => bytes_ltb (rec_key a) (rec_key b) = true) l.

  Lemma strong_of_concat : forall T sec,
    Forall (fun x => ck_typ x = T) sec ->
    Forall (fun x => rec_typ x = T /\ rec_ok hs x) (concat (map ck_recs sec)) ->
    sorted_recs (concat (map ck_recs sec)) ->
    Forall (fun x => ck_typ x = T /\ strong x) sec.
  Proof.
    intros T sec FT FO SO. rewrite Forall_forall in *. intros k Hk. split; [apply FT; exact Hk|].
    unfold strong, block_recs_ok. rewrite (FT k Hk).
    assert (I : In (ck_recs k) (map ck_recs sec)) by (apply in_map; exact Hk).
    split.
    - apply Forall_forall. intros x Hx. apply FO. apply in_concat. exists (ck_recs k). auto.
    - eapply sorted_concat_in; eassumption.
  Qed.

  Definition fixr (l : list record) : list record := map (fix_index r) (map (rec_read hs) l).

  Definition post_not (T : N) (post : list chunk) : Prop :=
    post = [] \/ exists k2 post2, post = k2 :: post2 /\ ck_typ k2 <> T.

  (* iterate a whole section from its first block *)
  Lemma drain_from_start : forall T pre k sec post b,
    fcs = pre ++ (k :: sec) ++ post -> T <> typ_any ->
    Forall (fun x => ck_typ x = T /\ strong x) (k :: sec) -> post_not T post ->
    reads b pre k (sec ++ post) ->
    forall p recs_p, bi_all (S (length (br_block b))) b p = Some recs_p ->
    ti_drain inflate (blocks_fuel r) r
             {| ti_typ := br_typ b; ti_off := llen pre; ti_br := b; ti_pos := p; ti_done := false |} [] =
    Ok (map (fix_index r) (recs_p ++ map (rec_read hs) (concat (map ck_recs sec)))).
  Proof.
    intros T pre k sec post b E TA F HP RD p recs_p BA.
    pose proof (Forall_inv F) as [Tk _]. pose proof (Forall_inv_tail F) as F'.
    assert (TB : br_typ b = T) by (destruct RD as (RT & _); congruence).
    rewrite (drain_section sec pre k post b p recs_p (blocks_fuel r) _ [] E); cbn [ti_typ ti_off ti_br ti_pos ti_done];
      try reflexivity; try assumption; try (rewrite TB; assumption).
    eapply fuel_ok with (a := pre ++ [k]) (b := post). rewrite <- app_assoc. exact E.
  Qed.

  Lemma scan_refs_ok : forall rsec post,
    fcs = rsec ++ post -> Forall (fun x => ck_typ x = typ_ref) rsec -> post_not typ_ref post ->
    Forall (fun x => rec_typ x = typ_ref /\ rec_ok hs x) (concat (map ck_recs rsec)) ->
    sorted_recs (concat (map ck_recs rsec)) ->
    o_offset (rd_ref r) = 0 ->
    o_present (rd_ref r) = (match fcs with k :: _ => ck_typ k =? typ_ref | [] => false end) ->
    scan_refs inflate r = Ok (fixr (concat (map ck_recs rsec))).
  Proof.
    intros rsec post E FT HP FO SO O0 OP.
    unfold scan_refs, seek_ref, seek_record. unfold rd_offsets. change (typ_ref =? typ_ref) with true. cbv iota.
    rewrite OP, E.
    destruct rsec as [|k sec].
    - cbn [app]. destruct HP as [->|(k2 & post2 & -> & T2)]; cbn [negb bind drain_opt]; [reflexivity|].
      destruct (N.eqb_spec (ck_typ k2) typ_ref); [congruence|]. reflexivity.
    - cbn [app]. rewrite (Forall_inv FT). change (typ_ref =? typ_ref) with true. cbn [negb].
      unfold rd_seek. change (bytes_eqb [] (empty_key typ_ref)) with true. cbv iota.
      unfold rd_start, rd_offsets. change (typ_ref =? typ_ref) with true. cbv iota. rewrite O0.
      pose proof (strong_of_concat typ_ref _ FT FO SO) as FS.
      assert (E0 : fcs = [] ++ k :: (sec ++ post)) by exact E.
      destruct (read_chunk [] k (sec ++ post) typ_ref E0 (proj2 (Forall_inv FS)) ltac:(right; symmetry; exact (Forall_inv FT)))
        as (b & NB & RD).
      unfold tab_iter_at. change (llen []) with 0 in NB. rewrite NB. cbn [bind drain_opt].
      pose proof RD as (_ & BA & _).
      assert (E1 : fcs = [] ++ (k :: sec) ++ post) by exact E.
      change 0 with (llen []) at 1.
      rewrite (drain_from_start typ_ref [] k sec post b E1 ltac:(discriminate) FS HP RD _ _ BA).
      unfold fixr. cbn [map concat]. rewrite !map_app. reflexivity.
  Qed.

  Lemma bi_all_head : forall fuel b p x l, bi_all fuel b p = Some (x :: l) ->
    exists p', bi_next b p = Some (Some (x, p')).
  Proof.
    intros fuel b p x l H. destruct fuel as [|f]; [discriminate|]. cbn [bi_all] in H.
    destruct (bi_next b p) as [[[rec p']|]|]; try discriminate.
    destruct (bi_all f b p'); [|discriminate]. injection H as -> _. exists p'. reflexivity.
  Qed.

  Lemma fix_index_key : forall x, rec_key (fix_index r x) = rec_key x.
  Proof. intros [x|l|k o|k o]; reflexivity. Qed.

  Definition keys_gt (want : bytes) (l : list record) : Prop :=
    Forall (fun x => bytes_ltb want (rec_key x) = true) l.

  Lemma seek_recs_all : forall want l, keys_gt want l -> sorted_recs l -> seek_recs want l = l.
  Proof.
    intros want l K _. destruct l as [|x t]; [reflexivity|]. cbn [seek_recs].
    rewrite (bytes_ltb_asym _ _ (Forall_inv K)). reflexivity.
  Qed.

  Lemma seek_linear_first : forall T pre k sec post b want,
    fcs = pre ++ (k :: sec) ++ post -> T <> typ_any ->
    Forall (fun x => ck_typ x = T /\ strong x) (k :: sec) -> post_not T post ->
    reads b pre k (sec ++ post) ->
    keys_gt want (concat (map ck_recs (k :: sec))) ->
    exists p,
      seek_linear inflate r {| ti_typ := br_typ b; ti_off := llen pre; ti_br := b; ti_pos := br_start b;
                               ti_done := false |} want =
      Ok {| ti_typ := br_typ b; ti_off := llen pre; ti_br := b; ti_pos := p; ti_done := false |} /\
      bi_all (S (length (br_block b))) b p = Some (map (rec_read hs) (ck_recs k)).
  Proof.
    intros T pre k sec post b want E TA F HP RD KG.
    pose proof (Forall_inv F) as [Tk Sk]. pose proof (Forall_inv_tail F) as F'.
    assert (TB : br_typ b = T) by (destruct RD as (RT & _); congruence).
    set (t0 := {| ti_typ := br_typ b; ti_off := llen pre; ti_br := b; ti_pos := br_start b; ti_done := false |}).
    assert (LOOP : seek_linear_loop inflate (blocks_fuel r) r t0 want = Ok t0).
    { unfold blocks_fuel. cbn [seek_linear_loop].
      destruct sec as [|k2 sec'].
      - cbn [app] in E, RD.
        destruct (next_block_none pre k post b t0 E RD ltac:(cbn [t0 ti_typ]; rewrite TB; exact HP)
                    ltac:(cbn [t0 ti_typ]; rewrite TB; exact TA) eq_refl eq_refl) as (t' & NB).
        rewrite NB. reflexivity.
      - cbn [app] in E, RD. pose proof (Forall_inv F') as [T2 S2].
        destruct (next_block_some pre k k2 (sec' ++ post) b t0 E RD ltac:(cbn [t0 ti_typ]; congruence) S2 eq_refl eq_refl)
          as (b2 & NB & RD2).
        rewrite NB. cbn [bind negb].
        fold (blocks_fuel r). unfold blocks_fuel at 1. cbn [ti_next ti_done ti_br ti_pos].
        destruct RD2 as (_ & BA2 & _).
        assert (NE2 : ck_recs k2 <> []).
        { destruct (chunk_split (pre ++ [k]) k2 (sec' ++ post)) as (_ & (_ & NE & _) & _); [rewrite <- app_assoc; exact E|exact NE]. }
        destruct (ck_recs k2) as [|x2 l2] eqn:R2; [congruence|]. cbn [map] in BA2.
        destruct (bi_all_head _ _ _ _ _ BA2) as (p' & BN). rewrite BN. cbn [bind].
        rewrite fix_index_key, rec_key_read.
        assert (K2 : bytes_ltb want (rec_key x2) = true).
        { unfold keys_gt in KG. rewrite Forall_forall in KG. apply KG. cbn [map concat].
          apply in_or_app. right. rewrite R2. cbn [app]. left. reflexivity. }
        rewrite K2. reflexivity. }
    unfold seek_linear. rewrite LOOP. cbn [bind t0 ti_br].
    destruct RD as (_ & _ & SK & _). destruct (SK want) as (p & SP & BP).
    rewrite SP. exists p. split; [reflexivity|]. rewrite BP.
    rewrite seek_recs_all; [reflexivity| |apply Sk].
    unfold keys_gt in *. cbn [map concat] in KG. apply Forall_app in KG. apply KG.
  Qed.

  Definition want_log : bytes := log_key_of [] u64_max.

  Lemma scan_logs_none : o_present (rd_log r) = false -> scan_logs inflate r = Ok [].
  Proof.
    intros P. unfold scan_logs, seek_log, seek_record, rd_offsets.
    change (typ_log =? typ_ref) with false. change (typ_log =? typ_log) with true. cbv iota.
    rewrite P. reflexivity.
  Qed.

  Lemma drain_log_section : forall pre k sec post b p,
    fcs = pre ++ (k :: sec) ++ post ->
    Forall (fun x => ck_typ x = typ_log /\ strong x) (k :: sec) -> post_not typ_log post ->
    reads b pre k (sec ++ post) ->
    bi_all (S (length (br_block b))) b p = Some (map (rec_read hs) (ck_recs k)) ->
    drain_opt inflate r (Some {| ti_typ := br_typ b; ti_off := llen pre; ti_br := b; ti_pos := p; ti_done := false |})
    = Ok (fixr (concat (map ck_recs (k :: sec)))).
  Proof.
    intros pre k sec post b p E F HP RD BP. cbn [drain_opt].
    rewrite (drain_from_start typ_log pre k sec post b E ltac:(discriminate) F HP RD _ _ BP).
    unfold fixr. cbn [map concat]. rewrite !map_app. reflexivity.
  Qed.

  Lemma scan_logs_noidx : forall pre k sec post,
    fcs = pre ++ (k :: sec) ++ post ->
    Forall (fun x => ck_typ x = typ_log /\ strong x) (k :: sec) -> post_not typ_log post ->
    keys_gt want_log (concat (map ck_recs (k :: sec))) ->
    o_present (rd_log r) = true -> o_offset (rd_log r) = llen pre -> o_index (rd_log r) = 0 ->
    scan_logs inflate r = Ok (fixr (concat (map ck_recs (k :: sec)))).
  Proof.
    intros pre k sec post E F HP KG OP OO OI.
    unfold scan_logs, seek_log, seek_record, rd_offsets.
    change (typ_log =? typ_ref) with false. change (typ_log =? typ_log) with true. cbv iota.
    rewrite OP. cbn [negb]. unfold rd_seek. fold want_log.
    change (bytes_eqb want_log (empty_key typ_log)) with false. cbv iota.
    unfold rd_offsets. change (typ_log =? typ_ref) with false. change (typ_log =? typ_log) with true. cbv iota.
    rewrite OI. change (0 <? 0) with false. cbv iota.
    unfold rd_start, rd_offsets. change (typ_log =? typ_ref) with false. change (typ_log =? typ_log) with true. cbv iota.
    rewrite OO.
    pose proof (Forall_inv F) as [Tk Sk].
    assert (E0 : fcs = pre ++ k :: (sec ++ post)) by exact E.
    destruct (read_chunk pre k (sec ++ post) typ_log E0 Sk ltac:(right; symmetry; exact Tk)) as (b & NB & RD).
    unfold tab_iter_at. rewrite NB. cbn [bind].
    destruct (seek_linear_first typ_log pre k sec post b want_log E ltac:(discriminate) F HP RD KG) as (p & SL & BP).
    rewrite SL. cbn [bind].
    apply (drain_log_section pre k sec post b p E F HP RD BP).
  Qed.

  (* ---- descending the index of the log section ---- *)

  Inductive dchain (tpre : list chunk) (tk : chunk) (tpost : list chunk)
    : list chunk -> chunk -> list chunk -> Prop :=
  | dc_last : forall pre k post key rest,
      fcs = pre ++ k :: post -> ck_typ k = typ_idx ->
      ck_recs k = RecIdx key (llen tpre) :: rest ->
      fcs = tpre ++ tk :: tpost -> llen tpre < llen pre ->
      strong tk -> keys_gt want_log (ck_recs tk) -> ck_typ tk = typ_log ->
      dchain tpre tk tpost pre k post
  | dc_more : forall pre k post key rest pre' k' post',
      fcs = pre ++ k :: post -> ck_typ k = typ_idx ->
      ck_recs k = RecIdx key (llen pre') :: rest ->
      fcs = pre' ++ k' :: post' -> llen pre' < llen pre ->
      strong k' -> keys_gt want_log (ck_recs k') ->
      dchain tpre tk tpost pre' k' post' ->
      dchain tpre tk tpost pre k post.

  Lemma dchain_typ : forall tpre tk tpost pre k post, dchain tpre tk tpost pre k post -> ck_typ k = typ_idx.
  Proof. intros. destruct H; assumption. Qed.

  Lemma descend_step : forall pre k key rest pre' k' post' f b p,
    ck_recs k = RecIdx key (llen pre') :: rest ->
    fcs = pre' ++ k' :: post' -> llen pre' < llen pre -> strong k' -> keys_gt want_log (ck_recs k') ->
    bi_all (S (length (br_block b))) b p = Some (map (rec_read hs) (ck_recs k)) ->
    exists b' p', reads b' pre' k' post' /\
      bi_all (S (length (br_block b'))) b' p' = Some (map (rec_read hs) (ck_recs k')) /\
      seek_indexed_loop inflate (S f) r
        {| ti_typ := br_typ b; ti_off := llen pre; ti_br := b; ti_pos := p; ti_done := false |} typ_log want_log
      = (let t' := {| ti_typ := br_typ b'; ti_off := llen pre'; ti_br := b'; ti_pos := p'; ti_done := false |} in
         if ck_typ k' =? typ_log then Ok (Some t')
         else if negb (ck_typ k' =? typ_idx) then Err
         else seek_indexed_loop inflate f r t' typ_log want_log).
  Proof.
    intros pre k key rest pre' k' post' f b p Rk E' LT Sk' KG' BP.
    cbn [seek_indexed_loop].
    unfold blocks_fuel at 1. cbn [ti_next ti_done ti_br ti_pos].
    rewrite Rk in BP. cbn [map rec_read] in BP.
    destruct (bi_all_head _ _ _ _ _ BP) as (p1 & BN). rewrite BN. cbn [fix_index ti_off].
    destruct (N.leb_spec (llen pre) (llen pre')) as [L|_]; [lia|].
    destruct (read_chunk pre' k' post' typ_any E' Sk' ltac:(left; reflexivity)) as (b' & NB & RD').
    unfold tab_iter_at. rewrite NB. cbn [bind ti_br].
    pose proof RD' as (TB' & _ & SK' & _). destruct (SK' want_log) as (p' & SP & BP').
    rewrite SP. cbn [ti_set ti_typ ti_off ti_br ti_done].
    rewrite seek_recs_all in BP' by (try exact KG'; apply Sk').
    exists b', p'. split; [exact RD'|]. split; [exact BP'|]. rewrite TB'. reflexivity.
  Qed.

  Lemma descend_ok : forall tpre tk tpost pre k post, dchain tpre tk tpost pre k post ->
    forall fuel b p, reads b pre k post ->
    bi_all (S (length (br_block b))) b p = Some (map (rec_read hs) (ck_recs k)) ->
    (N.to_nat (llen pre) < fuel)%nat ->
    exists tb tp,
      seek_indexed_loop inflate fuel r
        {| ti_typ := br_typ b; ti_off := llen pre; ti_br := b; ti_pos := p; ti_done := false |} typ_log want_log
      = Ok (Some {| ti_typ := br_typ tb; ti_off := llen tpre; ti_br := tb; ti_pos := tp; ti_done := false |}) /\
      reads tb tpre tk tpost /\
      bi_all (S (length (br_block tb))) tb tp = Some (map (rec_read hs) (ck_recs tk)).
  Proof.
    intros tpre tk tpost pre k post D.
    induction D as [pre k post key rest E Tk Rk E' LT Sk' KG' TL
                   |pre k post key rest pre' k' post' E Tk Rk E' LT Sk' KG' D' IH];
      intros fuel b p RD BP FU; (destruct fuel as [|f]; [lia|]).
    - destruct (descend_step pre k key rest tpre tk tpost f b p Rk E' LT Sk' KG' BP)
        as (b' & p' & RD' & BP' & ->).
      cbv zeta. rewrite TL. change (typ_log =? typ_log) with true. cbv iota.
      exists b', p'. auto.
    - destruct (descend_step pre k key rest pre' k' post' f b p Rk E' LT Sk' KG' BP)
        as (b' & p' & RD' & BP' & ->).
      cbv zeta. rewrite (dchain_typ _ _ _ _ _ _ D').
      change (typ_idx =? typ_log) with false. change (typ_idx =? typ_idx) with true. cbn [negb]. cbv iota.
      apply IH; [exact RD'|exact BP'|lia].
  Qed.

  Lemma scan_logs_idx : forall pre k sec post ipre ik isec,
    fcs = pre ++ (k :: sec) ++ post ->
    Forall (fun x => ck_typ x = typ_log /\ strong x) (k :: sec) -> post_not typ_log post ->
    fcs = ipre ++ (ik :: isec) ++ [] ->
    Forall (fun x => ck_typ x = typ_idx /\ strong x) (ik :: isec) ->
    keys_gt want_log (concat (map ck_recs (ik :: isec))) ->
    dchain pre k (sec ++ post) ipre ik (isec ++ []) ->
    o_present (rd_log r) = true -> o_index (rd_log r) = llen ipre -> 0 < llen ipre ->
    scan_logs inflate r = Ok (fixr (concat (map ck_recs (k :: sec)))).
  Proof.
    intros pre k sec post ipre ik isec E F HP EI FI KI D OP OI LI.
    unfold scan_logs, seek_log, seek_record, rd_offsets.
    change (typ_log =? typ_ref) with false. change (typ_log =? typ_log) with true. cbv iota.
    rewrite OP. cbn [negb]. unfold rd_seek. fold want_log.
    change (bytes_eqb want_log (empty_key typ_log)) with false. cbv iota.
    unfold rd_offsets. change (typ_log =? typ_ref) with false. change (typ_log =? typ_log) with true. cbv iota.
    rewrite OI. destruct (N.ltb_spec 0 (llen ipre)) as [_|L]; [|lia].
    unfold seek_indexed, rd_start, rd_offsets.
    change (typ_log =? typ_ref) with false. change (typ_log =? typ_log) with true. cbv iota.
    rewrite OI. destruct (N.eqb_spec (llen ipre) 0) as [Z|_]; [lia|].
    pose proof (Forall_inv FI) as [Tik Sik].
    assert (EI0 : fcs = ipre ++ ik :: (isec ++ [])) by exact EI.
    destruct (read_chunk ipre ik (isec ++ []) typ_idx EI0 Sik ltac:(right; symmetry; exact Tik)) as (b & NB & RD).
    unfold tab_iter_at. rewrite NB. cbn [bind].
    destruct (seek_linear_first typ_idx ipre ik isec [] b want_log EI ltac:(discriminate) FI ltac:(left; reflexivity) RD KI)
      as (p & SL & BP).
    rewrite SL. cbn [bind].
    destruct (descend_ok _ _ _ _ _ _ D (blocks_fuel r) b p RD BP) as (tb & tp & LOOP & TRD & TBP).
    { unfold blocks_fuel. destruct Hsrc as [tail ->]. rewrite app_length. unfold llen.
      fold d. assert (length (layout ipre) <= length d)%nat; [|lia].
      unfold d. rewrite EI, layout_app, app_length. lia. }
    rewrite LOOP. cbn [bind].
    apply (drain_log_section pre k sec post tb tp E F HP TRD TBP).
  Qed.

  (* ---- from the writer's index levels to the reader's descent ---- *)

  Lemma sorted_app_lt : forall A (R : A -> A -> Prop) a b x y,
    StronglySorted R (a ++ b) -> In x a -> In y b -> R x y.
  Proof.
    intros A R a. induction a as [|z a IH]; intros b x y S Ix Iy; [destruct Ix|].
    cbn [app] in S. inversion S as [|? ? S' F]; subst. destruct Ix as [->|Ix].
    - rewrite Forall_forall in F. apply F. apply in_or_app. right. exact Iy.
    - eapply IH; eassumption.
  Qed.

  Lemma last_in : forall A (l : list A) d0, l <> [] -> In (last l d0) l.
  Proof.
    intros A l d0 NE. destruct (snoc_cases _ l) as [->|(l' & x & ->)]; [congruence|].
    rewrite last_last. apply in_or_app. right. left. reflexivity.
  Qed.

  Definition recs_good (T : N) (L : list record) : Prop :=
    Forall (fun x => rec_typ x = T /\ rec_ok hs x) L /\ sorted_recs L /\ keys_gt want_log L.

  Definition key_in (L : list record) (x : record) : Prop := exists y, In y L /\ rec_key y = rec_key x.

  Lemma idx_good : forall T sec off,
    Forall (fun k => ck_recs k <> []) sec -> recs_good T (concat (map ck_recs sec)) ->
    off + llen sec < two64 ->
    recs_good typ_idx (idx_recs (idx_of off sec)) /\
    Forall (key_in (concat (map ck_recs sec))) (idx_recs (idx_of off sec)).
  Proof.
    intros T sec. induction sec as [|k t IH]; intros off NE (GO & GS & GK) LB.
    - cbn [idx_of idx_recs map]. split; [split; [constructor|split; constructor]|constructor].
    - cbn [idx_of idx_recs map fst snd]. fold (idx_recs (idx_of (off + N.of_nat (length (ck_bytes k))) t)).
      cbn [map concat] in GO, GS, GK.
      pose proof (Forall_inv NE) as NEk. pose proof (Forall_inv_tail NE) as NEt.
      apply Forall_app in GO. destruct GO as [GO1 GO2].
      pose proof (sorted_app_inv _ _ _ _ GS) as [GS1 GS2].
      unfold keys_gt in GK. apply Forall_app in GK. destruct GK as [GK1 GK2].
      assert (LL : llen (k :: t) = N.of_nat (length (ck_bytes k)) + llen t).
      { unfold llen, layout. cbn [flat_map]. rewrite app_length. lia. }
      destruct (IH (off + N.of_nat (length (ck_bytes k))) NEt (conj GO2 (conj GS2 GK2)) ltac:(lia)) as ((IO & IS & IK) & II).
      pose proof (last_in _ (ck_recs k) rdummy NEk) as LI.
      set (lk := last (ck_recs k) rdummy) in *.
      rewrite Forall_forall in GO1, GK1.
      split; [split; [|split]|].
      + constructor; [|exact IO]. split; [reflexivity|]. unfold rec_ok. cbn [rec_key].
        split; [apply (GO1 lk LI)|lia].
      + constructor; [exact IS|]. rewrite Forall_forall in II |- *. intros x Hx.
        destruct (II x Hx) as (y & Iy & <-). cbn [rec_key].
        eapply (sorted_app_lt _ _ _ _ lk y GS); [exact LI|exact Iy].
      + constructor; [|exact IK]. cbn [rec_key]. apply (GK1 lk LI).
      + constructor.
        * exists lk. split; [apply in_or_app; left; exact LI|reflexivity].
        * eapply Forall_impl; [|exact II]. intros x (y & Iy & Ey). exists y. split; [apply in_or_app; right; exact Iy|exact Ey].
  Qed.

  Lemma chunks_nonempty : forall cs off, chunks_at deflate c mn mx off cs -> Forall (fun k => ck_recs k <> []) cs.
  Proof.
    induction cs as [|k t IH]; intros off H; [constructor|]. cbn [chunks_at] in H. destruct H as [(_ & NE & _) Ht].
    constructor; [exact NE|eapply IH; exact Ht].
  Qed.

  Lemma llen_pos : forall sec, sec <> [] -> Forall (fun k => In k fcs) sec -> 0 < llen sec.
  Proof.
    intros sec NE F. destruct sec as [|k t]; [congruence|]. pose proof (Forall_inv F) as Ik.
    destruct (in_split _ _ Ik) as (a & b & E). destruct (chunk_split a k b E) as (_ & CA & _).
    apply chunk_at_len in CA. unfold llen, layout. cbn [flat_map]. rewrite app_length. unfold ck_bytes at 1.
    rewrite app_length. lia.
  Qed.

  Lemma levels_descend : forall lv lpre k sec tpre tk tpost T,
    lv <> [] ->
    fcs = lpre ++ (k :: sec) ++ concat lv ->
    lchain (llen lpre) (k :: sec) lv ->
    Forall (fun x => ck_typ x = T) (k :: sec) ->
    recs_good T (concat (map ck_recs (k :: sec))) ->
    llen fcs < two64 ->
    ((T = typ_log /\ tpre = lpre /\ tk = k /\ tpost = sec ++ concat lv) \/
     (T = typ_idx /\ dchain tpre tk tpost lpre k (sec ++ concat lv))) ->
    exists ipre ik isec,
      fcs = ipre ++ (ik :: isec) ++ [] /\ llen ipre = top_off (llen lpre) (k :: sec) lv /\
      Forall (fun x => ck_typ x = typ_idx /\ strong x) (ik :: isec) /\
      keys_gt want_log (concat (map ck_recs (ik :: isec))) /\
      dchain tpre tk tpost ipre ik (isec ++ []).
  Proof.
    induction lv as [|s1 rest IH]; intros lpre k sec tpre tk tpost T NL E LC FT GD LB DN; [congruence|].
    cbn [lchain] in LC. destruct LC as (R1 & T1 & N1 & LC).
    destruct s1 as [|k1 s1']; [congruence|].
    pose proof (chunks_nonempty _ _ Hchunks) as NEall. rewrite E in NEall.
    apply Forall_app in NEall. destruct NEall as [_ NEall]. apply Forall_app in NEall. destruct NEall as [NEsec NErest].
    cbn [concat] in NErest. apply Forall_app in NErest. destruct NErest as [NEs1 _].
    assert (LBsec : llen lpre + llen (k :: sec) < two64).
    { rewrite E, !llen_app in LB. lia. }
    destruct (idx_good T (k :: sec) (llen lpre) NEsec GD LBsec) as (GI & _).
    rewrite <- R1 in GI.
    pose proof GI as (GI1 & GI2 & GI3).
    pose proof (strong_of_concat typ_idx _ T1 GI1 GI2) as FS1.
    pose proof GD as (GD1 & GD2 & GD3).
    pose proof (strong_of_concat T _ FT GD1 GD2) as FS0.
    pose proof (Forall_inv FS0) as [Tk Sk].
    assert (KGk : keys_gt want_log (ck_recs k)).
    { unfold keys_gt in GD3. cbn [map concat] in GD3. apply Forall_app in GD3. apply GD3. }
    assert (Rk1 : exists rest1, ck_recs k1 = RecIdx (rec_key (last (ck_recs k) rdummy)) (llen lpre) :: rest1).
    { cbn [map concat idx_of idx_recs fst snd] in R1. pose proof (Forall_inv NEs1) as NE1. cbv beta in NE1.
      destruct (ck_recs k1) as [|x r1]; [congruence|]. cbn [app] in R1. injection R1 as -> _. eexists; reflexivity. }
    destruct Rk1 as (rest1 & Rk1).
    assert (E1 : fcs = (lpre ++ k :: sec) ++ (k1 :: s1') ++ concat rest).
    { rewrite E. cbn [concat]. rewrite <- !app_assoc. reflexivity. }
    assert (LT : llen lpre < llen (lpre ++ k :: sec)).
    { rewrite llen_app. assert (0 < llen (k :: sec)); [|lia]. apply llen_pos; [discriminate|].
      apply Forall_forall. intros x Hx. rewrite E. apply in_or_app. right. apply in_or_app. left. exact Hx. }
    assert (D1 : dchain tpre tk tpost (lpre ++ k :: sec) k1 (s1' ++ concat rest)).
    { destruct DN as [(-> & -> & -> & ->)|(-> & D0)].
      - eapply dc_last with (key := rec_key (last (ck_recs k) rdummy)) (rest := rest1).
        + exact E1.
        + apply (Forall_inv T1).
        + exact Rk1.
        + exact E.
        + exact LT.
        + exact Sk.
        + exact KGk.
        + exact Tk.
      - eapply dc_more with (key := rec_key (last (ck_recs k) rdummy)) (rest := rest1) (pre' := lpre) (k' := k).
        + exact E1.
        + apply (Forall_inv T1).
        + exact Rk1.
        + exact E.
        + exact LT.
        + exact Sk.
        + exact KGk.
        + exact D0. }
    destruct rest as [|s2 rest'].
    - exists (lpre ++ k :: sec), k1, s1'. cbn [concat] in E1.
      split; [exact E1|]. split; [cbn [top_off]; apply llen_app|]. split; [exact FS1|]. split; [exact GI3|].
      cbn [concat] in D1. exact D1.
    - fold (llen (k :: sec)) in LC. rewrite <- llen_app in LC.
      destruct (IH (lpre ++ k :: sec) k1 s1' tpre tk tpost typ_idx ltac:(discriminate) E1 LC T1 GI LB
                  ltac:(right; split; [reflexivity|exact D1])) as (ipre & ik & isec & A1 & A2 & A3 & A4 & A5).
      exists ipre, ik, isec. split; [exact A1|]. split; [|auto].
      rewrite A2. cbn [top_off]. fold (llen (k :: sec)). rewrite llen_app. reflexivity.
  Qed.

  Lemma dchain_pos : forall tpre tk tpost pre k post, dchain tpre tk tpost pre k post -> 0 < llen pre.
  Proof. intros. destruct H; lia. Qed.

  Lemma scans_ok : forall Lref Llog lo li,
    fcs <> [] ->
    final_ok fcs Lref Llog lo li ->
    Forall (fun x => rec_typ x = typ_ref /\ rec_ok hs x) Lref -> sorted_recs Lref ->
    recs_good typ_log Llog ->
    llen fcs < two64 ->
    o_offset (rd_ref r) = 0 ->
    o_present (rd_ref r) = (match fcs with k :: _ => ck_typ k =? typ_ref | [] => false end) ->
    o_present (rd_log r) = (match fcs with k :: _ => ck_typ k =? typ_log | [] => false end) || (0 <? lo) ->
    o_offset (rd_log r) = lo -> o_index (rd_log r) = li ->
    scan_refs inflate r = Ok (fixr Lref) /\ scan_logs inflate r = Ok (fixr Llog).
  Proof.
    intros Lref Llog lo li NE (rsec & mid & lsec & lv & E & TR & RR & NM & TL & RL & LC & LV & LO & LI)
           GR SR GL LB RO RP LP LOo LIo.
    split.
    - rewrite <- RR.
      apply (scan_refs_ok rsec (mid ++ lsec ++ concat lv)); try assumption; try (rewrite RR; assumption).
      + rewrite E, <- app_assoc. reflexivity.
      + destruct mid as [|m mid'].
        * destruct lsec as [|k sec]; [rewrite (LV eq_refl); left; reflexivity|].
          right. exists k, (sec ++ concat lv). split; [reflexivity|]. rewrite (Forall_inv TL). discriminate.
        * right. exists m, (mid' ++ lsec ++ concat lv). split; [reflexivity|].
          destruct (Forall_inv NM) as [-> | ->]; discriminate.
    - destruct lsec as [|k sec].
      + rewrite (LV eq_refl) in *. cbn [map concat] in RL. subst Llog. subst lo.
        apply scan_logs_none. rewrite LP. change (0 <? 0) with false. rewrite orb_false_r.
        rewrite E. cbn [concat app]. rewrite !app_nil_r.
        destruct rsec as [|k0 rsec'].
        * destruct mid as [|m mid']; [exfalso; apply NE; rewrite E; reflexivity|]. cbn [app].
          destruct (Forall_inv NM) as [-> | ->]; reflexivity.
        * cbn [app]. rewrite (Forall_inv TR). reflexivity.
      + remember (rsec ++ mid) as pre eqn:EPRE.
        assert (E' : fcs = pre ++ (k :: sec) ++ concat lv) by exact E.
        destruct GL as (GL1 & GL2 & GL3). rewrite <- RL in GL1, GL2, GL3.
        pose proof (strong_of_concat typ_log _ TL GL1 GL2) as F.
        assert (HP : post_not typ_log (concat lv)).
        { destruct lv as [|s1 rest]; [left; reflexivity|]. destruct LC as (_ & T1 & N1 & _).
          destruct s1 as [|k1 s1']; [congruence|]. right. exists k1, (s1' ++ concat rest).
          split; [reflexivity|]. rewrite (Forall_inv T1). discriminate. }
        assert (OP : o_present (rd_log r) = true).
        { rewrite LP. destruct pre as [|p0 pre'].
          - rewrite E'. cbn [app]. rewrite (Forall_inv TL). reflexivity.
          - rewrite LO.
            assert (0 < llen (p0 :: pre')); [|destruct (N.ltb_spec 0 (llen (p0 :: pre'))); [apply orb_true_r|lia]].
            apply llen_pos; [discriminate|]. apply Forall_forall. intros x Hx. rewrite E'.
            apply in_or_app. left. exact Hx. }
        rewrite <- RL.
        destruct lv as [|s1 rest] eqn:ELV.
        * apply (scan_logs_noidx pre k sec (concat [])); try assumption.
          -- congruence.
          -- congruence.
        * rewrite <- ELV in *.
          destruct (levels_descend lv pre k sec pre k (sec ++ concat lv) typ_log ltac:(congruence) E' LC TL
                      (conj GL1 (conj GL2 GL3)) LB ltac:(left; auto)) as (ipre & ik & isec & A1 & A2 & A3 & A4 & A5).
          apply (scan_logs_idx pre k sec (concat lv) ipre ik isec); try assumption.
          -- rewrite LIo, LI, A2. rewrite ELV. reflexivity.
          -- eapply dchain_pos. exact A5.
  Qed.
End TableR.
(* ------------------------------------------------------------------ *)
(* L2: what the writer has put out *)
(* ------------------------------------------------------------------ *)
(* L4: the round trip *)

Lemma layout_head : forall deflate c mn mx k rest,
  chunks_at deflate c mn mx 0 (k :: rest) ->
  exists body, layout (k :: rest) = header_bytes c mn mx ++ ck_typ k :: body.
Proof.
  intros deflate c mn mx k rest [(T & NE & (w & A & R) & _) _].
  destruct (bw_finish_head deflate (blk_file_hdr c mn mx 0) w) as (b3 & tl & E & _).
  apply bw_add_all_same in A. destruct A as [A _]. cbn [fresh_bw bw_new bw_typ] in A.
  exists (b3 ++ tl ++ zeros (ck_pad k) ++ layout rest).
  unfold layout. cbn [flat_map]. unfold ck_bytes. rewrite R, E, A.
  change (blk_file_hdr c mn mx 0) with (header_bytes c mn mx).
  rewrite <- !app_assoc. cbn [app]. rewrite <- !app_assoc. reflexivity.
Qed.

Lemma top_off_le : forall lv off sec, top_off off sec lv <= off + llen sec + llen (concat lv).
Proof.
  induction lv as [|s1 rest IH]; intros off sec; cbn [top_off concat].
  - lia.
  - specialize (IH (off + N.of_nat (length (layout sec))) s1). rewrite llen_app. unfold llen in *. lia.
Qed.

Lemma norm_log_key : forall exact l l1, norm_log exact l = Some l1 -> log_key l1 = log_key l.
Proof.
  intros exact l l1 H. unfold norm_log in H. destruct (l_body l) as [b|].
  - destruct (norm_msg exact (lb_msg b)); [|discriminate]. injection H as <-. reflexivity.
  - injection H as <-. reflexivity.
Qed.

Lemma norm_logs_Forall2 : forall exact logs nl, norm_logs exact logs = Some nl ->
  Forall2 (fun l l1 => norm_log exact l = Some l1) logs nl.
Proof.
  intros exact. induction logs as [|l t IH]; intros nl H; cbn [norm_logs] in H.
  - injection H as <-. constructor.
  - destruct (norm_log exact l) as [a|] eqn:E; [|discriminate].
    destruct (norm_logs exact t) as [b|]; [|discriminate]. injection H as <-.
    constructor; [exact E|apply IH; reflexivity].
Qed.

Lemma sorted_map : forall A B (f : A -> B) (R : B -> B -> Prop) l,
  StronglySorted (fun a b => R (f a) (f b)) l -> StronglySorted R (map f l).
Proof.
  intros A B f R l H. induction H as [|a l S IH F]; cbn [map]; constructor; [exact IH|].
  rewrite Forall_map. exact F.
Qed.

Lemma want_log_zeros : want_log = zeros 9.
Proof. reflexivity. Qed.

Section Table.
  Variable deflate : bytes -> bytes.
  Variable inflate : bytes -> inflate_result.
  Hypothesis Hz : zlib_ok deflate inflate.
  (* a truncated zlib stream is reported as truncated (io.ErrUnexpectedEOF) *)
  Hypothesis Htrunc : forall x n, (n < length (deflate x))%nat -> inflate (firstn n (deflate x)) = ITrunc.
  (* deflate never expands a block (< 2^24 bytes) to 2^30 bytes or more *)
  Hypothesis Hbound : forall x, N.of_nat (length x) < 16777216 -> N.of_nat (length (deflate x)) < 1073741824.

  (* documented domain of the writer *)
  Definition cfg_ok (c : config) : Prop :=
    c_block_size c < 16777216 /\ (c_block_size c = 0 \/ 64 <= c_block_size c).
  (* on that domain NewWriter's second guard (block size >= file header + block header) passes *)
  Lemma cfg_ok_not_small : forall c, cfg_ok c -> block_too_small c = false.
  Proof.
    intros c [_ B]. unfold block_too_small, cfg_defaults, header_size. cbn [c_block_size c_sha256].
    apply negb_false_iff, N.leb_le.
    destruct (N.eqb_spec (c_block_size c) 0) as [Z|Z]; destruct (c_sha256 c); lia.
  Qed.
  Definition refs_ok (c : config) (min max : N) (refs : list ref_record) : Prop :=
    Forall (fun r => ref_ok (hash_size c) r /\ r_name r <> [] /\
                     N.of_nat (length (r_name r)) < 2 ^ 60 /\ min <= r_index r <= max) refs /\
    StronglySorted (fun a b => bytes_ltb (r_name a) (r_name b) = true) refs.
  (* the record as it is written (after the message normalisation of AddLog) must be encodable *)
  Definition logs_ok (c : config) (logs : list log_record) : Prop :=
    Forall (fun l => (forall l1, norm_log (c_exact_log c) l = Some l1 -> log_ok (hash_size c) l1) /\
                     N.of_nat (length (log_key l)) < 2 ^ 60) logs /\
    StronglySorted (fun a b => bytes_ltb (log_key a) (log_key b) = true) logs.
  (* what is read back: message normalised (norm_log), absent hashes filled with zeros (fill_log) *)
  Definition read_logs (c : config) (logs : list log_record) : option (list log_record) :=
    option_map (map (fill_log (hash_size c))) (norm_logs (c_exact_log c) logs).

  Theorem table_roundtrip : forall cfg min max refs logs data,
    cfg_ok cfg -> max < two64 -> min <= max -> refs_ok cfg min max refs -> logs_ok cfg logs ->
    N.of_nat (length data) < two64 ->
    write_table deflate cfg min max refs logs = Ok (false, data) ->
    exists r, rd_open data = Ok r /\
      rd_min r = min /\ rd_max r = max /\ rd_sha256 r = c_sha256 cfg /\
      scan_refs inflate r = Ok (map RecRef refs) /\
      exists logs', read_logs cfg logs = Some logs' /\
        scan_logs inflate r = Ok (map RecLog logs').
  Proof.
    intros cfg min max refs logs data [CB1 CB2] Hmax Hmm [RO RS] [LO LS] Hsz H.
    destruct (written deflate cfg min max refs logs data H) as (nl & NL & _ & fcs & st1 & D & NE & CH & LP & FO).
    set (c := cfg_defaults cfg) in *.
    assert (HBS : 64 <= c_block_size c < 16777216).
    { unfold c, cfg_defaults. cbn [c_block_size]. destruct (N.eqb_spec (c_block_size cfg) 0); lia. }
    assert (HINT : (0 < c_restart_interval c)%nat).
    { unfold c, cfg_defaults. cbn [c_restart_interval]. destruct (Nat.eqb_spec (c_restart_interval cfg) 0); lia. }
    destruct fcs as [|k0 rest0]; [congruence|].
    destruct (layout_head _ _ _ _ _ _ CH) as (body & LH).
    set (fcs := k0 :: rest0) in *.
    set (lo := ts_offset (w_log st1)) in *. set (li := ts_index_offset (w_log st1)) in *.
    assert (LF : llen fcs < two64).
    { unfold llen. rewrite D, app_length in Hsz. lia. }
    assert (Hlo : lo <= llen fcs /\ li <= llen fcs).
    { destruct FO as (rsec & mid & lsec & lv & E & _ & _ & _ & _ & _ & _ & _ & ELO & ELI).
      assert (EL : llen fcs = llen (rsec ++ mid) + llen lsec + llen (concat lv)).
      { rewrite E, !llen_app. lia. }
      split.
      - rewrite ELO. destruct lsec; lia.
      - rewrite ELI. pose proof (top_off_le lv (llen (rsec ++ mid)) lsec). destruct lv; lia. }
    pose proof (rd_open_written c min max (ck_typ k0) body
                  (ts_index_offset (w_ref st1))
                  ((ts_offset (w_objs st1) * 32 + N.of_nat (w_idlen st1)) mod two64)
                  (ts_index_offset (w_objs st1)) lo li
                  ltac:(lia) ltac:(lia) Hmax ltac:(apply N.mod_lt; discriminate) ltac:(lia) ltac:(lia)) as OPEN.
    cbv zeta in OPEN. rewrite <- LH in OPEN.
    assert (D' : data = layout fcs ++
                   footer_of c min max (ts_index_offset (w_ref st1))
                     ((ts_offset (w_objs st1) * 32 + N.of_nat (w_idlen st1)) mod two64)
                     (ts_index_offset (w_objs st1)) lo li ++
                   be32 (crc32 (footer_of c min max (ts_index_offset (w_ref st1))
                     ((ts_offset (w_objs st1) * 32 + N.of_nat (w_idlen st1)) mod two64)
                     (ts_index_offset (w_objs st1)) lo li))) by exact D.
    rewrite <- D' in OPEN.
    eexists. split; [exact OPEN|].
    cbn [rd_min rd_max rd_sha256]. split; [reflexivity|]. split; [reflexivity|]. split; [reflexivity|].
    set (r := {| rd_src := data |}) in *.
    set (Lref := map RecRef (map (delta_ref min) refs)) in *.
    set (Llog := map RecLog nl) in *.
    assert (HS : hash_size c = hash_size cfg) by reflexivity.
    (* the records are in the domain of the block codec *)
    assert (GR : Forall (fun x => rec_typ x = typ_ref /\ rec_ok (hash_size c) x) Lref).
    { unfold Lref. rewrite !Forall_map. eapply Forall_impl; [|exact RO]. cbv beta.
      intros x ((I & V) & _ & KL & _). split; [reflexivity|]. split; [exact KL|].
      unfold ref_ok. cbn [delta_ref r_index r_val]. split; [lia|exact V]. }
    assert (SR : sorted_recs Lref).
    { unfold sorted_recs, Lref. apply sorted_map. apply sorted_map. exact RS. }
    pose proof (norm_logs_Forall2 _ _ _ NL) as F2.
    assert (GL : recs_good c typ_log Llog).
    { unfold recs_good, Llog. clear - F2 LO LS HS. revert LO LS.
      induction F2 as [|l l1 logs nl N1 F2 IH]; intros LO LS.
      - cbn [map]. split; [constructor|split; constructor].
      - pose proof (Forall_inv LO) as [OK KL]. pose proof (Forall_inv_tail LO) as LO'.
        inversion LS as [|? ? LS' LF]; subst.
        destruct (IH LO' LS') as (I1 & I2 & I3).
        pose proof (norm_log_key _ _ _ N1) as K1. specialize (OK _ N1).
        cbn [map]. split; [|split].
        + constructor; [|exact I1]. split; [reflexivity|]. split; [cbn [rec_key]; rewrite K1; exact KL|].
          rewrite HS. exact OK.
        + constructor; [exact I2|]. rewrite Forall_map. cbn [rec_key].
          clear - F2 LF K1. induction F2 as [|a a1 t t1 Na F2 IH]; [constructor|].
          pose proof (Forall_inv LF) as A. pose proof (Forall_inv_tail LF) as LF'.
          constructor; [|apply IH; exact LF'].
          rewrite K1, (norm_log_key _ _ _ Na). exact A.
        + constructor; [|exact I3]. cbn [rec_key]. rewrite want_log_zeros. apply bytes_ltb_zeros.
          destruct OK as (NN & _). unfold log_key, log_key_of. rewrite !app_length. unfold be64.
          rewrite be_bytes_length. cbn [length]. destruct (l_name l1); [congruence|cbn [length]; lia]. }
    destruct (scans_ok deflate inflate Hz Htrunc Hbound c min max HBS HINT fcs CH LP r
                ltac:(eexists; exact D)
                ltac:(cbn [r rd_size]; rewrite LH; reflexivity)
                ltac:(reflexivity)
                ltac:(unfold rd_hash_size, hash_size; cbn [r rd_sha256]; reflexivity)
                ltac:(unfold rd_header_size, header_size; cbn [r rd_version]; unfold version_of; destruct (c_sha256 c); reflexivity)
                Lref Llog lo li NE FO GR SR GL LF eq_refl eq_refl eq_refl eq_refl eq_refl) as (SCR & SCL).
    split.
    - rewrite SCR. f_equal. unfold fixr, Lref. rewrite !map_map.
      clear - RO Hmax. induction RO as [|x t ((I & _) & _ & _ & B) RO IH]; [reflexivity|].
      cbn [map]. rewrite IH. f_equal. cbn [rec_read fix_index delta_ref r_name r_index r_val r rd_min].
      f_equal. destruct x as [nm ix v]. cbn [r_name r_index r_val] in *. f_equal.
      replace (ix - min + min) with ix by lia. apply N.mod_small. exact I.
    - exists (map (fill_log (hash_size cfg)) nl). split.
      + unfold read_logs. rewrite NL. reflexivity.
      + rewrite SCL. f_equal. unfold fixr, Llog. rewrite !map_map. apply map_ext. intros a. reflexivity.
  Qed.
End Table.

(* ------------------------------------------------------------------ *)
(* a sufficient condition for [logs_ok] on the records as given to AddLog *)

Lemma trim_right_nl_rev_length : forall r, (length (trim_right_nl_rev r) <= length r)%nat.
Proof.
  induction r as [|b t IH]; cbn [trim_right_nl_rev length]; [lia|].
  destruct (b =? 10); cbn [length]; lia.
Qed.

Lemma norm_msg_length : forall exact m m1, norm_msg exact m = Some m1 -> (length m1 <= length m + 1)%nat.
Proof.
  intros exact m m1 H. unfold norm_msg in H. destruct exact; [injection H as <-; lia|].
  destruct (existsb (N.eqb 10) (trim_right_nl m)); [discriminate|]. injection H as <-.
  rewrite app_length. unfold trim_right_nl. rewrite rev_length.
  pose proof (trim_right_nl_rev_length (rev m)) as L. rewrite rev_length in L. cbn [length]. lia.
Qed.

Lemma log_ok_norm : forall hs exact l l1,
  log_ok hs l ->
  (match l_body l with Some b => N.of_nat (length (lb_msg b)) + 1 < two64 | None => True end) ->
  norm_log exact l = Some l1 -> log_ok hs l1.
Proof.
  intros hs exact l l1 (NN & IX & BO) MS H. unfold norm_log in H.
  destruct (l_body l) as [b|] eqn:EB.
  - destruct (norm_msg exact (lb_msg b)) as [m1|] eqn:EM; [|discriminate]. injection H as <-.
    unfold log_ok. cbn [l_name l_index l_body]. split; [exact NN|]. split; [exact IX|].
    destruct BO as (B1 & B2 & B3 & B4 & B5 & B6 & B7). unfold body_ok. cbn [lb_old lb_new lb_time lb_tz lb_name lb_email lb_msg].
    repeat (split; [assumption|]). apply norm_msg_length in EM. lia.
  - injection H as <-. unfold log_ok. rewrite EB. auto.
Qed.

Lemma logs_ok_plain : forall c logs,
  Forall (fun l => log_ok (hash_size c) l /\
                   (match l_body l with Some b => N.of_nat (length (lb_msg b)) + 1 < two64 | None => True end) /\
                   N.of_nat (length (log_key l)) < 2 ^ 60) logs ->
  StronglySorted (fun a b => bytes_ltb (log_key a) (log_key b) = true) logs ->
  logs_ok c logs.
Proof.
  intros c logs F S. split; [|exact S]. eapply Forall_impl; [|exact F]. cbv beta.
  intros l (A & B & C). split; [|exact C]. intros l1 N1. eapply log_ok_norm; eassumption.
Qed.

(* ------------------------------------------------------------------ *)
(* the hypotheses on the codec are consistent: the "stored" stand-in of
   BlockProofs satisfies them, and the theorem applies to a concrete table *)

Lemma sdeflate_trunc : forall x n, (n < length (sdeflate x))%nat -> sinflate (firstn n (sdeflate x)) = ITrunc.
Proof.
  unfold sdeflate. induction x as [|b t IH]; intros n H.
  - cbn [flat_map app length] in H. destruct n; [reflexivity|lia].
  - cbn [flat_map app length] in *. destruct n as [|[|m]]; [reflexivity|reflexivity|].
    cbn [firstn sinflate]. rewrite IH by lia. reflexivity.
Qed.

Lemma sdeflate_bound : forall x, N.of_nat (length x) < 16777216 -> N.of_nat (length (sdeflate x)) < 1073741824.
Proof.
  intros x H. unfold sdeflate. rewrite app_length. cbn [length].
  assert (L : length (flat_map (fun b => [1; b]) x) = (2 * length x)%nat).
  { induction x as [|b t IH]; [reflexivity|]. cbn [flat_map app length]. rewrite IH; [lia|]. cbn [length] in H. lia. }
  rewrite L. lia.
Qed.

Definition table_roundtrip_stored :=
  table_roundtrip sdeflate sinflate sdeflate_ok sdeflate_trunc sdeflate_bound.


(* ------------------------------------------------------------------ *)
(* the statement holds by computation on concrete tables (stored codec) *)

Definition t_cfg (un : bool) (bs : N) (skip : bool) : config :=
  {| c_unaligned := un; c_block_size := bs; c_skip_index_objects := skip; c_restart_interval := 3;
     c_sha256 := false; c_exact_log := false |}.
Definition t_name (i : nat) : bytes := [114; 47; 48 + N.of_nat (i / 10); 48 + N.of_nat (i mod 10)].
Definition t_refs (n : nat) : list ref_record :=
  map (fun i => {| r_name := t_name i; r_index := 5 + N.of_nat (i mod 3); r_val := RVal (repeat (N.of_nat i) 20) |}) (seq 0 n).
Definition t_body (i : nat) : log_body :=
  {| lb_old := None; lb_new := Some (repeat (N.of_nat i) 20); lb_name := [65]; lb_email := [66; 67];
     lb_time := 1000; lb_tz := 65000; lb_msg := [77; 78] |}.
Definition t_logs (n : nat) : list log_record :=
  map (fun i => {| l_name := t_name i; l_index := 6;
                   l_body := if Nat.eqb (i mod 4) 0 then None else Some (t_body i) |}) (seq 0 n).
Definition t_check (c : config) (nr nl : nat) : bool :=
  let refs := t_refs nr in let logs := t_logs nl in
  match write_table sdeflate c 5 7 refs logs, read_logs c logs with
  | Ok (false, data), Some logs' =>
      match rd_open data with
      | Ok r =>
          match scan_refs sinflate r, scan_logs sinflate r with
          | Ok a, Ok b => records_eqb a (map RecRef refs) && records_eqb b (map RecLog logs')
          | _, _ => false
          end
      | _ => false
      end
  | _, _ => false
  end.

Example t_check_refs : t_check (t_cfg false 128 false) 10 0 = true.
Proof. vm_compute. reflexivity. Qed.
Example t_check_logs : t_check (t_cfg false 128 false) 0 12 = true.
Proof. vm_compute. reflexivity. Qed.
Example t_check_aligned : t_check (t_cfg false 128 false) 30 30 = true.
Proof. vm_compute. reflexivity. Qed.
Example t_check_unaligned : t_check (t_cfg true 100 true) 30 40 = true.
Proof. vm_compute. reflexivity. Qed.

Print Assumptions rd_open_written.
Print Assumptions written.
Print Assumptions table_roundtrip.
Print Assumptions logs_ok_plain.
Print Assumptions table_roundtrip_stored.
