(* The run-time formulation of newBlockReader equals the reference one. *)
From Coq Require Import List NArith Arith Bool Lia ZifyBool ZifyN ZifyNat.
From RT Require Import Model.Bytes Model.RecCodec Model.Block.
Import ListNotations.
Local Open Scope N_scope.

Lemma br_init_eq : forall inflate block hdr tbs hash,
  br_init inflate block hdr tbs hash = br_init_ref inflate block hdr tbs hash.
Proof.
  intros inflate block hdr tbs hash. unfold br_init, br_init_ref, br_finish.
  destruct (Nat.ltb (length block) (hdr + 4)) eqn:E1; [reflexivity|].
  destruct (negb (is_block_type (nth hdr block 0))) eqn:E2; [reflexivity|].
  set (szN := be_value (firstn 3 (skipn (hdr + 1) block)) 0).
  destruct (nth hdr block 0 =? typ_log) eqn:E3.
  - destruct (inflate (skipn (hdr + 4) block)) as [out consumed| |]; try reflexivity.
    set (blk := firstn (hdr + 4) block ++ out).
    destruct (N.eqb_spec (N.of_nat (length blk)) szN) as [Heq|Hne]; cbn [negb].
    + assert (Hs : N.to_nat szN = length blk) by lia. rewrite Hs.
      rewrite Nat.eqb_refl. cbn [negb]. reflexivity.
    + destruct (Nat.eqb_spec (length blk) (N.to_nat szN)) as [H|H]; [exfalso; lia|]. reflexivity.
  - destruct (N.ltb_spec (N.of_nat (length block)) szN) as [Hlt|Hge].
    + assert (Hl : Nat.ltb (length block) (N.to_nat szN) = true) by (apply Nat.ltb_lt; lia).
      destruct (Nat.eqb tbs 0); [cbn [orb]; rewrite Hl; reflexivity|].
      destruct (Nat.ltb (N.to_nat szN) tbs && Nat.ltb (N.to_nat szN) (length block)
                && negb (nth (N.to_nat szN) block 0 =? 0)); rewrite Hl; reflexivity.
    + destruct (Nat.eqb tbs 0); [reflexivity|].
      destruct (Nat.ltb (N.to_nat szN) tbs && Nat.ltb (N.to_nat szN) (length block)
                && negb (nth (N.to_nat szN) block 0 =? 0)); reflexivity.
Qed.
