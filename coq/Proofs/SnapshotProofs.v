(* C10 / C06 for every schedule of the stack protocol model (Model/StackProto.v):
   a handle's view is one committed snapshot, views of a handle only grow, no
   read fails, what a handle holds after a call is a version tables.list had.

   History.  An earlier version of this file refuted the statements for the
   then model / predicate (R1: a Read without a stack counted as a failed read;
   R2: an Open whose reload gave up returned the empty stack with ROk; R3:
   c10_loop kept the pending transaction of a failed Add).  R2 was repaired in
   the Go code and the model ([open_reload]: an Open now loads a version that
   was current during the call, or fails), R1 and R3 in the predicate ([cx_clr]
   at every ERet, RNoStack tolerated).  With these the statements hold for every
   script (all api operations: also two-table additions, range compactions and
   Clean), which is what is proved here.

   Structure
     1. lists, is_perm_prefix
     2. a second judgement [okv] over the programs (next to StackInvProofs.ok):
        which contents of tables.list a call has read, and that the stack it
        returns carries the names of one of them or of the stack it started with
     3. the state of c10_loop along the events of a step
     4. the strengthened world invariant [XInv] on top of StackInvProofs.WInv
        (the ghost is c10_loop's own state): every recorded version of
        tables.list holds, flattened through the ghost table map [G], a prefix
        of the commit sequence; every handle's stack, and every list a running
        call has read, is a recorded version not shorter than what the handle's
        last read showed ([vbound]); pending Adds agree with c04_loop's;
        preservation by the start of a call, a file-system operation, the end
        of a call ([x_call], [x_req], [x_finish]) with the loop equations;
        [step_x], [crash_x], [run_x]
     5. the initial world, the theorems *)
From Coq Require Import List NArith Arith Bool Lia.
From RT Require Import Model.StackTrace Model.Segments Model.StackProto Proofs.StackInvProofs.
Import ListNotations.
Local Open Scope nat_scope.

(* ------------------------------------------------------------------ *)
(* 1. lists                                                            *)
(* ------------------------------------------------------------------ *)

Definition prefix (a b : list nat) : Prop := exists c, b = a ++ c.

Lemma prefix_refl : forall a, prefix a a.
Proof. intro a. exists []. rewrite app_nil_r. reflexivity. Qed.

Lemma prefix_app : forall a b c, prefix a b -> prefix a (b ++ c).
Proof. intros a b c [d ->]. exists (d ++ c). rewrite app_assoc. reflexivity. Qed.

Lemma prefix_nil : forall b, prefix [] b.
Proof. intro b. exists b. reflexivity. Qed.

Lemma prefix_length : forall a b, prefix a b -> length a <= length b.
Proof. intros a b [c ->]. rewrite app_length. lia. Qed.

Lemma prefix_firstn : forall a b, prefix a b -> a = firstn (length a) b.
Proof.
  intros a b [c ->]. rewrite firstn_app, Nat.sub_diag, firstn_all. cbn. rewrite app_nil_r. reflexivity.
Qed.

Lemma forallb_mem_self : forall l, forallb (fun x => mem_nat x l) l = true.
Proof.
  intro l. apply forallb_forall. intros x Hx. apply mem_nat_In. exact Hx.
Qed.

Lemma ipp_found : forall commits n d k0 fuel,
  k0 + d = n -> n <= length commits -> d < fuel ->
  is_perm_prefix fuel (firstn n commits) commits k0 = Some n.
Proof.
  intros commits n. induction d as [|d IH]; intros k0 fuel Hk Hn Hf.
  - destruct fuel as [|f]; [lia|]. cbn [is_perm_prefix]. cbv zeta.
    assert (k0 = n) by lia. subst k0.
    rewrite Nat.eqb_refl, forallb_mem_self. reflexivity.
  - destruct fuel as [|f]; [lia|]. cbn [is_perm_prefix]. cbv zeta.
    rewrite !firstn_length_le by lia.
    destruct (Nat.eqb_spec n k0) as [E|_]; [lia|]. cbn [andb].
    destruct (Nat.ltb_spec k0 (length commits)) as [_|E]; [|lia].
    apply IH; lia.
Qed.

Lemma existsb_eqb_In : forall v vs, existsb (list_nat_eqb v) vs = true <-> In v vs.
Proof.
  intros v vs. rewrite existsb_exists. split.
  - intros [x [Hx E]]. apply list_nat_eqb_eq in E. subst. exact Hx.
  - intro H. exists v. split; [exact H|apply list_nat_eqb_refl].
Qed.

Lemma assoc_cons_eq : forall h v l, assoc h ((h, v) :: l) = Some v.
Proof. intros. cbn. rewrite Nat.eqb_refl. reflexivity. Qed.
Lemma assoc_cons_neq : forall i h (v : nat) l, i <> h -> assoc i ((h, v) :: l) = assoc i l.
Proof. intros. cbn. destruct (Nat.eqb_spec i h); [congruence|reflexivity]. Qed.

Lemma assoc_unassoc_cong : forall l l' h i,
  assoc i l = assoc i l' -> assoc i (unassoc h l) = assoc i (unassoc h l').
Proof.
  intros l l' h i E. destruct (Nat.eq_dec i h) as [->|Hne].
  - rewrite !assoc_unassoc_eq. reflexivity.
  - rewrite !assoc_unassoc_neq by exact Hne. exact E.
Qed.

Lemma apiop_eq_ARead : forall o, o = ARead \/ o <> ARead.
Proof. destruct o; try (right; discriminate). left. reflexivity. Qed.

(* ------------------------------------------------------------------ *)
(* 2. what a call reads and what it returns                            *)
(* ------------------------------------------------------------------ *)

Definition rd_step (q : req) (rs : resp) (rd : list (list nat)) : list (list nat) :=
  match q with QReadList => lnames rs :: rd | _ => rd end.

(* [rd]: the contents of tables.list read so far (and the names of the stack the call started with) *)
Fixpoint okv {A} (rd : list (list nat)) (p : prog A) (Q : list (list nat) -> A -> Prop) : Prop :=
  match p with
  | Ret a => Q rd a
  | Op q k => forall rs, okv (rd_step q rs rd) (k rs) Q
  end.

Lemma okv_bind : forall {A B} (p : prog A) (f : A -> prog B) rd Q Q',
  okv rd p Q -> (forall rd' a, Q rd' a -> okv rd' (f a) Q') -> okv rd (pbind p f) Q'.
Proof.
  induction p as [a|q k IH]; intros f rd Q Q' H Hf; cbn [pbind okv] in *.
  - apply Hf. exact H.
  - intros rs. eapply IH; eauto.
Qed.

Lemma okv_conseq : forall {A} (p : prog A) rd (Q Q' : list (list nat) -> A -> Prop),
  okv rd p Q -> (forall rd' a, Q rd' a -> Q' rd' a) -> okv rd p Q'.
Proof.
  induction p as [a|q k IH]; intros rd Q Q' H HQ; cbn [okv] in *.
  - apply HQ. exact H.
  - intros rs. eapply IH; eauto.
Qed.

Lemma okv_op : forall {B} q (f : resp -> prog B) rd Q,
  (forall rs, okv (rd_step q rs rd) (f rs) Q) -> okv rd (pbind (op q) f) Q.
Proof. intros. cbn [pbind op okv]. assumption. Qed.

Ltac vop := apply okv_op.

Lemma remove_tabs_okv : forall l rd, okv rd (remove_tabs l) (fun rd' _ => rd' = rd).
Proof.
  induction l as [|n t IH]; intros rd; cbn [remove_tabs]; [reflexivity|].
  vop. intros rs. cbn [rd_step]. apply IH.
Qed.

Lemma remove_tlocks_okv : forall l rd, okv rd (remove_tlocks l) (fun rd' _ => rd' = rd).
Proof.
  induction l as [|n t IH]; intros rd; cbn [remove_tlocks]; [reflexivity|].
  vop. intros rs. cbn [rd_step]. apply IH.
Qed.

Lemma remove_any_okv : forall fuel cands rd, okv rd (remove_any fuel cands) (fun rd' _ => rd' = rd).
Proof.
  induction fuel as [|f IH]; intros cands rd.
  - destruct cands; reflexivity.
  - destruct cands as [|c cands]; [reflexivity|]. cbn [remove_any].
    vop. intros rs. cbn [rd_step]. destruct rs; try reflexivity. apply IH.
Qed.

Lemma lock_tabs_okv : forall todo taken rd, okv rd (lock_tabs todo taken) (fun rd' _ => rd' = rd).
Proof.
  induction todo as [|n t IH]; intros taken rd; cbn [lock_tabs]; [reflexivity|].
  vop. intros rs. cbn [rd_step].
  destruct rs; try (eapply okv_bind; [apply remove_tlocks_okv|intros rd' _ ->; reflexivity]).
  apply IH.
Qed.

Lemma mnames_rev : forall m : mem, mnames (rev m) = rev (mnames m).
Proof. intro m. unfold mnames. apply map_rev. Qed.

Lemma open_all_okv : forall reuse old names acc rd,
  okv rd (open_all reuse old names acc)
      (fun rd' o => rd' = rd /\ forall m, o = Some m -> mnames m = rev (mnames acc) ++ names).
Proof.
  intros reuse old. induction names as [|n t IH]; intros acc rd; cbn [open_all].
  - cbn [okv]. split; [reflexivity|]. intros m E. inversion E; subst. rewrite mnames_rev, app_nil_r. reflexivity.
  - assert (Hstep : forall f, okv rd (open_all reuse old t ((n, f) :: acc))
              (fun rd' o => rd' = rd /\ forall m, o = Some m -> mnames m = rev (mnames acc) ++ n :: t)).
    { intro f. eapply okv_conseq; [apply IH|]. cbn beta. intros rd' o [E H]. split; [exact E|].
      intros m Em. rewrite (H m Em). cbn [mnames map fst rev]. rewrite <- app_assoc. reflexivity. }
    destruct (if reuse then lookup n old else None) as [f|]; [apply Hstep|].
    vop. intros rs. cbn [rd_step]. destruct rs; try (cbn [okv]; split; [reflexivity|intros; discriminate]).
    apply Hstep.
Qed.

Definition Pv {B} (rd : list (list nat)) : list (list nat) -> mem * B -> Prop :=
  fun rd' res => incl rd rd' /\ In (mnames (fst res)) rd'.

Lemma reload_okv : forall a hh reuse old rd, In (mnames old) rd ->
  okv rd (reload a hh reuse old) (Pv rd).
Proof.
  induction a as [|a IH]; intros hh reuse old rd Hold; cbn [reload].
  - cbn [okv]. split; [apply incl_refl|exact Hold].
  - vop. intros rs. cbn [rd_step].
    change (match rs with SNames (Some l) => l | _ => [] end) with (lnames rs).
    eapply okv_bind; [apply open_all_okv|]. cbn beta. intros rd1 o [-> Ho].
    destruct o as [m|].
    + destruct (same_hash hh m).
      2:{ cbn [okv]. split; [apply incl_tl, incl_refl|]. cbn [fst]. right. exact Hold. }
      eapply okv_bind; [apply remove_any_okv|]. cbn beta. intros rd2 _ ->.
      cbn [okv]. split; [apply incl_tl, incl_refl|]. cbn [fst].
      rewrite (Ho m eq_refl). cbn. left. reflexivity.
    + vop. intros rs2. cbn [rd_step].
      change (match rs2 with SNames (Some l) => l | _ => [] end) with (lnames rs2).
      destruct (names_eqb (lnames rs2) (lnames rs)).
      * cbn [okv]. split; [apply incl_tl, incl_tl, incl_refl|]. cbn [fst]. right. right. exact Hold.
      * eapply okv_conseq; [apply IH; right; right; exact Hold|].
        cbn beta. intros rd' res [H1 H2]. split; [|exact H2].
        intros x Hx. apply H1. right. right. exact Hx.
Qed.

(* the first load returns the names of a list it has read, or nothing *)
Lemma open_reload_okv : forall a hh rd,
  okv rd (open_reload a hh) (fun rd' res => forall m, res = Some m -> In (mnames m) rd').
Proof.
  induction a as [|a IH]; intros hh rd; cbn [open_reload].
  - cbn [okv]. intros m E. discriminate E.
  - vop. intros rs. cbn [rd_step].
    change (match rs with SNames (Some l) => l | _ => [] end) with (lnames rs).
    eapply okv_bind; [apply open_all_okv|]. cbn beta. intros rd1 o [-> Ho].
    destruct o as [m|].
    + destruct (same_hash hh m); cbn [okv]; intros m' E; [|discriminate E].
      inversion E; subst m'. rewrite (Ho m eq_refl). cbn. left. reflexivity.
    + vop. intros rs2. cbn [rd_step].
      destruct (names_eqb _ _); [cbn [okv]; intros m E; discriminate E|apply IH].
Qed.

Lemma compact_range_okv : forall att hh first last expiry m rd, In (mnames m) rd ->
  okv rd (compact_range att hh first last expiry m) (Pv rd).
Proof.
  intros att hh first last expiry m rd Hm. unfold compact_range.
  assert (Hdone : forall rd' (b : bool), incl rd rd' -> Pv rd rd' (m, b)).
  { intros rd' b H. split; [exact H|]. apply H. exact Hm. }
  destruct (Nat.leb last first && negb expiry); [cbn [okv]; apply Hdone, incl_refl|].
  vop. intros r. cbn [rd_step].
  destruct r; try (cbn [okv]; apply Hdone, incl_refl).
  vop. intros c. cbn [rd_step].
  change (match c with SNames (Some l) => l | _ => [] end) with (lnames c).
  set (rd1 := lnames c :: rd). assert (I1 : incl rd rd1) by apply incl_tl, incl_refl.
  destruct (negb (names_eqb (lnames c) (mnames m))).
  { vop. intros r1. cbn [rd_step okv]. apply Hdone, I1. }
  eapply okv_bind; [apply lock_tabs_okv|]. cbn beta. intros rd' lkr ->.
  destruct lkr as [locks|].
  2:{ vop. intros r1. cbn [rd_step okv]. apply Hdone, I1. }
  vop. intros r3. cbn [rd_step].
  vop. intros t. cbn [rd_step].
  destruct t; try (eapply okv_bind; [apply remove_tlocks_okv|]; cbn beta; intros ? _ ->; cbn [okv]; apply Hdone, I1).
  vop. intros r5. cbn [rd_step].
  destruct r5;
    try (vop; intros ?; cbn [rd_step]; eapply okv_bind; [apply remove_tlocks_okv|]; cbn beta; intros ? _ ->;
         cbn [okv]; apply Hdone, I1).
  vop. intros c2. cbn [rd_step].
  change (match c2 with SNames (Some l) => l | _ => [] end) with (lnames c2).
  set (rd2 := lnames c2 :: rd1). assert (I2 : incl rd rd2) by (apply incl_tl; exact I1).
  destruct (find_run _ _ 0) as [start|].
  - vop. intros nw. cbn [rd_step].
    destruct nw;
      try (eapply okv_bind; [apply remove_tlocks_okv|]; cbn beta; intros ? _ ->; vop; intros ?; cbn [rd_step okv];
           apply Hdone, I2).
    vop. intros r8. cbn [rd_step].
    eapply okv_bind; [apply remove_tabs_okv|]. cbn beta. intros ? _ ->.
    eapply okv_bind; [apply reload_okv; apply I2; exact Hm|]. cbn beta. intros rd3 rl [I3 H3].
    eapply okv_bind; [apply remove_tlocks_okv|]. cbn beta. intros ? _ ->.
    cbn [okv]. split; [|exact H3]. intros x Hx. apply I3, I2. exact Hx.
  - vop. intros r7. cbn [rd_step].
    eapply okv_bind; [apply remove_tlocks_okv|]. cbn beta. intros ? _ ->.
    vop. intros r9. cbn [rd_step okv]. apply Hdone, I2.
Qed.

Lemma auto_compact_okv : forall att hh m rd, In (mnames m) rd ->
  okv rd (auto_compact att hh m) (fun rd' m' => incl rd rd' /\ In (mnames m') rd').
Proof.
  intros att hh m rd Hm. unfold auto_compact.
  destruct (suggest _) as [[s e]|].
  - eapply okv_bind; [apply compact_range_okv; exact Hm|]. cbn beta. intros rd' r H. cbn [okv]. exact H.
  - cbn [okv]. split; [apply incl_refl|exact Hm].
Qed.

Lemma add_okv : forall att hh kind auto m rd, In (mnames m) rd ->
  okv rd (add att hh kind auto m) (Pv rd).
Proof.
  intros att hh kind auto m rd Hm. unfold add.
  assert (Hdone : forall rd' (r : apires), incl rd rd' -> Pv rd rd' (m, r)).
  { intros rd' b H. split; [exact H|]. apply H. exact Hm. }
  assert (Hfail : forall rd', incl rd rd' ->
            okv rd' (do! rl := reload att hh true m in Ret (fst rl, RLockFailure)) (Pv rd)).
  { intros rd' I. eapply okv_bind; [apply reload_okv; apply I; exact Hm|]. cbn beta. intros rd2 rl [I2 H2].
    cbn [okv]. split; [|exact H2]. intros x Hx. apply I2, I. exact Hx. }
  vop. intros r. cbn [rd_step].
  destruct r; try (apply Hfail, incl_refl).
  vop. intros c. cbn [rd_step].
  change (match c with SNames (Some l) => l | _ => [] end) with (lnames c).
  set (rd1 := lnames c :: rd). assert (I1 : incl rd rd1) by apply incl_tl, incl_refl.
  destruct (negb (names_eqb (lnames c) (mnames m))).
  { vop. intros r1. cbn [rd_step]. apply Hfail, I1. }
  vop. intros t. cbn [rd_step].
  destruct t; try (vop; intros ?; cbn [rd_step okv]; apply Hdone, I1).
  destruct kind as [tx| |].
  - vop. intros r5. cbn [rd_step].
    vop. intros nw. cbn [rd_step].
    destruct nw; try (vop; intros ?; cbn [rd_step okv]; apply Hdone, I1).
    vop. intros r7. cbn [rd_step].
    vop. intros r8. cbn [rd_step].
    eapply okv_bind; [apply reload_okv; apply I1; exact Hm|]. cbn beta. intros rd2 rl [I2 H2].
    destruct auto.
    + eapply okv_bind; [apply auto_compact_okv; exact H2|]. cbn beta. intros rd3 m' [I3 H3].
      cbn [okv]. split; [|exact H3]. intros x Hx. apply I3, I2, I1. exact Hx.
    + cbn [okv]. split; [|exact H2]. intros x Hx. apply I2, I1. exact Hx.
  - vop. intros r5. cbn [rd_step].
    vop. intros r6. cbn [rd_step].
    destruct auto.
    + eapply okv_bind; [apply auto_compact_okv; apply I1; exact Hm|]. cbn beta. intros rd3 m' [I3 H3].
      cbn [okv]. split; [|exact H3]. intros x Hx. apply I3, I1. exact Hx.
    + cbn [okv]. apply Hdone, I1.
  - vop. intros r5. cbn [rd_step].
    vop. intros r6. cbn [rd_step okv]. apply Hdone, I1.
Qed.

Lemma add_multi_okv : forall att hh tx same m rd, In (mnames m) rd ->
  okv rd (add_multi att hh tx same m) (Pv rd).
Proof.
  intros att hh tx same m rd Hm. unfold add_multi.
  assert (Hdone : forall rd' (r : apires), incl rd rd' -> Pv rd rd' (m, r)).
  { intros rd' b H. split; [exact H|]. apply H. exact Hm. }
  vop. intros r. cbn [rd_step].
  destruct r; try (cbn [okv]; apply Hdone, incl_refl).
  vop. intros c. cbn [rd_step].
  change (match c with SNames (Some l) => l | _ => [] end) with (lnames c).
  set (rd1 := lnames c :: rd). assert (I1 : incl rd rd1) by apply incl_tl, incl_refl.
  destruct (negb (names_eqb (lnames c) (mnames m))).
  { vop. intros r1. cbn [rd_step okv]. apply Hdone, I1. }
  vop. intros t. cbn [rd_step].
  destruct t; try (vop; intros ?; cbn [rd_step okv]; apply Hdone, I1).
  vop. intros r5. cbn [rd_step].
  vop. intros nw. cbn [rd_step].
  destruct nw; try (vop; intros ?; cbn [rd_step okv]; apply Hdone, I1).
  vop. intros r7. cbn [rd_step].
  vop. intros t2. cbn [rd_step].
  destruct t2; try (vop; intros ?; cbn [rd_step]; vop; intros ?; cbn [rd_step okv]; apply Hdone, I1).
  destruct same.
  - vop. intros r8. cbn [rd_step]. vop. intros r9. cbn [rd_step]. vop. intros r10. cbn [rd_step okv].
    apply Hdone, I1.
  - vop. intros r8. cbn [rd_step]. vop. intros r9. cbn [rd_step]. vop. intros nw2. cbn [rd_step].
    destruct nw2; try (vop; intros ?; cbn [rd_step]; vop; intros ?; cbn [rd_step okv]; apply Hdone, I1).
    vop. intros r11. cbn [rd_step]. vop. intros r12. cbn [rd_step].
    eapply okv_bind; [apply reload_okv; apply I1; exact Hm|]. cbn beta. intros rd2 rl [I2 H2].
    cbn [okv]. split; [|exact H2]. intros x Hx. apply I2, I1. exact Hx.
Qed.

Lemma clean_loop_okv : forall fuel cands mx rd, okv rd (clean_loop fuel cands mx) (fun rd' _ => rd' = rd).
Proof.
  induction fuel as [|f IH]; intros cands mx rd.
  - destruct cands; reflexivity.
  - destruct cands as [|c cands]; [reflexivity|]. cbn [clean_loop].
    vop. intros rs. cbn [rd_step]. destruct rs as [| | | | | | | |n o|]; try reflexivity.
    destruct o as [tf|]; [|apply IH].
    destruct (tf_max tf <=? mx)%N; [|apply IH].
    vop. intros r2. cbn [rd_step]. apply IH.
Qed.

Lemma clean_okv : forall att hh m rd, In (mnames m) rd ->
  okv rd (clean att hh m) (Pv rd).
Proof.
  intros att hh m rd Hm. unfold clean.
  assert (Hdone : forall rd' (r : apires), incl rd rd' -> Pv rd rd' (m, r)).
  { intros rd' b H. split; [exact H|]. apply H. exact Hm. }
  vop. intros r. cbn [rd_step].
  destruct r; try (cbn [okv]; apply Hdone, incl_refl).
  vop. intros c. cbn [rd_step].
  change (match c with SNames (Some l) => l | _ => [] end) with (lnames c).
  set (rd1 := lnames c :: rd). assert (I1 : incl rd rd1) by apply incl_tl, incl_refl.
  destruct (negb (names_eqb (lnames c) (mnames m))).
  { vop. intros r1. cbn [rd_step okv]. apply Hdone, I1. }
  eapply okv_bind; [apply reload_okv; apply I1; exact Hm|]. cbn beta. intros rd2 rl [I2 H2].
  assert (Hfin : forall (r : apires), Pv rd rd2 (fst rl, r)).
  { intro r. split; [|exact H2]. intros x Hx. apply I2, I1. exact Hx. }
  destruct (snd rl).
  - vop. intros dres. cbn [rd_step].
    destruct (fst rl) as [|x m'].
    + vop. intros r3. cbn [rd_step okv]. apply Hfin.
    + eapply okv_bind; [apply clean_loop_okv|]. cbn beta. intros rd3 _ ->.
      vop. intros r3. cbn [rd_step okv]. apply Hfin.
  - vop. intros r3. cbn [rd_step okv]. apply Hfin.
  - vop. intros r3. cbn [rd_step okv]. apply Hfin.
Qed.

Lemma close_okv : forall m rd, okv rd (close m) (fun _ _ => True).
Proof.
  intros m rd. unfold close. vop. intros rs. cbn [rd_step].
  destruct (match rs with SNames (Some l) => l | _ => [] end) as [|a t]; [exact I|].
  eapply okv_conseq; [apply remove_tabs_okv|]. intros; exact I.
Qed.

(* ---------------- call_prog ---------------- *)

Definition txsm (m : mem) : list nat := flat_map (fun x => tf_txs (snd x)) m.

Definition rd_init (o : apiop) (m : option mem) : list (list nat) :=
  match o with
  | AOpen => []
  | _ => match m with Some mm => [mnames mm] | None => [] end
  end.

Definition Qv (o : apiop) (m0 : option mem) (rd : list (list nat)) (res : option mem * apires) : Prop :=
  (forall mm, fst res = Some mm -> In (mnames mm) rd) /\
  (o = ARead -> match m0 with
                | Some mm => res = (Some mm, RView (txsm mm) (hd_error (rev (txsm mm))))
                | None => res = (None, RNoStack)
                end).

Lemma call_prog_okv : forall att hh o m, okv (rd_init o m) (call_prog att hh o m) (Qv o m).
Proof.
  intros att hh o m.
  assert (Hnone : forall r, o <> ARead -> Qv o m (rd_init o m) (None, r)).
  { intros r H2. split; [intros; discriminate|]. intro; congruence. }
  assert (Hsame : forall mm r, o <> ARead -> o <> AOpen -> m = Some mm -> Qv o m (rd_init o m) (Some mm, r)).
  { intros mm r H1 H2 ->. split; [|intro; congruence]. cbn [fst]. intros x E. inversion E; subst.
    destruct o; try congruence; left; reflexivity. }
  assert (Hwrap : forall (B : Type) mm (p : prog (mem * B)) (g : mem * B -> apires),
            o <> ARead -> o <> AOpen -> m = Some mm -> okv [mnames mm] p (Pv [mnames mm]) ->
            okv (rd_init o m) (wrap p (fun r => (Some (fst r), g r))) (Qv o m)).
  { intros B mm p g H1 H2 -> Hp. replace (rd_init o (Some mm)) with [mnames mm] by (destruct o; try congruence; reflexivity).
    unfold wrap. eapply okv_bind; [exact Hp|]. cbn beta. intros rd' res [I1 I2]. cbn [okv].
    split; [|intro; congruence]. cbn [fst]. intros x E. inversion E; subst. exact I2. }
  destruct o; cbn [call_prog].
  - (* Open *)
    unfold wrap. eapply okv_bind; [apply open_reload_okv|]. cbn beta. intros rd' [mm|] H; cbn [okv].
    + split; [|discriminate]. cbn [fst]. intros x E. inversion E; subst. apply H. reflexivity.
    + split; [intros; discriminate|discriminate].
  - (* Add *)
    destruct m as [mm|]; [|apply Hnone; discriminate].
    apply (Hwrap _ mm _ (fun r => snd r)); try discriminate; [reflexivity|]. apply add_okv. left. reflexivity.
  - (* AddMulti *)
    destruct m as [mm|]; [|apply Hnone; discriminate].
    apply (Hwrap _ mm _ (fun r => snd r)); try discriminate; [reflexivity|]. apply add_multi_okv. left. reflexivity.
  - (* AddEmpty *)
    destruct m as [mm|]; [|apply Hnone; discriminate].
    apply (Hwrap _ mm _ (fun r => snd r)); try discriminate; [reflexivity|]. apply add_okv. left. reflexivity.
  - (* AddBad *)
    destruct m as [mm|]; [|apply Hnone; discriminate].
    apply (Hwrap _ mm _ (fun r => snd r)); try discriminate; [reflexivity|]. apply add_okv. left. reflexivity.
  - (* CompactAll *)
    destruct m as [mm|]; [|apply Hnone; discriminate].
    destruct mm as [|x mm]; [cbn [okv]; apply Hsame; try discriminate; reflexivity|].
    apply (Hwrap _ (x :: mm) _ (fun _ => ROk)); try discriminate; [reflexivity|].
    apply compact_range_okv. left. reflexivity.
  - (* Compact *)
    destruct m as [mm|]; [|apply Hnone; discriminate].
    destruct (Nat.ltb last (length mm) && Nat.leb first last); [|cbn [okv]; apply Hsame; try discriminate; reflexivity].
    apply (Hwrap _ mm _ (fun _ => ROk)); try discriminate; [reflexivity|].
    apply compact_range_okv. left. reflexivity.
  - (* Expire *)
    destruct m as [mm|]; [|apply Hnone; discriminate].
    destruct mm as [|x mm]; [cbn [okv]; apply Hsame; try discriminate; reflexivity|].
    apply (Hwrap _ (x :: mm) _ (fun _ => ROk)); try discriminate; [reflexivity|].
    apply compact_range_okv. left. reflexivity.
  - (* Close *)
    destruct m as [mm|]; [|apply Hnone; discriminate].
    unfold wrap. eapply okv_bind; [apply close_okv|]. cbn beta. intros rd' _ _. cbn [okv].
    split; [intros; discriminate|discriminate].
  - (* Read *)
    destruct m as [mm|]; cbn [okv]; (split; [|intros _; reflexivity]).
    + cbn [fst]. intros y E. inversion E; subst. left. reflexivity.
    + intros; discriminate.
  - (* Clean *)
    destruct m as [mm|]; [|apply Hnone; discriminate].
    apply (Hwrap _ mm _ (fun r => snd r)); try discriminate; [reflexivity|]. apply clean_okv. left. reflexivity.
Qed.

(* ------------------------------------------------------------------ *)
(* 3. the state of c10_loop along the events of a step                 *)
(* ------------------------------------------------------------------ *)

Definition cx_call (h : nat) (o : apiop) (cx : c10_state) : c10_state :=
  match o with
  | AAdd tx _ | AAddMulti tx _ =>
      {| cx_commits := cx_commits cx; cx_pending := (h, tx) :: unassoc h (cx_pending cx);
         cx_seen := cx_seen cx; cx_versions := cx_versions cx |}
  | _ => cx
  end.
Definition cx_commit (h : nat) (cx : c10_state) : c10_state :=
  match assoc h (cx_pending cx) with
  | Some tx => {| cx_commits := cx_commits cx ++ [tx]; cx_pending := unassoc h (cx_pending cx);
                  cx_seen := cx_seen cx; cx_versions := cx_versions cx |}
  | None => cx
  end.
Definition cx_req (q : req) (h : nat) (cx : c10_state) : c10_state := if is_commit q then cx_commit h cx else cx.
Definition cx_snap (v : list nat) (cx : c10_state) : c10_state :=
  {| cx_commits := cx_commits cx; cx_pending := cx_pending cx; cx_seen := cx_seen cx;
     cx_versions := if existsb (list_nat_eqb v) (cx_versions cx) then cx_versions cx else v :: cx_versions cx |}.
Definition cx_read (h k : nat) (cx : c10_state) : c10_state :=
  {| cx_commits := cx_commits cx; cx_pending := cx_pending cx;
     cx_seen := (h, k) :: unassoc h (cx_seen cx); cx_versions := cx_versions cx |}.

Lemma cx_req_seen : forall q h cx, cx_seen (cx_req q h cx) = cx_seen cx.
Proof. intros. unfold cx_req, cx_commit. destruct (is_commit q); [|reflexivity]. destruct (assoc _ _); reflexivity. Qed.
Lemma cx_req_versions : forall q h cx, cx_versions (cx_req q h cx) = cx_versions cx.
Proof. intros. unfold cx_req, cx_commit. destruct (is_commit q); [|reflexivity]. destruct (assoc _ _); reflexivity. Qed.
Lemma cx_req_commits : forall q h cx, exists l, cx_commits (cx_req q h cx) = cx_commits cx ++ l.
Proof.
  intros. unfold cx_req, cx_commit. destruct (is_commit q); [|exists []; rewrite app_nil_r; reflexivity].
  destruct (assoc _ _) as [tx|]; [exists [tx]; reflexivity|exists []; rewrite app_nil_r; reflexivity].
Qed.

Lemma cx_snap_incl : forall v cx, incl (cx_versions cx) (cx_versions (cx_snap v cx)).
Proof. intros v cx. cbn. destruct (existsb _ _); [apply incl_refl|apply incl_tl, incl_refl]. Qed.
Lemma cx_snap_in : forall v cx, In v (cx_versions (cx_snap v cx)).
Proof. intros v cx. cbn. destruct (existsb _ _) eqn:E; [apply existsb_eqb_In; exact E|left; reflexivity]. Qed.
Lemma cx_snap_old : forall v cx x, In x (cx_versions (cx_snap v cx)) -> x = v \/ In x (cx_versions cx).
Proof. intros v cx x. cbn. destruct (existsb _ _); [auto|]. intros [<-|H]; auto. Qed.

Lemma c10_call : forall h o cx rest,
  c10_loop false cx (ECall h o :: rest) = c10_loop false (cx_call h o cx) rest.
Proof. intros. destruct o; reflexivity. Qed.

Lemma c10_req : forall h q rs fr cx s' rest,
  (is_commit q = true -> fr = FOk) ->
  c10_loop false cx (req_event h q rs fr :: ESnap s' :: rest)
  = c10_loop false (cx_snap (listed s') (cx_req q h cx)) rest.
Proof.
  intros h q rs fr cx s' rest Hc.
  assert (Hsn : forall c0, c10_loop false c0 (ESnap s' :: rest) = c10_loop false (cx_snap (listed s') c0) rest)
    by reflexivity.
  destruct q; cbn [req_event cx_req is_commit] in *; try (cbn [c10_loop]; apply Hsn).
  - destruct rs; cbn [c10_loop]; apply Hsn.
  - rewrite (Hc eq_refl). cbn [c10_loop]. unfold cx_commit. destruct (assoc h (cx_pending cx)); apply Hsn.
Qed.

Lemma c10_finish_other : forall h o m r cx rest, o <> ARead ->
  (forall mm, m = Some mm -> In (mnames mm) (cx_versions cx)) ->
  c10_loop false cx (finish_events h o m r ++ rest) = c10_loop false (cx_clr h cx) rest.
Proof.
  intros h o m r cx rest Ho Hm. unfold finish_events.
  assert (E : c10_loop false cx ((ERet h o r :: match m with Some mm => [EMem h (mnames mm) 0] | None => [] end) ++ rest)
              = c10_loop false (cx_clr h cx) (match m with Some mm => [EMem h (mnames mm) 0] | None => [] end ++ rest)).
  { destruct o; try congruence; reflexivity. }
  rewrite E. destruct m as [mm|]; [|reflexivity].
  cbn [app c10_loop Nat.eqb andb cx_clr cx_versions].
  rewrite (proj2 (existsb_eqb_In _ _) (Hm mm eq_refl)). reflexivity.
Qed.

Lemma c10_finish_nostack : forall h cx rest,
  c10_loop false cx (finish_events h ARead None RNoStack ++ rest) = c10_loop false (cx_clr h cx) rest.
Proof. intros. reflexivity. Qed.

Lemma c10_finish_read : forall h mm n cx rest,
  match assoc h (cx_seen cx) with Some k => k | None => 0 end <= n -> n <= length (cx_commits cx) ->
  In (mnames mm) (cx_versions cx) ->
  c10_loop false cx (finish_events h ARead (Some mm)
       (RView (firstn n (cx_commits cx)) (hd_error (rev (firstn n (cx_commits cx))))) ++ rest)
  = c10_loop false (cx_clr h (cx_read h n cx)) rest.
Proof.
  intros h mm n cx rest Hlo Hhi Hin. cbn [finish_events app c10_loop]. cbv zeta.
  rewrite (ipp_found (cx_commits cx) n (n - match assoc h (cx_seen cx) with Some k => k | None => 0 end))
    by lia.
  assert (E : match hd_error (rev (firstn n (cx_commits cx))), rev (firstn n (cx_commits cx)) with
              | Some x, y :: _ => Nat.eqb x y | None, [] => true | _, _ => false end = true).
  { destruct (rev (firstn n (cx_commits cx))); cbn; [reflexivity|apply Nat.eqb_refl]. }
  rewrite E. cbn [andb Nat.eqb cx_clr cx_versions cx_read].
  rewrite (proj2 (existsb_eqb_In _ _) Hin). reflexivity.
Qed.

(* ------------------------------------------------------------------ *)
(* 4. the strengthened world invariant                                 *)
(* ------------------------------------------------------------------ *)

(* the transactions of a version of tables.list, through the ghost table map *)
Definition vtx (γ : ghost) (v : list nat) : list nat := flat_map (fun n => tf_txs (G γ n)) v.

Definition ver_ok (γ : ghost) (commits : list nat) (v : list nat) : Prop :=
  (forall n, In n v -> seen γ n) /\ prefix (vtx γ v) commits.

Definition lowb (cx : c10_state) (i : nat) : nat := match assoc i (cx_seen cx) with Some k => k | None => 0 end.

(* [v] is a recorded version and not shorter than what handle [i] has shown last *)
Definition vbound (γ : ghost) (cx : c10_state) (i : nat) (v : list nat) : Prop :=
  In v (cx_versions cx) /\ lowb cx i <= length (vtx γ v).

Definition hrun (γ : ghost) (cx : c10_state) (i : nat) (o : apiop)
           (m0 : option mem) (p : prog (option mem * apires)) : Prop :=
  exists rd, okv rd p (Qv o m0) /\ (forall v, In v rd -> vbound γ cx i v).

Definition hx (γ : ghost) (cx : c10_state) (i : nat) (hd : handle) : Prop :=
  (forall m, h_mem hd = Some m -> vbound γ cx i (mnames m)) /\
  match h_pc hd with
  | HRun o p => hrun γ cx i o (h_mem hd) p
  | _ => True
  end.

Definition XG (γ : ghost) (s : fs) (st : c04_state) (cx : c10_state) : Prop :=
  cx_commits cx = c4_commits st /\
  (forall i, assoc i (cx_pending cx) = assoc i (c4_pending st)) /\
  In (listed_fs s) (cx_versions cx) /\
  (forall v, In v (cx_versions cx) -> ver_ok γ (cx_commits cx) v) /\
  (forall i k, assoc i (cx_seen cx) = Some k -> k <= length (cx_commits cx)).

Definition XInv (γ : ghost) (w : world) (st : c04_state) (cx : c10_state) : Prop :=
  XG γ (w_fs w) st cx /\
  forall i hd, nth_error (w_handles w) i = Some hd -> hx γ cx i hd.

Lemma xinv_set : forall γ s st cx hs h x,
  XG γ s st cx ->
  (forall i hd, i <> h -> nth_error hs i = Some hd -> hx γ cx i hd) ->
  hx γ cx h x ->
  XInv γ {| w_fs := s; w_handles := set_handle h x hs |} st cx.
Proof.
  intros γ s st cx hs h x HG Ho Hx. split; [exact HG|].
  cbn [w_fs w_handles]. intros i hd E. destruct (Nat.eq_dec i h) as [->|Hne].
  - apply nth_set_eq in E. subst. exact Hx.
  - rewrite nth_set_neq in E by exact Hne. apply Ho; assumption.
Qed.

Lemma vtx_frame : forall γ s γ' s' v,
  GI γ s -> frame γ s γ' s' -> (forall n, In n v -> seen γ n) -> vtx γ' v = vtx γ v.
Proof.
  intros γ s γ' s' v HG HF Hs. unfold vtx. apply flat_map_ext_in'. intros n Hn.
  rewrite (fr_G HF); [reflexivity|]. apply (g_seen_lt HG). apply Hs. exact Hn.
Qed.

Lemma txsm_vtx : forall γ m, memok γ m -> txsm m = vtx γ (mnames m).
Proof.
  intros γ m. induction m as [|[n f] m IH]; intros H; [reflexivity|].
  cbn [txsm vtx mnames map fst snd flat_map].
  rewrite (proj1 (H n f (or_introl eq_refl))). f_equal.
  apply IH. intros n' f' Hin. apply H. right. exact Hin.
Qed.

Lemma vbound_mono : forall γ s γ' s' cx cx' i v,
  GI γ s -> frame γ s γ' s' ->
  (forall v, In v (cx_versions cx) -> ver_ok γ (cx_commits cx) v) ->
  incl (cx_versions cx) (cx_versions cx') ->
  lowb cx' i <= lowb cx i ->
  vbound γ cx i v -> vbound γ' cx' i v.
Proof.
  intros γ s γ' s' cx cx' i v HG HF Hv Hi Hl [A B]. split; [apply Hi; exact A|].
  rewrite (vtx_frame _ _ _ _ v HG HF) by (apply (Hv v A)). lia.
Qed.

Lemma hx_other : forall γ s γ' s' cx cx' i hd,
  GI γ s -> frame γ s γ' s' ->
  (forall v, In v (cx_versions cx) -> ver_ok γ (cx_commits cx) v) ->
  incl (cx_versions cx) (cx_versions cx') ->
  assoc i (cx_seen cx') = assoc i (cx_seen cx) ->
  hx γ cx i hd -> hx γ' cx' i hd.
Proof.
  intros γ s γ' s' cx cx' i hd HG HF Hv Hi Es [Hm Hpc].
  assert (Hl : lowb cx' i <= lowb cx i) by (unfold lowb; rewrite Es; lia).
  assert (Hvb : forall v, vbound γ cx i v -> vbound γ' cx' i v)
    by (intros v; apply (vbound_mono _ _ _ _ _ _ _ _ HG HF Hv Hi Hl)).
  split; [intros m E; apply Hvb, Hm; exact E|].
  destruct (h_pc hd) as [|o p|]; [exact I| |exact I].
  destruct Hpc as (rd & A & B). exists rd. split; [exact A|]. intros v Hin. apply Hvb, B. exact Hin.
Qed.

(* ---------------- the end of a call ---------------- *)

Lemma x_finish : forall γ s st cx hs h o m0 m r script hh,
  GI γ s -> XG γ s st cx ->
  (forall i hd, i <> h -> nth_error hs i = Some hd -> hx γ cx i hd) ->
  hrun γ cx h o m0 (Ret (m, r)) ->
  (forall mm, m0 = Some mm -> vbound γ cx h (mnames mm) /\ memok γ mm) ->
  exists cx',
    XInv γ {| w_fs := s; w_handles := set_handle h {| h_mem := m; h_pc := HIdle; h_script := script; h_hash := hh |} hs |}
         (st_ret h st) cx' /\
    forall rest, c10_loop false cx (finish_events h o m r ++ rest) = c10_loop false cx' rest.
Proof.
  intros γ s st cx hs h o m0 m r script hh HG (X1 & Xp & X2 & X4 & X5) Ho (rd & Hq & Hrd) Hm0.
  cbn [okv] in Hq. destruct Hq as (Q2 & Q3). cbn [fst snd] in *.
  assert (Hpend : forall c0, cx_pending c0 = cx_pending cx ->
            forall i, assoc i (cx_pending (cx_clr h c0)) = assoc i (c4_pending (st_ret h st))).
  { intros c0 E i. cbn [cx_clr cx_pending st_ret c4_pending]. rewrite E. apply assoc_unassoc_cong. apply Xp. }
  assert (Hoth : forall cx', cx_versions cx' = cx_versions cx ->
            (forall i, i <> h -> assoc i (cx_seen cx') = assoc i (cx_seen cx)) ->
            forall i hd, i <> h -> nth_error hs i = Some hd -> hx γ cx' i hd).
  { intros cx' Ev Es i hd Hne E.
    apply hx_other with (γ := γ) (s := s) (s' := s) (cx := cx); auto.
    - apply frame_refl.
    - rewrite Ev. apply incl_refl. }
  destruct (apiop_eq_ARead o) as [->|Hnr].
  - (* a read *)
    specialize (Q3 eq_refl). destruct m0 as [mm|].
    + inversion Q3; subst m r. clear Q3.
      destruct (Hm0 mm eq_refl) as [[V1 V2] Hmok].
      destruct (X4 _ V1) as [_ Hpre].
      rewrite <- (txsm_vtx _ _ Hmok) in Hpre, V2.
      set (n := length (txsm mm)) in *.
      assert (Hn : n <= length (cx_commits cx)) by (apply prefix_length; exact Hpre).
      assert (Etx : txsm mm = firstn n (cx_commits cx)) by (apply prefix_firstn; exact Hpre).
      exists (cx_clr h (cx_read h n cx)). split.
      * apply xinv_set.
        -- unfold XG. cbn [cx_clr cx_commits cx_versions cx_seen cx_read st_ret c4_commits].
           split; [exact X1|]. split; [apply (Hpend (cx_read h n cx)); reflexivity|]. split; [exact X2|].
           split; [exact X4|].
           intros i k E. destruct (Nat.eq_dec i h) as [->|Hne].
           ++ rewrite assoc_cons_eq in E. inversion E; subst. exact Hn.
           ++ rewrite assoc_cons_neq, assoc_unassoc_neq in E by exact Hne. eapply X5; eauto.
        -- apply Hoth; [reflexivity|].
           intros i Hne. cbn [cx_clr cx_seen cx_read]. rewrite assoc_cons_neq, assoc_unassoc_neq by exact Hne. reflexivity.
        -- split; [|exact I].
           cbn [h_mem]. intros m E. inversion E; subst m. split; [exact V1|].
           unfold lowb. cbn [cx_clr cx_seen cx_read]. rewrite assoc_cons_eq.
           rewrite <- (txsm_vtx _ _ Hmok). fold n. lia.
      * intros rest. rewrite Etx. apply c10_finish_read; [exact V2|exact Hn|exact V1].
    + inversion Q3; subst m r. clear Q3.
      exists (cx_clr h cx). split.
      * apply xinv_set.
        -- unfold XG. cbn [cx_clr cx_commits cx_versions cx_seen st_ret c4_commits].
           split; [exact X1|]. split; [apply (Hpend cx); reflexivity|]. repeat split; auto; apply X4; auto.
        -- apply Hoth; reflexivity.
        -- split; [cbn; intros; discriminate|exact I].
      * intros rest. apply c10_finish_nostack.
  - (* any other call *)
    exists (cx_clr h cx). split.
    + apply xinv_set.
      * unfold XG. cbn [cx_clr cx_commits cx_versions cx_seen st_ret c4_commits].
        split; [exact X1|]. split; [apply (Hpend cx); reflexivity|]. repeat split; auto; apply X4; auto.
      * apply Hoth; reflexivity.
      * split; [|exact I]. cbn [h_mem]. intros mm E. exact (Hrd _ (Q2 mm E)).
    + intros rest. apply c10_finish_other; [exact Hnr|].
      intros mm E. apply (Hrd _ (Q2 mm E)).
Qed.

(* ---------------- the start of a call ---------------- *)

Lemma cx_call_same : forall h o cx,
  cx_commits (cx_call h o cx) = cx_commits cx /\ cx_seen (cx_call h o cx) = cx_seen cx /\
  cx_versions (cx_call h o cx) = cx_versions cx.
Proof. intros. destruct o; repeat split. Qed.

Lemma vbound_call : forall γ h o cx i v, vbound γ cx i v -> vbound γ (cx_call h o cx) i v.
Proof.
  intros γ h o cx i v [A B]. destruct (cx_call_same h o cx) as (_ & E2 & E3).
  split; [rewrite E3; exact A|]. unfold lowb in *. rewrite E2. exact B.
Qed.

Lemma x_call : forall att hh γ s st cx hs h o m0,
  GI γ s -> XG γ s st cx ->
  (forall i hd, i <> h -> nth_error hs i = Some hd -> hx γ cx i hd) ->
  (forall mm, m0 = Some mm -> vbound γ cx h (mnames mm)) ->
  XG γ s (st_call h o st) (cx_call h o cx) /\
  (forall i hd, i <> h -> nth_error hs i = Some hd -> hx γ (cx_call h o cx) i hd) /\
  hrun γ (cx_call h o cx) h o m0 (call_prog att hh o m0) /\
  (forall mm, m0 = Some mm -> vbound γ (cx_call h o cx) h (mnames mm)).
Proof.
  intros att hh γ s st cx hs h o m0 HG (X1 & Xp & X2 & X4 & X5) Ho Hm.
  destruct (cx_call_same h o cx) as (E1 & E2 & E3).
  split; [|split; [|split]].
  - unfold XG. rewrite E1, E2, E3, st_call_commits. split; [exact X1|]. split; [|repeat split; auto; apply X4; auto].
    intro i. destruct o; try apply Xp; cbn [cx_call st_call cx_pending c4_pending];
      (destruct (Nat.eq_dec i h) as [->|Hne];
       [rewrite !assoc_cons_eq; reflexivity|rewrite !assoc_cons_neq by exact Hne; apply assoc_unassoc_cong, Xp]).
  - intros i hd Hne E.
    apply hx_other with (γ := γ) (s := s) (s' := s) (cx := cx); auto.
    + apply frame_refl.
    + rewrite E3. apply incl_refl.
    + rewrite E2. reflexivity.
  - exists (rd_init o m0). split; [apply call_prog_okv|].
    intros v Hv. apply vbound_call.
    destruct o; cbn [rd_init] in Hv; try destruct Hv;
      (destruct m0 as [mm|]; [destruct Hv as [<-|[]]; apply Hm; reflexivity|destruct Hv]).
  - intros mm E. apply vbound_call. apply Hm. exact E.
Qed.

(* ---------------- one file-system operation ---------------- *)

Lemma apply_req_readlist : forall so c h s s' rs fr,
  apply_req so c h QReadList s = (s', rs, fr) -> s' = s /\ lnames rs = listed_fs s.
Proof. intros so c h s s' rs fr H. cbn in H. inversion H; subst. split; reflexivity. Qed.

Lemma x_req : forall so c h γ s st cx lg q γ' s' rs fr o m0 k (hs : list handle),
  GI γ s -> XG γ s st cx -> c4_commits st = txs_of γ s ->
  apply_req so c h q s = (s', rs, fr) ->
  step_post h γ s lg q γ' s' rs fr ->
  assoc h (c4_pending st) = pd lg ->
  hrun γ cx h o m0 (Op q k) ->
  (forall mm, m0 = Some mm -> vbound γ cx h (mnames mm)) ->
  (forall i hd, i <> h -> nth_error hs i = Some hd -> hx γ cx i hd) ->
  XG γ' s' (st_req q h st) (cx_snap (listed_fs s') (cx_req q h cx)) /\
  hrun γ' (cx_snap (listed_fs s') (cx_req q h cx)) h o m0 (k rs) /\
  (forall mm, m0 = Some mm -> vbound γ' (cx_snap (listed_fs s') (cx_req q h cx)) h (mnames mm)) /\
  (forall i hd, i <> h -> nth_error hs i = Some hd ->
     hx γ' (cx_snap (listed_fs s') (cx_req q h cx)) i hd) /\
  (forall rest, c10_loop false cx (req_event h q rs fr :: ESnap (snapshot_of s') :: rest)
                = c10_loop false (cx_snap (listed_fs s') (cx_req q h cx)) rest).
Proof.
  intros so c h γ s st cx lg q γ' s' rs fr o m0 k hs HG (X1 & Xp & X2 & X4 & X5) Hc Ha SP Hpd
         (rd & Hk & Hrd) Hm Ho.
  cbn [okv] in Hk.
  set (st1 := st_req q h st). set (cx1 := cx_snap (listed_fs s') (cx_req q h cx)).
  pose proof (sp_GI SP) as HG'. pose proof (sp_frame SP) as HF.
  assert (Ecm : cx_commits (cx_req q h cx) = c4_commits st1).
  { unfold st1, cx_req, st_req. destruct (is_commit q) eqn:Eq; [|exact X1].
    unfold cx_commit, st_commit. rewrite (Xp h).
    destruct (assoc h (c4_pending st)); cbn; rewrite X1; reflexivity. }
  assert (Hc1 : c4_commits st1 = txs_of γ' s').
  { rewrite (sp_txs SP). unfold st1, st_req. destruct (is_commit q).
    - unfold st_commit. rewrite Hpd. destruct (pd lg); cbn; [rewrite Hc; reflexivity|].
      rewrite app_nil_r. exact Hc.
    - rewrite app_nil_r. exact Hc. }
  assert (Ec1 : cx_commits cx1 = c4_commits st1) by exact Ecm.
  destruct (cx_req_commits q h cx) as [ext Eext].
  assert (Ev1 : incl (cx_versions cx) (cx_versions cx1)).
  { unfold cx1. eapply incl_tran; [|apply cx_snap_incl]. rewrite cx_req_versions. apply incl_refl. }
  assert (Es1 : cx_seen cx1 = cx_seen cx) by (unfold cx1; cbn [cx_snap cx_seen]; apply cx_req_seen).
  assert (Hlow : forall i, lowb cx1 i <= lowb cx i) by (intro i; unfold lowb; rewrite Es1; lia).
  assert (Hvb : forall i v, vbound γ cx i v -> vbound γ' cx1 i v).
  { intros i v. apply (vbound_mono _ _ _ _ _ _ _ _ HG HF X4 Ev1 (Hlow i)). }
  assert (Hlen : forall i, lowb cx1 i <= length (cx_commits cx1)).
  { intro i. unfold lowb. rewrite Es1. destruct (assoc i (cx_seen cx)) as [k0|] eqn:E; [|lia].
    apply X5 in E. change (cx_commits cx1) with (cx_commits (cx_req q h cx)). rewrite Eext, app_length. lia. }
  assert (Hnew : vtx γ' (listed_fs s') = cx_commits cx1) by (rewrite Ec1, Hc1; reflexivity).
  split; [|split; [|split; [|split]]].
  - unfold XG. split; [exact Ec1|]. split; [|split; [apply cx_snap_in|split]].
    + intro i. unfold cx1, st1. cbn [cx_snap cx_pending]. unfold cx_req, st_req.
      destruct (is_commit q); [|apply Xp]. unfold cx_commit, st_commit. rewrite (Xp h).
      destruct (assoc h (c4_pending st)); cbn [cx_pending c4_pending]; [apply assoc_unassoc_cong|]; apply Xp.
    + intros v Hv. apply cx_snap_old in Hv as [->|Hv].
      * split; [intros n Hn; apply (g_seen HG'); exact Hn|]. rewrite Hnew. apply prefix_refl.
      * rewrite cx_req_versions in Hv. destruct (X4 v Hv) as [A B]. split.
        -- intros n Hn. apply (fr_seen HF). apply A. exact Hn.
        -- rewrite (vtx_frame _ _ _ _ v HG HF A).
           change (cx_commits cx1) with (cx_commits (cx_req q h cx)). rewrite Eext. apply prefix_app. exact B.
    + intros i k0 E. rewrite Es1 in E. apply X5 in E.
      change (cx_commits cx1) with (cx_commits (cx_req q h cx)). rewrite Eext, app_length. lia.
  - exists (rd_step q rs rd). split; [apply Hk|].
    intros v Hv.
    assert (Hold : In v rd -> vbound γ' cx1 h v) by (intro X; apply Hvb, Hrd; exact X).
    destruct q; cbn [rd_step] in Hv; try (apply Hold; exact Hv).
    destruct Hv as [<-|Hv]; [|apply Hold; exact Hv].
    destruct (apply_req_readlist _ _ _ _ _ _ _ Ha) as [-> ->].
    split; [apply cx_snap_in|]. rewrite Hnew. apply Hlen.
  - intros mm E. apply Hvb, Hm. exact E.
  - intros i hd Hne E.
    apply hx_other with (γ := γ) (s := s) (s' := s') (cx := cx); auto.
    rewrite Es1. reflexivity.
  - intros rest. apply c10_req. apply (sp_commit SP).
Qed.

(* ---------------- a step, a crash, a run ---------------- *)

Lemma step_x : forall so att γ w st cx h c w' evs,
  WInv γ w st -> XInv γ w st cx -> step so att w h c = (w', evs) ->
  exists γ' st' cx', WInv γ' w' st' /\ XInv γ' w' st' cx' /\
    forall rest, c10_loop false cx (evs ++ rest) = c10_loop false cx' rest.
Proof.
  intros so att γ w st cx h c w' evs (HG & Hc & Hh) (HXG & Hxh) H. unfold step in H.
  assert (Hnop : (w', evs) = (w, []) ->
            exists γ' st' cx', WInv γ' w' st' /\ XInv γ' w' st' cx' /\
              forall rest, c10_loop false cx (evs ++ rest) = c10_loop false cx' rest).
  { intro E. inversion E; subst. exists γ, st, cx. split; [split; [exact HG|split; assumption]|].
    split; [split; assumption|]. reflexivity. }
  destruct (nth_error (w_handles w) h) as [hd|] eqn:En; [|apply Hnop; congruence].
  destruct (Hh h hd En) as (Hmem & Hmh & Hpc).
  destruct (Hxh h hd En) as (Hxm & Hxpc).
  assert (Hothers : forall i hd', i <> h -> nth_error (w_handles w) i = Some hd' -> hinv γ (w_fs w) st i hd')
    by (intros i hd' _ E; apply Hh; exact E).
  assert (Hxothers : forall i hd', i <> h -> nth_error (w_handles w) i = Some hd' -> hx γ cx i hd')
    by (intros i hd' _ E; apply Hxh; exact E).
  destruct (h_pc hd) as [|o p|] eqn:Epc; [| |apply Hnop; congruence].
  - (* a call starts *)
    destruct (h_script hd) as [|o rest] eqn:Es; [apply Hnop; congruence|].
    pose proof (@call_prog_ok att (h_hash hd) o (h_mem hd) Hmh) as Hok.
    pose proof (@interp_init γ (w_fs w) h o (h_mem hd) HG Hmem) as HI.
    destruct Hpc as [Hp0 Hd0].
    set (st1 := st_call h o st). set (cx1 := cx_call h o cx).
    assert (Hp1 : assoc h (c4_pending st1) = pd (lg_init o (h_mem hd))).
    { unfold st1. destruct o; cbn; try exact Hp0; rewrite Nat.eqb_refl; reflexivity. }
    assert (Hd1 : assoc h (c4_done st1) = dn (lg_init o (h_mem hd))).
    { unfold st1. destruct o; cbn; try exact Hd0; apply assoc_unassoc_eq. }
    assert (Hc1 : c4_commits st1 = txs_of γ (w_fs w)) by (unfold st1; rewrite st_call_commits; exact Hc).
    assert (Ho1 : forall i hd', i <> h -> nth_error (w_handles w) i = Some hd' -> hinv γ (w_fs w) st1 i hd').
    { intros i hd' Hne E. destruct (@st_call_other i h o st Hne) as [A B].
      apply hinv_other with (γ := γ) (s := w_fs w) (st := st); auto.
      - apply frame_refl.
      - apply keepsL_refl.
      - apply keepsT_refl. }
    destruct (x_call att (h_hash hd) γ (w_fs w) st cx (w_handles w) h o (h_mem hd) HG HXG Hxothers Hxm)
      as (XG1 & XO1 & XR1 & XM1).
    fold st1 cx1 in XG1, XO1, XR1, XM1.
    destruct (call_prog att (h_hash hd) o (h_mem hd)) as [[m r]|q k] eqn:Ecp.
    + inversion H; subst w' evs. clear H.
      destruct (@finish_inv γ (w_fs w) st1 (w_handles w) h o m r _ rest (h_hash hd) HG Hc1 Ho1 HI Hok Hd1)
        as (W & _ & _).
      destruct (x_finish γ (w_fs w) st1 cx1 (w_handles w) h o (h_mem hd) m r rest (h_hash hd) HG XG1 XO1 XR1) as [cx' [XI XL]].
      { intros mm E. split; [apply XM1; exact E|apply Hmem; exact E]. }
      exists γ, (st_ret h st1), cx'. split; [exact W|]. split; [exact XI|].
      intros rest'. cbn [app]. rewrite c10_call. apply XL.
    + inversion H; subst w' evs. clear H.
      exists γ, st1, cx1. split; [|split].
      * apply winv_set; auto.
        split; [exact Hmem|]. split; [exact Hmh|]. cbn [h_pc h_hash].
        exists (lg_init o (h_mem hd)). auto.
      * apply xinv_set; auto. split; [exact XM1|]. cbn [h_pc h_mem]. exact XR1.
      * intros rest'. cbn [app]. apply c10_call.
  - (* inside a call *)
    destruct Hpc as (lg & HI & Hok & Hp0 & Hd0).
    destruct p as [[m r]|q k].
    + (* the call returns *)
      inversion H; subst w' evs. clear H.
      destruct (@finish_inv γ (w_fs w) st (w_handles w) h o m r lg (h_script hd) (h_hash hd) HG Hc Hothers HI Hok Hd0)
        as (W & _ & _).
      destruct (x_finish γ (w_fs w) st cx (w_handles w) h o (h_mem hd) m r (h_script hd) (h_hash hd) HG HXG Hxothers Hxpc)
        as [cx' [XI XL]].
      { intros mm E. split; [apply Hxm; exact E|apply Hmem; exact E]. }
      exists γ, (st_ret h st), cx'. split; [exact W|]. split; [exact XI|exact XL].
    + (* one file-system operation *)
      destruct (apply_req so c h q (w_fs w)) as [[s' rs] fr] eqn:Ea.
      cbn [ok] in Hok. destruct Hok as [Hal Hk].
      destruct (@req_step so c h q γ (w_fs w) lg s' rs fr HG HI Hal Ea) as [γ' SP].
      specialize (Hk rs (sp_poss SP)).
      set (st1 := st_req q h st).
      assert (Hc1 : c4_commits st1 = txs_of γ' s').
      { rewrite (sp_txs SP). unfold st1, st_req. destruct (is_commit q).
        - unfold st_commit. rewrite Hp0. destruct (pd lg); cbn; [rewrite Hc; reflexivity|].
          rewrite app_nil_r. exact Hc.
        - rewrite app_nil_r. exact Hc. }
      assert (Hp1 : assoc h (c4_pending st1) = pd (nxt lg q rs) /\ assoc h (c4_done st1) = dn (nxt lg q rs)).
      { unfold st1, st_req. destruct (is_commit q) eqn:Eq.
        - destruct q; try discriminate Eq. cbn [nxt pd dn]. unfold st_commit. rewrite Hp0.
          destruct (pd lg) as [tx|] eqn:Epd; cbn.
          + rewrite Nat.eqb_refl. split; [apply assoc_unassoc_eq|reflexivity].
          + split; [rewrite Hp0; reflexivity|exact Hd0].
        - destruct (@nxt_pd_dn lg q rs Eq) as [A B]. rewrite A, B. auto. }
      destruct Hp1 as [Hp1 Hd1].
      assert (Ho1 : forall i hd', i <> h -> nth_error (w_handles w) i = Some hd' -> hinv γ' s' st1 i hd').
      { intros i hd' Hne E.
        apply hinv_other with (γ := γ) (s := w_fs w) (st := st); auto.
        - apply (sp_frame SP).
        - apply (sp_keepL SP). exact Hne.
        - apply (sp_keepT SP). exact Hne.
        - unfold st1, st_req. destruct (is_commit q); [apply st_commit_other; exact Hne|reflexivity].
        - unfold st1, st_req. destruct (is_commit q); [apply st_commit_other; exact Hne|reflexivity]. }
      destruct (x_req so c h γ (w_fs w) st cx lg q γ' s' rs fr o (h_mem hd) k (w_handles w)
                      HG HXG Hc Ea SP Hp0 Hxpc Hxm Hxothers) as (XG1 & XR1 & XM1 & XO1 & XL1).
      fold st1 in XG1.
      set (cx1 := cx_snap (listed_fs s') (cx_req q h cx)) in *.
      destruct (k rs) as [[m r]|q' k'] eqn:Ek.
      * inversion H; subst w' evs. clear H. cbn [ok] in Hk.
        destruct (@finish_inv γ' s' st1 (w_handles w) h o m r _ (h_script hd) (h_hash hd) (sp_GI SP) Hc1 Ho1 (sp_interp SP) Hk Hd1)
          as (W & _ & _).
        destruct (x_finish γ' s' st1 cx1 (w_handles w) h o (h_mem hd) m r (h_script hd) (h_hash hd) (sp_GI SP) XG1 XO1 XR1)
          as [cx' [XI XL]].
        { intros mm E. split; [apply XM1; exact E|].
          eapply memok_stable; [exact HG|apply (sp_frame SP)|]. apply Hmem. exact E. }
        exists γ', (st_ret h st1), cx'. split; [exact W|]. split; [exact XI|].
        intros rest. cbn [app]. rewrite XL1. apply XL.
      * inversion H; subst w' evs. clear H.
        exists γ', st1, cx1. split; [|split].
        -- apply winv_set; auto.
           ++ apply (sp_GI SP).
           ++ split.
              ** cbn [h_mem]. intros mm E. eapply memok_stable; [exact HG|apply (sp_frame SP)|]. apply Hmem. exact E.
              ** split; [exact Hmh|]. cbn [h_pc h_hash]. exists (nxt lg q rs). split; [apply (sp_interp SP)|]. auto.
        -- apply xinv_set; auto. split; [exact XM1|]. cbn [h_pc h_mem]. exact XR1.
        -- intros rest. cbn [app]. apply XL1.
Qed.

Lemma crash_x : forall γ w st cx h w' evs,
  WInv γ w st -> XInv γ w st cx -> crash w h = (w', evs) ->
  WInv γ w' st /\ XInv γ w' st cx /\
  forall rest, c10_loop false cx (evs ++ rest) = c10_loop false cx rest.
Proof.
  intros γ w st cx h w' evs HW (HXG & Hxh) H.
  destruct (@crash_inv γ w st h w' evs HW H) as (W & _ & _).
  split; [exact W|]. unfold crash in H.
  destruct (nth_error (w_handles w) h) as [hd|] eqn:En.
  - inversion H; subst w' evs. clear H. split; [|reflexivity].
    apply xinv_set; auto. destruct (Hxh h hd En) as (Hxm & _). split; [exact Hxm|exact I].
  - inversion H; subst w' evs. split; [split; assumption|reflexivity].
Qed.

Lemma run_x : forall so att sched γ w st cx w' evs,
  WInv γ w st -> XInv γ w st cx -> run so att w sched = (w', evs) ->
  c10_loop false cx evs = true.
Proof.
  intros so att. induction sched as [|[h c|h] sched IH]; intros γ w st cx w' evs HW HX H; cbn [run] in H.
  - inversion H; subst. reflexivity.
  - destruct (step so att w h c) as [w1 e1] eqn:E1.
    destruct (run so att w1 sched) as [w2 e2] eqn:E2. inversion H; subst w' evs. clear H.
    destruct (step_x so att γ w st cx h c w1 e1 HW HX E1) as (γ' & st' & cx' & HW' & HX' & XL).
    rewrite XL. eapply IH; eauto.
  - destruct (crash w h) as [w1 e1] eqn:E1.
    destruct (run so att w1 sched) as [w2 e2] eqn:E2. inversion H; subst w' evs. clear H.
    destruct (crash_x γ w st cx h w1 e1 HW HX E1) as (HW' & HX' & XL).
    rewrite XL. eapply IH; eauto.
Qed.

(* ------------------------------------------------------------------ *)
(* 5. the initial world, the theorems                                  *)
(* ------------------------------------------------------------------ *)

Definition cx_init (tabs : list (nat * tfile)) : c10_state :=
  {| cx_commits := snap_txs (snapshot_of (init_fs tabs)); cx_pending := []; cx_seen := [];
     cx_versions := [listed (snapshot_of (init_fs tabs)); []] |}.

Lemma XInv_init : forall tabs scripts,
  init_ok tabs -> XInv (ghost0 tabs) (init_world tabs scripts) (st_init tabs) (cx_init tabs).
Proof.
  intros tabs scripts Hi. pose proof (@GI_init tabs Hi) as HG.
  split.
  - unfold XG. cbn [cx_init cx_commits cx_versions cx_seen cx_pending st_init c4_commits c4_pending init_world w_fs].
    split; [reflexivity|]. split; [reflexivity|]. split; [left; reflexivity|]. split.
    + intros v [<-|[<-|[]]].
      * change (listed (snapshot_of (init_fs tabs))) with (listed_fs (init_fs tabs)). split.
        -- intros n Hn. apply (g_seen HG). exact Hn.
        -- rewrite (snap_txs_snapshot HG). apply prefix_refl.
      * split; [intros n []|apply prefix_nil].
    + intros i k E. discriminate E.
  - cbn [init_world w_handles w_fs]. intros i hd E. apply nth_error_In in E.
    apply in_map_iff in E as [s [<- Hin]].
    split; [cbn; intros; discriminate|exact I].
Qed.

(* property C10: a handle's view is one committed snapshot and stays readable under churn *)
Theorem c10_all_traces : forall size_oracle attempts tabs scripts sched,
  init_ok tabs ->
  c10_ok (trace_of size_oracle attempts tabs scripts sched) = true.
Proof.
  intros so att tabs scripts sched Hi. unfold c10_ok, trace_of.
  destruct (run so att (init_world tabs scripts) sched) as [w' evs] eqn:E. cbn [snd].
  change (c10_loop false (cx_init tabs) evs = true).
  exact (run_x so att sched _ _ _ _ _ _ (@WInv_init tabs scripts Hi) (XInv_init tabs scripts Hi) E).
Qed.

(* property C06: crash atomicity (c06_ok = c04_ok && c05_ok && c10_ok, on traces that may contain crashes) *)
Theorem c06_all_traces : forall size_oracle attempts tabs scripts sched,
  init_ok tabs ->
  c06_ok (trace_of size_oracle attempts tabs scripts sched) = true.
Proof.
  intros so att tabs scripts sched Hi. unfold c06_ok.
  rewrite (@c04_all_traces so att tabs scripts sched Hi), (@c05_all_traces so att tabs scripts sched Hi),
          (c10_all_traces so att tabs scripts sched Hi). reflexivity.
Qed.

Print Assumptions c10_all_traces.
Print Assumptions c06_all_traces.
